/-
  Line-protocol driver: one tab-separated operation per line on stdin, one canonical result line
  on stdout.  Strings are dot-separated hexadecimal code points, `-` is the empty string.
  Runs the executable definitions of SV.Model (Impl) and SV.Spec on the regenerated tables.
-/
import SV.Gen.Ctx
import SV.Model.Iban
import SV.Model.Obj
import SV.Model.Random
import SV.Gen.Classes
import SV.Spec.All
open SV

def parseKind (k : String) : Option (Cls × Option Str) :=
  if k == "iban" then some (.iban, none)
  else if k == "bic" then some (.bic, none)
  else if k == "str" then some (.str, none)
  else if k.startsWith "bban:" then (parseStr (k.drop 5).toString).map (fun cc => (.bban, some cc))
  else none

def showCls : Cls → String
  | .iban => "IBAN" | .bic => "BIC" | .bban => "BBAN" | .str => "str"

def showObj (o : Obj) : String :=
  showCls o.cls ++ " " ++ showStr o.value ++ " " ++ (match o.country with | some c => showStr c | none => "-")

structure DState where
  R : Registry := []

def allComponents (X : Ctx) (cc bban : Str) : String :=
  " ".intercalate (Component.all.map (fun k => showRes showStr (BBAN.component X.T cc bban k)))

def step (st : DState) (line : String) : DState × String :=
  let X := Gen.ctx st.R
  let fields := line.splitOn "\t"
  let bad := (st, "bad-op")
  match fields with
  | ["reg.reset"] => ({ st with R := [] }, "ok")
  | ["reg.synthetic"] => ({ st with R := [] }, "ok")
  | ["reg.bundled"] => ({ st with R := [] }, "ok")
  | ["reg.add", cc, code, bic, primary, algo, name, short] =>
    match parseStr cc, parseStr code, parseBool primary, parseStr name, parseStr short with
    | some cc, some code, some p, some nm, some sh =>
      let bic' : Option (Option Str) := if bic == "null" then some none else (parseStr bic).map some
      -- absent key -> none; JSON null -> the text "None" (what the f-string produces)
      let algo' : Option (Option Str) :=
        if algo == "absent" then some none
        else if algo == "null" then some (some [78, 111, 110, 101])
        else (parseStr algo).map some
      match bic', algo' with
      | some b, some a =>
        ({ st with R := st.R ++ [⟨cc, code, b, p, a, nm, sh⟩] }, "ok")
      | _, _ => bad
    | _, _, _, _, _ => bad
  | ["clean", s] =>
    match parseStr s with
    | some s => (st, "ok " ++ showStr (clean X.U s))
    | none => bad
  | ["iban.new", s, ai, vb] =>
    match parseStr s, parseBool ai, parseBool vb with
    | some s, some ai, some vb => (st, showRes showStr (IBAN.new X s ai vb))
    | _, _, _ => bad
  | ["iban.validate", c, vb] =>
    match parseStr c, parseBool vb with
    | some c, some vb => (st, showRes showBool (IBAN.validate X c vb))
    | _, _ => bad
  | ["iban.is_valid", c] =>
    match parseStr c with
    | some c => (st, showRes showBool (IBAN.isValid X c))
    | none => bad
  | ["iban.obj_seq", c, steps] =>
    match parseStr c with
    | some c =>
      let outs := steps.toList.map (fun ch =>
        if ch == 'v' then showRes showBool (IBAN.validate X c false)
        else if ch == 'V' then showRes showBool (IBAN.validate X c true)
        else showRes showBool (IBAN.isValid X c))
      (st, "ok " ++ ";".intercalate outs)
    | none => bad
  | ["iban.parts", c] =>
    match parseStr c with
    | some c =>
      let cc := IBAN.countryCode c
      let b := IBAN.bban X.U c
      (st, "ok " ++ showStr cc ++ " " ++ showStr (IBAN.checksumDigits c) ++ " " ++ showStr b ++ " "
        ++ showStr (IBAN.formatted c) ++ " " ++ allComponents X cc b)
    | none => bad
  | ["iban.from_bban", cc, b] =>
    match parseStr cc, parseStr b with
    | some cc, some b => (st, showRes showStr (IBAN.fromBban X cc b false false))
    | _, _ => bad
  | ["iban.generate", cc, bank, account, branch] =>
    match parseStr cc, parseStr bank, parseStr account, parseStr branch with
    | some cc, some bank, some account, some branch =>
      (st, showRes showStr (IBAN.generate X cc bank account branch))
    | _, _, _, _ => bad
  | "bban.from_components" :: cc :: kvs =>
    match parseStr cc, kvs.mapM parseKV with
    | some cc, some kvs => (st, showRes showStr (BBAN.fromComponents X cc kvs))
    | _, _ => bad
  | ["bban.national", cc, b] =>
    match parseStr cc, parseStr b with
    | some cc, some b => (st, showRes showBool (BBAN.validateNational X cc b))
    | _, _ => bad
  | ["bban.bank", cc, b] =>
    match parseStr cc, parseStr b with
    | some cc, some b =>
      (st, showRes (fun o => match o with
        | none => "None"
        | some (e : BankEntry) => showStr e.bankCode ++ " " ++ showOpt e.bic ++ " " ++ showStr e.name
            ++ " " ++ showStr e.shortName) (BBAN.bank X cc b)
        ++ " | " ++ showRes showOpt (BBAN.bic X cc b))
    | _, _ => bad
  | ["bic.new", s, ai, strict] =>
    match parseStr s, parseBool ai, parseBool strict with
    | some s, some ai, some strict => (st, showRes showStr (BIC.new X.B s ai strict))
    | _, _, _ => bad
  | ["bic.validate", c, strict] =>
    match parseStr c, parseBool strict with
    | some c, some strict => (st, showRes showBool (BIC.validate X.B c strict))
    | _, _ => bad
  | ["bic.is_valid", c] =>
    match parseStr c with
    | some c => (st, showRes showBool (BIC.isValid X.B c))
    | none => bad
  | ["bic.parts", c] =>
    match parseStr c with
    | some c => (st, "ok " ++ showStr (BIC.bankCode c) ++ " " ++ showStr (BIC.countryCode c) ++ " "
        ++ showStr (BIC.locationCode c) ++ " " ++ showStr (BIC.branchCode c) ++ " "
        ++ showStr (BIC.formatted c))
    | none => bad
  | ["bic.candidates", cc, code] =>
    match parseStr cc, parseStr code with
    | some cc, some code => (st, showRes showList (BIC.candidates X.B X.R cc code))
    | _, _ => bad
  | ["bic.from_bank_code", cc, code] =>
    match parseStr cc, parseStr code with
    | some cc, some code => (st, showRes showStr (BIC.fromBankCode X.B X.R cc code))
    | _, _ => bad
  | ["bic.lookup", c] =>
    match parseStr c with
    | some c => (st, "ok " ++ showList (BIC.domesticBankCodes X.R c) ++ " "
        ++ showList (BIC.bankNames X.R c) ++ " " ++ showList (BIC.bankShortNames X.R c) ++ " "
        ++ showBool (BIC.exists_ X.R c))
    | none => bad
  | "algo.compute" :: key :: comps =>
    match parseStr key, comps.mapM parseStr with
    | some key, some comps =>
      match X.A.get key with
      | some a => (st, showRes showStr (a.ref.compute X.U comps))
      | none => (st, "none")
    | _, _ => bad
  | "algo.validate" :: key :: expected :: comps =>
    match parseStr key, parseStr expected, comps.mapM parseStr with
    | some key, some ex, some comps =>
      match X.A.get key with
      | some a => (st, showRes showBool (a.ref.validate X.U comps ex))
      | none => (st, "none")
    | _, _, _ => bad
  | "iban.random_model" :: cc :: useReg :: bankIdx :: xegers :: kvs =>
    -- xegers: comma-separated hex strings ("-" = none recorded)
    match parseStr cc, parseBool useReg, kvs.mapM parseKV,
          (if xegers == "none" then some [] else (xegers.splitOn ",").mapM parseStr) with
    | some cc, some ur, some kvs, some xs =>
      let bi : Option Nat := if bankIdx == "-" then none else bankIdx.toNat?
      (st, showRes showStr (IBAN.random X cc ur kvs ⟨bi, xs⟩))
    | _, _, _, _ => bad
  | ["obj.cmp", k1, s1, k2, s2] =>
    match parseKind k1, parseStr s1, parseKind k2, parseStr s2 with
    | some (c1, cc1), some s1, some (c2, cc2), some s2 =>
      let a := Obj.make X.U c1 cc1 s1
      let b := Obj.make X.U c2 cc2 s2
      (st, "ok " ++ " ".intercalate ([pyEq a b, !pyEq a b, pyLt a b, pyLe a b, pyLt b a, pyLe b a,
        pyHashKey a == pyHashKey b, pyEq a b].map showBool))
    | _, _, _, _ => bad
  | ["obj.copy", k, s, how] =>
    match parseKind k, parseStr s with
    | some (c, cc), some s =>
      let o := Obj.make X.U c cc s
      (st, showRes showObj (if how == "copy" then pyCopy X.U Gen.classFacts o else pyDeepCopy X.U Gen.classFacts o))
    | _, _ => bad
  | ["json.merge", l, r] =>
    match parseJ l, parseJ r with
    | some (.obj a), some (.obj b) => (st, "ok " ++ showJ (.obj (mergeDicts a b)))
    | _, _ => bad
  | ["json.parse_v2", d] =>
    match parseJ d with
    | some d => (st, match parseV2 d with
        | some l => "ok " ++ showJ (.arr l)
        | none => "exception")
    | none => bad
  | "registry.get" :: files =>
    -- files: name=doc pairs
    match files.mapM (fun f => match f.splitOn "=" with
        | [n, d] => do
          let n ← parseStr n
          let d ← parseJ d
          pure (⟨n, d⟩ : RegFile)
        | _ => none) with
    | some fs => (st, match registryGet fs with
        | some d => "ok " ++ showJ d
        | none => "exception")
    | none => bad
  | op :: args =>
    match Spec.dispatch X op args with
    | some out => (st, out)
    | none => bad
  | [] => bad

partial def loop (h : IO.FS.Stream) (out : IO.FS.Stream) (st : DState) : IO Unit := do
  let line ← h.getLine
  if line.isEmpty then return ()
  let line := String.ofList (line.toList.reverse.dropWhile (fun c => c == (Char.ofNat 10) || c == (Char.ofNat 13))).reverse
  let (st', o) := step st line
  out.putStrLn o
  loop h out st'

def main : IO Unit := do
  let stdin ← IO.getStdin
  let stdout ← IO.getStdout
  loop stdin stdout {}
  stdout.flush
