/-
  SV.Proofs.Clean — lemmas about `clean` (whitespace removal + upper-casing) under the
  decidable well-formedness facts of the interpreter's Unicode tables.
-/
import SV.Model.Iban
namespace SV

/-- Decidable facts about the Unicode tables that the generic theorems need.  They are
    discharged for the regenerated tables by kernel evaluation (`Gen` instance obligations). -/
structure Unicode.WF (U : Unicode) : Prop where
  /-- ASCII lower-case letters upper-case to the corresponding upper-case letter. -/
  lower : ∀ c ∈ List.range 26, U.upperMap.lookup (c + 97) = some [c + 65]
  /-- ASCII upper-case letters and digits are left alone by `upper`. -/
  fixedUpper : ∀ c ∈ List.range 26, U.upperMap.lookup (c + 65) = none
  fixedDigit : ∀ c ∈ List.range 10, U.upperMap.lookup (c + 48) = none
  /-- `upper` never produces whitespace or an ASCII lower-case letter, and its output is a
      fixed point of `upper`. -/
  image : ∀ p ∈ U.upperMap, ∀ x ∈ p.2,
    U.isSpace x = false ∧ isAsciiLower x = false ∧ U.upperMap.lookup x = none
  /-- The ASCII space is whitespace. -/
  space : U.isSpace 32 = true
  /-- The newline is whitespace (so a compact form never ends in the newline Python's `$`
      tolerates). -/
  newline : U.isSpace 10 = true
  /-- ASCII digits are `\d` with their own value, ASCII letters are not `\d`. -/
  digits : ∀ c ∈ List.range 10,
    U.digitZeros.find? (fun z => z ≤ c + 48 && c + 48 ≤ z + 9) = some 48
  /-- `int()` accepts at least 100 digits. -/
  maxInt : 100 ≤ U.maxIntDigits
  noLetterDigit : ∀ c ∈ List.range 26, U.isDigit (c + 65) = false
  /-- No whitespace among ASCII letters and digits. -/
  alnumNotSpace : ∀ c ∈ List.range 75, U.isSpace (c + 48) = false

/-- Boolean form of `Unicode.WF`, arranged for cheap kernel evaluation: `km` / `sm` are bit
    masks (bit `c` set for every key of `upperMap` / every whitespace code point), supplied by
    the translator.  Only "every listed code point has its bit set" is needed of them — it is
    checked here — so they are not trusted. -/
def Unicode.wfb (U : Unicode) (km sm : Nat) : Bool :=
  U.upperMap.all (fun p => Nat.testBit km p.1) &&
  U.spaces.all (fun w => Nat.testBit sm w) &&
  (List.range 26).all (fun c => U.upperMap.lookup (c + 97) == some [c + 65]) &&
  (List.range 26).all (fun c => !Nat.testBit km (c + 65)) &&
  (List.range 10).all (fun c => !Nat.testBit km (c + 48)) &&
  U.upperMap.all (fun p => p.2.all (fun x =>
    !Nat.testBit sm x && !isAsciiLower x && !Nat.testBit km x)) &&
  U.isSpace 32 && U.isSpace 10 &&
  (List.range 10).all (fun c =>
    U.digitZeros.find? (fun z => z ≤ c + 48 && c + 48 ≤ z + 9) == some 48) &&
  decide (100 ≤ U.maxIntDigits) &&
  (List.range 26).all (fun c => U.isDigit (c + 65) == false) &&
  (List.range 75).all (fun c => !Nat.testBit sm (c + 48))

theorem lookup_none_of_mask {m : List (Nat × List Nat)} {km x : Nat}
    (hk : ∀ p ∈ m, Nat.testBit km p.1 = true) (hx : Nat.testBit km x = false) :
    m.lookup x = none := by
  induction m with
  | nil => rfl
  | cons p t ih =>
    obtain ⟨k, v⟩ := p
    have hne : (x == k) = false := by
      cases h : x == k with
      | false => rfl
      | true =>
        have : x = k := by simpa using h
        subst this
        have := hk (x, v) (by simp)
        simp [hx] at this
    simp only [List.lookup, hne]
    exact ih (fun p hp => hk p (by simp [hp]))

theorem isSpace_false_of_mask {U : Unicode} {sm x : Nat}
    (hs : ∀ w ∈ U.spaces, Nat.testBit sm w = true) (hx : Nat.testBit sm x = false) :
    U.isSpace x = false := by
  cases h : U.isSpace x with
  | false => rfl
  | true =>
    have : x ∈ U.spaces := by simpa [Unicode.isSpace] using h
    have := hs x this
    simp [hx] at this

theorem Unicode.wf_of_wfb {U : Unicode} {km sm : Nat} (h : U.wfb km sm = true) : U.WF := by
  simp only [Unicode.wfb, Bool.and_eq_true, List.all_eq_true, beq_iff_eq, Bool.not_eq_true'] at h
  obtain ⟨⟨⟨⟨⟨⟨⟨⟨⟨⟨⟨hk, hs⟩, h1⟩, h2⟩, h3⟩, h4⟩, h5⟩, h5'⟩, h6⟩, h6'⟩, h7⟩, h8⟩ := h
  exact ⟨h1, fun c hc => lookup_none_of_mask hk (h2 c hc),
    fun c hc => lookup_none_of_mask hk (h3 c hc),
    fun p hp x hx => by
      have := h4 p hp x hx
      exact ⟨isSpace_false_of_mask hs this.1.1, this.1.2, lookup_none_of_mask hk this.2⟩,
    h5, h5', h6, by simpa using h6', h7, fun c hc => isSpace_false_of_mask hs (h8 c hc)⟩

variable {U : Unicode}

theorem clean_nil : clean U [] = [] := rfl

theorem clean_append (s t : Str) : clean U (s ++ t) = clean U s ++ clean U t := by
  simp [clean, List.filter_append, List.flatMap_append]

theorem clean_cons_space {w : Nat} (hw : U.isSpace w = true) (s : Str) :
    clean U (w :: s) = clean U s := by
  simp [clean, hw]

theorem clean_cons_nonspace {c : Nat} (hc : U.isSpace c = false) (s : Str) :
    clean U (c :: s) = U.upper c ++ clean U s := by
  simp [clean, hc]

/-- Inserting a whitespace code point anywhere does not change the compact form. -/
theorem clean_insert_space {w : Nat} (hw : U.isSpace w = true) (xs ys : Str) :
    clean U (xs ++ w :: ys) = clean U (xs ++ ys) := by
  rw [clean_append, clean_append, clean_cons_space hw]

theorem clean_eq_of_filter_eq {s t : Str}
    (h : s.filter (fun c => !U.isSpace c) = t.filter (fun c => !U.isSpace c)) :
    clean U s = clean U t := by
  simp [clean, h]

/-- Membership in the image of `upper`. -/
theorem upper_cases (U : Unicode) (c : Nat) :
    (U.upperMap.lookup c = none ∧ U.upper c = [c]) ∨
    (∃ v, U.upperMap.lookup c = some v ∧ U.upper c = v ∧ (c, v) ∈ U.upperMap) := by
  unfold Unicode.upper
  cases h : U.upperMap.lookup c with
  | none => left; exact ⟨rfl, rfl⟩
  | some v =>
    right
    refine ⟨v, rfl, rfl, ?_⟩
    have := List.lookup_eq_some_iff.mp h
    obtain ⟨l1, l2, hl, _⟩ := this
    rw [hl]; simp

theorem lookup_lower_none_absurd (hU : U.WF) {c : Nat} (hc : isAsciiLower c = true) :
    U.upperMap.lookup c ≠ none := by
  simp only [isAsciiLower, Bool.and_eq_true, decide_eq_true_eq] at hc
  have := hU.lower (c - 97) (by simp; omega)
  have e : c - 97 + 97 = c := by omega
  rw [e] at this
  rw [this]; simp

/-- Every code point of a compact form is neither whitespace nor an ASCII lower-case letter,
    and is a fixed point of `upper`. -/
theorem clean_elem (hU : U.WF) (s : Str) :
    ∀ x ∈ clean U s, U.isSpace x = false ∧ isAsciiLower x = false ∧ U.upper x = [x] := by
  intro x hx
  simp only [clean, List.mem_flatMap, List.mem_filter] at hx
  obtain ⟨c, ⟨_, hc⟩, hxc⟩ := hx
  rcases upper_cases U c with ⟨hn, hu⟩ | ⟨v, hl, hu, hm⟩
  · rw [hu] at hxc
    simp at hxc
    subst hxc
    refine ⟨by simpa using hc, ?_, hu⟩
    cases hlow : isAsciiLower x with
    | false => rfl
    | true => exact absurd hn (lookup_lower_none_absurd hU hlow)
  · rw [hu] at hxc
    have := hU.image (c, v) hm x hxc
    refine ⟨this.1, this.2.1, ?_⟩
    unfold Unicode.upper; rw [this.2.2]

theorem clean_fixed_of_elems {s : Str}
    (h : ∀ x ∈ s, U.isSpace x = false ∧ U.upper x = [x]) : clean U s = s := by
  induction s with
  | nil => rfl
  | cons a t ih =>
    have ha := h a (by simp)
    rw [clean_cons_nonspace ha.1, ha.2, ih (fun x hx => h x (by simp [hx]))]
    rfl

/-- `clean` is idempotent: parsing a compact form again yields the same compact form. -/
theorem clean_idem (hU : U.WF) (s : Str) : clean U (clean U s) = clean U s :=
  clean_fixed_of_elems (fun x hx => ⟨(clean_elem hU s x hx).1, (clean_elem hU s x hx).2.2⟩)

/-- Any sublist-by-dropping of a compact form is again compact. -/
theorem clean_drop (hU : U.WF) (s : Str) (n : Nat) : clean U ((clean U s).drop n) = (clean U s).drop n :=
  clean_fixed_of_elems (fun x hx =>
    have hx' := List.mem_of_mem_drop hx
    ⟨(clean_elem hU s x hx').1, (clean_elem hU s x hx').2.2⟩)

/-- Flipping the case of an ASCII letter. -/
def flipCase (c : Nat) : Nat :=
  if isAsciiLower c then c - 32 else if isAsciiUpper c then c + 32 else c

theorem flipCase_lower {c : Nat} (h : isAsciiLower c = true) : flipCase c = c - 32 := by
  simp [flipCase, h]

theorem flipCase_upper {c : Nat} (h : isAsciiUpper c = true) : flipCase c = c + 32 := by
  have : isAsciiLower c = false := by
    simp only [isAsciiUpper, isAsciiLower, Bool.and_eq_true, decide_eq_true_eq] at *
    simp; omega
  simp [flipCase, h, this]

theorem flipCase_other {c : Nat} (h1 : isAsciiLower c = false) (h2 : isAsciiUpper c = false) :
    flipCase c = c := by
  simp [flipCase, h1, h2]

theorem upper_flipCase (hU : U.WF) (c : Nat) : U.upper (flipCase c) = U.upper c := by
  cases hl : isAsciiLower c with
  | true =>
    rw [flipCase_lower hl]
    simp only [isAsciiLower, Bool.and_eq_true, decide_eq_true_eq] at hl
    have h1 := hU.lower (c - 97) (by simp; omega)
    have h2 := hU.fixedUpper (c - 97) (by simp; omega)
    have e1 : c - 97 + 97 = c := by omega
    have e2 : c - 97 + 65 = c - 32 := by omega
    rw [e1] at h1; rw [e2] at h2 h1
    unfold Unicode.upper; rw [h1, h2]
  | false =>
    cases hu : isAsciiUpper c with
    | true =>
      rw [flipCase_upper hu]
      simp only [isAsciiUpper, Bool.and_eq_true, decide_eq_true_eq] at hu
      have h1 := hU.lower (c - 65) (by simp; omega)
      have h2 := hU.fixedUpper (c - 65) (by simp; omega)
      have e1 : c - 65 + 97 = c + 32 := by omega
      have e2 : c - 65 + 65 = c := by omega
      rw [e1] at h1; rw [e2] at h2 h1
      unfold Unicode.upper; rw [h1, h2]
    | false => rw [flipCase_other hl hu]

theorem isSpace_flipCase (hU : U.WF) (c : Nat) : U.isSpace (flipCase c) = U.isSpace c := by
  cases hl : isAsciiLower c with
  | true =>
    rw [flipCase_lower hl]
    simp only [isAsciiLower, Bool.and_eq_true, decide_eq_true_eq] at hl
    have h1 := hU.alnumNotSpace (c - 48) (by simp; omega)
    have h2 := hU.alnumNotSpace (c - 32 - 48) (by simp; omega)
    have e1 : c - 48 + 48 = c := by omega
    have e2 : c - 32 - 48 + 48 = c - 32 := by omega
    rw [e1] at h1; rw [e2] at h2; rw [h1, h2]
  | false =>
    cases hu : isAsciiUpper c with
    | true =>
      rw [flipCase_upper hu]
      simp only [isAsciiUpper, Bool.and_eq_true, decide_eq_true_eq] at hu
      have h1 := hU.alnumNotSpace (c - 48) (by simp; omega)
      have h2 := hU.alnumNotSpace (c + 32 - 48) (by simp; omega)
      have e1 : c - 48 + 48 = c := by omega
      have e2 : c + 32 - 48 + 48 = c + 32 := by omega
      rw [e1] at h1; rw [e2] at h2; rw [h1, h2]
    | false => rw [flipCase_other hl hu]

/-- `t` is `s` with the case of some ASCII letters flipped. -/
inductive CaseVariant : Str → Str → Prop
  | nil : CaseVariant [] []
  | same (c : Nat) {s t : Str} : CaseVariant s t → CaseVariant (c :: s) (c :: t)
  | flip (c : Nat) {s t : Str} : CaseVariant s t → CaseVariant (c :: s) (flipCase c :: t)

theorem clean_caseVariant (hU : U.WF) {s t : Str} (h : CaseVariant s t) : clean U s = clean U t := by
  induction h with
  | nil => rfl
  | same c _ ih =>
    cases hc : U.isSpace c with
    | true => rw [clean_cons_space hc, clean_cons_space hc, ih]
    | false => rw [clean_cons_nonspace hc, clean_cons_nonspace hc, ih]
  | flip c _ ih =>
    cases hc : U.isSpace c with
    | true =>
      have hc' : U.isSpace (flipCase c) = true := by rw [isSpace_flipCase hU, hc]
      rw [clean_cons_space hc, clean_cons_space hc', ih]
    | false =>
      have hc' : U.isSpace (flipCase c) = false := by rw [isSpace_flipCase hU, hc]
      rw [clean_cons_nonspace hc, clean_cons_nonspace hc', ih, upper_flipCase hU]

end SV
