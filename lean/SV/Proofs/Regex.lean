/-
  SV.Proofs.Regex — the anchored fixed-count matcher is the positional class check.
-/
import SV.Proofs.Clean
import SV.Spec.Iso13616
namespace SV
open Spec
set_option linter.constructorNameAsVariable false

/-- `p{k}` followed by `cont`. -/
theorem matchRep_fixed (p : Nat → Bool) (cont : Str → Bool) :
    ∀ (k : Nat) (s : Str),
      matchRep p k k s cont = (decide (k ≤ s.length) && (s.take k).all p && cont (s.drop k))
  | 0, s => by simp [matchRep]
  | k + 1, [] => by simp [matchRep]
  | k + 1, c :: t => by
    simp only [matchRep, Nat.add_sub_cancel, List.length_cons, List.take_succ_cons, List.all_cons,
      List.drop_succ_cons]
    rw [matchRep_fixed p cont k t]
    simp only [Nat.zero_lt_succ, decide_true, Bool.and_true, Nat.add_le_add_iff_right]
    cases p c <;> simp

/-- The regular-expression item the library builds for one item of a structure string
    (`convert_bban_spec_to_regex` with `_spec_to_re`); class ranges in ascending order, as the
    translator emits them. -/
def itemOf : Nat × SClass → Item
  | (k, .n) => ⟨.uniDigit, k, k⟩
  | (k, .a) => ⟨.ranges [(65, 90)], k, k⟩
  | (k, .c) => ⟨.ranges [(48, 57), (65, 90), (97, 122)], k, k⟩
  | (k, .e) => ⟨.ranges [(32, 32)], k, k⟩

/-- What the regular-expression classes test (Unicode-aware `\d`, mixed-case `c`). -/
def Spec.SClass.reTest (U : Unicode) : SClass → Nat → Bool
  | .n, x => U.isDigit x
  | .a, x => isAsciiUpper x
  | .c, x => isAsciiDigit x || isAsciiUpper x || isAsciiLower x
  | .e, x => x == 32

theorem itemOf_test (U : Unicode) (k : Nat) (c : SClass) (x : Nat) :
    (itemOf (k, c)).cls.test U x = c.reTest U x := by
  cases c with
  | n => simp [itemOf, CClass.test, SClass.reTest]
  | a => simp [itemOf, CClass.test, SClass.reTest, isAsciiUpper]
  | c => simp [itemOf, CClass.test, SClass.reTest, isAsciiDigit, isAsciiUpper, isAsciiLower, Bool.or_assoc]
  | e =>
    simp only [itemOf, CClass.test, SClass.reTest, List.any_cons, List.any_nil, Bool.or_false]
    apply Bool.eq_iff_iff.mpr
    simp only [Bool.and_eq_true, decide_eq_true_eq, beq_iff_eq]
    omega

theorem itemOf_lo (k : Nat) (c : SClass) : (itemOf (k, c)).lo = k ∧ (itemOf (k, c)).hi = k := by
  cases c <;> simp [itemOf]

/-- Positional check with the regular-expression classes. -/
def fitsRe (U : Unicode) : List SClass → Str → Bool
  | [], [] => true
  | c :: cs, x :: xs => c.reTest U x && fitsRe U cs xs
  | _, _ => false

theorem fitsRe_replicate_append (U : Unicode) (c : SClass) (rest : List SClass) :
    ∀ (k : Nat) (s : Str), fitsRe U (List.replicate k c ++ rest) s =
      (decide (k ≤ s.length) && (s.take k).all (c.reTest U) && fitsRe U rest (s.drop k))
  | 0, s => by simp
  | k + 1, [] => by simp [List.replicate_succ, fitsRe]
  | k + 1, x :: t => by
    simp only [List.replicate_succ, List.cons_append, fitsRe, List.length_cons,
      List.take_succ_cons, List.all_cons, List.drop_succ_cons, Nat.add_le_add_iff_right]
    rw [fitsRe_replicate_append U c rest k t]
    cases c.reTest U x <;> simp

/-- The compiled pattern of a structure string matches exactly the texts that fit position by
    position — or such a text followed by one newline (Python's `$`). -/
theorem matchItems_spec (U : Unicode) :
    ∀ (l : List (Nat × SClass)) (s : Str),
      matchItems U (l.map itemOf) s = true ↔
        (fitsRe U (expandSpec l) s = true ∨ ∃ s', s = s' ++ [10] ∧ fitsRe U (expandSpec l) s' = true)
  | [], s => by
    simp only [List.map_nil, matchItems, atEnd, expandSpec, Bool.or_eq_true, beq_iff_eq]
    constructor
    · rintro (h | h)
      · left; subst h; rfl
      · right; exact ⟨[], by simp [h], rfl⟩
    · rintro (h | ⟨s', hs, h'⟩)
      · left; cases s with
        | nil => rfl
        | cons a t => simp [fitsRe] at h
      · right; cases s' with
        | nil => simpa using hs
        | cons a t => simp [fitsRe] at h'
  | (k, c) :: rest, s => by
    simp only [List.map_cons, matchItems, expandSpec]
    rw [(itemOf_lo k c).1, (itemOf_lo k c).2, matchRep_fixed]
    have ih := matchItems_spec U rest (s.drop k)
    simp only [fitsRe_replicate_append, Bool.and_eq_true, decide_eq_true_eq, ih]
    have hcls : (fun x => (itemOf (k, c)).cls.test U x) = c.reTest U := by
      funext x; exact itemOf_test U k c x
    simp only [hcls] at *
    constructor
    · rintro ⟨⟨hk, hall⟩, h | ⟨s', hs, h'⟩⟩
      · left; exact ⟨⟨hk, hall⟩, h⟩
      · right
        refine ⟨s.take k ++ s', ?_, ?_⟩
        · rw [List.append_assoc, ← hs, List.take_append_drop]
        · have hlen : (s.take k).length = k := by simp; omega
          refine ⟨⟨by simp; omega, ?_⟩, ?_⟩
          · rw [List.take_append_of_le_length (by omega), List.take_of_length_le (by omega)]
            exact hall
          · rw [List.drop_append_of_le_length (by omega), List.drop_of_length_le (by omega)]
            simpa using h'
    · rintro (⟨⟨hk, hall⟩, h⟩ | ⟨s', hs, ⟨hk, hall⟩, h'⟩)
      · exact ⟨⟨hk, hall⟩, Or.inl h⟩
      · subst hs
        refine ⟨⟨by simp; omega, ?_⟩, Or.inr ⟨s'.drop k, ?_, h'⟩⟩
        · rw [List.take_append_of_le_length hk]; exact hall
        · rw [List.drop_append_of_le_length hk]

end SV
