/-
  SV.Proofs.RegexPos — fixed-count patterns up to spelling: a pattern all of whose items have a fixed
  count is determined by the class it demands at each position (`[A-Z]{4}[A-Z]{2}` = `[A-Z]{6}`).
-/
import SV.Model.Regex
namespace SV

def allFixed (items : List Item) : Bool := items.all (fun it => it.lo == it.hi)

/-- The class demanded at each position. -/
def expandItems : List Item → List CClass
  | [] => []
  | it :: t => List.replicate it.lo it.cls ++ expandItems t

/-- Position-by-position match of a prefix, then the continuation. -/
def posMatch (U : Unicode) : List CClass → Str → (Str → Bool) → Bool
  | [], s, k => k s
  | c :: cs, x :: xs, k => c.test U x && posMatch U cs xs k
  | _ :: _, [], _ => false

theorem matchRep_replicate (U : Unicode) (c : CClass) (k : Str → Bool) :
    ∀ (n : Nat) (s : Str), matchRep (c.test U) n n s k = posMatch U (List.replicate n c) s k
  | 0, s => by simp [matchRep, posMatch]
  | n + 1, [] => by simp [matchRep, posMatch, List.replicate_succ]
  | n + 1, x :: t => by
    simp only [matchRep, List.replicate_succ, posMatch, Nat.add_sub_cancel, Nat.zero_lt_succ,
      decide_true, Bool.and_true]
    rw [matchRep_replicate U c k n t]

theorem posMatch_append (U : Unicode) (k : Str → Bool) :
    ∀ (a b : List CClass) (s : Str),
      posMatch U (a ++ b) s k = posMatch U a s (fun r => posMatch U b r k)
  | [], b, s => by simp [posMatch]
  | c :: a, b, [] => by simp [posMatch]
  | c :: a, b, x :: t => by
    simp only [List.cons_append, posMatch]
    rw [posMatch_append U k a b t]

/-- An anchored fixed-count pattern matches position by position, then Python's `$`. -/
theorem matchItems_pos (U : Unicode) :
    ∀ (items : List Item), allFixed items = true → ∀ s,
      matchItems U items s = posMatch U (expandItems items) s atEnd
  | [], _, s => by simp [matchItems, expandItems, posMatch]
  | it :: rest, h, s => by
    simp only [allFixed, List.all_cons, Bool.and_eq_true, beq_iff_eq] at h
    have ih := matchItems_pos U rest (by simpa [allFixed] using h.2)
    simp only [matchItems, expandItems]
    rw [← h.1, matchRep_replicate, posMatch_append]
    congr 1
    funext r
    exact ih r

/-- Two fixed-count patterns that demand the same class at every position match the same texts. -/
theorem matchItems_congr (U : Unicode) {a b : List Item} (ha : allFixed a = true) (hb : allFixed b = true)
    (he : expandItems a = expandItems b) (s : Str) : matchItems U a s = matchItems U b s := by
  rw [matchItems_pos U a ha, matchItems_pos U b hb, he]

end SV
