/-
  SV.Proofs.National — dispatch of `validate_national_checksum`, and the ISO 7064 families.
-/
import SV.Proofs.FromBban
import SV.Spec.National
namespace SV
open Spec

/-- `validate_national_checksum` never returns `False`: success is `True`, failure raises. -/
theorem validateNational_true (X : Ctx) (cc b : Str) {v : Bool}
    (h : BBAN.validateNational X cc b = .ok v) : v = true := by
  unfold BBAN.validateNational at h
  cases hb : BBAN.bank X cc b with
  | err e => simp [hb] at h
  | crash c => simp [hb] at h
  | ok bank =>
    simp only [hb, Res.ok_bind] at h
    split at h
    · simpa using h.symm
    · cases hs : bbanSpec X.T cc with
      | err e => simp [hs] at h
      | crash c => simp [hs] at h
      | ok e =>
        simp only [hs, Res.ok_bind] at h
        rename_i a _
        cases hv : a.ref.validate X.U (componentsOf e b a.accepts)
            (getSlice b (e.range .nationalChecksumDigits).start
              (some (e.range .nationalChecksumDigits).stop)) with
        | err e => simp [hv] at h
        | crash c => simp [hv] at h
        | ok ok =>
          simp only [hv, Res.ok_bind] at h
          cases ok with
          | true => simpa using h.symm
          | false => simp at h

/-- Entries returned by the bank-code index belong to the registry and carry the key. -/
theorem byBankCode_mem {R : Registry} {cc code : Str} {l : List BankEntry}
    (h : R.byBankCode cc code = some l) : ∀ x ∈ l, x ∈ R ∧ x.countryCode = cc := by
  unfold Registry.byBankCode at h
  by_cases hc : (cc = [] || code = []) = true
  · rw [if_pos hc] at h; cases h
  · rw [if_neg hc] at h
    cases hf : R.filter (fun e => e.countryCode == cc && e.bankCode == code) with
    | nil => rw [hf] at h; cases h
    | cons y t =>
      rw [hf] at h
      have : l = y :: t := by cases h; rfl
      subst this
      intro x hx
      rw [← hf] at hx
      simp only [List.mem_filter, Bool.and_eq_true, beq_iff_eq] at hx
      exact ⟨hx.1, hx.2.1⟩

/-- The bank entry of a BBAN, when no entry of the country names a method, names none. -/
theorem bank_no_algo (X : Ctx) {cc b : Str} {e : Country} (hl : X.T.lookup cc = some e)
    (hR : ∀ x ∈ X.R, x.countryCode = cc → x.checksumAlgo = none) :
    BBAN.bank X cc b = .ok none ∨ ∃ x, BBAN.bank X cc b = .ok (some x) ∧ x.checksumAlgo = none := by
  unfold BBAN.bank bbanSpec
  rw [hl]
  simp only [Res.ok_bind]
  cases hb : X.R.byBankCode cc (lookupKey e b) with
  | none => exact Or.inl rfl
  | some l =>
    cases l with
    | nil => exact Or.inl rfl
    | cons x t =>
      have := byBankCode_mem hb x (by simp)
      exact Or.inr ⟨x, rfl, hR x this.1 this.2⟩

/-- `"<country>:default"`. -/
def defaultKey (cc : Str) : Str := cc ++ [colon] ++ strDefault

/-- **Dispatch**: with no method named by the registry, national validation looks up
    `<country>:default`; an unregistered country is accepted, otherwise the registered algorithm
    judges the fields it declares (sliced at the published positions) against the check-digit
    field. -/
theorem validateNational_dispatch (X : Ctx) {cc b : Str} {e : Country}
    (hl : X.T.lookup cc = some e)
    (hR : ∀ x ∈ X.R, x.countryCode = cc → x.checksumAlgo = none) :
    BBAN.validateNational X cc b =
      match X.A.get (defaultKey cc) with
      | none => .ok true
      | some a =>
        (a.ref.validate X.U (componentsOf e b a.accepts)
          (getSlice b (e.range .nationalChecksumDigits).start
            (some (e.range .nationalChecksumDigits).stop))).bind
          (fun ok => if ok then .ok true else .err .invalidBBANChecksum) := by
  unfold BBAN.validateNational
  rcases bank_no_algo X (b := b) hl hR with hb | ⟨x, hb, hx⟩
  · rw [hb]
    simp only [Res.ok_bind]
    show (match X.A.get (defaultKey cc) with | none => _ | some a => _) = _
    cases X.A.get (defaultKey cc) with
    | none => rfl
    | some a => simp only [bbanSpec, hl, Res.ok_bind]; rfl
  · rw [hb]
    simp only [Res.ok_bind, hx, Option.getD_none]
    show (match X.A.get (defaultKey cc) with | none => _ | some a => _) = _
    cases X.A.get (defaultKey cc) with
    | none => rfl
    | some a => simp only [bbanSpec, hl, Res.ok_bind]; rfl

/-! ### fields that tile a prefix of the BBAN -/

/-- The declared fields, in order, are adjacent and cover exactly `b[0:n]` (fields the country
    does not publish contribute the empty string). -/
def coversPrefix (e : Country) : List Component → Nat → Nat → Bool
  | [], p, n => p == n
  | k :: t, p, n =>
    let r := e.range k
    if r.start == 0 && r.stop == 0 then coversPrefix e t p n
    else r.start == p && decide (p < r.stop) && coversPrefix e t r.stop n

theorem slice_append_slice (b : Str) (i j k : Nat) (hij : i ≤ j) (hjk : j ≤ k) :
    slice b i j ++ slice b j k = slice b i k := by
  unfold slice
  have ht : b.take j = (b.take k).take j := by rw [List.take_take, Nat.min_eq_left hjk]
  rw [ht]
  generalize b.take k = t
  by_cases hi : i ≤ (t.take j).length
  · rw [← List.drop_append_of_le_length hi, List.take_append_drop]
  · have hlen : t.length < i := by
      rw [List.length_take] at hi; omega
    rw [List.drop_of_length_le (by rw [List.length_take]; omega),
      List.drop_of_length_le (by omega), List.drop_of_length_le (by omega)]
    rfl

end SV

namespace SV
open Spec

theorem coversPrefix_le (e : Country) : ∀ (ks : List Component) (p n : Nat),
    coversPrefix e ks p n = true → p ≤ n
  | [], p, n, h => by simp [coversPrefix] at h; omega
  | k :: t, p, n, h => by
    simp only [coversPrefix] at h
    split at h
    · exact coversPrefix_le e t p n h
    · simp only [Bool.and_eq_true, beq_iff_eq, decide_eq_true_eq] at h
      have := coversPrefix_le e t _ n h.2
      omega

theorem getSlice_zero_zero (b : Str) : getSlice b 0 (some 0) = [] := by
  simp only [getSlice]
  split <;> simp [slice]

theorem join_of_coversPrefix (e : Country) (b : Str) : ∀ (ks : List Component) (p n : Nat),
    coversPrefix e ks p n = true → n ≤ b.length →
    slice b 0 p ++ joinStrs (componentsOf e b ks) = slice b 0 n
  | [], p, n, h, _ => by
    simp only [coversPrefix, beq_iff_eq] at h
    subst h; simp [componentsOf, joinStrs]
  | k :: t, p, n, h, hn => by
    simp only [coversPrefix] at h
    simp only [componentsOf, joinStrs, List.flatten_cons]
    split at h
    · rename_i h0
      simp only [Bool.and_eq_true, beq_iff_eq] at h0
      rw [h0.1, h0.2, getSlice_zero_zero, List.nil_append]
      exact join_of_coversPrefix e b t p n h hn
    · simp only [Bool.and_eq_true, beq_iff_eq, decide_eq_true_eq] at h
      obtain ⟨⟨hs, hlt⟩, hrest⟩ := h
      have hle := coversPrefix_le e t _ n hrest
      have h1 : (e.range k).start < b.length := by omega
      have h2 : (e.range k).stop ≤ b.length := by omega
      have : getSlice b (e.range k).start (some (e.range k).stop) =
          slice b (e.range k).start (e.range k).stop := by simp [getSlice, h1, h2]
      rw [this, hs, ← List.append_assoc, slice_append_slice b 0 p _ (by omega) (by omega)]
      exact join_of_coversPrefix e b t _ n hrest hn

theorem join_of_coversPrefix_zero (e : Country) (b : Str) (ks : List Component) (n : Nat)
    (h : coversPrefix e ks 0 n = true) (hn : n ≤ b.length) :
    joinStrs (componentsOf e b ks) = b.take n := by
  have := join_of_coversPrefix e b ks 0 n h hn
  simpa [slice] using this

def AlgoRef.isNat : AlgoRef → NatAlgo → Bool
  | .nat a, b => a == b
  | _, _ => false

theorem AlgoRef.eq_of_isNat {r : AlgoRef} {a : NatAlgo} (h : r.isNat a = true) : r = .nat a := by
  cases r with
  | nat x => simp only [AlgoRef.isNat, beq_iff_eq] at h; rw [h]
  | de p => simp [AlgoRef.isNat] at h
  | unknown => simp [AlgoRef.isNat] at h

/-- Decidable description of "country `cc` uses algorithm `alg`, its declared fields tile
    `b[0:n]`, and the check digits are `b[n:n+2] = b[n:]`". -/
def prefixAlgo (T : Table) (A : AlgoTable) (alg : NatAlgo) (cc : Str) (n : Nat) : Bool :=
  match T.lookup cc, A.get (defaultKey cc) with
  | some e, some a =>
    a.ref.isNat alg && coversPrefix e a.accepts 0 n &&
    (e.range .nationalChecksumDigits == ⟨n, n + 2⟩) && e.bbanLength == n + 2 && decide (0 < n)
  | _, _ => false

theorem beq_str_comm (a b : Str) : (a == b) = (b == a) := by
  cases h : a == b with
  | true => have := beq_iff_eq.mp h; subst this; simp
  | false =>
    cases h' : b == a with
    | false => rfl
    | true => have := beq_iff_eq.mp h'; subst this; simp at h

/-- Shared core of the ISO 7064 families: what the dispatch reduces to when the algorithm's
    `compute` is `fmt02 (post (N·100 mod 97))` with `N` the number of the joined fields. -/
theorem iso_family (X : Ctx) (hU : X.U.WF) (alg : NatAlgo) (post : Nat → Nat) (scale : Nat → Nat)
    (hcomp : ∀ cs : List Str, allAlnum (joinStrs cs) = true → joinStrs cs ≠ [] →
      numLen (joinStrs cs) ≤ X.U.maxIntDigits →
      alg.validate X.U cs = fun ex =>
        .ok (fmt02 (post (scale (numVal (joinStrs cs) 0) % 97)) == ex))
    {cc b : Str} {n : Nat}
    (hp : prefixAlgo X.T X.A alg cc n = true)
    (hR : ∀ x ∈ X.R, x.countryCode = cc → x.checksumAlgo = none)
    (hlen : b.length = n + 2) (hA : allAlnum b = true) (hmax : 2 * b.length ≤ X.U.maxIntDigits) :
    BBAN.validateNational X cc b =
      if b.drop n == fmt02 (post (scale (numVal (b.take n) 0) % 97)) then .ok true
      else .err .invalidBBANChecksum := by
  unfold prefixAlgo at hp
  cases hl : X.T.lookup cc with
  | none => simp [hl] at hp
  | some e =>
    cases ha : X.A.get (defaultKey cc) with
    | none => simp [hl, ha] at hp
    | some a =>
      simp only [hl, ha, Bool.and_eq_true, beq_iff_eq, decide_eq_true_eq] at hp
      obtain ⟨⟨⟨⟨href, hcov⟩, hnat⟩, _⟩, hn⟩ := hp
      rw [validateNational_dispatch X hl hR, ha]
      simp only
      rw [AlgoRef.eq_of_isNat href, hnat]
      have hj := join_of_coversPrefix_zero e b a.accepts n hcov (by omega)
      have hAt : allAlnum (b.take n) = true := allAlnum_take n hA
      have hne : b.take n ≠ [] := by
        apply List.ne_nil_of_length_pos; rw [List.length_take]; omega
      have hnl : numLen (b.take n) ≤ X.U.maxIntDigits := by
        have := numLen_le (b.take n); rw [List.length_take] at this; omega
      simp only [AlgoRef.validate]
      rw [hcomp _ (by rw [hj]; exact hAt) (by rw [hj]; exact hne) (by rw [hj]; exact hnl), hj]
      have hs : getSlice b n (some (n + 2)) = b.drop n := by
        have h1 : n < b.length := by omega
        have h2 : n + 2 ≤ b.length := by omega
        simp only [getSlice, h1, h2, decide_true, Bool.and_self, ↓reduceIte, slice]
        rw [List.take_of_length_le (by omega)]
      rw [hs, beq_str_comm]
      simp only [Res.bind]

end SV
