/-
  SV.Proofs.Generate — `BBAN.from_components` end to end: what a successful call returns, that the
  assembled string is already in compact form, and that every supplied component is found at its
  published position in the returned BBAN.
-/
import SV.Proofs.Placement
import SV.Proofs.NationalRules
namespace SV
open Spec

variable {U : Unicode}

/-! ### compact strings -/

theorem compact_nil : Compact U [] := fun _ h => by cases h

theorem compact_zeros (hU : U.WF) (n : Nat) : Compact U (List.replicate n 48) :=
  compact_of_allAlnum hU (by simp [allAlnum, isAsciiAlnumUpper, isAsciiDigit])

theorem compact_cons {x : Nat} {s : Str} (hx : Compact U [x]) (hs : Compact U s) : Compact U (x :: s) :=
  compact_append (a := [x]) hx hs

theorem compact_tail {x : Nat} {s : Str} (h : Compact U (x :: s)) : Compact U s :=
  fun y hy => h y (List.mem_cons_of_mem _ hy)

theorem compact_head {x : Nat} {s : Str} (h : Compact U (x :: s)) : Compact U [x] :=
  fun y hy => h y (by simp at hy; simp [hy])

theorem compact_zfill (hU : U.WF) {s : Str} (h : Compact U s) (w : Nat) : Compact U (zfill s w) := by
  unfold zfill
  split
  · exact h
  · cases s with
    | nil => exact compact_zeros hU w
    | cons c rest =>
      simp only
      split
      · exact compact_cons (compact_head h) (compact_append (compact_zeros hU _) (compact_tail h))
      · exact compact_append (compact_zeros hU _) h

theorem compact_slice {s : Str} (h : Compact U s) (a b : Nat) : Compact U (slice s a b) :=
  compact_drop (compact_take h b) a

theorem compact_overlay {b v : Str} (hb : Compact U b) (hv : Compact U v) (r : Range) :
    Compact U (overlay b r v) :=
  compact_append (compact_append (compact_take hb _) hv) (compact_drop hb _)

theorem compact_overlayAll (e : Country) (c : Comps) (hc : ∀ k, Compact U (c k)) :
    ∀ (ks : List Component) (b : Str), Compact U b → Compact U (overlayAll e c ks b)
  | [], _, hb => hb
  | k :: t, b, hb => by
    simp only [overlayAll]
    split
    · exact compact_overlayAll e c hc t b hb
    · exact compact_overlayAll e c hc t _ (compact_overlay hb (hc k) _)

theorem overlayAll_append (e : Country) (c : Comps) : ∀ (ks ks' : List Component) (b : Str),
    overlayAll e c (ks ++ ks') b = overlayAll e c ks' (overlayAll e c ks b)
  | [], _, _ => rfl
  | k :: t, ks', b => by simp only [List.cons_append, overlayAll]; exact overlayAll_append e c t ks' _

/-- `overlayAll` reads only the components it is asked to write. -/
theorem overlayAll_congr (e : Country) (c c' : Comps) : ∀ (ks : List Component) (b : Str),
    (∀ k ∈ ks, c k = c' k) → overlayAll e c ks b = overlayAll e c' ks b
  | [], _, _ => rfl
  | k :: t, b, h => by
    simp only [overlayAll]
    rw [h k (by simp)]
    exact overlayAll_congr e c c' t _ (fun k' hk' => h k' (by simp [hk']))

/-! ### the check digits an algorithm computes are digits and upper-case letters -/

theorem natToDigits_small_alnum : ∀ n : Fin 12, allAlnum (natToDigits n.val) = true := by decide

theorem natToDigits_alnum {n : Nat} (h : n < 12) : allAlnum (natToDigits n) = true :=
  natToDigits_small_alnum ⟨n, h⟩

theorem fmt02_alnum {v : Nat} (hv : v < 100) : allAlnum (fmt02 v) = true := by
  obtain ⟨x, y, he, hx, hy, _⟩ := fmt02_digits hv
  rw [he]
  simp [allAlnum, isAsciiAlnumUpper, hx, hy]

theorem esReconcile_lt (n : Nat) (h : n ≤ 11) : esReconcile n < 12 := by
  unfold esReconcile; split <;> (try split) <;> omega

/-- Whatever a national algorithm computes consists of ASCII digits and upper-case letters. -/
theorem NatAlgo.compute_alnum (U : Unicode) (a : NatAlgo) (cs : List Str) {d : Str}
    (h : a.compute U cs = .ok d) : allAlnum d = true := by
  cases a with
  | isoDefault =>
    simp only [NatAlgo.compute, isoDefaultCompute, isoPre, bind, Res.bind] at h
    cases hn : numerify U (joinStrs cs) with
    | ok n => simp only [hn, pure, Res.ok.injEq] at h; rw [← h]; exact fmt02_alnum (by simp only; omega)
    | err _ => simp [hn] at h
    | crash _ => simp [hn] at h
  | isoVariant =>
    simp only [NatAlgo.compute, isoVariantCompute, isoPre, bind, Res.bind] at h
    cases hn : numerify U (joinStrs cs) with
    | ok n => simp only [hn, pure, Res.ok.injEq] at h; rw [← h]; exact fmt02_alnum (by simp only; omega)
    | err _ => simp [hn] at h
    | crash _ => simp [hn] at h
  | be =>
    simp only [NatAlgo.compute, beCompute, isoPre, bind, Res.bind] at h
    cases hn : numerify U (joinStrs cs) with
    | ok n =>
      simp only [hn, pure, Res.ok.injEq] at h; rw [← h]
      refine fmt02_alnum ?_
      have : n * 100 / 100 % 97 < 97 := Nat.mod_lt _ (by decide)
      simp only; split <;> omega
    | err _ => simp [hn] at h
    | crash _ => simp [hn] at h
  | fr =>
    simp only [NatAlgo.compute, frCompute] at h
    split at h
    · rename_i bank branch account
      cases h1 : frNumerify U bank 0 0 <;> simp only [h1, bind, Res.bind] at h <;> try cases h
      cases h2 : frNumerify U branch 0 0 <;> simp only [h2] at h <;> try cases h
      cases h3 : frNumerify U account 0 0 <;> simp only [h3] at h <;> try cases h
      exact fmt02_alnum (by simp only; omega)
    · cases h
  | es =>
    simp only [NatAlgo.compute, esCompute] at h
    split at h
    · rename_i bank branch account
      cases h1 : weighted U (bank ++ branch) 11 (esWeights.drop 2) <;>
        simp only [h1, bind, Res.bind] at h <;> try cases h
      cases h2 : weighted U account 11 esWeights <;> simp only [h2] at h <;> try cases h
      rw [allAlnum_append]
      simp only [Bool.and_eq_true]
      exact ⟨natToDigits_alnum (esReconcile_lt _ (by omega)), natToDigits_alnum (esReconcile_lt _ (by omega))⟩
    · cases h
  | pl =>
    simp only [NatAlgo.compute, plCompute, bind, Res.bind] at h
    cases h1 : weighted U (joinStrs cs) 10 [3, 9, 7, 1, 3, 9, 7] <;> simp only [h1] at h <;> try cases h
    exact natToDigits_alnum (by split <;> omega)
  | ee =>
    simp only [NatAlgo.compute, eeCompute, bind, Res.bind] at h
    cases h1 : weighted U (joinStrs cs).reverse 10 (cycleWeights [7, 3, 1] (joinStrs cs).reverse.length) <;>
      simp only [h1] at h <;> try cases h
    exact natToDigits_alnum (by split <;> omega)
  | czsk =>
    simp only [NatAlgo.compute, Res.ok.injEq] at h; rw [← h]; rfl
  | is_ =>
    simp only [NatAlgo.compute, isCompute] at h
    split at h
    · rename_i holder
      simp only [weighted, bind, Res.bind] at h
      cases h1 : weightedSum U [3, 2, 7, 6, 5, 4, 3, 2] holder <;> simp only [h1, pure] at h <;> try cases h
      rename_i s
      have : s % 11 < 11 := Nat.mod_lt _ (by decide)
      split <;> exact natToDigits_alnum (by omega)
    · cases h
  | no =>
    simp only [NatAlgo.compute, noCompute] at h
    split at h
    · rename_i x account
      simp only [bind, Res.bind] at h
      split at h
      · rename_i total _
        split at h
        · cases h
        · cases h
          exact natToDigits_alnum (by
            have : (11 - total % 11) % 11 < 11 := Nat.mod_lt _ (by decide)
            omega)
      · cases h
      · cases h
    · cases h
  | fi =>
    simp only [NatAlgo.compute, fiCompute, luhn, bind, Res.bind] at h
    cases h1 : luhnNumerical (joinStrs cs) <;> simp only [h1, pure] at h <;> try cases h
    exact natToDigits_alnum (by
      rename_i num
      have : (10 - luhnSum num.reverse 0 % 10) % 10 < 10 := Nat.mod_lt _ (by decide)
      omega)
  | it =>
    simp only [NatAlgo.compute, itCompute, bind, Res.bind] at h
    cases h1 : itSum U (joinStrs cs) 0 <;> simp only [h1, pure] at h <;> try cases h
    rename_i s
    have : s % 26 < 26 := Nat.mod_lt _ (by decide)
    simp only [allAlnum, List.all_cons, List.all_nil, Bool.and_true, isAsciiAlnumUpper, isAsciiUpper,
      isAsciiDigit, Bool.or_eq_true, Bool.and_eq_true, decide_eq_true_eq]
    omega

/-! ### `from_components`: what a successful call returns -/

/-- The components after cleaning and zero-padding (`components` after the first loop). -/
def padComps (X : Ctx) (e : Country) (vs : List (Component × Str)) : Comps :=
  fun k => zfill (clean X.U (valuesGet vs k)) (e.range k).length

/-- Whether the combined bank+branch split applies. -/
def splitsB (X : Ctx) (e : Country) (vs : List (Component × Str)) : Bool :=
  (e.range .branchCode).length > 0 && clean X.U (valuesGet vs .branchCode) == [] &&
    (padComps X e vs .bankCode).length == (e.range .bankCode).length + (e.range .branchCode).length

/-- The components after the combined bank+branch split. -/
def splitComps (X : Ctx) (e : Country) (vs : List (Component × Str)) : Comps :=
  if splitsB X e vs then
    ((padComps X e vs).set .branchCode
      (slice (padComps X e vs .bankCode) (e.range .bankCode).length
        ((e.range .bankCode).length + (e.range .branchCode).length))).set
      .bankCode ((padComps X e vs .bankCode).take (e.range .bankCode).length)
  else padComps X e vs

/-- The components with the computed national check digits (if any) entered. -/
def withChecksum (c : Comps) (cs : Str) : Comps :=
  if cs != [] then c.set .nationalChecksumDigits cs else c

/-- The zero string the components are written into. -/
def zeros (e : Country) : Str := List.replicate e.bbanLength 48

/-- `from_components` for a known country with published positions, in terms of the named
    intermediate values. -/
theorem fromComponents_eq (X : Ctx) {cc : Str} {e : Country} (hl : X.T.lookup cc = some e)
    (hp : e.positions.isNone = false) (vs : List (Component × Str)) :
    BBAN.fromComponents X cc vs =
      if (splitComps X e vs .bankCode).length > (e.range .bankCode).length then .err .invalidBankCode
      else if (splitComps X e vs .branchCode).length > (e.range .branchCode).length then
        .err .invalidBranchCode
      else if (splitComps X e vs .accountCode).length > (e.range .accountCode).length then
        .err .invalidAccountCode
      else (computeNationalChecksum X cc (splitComps X e vs)).bind (fun cs =>
        Res.ok (clean X.U (overlayAll e (withChecksum (splitComps X e vs) cs) Component.all (zeros e)))) := by
  unfold BBAN.fromComponents bbanSpec
  simp only [hl, Res.ok_bind, hp, Bool.false_eq_true, ↓reduceIte]
  rfl

/-- **Anatomy of a successful `from_components`.** -/
theorem fromComponents_ok (X : Ctx) {cc : Str} {vs : List (Component × Str)} {b : Str}
    (h : BBAN.fromComponents X cc vs = .ok b) :
    ∃ e cs, X.T.lookup cc = some e ∧ e.positions.isSome = true ∧
      (splitComps X e vs .bankCode).length ≤ (e.range .bankCode).length ∧
      (splitComps X e vs .branchCode).length ≤ (e.range .branchCode).length ∧
      (splitComps X e vs .accountCode).length ≤ (e.range .accountCode).length ∧
      computeNationalChecksum X cc (splitComps X e vs) = .ok cs ∧
      b = clean X.U (overlayAll e (withChecksum (splitComps X e vs) cs) Component.all (zeros e)) := by
  cases hl : X.T.lookup cc with
  | none => simp [BBAN.fromComponents, bbanSpec, hl] at h
  | some e =>
    by_cases hp : e.positions.isNone = true
    · unfold BBAN.fromComponents bbanSpec at h
      simp only [hl, Res.ok_bind, hp, ↓reduceIte] at h
      cases h
    · have hp' : e.positions.isNone = false := (Bool.not_eq_true _).mp hp
      have hps : e.positions.isSome = true := by cases hq : e.positions <;> simp [hq] at hp ⊢
      rw [fromComponents_eq X hl hp' vs] at h
      split at h
      · cases h
      · split at h
        · cases h
        · split at h
          · cases h
          · cases hc : computeNationalChecksum X cc (splitComps X e vs) with
            | ok cs =>
              simp only [hc, Res.bind, Res.ok.injEq] at h
              exact ⟨e, cs, rfl, hps, by omega, by omega, by omega, hc, h.symm⟩
            | err _ => simp [hc, Res.bind] at h
            | crash _ => simp [hc, Res.bind] at h

/-! ### the assembled BBAN carries every component at its published position -/

theorem compact_padComps (X : Ctx) (hU : X.U.WF) (e : Country) (vs : List (Component × Str))
    (k : Component) : Compact X.U (padComps X e vs k) :=
  compact_zfill hU (compact_clean hU _) _

theorem compact_splitComps (X : Ctx) (hU : X.U.WF) (e : Country) (vs : List (Component × Str))
    (k : Component) : Compact X.U (splitComps X e vs k) := by
  unfold splitComps
  split
  · simp only [Comps.set]
    split
    · exact compact_take (compact_padComps X hU e vs _) _
    · split
      · exact compact_slice (compact_padComps X hU e vs _) _ _
      · exact compact_padComps X hU e vs k
  · exact compact_padComps X hU e vs k

theorem compact_withChecksum (X : Ctx) (hU : X.U.WF) (e : Country) (vs : List (Component × Str))
    {cs : Str} (hcs : Compact X.U cs) (k : Component) :
    Compact X.U (withChecksum (splitComps X e vs) cs k) := by
  unfold withChecksum
  split
  · simp only [Comps.set]
    split
    · exact hcs
    · exact compact_splitComps X hU e vs k
  · exact compact_splitComps X hU e vs k

/-- No component is shorter than its field. -/
theorem splitComps_ge (X : Ctx) (e : Country) (vs : List (Component × Str)) (k : Component) :
    (e.range k).length ≤ (splitComps X e vs k).length := by
  have hpad : ∀ k, (e.range k).length ≤ (padComps X e vs k).length := by
    intro k; unfold padComps; rw [zfill_length]; omega
  unfold splitComps
  split
  · rename_i hs
    simp only [splitsB, Bool.and_eq_true, beq_iff_eq, decide_eq_true_eq] at hs
    simp only [Comps.set]
    split
    · rename_i hk; subst hk
      rw [List.length_take]; omega
    · split
      · rename_i hk; subst hk
        rw [slice_length (by omega)]; omega
      · exact hpad k
  · exact hpad k

def first7 : List Component :=
  [.accountId, .accountType, .accountCode, .accountHolderId, .currencyCode, .bankCode, .branchCode]

theorem all_eq_first7 : Component.all = first7 ++ [.nationalChecksumDigits] := rfl

/-- **End-to-end placement**: in the BBAN a successful `from_components` returns, every component
    other than the check digits sits, cleaned and padded, at its published position, and so do the
    computed check digits.  `hfit` — no component is longer than its field — is what the three
    length guards establish for bank, branch and account code. -/
theorem fromComponents_placement (X : Ctx) (hU : X.U.WF) {e : Country} (hW : e.WF)
    (vs : List (Component × Str)) {cs b : Str} (hcs : Compact X.U cs)
    (hfit : ∀ k r, publishedAt e k r → k ≠ .nationalChecksumDigits →
      (splitComps X e vs k).length ≤ r.stop - r.start)
    (hb : b = clean X.U (overlayAll e (withChecksum (splitComps X e vs) cs) Component.all (zeros e)))
    (hlen : b.length = e.bbanLength) :
    (∀ k r, publishedAt e k r → k ≠ .nationalChecksumDigits →
      slice b r.start r.stop = splitComps X e vs k) ∧
    (∀ r, publishedAt e .nationalChecksumDigits r →
      slice b r.start r.stop = withChecksum (splitComps X e vs) cs .nationalChecksumDigits) := by
  -- the assembled string is already compact
  have hcomp : Compact X.U (overlayAll e (withChecksum (splitComps X e vs) cs) Component.all (zeros e)) :=
    compact_overlayAll e _ (compact_withChecksum X hU e vs hcs) _ _ (compact_zeros hU _)
  rw [clean_of_compact hcomp] at hb
  -- a component table with exact widths everywhere that agrees on the first seven components
  let c1 : Comps := (splitComps X e vs).set .nationalChecksumDigits
    (List.replicate (e.range .nationalChecksumDigits).length 48)
  have hc1len : ∀ k r, publishedAt e k r → (c1 k).length = r.stop - r.start := by
    intro k r hp
    have hr := range_of_published hp
    by_cases hk : k = .nationalChecksumDigits
    · subst hk
      simp only [c1, Comps.set, if_true, List.length_replicate, hr, Range.length]
    · have h1 := hfit k r hp hk
      have h2 := splitComps_ge X e vs k
      rw [hr] at h2
      simp only [Range.length] at h2
      simp only [c1, Comps.set, hk, if_false]
      omega
  have hagree : ∀ k ∈ first7, withChecksum (splitComps X e vs) cs k = c1 k := by
    intro k hk
    have hne : k ≠ .nationalChecksumDigits := by
      intro h; subst h; simp [first7] at hk
    unfold withChecksum
    split
    · show (if k = .nationalChecksumDigits then cs else splitComps X e vs k) =
        (if k = .nationalChecksumDigits then _ else splitComps X e vs k)
      simp [hne]
    · show splitComps X e vs k = (if k = .nationalChecksumDigits then _ else splitComps X e vs k)
      simp [hne]
  have hz : (zeros e).length = e.bbanLength := by simp [zeros]
  rw [all_eq_first7, overlayAll_append, overlayAll_congr e _ c1 first7 _ hagree] at hb
  have hnd : first7.Nodup := by decide
  have h7len : (overlayAll e c1 first7 (zeros e)).length = e.bbanLength :=
    (overlayAll_other hW c1 hc1len first7 (zeros e) ⟨0, 0⟩ hz (by simp)
      (fun k _ r' _ => Or.inl (by simp))).1
  have h7 : ∀ k r, publishedAt e k r → k ≠ .nationalChecksumDigits →
      slice (overlayAll e c1 first7 (zeros e)) r.start r.stop = splitComps X e vs k := by
    intro k r hp hk
    have hmem : k ∈ first7 := by cases k <;> simp [first7] at hk ⊢
    rw [overlayAll_same hW c1 hc1len first7 (zeros e) hnd hz k hmem r hp]
    simp only [c1, Comps.set, hk, if_false]
  simp only [overlayAll] at hb
  cases hk : (e.positions.getD []).lookup .nationalChecksumDigits with
  | none =>
    rw [range_unpublished hk] at hb
    simp only [Range.isEmpty, beq_self_eq_true, Bool.and_self, ↓reduceIte] at hb
    subst hb
    exact ⟨h7, fun r hp => by unfold publishedAt at hp; rw [hk] at hp; cases hp⟩
  | some rn =>
    have hpn : publishedAt e .nationalChecksumDigits rn := hk
    rw [range_of_published hpn] at hb
    have hbd := hW.bounds (_, rn) (mem_of_lookup hk)
    simp only at hbd
    have hne : rn.isEmpty = false := by
      simp only [Range.isEmpty, Bool.and_eq_false_iff, beq_eq_false_iff_ne]
      right; omega
    simp only [hne, Bool.false_eq_true, ↓reduceIte] at hb
    -- the length of the result forces the check digits to have the width of their field
    have hvlen : (withChecksum (splitComps X e vs) cs .nationalChecksumDigits).length =
        rn.stop - rn.start := by
      have : b.length = rn.start +
          (withChecksum (splitComps X e vs) cs .nationalChecksumDigits).length +
          (e.bbanLength - rn.stop) := by
        rw [hb]; unfold overlay
        simp only [List.length_append, List.length_take, List.length_drop, h7len]
        omega
      omega
    refine ⟨fun k r hp hkn => ?_, fun r hp => ?_⟩
    · rw [hb, overlay_slice_other _ rn r _ (by omega) (by omega) hvlen
        (by have := hW.bounds (k, r) (mem_of_lookup hp); simp only at this; omega)
        ((disjoint_of_pairwise _ hW.disjoint k .nationalChecksumDigits r rn hkn
          (mem_of_lookup hp) (mem_of_lookup hk)).elim (fun h => Or.inl h) (fun h => Or.inr h))]
      exact h7 k r hp hkn
    · have : r = rn := by
        have h1 : (e.positions.getD []).lookup .nationalChecksumDigits = some r := hp
        rw [hk] at h1; cases h1; rfl
      subst this
      rw [hb, overlay_slice_same _ r _ (by omega) (by omega) hvlen]

/-! ### the only foreign exceptions a national `compute` can raise are the translated ones -/

/-- The outcome is not one of the foreign exceptions that `except (ValueError, LookupError)` of
    `compute_national_checksum` lets through. -/
def Res.mild {α : Type} (r : Res α) : Prop :=
  ∀ c, r = .crash c → c = .valueError ∨ c = .keyError ∨ c = .indexError

theorem Res.mild_ok {α : Type} (a : α) : (Res.ok a).mild := fun _ h => by cases h
theorem Res.mild_err {α : Type} (e : Err) : (Res.err e : Res α).mild := fun _ h => by cases h
theorem Res.mild_value {α : Type} : (Res.crash .valueError : Res α).mild :=
  fun _ h => by cases h; exact Or.inl rfl
theorem Res.mild_key {α : Type} : (Res.crash .keyError : Res α).mild :=
  fun _ h => by cases h; exact Or.inr (Or.inl rfl)
theorem Res.mild_index {α : Type} : (Res.crash .indexError : Res α).mild :=
  fun _ h => by cases h; exact Or.inr (Or.inr rfl)

theorem Res.mild_bind {α β : Type} {x : Res α} {f : α → Res β} (hx : x.mild) (hf : ∀ a, (f a).mild) :
    (x >>= f).mild := by
  cases x with
  | ok a => exact hf a
  | err e => exact Res.mild_err e
  | crash c => intro c' h; cases h; exact hx c rfl

theorem Res.mild_of_not_crash {α : Type} {r : Res α} (h : r.isCrash = false) : r.mild := by
  intro c hc; rw [hc] at h; cases h

theorem intChar_mild (U : Unicode) (c : Nat) : (U.intChar c).mild := by
  unfold Unicode.intChar; split
  · exact Res.mild_ok _
  · exact Res.mild_value

theorem weightedSum_mild (U : Unicode) : ∀ (ws : List Nat) (s : Str), (weightedSum U ws s).mild
  | [], _ => by unfold weightedSum; exact Res.mild_ok _
  | _ :: _, [] => by unfold weightedSum; exact Res.mild_ok _
  | w :: ws, c :: t => by
    unfold weightedSum
    exact Res.mild_bind (intChar_mild U c) (fun d =>
      Res.mild_bind (weightedSum_mild U ws t) (fun r => Res.mild_ok _))

theorem weighted_mild (U : Unicode) (s : Str) (m : Nat) (ws : List Nat) : (weighted U s m ws).mild :=
  Res.mild_bind (weightedSum_mild U ws s) (fun _ => Res.mild_ok _)

theorem frNumerify_mild (U : Unicode) : ∀ (s : Str) (v n : Nat), (frNumerify U s v n).mild
  | [], v, n => by unfold frNumerify; split; exact Res.mild_value; exact Res.mild_ok _
  | c :: t, v, n => by
    unfold frNumerify; split
    · exact frNumerify_mild U t _ _
    · exact Res.mild_key

theorem luhnNumerical_mild : ∀ s : Str, (luhnNumerical s).mild
  | [] => Res.mild_ok _
  | c :: t => by
    unfold luhnNumerical; split
    · exact Res.mild_bind (luhnNumerical_mild t) (fun _ => Res.mild_ok _)
    · exact Res.mild_value

theorem itGetIndex_mild (U : Unicode) (c : Nat) : (itGetIndex U c).mild := by
  unfold itGetIndex; split
  · exact Res.mild_ok _
  · split
    · exact Res.mild_ok _
    · exact Res.mild_value

theorem itSum_mild (U : Unicode) : ∀ (s : Str) (i : Nat), (itSum U s i).mild
  | [], _ => Res.mild_ok _
  | c :: t, i => by
    unfold itSum
    refine Res.mild_bind (itGetIndex_mild U c) (fun k => Res.mild_bind ?_ (fun v =>
      Res.mild_bind (itSum_mild U t (i + 1)) (fun _ => Res.mild_ok _)))
    split
    · exact Res.mild_ok _
    · split
      · exact Res.mild_ok _
      · exact Res.mild_index

theorem numerify_mild (U : Unicode) (s : Str) : (numerify U s).mild :=
  Res.mild_of_not_crash (numerify_no_crash U s)

theorem isoPre_mild (U : Unicode) (cs : List Str) : (isoPre U cs).mild :=
  Res.mild_bind (numerify_mild U _) (fun _ => Res.mild_ok _)

theorem NatAlgo.compute_mild (U : Unicode) (a : NatAlgo) (cs : List Str) : (a.compute U cs).mild := by
  cases a with
  | isoDefault => exact Res.mild_bind (isoPre_mild U cs) (fun _ => Res.mild_ok _)
  | isoVariant => exact Res.mild_bind (isoPre_mild U cs) (fun _ => Res.mild_ok _)
  | be => exact Res.mild_bind (isoPre_mild U cs) (fun _ => Res.mild_ok _)
  | fr =>
    simp only [NatAlgo.compute, frCompute]
    split
    · exact Res.mild_bind (frNumerify_mild U _ _ _) (fun _ => Res.mild_bind (frNumerify_mild U _ _ _)
        (fun _ => Res.mild_bind (frNumerify_mild U _ _ _) (fun _ => Res.mild_ok _)))
    · exact Res.mild_value
  | es =>
    simp only [NatAlgo.compute, esCompute]
    split
    · exact Res.mild_bind (weighted_mild U _ _ _) (fun _ => Res.mild_bind (weighted_mild U _ _ _)
        (fun _ => Res.mild_ok _))
    · exact Res.mild_value
  | pl => exact Res.mild_bind (weighted_mild U _ _ _) (fun _ => Res.mild_ok _)
  | ee => exact Res.mild_bind (weighted_mild U _ _ _) (fun _ => Res.mild_ok _)
  | czsk => exact Res.mild_ok _
  | is_ =>
    simp only [NatAlgo.compute, isCompute]
    split
    · exact Res.mild_bind (weighted_mild U _ _ _) (fun _ => by split <;> exact Res.mild_ok _)
    · exact Res.mild_value
  | no =>
    simp only [NatAlgo.compute, noCompute]
    split
    · refine Res.mild_bind (weightedSum_mild U _ _) (fun _ => ?_)
      split
      · exact Res.mild_err _
      · exact Res.mild_ok _
    · exact Res.mild_value
  | fi =>
    exact Res.mild_bind (luhnNumerical_mild _) (fun _ => Res.mild_ok _)
  | it => exact Res.mild_bind (itSum_mild U _ 0) (fun _ => Res.mild_ok _)

/-- Translating a mild outcome leaves no foreign exception. -/
theorem Res.translate_mild {α : Type} {r : Res α} (h : r.mild) (e : Err) :
    (r.translate e).isCrash = false := by
  cases r with
  | ok _ => rfl
  | err _ => rfl
  | crash c =>
    rcases h c rfl with h | h | h <;> subst h <;> rfl

end SV
