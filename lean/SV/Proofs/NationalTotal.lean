/-
  SV.Proofs.NationalTotal — the national check-digit algorithms never let a foreign exception
  escape on components cut out of a BBAN that fits its country's structure.

  The argument has three layers:
  * input level: each algorithm, on digit / alphanumeric component strings of the right number,
    returns a value or a library error (`NatAlgo.validate_no_crash`);
  * class level: the classes of the structure string at a component's position decide whether the
    component is a digit / alphanumeric string (`fits_getSlice`, `NatAlgo.classSafe`);
  * table level: a decidable check over (algorithm table, country table) that every registered
    algorithm is class-safe for the country it is registered for (`natSafeB`), discharged for the
    regenerated tables by kernel evaluation in `SV.Props.C05`.
-/
import SV.Proofs.IbanIso
import SV.Proofs.Germany
import SV.Proofs.GermanyTactics
namespace SV
open Spec

def allDigits (s : Str) : Bool := s.all isAsciiDigit

theorem allDigits_append (a b : Str) : allDigits (a ++ b) = (allDigits a && allDigits b) := by
  simp [allDigits, List.all_append]

theorem allDigits_flatten {cs : List Str} (h : cs.all allDigits = true) :
    allDigits cs.flatten = true := by
  induction cs with
  | nil => rfl
  | cons a t ih =>
    simp only [List.all_cons, Bool.and_eq_true] at h
    simp only [List.flatten_cons, allDigits_append, h.1, ih h.2, Bool.and_self]

theorem allAlnum_flatten {cs : List Str} (h : cs.all allAlnum = true) :
    allAlnum cs.flatten = true := by
  induction cs with
  | nil => rfl
  | cons a t ih =>
    simp only [List.all_cons, Bool.and_eq_true] at h
    simp only [List.flatten_cons, allAlnum_append, h.1, ih h.2, Bool.and_self]

theorem allDigits_drop {s : Str} (n : Nat) (h : allDigits s = true) : allDigits (s.drop n) = true := by
  simp only [allDigits, List.all_eq_true] at *
  exact fun x hx => h x (List.mem_of_mem_drop hx)

theorem allDigits_reverse {s : Str} (h : allDigits s = true) : allDigits s.reverse = true := by
  simp only [allDigits, List.all_eq_true] at *
  exact fun x hx => h x (List.mem_reverse.mp hx)

theorem intChar_digit {U : Unicode} (hU : U.WF) {c : Nat} (h : isAsciiDigit c = true) :
    ∃ d, U.intChar c = .ok d := by
  have h' : 48 ≤ c ∧ c ≤ 57 := by simpa [isAsciiDigit] using h
  have := intChar_ascii hU (d := c - 48) (by omega)
  rw [show 48 + (c - 48) = c by omega] at this
  exact ⟨_, this⟩

theorem weightedSum_ok {U : Unicode} (hU : U.WF) :
    ∀ (ws : List Nat) (s : Str), allDigits s = true → ∃ v, weightedSum U ws s = .ok v
  | [], _, _ => ⟨0, by simp [weightedSum]⟩
  | _ :: _, [], _ => ⟨0, by simp [weightedSum]⟩
  | w :: ws, c :: t, h => by
    simp only [allDigits, List.all_cons, Bool.and_eq_true] at h
    obtain ⟨d, hd⟩ := intChar_digit hU h.1
    obtain ⟨v, hv⟩ := weightedSum_ok hU ws t h.2
    exact ⟨w * d + v, by simp [weightedSum, hd, hv]⟩

theorem weighted_ok {U : Unicode} (hU : U.WF) (s : Str) (m : Nat) (ws : List Nat)
    (h : allDigits s = true) : ∃ v, weighted U s m ws = .ok v := by
  obtain ⟨v, hv⟩ := weightedSum_ok hU ws s h
  exact ⟨v % m, by simp [weighted, hv]⟩

/-! ### France -/

theorem frNumeric_some {c : Nat} (h : isAsciiAlnumUpper c = true) : ∃ d, frNumeric c = some d := by
  unfold frNumeric
  by_cases hd : isAsciiDigit c = true
  · exact ⟨_, by rw [if_pos hd]⟩
  · rw [if_neg hd]
    have hu : 65 ≤ c ∧ c ≤ 90 := by
      simp only [isAsciiAlnumUpper, Bool.or_eq_true] at h
      rcases h with h | h
      · exact absurd h hd
      · simpa [isAsciiUpper] using h
    by_cases h1 : c ≤ 73
    · exact ⟨_, by rw [if_pos (by simp; omega)]⟩
    · rw [if_neg (by simp; omega)]
      by_cases h2 : c ≤ 82
      · exact ⟨_, by rw [if_pos (by simp; omega)]⟩
      · rw [if_neg (by simp; omega)]
        exact ⟨_, by rw [if_pos (by simp; omega)]⟩

theorem frNumerify_ok (U : Unicode) :
    ∀ (s : Str) (v n : Nat), allAlnum s = true → 0 < n + s.length → n + s.length ≤ U.maxIntDigits →
      ∃ r, frNumerify U s v n = .ok r
  | [], v, n, _, h0, h1 => by
    simp only [List.length_nil, Nat.add_zero] at h0 h1
    refine ⟨v, ?_⟩
    unfold frNumerify
    rw [if_neg]
    simp only [Bool.or_eq_true, decide_eq_true_eq, not_or, Nat.not_lt]
    exact ⟨by omega, h1⟩
  | c :: t, v, n, h, _, h1 => by
    simp only [allAlnum, List.all_cons, Bool.and_eq_true] at h
    obtain ⟨d, hd⟩ := frNumeric_some h.1
    obtain ⟨r, hr⟩ := frNumerify_ok U t (v * 10 + d) (n + 1) h.2 (by omega)
      (by simp only [List.length_cons] at h1; omega)
    exact ⟨r, by simp only [frNumerify, hd]; exact hr⟩

/-! ### Finland (Luhn), Italy -/

theorem luhnNumerical_ok : ∀ (s : Str), allAlnum s = true → ∃ r, luhnNumerical s = .ok r
  | [], _ => ⟨[], rfl⟩
  | c :: t, h => by
    simp only [allAlnum, List.all_cons, Bool.and_eq_true] at h
    obtain ⟨r, hr⟩ := luhnNumerical_ok t h.2
    have : ∃ i, alphaIndex c = some i := by
      simp only [isAsciiAlnumUpper, Bool.or_eq_true] at h
      rcases h.1 with hd | hu
      · exact ⟨_, alphaIndex_digit hd⟩
      · exact ⟨_, alphaIndex_upper hu⟩
    obtain ⟨i, hi⟩ := this
    exact ⟨_, by simp only [luhnNumerical, hi, hr]; rfl⟩

theorem indexOf_upper : ∀ k : Fin 26, indexOfSub [65 + k.val] upperAlphabet 0 = some k.val := by
  decide

theorem itOdds_some : ∀ k : Fin 26, (itOdds[k.val]?).isSome = true := by decide

theorem itGetIndex_ok {U : Unicode} (hU : U.WF) {c : Nat} (h : isAsciiAlnumUpper c = true) :
    ∃ k, k < 26 ∧ itGetIndex U c = .ok k := by
  unfold itGetIndex
  by_cases hd : isAsciiDigit c = true
  · have h' : 48 ≤ c ∧ c ≤ 57 := by simpa [isAsciiDigit] using hd
    exact ⟨c - 48, by omega, by rw [if_pos hd]⟩
  · rw [if_neg hd]
    have hu : 65 ≤ c ∧ c ≤ 90 := by
      simp only [isAsciiAlnumUpper, Bool.or_eq_true] at h
      rcases h with h | h
      · exact absurd h hd
      · simpa [isAsciiUpper] using h
    have hup : U.upper c = [c] := by
      have := hU.fixedUpper (c - 65) (by simp; omega)
      rw [show c - 65 + 65 = c by omega] at this
      simp [Unicode.upper, this]
    have hi := indexOf_upper ⟨c - 65, by omega⟩
    simp only [show 65 + (c - 65) = c by omega] at hi
    exact ⟨c - 65, by omega, by rw [hup, hi]⟩

theorem itSum_ok {U : Unicode} (hU : U.WF) :
    ∀ (s : Str) (i : Nat), allAlnum s = true → ∃ r, itSum U s i = .ok r
  | [], _, _ => ⟨0, rfl⟩
  | c :: t, i, h => by
    simp only [allAlnum, List.all_cons, Bool.and_eq_true] at h
    obtain ⟨k, hk, hg⟩ := itGetIndex_ok hU h.1
    obtain ⟨r, hr⟩ := itSum_ok hU t (i + 1) h.2
    have ho := itOdds_some ⟨k, hk⟩
    simp only at ho
    obtain ⟨o, ho'⟩ := Option.isSome_iff_exists.mp ho
    by_cases hp : ((i + 1) % 2 == 0) = true
    · exact ⟨k + r, by simp only [itSum, hg, Res.ok_bind, hp, ↓reduceIte, hr]; rfl⟩
    · exact ⟨o + r, by simp only [itSum, hg, Res.ok_bind, hp, ho', hr]; rfl⟩

/-! ### Input-level safety -/

/-- What an algorithm needs of its component strings (`m` = the `int()` digit limit). -/
def NatAlgo.safeOn (m : Nat) : NatAlgo → List Str → Bool
  | .isoDefault, _ => true
  | .isoVariant, _ => true
  | .be, _ => true
  | .fr, [a, b, c] => [a, b, c].all (fun s => allAlnum s && decide (0 < s.length) && decide (s.length ≤ m))
  | .es, [a, b, c] => allDigits a && allDigits b && allDigits c
  | .pl, cs => cs.all allDigits
  | .ee, cs => cs.all allDigits
  | .czsk, [a, b] => allDigits a && allDigits b
  | .is_, [a] => allDigits a && decide (9 ≤ a.length)
  | .no, [a, b] => allDigits a && allDigits b
  | .fi, cs => cs.all allAlnum
  | .it, cs => cs.all allAlnum
  | _, _ => false

theorem numerify_no_crash (U : Unicode) (s : Str) : (numerify U s).isCrash = false := by
  unfold numerify
  split
  · split <;> rfl
  · rfl

theorem isoPre_no_crash (U : Unicode) (cs : List Str) :
    (∃ v, isoPre U cs = .ok v) ∨ ∃ k, isoPre U cs = .err k := by
  unfold isoPre
  have := numerify_no_crash U (joinStrs cs)
  cases h : numerify U (joinStrs cs) with
  | ok v => left; exact ⟨_, rfl⟩
  | err k => right; exact ⟨k, rfl⟩
  | crash c => rw [h] at this; cases this

theorem NatAlgo.compute_no_crash {U : Unicode} (hU : U.WF) (a : NatAlgo) (cs : List Str)
    (h : a.safeOn U.maxIntDigits cs = true) : (a.compute U cs).isCrash = false := by
  cases a with
  | isoDefault =>
    simp only [NatAlgo.compute, isoDefaultCompute]
    rcases isoPre_no_crash U cs with ⟨v, hv⟩ | ⟨k, hk⟩
    · rw [hv]; rfl
    · rw [hk]; rfl
  | isoVariant =>
    simp only [NatAlgo.compute, isoVariantCompute]
    rcases isoPre_no_crash U cs with ⟨v, hv⟩ | ⟨k, hk⟩
    · rw [hv]; rfl
    · rw [hk]; rfl
  | be =>
    simp only [NatAlgo.compute, beCompute]
    rcases isoPre_no_crash U cs with ⟨v, hv⟩ | ⟨k, hk⟩
    · rw [hv]; rfl
    · rw [hk]; rfl
  | fr =>
    match cs, h with
    | [x, y, z], h =>
      simp only [NatAlgo.safeOn, List.all_cons, List.all_nil, Bool.and_true, Bool.and_eq_true,
        decide_eq_true_eq] at h
      obtain ⟨⟨⟨ax, px⟩, lx⟩, ⟨⟨ay, py⟩, ly⟩, ⟨az, pz⟩, lz⟩ := h
      obtain ⟨r1, h1⟩ := frNumerify_ok U x 0 0 ax (by omega) (by omega)
      obtain ⟨r2, h2⟩ := frNumerify_ok U y 0 0 ay (by omega) (by omega)
      obtain ⟨r3, h3⟩ := frNumerify_ok U z 0 0 az (by omega) (by omega)
      simp only [NatAlgo.compute, frCompute, h1, h2, h3]; rfl
  | es =>
    match cs, h with
    | [x, y, z], h =>
      simp only [NatAlgo.safeOn, Bool.and_eq_true] at h
      obtain ⟨v1, h1⟩ := weighted_ok hU (x ++ y) 11 (esWeights.drop 2)
        (by rw [allDigits_append, h.1.1, h.1.2]; rfl)
      obtain ⟨v2, h2⟩ := weighted_ok hU z 11 esWeights h.2
      simp only [NatAlgo.compute, esCompute, h1, h2]; rfl
  | pl =>
    simp only [NatAlgo.safeOn] at h
    obtain ⟨v, hv⟩ := weighted_ok hU (joinStrs cs) 10 [3, 9, 7, 1, 3, 9, 7] (allDigits_flatten h)
    simp only [NatAlgo.compute, plCompute, hv]; rfl
  | ee =>
    simp only [NatAlgo.safeOn] at h
    obtain ⟨v, hv⟩ := weighted_ok hU (joinStrs cs).reverse 10
      (cycleWeights [7, 3, 1] (joinStrs cs).reverse.length) (allDigits_reverse (allDigits_flatten h))
    simp only [NatAlgo.compute, eeCompute, hv]; rfl
  | czsk => rfl
  | is_ =>
    match cs, h with
    | [x], h =>
      simp only [NatAlgo.safeOn, Bool.and_eq_true, decide_eq_true_eq] at h
      obtain ⟨v, hv⟩ := weighted_ok hU x 11 [3, 2, 7, 6, 5, 4, 3, 2] h.1
      simp only [NatAlgo.compute, isCompute, hv]; rfl
  | no =>
    match cs, h with
    | [x, y], h =>
      simp only [NatAlgo.safeOn, Bool.and_eq_true] at h
      have hv : allDigits (if y.take 2 == [48, 48] then y.drop 2 else joinStrs [x, y]) = true := by
        split
        · exact allDigits_drop 2 h.2
        · simp [joinStrs, allDigits_append, h.1, h.2]
      obtain ⟨v, hv'⟩ := weightedSum_ok hU [5, 4, 3, 2, 7, 6, 5, 4, 3, 2] _ hv
      simp only [NatAlgo.compute, noCompute, hv', Res.ok_bind]
      split <;> rfl
  | fi =>
    simp only [NatAlgo.safeOn] at h
    obtain ⟨r, hr⟩ := luhnNumerical_ok (joinStrs cs) (allAlnum_flatten h)
    simp only [NatAlgo.compute, fiCompute, luhn, hr]; rfl
  | it =>
    simp only [NatAlgo.safeOn] at h
    obtain ⟨r, hr⟩ := itSum_ok hU (joinStrs cs) 0 (allAlnum_flatten h)
    simp only [NatAlgo.compute, itCompute, hr]; rfl

theorem NatAlgo.validate_no_crash {U : Unicode} (hU : U.WF) (a : NatAlgo) (cs : List Str) (ex : Str)
    (h : a.safeOn U.maxIntDigits cs = true) : (a.validate U cs ex).isCrash = false := by
  have hc := NatAlgo.compute_no_crash hU a cs h
  cases a with
  | czsk =>
    match cs, h with
    | [x, y], h =>
      simp only [NatAlgo.safeOn, Bool.and_eq_true] at h
      obtain ⟨v1, h1⟩ := weighted_ok hU x 11 ([6, 3, 7, 9, 10, 5, 8, 4, 2, 1].drop 4) h.1
      obtain ⟨v2, h2⟩ := weighted_ok hU y 11 [6, 3, 7, 9, 10, 5, 8, 4, 2, 1] h.2
      simp only [NatAlgo.validate, czValidate, h1, h2]; rfl
  | is_ =>
    match cs, h with
    | [x], h =>
      simp only [NatAlgo.safeOn, Bool.and_eq_true, decide_eq_true_eq] at h
      simp only [NatAlgo.compute] at hc
      simp only [NatAlgo.validate, isValidate]
      cases hcc : isCompute U [x] with
      | crash c => rw [hcc] at hc; cases hc
      | err k => rfl
      | ok v =>
        have : ∃ y, x[8]? = some y := ⟨x[8]'(by omega), List.getElem?_eq_getElem _⟩
        obtain ⟨y, hy⟩ := this
        simp only [Res.ok_bind, hy]; rfl
  | isoDefault | isoVariant | be | fr | es | pl | ee | no | fi | it =>
    simp only [NatAlgo.validate]
    cases hcc : NatAlgo.compute U _ cs with
    | crash c => rw [hcc] at hc; cases hc
    | err k => rfl
    | ok v => rfl

/-! ### Class level -/

theorem fitsClasses_len : ∀ {l : List SClass} {s : Str}, fitsClasses l s = true → l.length = s.length
  | [], [], _ => rfl
  | [], _ :: _, h => by simp [fitsClasses] at h
  | _ :: _, [], h => by simp [fitsClasses] at h
  | _ :: cs, _ :: xs, h => by
    simp only [fitsClasses, Bool.and_eq_true] at h
    simp [fitsClasses_len h.2]

theorem fitsClasses_take : ∀ {l : List SClass} {s : Str} (n : Nat), fitsClasses l s = true →
    fitsClasses (l.take n) (s.take n) = true
  | _, _, 0, _ => by simp [fitsClasses]
  | [], [], _ + 1, _ => by simp [fitsClasses]
  | [], _ :: _, _ + 1, h => by simp [fitsClasses] at h
  | _ :: _, [], _ + 1, h => by simp [fitsClasses] at h
  | c :: cs, x :: xs, n + 1, h => by
    simp only [fitsClasses, Bool.and_eq_true] at h
    simp only [List.take_succ_cons, fitsClasses, h.1, fitsClasses_take n h.2, Bool.and_self]

theorem fitsClasses_drop : ∀ {l : List SClass} {s : Str} (n : Nat), fitsClasses l s = true →
    fitsClasses (l.drop n) (s.drop n) = true
  | _, _, 0, h => by simpa using h
  | [], [], _ + 1, _ => by simp [fitsClasses]
  | [], _ :: _, _ + 1, h => by simp [fitsClasses] at h
  | _ :: _, [], _ + 1, h => by simp [fitsClasses] at h
  | c :: cs, x :: xs, n + 1, h => by
    simp only [fitsClasses, Bool.and_eq_true] at h
    simpa using fitsClasses_drop n h.2

/-- The classes of `s[a:b]` as `_get_slice` cuts it. -/
def clsSlice (cls : List SClass) (a b : Nat) : List SClass :=
  if a < cls.length && b ≤ cls.length then (cls.take b).drop a else []

theorem fits_getSlice {l : List SClass} {s : Str} (a b : Nat) (h : fitsClasses l s = true) :
    fitsClasses (clsSlice l a b) (getSlice s a (some b)) = true := by
  have hl := fitsClasses_len h
  simp only [clsSlice, getSlice, slice, hl]
  split
  · exact fitsClasses_drop a (fitsClasses_take b h)
  · rfl

def clsDigits (l : List SClass) : Bool := l.all (· == .n)
def clsAlnum (l : List SClass) : Bool := l.all (· != .e)

theorem digits_of_fits : ∀ {l : List SClass} {s : Str}, fitsClasses l s = true → clsDigits l = true →
    allDigits s = true
  | [], [], _, _ => rfl
  | [], _ :: _, h, _ => by simp [fitsClasses] at h
  | _ :: _, [], h, _ => by simp [fitsClasses] at h
  | c :: cs, x :: xs, h, hd => by
    simp only [fitsClasses, Bool.and_eq_true] at h
    simp only [clsDigits, List.all_cons, Bool.and_eq_true, beq_iff_eq] at hd
    have := digits_of_fits h.2 hd.2
    have hx : isAsciiDigit x = true := by have := h.1; rw [hd.1] at this; exact this
    simp only [allDigits, List.all_cons, hx, Bool.true_and]
    exact this

theorem alnum_of_fits : ∀ {l : List SClass} {s : Str}, fitsClasses l s = true → clsAlnum l = true →
    allAlnum s = true
  | [], [], _, _ => rfl
  | [], _ :: _, h, _ => by simp [fitsClasses] at h
  | _ :: _, [], h, _ => by simp [fitsClasses] at h
  | c :: cs, x :: xs, h, hd => by
    simp only [fitsClasses, Bool.and_eq_true] at h
    simp only [clsAlnum, List.all_cons, Bool.and_eq_true, bne_iff_ne, ne_eq] at hd
    have := alnum_of_fits h.2 hd.2
    have hx : isAsciiAlnumUpper x = true := by
      have h1 := h.1
      cases c with
      | n => simp only [SClass.ok] at h1; simp [isAsciiAlnumUpper, h1]
      | a => simp only [SClass.ok] at h1; simp [isAsciiAlnumUpper, h1]
      | c => simpa [SClass.ok, isAsciiAlnumUpper] using h1
      | e => exact absurd rfl hd.1
    simp only [allAlnum, List.all_cons, hx, Bool.true_and]
    exact this

/-- What an algorithm needs of the classes at its components' positions. -/
def NatAlgo.classSafe : NatAlgo → List (List SClass) → Bool
  | .isoDefault, _ => true
  | .isoVariant, _ => true
  | .be, _ => true
  | .fr, [a, b, c] => [a, b, c].all (fun l => clsAlnum l && decide (0 < l.length) && decide (l.length ≤ 100))
  | .es, [a, b, c] => clsDigits a && clsDigits b && clsDigits c
  | .pl, ls => ls.all clsDigits
  | .ee, ls => ls.all clsDigits
  | .czsk, [a, b] => clsDigits a && clsDigits b
  | .is_, [a] => clsDigits a && decide (9 ≤ a.length)
  | .no, [a, b] => clsDigits a && clsDigits b
  | .fi, ls => ls.all clsAlnum
  | .it, ls => ls.all clsAlnum
  | _, _ => false

/-- Component strings fit their class lists, one by one. -/
def fitsAll : List (List SClass) → List Str → Bool
  | [], [] => true
  | l :: ls, s :: ss => fitsClasses l s && fitsAll ls ss
  | _, _ => false

theorem all_digits_of_fitsAll : ∀ {ls : List (List SClass)} {ss : List Str}, fitsAll ls ss = true →
    ls.all clsDigits = true → ss.all allDigits = true
  | [], [], _, _ => rfl
  | [], _ :: _, h, _ => by simp [fitsAll] at h
  | _ :: _, [], h, _ => by simp [fitsAll] at h
  | l :: ls, s :: ss, h, hd => by
    simp only [fitsAll, Bool.and_eq_true] at h
    simp only [List.all_cons, Bool.and_eq_true] at hd
    simp only [List.all_cons, digits_of_fits h.1 hd.1, all_digits_of_fitsAll h.2 hd.2, Bool.and_self]

theorem all_alnum_of_fitsAll : ∀ {ls : List (List SClass)} {ss : List Str}, fitsAll ls ss = true →
    ls.all clsAlnum = true → ss.all allAlnum = true
  | [], [], _, _ => rfl
  | [], _ :: _, h, _ => by simp [fitsAll] at h
  | _ :: _, [], h, _ => by simp [fitsAll] at h
  | l :: ls, s :: ss, h, hd => by
    simp only [fitsAll, Bool.and_eq_true] at h
    simp only [List.all_cons, Bool.and_eq_true] at hd
    simp only [List.all_cons, alnum_of_fits h.1 hd.1, all_alnum_of_fitsAll h.2 hd.2, Bool.and_self]

theorem fitsAll_nil {ss : List Str} (h : fitsAll [] ss = true) : ss = [] := by
  cases ss with
  | nil => rfl
  | cons _ _ => simp [fitsAll] at h

theorem fitsAll_cons {l : List SClass} {ls : List (List SClass)} {ss : List Str}
    (h : fitsAll (l :: ls) ss = true) :
    ∃ s ss', ss = s :: ss' ∧ fitsClasses l s = true ∧ fitsAll ls ss' = true := by
  cases ss with
  | nil => simp [fitsAll] at h
  | cons s ss' =>
    simp only [fitsAll, Bool.and_eq_true] at h
    exact ⟨s, ss', rfl, h.1, h.2⟩

theorem NatAlgo.safeOn_of_classSafe {m : Nat} (hm : 100 ≤ m) (a : NatAlgo)
    {ls : List (List SClass)} {ss : List Str} (hf : fitsAll ls ss = true)
    (h : a.classSafe ls = true) : a.safeOn m ss = true := by
  cases a with
  | isoDefault => rfl
  | isoVariant => rfl
  | be => rfl
  | fr =>
    match ls, hf, h with
    | [a, b, c], hf, h =>
      obtain ⟨x, _, rfl, fx, hf⟩ := fitsAll_cons hf
      obtain ⟨y, _, rfl, fy, hf⟩ := fitsAll_cons hf
      obtain ⟨z, _, rfl, fz, hf⟩ := fitsAll_cons hf
      cases fitsAll_nil hf
      simp only [NatAlgo.classSafe, List.all_cons, List.all_nil, Bool.and_true, Bool.and_eq_true,
        decide_eq_true_eq] at h
      obtain ⟨⟨⟨a1, a2⟩, a3⟩, ⟨⟨b1, b2⟩, b3⟩, ⟨c1, c2⟩, c3⟩ := h
      have la := fitsClasses_len fx
      have lb := fitsClasses_len fy
      have lc := fitsClasses_len fz
      simp only [NatAlgo.safeOn, List.all_cons, List.all_nil, Bool.and_true, Bool.and_eq_true,
        decide_eq_true_eq, alnum_of_fits fx a1, alnum_of_fits fy b1, alnum_of_fits fz c1,
        true_and]
      omega
    | [], _, h => simp [NatAlgo.classSafe] at h
    | [_], _, h => simp [NatAlgo.classSafe] at h
    | [_, _], _, h => simp [NatAlgo.classSafe] at h
    | _ :: _ :: _ :: _ :: _, _, h => simp [NatAlgo.classSafe] at h
  | es =>
    match ls, hf, h with
    | [a, b, c], hf, h =>
      obtain ⟨x, _, rfl, fx, hf⟩ := fitsAll_cons hf
      obtain ⟨y, _, rfl, fy, hf⟩ := fitsAll_cons hf
      obtain ⟨z, _, rfl, fz, hf⟩ := fitsAll_cons hf
      cases fitsAll_nil hf
      simp only [NatAlgo.classSafe, Bool.and_eq_true] at h
      simp only [NatAlgo.safeOn, digits_of_fits fx h.1.1, digits_of_fits fy h.1.2,
        digits_of_fits fz h.2, Bool.and_self]
    | [], _, h => simp [NatAlgo.classSafe] at h
    | [_], _, h => simp [NatAlgo.classSafe] at h
    | [_, _], _, h => simp [NatAlgo.classSafe] at h
    | _ :: _ :: _ :: _ :: _, _, h => simp [NatAlgo.classSafe] at h
  | pl => exact all_digits_of_fitsAll hf h
  | ee => exact all_digits_of_fitsAll hf h
  | czsk =>
    match ls, hf, h with
    | [a, b], hf, h =>
      obtain ⟨x, _, rfl, fx, hf⟩ := fitsAll_cons hf
      obtain ⟨y, _, rfl, fy, hf⟩ := fitsAll_cons hf
      cases fitsAll_nil hf
      simp only [NatAlgo.classSafe, Bool.and_eq_true] at h
      simp only [NatAlgo.safeOn, digits_of_fits fx h.1, digits_of_fits fy h.2, Bool.and_self]
    | [], _, h => simp [NatAlgo.classSafe] at h
    | [_], _, h => simp [NatAlgo.classSafe] at h
    | _ :: _ :: _ :: _, _, h => simp [NatAlgo.classSafe] at h
  | is_ =>
    match ls, hf, h with
    | [a], hf, h =>
      obtain ⟨x, _, rfl, fx, hf⟩ := fitsAll_cons hf
      cases fitsAll_nil hf
      simp only [NatAlgo.classSafe, Bool.and_eq_true, decide_eq_true_eq] at h
      have := fitsClasses_len fx
      simp only [NatAlgo.safeOn, digits_of_fits fx h.1, Bool.true_and, decide_eq_true_eq]
      omega
    | [], _, h => simp [NatAlgo.classSafe] at h
    | _ :: _ :: _, _, h => simp [NatAlgo.classSafe] at h
  | no =>
    match ls, hf, h with
    | [a, b], hf, h =>
      obtain ⟨x, _, rfl, fx, hf⟩ := fitsAll_cons hf
      obtain ⟨y, _, rfl, fy, hf⟩ := fitsAll_cons hf
      cases fitsAll_nil hf
      simp only [NatAlgo.classSafe, Bool.and_eq_true] at h
      simp only [NatAlgo.safeOn, digits_of_fits fx h.1, digits_of_fits fy h.2, Bool.and_self]
    | [], _, h => simp [NatAlgo.classSafe] at h
    | [_], _, h => simp [NatAlgo.classSafe] at h
    | _ :: _ :: _ :: _, _, h => simp [NatAlgo.classSafe] at h
  | fi => exact all_alnum_of_fitsAll hf h
  | it => exact all_alnum_of_fitsAll hf h

/-- The class lists of the components an algorithm accepts. -/
def compClasses (e : Country) (cls : List SClass) (ks : List Component) : List (List SClass) :=
  ks.map (fun k => clsSlice cls (e.range k).start (e.range k).stop)

theorem fitsAll_components (e : Country) {cls : List SClass} {b : Str}
    (h : fitsClasses cls b = true) :
    ∀ ks : List Component, fitsAll (compClasses e cls ks) (componentsOf e b ks) = true
  | [] => rfl
  | k :: t => by
    simp only [compClasses, List.map_cons, componentsOf, fitsAll, Bool.and_eq_true]
    exact ⟨fits_getSlice _ _ h, fitsAll_components e h t⟩

/-- A string of ten ASCII digits is an account number `acct d1 … d10`. -/
theorem acct_of_digits {s : Str} (h : fitsClasses (List.replicate 10 SClass.n) s = true) :
    ∃ d1 d2 d3 d4 d5 d6 d7 d8 d9 d10, d1 < 10 ∧ d2 < 10 ∧ d3 < 10 ∧ d4 < 10 ∧ d5 < 10 ∧ d6 < 10 ∧
      d7 < 10 ∧ d8 < 10 ∧ d9 < 10 ∧ d10 < 10 ∧ s = acct d1 d2 d3 d4 d5 d6 d7 d8 d9 d10 := by
  have hl := fitsClasses_len h
  simp only [List.length_replicate] at hl
  match s, hl with
  | [c1, c2, c3, c4, c5, c6, c7, c8, c9, c10], _ =>
    simp only [List.replicate, fitsClasses, SClass.ok, isAsciiDigit, Bool.and_eq_true,
      decide_eq_true_eq, Bool.and_true] at h
    refine ⟨c1 - 48, c2 - 48, c3 - 48, c4 - 48, c5 - 48, c6 - 48, c7 - 48, c8 - 48, c9 - 48, c10 - 48,
      by omega, by omega, by omega, by omega, by omega, by omega, by omega, by omega, by omega,
      by omega, ?_⟩
    simp only [acct, List.cons.injEq, and_true]
    omega

/-! ### Table level -/

/-- One algorithm entry against the country it is registered for. -/
def entrySafeB (e : Country) (a : AlgoEntry) : Bool :=
  match parseSpec e.bbanSpec with
  | none => false
  | some l =>
    match a.ref with
    | .nat n => n.classSafe (compClasses e (expandSpec l) a.accepts)
    | .de _ => compClasses e (expandSpec l) a.accepts == [List.replicate 10 SClass.n]
    | .unknown => false

/-- Every registered algorithm is class-safe for the country named by its key. -/
def natSafeB (A : AlgoTable) (T : Table) : Bool :=
  A.all (fun a => match T.lookup (a.key.take 2) with
    | some e => entrySafeB e a
    | none => true)

/-- The German methods of the table return a verdict on every ten-digit account number. -/
def DETotal (U : Unicode) (A : AlgoTable) : Prop :=
  ∀ a ∈ A, ∀ p, a.ref = .de p → ∀ (d1 d2 d3 d4 d5 d6 d7 d8 d9 d10 : Nat),
    d1 < 10 → d2 < 10 → d3 < 10 → d4 < 10 → d5 < 10 → d6 < 10 → d7 < 10 → d8 < 10 → d9 < 10 →
    d10 < 10 → ∀ sc : Scratch,
      deVerdict (p.validateM U [acct d1 d2 d3 d4 d5 d6 d7 d8 d9 d10] sc).2 = true

theorem isCrash_of_deVerdict {r : Res Bool} (h : deVerdict r = true) : r.isCrash = false := by
  cases r with
  | ok _ => rfl
  | err _ => rfl
  | crash _ => simp [deVerdict] at h

/-- **National validation is total** on a BBAN that fits the structure of its country. -/
theorem validateNational_no_crash (X : Ctx) (hU : X.U.WF) (hS : natSafeB X.A X.T = true)
    (hD : DETotal X.U X.A) {cc b : Str} {e : Country} (hcc : cc.length = 2)
    (hl : X.T.lookup cc = some e) (hf : fits e b = true) :
    (BBAN.validateNational X cc b).isCrash = false := by
  unfold BBAN.validateNational BBAN.bank bbanSpec
  rw [hl]
  simp only [Res.ok_bind]
  have key : ∀ (name : Str) (a : AlgoEntry), X.A.get (cc ++ [colon] ++ name) = some a →
      (do
        let ok ← a.ref.validate X.U (componentsOf e b a.accepts)
          (getSlice b (e.range .nationalChecksumDigits).start
            (some (e.range .nationalChecksumDigits).stop))
        if ok then (pure true : Res Bool) else .err .invalidBBANChecksum).isCrash = false := by
    intro name a hg
    have hmem : a ∈ X.A := List.mem_of_find?_eq_some hg
    have hkey : a.key = cc ++ [colon] ++ name := by
      have := List.find?_some hg
      simpa using this
    have hk2 : a.key.take 2 = cc := by
      rw [hkey, List.append_assoc, List.take_append_of_le_length (by omega), List.take_of_length_le (by omega)]
    have hsafe := List.all_eq_true.mp hS a hmem
    simp only [hk2, hl] at hsafe
    unfold entrySafeB at hsafe
    unfold fits at hf
    cases hp : parseSpec e.bbanSpec with
    | none => rw [hp] at hf; cases hf
    | some l =>
      rw [hp] at hf hsafe
      simp only at hf hsafe
      have hall := fitsAll_components e hf a.accepts
      have nocrash : (a.ref.validate X.U (componentsOf e b a.accepts)
          (getSlice b (e.range .nationalChecksumDigits).start
            (some (e.range .nationalChecksumDigits).stop))).isCrash = false := by
        cases hr : a.ref with
        | nat n =>
          rw [hr] at hsafe
          exact NatAlgo.validate_no_crash hU n _ _
            (NatAlgo.safeOn_of_classSafe hU.maxInt n hall hsafe)
        | de p =>
          rw [hr] at hsafe
          have hcl : compClasses e (expandSpec l) a.accepts = [List.replicate 10 SClass.n] := by
            simpa using hsafe
          rw [hcl] at hall
          obtain ⟨s, ss', hs, fs, hrest⟩ := fitsAll_cons hall
          cases fitsAll_nil hrest
          obtain ⟨d1, d2, d3, d4, d5, d6, d7, d8, d9, d10, h1, h2, h3, h4, h5, h6, h7, h8, h9, h10, rfl⟩ :=
            acct_of_digits fs
          rw [hs]
          exact isCrash_of_deVerdict
            (hD a hmem p hr d1 d2 d3 d4 d5 d6 d7 d8 d9 d10 h1 h2 h3 h4 h5 h6 h7 h8 h9 h10 ⟨0⟩)
        | unknown => rw [hr] at hsafe; cases hsafe
      cases hv : a.ref.validate X.U (componentsOf e b a.accepts)
          (getSlice b (e.range .nationalChecksumDigits).start
            (some (e.range .nationalChecksumDigits).stop)) with
      | crash c => rw [hv] at nocrash; cases nocrash
      | err k => rfl
      | ok v => cases v <;> rfl
  have fin : ∀ name : Str,
      (match X.A.get (cc ++ [colon] ++ name) with
        | none => (pure true : Res Bool)
        | some a => do
          let e ← Res.ok e
          let ok ← a.ref.validate X.U (componentsOf e b a.accepts)
            (getSlice b (e.range .nationalChecksumDigits).start
              (some (e.range .nationalChecksumDigits).stop))
          if ok then pure true else .err .invalidBBANChecksum).isCrash = false := by
    intro name
    split
    · rfl
    · next a hg => exact key name a hg
  cases hb : X.R.byBankCode cc (lookupKey e b) with
  | none => exact fin strDefault
  | some lst =>
    cases lst with
    | nil => exact fin strDefault
    | cons x t => exact fin (x.checksumAlgo.getD strDefault)

end SV
