/-
  SV.Proofs.Germany — lemmas for evaluating the German engine on ten symbolic digits.
-/
import SV.Proofs.IbanCore
import SV.Spec.Germany
namespace SV
open Spec

theorem intChar_ascii {U : Unicode} (hU : U.WF) {d : Nat} (hd : d < 10) :
    U.intChar (48 + d) = .ok d := by
  have := hU.digits d (by simp; omega)
  unfold Unicode.intChar
  rw [Nat.add_comm] at this
  rw [this]; simp

/-- Comparing the computed check digit (as text) with a digit character. -/
theorem cmp_digit_fin : ∀ (c : Fin 60) (d : Fin 10),
    (intToStr ((c.val : Int) - 30) == [48 + d.val]) = decide ((c.val : Int) - 30 = (d.val : Int)) := by
  decide +kernel

theorem cmp_digit {c : Int} {d : Nat} (h1 : -30 ≤ c) (h2 : c < 30) (hd : d < 10) :
    (intToStr c == [48 + d]) = decide (c = (d : Int)) := by
  have := cmp_digit_fin ⟨(c + 30).toNat, by omega⟩ ⟨d, hd⟩
  simp only at this
  have e : (((c + 30).toNat : Nat) : Int) - 30 = c := by omega
  rw [e] at this
  exact this

/-- What an outcome of `validate` means for acceptance: `True` accepts; `False` and
    `InvalidBBANChecksum` reject. -/
def deAccepts : Res Bool → Bool
  | .ok b => b
  | _ => false

/-- The outcome is a verdict (a bool or the library's checksum error), never a foreign
    exception. -/
def deVerdict : Res Bool → Bool
  | .ok _ => true
  | .err .invalidBBANChecksum => true
  | _ => false

end SV
