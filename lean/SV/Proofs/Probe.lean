/-
  SV.Proofs.Probe — recorded behaviour of the live algorithm objects, replayed by the kernel.

  `tools/gen.py` calls `compute` / `validate` of every registered algorithm object on a fixed,
  systematic set of inputs (unit vectors over every position and character of the field
  alphabets, boundary values mined from the source literals, seeded random inputs, a few
  ill-formed ones) and records the outcomes in `SV.Gen.Probe*`.  `probeOk` states that the model
  reproduces a recorded outcome; the generated modules discharge it chunk by chunk with
  `decide +kernel`.  This is correspondence (differential testing) made part of the build — it
  ties the hand-written algorithm bodies and their constants to the code deterministically — and
  is *not* a theorem about all inputs.
-/
import SV.Model.Bban
namespace SV

structure Probe where
  key : Str
  comps : List Str
  expected : Str
  /-- observed outcome of `algorithms[key].compute(comps)` -/
  compute : Res Str
  /-- observed outcome of `algorithms[key].validate(comps, expected)` -/
  validate : Res Bool
  deriving Repr

def probeOk (U : Unicode) (A : AlgoTable) (p : Probe) : Bool :=
  match A.get p.key with
  | some a =>
    decide (a.ref.compute U p.comps = p.compute) &&
    decide (a.ref.validate U p.comps p.expected = p.validate)
  | none => false

/-- The first probe of a list that the model does not reproduce (for the failing-input search). -/
def firstBadProbe (U : Unicode) (A : AlgoTable) (ps : List Probe) : Option Probe :=
  ps.find? (fun p => !probeOk U A p)

end SV
