/-
  SV.Proofs.Bic — BIC validation is the ISO 9362 predicate.
-/
import SV.Proofs.Clean
import SV.Proofs.RegexPos
import SV.Spec.Iso9362
namespace SV
open Spec

def alnumCls : CClass := .ranges [(48, 57), (65, 90)]
def upperCls : CClass := .ranges [(65, 90)]

/-- The two patterns of `bic.py` as the translator must find them (class ranges ascending). -/
def expectedIso9362 : BicPattern :=
  { head := [⟨alnumCls, 4, 4⟩, ⟨upperCls, 2, 2⟩, ⟨alnumCls, 2, 2⟩], tail := some [⟨alnumCls, 3, 3⟩] }
def expectedSwift : BicPattern :=
  { head := [⟨upperCls, 4, 4⟩, ⟨upperCls, 2, 2⟩, ⟨alnumCls, 2, 2⟩], tail := some [⟨alnumCls, 3, 3⟩] }

/-! ### Patterns up to spelling

  A fixed-count pattern is determined by the class it demands at each position: `[A-Z]{4}[A-Z]{2}` and
  `[A-Z]{6}` are the same pattern.  The obligation on the live patterns is stated up to this
  equivalence, so that re-spelling a pattern in the source does not break the tie. -/

theorem goTail_pos (U : Unicode) :
    ∀ (items : List Item), allFixed items = true → ∀ s,
      BicPattern.fullmatch.goTail U items s = posMatch U (expandItems items) s (fun r => r == [])
  | [], _, s => by simp [BicPattern.fullmatch.goTail, expandItems, posMatch]
  | it :: rest, h, s => by
    simp only [allFixed, List.all_cons, Bool.and_eq_true, beq_iff_eq] at h
    have ih := goTail_pos U rest (by simpa [allFixed] using h.2)
    simp only [BicPattern.fullmatch.goTail, expandItems]
    rw [← h.1, matchRep_replicate, posMatch_append]
    congr 1
    funext r
    exact ih r

theorem go_pos (U : Unicode) (tl : List Item) :
    ∀ (items : List Item), allFixed items = true → ∀ s,
      BicPattern.fullmatch.go U items tl s =
        posMatch U (expandItems items) s
          (fun r => r == [] || (tl != [] && BicPattern.fullmatch.goTail U tl r))
  | [], _, s => by simp [BicPattern.fullmatch.go, expandItems, posMatch]
  | it :: rest, h, s => by
    simp only [allFixed, List.all_cons, Bool.and_eq_true, beq_iff_eq] at h
    have ih := go_pos U tl rest (by simpa [allFixed] using h.2)
    simp only [BicPattern.fullmatch.go, expandItems]
    rw [← h.1, matchRep_replicate, posMatch_append]
    congr 1
    funext r
    exact ih r

/-- Two patterns that demand the same classes at the same positions (head and optional tail). -/
def BicPattern.equivB (p q : BicPattern) : Bool :=
  allFixed p.head && allFixed q.head && allFixed (p.tail.getD []) && allFixed (q.tail.getD []) &&
  (expandItems p.head == expandItems q.head) &&
  (expandItems (p.tail.getD []) == expandItems (q.tail.getD [])) &&
  (((p.tail.getD []) != []) == ((q.tail.getD []) != []))

theorem BicPattern.fullmatch_congr (U : Unicode) {p q : BicPattern} (h : p.equivB q = true) (s : Str) :
    p.fullmatch U s = q.fullmatch U s := by
  simp only [BicPattern.equivB, Bool.and_eq_true, beq_iff_eq] at h
  obtain ⟨⟨⟨⟨⟨⟨h1, h2⟩, h3⟩, h4⟩, h5⟩, h6⟩, h7⟩ := h
  unfold BicPattern.fullmatch
  rw [go_pos U _ _ h1, go_pos U _ _ h2, h5]
  congr 1
  funext r
  rw [goTail_pos U _ h3, goTail_pos U _ h4, h6, h7]

structure BicCtx.WF (X : BicCtx) : Prop where
  iso9362 : X.iso9362.equivB expectedIso9362 = true
  swift : X.swift.equivB expectedSwift = true

theorem alnumCls_test (U : Unicode) (x : Nat) : alnumCls.test U x = isAlnumU x := by
  simp [alnumCls, CClass.test, isAlnumU, isAsciiDigit, isAsciiUpper]

theorem upperCls_test (U : Unicode) (x : Nat) : upperCls.test U x = isAsciiUpper x := by
  simp [upperCls, CClass.test, isAsciiUpper]

theorem tail_ne_nil : (([⟨alnumCls, 3, 3⟩] : List Item) != []) = true := by decide

theorem fullmatch_8 (U : Unicode) (strict : Bool) (c0 c1 c2 c3 c4 c5 c6 c7 : Nat) :
    (if strict then expectedSwift else expectedIso9362).fullmatch U [c0, c1, c2, c3, c4, c5, c6, c7] =
      iso9362 [[c4, c5]] strict [c0, c1, c2, c3, c4, c5, c6, c7] := by
  cases strict <;>
    simp [BicPattern.fullmatch, BicPattern.fullmatch.go, BicPattern.fullmatch.goTail, expectedIso9362,
      expectedSwift, matchRep, alnumCls_test, upperCls_test, iso9362, Bool.and_assoc, tail_ne_nil]

theorem fullmatch_11 (U : Unicode) (strict : Bool) (c0 c1 c2 c3 c4 c5 c6 c7 c8 c9 c10 : Nat) :
    (if strict then expectedSwift else expectedIso9362).fullmatch U
        [c0, c1, c2, c3, c4, c5, c6, c7, c8, c9, c10] =
      iso9362 [[c4, c5]] strict [c0, c1, c2, c3, c4, c5, c6, c7, c8, c9, c10] := by
  cases strict <;>
    simp [BicPattern.fullmatch, BicPattern.fullmatch.go, BicPattern.fullmatch.goTail, expectedIso9362,
      expectedSwift, matchRep, alnumCls_test, upperCls_test, iso9362, Bool.and_assoc, tail_ne_nil]

end SV

namespace SV
open Spec

theorem iso9362_split (iso : List Str) (strict : Bool) (c : Str) :
    iso9362 iso strict c =
      (iso9362 [(c.drop 4).take 2] strict c && iso.contains ((c.drop 4).take 2)) := by
  unfold iso9362
  have : ([(c.drop 4).take 2] : List Str).contains ((c.drop 4).take 2) = true := by simp
  rw [this, Bool.and_true]
  ac_rfl

theorem list_len8 {c : Str} (h : c.length = 8) :
    ∃ c0 c1 c2 c3 c4 c5 c6 c7, c = [c0, c1, c2, c3, c4, c5, c6, c7] := by
  match c, h with
  | [c0, c1, c2, c3, c4, c5, c6, c7], _ => exact ⟨c0, c1, c2, c3, c4, c5, c6, c7, rfl⟩

theorem list_len11 {c : Str} (h : c.length = 11) :
    ∃ c0 c1 c2 c3 c4 c5 c6 c7 c8 c9 c10, c = [c0, c1, c2, c3, c4, c5, c6, c7, c8, c9, c10] := by
  match c, h with
  | [c0, c1, c2, c3, c4, c5, c6, c7, c8, c9, c10], _ =>
    exact ⟨c0, c1, c2, c3, c4, c5, c6, c7, c8, c9, c10, rfl⟩

/-- The decision `BIC.validate` takes, in terms of the ISO 9362 predicate. -/
theorem bic_validate_eq (X : BicCtx) (hX : X.WF) (c : Str) (strict : Bool) :
    BIC.validate X c strict =
      if c.length ≠ 8 ∧ c.length ≠ 11 then .err .invalidLength
      else if iso9362 [(c.drop 4).take 2] strict c = false then .err .invalidStructure
      else if X.iso.contains ((c.drop 4).take 2) = false then .err .invalidCountryCode
      else .ok true := by
  unfold BIC.validate
  have hpat : (if strict then X.swift else X.iso9362).fullmatch X.U c =
      (if strict then expectedSwift else expectedIso9362).fullmatch X.U c := by
    cases strict
    · exact BicPattern.fullmatch_congr X.U hX.iso9362 c
    · exact BicPattern.fullmatch_congr X.U hX.swift c
  rw [hpat]
  by_cases h8 : c.length = 8
  · obtain ⟨c0, c1, c2, c3, c4, c5, c6, c7, rfl⟩ := list_len8 h8
    rw [fullmatch_8]
    simp [getSlice, slice]
  · by_cases h11 : c.length = 11
    · obtain ⟨c0, c1, c2, c3, c4, c5, c6, c7, c8, c9, c10, rfl⟩ := list_len11 h11
      rw [fullmatch_11]
      simp [getSlice, slice]
    · simp [h8, h11]

end SV
