/-
  SV.Proofs.ErrorDetect — the mod-97 check detects every single same-kind substitution and every
  adjacent same-kind transposition: number theory on the letter-expanded number.
-/
import SV.Proofs.IbanIso
namespace SV
open Spec

/-- Width of a character's expansion (1 for a digit, 2 otherwise) and its value. -/
def cw (c : Nat) : Nat := if isAsciiDigit c then 1 else 2
def cv (c : Nat) : Nat := if isAsciiDigit c then c - 48 else c - 55

theorem numVal_acc : ∀ (s : Str) (acc : Nat), numVal s acc = acc * 10 ^ numLen s + numVal s 0
  | [], acc => by simp [numVal, numLen]
  | c :: t, acc => by
    simp only [numVal, numLen]
    by_cases h : isAsciiDigit c = true
    · simp only [h, ↓reduceIte]
      rw [numVal_acc t (acc * 10 + (c - 48)), numVal_acc t (0 * 10 + (c - 48))]
      rw [Nat.pow_add]; simp only [Nat.pow_one, Nat.zero_mul, Nat.zero_add]
      rw [Nat.add_mul, Nat.mul_assoc, Nat.add_assoc]
    · simp only [h, Bool.false_eq_true, ↓reduceIte]
      rw [numVal_acc t (acc * 100 + (c - 55)), numVal_acc t (0 * 100 + (c - 55))]
      rw [Nat.pow_add]; simp only [Nat.zero_mul, Nat.zero_add]
      rw [Nat.add_mul, Nat.mul_assoc, Nat.add_assoc]

/-- The number of `p ++ c :: s`, split at one character. -/
theorem numVal_split (p : Str) (c : Nat) (s : Str) :
    numVal (p ++ c :: s) 0 =
      numVal p 0 * 10 ^ (cw c + numLen s) + cv c * 10 ^ numLen s + numVal s 0 := by
  rw [numVal_append, numVal_acc (c :: s)]
  have : numVal (c :: s) 0 = cv c * 10 ^ numLen s + numVal s 0 := by
    simp only [numVal, cv]
    by_cases h : isAsciiDigit c = true
    · simp only [h, ↓reduceIte, Nat.zero_mul, Nat.zero_add]; rw [numVal_acc]
    · simp only [h, Bool.false_eq_true, ↓reduceIte, Nat.zero_mul, Nat.zero_add]; rw [numVal_acc]
  rw [this]
  have hl : numLen (c :: s) = cw c + numLen s := by simp [numLen, cw]
  rw [hl, Nat.add_assoc]

/-- 10 is a unit modulo 97. -/
theorem mul_pow10_mod97 (m : Nat) : ∀ k, (m * 10 ^ k) % 97 = 0 → m % 97 = 0
  | 0, h => by simpa using h
  | k + 1, h => by
    have : (m * 10 ^ k * 10) % 97 = 0 := by rw [Nat.mul_assoc, ← Nat.pow_succ]; exact h
    have h' : (m * 10 ^ k) % 97 = 0 := by omega
    exact mul_pow10_mod97 m k h'

/-- Two numbers with the same residue differ by a multiple of 97. -/
theorem sub_mod97 {a b : Nat} (hab : b ≤ a) (h : a % 97 = b % 97) : (a - b) % 97 = 0 := by omega

/-- Same kind: both ASCII digits or both ASCII upper-case letters. -/
def sameKind (x y : Nat) : Bool :=
  (isAsciiDigit x && isAsciiDigit y) || (isAsciiUpper x && isAsciiUpper y)

theorem sameKind_facts {x y : Nat} (h : sameKind x y = true) (hne : x ≠ y) :
    cw x = cw y ∧ cv x ≠ cv y ∧ cv x < 36 ∧ cv y < 36 := by
  simp only [sameKind, isAsciiDigit, isAsciiUpper, Bool.or_eq_true, Bool.and_eq_true,
    decide_eq_true_eq] at h
  simp only [cw, cv, isAsciiDigit]
  rcases h with ⟨⟨h1, h2⟩, h3, h4⟩ | ⟨⟨h1, h2⟩, h3, h4⟩
  · have e1 : (decide (48 ≤ x) && decide (x ≤ 57)) = true := by simp [h1, h2]
    have e2 : (decide (48 ≤ y) && decide (y ≤ 57)) = true := by simp [h3, h4]
    simp only [e1, e2, ↓reduceIte]
    refine ⟨trivial, ?_, ?_, ?_⟩ <;> omega
  · have e1 : (decide (48 ≤ x) && decide (x ≤ 57)) = false := by
      simp only [Bool.and_eq_false_iff, decide_eq_false_iff_not]; omega
    have e2 : (decide (48 ≤ y) && decide (y ≤ 57)) = false := by
      simp only [Bool.and_eq_false_iff, decide_eq_false_iff_not]; omega
    simp only [e1, e2, Bool.false_eq_true, ↓reduceIte]
    refine ⟨trivial, ?_, ?_, ?_⟩ <;> omega

/-- **Substitution**: replacing one character by a different one of the same kind changes the
    residue modulo 97. -/
theorem subst_changes_residue (p s : Str) (x y : Nat) (hk : sameKind x y = true) (hne : x ≠ y) :
    numVal (p ++ x :: s) 0 % 97 ≠ numVal (p ++ y :: s) 0 % 97 := by
  obtain ⟨hw, hv, hx, hy⟩ := sameKind_facts hk hne
  rw [numVal_split, numVal_split, hw]
  intro h
  rcases Nat.lt_or_ge (cv x) (cv y) with hlt | hge
  · have hd := sub_mod97 (a := numVal p 0 * 10 ^ (cw y + numLen s) + cv y * 10 ^ numLen s + numVal s 0)
      (b := numVal p 0 * 10 ^ (cw y + numLen s) + cv x * 10 ^ numLen s + numVal s 0)
      (by have := Nat.mul_le_mul_right (10 ^ numLen s) (Nat.le_of_lt hlt); omega) h.symm
    have e : numVal p 0 * 10 ^ (cw y + numLen s) + cv y * 10 ^ numLen s + numVal s 0 -
        (numVal p 0 * 10 ^ (cw y + numLen s) + cv x * 10 ^ numLen s + numVal s 0) =
        (cv y - cv x) * 10 ^ numLen s := by
      rw [Nat.sub_mul]; have := Nat.mul_le_mul_right (10 ^ numLen s) (Nat.le_of_lt hlt); omega
    rw [e] at hd
    have := mul_pow10_mod97 _ _ hd
    omega
  · have hgt : cv y < cv x := by omega
    have hd := sub_mod97 (a := numVal p 0 * 10 ^ (cw y + numLen s) + cv x * 10 ^ numLen s + numVal s 0)
      (b := numVal p 0 * 10 ^ (cw y + numLen s) + cv y * 10 ^ numLen s + numVal s 0)
      (by have := Nat.mul_le_mul_right (10 ^ numLen s) (Nat.le_of_lt hgt); omega) h
    have e : numVal p 0 * 10 ^ (cw y + numLen s) + cv x * 10 ^ numLen s + numVal s 0 -
        (numVal p 0 * 10 ^ (cw y + numLen s) + cv y * 10 ^ numLen s + numVal s 0) =
        (cv x - cv y) * 10 ^ numLen s := by
      rw [Nat.sub_mul]; have := Nat.mul_le_mul_right (10 ^ numLen s) (Nat.le_of_lt hgt); omega
    rw [e] at hd
    have := mul_pow10_mod97 _ _ hd
    omega

end SV

namespace SV
open Spec

theorem small_multiples_mod97 : ∀ d : Fin 36, 0 < d.val → (d.val * 9) % 97 ≠ 0 ∧ (d.val * 99) % 97 ≠ 0 := by
  decide

/-- The arithmetic of a transposition: the two numbers differ by `(x − y)·c·L` with `c = 10^w − 1`. -/
theorem swap_arith9 (P S L x y : Nat) (hyx : y < x)
    (h : (P + x * (10 * L) + (y * L + S)) % 97 = (P + y * (10 * L) + (x * L + S)) % 97) :
    ((x - y) * 9 * L) % 97 = 0 := by
  have hle : y * L ≤ x * L := Nat.mul_le_mul_right L (Nat.le_of_lt hyx)
  rw [Nat.mul_left_comm x 10 L, Nat.mul_left_comm y 10 L] at h
  have e : (x - y) * 9 * L = 9 * (x * L - y * L) := by
    rw [Nat.mul_right_comm, Nat.sub_mul, Nat.mul_comm]
  rw [e]
  generalize x * L = A at *
  generalize y * L = B at *
  omega

theorem swap_arith99 (P S L x y : Nat) (hyx : y < x)
    (h : (P + x * (100 * L) + (y * L + S)) % 97 = (P + y * (100 * L) + (x * L + S)) % 97) :
    ((x - y) * 99 * L) % 97 = 0 := by
  have hle : y * L ≤ x * L := Nat.mul_le_mul_right L (Nat.le_of_lt hyx)
  rw [Nat.mul_left_comm x 100 L, Nat.mul_left_comm y 100 L] at h
  have e : (x - y) * 99 * L = 99 * (x * L - y * L) := by
    rw [Nat.mul_right_comm, Nat.sub_mul, Nat.mul_comm]
  rw [e]
  generalize x * L = A at *
  generalize y * L = B at *
  omega

/-- **Adjacent transposition** (within the rearranged text): swapping two adjacent different
    characters of the same kind changes the residue modulo 97. -/
theorem swap_changes_residue (p s : Str) (a b : Nat) (hk : sameKind a b = true) (hne : a ≠ b) :
    numVal (p ++ a :: b :: s) 0 % 97 ≠ numVal (p ++ b :: a :: s) 0 % 97 := by
  obtain ⟨hw, hv, ha, hb⟩ := sameKind_facts hk hne
  have split2 : ∀ (u v : Nat), cw u = cw b → numVal (p ++ u :: v :: s) 0 =
      numVal p 0 * 10 ^ (cw b + (cw v + numLen s)) + cv u * (10 ^ cw v * 10 ^ numLen s) +
        (cv v * 10 ^ numLen s + numVal s 0) := by
    intro u v hu
    rw [numVal_split p u (v :: s)]
    have h1 : numLen (v :: s) = cw v + numLen s := by simp [numLen, cw]
    have h2 : numVal (v :: s) 0 = cv v * 10 ^ numLen s + numVal s 0 := by
      have := numVal_split [] v s
      simpa [numVal] using this
    rw [h1, h2, hu, Nat.pow_add (10) (cw v) (numLen s)]
  rw [split2 a b hw, split2 b a rfl, hw]
  have hwv : cw b = 1 ∨ cw b = 2 := by unfold cw; split <;> simp
  intro h
  have fin : ∀ (x y : Nat), y < x → x < 36 →
      (numVal p 0 * 10 ^ (cw b + (cw b + numLen s)) + x * (10 ^ cw b * 10 ^ numLen s) +
        (y * 10 ^ numLen s + numVal s 0)) % 97 =
      (numVal p 0 * 10 ^ (cw b + (cw b + numLen s)) + y * (10 ^ cw b * 10 ^ numLen s) +
        (x * 10 ^ numLen s + numVal s 0)) % 97 → False := by
    intro x y hyx hx36 hh
    have hd : 0 < x - y ∧ x - y < 36 := by omega
    have hsm := small_multiples_mod97 ⟨x - y, hd.2⟩ hd.1
    simp only at hsm
    rcases hwv with h1 | h2
    · rw [h1] at hh
      simp only [Nat.pow_one] at hh
      have := swap_arith9 _ _ _ x y hyx hh
      have := mul_pow10_mod97 _ _ this
      exact hsm.1 this
    · rw [h2] at hh
      have e100 : (10 : Nat) ^ 2 = 100 := by decide
      rw [e100] at hh
      have := swap_arith99 _ _ _ x y hyx hh
      have := mul_pow10_mod97 _ _ this
      exact hsm.2 this
  rcases Nat.lt_or_ge (cv b) (cv a) with hlt | hge
  · exact fin (cv a) (cv b) hlt ha h
  · have hlt : cv a < cv b := by omega
    exact fin (cv b) (cv a) hlt hb h.symm

end SV
