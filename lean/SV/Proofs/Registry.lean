/-
  SV.Proofs.Registry — laws of `merge_dicts` on JSON documents.
-/
import SV.Model.Registry
namespace SV

theorem lookupJ_append (k : Str) (a b : List (Str × J)) :
    lookupJ k (a ++ b) = (lookupJ k a).orElse (fun _ => lookupJ k b) := by
  induction a with
  | nil => simp [lookupJ]
  | cons p t ih =>
    obtain ⟨k', v⟩ := p
    simp only [List.cons_append, lookupJ]
    split
    · simp
    · exact ih

theorem lookupJ_mergeL (k : Str) (l r : List (Str × J)) :
    lookupJ k (mergeL l r) =
      (lookupJ k l).map (fun lv => match lookupJ k r with
        | some rv => J.merge lv rv
        | none => lv) := by
  induction l with
  | nil => simp [mergeL, lookupJ]
  | cons p t ih =>
    obtain ⟨k', v⟩ := p
    simp only [mergeL, lookupJ]
    by_cases h : (k == k') = true
    · have : k = k' := by simpa using h
      subst this
      simp only [beq_self_eq_true, ↓reduceIte, Option.map_some]
      cases lookupJ k r <;> rfl
    · simp only [h, Bool.false_eq_true, ↓reduceIte]
      exact ih

theorem lookupJ_filter (k : Str) (f : Str → Bool) (r : List (Str × J)) :
    lookupJ k (r.filter (fun p => f p.1)) = if f k then lookupJ k r else none := by
  induction r with
  | nil => simp [lookupJ]
  | cons p t ih =>
    obtain ⟨k', v⟩ := p
    simp only [List.filter_cons]
    by_cases hk : (k == k') = true
    · have : k = k' := by simpa using hk
      subst this
      by_cases hf : f k = true
      · simp [hf, lookupJ]
      · simp only [hf, Bool.false_eq_true, ↓reduceIte]
        rw [ih]; simp [hf]
    · by_cases hf' : f k' = true
      · simp only [hf', ↓reduceIte, lookupJ, hk, Bool.false_eq_true]
        rw [ih]
      · simp only [hf', Bool.false_eq_true, ↓reduceIte, lookupJ, hk]
        rw [ih]

/-- **The merge law, one level**: a key of both documents with two dict values is merged
    recursively; otherwise a key the right document has gets the right document's value; any other
    key keeps the left document's value. -/
theorem merge_get (k : Str) (l r : List (Str × J)) :
    lookupJ k (mergeDicts l r) =
      match lookupJ k l, lookupJ k r with
      | some lv, some rv => some (J.merge lv rv)
      | some lv, none => some lv
      | none, some rv => some rv
      | none, none => none := by
  unfold mergeDicts
  rw [lookupJ_append, lookupJ_mergeL]
  have hf := lookupJ_filter k (fun x => !(hasKey x l)) r
  rw [hf]
  cases hl : lookupJ k l with
  | some lv =>
    cases hr : lookupJ k r <;> simp
  | none =>
    simp only [Option.map_none, Option.orElse_none, hasKey, hl, Option.isSome_none, Bool.not_false,
      ↓reduceIte]
    cases hr : lookupJ k r <;> rfl

theorem merge_dict_dict (lv rv : J) :
    J.merge lv rv = match lv, rv with
      | .obj a, .obj b => .obj (mergeDicts a b)
      | _, r => r := by
  cases lv <;> cases rv <;> simp [J.merge, mergeDicts]

/-- The keys of the merge are the keys of either document. -/
theorem merge_keys (k : Str) (l r : List (Str × J)) :
    hasKey k (mergeDicts l r) = (hasKey k l || hasKey k r) := by
  unfold hasKey
  rw [merge_get]
  cases lookupJ k l <;> cases lookupJ k r <;> rfl

/-! ### paths -/

/-- `doc[k1][k2]…`, walking through dicts only. -/
def getPath : J → List Str → Option J
  | v, [] => some v
  | .obj kv, k :: ks => match lookupJ k kv with
    | some v => getPath v ks
    | none => none
  | _, _ :: _ => none

def J.isObj : J → Bool
  | .obj _ => true
  | _ => false

/-- The overlay does not name the path: walking it through the overlay's dicts ends at a missing
    key. -/
def untouched : J → List Str → Bool
  | .obj kv, k :: ks => match lookupJ k kv with
    | some v => untouched v ks
    | none => true
  | _, _ => false

theorem getPath_untouched : ∀ (r : J) (p : List Str), untouched r p = true → getPath r p = none
  | .obj kv, k :: ks, h => by
    simp only [untouched] at h
    simp only [getPath]
    cases hk : lookupJ k kv with
    | none => rfl
    | some v => rw [hk] at h; exact getPath_untouched v ks h
  | .obj _, [], h => by simp [untouched] at h
  | .null, _, h | .bool _, _, h | .num _, _, h | .str _, _, h | .arr _, _, h => by
    simp [untouched] at h

theorem getPath_nonobj {v : J} (hv : v.isObj = false) {p : List Str} (hp : p ≠ []) :
    getPath v p = none := by
  cases p with
  | nil => exact absurd rfl hp
  | cons k ks => cases v <;> simp [getPath, J.isObj] at hv ⊢

/-- **An overlay changes nothing it does not name**: a path the overlay leaves untouched has
    in the merged document the value it has in the base document. -/
theorem merge_untouched : ∀ (l r : J) (p : List Str), l.isObj = true → r.isObj = true →
    untouched r p = true → getPath (J.merge l r) p = getPath l p
  | .obj a, .obj b, k :: ks, _, _, h => by
    rw [merge_dict_dict]
    simp only [getPath, merge_get]
    simp only [untouched] at h
    cases hb : lookupJ k b with
    | none => cases ha : lookupJ k a <;> rfl
    | some rv =>
      rw [hb] at h
      have hks : ks ≠ [] := by
        intro e; subst e; cases rv <;> simp [untouched] at h
      have hrobj : rv.isObj = true := by cases rv <;> simp [untouched, J.isObj] at h ⊢
      cases ha : lookupJ k a with
      | none =>
        simp only
        exact getPath_untouched rv ks h
      | some lv =>
        simp only
        cases hlo : lv.isObj with
        | true => exact merge_untouched lv rv ks hlo hrobj h
        | false =>
          have : J.merge lv rv = rv := by cases lv <;> simp [J.merge, J.isObj] at hlo ⊢
          rw [this, getPath_untouched rv ks h, getPath_nonobj hlo hks]
  | .obj _, .obj _, [], _, _, h => by simp [untouched] at h
  | .null, _, _, h, _, _ | .bool _, _, _, h, _, _ | .num _, _, _, h, _, _ | .str _, _, _, h, _, _
  | .arr _, _, _, h, _, _ => by simp [J.isObj] at h
  | .obj _, .null, _, _, h, _ | .obj _, .bool _, _, _, h, _ | .obj _, .num _, _, _, h, _
  | .obj _, .str _, _, _, h, _ | .obj _, .arr _, _, _, h, _ => by simp [J.isObj] at h

/-- **An overlay changes exactly what it names**: a path at which the overlay holds a non-dict
    value holds that value in the merged document. -/
theorem merge_named : ∀ (l r : J) (p : List Str) (v : J), r.isObj = true →
    getPath r p = some v → v.isObj = false → getPath (J.merge l r) p = some v
  | l, .obj b, [], v, _, h, hv => by
    simp only [getPath, Option.some.injEq] at h; subst h; simp [J.isObj] at hv
  | l, .obj b, k :: ks, v, _, h, hv => by
    simp only [getPath] at h
    cases hb : lookupJ k b with
    | none => rw [hb] at h; cases h
    | some rv =>
      rw [hb] at h
      cases l with
      | obj a =>
        rw [merge_dict_dict]
        simp only [getPath, merge_get, hb]
        cases ha : lookupJ k a with
        | none => exact h
        | some lv =>
          simp only
          cases hro : rv.isObj with
          | true => exact merge_named lv rv ks v hro h hv
          | false =>
            have : J.merge lv rv = rv := by
              cases lv <;> cases rv <;> simp [J.merge, J.isObj] at hro ⊢
            rw [this]; exact h
      | null | bool _ | num _ | str _ | arr _ =>
        simp only [J.merge, getPath, hb]; exact h
  | _, .null, _, _, h, _, _ | _, .bool _, _, _, h, _, _ | _, .num _, _, _, h, _, _
  | _, .str _, _, _, h, _, _ | _, .arr _, _, _, h, _, _ => by simp [J.isObj] at h

/-! ### `parse_v2` -/

theorem lookupJ_setKey_same (k : Str) (v : J) (kv : List (Str × J)) :
    lookupJ k (setKey k v kv) = some v := by
  induction kv with
  | nil => simp [setKey, lookupJ]
  | cons p t ih =>
    obtain ⟨k', v'⟩ := p
    simp only [setKey]
    by_cases h : (k == k') = true
    · simp [h, lookupJ]
    · simp only [h, Bool.false_eq_true, ↓reduceIte, lookupJ]; exact ih

theorem lookupJ_setKey_other {k k' : Str} (h : (k' == k) = false) (v : J) (kv : List (Str × J)) :
    lookupJ k' (setKey k v kv) = lookupJ k' kv := by
  induction kv with
  | nil => simp [setKey, lookupJ, h]
  | cons p t ih =>
    obtain ⟨k'', v''⟩ := p
    simp only [setKey]
    by_cases hk : (k == k'') = true
    · have : k = k'' := by simpa using hk
      subst this
      simp [hk, lookupJ, h]
    · simp only [hk, Bool.false_eq_true, ↓reduceIte, lookupJ]
      split
      · rfl
      · exact ih

theorem lookupJ_removeKey (k k' : Str) (kv : List (Str × J)) :
    lookupJ k' (removeKey k kv) = if (k' == k) = true then none else lookupJ k' kv := by
  induction kv with
  | nil => simp [removeKey, lookupJ]
  | cons p t ih =>
    obtain ⟨k'', v⟩ := p
    simp only [removeKey]
    by_cases hk : (k == k'') = true
    · have : k = k'' := by simpa using hk
      subst this
      simp only [hk, ↓reduceIte, ih, lookupJ]
      by_cases h2 : (k' == k) = true <;> simp [h2]
    · simp only [hk, Bool.false_eq_true, ↓reduceIte, lookupJ, ih]
      by_cases h2 : (k' == k'') = true
      · have : k' = k'' := by simpa using h2
        subst this
        have : (k' == k) = false := by
          cases h3 : k' == k with
          | false => rfl
          | true => have e : k' = k := by simpa using h3
                    subst e; simp at hk
        simp [this]
      · simp [h2]

end SV
