/-
  SV.Proofs.IbanSound — every error of the validation pipeline names a defect that is present.
-/
import SV.Proofs.FromBban
namespace SV
open Spec

/-- The text is "known country code, two ASCII digits, BBAN fitting the country's structure". -/
def Spec.structureOk (T : Table) (c : Str) : Bool :=
  match T.lookup (c.take 2) with
  | none => false
  | some e => isAsciiDigit (c.getD 2 0) && isAsciiDigit (c.getD 3 0) && fits e (c.drop 4)

/-- The mod-97 condition with canonical check digits. -/
def Spec.checksumOk (c : Str) : Bool :=
  numVal (c.drop 4 ++ c.take 4) 0 % 97 == 1 && decide (2 ≤ ddVal c) && decide (ddVal c ≤ 98)

/-- The defect an error class names (for the pipeline without national validation). -/
def Spec.ibanDefect (T : Table) (k : Err) (c : Str) : Prop :=
  match k with
  | .invalidCountryCode => T.lookup (c.take 2) = none
  | .invalidLength => ∃ e, T.lookup (c.take 2) = some e ∧ c.length ≠ e.bbanLength + 4
  | .invalidStructure => structureOk T c = false
  | .invalidChecksumDigits => structureOk T c = true ∧ checksumOk c = false
  | _ => False

theorem isoValid_eq_parts (T : Table) (c : Str) :
    isoValid T c = true ↔
      (∃ e, T.lookup (c.take 2) = some e ∧ c.length = e.bbanLength + 4) ∧
      structureOk T c = true ∧ checksumOk c = true := by
  unfold isoValid structureOk checksumOk
  cases hl : T.lookup (c.take 2) with
  | none => simp
  | some e =>
    simp only [Bool.and_eq_true, beq_iff_eq, decide_eq_true_eq, Option.some.injEq, exists_eq_left']
    constructor
    · rintro ⟨⟨⟨⟨⟨⟨h1, h2⟩, h3⟩, h4⟩, h5⟩, h6⟩, h7⟩
      exact ⟨h1, ⟨⟨h2, h3⟩, h4⟩, ⟨h5, h6⟩, h7⟩
    · rintro ⟨h1, ⟨⟨h2, h3⟩, h4⟩, ⟨h5, h6⟩, h7⟩
      exact ⟨⟨⟨⟨⟨⟨h1, h2⟩, h3⟩, h4⟩, h5⟩, h6⟩, h7⟩

variable {U : Unicode} {T : Table}

/-- L1: a structurally fine text passes the first stage. -/
theorem prefixOk_of_structureOk (hU : U.WF) (hT : T.WF) {c : Str}
    (h : structureOk T c = true) : prefixOk U c = true := by
  unfold structureOk at h
  cases hl : T.lookup (c.take 2) with
  | none => simp [hl] at h
  | some e =>
    simp only [hl, Bool.and_eq_true] at h
    have ⟨heT, hcode⟩ := Table.lookup_mem hl
    obtain ⟨a', b', hcd, hua, hub⟩ := (hT e heT).code
    rw [hcd] at hcode
    match c, h, hcode with
    | [], h, _ => simp [isAsciiDigit] at h
    | [_], h, _ => simp [isAsciiDigit] at h
    | [_, _], h, _ => simp [isAsciiDigit] at h
    | [_, _, _], h, _ => simp [isAsciiDigit] at h
    | a :: b :: d1 :: d2 :: rest, h, hcode =>
      simp only [List.take_succ_cons, List.take_zero, List.cons.injEq, and_true] at hcode
      obtain ⟨rfl, rfl⟩ := hcode
      simp only [List.getD_cons_succ, List.getD_cons_zero] at h
      simp [prefixOk, hua, hub, isDigit_of_ascii hU h.1.1, isDigit_of_ascii hU h.1.2]

/-- L2: once prefix, country and length are fine, the format and alphabet stages pass exactly
    when the text is structurally fine. -/
theorem stages_iff_structureOk (hU : U.WF) (hT : T.WF) {c : Str} (hc : Compact U c)
    (hp : prefixOk U c = true) {e : Country} (hl : T.lookup (c.take 2) = some e)
    (hlen : e.ibanLength = c.length) {items : List Item} (hpat : e.pattern = some items) :
    (matchItems U items (c.drop 4) = true ∧ allAlnum (c.drop 4 ++ c.take 4) = true ∧
        numLen (c.drop 4 ++ c.take 4) ≤ U.maxIntDigits) ↔ structureOk T c = true := by
  have ⟨heT, hcode⟩ := Table.lookup_mem hl
  have hW := hT e heT
  obtain ⟨l, items', hps, hpat', hmatch, hexp⟩ := hW.spec
  rw [hpat'] at hpat
  have hitems : items = items' := (Option.some.inj hpat).symm
  subst hitems
  rw [hmatch]
  obtain ⟨a, b, d1, d2, rest, rfl⟩ := list_ge4 (prefixOk_length hp)
  have hrestC : Compact U rest := fun x hx => hc x (by simp [hx])
  simp only [prefixOk, Bool.and_eq_true] at hp
  unfold structureOk
  simp only [List.take_succ_cons, List.take_zero, List.drop_succ_cons, List.drop_zero,
    List.getD_cons_succ, List.getD_cons_zero] at *
  rw [hl]
  simp only [fits, hps, Bool.and_eq_true]
  constructor
  · rintro ⟨hm, hA, _⟩
    simp only [allAlnum_append, Bool.and_eq_true] at hA
    have hA4 := hA.2
    simp only [allAlnum, List.all_cons, List.all_nil, Bool.and_true, Bool.and_eq_true] at hA4
    refine ⟨⟨asciiDigit_of_isDigit_alnum hU hp.1.2 hA4.2.2.1,
      asciiDigit_of_isDigit_alnum hU hp.2 hA4.2.2.2⟩, ?_⟩
    rcases (matchItems_spec U l rest).mp hm with h | ⟨s', hs, _⟩
    · exact fitsClasses_of_fitsRe hU _ _ h hA.1
    · exfalso; exact newline_not_mem_compact hU hrestC (by rw [hs]; simp)
  · rintro ⟨⟨hg2, hg3⟩, hfit⟩
    have hArest := allAlnum_of_fitsClasses hU _ _ hfit hrestC
    obtain ⟨a', b', hcd, hua, hub⟩ := hW.code
    rw [hcd] at hcode
    simp only [List.cons.injEq, and_true] at hcode
    obtain ⟨rfl, rfl⟩ := hcode
    refine ⟨(matchItems_spec U l rest).mpr (Or.inl (fitsRe_of_fitsClasses hU _ _ hfit)), ?_, ?_⟩
    · simp only [allAlnum_append, Bool.and_eq_true]
      exact ⟨hArest, by simp [allAlnum, isAsciiAlnumUpper, hua, hub, hg2, hg3]⟩
    · have h1 := numLen_le (rest ++ [a', b', d1, d2])
      have h2 := hW.maxLen
      have h4 := hU.maxInt
      simp only [List.length_append, List.length_cons, List.length_nil] at h1 hlen
      omega

/-- L3: for a structurally fine text the two checksum tests pass exactly when `checksumOk`. -/
theorem checks_iff_checksumOk {c : Str} (h4 : 4 ≤ c.length)
    (hg2 : isAsciiDigit (c.getD 2 0) = true) (hg3 : isAsciiDigit (c.getD 3 0) = true) :
    (numVal (c.drop 4 ++ c.take 4) 0 % 97 = 1 ∧
      fmt02 (98 - (numVal (c.drop 4 ++ c.take 2) 0 * 100) % 97) = (c.take 4).drop 2) ↔
    checksumOk c = true := by
  obtain ⟨a, b, d1, d2, rest, rfl⟩ := list_ge4 h4
  unfold checksumOk
  simp only [List.take_succ_cons, List.take_zero, List.drop_succ_cons, List.drop_zero,
    List.getD_cons_succ, List.getD_cons_zero, ddVal, Bool.and_eq_true, beq_iff_eq,
    decide_eq_true_eq] at *
  have e1 : rest ++ [a, b, d1, d2] = (rest ++ [a, b]) ++ [d1, d2] := by simp
  rw [e1, numVal_append, numVal_two_digits hg2 hg3]
  constructor
  · rintro ⟨hmod, hdd⟩
    have hv : 98 - (numVal (rest ++ [a, b]) 0 * 100) % 97 < 100 := by omega
    have := (digit_pair_of_fmt02 hv hdd).2.2
    refine ⟨⟨hmod, ?_⟩, ?_⟩ <;> omega
  · rintro ⟨⟨hmod, hlo⟩, hhi⟩
    refine ⟨hmod, ?_⟩
    have := dd_unique hmod hlo hhi
    rw [← this]
    exact fmt02_of_digit_pair hg2 hg3

/-- **Soundness of the error classes** of the pipeline (without national validation). -/
theorem tree_err_sound (hU : U.WF) (hT : T.WF) {c : Str} (hc : Compact U c) {k : Err}
    (h : validateTree U T c = .err k) : ibanDefect T k c := by
  unfold validateTree at h
  cases hp : prefixOk U c with
  | false =>
    simp only [hp, ↓reduceIte, Res.err.injEq] at h
    subst h
    show structureOk T c = false
    cases hs : structureOk T c with
    | false => rfl
    | true => rw [prefixOk_of_structureOk hU hT hs] at hp; cases hp
  | true =>
    simp only [hp, Bool.true_eq_false, ↓reduceIte] at h
    cases hl : T.lookup (c.take 2) with
    | none =>
      simp only [hl, Res.err.injEq] at h
      subst h; exact hl
    | some e =>
      simp only [hl] at h
      have hW := hT e (Table.lookup_mem hl).1
      by_cases hlen : e.ibanLength = c.length
      · simp only [hlen, ne_eq, not_true_eq_false, ↓reduceIte] at h
        obtain ⟨l, items, _, hpat, _, _⟩ := hW.spec
        rw [hpat] at h
        simp only at h
        have hst := stages_iff_structureOk hU hT hc hp hl hlen hpat
        cases hm : matchItems U items (c.drop 4) with
        | false =>
          simp only [hm, ↓reduceIte, Res.err.injEq] at h
          subst h
          show structureOk T c = false
          cases hs : structureOk T c with
          | false => rfl
          | true => have := (hst.mpr hs).1; rw [hm] at this; cases this
        | true =>
          simp only [hm, Bool.true_eq_false, ↓reduceIte] at h
          by_cases hA : allAlnum (c.drop 4 ++ c.take 4) = true ∧
              numLen (c.drop 4 ++ c.take 4) ≤ U.maxIntDigits
          · rw [if_neg (fun h' => h' hA)] at h
            have hs : structureOk T c = true := hst.mp ⟨hm, hA.1, hA.2⟩
            have h4 := prefixOk_length hp
            have hdig : isAsciiDigit (c.getD 2 0) = true ∧ isAsciiDigit (c.getD 3 0) = true := by
              unfold structureOk at hs
              simp only [hl, Bool.and_eq_true] at hs
              exact hs.1
            have hck := checks_iff_checksumOk h4 hdig.1 hdig.2
            by_cases hmod : numVal (c.drop 4 ++ c.take 4) 0 % 97 = 1
            · rw [if_neg (fun h' : ¬ _ => h' hmod)] at h
              cases hd : (fmt02 (98 - (numVal (c.drop 4 ++ c.take 2) 0 * 100) % 97) ==
                  (c.take 4).drop 2) with
              | true => rw [hd] at h; simp at h
              | false =>
                rw [hd] at h
                simp only [↓reduceIte, Res.err.injEq] at h
                subst h
                refine ⟨hs, ?_⟩
                cases hco : checksumOk c with
                | false => rfl
                | true =>
                  have := (hck.mpr hco).2
                  rw [this] at hd; simp at hd
            · rw [if_pos hmod] at h
              simp only [Res.err.injEq] at h
              subst h
              refine ⟨hs, ?_⟩
              cases hco : checksumOk c with
              | false => rfl
              | true => exact absurd (hck.mpr hco).1 hmod
          · rw [if_pos hA] at h
            simp only [Res.err.injEq] at h
            subst h
            show structureOk T c = false
            cases hs : structureOk T c with
            | false => rfl
            | true => have := hst.mpr hs; exact absurd ⟨this.2.1, this.2.2⟩ hA
      · simp only [hlen, ne_eq, not_false_eq_true, ↓reduceIte, Res.err.injEq] at h
        subst h
        exact ⟨e, hl, by have := hW.ibanLen; omega⟩

end SV
