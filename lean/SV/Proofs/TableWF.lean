/-
  SV.Proofs.TableWF — decidable well-formedness of a country entry / table, as needed by the
  generic theorems; discharged for the regenerated table by kernel evaluation.
-/
import SV.Proofs.Numerify
import SV.Proofs.RegexPos
namespace SV
open Spec

/-- Two ranges do not overlap. -/
def Range.disjoint (r s : Range) : Bool := r.stop ≤ s.start || s.stop ≤ r.start

def pairwiseDisjoint : List (Component × Range) → Bool
  | [] => true
  | p :: t => t.all (fun q => p.1 != q.1 && Range.disjoint p.2 q.2) && pairwiseDisjoint t

/-- Boolean well-formedness of one country entry. -/
def Country.wfb (e : Country) : Bool :=
  (match parseSpec e.bbanSpec with
   | none => false
   | some l =>
     -- the live pattern demands, position by position, the classes of the structure string (it need not
     -- be spelled item by item like the structure string)
     (match e.pattern with
      | some items => allFixed items && (expandItems items == expandItems (l.map itemOf))
      | none => false) && (expandSpec l).length == e.bbanLength) &&
  e.ibanLength == e.bbanLength + 4 && decide (e.ibanLength ≤ 34) &&
  (match e.code with
   | [a, b] => isAsciiUpper a && isAsciiUpper b
   | _ => false) &&
  (e.positions.getD []).all (fun p => decide (p.2.start < p.2.stop) && decide (p.2.stop ≤ e.bbanLength)) &&
  pairwiseDisjoint (e.positions.getD []) &&
  (e.bicLookup.getD []).all (fun k => ((e.positions.getD []).lookup k).isSome)

structure Country.WF (e : Country) : Prop where
  spec : ∃ l items, parseSpec e.bbanSpec = some l ∧ e.pattern = some items ∧
    (∀ (U : Unicode) (s : Str), matchItems U items s = matchItems U (l.map itemOf) s) ∧
    (expandSpec l).length = e.bbanLength
  ibanLen : e.ibanLength = e.bbanLength + 4
  maxLen : e.ibanLength ≤ 34
  code : ∃ a b, e.code = [a, b] ∧ isAsciiUpper a = true ∧ isAsciiUpper b = true
  /-- every published field is non-empty and inside the BBAN -/
  bounds : ∀ p ∈ e.positions.getD [], p.2.start < p.2.stop ∧ p.2.stop ≤ e.bbanLength
  /-- the published fields have distinct names and do not overlap -/
  disjoint : pairwiseDisjoint (e.positions.getD []) = true
  /-- the bank-identifying fields are published fields -/
  lookupDefined : ∀ k ∈ e.bicLookup.getD [], ((e.positions.getD []).lookup k).isSome = true

theorem allFixed_map_itemOf : ∀ (l : List (Nat × SClass)), allFixed (l.map itemOf) = true
  | [] => rfl
  | (k, c) :: t => by
    have := allFixed_map_itemOf t
    simp only [allFixed, List.map_cons, List.all_cons, Bool.and_eq_true, beq_iff_eq] at *
    exact ⟨by rw [(itemOf_lo k c).1, (itemOf_lo k c).2], this⟩

theorem Country.wf_of_wfb {e : Country} (h : e.wfb = true) : e.WF := by
  unfold Country.wfb at h
  simp only [Bool.and_eq_true, decide_eq_true_eq, List.all_eq_true, beq_iff_eq] at h
  obtain ⟨⟨⟨⟨⟨⟨h1, h2⟩, h3⟩, h4⟩, h5⟩, h6⟩, h7⟩ := h
  refine ⟨?_, h2, h3, ?_, fun p hp => by simpa using h5 p hp, h6, h7⟩
  · cases hp : parseSpec e.bbanSpec with
    | none => simp [hp] at h1
    | some l =>
      simp only [hp, Bool.and_eq_true, beq_iff_eq] at h1
      cases hpat : e.pattern with
      | none => simp [hpat] at h1
      | some items =>
        simp only [hpat, Bool.and_eq_true, beq_iff_eq] at h1
        exact ⟨l, items, rfl, rfl,
          fun U s => matchItems_congr U h1.1.1 (allFixed_map_itemOf l) h1.1.2 s, h1.2⟩
  · match hc : e.code, h4 with
    | [a, b], h4 =>
      simp only [Bool.and_eq_true] at h4
      exact ⟨a, b, rfl, h4.1, h4.2⟩

/-- Every entry of the table is well-formed. -/
def Table.WF (T : Table) : Prop := ∀ e ∈ T, e.WF

def Table.wfb (T : Table) : Bool := T.all Country.wfb

theorem Table.wf_of_wfb {T : Table} (h : T.wfb = true) : T.WF := by
  intro e he
  exact Country.wf_of_wfb (List.all_eq_true.mp h e he)

theorem Table.lookup_mem {T : Table} {cc : Str} {e : Country} (h : T.lookup cc = some e) :
    e ∈ T ∧ e.code = cc := by
  unfold Table.lookup at h
  exact ⟨List.mem_of_find?_eq_some h, by simpa using List.find?_some h⟩

end SV
