/-
  SV.Proofs.Decode — reading the typed country table (`SV.Table`, the form all IBAN/BBAN theorems
  are about) off the JSON document of the effective country table (`SV.J`, the form the registry
  composition theorems of C18 are about), key by key as the code reads it:
  `spec["bban_spec"]`, `spec["bban_length"]`, `spec["iban_length"]`,
  `spec.get("positions", {}).get(component, [0, 0])`, `spec.get("bic_lookup_components", …)`,
  `spec.get("default_<component>", …)`.
-/
import SV.Model.Registry
import SV.Model.Table
namespace SV

/-- `Component.<X>.value` — the JSON key of a component. -/
def Component.jsonName : Component → Str
  | .accountId => [97, 99, 99, 111, 117, 110, 116, 95, 105, 100]   -- account_id
  | .accountType => [97, 99, 99, 111, 117, 110, 116, 95, 116, 121, 112, 101]   -- account_type
  | .accountCode => [97, 99, 99, 111, 117, 110, 116, 95, 99, 111, 100, 101]   -- account_code
  | .accountHolderId => [97, 99, 99, 111, 117, 110, 116, 95, 104, 111, 108, 100, 101, 114, 95, 105, 100]   -- account_holder_id
  | .currencyCode => [99, 117, 114, 114, 101, 110, 99, 121, 95, 99, 111, 100, 101]   -- currency_code
  | .bankCode => [98, 97, 110, 107, 95, 99, 111, 100, 101]   -- bank_code
  | .branchCode => [98, 114, 97, 110, 99, 104, 95, 99, 111, 100, 101]   -- branch_code
  | .nationalChecksumDigits => [110, 97, 116, 105, 111, 110, 97, 108, 95, 99, 104, 101, 99, 107, 115, 117, 109, 95, 100, 105, 103, 105, 116, 115]   -- national_checksum_digits

def strBbanSpec : Str := [98, 98, 97, 110, 95, 115, 112, 101, 99]
def strBbanLength : Str := [98, 98, 97, 110, 95, 108, 101, 110, 103, 116, 104]
def strIbanLength : Str := [105, 98, 97, 110, 95, 108, 101, 110, 103, 116, 104]
def strPositions : Str := [112, 111, 115, 105, 116, 105, 111, 110, 115]
def strBicLookup : Str := [98, 105, 99, 95, 108, 111, 111, 107, 117, 112, 95, 99, 111, 109, 112, 111, 110, 101, 110, 116, 115]
def strDefaultPrefix : Str := [100, 101, 102, 97, 117, 108, 116, 95]

def J.asStr? : J → Option Str
  | .str s => some s
  | _ => none

def J.asNat? : J → Option Nat
  | .num n => if 0 ≤ n then some n.toNat else none
  | _ => none

/-- A two-element array of naturals: a position range. -/
def J.asRange? : J → Option Range
  | .arr [a, b] => match a.asNat?, b.asNat? with
    | some x, some y => some ⟨x, y⟩
    | _, _ => none
  | _ => none

def Component.ofJsonName (s : Str) : Option Component :=
  Component.all.find? (fun k => k.jsonName == s)

/-- `spec["positions"]` read component by component: the typed entry has exactly the ranges the
    document gives (a component the document does not mention has none; a document without
    `positions` corresponds to `none`). -/
def positionsMatch (typed : Option (List (Component × Range))) (doc : Option J) : Bool :=
  match typed, doc with
  | none, none => true
  | some ps, some (.obj kv) =>
    Component.all.all (fun k =>
      (match lookupJ k.jsonName kv with
        | some v => v.asRange?
        | none => none) == ps.lookup k) &&
    kv.all (fun m => (Component.ofJsonName m.1).isSome && m.2.asRange?.isSome)
  | _, _ => false

def bicLookupMatch (typed : Option (List Component)) (doc : Option J) : Bool :=
  match typed, doc with
  | none, none => true
  | some cs, some (.arr l) => l.map (fun v => v.asStr?.bind Component.ofJsonName) == cs.map some
  | _, _ => false

def defaultsMatch (typed : List (Component × Str)) (kv : List (Str × J)) : Bool :=
  Component.all.all (fun k =>
    (match lookupJ (strDefaultPrefix ++ k.jsonName) kv with
      | some (.str s) => some s
      | _ => none) == typed.lookup k)

/-- The typed entry `e` is what the code reads from the document `d` of its country (everything but
    the compiled pattern, which is not part of the document). -/
def countryMatches (e : Country) (d : J) : Bool :=
  match d with
  | .obj kv =>
    ((lookupJ strBbanSpec kv).bind J.asStr? == some e.bbanSpec) &&
    ((lookupJ strBbanLength kv).bind J.asNat? == some e.bbanLength) &&
    ((lookupJ strIbanLength kv).bind J.asNat? == some e.ibanLength) &&
    positionsMatch e.positions (lookupJ strPositions kv) &&
    bicLookupMatch e.bicLookup (lookupJ strBicLookup kv) &&
    defaultsMatch e.defaults kv
  | _ => false

/-- The typed table is the document read entry by entry: same keys in the same number, and every
    typed entry matches the document's entry of that key. -/
def tableMatches (T : Table) (d : J) : Bool :=
  match d with
  | .obj kv =>
    (kv.length == T.length) &&
    T.all (fun e => match lookupJ e.code kv with
      | some c => countryMatches e c
      | none => false)
  | _ => false

end SV
