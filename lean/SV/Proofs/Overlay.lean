/-
  SV.Proofs.Overlay — `zfill`, and placing components into the zero-filled BBAN.
-/
import SV.Proofs.TableWF
namespace SV

/-- `zfill` never shortens, and pads exactly to the width. -/
theorem zfill_length (s : Str) (w : Nat) : (zfill s w).length = max s.length w := by
  unfold zfill
  by_cases h : w ≤ s.length
  · simp [h, Nat.max_eq_left h]
  · simp only [h, ↓reduceIte]
    have hw : s.length ≤ w := by omega
    cases s with
    | nil => simp
    | cons c rest =>
      simp only [List.length_cons] at hw h ⊢
      split <;> simp <;> omega

/-- Left-padding with zeros (no leading sign): the supplied characters are the suffix. -/
theorem zfill_nosign (s : Str) (w : Nat) (h : ∀ c, s.head? = some c → c ≠ 43 ∧ c ≠ 45) :
    zfill s w = List.replicate (w - s.length) 48 ++ s := by
  unfold zfill
  by_cases hw : w ≤ s.length
  · simp [hw, Nat.sub_eq_zero_of_le hw]
  · simp only [hw, ↓reduceIte]
    cases s with
    | nil => simp
    | cons c rest =>
      have := h c rfl
      simp [this.1, this.2]

/-- After a leading sign the zeros come second: still no supplied character is lost. -/
theorem zfill_sign (c : Nat) (rest : Str) (w : Nat) (hc : c = 43 ∨ c = 45) (hw : ¬ w ≤ (c :: rest).length) :
    zfill (c :: rest) w = c :: (List.replicate (w - (c :: rest).length) 48 ++ rest) := by
  unfold zfill
  simp only [hw, ↓reduceIte]
  rcases hc with rfl | rfl <;> simp

/-- A value that already has the field width is placed unchanged. -/
theorem zfill_exact (s : Str) (w : Nat) (h : s.length = w) : zfill s w = s := by
  unfold zfill; simp [h]

/-! ### overlay -/

theorem overlay_length (b : Str) (r : Range) (v : Str) (hb : r.stop ≤ b.length) (hr : r.start ≤ r.stop)
    (hv : v.length = r.stop - r.start) : (overlay b r v).length = b.length := by
  unfold overlay
  simp only [List.length_append, List.length_take, List.length_drop, hv]
  omega

theorem slice_mid (p v s : Str) : slice (p ++ v ++ s) p.length (p.length + v.length) = v := by
  unfold slice
  rw [List.append_assoc, List.take_append, List.drop_append]
  simp

/-- The overlaid value sits at its position. -/
theorem overlay_slice_same (b : Str) (r : Range) (v : Str) (hb : r.stop ≤ b.length)
    (hr : r.start ≤ r.stop) (hv : v.length = r.stop - r.start) :
    slice (overlay b r v) r.start r.stop = v := by
  unfold overlay
  have h1 : (b.take r.start).length = r.start := by rw [List.length_take]; omega
  have := slice_mid (b.take r.start) v (b.drop r.stop)
  rw [h1, hv] at this
  have e : r.start + (r.stop - r.start) = r.stop := by omega
  rw [e] at this
  exact this

/-- A later overlay at a disjoint position does not disturb an earlier field. -/
theorem overlay_slice_other (b : Str) (r q : Range) (v : Str) (hb : r.stop ≤ b.length)
    (hr : r.start ≤ r.stop) (hv : v.length = r.stop - r.start) (hq : q.start ≤ q.stop)
    (hd : q.stop ≤ r.start ∨ r.stop ≤ q.start) :
    slice (overlay b r v) q.start q.stop = slice b q.start q.stop := by
  unfold overlay slice
  rcases hd with h | h
  · -- q entirely before r
    have h1 : (b.take r.start).length = r.start := by rw [List.length_take]; omega
    rw [List.append_assoc, List.take_append_of_le_length (by omega), List.take_take,
      Nat.min_eq_left h]
  · -- q entirely after r
    have hlen : (b.take r.start ++ v).length = r.stop := by
      rw [List.length_append, List.length_take, hv]; omega
    apply List.ext_getElem?
    intro i
    simp only [List.getElem?_drop, List.getElem?_take]
    by_cases hi : q.start + i < q.stop
    · simp only [hi, ↓reduceIte]
      rw [List.getElem?_append_right (by omega), hlen, List.getElem?_drop]
      congr 1; omega
    · simp [hi]

end SV
