/-
  SV.Proofs.Placement — every component written by `from_components` sits at its published
  position, whatever the other components are (fields are disjoint and inside the BBAN).
-/
import SV.Proofs.Overlay
namespace SV

/-- `k` is published at `r`. -/
def publishedAt (e : Country) (k : Component) (r : Range) : Prop :=
  (e.positions.getD []).lookup k = some r

theorem range_of_published {e : Country} {k : Component} {r : Range} (h : publishedAt e k r) :
    e.range k = r := by
  unfold publishedAt at h
  unfold Country.range
  cases hp : e.positions with
  | none => simp [hp] at h
  | some ps => simp only [hp, Option.getD_some] at h; simp [h]

theorem range_unpublished {e : Country} {k : Component}
    (h : (e.positions.getD []).lookup k = none) : e.range k = ⟨0, 0⟩ := by
  unfold Country.range
  cases hp : e.positions with
  | none => rfl
  | some ps => simp only [hp, Option.getD_some] at h; simp [h]

theorem mem_of_lookup {ps : List (Component × Range)} {k : Component} {r : Range}
    (h : ps.lookup k = some r) : (k, r) ∈ ps := by
  obtain ⟨l1, l2, hl, _⟩ := List.lookup_eq_some_iff.mp h
  rw [hl]; simp

/-- Two different published fields do not overlap. -/
theorem disjoint_of_pairwise : ∀ (ps : List (Component × Range)), pairwiseDisjoint ps = true →
    ∀ k k' r r', k ≠ k' → (k, r) ∈ ps → (k', r') ∈ ps → r.stop ≤ r'.start ∨ r'.stop ≤ r.start
  | [], _, _, _, _, _, _, h, _ => by cases h
  | p :: t, hp, k, k', r, r', hne, h1, h2 => by
    simp only [pairwiseDisjoint, Bool.and_eq_true, List.all_eq_true] at hp
    rcases List.mem_cons.mp h1 with e1 | m1
    · rcases List.mem_cons.mp h2 with e2 | m2
      · rw [← e1] at e2; exact absurd (Prod.ext_iff.mp e2).1.symm hne
      · have := hp.1 (k', r') m2
        simp only [Range.disjoint, Bool.and_eq_true, Bool.or_eq_true, decide_eq_true_eq] at this
        rw [← e1] at this; exact this.2
    · rcases List.mem_cons.mp h2 with e2 | m2
      · have := hp.1 (k, r) m1
        simp only [Range.disjoint, Bool.and_eq_true, Bool.or_eq_true, decide_eq_true_eq] at this
        rw [← e2] at this
        exact this.2.symm
      · exact disjoint_of_pairwise t hp.2 k k' r r' hne m1 m2

variable {e : Country}

/-- Overlaying the components of `ks` leaves alone every range that is disjoint from all published
    ranges of `ks`, and keeps the length. -/
theorem overlayAll_other (hW : e.WF) (c : Comps)
    (hlen : ∀ k r, publishedAt e k r → (c k).length = r.stop - r.start) :
    ∀ (ks : List Component) (b : Str) (q : Range), b.length = e.bbanLength → q.start ≤ q.stop →
      (∀ k ∈ ks, ∀ r, publishedAt e k r → q.stop ≤ r.start ∨ r.stop ≤ q.start) →
      (overlayAll e c ks b).length = e.bbanLength ∧
      slice (overlayAll e c ks b) q.start q.stop = slice b q.start q.stop
  | [], b, q, hb, _, _ => ⟨hb, rfl⟩
  | k :: t, b, q, hb, hq, hd => by
    simp only [overlayAll]
    cases hk : (e.positions.getD []).lookup k with
    | none =>
      rw [range_unpublished hk]
      simp only [Range.isEmpty, beq_self_eq_true, Bool.and_self, ↓reduceIte]
      exact overlayAll_other hW c hlen t b q hb hq (fun k' hk' => hd k' (by simp [hk']))
    | some r =>
      have hp : publishedAt e k r := hk
      rw [range_of_published hp]
      have hbd := hW.bounds (k, r) (mem_of_lookup hk)
      simp only at hbd
      have hne : r.isEmpty = false := by
        simp only [Range.isEmpty, Bool.and_eq_false_iff, beq_eq_false_iff_ne]
        right; omega
      simp only [hne, Bool.false_eq_true, ↓reduceIte]
      have hv := hlen k r hp
      have hb' : (overlay b r (c k)).length = e.bbanLength := by
        rw [overlay_length b r (c k) (by omega) (by omega) hv]; exact hb
      have ih := overlayAll_other hW c hlen t (overlay b r (c k)) q hb' hq
        (fun k' hk' => hd k' (by simp [hk']))
      refine ⟨ih.1, ?_⟩
      rw [ih.2]
      exact overlay_slice_other b r q (c k) (by omega) (by omega) hv hq
        ((hd k (by simp) r hp).elim (fun h => Or.inl h) (fun h => Or.inr h))

/-- **Placement**: after all components have been written (in any duplicate-free order), each
    published component is found, unchanged, at its published position. -/
theorem overlayAll_same (hW : e.WF) (c : Comps)
    (hlen : ∀ k r, publishedAt e k r → (c k).length = r.stop - r.start) :
    ∀ (ks : List Component) (b : Str), ks.Nodup → b.length = e.bbanLength →
      ∀ j ∈ ks, ∀ r, publishedAt e j r → slice (overlayAll e c ks b) r.start r.stop = c j
  | [], _, _, _, j, hj, _, _ => by cases hj
  | k :: t, b, hnd, hb, j, hj, rj, hpj => by
    have hnd' := List.nodup_cons.mp hnd
    simp only [overlayAll]
    have hbdj := hW.bounds (j, rj) (mem_of_lookup hpj)
    simp only at hbdj
    by_cases hjk : j = k
    · subst hjk
      rw [range_of_published hpj]
      have hne : rj.isEmpty = false := by
        simp only [Range.isEmpty, Bool.and_eq_false_iff, beq_eq_false_iff_ne]
        right; omega
      simp only [hne, Bool.false_eq_true, ↓reduceIte]
      have hv := hlen j rj hpj
      have hb' : (overlay b rj (c j)).length = e.bbanLength := by
        rw [overlay_length b rj (c j) (by omega) (by omega) hv]; exact hb
      have := (overlayAll_other hW c hlen t (overlay b rj (c j)) rj hb' (by omega)
        (fun k' hk' r' hp' => by
          have hne' : k' ≠ j := fun h => hnd'.1 (h ▸ hk')
          have := disjoint_of_pairwise _ hW.disjoint j k' rj r' (fun h => hne' h.symm)
            (mem_of_lookup hpj) (mem_of_lookup hp')
          exact this)).2
      rw [this]
      exact overlay_slice_same b rj (c j) (by omega) (by omega) hv
    · have hjt : j ∈ t := by
        rcases List.mem_cons.mp hj with h | h
        · exact absurd h hjk
        · exact h
      cases hk : (e.positions.getD []).lookup k with
      | none =>
        rw [range_unpublished hk]
        simp only [Range.isEmpty, beq_self_eq_true, Bool.and_self, ↓reduceIte]
        exact overlayAll_same hW c hlen t b hnd'.2 hb j hjt rj hpj
      | some r =>
        have hp : publishedAt e k r := hk
        rw [range_of_published hp]
        have hbd := hW.bounds (k, r) (mem_of_lookup hk)
        simp only at hbd
        have hne : r.isEmpty = false := by
          simp only [Range.isEmpty, Bool.and_eq_false_iff, beq_eq_false_iff_ne]
          right; omega
        simp only [hne, Bool.false_eq_true, ↓reduceIte]
        have hv := hlen k r hp
        have hb' : (overlay b r (c k)).length = e.bbanLength := by
          rw [overlay_length b r (c k) (by omega) (by omega) hv]; exact hb
        exact overlayAll_same hW c hlen t (overlay b r (c k)) hnd'.2 hb' j hjt rj hpj

end SV
