/-
  SV.Proofs.IbanValidate — `IBAN.validate` (without national validation) as one decision tree
  over plain conditions on the compact text.
-/
import SV.Proofs.IbanCore
namespace SV
open Spec

/-- The decision `IBAN.validate(validate_bban=False)` takes on a compact text. -/
def validateTree (U : Unicode) (T : Table) (c : Str) : Res Bool :=
  if prefixOk U c = false then .err .invalidStructure
  else match T.lookup (c.take 2) with
    | none => .err .invalidCountryCode
    | some e =>
      if e.ibanLength ≠ c.length then .err .invalidLength
      else match e.pattern with
        | none => .crash .other
        | some items =>
          if matchItems U items (c.drop 4) = false then .err .invalidStructure
          else if ¬ (allAlnum (c.drop 4 ++ c.take 4) = true ∧
                      numLen (c.drop 4 ++ c.take 4) ≤ U.maxIntDigits) then .err .invalidStructure
          else if numVal (c.drop 4 ++ c.take 4) 0 % 97 ≠ 1 then .err .invalidChecksumDigits
          else if (fmt02 (98 - (numVal (c.drop 4 ++ c.take 2) 0 * 100) % 97) == (c.take 4).drop 2) = false
            then .err .invalidChecksumDigits
          else .ok true

theorem allAlnum_append (a b : Str) : allAlnum (a ++ b) = (allAlnum a && allAlnum b) := by
  simp [allAlnum, List.all_append]

theorem take2_of_take4 (c : Str) : (c.take 4).take 2 = c.take 2 := by
  rw [List.take_take]; rfl

theorem allAlnum_take {a : Str} (n : Nat) (h : allAlnum a = true) : allAlnum (a.take n) = true := by
  simp only [allAlnum, List.all_eq_true] at *
  exact fun x hx => h x (List.mem_of_mem_take hx)

theorem numLen_take_le (a : Str) (n : Nat) : numLen (a.take n) ≤ numLen a := by
  induction a generalizing n with
  | nil => simp [numLen]
  | cons x t ih =>
    cases n with
    | zero => simp [numLen]
    | succ n => simp only [List.take_succ_cons, numLen]; have := ih n; omega

theorem append_take_ne_nil {c : Str} (n : Nat) (hn : 0 < n) (h : 4 ≤ c.length) (d : Str) :
    d ++ c.take n ≠ [] := by
  apply List.append_ne_nil_of_right_ne_nil
  apply List.ne_nil_of_length_pos
  rw [List.length_take]; omega

theorem validateChecksum_eq {U : Unicode} {c : Str} (hc : Compact U c) (h4 : 4 ≤ c.length) :
    IBAN.validateChecksum U c =
      if ¬ (allAlnum (c.drop 4 ++ c.take 4) = true ∧
            numLen (c.drop 4 ++ c.take 4) ≤ U.maxIntDigits) then .err .invalidStructure
      else if numVal (c.drop 4 ++ c.take 4) 0 % 97 ≠ 1 then .err .invalidChecksumDigits
      else if (fmt02 (98 - (numVal (c.drop 4 ++ c.take 2) 0 * 100) % 97) == (c.take 4).drop 2) = false
        then .err .invalidChecksumDigits
      else .ok () := by
  unfold IBAN.validateChecksum IBAN.numeric
  rw [bban_of_compact hc, countryCode_eq (by omega), checksumDigits_eq h4]
  by_cases hA : allAlnum (c.drop 4 ++ c.take 4) = true ∧
      numLen (c.drop 4 ++ c.take 4) ≤ U.maxIntDigits
  · rw [numerify_ok hA.1 (append_take_ne_nil 4 (by omega) h4 _) hA.2, if_neg (fun h => h hA)]
    simp only [Res.ok_bind]
    by_cases hm : numVal (c.drop 4 ++ c.take 4) 0 % 97 = 1
    · rw [if_neg (fun h => h hm), if_neg (fun h : ¬ _ => h hm)]
      -- second numerify: bban ++ country code
      have hA2 : allAlnum (c.drop 4 ++ c.take 2) = true := by
        have h1 := hA.1
        rw [allAlnum_append] at h1 ⊢
        simp only [Bool.and_eq_true] at h1 ⊢
        exact ⟨h1.1, by rw [← take2_of_take4]; exact allAlnum_take 2 h1.2⟩
      have hl2 : numLen (c.drop 4 ++ c.take 2) ≤ U.maxIntDigits := by
        have := numLen_take_le (c.take 4) 2
        rw [take2_of_take4] at this
        have h2 := hA.2
        rw [numLen_append] at h2 ⊢
        omega
      have e : isoDefaultCompute U [c.drop 4, c.take 2] =
          .ok (fmt02 (98 - (numVal (c.drop 4 ++ c.take 2) 0 * 100) % 97)) := by
        simp only [isoDefaultCompute, isoPre, joinStrs, List.flatten_cons, List.flatten_nil,
          List.append_nil]
        rw [numerify_ok hA2 (append_take_ne_nil 2 (by omega) h4 _) hl2]
        rfl
      rw [e]
      simp only [Res.ok_bind]
      cases hd : (fmt02 (98 - (numVal (c.drop 4 ++ c.take 2) 0 * 100) % 97) == (c.take 4).drop 2) with
      | true => simp
      | false => simp
    · rw [if_pos hm, if_pos hm]
  · rw [numerify_err hA, if_pos hA]; rfl

/-- The validation pipeline, on a compact text, is the decision tree above. -/
theorem validate_eq_tree (X : Ctx) {c : Str} (hc : Compact X.U c) :
    IBAN.validate X c false = validateTree X.U X.T c := by
  unfold IBAN.validate validateTree
  rw [validateCharacters_eq]
  cases hp : prefixOk X.U c with
  | false => simp
  | true =>
    have h4 := prefixOk_length hp
    simp only [↓reduceIte, Res.ok_bind, Bool.true_eq_false]
    unfold IBAN.validateLength IBAN.validateFormat IBAN.spec
    rw [countryCode_eq (by omega)]
    cases hl : X.T.lookup (c.take 2) with
    | none => simp
    | some e =>
      simp only [Res.ok_bind]
      by_cases hlen : e.ibanLength = c.length
      · simp only [hlen, ne_eq, not_true_eq_false, ↓reduceIte, Res.pure_eq, Res.ok_bind]
        cases hpat : e.pattern with
        | none => simp
        | some items =>
          simp only [bban_of_compact hc]
          cases hm : matchItems X.U items (c.drop 4) with
          | false => simp
          | true =>
            simp only [↓reduceIte, Res.pure_eq, Res.ok_bind, Bool.true_eq_false]
            rw [validateChecksum_eq hc h4]
            split
            · simp
            · split
              · simp
              · split <;> simp
      · simp [hlen]

end SV
