/-
  SV.Proofs.FromBban — assembling an IBAN from country code and BBAN.
-/
import SV.Proofs.IbanIso
namespace SV
open Spec

variable {U : Unicode}

theorem compact_of_allAlnum (hU : U.WF) {s : Str} (h : allAlnum s = true) : Compact U s := by
  intro x hx
  have hx' : isAsciiAlnumUpper x = true := by
    simp only [allAlnum, List.all_eq_true] at h; exact h x hx
  have hr : x - 48 + 48 = x ∧ x - 48 < 75 := by
    simp only [isAsciiAlnumUpper, isAsciiDigit, isAsciiUpper, Bool.or_eq_true, Bool.and_eq_true,
      decide_eq_true_eq] at hx'
    omega
  refine ⟨?_, alnum_not_lower hx', ?_⟩
  · have := hU.alnumNotSpace (x - 48) (by simp; omega)
    rwa [hr.1] at this
  · simp only [isAsciiAlnumUpper, Bool.or_eq_true] at hx'
    unfold Unicode.upper
    rcases hx' with hd | hu
    · simp only [isAsciiDigit, Bool.and_eq_true, decide_eq_true_eq] at hd
      have := hU.fixedDigit (x - 48) (by simp; omega)
      have e : x - 48 + 48 = x := by omega
      rw [e] at this; rw [this]
    · simp only [isAsciiUpper, Bool.and_eq_true, decide_eq_true_eq] at hu
      have := hU.fixedUpper (x - 65) (by simp; omega)
      have e : x - 65 + 65 = x := by omega
      rw [e] at this; rw [this]

theorem clean_of_allAlnum (hU : U.WF) {s : Str} (h : allAlnum s = true) : clean U s = s :=
  clean_of_compact (compact_of_allAlnum hU h)

/-- A text fitting an ISO structure and containing no blank consists of digits and letters. -/
theorem allAlnum_of_fits_noblank : ∀ (cls : List SClass) (s : Str),
    fitsClasses cls s = true → (32 : Nat) ∉ s → allAlnum s = true
  | [], [], _, _ => rfl
  | [], _ :: _, h, _ => by simp [fitsClasses] at h
  | _ :: _, [], h, _ => by simp [fitsClasses] at h
  | k :: cls, x :: s, h, hb => by
    simp only [fitsClasses, Bool.and_eq_true] at h
    simp only [allAlnum, List.all_cons, Bool.and_eq_true]
    refine ⟨?_, allAlnum_of_fits_noblank cls s h.2 (fun hm => hb (by simp [hm]))⟩
    cases k with
    | n => simp only [isAsciiAlnumUpper, Bool.or_eq_true]; exact Or.inl h.1
    | a => simp only [isAsciiAlnumUpper, Bool.or_eq_true]; exact Or.inr h.1
    | c => exact h.1
    | e =>
      have : x = 32 := by simpa [SClass.ok] using h.1
      exact absurd (by simp [this]) hb

theorem fmt02_digits {v : Nat} (hv : v < 100) :
    ∃ x y, fmt02 v = [x, y] ∧ isAsciiDigit x = true ∧ isAsciiDigit y = true ∧
      (x - 48) * 10 + (y - 48) = v := by
  refine ⟨48 + v / 10, 48 + v % 10, fmt02_lt_100 v hv, ?_, ?_, ?_⟩
  · simp only [isAsciiDigit, Bool.and_eq_true, decide_eq_true_eq]; omega
  · simp only [isAsciiDigit, Bool.and_eq_true, decide_eq_true_eq]; omega
  · omega

/-- `isoValid` of `cc ++ [x, y] ++ b` for a known country, a fitting blank-free BBAN and two
    ASCII digits: exactly the arithmetic condition on the digit pair. -/
theorem isoValid_assembled {T : Table} (hT : T.WF) {cc b : Str} {e : Country}
    (hl : T.lookup cc = some e) (hf : fits e b = true) {x y : Nat}
    (hx : isAsciiDigit x = true) (hy : isAsciiDigit y = true) :
    isoValid T (cc ++ [x, y] ++ b) = true ↔
      (x - 48) * 10 + (y - 48) = checkDigits cc b := by
  have ⟨heT, hcode⟩ := Table.lookup_mem hl
  have hW := hT e heT
  obtain ⟨a', b', hcd, _, _⟩ := hW.code
  rw [hcd] at hcode
  subst hcode
  obtain ⟨l, _, hps, _, _, hexp⟩ := hW.spec
  have hf' := hf
  simp only [fits, hps] at hf'
  have hlen := fitsClasses_length _ _ hf'
  unfold isoValid checkDigits
  simp only [List.cons_append, List.nil_append, List.take_succ_cons, List.take_zero, hl,
    List.drop_succ_cons, List.drop_zero, List.length_cons, List.getD_cons_succ,
    List.getD_cons_zero, hx, hy, hf, ddVal, Bool.and_eq_true, beq_iff_eq, decide_eq_true_eq,
    true_and, and_true]
  have e1 : b ++ [a', b', x, y] = (b ++ [a', b']) ++ [x, y] := by simp
  rw [e1, numVal_append, numVal_two_digits hx hy]
  simp only [isAsciiDigit, Bool.and_eq_true, decide_eq_true_eq] at hx hy
  constructor
  · rintro ⟨⟨⟨_, hmod⟩, hlo⟩, hhi⟩
    exact dd_unique hmod hlo hhi
  · intro h
    have := dd_works (numVal (b ++ [a', b']) 0)
    rw [h]
    refine ⟨⟨⟨by omega, this.1⟩, this.2.1⟩, this.2.2⟩

end SV
