/-
  SV.Proofs.BankData — decidable consistency of bank-registry rows against the country table,
  arranged for cheap kernel evaluation (bit masks for the two code sets; the masks are checked,
  not trusted).
-/
import SV.Proofs.TableWF
import SV.Proofs.Bic
namespace SV
open Spec

/-- A bank entry as far as C17 is concerned (country comes from the chunk it is listed in). -/
structure BankRow where
  code : Str
  bic : Option Str
  deriving Repr, Inhabited, DecidableEq

/-- Index of a two-letter code in a 26×26 bit mask (out of range for anything else). -/
def ccIndex : Str → Nat
  | [a, b] => if isAsciiUpper a && isAsciiUpper b then (a - 65) * 26 + (b - 65) else 676
  | _ => 676

def ccOfIndex (i : Nat) : Str := [65 + i / 26, 65 + i % 26]

/-- Every set bit below 676 denotes a code for which `p` holds. -/
def maskSound (mask : Nat) (p : Str → Bool) : Bool :=
  (List.range 676).all (fun i => !Nat.testBit mask i || p (ccOfIndex i))

theorem ccOfIndex_ccIndex {c : Str} (h : ccIndex c < 676) : ccOfIndex (ccIndex c) = c := by
  match c with
  | [a, b] =>
    simp only [ccIndex] at h ⊢
    by_cases hu : (isAsciiUpper a && isAsciiUpper b) = true
    · simp only [hu, ↓reduceIte] at h ⊢
      simp only [isAsciiUpper, Bool.and_eq_true, decide_eq_true_eq] at hu
      simp only [ccOfIndex]
      congr 1
      · omega
      · congr 1; omega
    · simp [hu] at h
  | [] => simp [ccIndex] at h
  | [_] => simp [ccIndex] at h
  | _ :: _ :: _ :: _ => simp [ccIndex] at h

theorem mask_mem {mask : Nat} {p : Str → Bool} (hs : maskSound mask p = true) {c : Str}
    (hb : (decide (ccIndex c < 676) && Nat.testBit mask (ccIndex c)) = true) : p c = true := by
  simp only [Bool.and_eq_true, decide_eq_true_eq] at hb
  simp only [maskSound, List.all_eq_true, List.mem_range, Bool.or_eq_true, Bool.not_eq_true'] at hs
  have := hs (ccIndex c) hb.1
  rw [ccOfIndex_ccIndex hb.1] at this
  rcases this with h | h
  · rw [hb.2] at h; cases h
  · exact h

/-- The classes of the characters of a country's bank-identifying key: the classes of the
    structure string at the positions of the `bic_lookup_components` (default: bank code). -/
def keyClasses (e : Country) : Option (List SClass) :=
  match parseSpec e.bbanSpec with
  | none => none
  | some l =>
    let cls := expandSpec l
    some ((e.bicLookup.getD [.bankCode]).flatMap (fun k => (cls.take (e.range k).stop).drop (e.range k).start))

/-- A BIC of the registry: absent, empty, or an 8/11-character ISO 9362 BIC whose country code has
    its bit set in `isoMask`. -/
def bicOk (isoMask : Nat) : Option Str → Bool
  | none => true
  | some b =>
    b == [] ||
    ((b.length == 8 || b.length == 11) &&
     (b.take 4).all isAlnumU && ((b.drop 4).take 2).all isAsciiUpper &&
     (decide (ccIndex ((b.drop 4).take 2) < 676) && Nat.testBit isoMask (ccIndex ((b.drop 4).take 2))) &&
     (b.drop 6).all isAlnumU)

/-- A bank code: empty, or fitting the key classes in length and character classes. -/
def codeOk (cls : List SClass) (code : Str) : Bool := code == [] || fitsClasses cls code

def rowOk (isoMask : Nat) (cls : List SClass) (r : BankRow) : Bool :=
  bicOk isoMask r.bic && codeOk cls r.code

/-- A chunk of rows of one country. -/
structure BankChunk where
  country : Str
  /-- the key classes, as a literal; checked against the table once per chunk -/
  cls : List SClass
  rows : List BankRow

def chunkOk (T : Table) (isoMask : Nat) (c : BankChunk) : Bool :=
  (match T.lookup c.country with
   | some e => keyClasses e == some c.cls
   | none => false) &&
  c.rows.all (rowOk isoMask c.cls)

/-- A registry BIC that passes `bicOk` with a sound mask is a valid BIC in compact form. -/
theorem iso9362_of_bicOk {iso : List Str} {isoMask : Nat}
    (hs : maskSound isoMask (fun c => iso.contains c) = true) {b : Str} (hne : b ≠ [])
    (h : bicOk isoMask (some b) = true) : iso9362 iso false b = true := by
  have hne' : (b == []) = false := by simpa using hne
  simp only [bicOk, hne', Bool.false_or, Bool.and_eq_true] at h
  obtain ⟨⟨⟨⟨hlen, h4⟩, hcc⟩, hmask⟩, hrest⟩ := h
  have hin := mask_mem hs (Bool.and_eq_true _ _ ▸ hmask)
  simp only [iso9362, Bool.and_eq_true]
  refine ⟨⟨⟨⟨⟨hlen, by simpa using h4⟩, hcc⟩, hin⟩, ?_⟩, ?_⟩
  · simp only [List.all_eq_true] at hrest ⊢
    intro c hc
    exact hrest c (List.mem_of_mem_take hc)
  · simp only [List.all_eq_true] at hrest ⊢
    intro c hc
    have e : b.drop 8 = (b.drop 6).drop 2 := by simp
    rw [e] at hc
    exact hrest c (List.mem_of_mem_drop hc)

end SV
