/-
  SV.Proofs.IbanCore — the validation pipeline of `IBAN.validate`, stage by stage.
-/
import SV.Proofs.TableWF
namespace SV
open Spec

variable {U : Unicode}

/-- `c` is a compact form: no whitespace, no ASCII lower case, every code point a fixed point of
    `upper` — what `clean` produces. -/
def Compact (U : Unicode) (c : Str) : Prop :=
  ∀ x ∈ c, U.isSpace x = false ∧ isAsciiLower x = false ∧ U.upper x = [x]

theorem compact_clean (hU : U.WF) (s : Str) : Compact U (clean U s) := clean_elem hU s

theorem clean_of_compact {c : Str} (h : Compact U c) : clean U c = c :=
  clean_fixed_of_elems (fun x hx => ⟨(h x hx).1, (h x hx).2.2⟩)

theorem compact_drop {c : Str} (h : Compact U c) (n : Nat) : Compact U (c.drop n) :=
  fun x hx => h x (List.mem_of_mem_drop hx)

theorem compact_take {c : Str} (h : Compact U c) (n : Nat) : Compact U (c.take n) :=
  fun x hx => h x (List.mem_of_mem_take hx)

theorem compact_append {a b : Str} (ha : Compact U a) (hb : Compact U b) : Compact U (a ++ b) := by
  intro x hx
  rcases List.mem_append.mp hx with h | h
  · exact ha x h
  · exact hb x h

theorem getSlice_none_eq_drop (c : Str) : getSlice c 4 none = c.drop 4 := by
  simp only [getSlice]
  by_cases h : 4 < c.length
  · simp [h]
  · simp only [h, decide_false, Bool.false_eq_true, ↓reduceIte]
    exact (List.drop_eq_nil_of_le (by omega)).symm

theorem bban_of_compact {c : Str} (h : Compact U c) : IBAN.bban U c = c.drop 4 := by
  unfold IBAN.bban
  rw [getSlice_none_eq_drop, clean_of_compact (compact_drop h 4)]

theorem countryCode_eq {c : Str} (h : 2 ≤ c.length) : IBAN.countryCode c = c.take 2 := by
  have h0 : 0 < c.length := by omega
  simp [IBAN.countryCode, getSlice, h, h0, slice]

theorem checksumDigits_eq {c : Str} (h : 4 ≤ c.length) :
    IBAN.checksumDigits c = (c.take 4).drop 2 := by
  have h0 : 2 < c.length := by omega
  simp [IBAN.checksumDigits, getSlice, h, h0, slice]

/-! ### Stage 1: characters -/

/-- Two ASCII upper-case letters, then two characters matched by `\d`. -/
def prefixOk (U : Unicode) : Str → Bool
  | a :: b :: d1 :: d2 :: _ => isAsciiUpper a && isAsciiUpper b && U.isDigit d1 && U.isDigit d2
  | _ => false

theorem validateCharacters_eq (c : Str) :
    IBAN.validateCharacters U c = if prefixOk U c then .ok () else .err .invalidStructure := by
  unfold IBAN.validateCharacters prefixOk
  split <;> simp

theorem prefixOk_length {c : Str} (h : prefixOk U c = true) : 4 ≤ c.length := by
  match c, h with
  | a :: b :: d1 :: d2 :: t, _ => simp

/-! ### Unicode digits versus ASCII -/

theorem isDigit_of_ascii (hU : U.WF) {d : Nat} (h : isAsciiDigit d = true) : U.isDigit d = true := by
  simp only [isAsciiDigit, Bool.and_eq_true, decide_eq_true_eq] at h
  have := hU.digits (d - 48) (by simp; omega)
  have e : d - 48 + 48 = d := by omega
  rw [e] at this
  have hm := List.find?_some this
  have hmem := List.mem_of_find?_eq_some this
  simp only [Unicode.isDigit, List.any_eq_true]
  exact ⟨48, hmem, hm⟩

theorem not_isDigit_upper (hU : U.WF) {d : Nat} (h : isAsciiUpper d = true) : U.isDigit d = false := by
  simp only [isAsciiUpper, Bool.and_eq_true, decide_eq_true_eq] at h
  have := hU.noLetterDigit (d - 65) (by simp; omega)
  have e : d - 65 + 65 = d := by omega
  rwa [e] at this

/-- A character that is `\d` and in the alphabet `[0-9A-Z]` is an ASCII digit. -/
theorem asciiDigit_of_isDigit_alnum (hU : U.WF) {d : Nat} (h1 : U.isDigit d = true)
    (h2 : isAsciiAlnumUpper d = true) : isAsciiDigit d = true := by
  simp only [isAsciiAlnumUpper, Bool.or_eq_true] at h2
  rcases h2 with h | h
  · exact h
  · rw [not_isDigit_upper hU h] at h1; exact absurd h1 (by simp)

/-! ### Stage 3: format -/

theorem alnum_not_lower {x : Nat} (h : isAsciiAlnumUpper x = true) : isAsciiLower x = false := by
  simp only [isAsciiAlnumUpper, isAsciiDigit, isAsciiUpper, isAsciiLower, Bool.or_eq_true,
    Bool.and_eq_true, decide_eq_true_eq] at *
  simp; omega

/-- With the alphabet restriction the regular-expression classes are the ISO classes. -/
theorem fitsClasses_of_fitsRe (hU : U.WF) : ∀ (cls : List SClass) (s : Str),
    fitsRe U cls s = true → allAlnum s = true → fitsClasses cls s = true
  | [], [], _, _ => rfl
  | [], _ :: _, h, _ => by simp [fitsRe] at h
  | _ :: _, [], h, _ => by simp [fitsRe] at h
  | k :: cls, x :: s, h, ha => by
    simp only [fitsRe, Bool.and_eq_true] at h
    simp only [allAlnum, List.all_cons, Bool.and_eq_true] at ha
    simp only [fitsClasses, Bool.and_eq_true]
    refine ⟨?_, fitsClasses_of_fitsRe hU cls s h.2 ha.2⟩
    cases k with
    | n => exact asciiDigit_of_isDigit_alnum hU h.1 ha.1
    | a => exact h.1
    | c =>
      have hl := alnum_not_lower ha.1
      simpa [SClass.reTest, SClass.ok, hl] using h.1
    | e => exact h.1

/-- Conversely the ISO classes imply the regular-expression classes. -/
theorem fitsRe_of_fitsClasses (hU : U.WF) : ∀ (cls : List SClass) (s : Str),
    fitsClasses cls s = true → fitsRe U cls s = true
  | [], [], _ => rfl
  | [], _ :: _, h => by simp [fitsClasses] at h
  | _ :: _, [], h => by simp [fitsClasses] at h
  | k :: cls, x :: s, h => by
    simp only [fitsClasses, Bool.and_eq_true] at h
    simp only [fitsRe, Bool.and_eq_true]
    refine ⟨?_, fitsRe_of_fitsClasses hU cls s h.2⟩
    cases k with
    | n => exact isDigit_of_ascii hU h.1
    | a => exact h.1
    | c =>
      have := h.1
      simp only [SClass.ok, Bool.or_eq_true] at this
      simp only [SClass.reTest, Bool.or_eq_true]
      rcases this with h' | h'
      · exact Or.inl (Or.inl h')
      · exact Or.inl (Or.inr h')
    | e => exact h.1

theorem fitsClasses_length : ∀ (cls : List SClass) (s : Str),
    fitsClasses cls s = true → s.length = cls.length
  | [], [], _ => rfl
  | [], _ :: _, h => by simp [fitsClasses] at h
  | _ :: _, [], h => by simp [fitsClasses] at h
  | _ :: cls, _ :: s, h => by
    simp only [fitsClasses, Bool.and_eq_true] at h
    simp [fitsClasses_length cls s h.2]

/-- A compact text that fits an ISO structure consists of digits and upper-case letters only
    (a blank position cannot be filled: blanks are whitespace and were removed). -/
theorem allAlnum_of_fitsClasses (hU : U.WF) : ∀ (cls : List SClass) (s : Str),
    fitsClasses cls s = true → Compact U s → allAlnum s = true
  | [], [], _, _ => rfl
  | [], _ :: _, h, _ => by simp [fitsClasses] at h
  | _ :: _, [], h, _ => by simp [fitsClasses] at h
  | k :: cls, x :: s, h, hc => by
    simp only [fitsClasses, Bool.and_eq_true] at h
    simp only [allAlnum, List.all_cons, Bool.and_eq_true]
    refine ⟨?_, allAlnum_of_fitsClasses hU cls s h.2 (fun y hy => hc y (by simp [hy]))⟩
    have hx := hc x (by simp)
    cases k with
    | n => simp only [isAsciiAlnumUpper, Bool.or_eq_true]; exact Or.inl h.1
    | a => simp only [isAsciiAlnumUpper, Bool.or_eq_true]; exact Or.inr h.1
    | c => exact h.1
    | e =>
      have : x = 32 := by simpa [SClass.ok] using h.1
      subst this
      rw [hU.space] at hx
      exact absurd hx.1 (by simp)

theorem newline_not_mem_compact (hU : U.WF) {c : Str} (hc : Compact U c) : (10 : Nat) ∉ c := by
  intro h
  have := (hc 10 h).1
  rw [hU.newline] at this
  exact absurd this (by simp)

end SV
