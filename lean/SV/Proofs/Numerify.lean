/-
  SV.Proofs.Numerify — `numerify` computes the ISO 13616 number; arithmetic of check digits.
-/
import SV.Proofs.Regex
namespace SV
open Spec

def allAlnum (s : Str) : Bool := s.all isAsciiAlnumUpper

/-- Number of decimal digits the expansion of `s` has. -/
def numLen : Str → Nat
  | [] => 0
  | c :: t => (if isAsciiDigit c then 1 else 2) + numLen t

theorem numLen_le (s : Str) : numLen s ≤ 2 * s.length := by
  induction s with
  | nil => simp [numLen]
  | cons c t ih => simp only [numLen, List.length_cons]; split <;> omega

theorem numLen_pos {s : Str} (h : s ≠ []) : 0 < numLen s := by
  cases s with
  | nil => exact absurd rfl h
  | cons c t => simp only [numLen]; split <;> omega

theorem numLen_append (s t : Str) : numLen (s ++ t) = numLen s + numLen t := by
  induction s with
  | nil => simp [numLen]
  | cons c s ih => simp only [List.cons_append, numLen, ih]; omega

theorem alphaIndex_digit {c : Nat} (h : isAsciiDigit c = true) : alphaIndex c = some (c - 48) := by
  simp [alphaIndex, h]

theorem alphaIndex_upper {c : Nat} (h : isAsciiUpper c = true) : alphaIndex c = some (c - 55) := by
  have : isAsciiDigit c = false := by
    simp only [isAsciiUpper, isAsciiDigit, Bool.and_eq_true, decide_eq_true_eq] at *
    simp; omega
  simp [alphaIndex, h, this]

theorem alphaIndex_none {c : Nat} (h : isAsciiAlnumUpper c = false) : alphaIndex c = none := by
  simp only [isAsciiAlnumUpper, Bool.or_eq_false_iff] at h
  simp [alphaIndex, h.1, h.2]

theorem expand_of_allAlnum : ∀ (s : Str) (v n : Nat), allAlnum s = true →
    expand s (v, n) = some (numVal s v, n + numLen s)
  | [], v, n, _ => by simp [expand, numVal, numLen]
  | c :: t, v, n, h => by
    simp only [allAlnum, List.all_cons, Bool.and_eq_true] at h
    have ht : allAlnum t = true := h.2
    cases hd : isAsciiDigit c with
    | true =>
      have hlt : c - 48 < 10 := by
        simp only [isAsciiDigit, Bool.and_eq_true, decide_eq_true_eq] at hd; omega
      simp only [expand, alphaIndex_digit hd, numStep, hlt, ↓reduceIte, numVal, hd, numLen]
      rw [expand_of_allAlnum t _ _ ht]; congr 2; omega
    | false =>
      have hu : isAsciiUpper c = true := by
        simpa [isAsciiAlnumUpper, hd] using h.1
      have hge : ¬ (c - 55 < 10) := by
        simp only [isAsciiUpper, Bool.and_eq_true, decide_eq_true_eq] at hu; omega
      simp only [expand, alphaIndex_upper hu, numStep, hge, ↓reduceIte, numVal, hd, numLen,
        Bool.false_eq_true]
      rw [expand_of_allAlnum t _ _ ht]; congr 2; omega

theorem expand_none_of_not_allAlnum : ∀ (s : Str) (acc : Nat × Nat), allAlnum s = false →
    expand s acc = none
  | [], _, h => by simp [allAlnum] at h
  | c :: t, acc, h => by
    cases hc : isAsciiAlnumUpper c with
    | false => simp [expand, alphaIndex_none hc]
    | true =>
      have ht : allAlnum t = false := by
        simpa [allAlnum, hc] using h
      simp only [expand]
      cases alphaIndex c with
      | none => rfl
      | some i => exact expand_none_of_not_allAlnum t _ ht

/-- `numerify` succeeds exactly on non-empty texts of digits and upper-case letters whose
    expansion does not exceed the interpreter's digit limit, and then yields the ISO number;
    every failure is `InvalidStructure` (never a foreign exception). -/
theorem numerify_eq (U : Unicode) (s : Str) :
    numerify U s =
      if allAlnum s = true ∧ s ≠ [] ∧ numLen s ≤ U.maxIntDigits then .ok (numVal s 0)
      else .err .invalidStructure := by
  unfold numerify
  cases ha : allAlnum s with
  | false => simp [expand_none_of_not_allAlnum s _ ha]
  | true =>
    rw [expand_of_allAlnum s 0 0 ha]
    simp only [Nat.zero_add, true_and]
    by_cases hs : s = []
    · subst hs; simp [numLen]
    · have := numLen_pos hs
      by_cases hm : numLen s ≤ U.maxIntDigits
      · have h0 : ¬ (numLen s = 0) := by omega
        have h1 : ¬ (U.maxIntDigits < numLen s) := by omega
        simp [hs, hm, h0, h1]
      · have h1 : U.maxIntDigits < numLen s := by omega
        simp [hs, hm, h1]

theorem numerify_ok {U : Unicode} {s : Str} (ha : allAlnum s = true) (hs : s ≠ [])
    (hl : numLen s ≤ U.maxIntDigits) : numerify U s = .ok (numVal s 0) := by
  rw [numerify_eq]; simp [ha, hs, hl]

theorem numerify_err {U : Unicode} {s : Str}
    (h : ¬ (allAlnum s = true ∧ numLen s ≤ U.maxIntDigits)) :
    numerify U s = .err .invalidStructure := by
  rw [numerify_eq]
  have : ¬ (allAlnum s = true ∧ s ≠ [] ∧ numLen s ≤ U.maxIntDigits) := fun h' => h ⟨h'.1, h'.2.2⟩
  rw [if_neg this]

theorem numVal_append (s t : Str) (acc : Nat) : numVal (s ++ t) acc = numVal t (numVal s acc) := by
  induction s generalizing acc with
  | nil => rfl
  | cons c s ih => simp only [List.cons_append, numVal]; split <;> exact ih _

theorem numVal_two_digits {x y : Nat} (hx : isAsciiDigit x = true) (hy : isAsciiDigit y = true)
    (acc : Nat) : numVal [x, y] acc = acc * 100 + ((x - 48) * 10 + (y - 48)) := by
  simp only [numVal, hx, hy, ↓reduceIte]; omega

/-- `f"{n:02d}"` for `n < 100`. -/
theorem fmt02_lt_100 : ∀ n, n < 100 → fmt02 n = [48 + n / 10, 48 + n % 10] := by
  decide +kernel

/-- The check-digit arithmetic: if `100·N + dd ≡ 1 (mod 97)` with `2 ≤ dd ≤ 98`, then
    `dd = 98 − (100·N mod 97)`; and conversely that value always works and lies in `2 … 98`. -/
theorem dd_unique {N dd : Nat} (h : (N * 100 + dd) % 97 = 1) (h2 : 2 ≤ dd) (h98 : dd ≤ 98) :
    dd = 98 - (N * 100) % 97 := by omega

theorem dd_works (N : Nat) : (N * 100 + (98 - (N * 100) % 97)) % 97 = 1 ∧
    2 ≤ 98 - (N * 100) % 97 ∧ 98 - (N * 100) % 97 ≤ 98 := by omega

end SV
