/-
  SV.Proofs.GermanyTactics — simp set and closing tactic for the per-method theorems of C07.
-/
import SV.Proofs.Germany
import SV.Gen.Algorithms
namespace SV
open Spec

/-- The ten digit characters of an account number. -/
def acct (d1 d2 d3 d4 d5 d6 d7 d8 d9 d10 : Nat) : Str :=
  [48 + d1, 48 + d2, 48 + d3, 48 + d4, 48 + d5, 48 + d6, 48 + d7, 48 + d8, 48 + d9, 48 + d10]

theorem ite_app {α β : Type} (c : Prop) [Decidable c] (f g : α → β) (x : α) :
    (if c then f else g) x = if c then f x else g x := by split <;> rfl

theorem ite_snd {α β : Type} (c : Prop) [Decidable c] (a b : α × β) :
    (if c then a else b).snd = if c then a.snd else b.snd := by split <;> rfl

/-- Unfold the engine on explicit digit lists. -/
macro "de_simp" "[" ts:Lean.Parser.Tactic.simpLemma,* "]" loc:(Lean.Parser.Tactic.location)? : tactic =>
  `(tactic| simp [acct, DEParams.validateM, validateHook0, DEParams.computeM, computeHook0, wmCompute,
    adjustInput, getDigits, wmGetDigits, getPositions, slice, weightedSumHook, wmWeightedSum,
    summand, remainderHook, reconcile, cmpCheck, pyIndex, dot, dotQ, dotM10,
    DEM.lift, DEM.getRem, DEM.setRem, DEM.pure', DEM.bind', DEM.fail, DEM.crash, bind, pure,
    Res.bind, ite_app, ite_snd, $ts,*] $[$loc]?)

/-- Close `deVerdict r = true ∧ deAccepts r = rule S pz` once the weighted sum has been
    generalised to `S`: everything depends only on `S % m` and the check digit, so the goal
    becomes a statement over `m × 10` cases that the kernel evaluates. -/
macro "de_close" m:num rule:ident S:ident d:ident hd:ident : tactic =>
  `(tactic| (
    have e : (($S : Int) % $m) = (($S % $m : Nat) : Int) := by omega
    simp only [natToInt, e, $rule:ident]
    have hr : $S % $m < $m := Nat.mod_lt _ (by decide)
    generalize $S % $m = r at hr ⊢
    clear e
    revert hr; revert r; revert $hd; revert $d
    decide +kernel))

/-- `int(account_code)` of ten digit characters is the number they spell. -/
theorem pyIntStr_acct {U : Unicode} (hU : U.WF) (d1 d2 d3 d4 d5 d6 d7 d8 d9 d10 : Nat)
    (h1 : d1 < 10) (h2 : d2 < 10) (h3 : d3 < 10) (h4 : d4 < 10) (h5 : d5 < 10) (h6 : d6 < 10)
    (h7 : d7 < 10) (h8 : d8 < 10) (h9 : d9 < 10) (h10 : d10 < 10) :
    pyIntStr U [48 + d1, 48 + d2, 48 + d3, 48 + d4, 48 + d5, 48 + d6, 48 + d7, 48 + d8, 48 + d9, 48 + d10] 0 false =
      .ok (num [d1, d2, d3, d4, d5, d6, d7, d8, d9, d10] 0) := by
  simp [pyIntStr, num, intChar_ascii hU, h1, h2, h3, h4, h5, h6, h7, h8, h9, h10]

/-- As `de_close`, for goals that additionally depend on a second digit. -/
macro "de_close2" m:num rule:ident S:ident d:ident hd:ident d':ident hd':ident : tactic =>
  `(tactic| (
    have e : (($S : Int) % $m) = (($S % $m : Nat) : Int) := by omega
    simp only [natToInt, e, $rule:ident]
    have hr : $S % $m < $m := Nat.mod_lt _ (by decide)
    generalize $S % $m = r at hr ⊢
    clear e
    revert hr; revert r; revert $hd; revert $d; revert $hd'; revert $d'
    decide +kernel))

end SV
