/-
  SV.Proofs.NationalRules — value lemmas for the weighted-sum / Luhn / RIB / CIN algorithms and
  the reduction of `validate_national_checksum` to the algorithm applied to the published
  slices (`layout_dispatch`).  Used by `SV.Props.C06` to prove, for ES, FR, MC, IT, SM, FI, NO,
  PL, EE, CZ, SK and IS, that the national check accepts exactly the published rule of
  `SV.Spec.National`.
-/
import SV.Proofs.NationalTotal
import SV.Proofs.National
namespace SV
open Spec

/-! ### Layout: which algorithm, which slices -/

theorem componentsOf_map (e : Country) (b : Str) : ∀ ks : List Component,
    componentsOf e b ks = (ks.map e.range).map (fun r => getSlice b r.start (some r.stop))
  | [] => rfl
  | k :: t => by simp [componentsOf, componentsOf_map e b t]

/-- Decidable description of "country `cc` is registered for algorithm `alg`, the algorithm's
    declared fields sit at `fields`, the check-digit field at `chk`, and the structure string
    expands to the classes `cls`". -/
def layoutAlgo (T : Table) (A : AlgoTable) (alg : NatAlgo) (cc : Str) (cls : List SClass)
    (fields : List Range) (chk : Range) : Bool :=
  match T.lookup cc, A.get (defaultKey cc) with
  | some e, some a =>
    a.ref.isNat alg && (a.accepts.map e.range == fields) &&
    (e.range .nationalChecksumDigits == chk) &&
    ((parseSpec e.bbanSpec).map expandSpec == some cls)
  | _, _ => false

/-- What `fits` means for a country whose layout is known. -/
theorem fits_of_layout {T : Table} {A : AlgoTable} {alg : NatAlgo} {cc : Str} {cls : List SClass}
    {fields : List Range} {chk : Range} (hp : layoutAlgo T A alg cc cls fields chk = true) :
    ∃ e, T.lookup cc = some e ∧ ∀ b, fits e b = fitsClasses cls b := by
  unfold layoutAlgo at hp
  cases hl : T.lookup cc with
  | none => simp [hl] at hp
  | some e =>
    cases ha : A.get (defaultKey cc) with
    | none => simp [hl, ha] at hp
    | some a =>
      simp only [hl, ha, Bool.and_eq_true, beq_iff_eq] at hp
      refine ⟨e, rfl, fun b => ?_⟩
      unfold fits
      cases hs : parseSpec e.bbanSpec with
      | none => simp [hs] at hp
      | some l =>
        have := hp.2
        simp only [hs, Option.map_some, Option.some.injEq] at this
        simp [this]

/-- **Layout dispatch**: with no method named by the registry, the national check of a country
    with a known layout is the registered algorithm applied to the slices at the published
    positions. -/
theorem layout_dispatch (X : Ctx) {alg : NatAlgo} {cc : Str} {cls : List SClass}
    {fields : List Range} {chk : Range}
    (hp : layoutAlgo X.T X.A alg cc cls fields chk = true)
    (hR : ∀ x ∈ X.R, x.countryCode = cc → x.checksumAlgo = none) (b : Str) :
    BBAN.validateNational X cc b =
      (alg.validate X.U (fields.map (fun r => getSlice b r.start (some r.stop)))
        (getSlice b chk.start (some chk.stop))).bind
        (fun ok => if ok then .ok true else .err .invalidBBANChecksum) := by
  unfold layoutAlgo at hp
  cases hl : X.T.lookup cc with
  | none => simp [hl] at hp
  | some e =>
    cases ha : X.A.get (defaultKey cc) with
    | none => simp [hl, ha] at hp
    | some a =>
      simp only [hl, ha, Bool.and_eq_true, beq_iff_eq] at hp
      obtain ⟨⟨⟨href, hf⟩, hc⟩, _⟩ := hp
      rw [validateNational_dispatch X hl hR, ha]
      simp only
      rw [AlgoRef.eq_of_isNat href, componentsOf_map, hf, hc]
      rfl

theorem getSlice_eq_slice {b : Str} {s t : Nat} (h1 : s < b.length) (h2 : t ≤ b.length) :
    getSlice b s (some t) = slice b s t := by
  simp [getSlice, h1, h2]

theorem slice_length {b : Str} {s t : Nat} (h : t ≤ b.length) : (slice b s t).length = t - s := by
  simp [slice, List.length_drop, List.length_take, Nat.min_eq_left h]

theorem slice_zero (b : Str) (t : Nat) : slice b 0 t = b.take t := by simp [slice]

theorem slice_to_end {b : Str} {s t : Nat} (h : b.length ≤ t) : slice b s t = b.drop s := by
  simp [slice, List.take_of_length_le h]

theorem allDigits_slice {b : Str} (s t : Nat) (h : allDigits b = true) :
    allDigits (slice b s t) = true := by
  simp only [allDigits, List.all_eq_true, slice] at *
  exact fun x hx => h x (List.mem_of_mem_take (List.mem_of_mem_drop hx))

theorem allAlnum_slice {b : Str} (s t : Nat) (h : allAlnum b = true) :
    allAlnum (slice b s t) = true := by
  simp only [allAlnum, List.all_eq_true, slice] at *
  exact fun x hx => h x (List.mem_of_mem_take (List.mem_of_mem_drop hx))

/-! ### Digits -/

theorem intChar_val {U : Unicode} (hU : U.WF) {c : Nat} (h : isAsciiDigit c = true) :
    U.intChar c = .ok (dv c) := by
  have h' : 48 ≤ c ∧ c ≤ 57 := by simpa [isAsciiDigit] using h
  have := intChar_ascii hU (d := c - 48) (by omega)
  rw [show 48 + (c - 48) = c by omega] at this
  exact this

theorem weightedSum_val {U : Unicode} (hU : U.WF) :
    ∀ (ws : List Nat) (s : Str), allDigits s = true → weightedSum U ws s = .ok (wsum ws s)
  | [], _, _ => by simp [weightedSum, wsum]
  | _ :: _, [], _ => by simp [weightedSum, wsum]
  | w :: ws, c :: t, h => by
    simp only [allDigits, List.all_cons, Bool.and_eq_true] at h
    simp [weightedSum, wsum, intChar_val hU h.1, weightedSum_val hU ws t h.2]

theorem weighted_val {U : Unicode} (hU : U.WF) (s : Str) (m : Nat) (ws : List Nat)
    (h : allDigits s = true) : weighted U s m ws = .ok (wsum ws s % m) := by
  simp [weighted, weightedSum_val hU ws s h]

theorem natToDigits_lt10 : ∀ n : Fin 10, natToDigits n.val = [48 + n.val] := by decide

theorem natToDigits_digit {n : Nat} (h : n < 10) : natToDigits n = [48 + n] :=
  natToDigits_lt10 ⟨n, h⟩

theorem natToDigits_10 : natToDigits 10 = [49, 48] := by decide

/-! ### slices of slices, single characters -/

theorem slice_slice (b : Str) (s t i j : Nat) (h : s + j ≤ t) :
    slice (slice b s t) i j = slice b (s + i) (s + j) := by
  unfold slice
  rw [List.take_drop, List.drop_drop, List.take_take, Nat.min_eq_left h]

theorem slice_take (b : Str) (s t n : Nat) (h : s + n ≤ t) :
    (slice b s t).take n = slice b s (s + n) := by
  have := slice_slice b s t 0 n h
  simpa [slice] using this

theorem slice_drop (b : Str) (s t n : Nat) :
    (slice b s t).drop n = slice b (s + n) t := by
  unfold slice
  rw [List.drop_drop]

theorem slice_single {l : Str} {i : Nat} (h : i < l.length) : slice l i (i + 1) = [l[i]] := by
  unfold slice
  rw [List.take_add_one, List.drop_append_of_le_length (by rw [List.length_take]; omega)]
  have : (l.take i).length = i := by rw [List.length_take]; omega
  rw [List.drop_of_length_le (by omega)]
  simp [h]

theorem wsum_trunc : ∀ (ws ws' : List Nat) (s : Str), s.length ≤ ws.length →
    wsum (ws ++ ws') s = wsum ws s
  | _, _, [], _ => by cases ‹List Nat› <;> simp [wsum] <;> (cases ‹List Nat› <;> simp [wsum])
  | [], _, _ :: _, h => by simp at h
  | w :: ws, ws', c :: t, h => by
    simp only [List.cons_append, wsum]
    rw [wsum_trunc ws ws' t (by simpa using h)]

/-! ### Spain -/

theorem es_digit : ∀ r : Fin 11, natToDigits (esReconcile (11 - r.val)) =
    [48 + (if 11 - r.val = 11 then 0 else if 11 - r.val = 10 then 1 else 11 - r.val)] := by decide

theorem es_digit' (s : Nat) : natToDigits (esReconcile (11 - s % 11)) = [48 + spainDigit s] := by
  have := es_digit ⟨s % 11, Nat.mod_lt _ (by decide)⟩
  simpa [spainDigit] using this

theorem es_validate_val {U : Unicode} (hU : U.WF) {bank branch account : Str}
    (h1 : allDigits bank = true) (h2 : allDigits branch = true) (h3 : allDigits account = true)
    (ex : Str) :
    NatAlgo.es.validate U [bank, branch, account] ex =
      .ok ([48 + spainDigit (wsum [4, 8, 5, 10, 9, 7, 3, 6] (bank ++ branch)),
            48 + spainDigit (wsum [1, 2, 4, 8, 5, 10, 9, 7, 3, 6] account)] == ex) := by
  have hbb : allDigits (bank ++ branch) = true := by rw [allDigits_append, h1, h2]; rfl
  have hw : esWeights.drop 2 = [4, 8, 5, 10, 9, 7, 3, 6] := by decide
  simp only [NatAlgo.validate, NatAlgo.compute, esCompute, weighted_val hU _ _ _ hbb,
    weighted_val hU _ _ _ h3, esWeights, bind, Res.bind, pure, es_digit']
  rfl

/-! ### Poland, Estonia -/

theorem tenMinus : ∀ d : Fin 10, natToDigits (if d.val = 0 then d.val else 10 - d.val) =
    [48 + (10 - d.val) % 10] := by decide

theorem tenMinus' (s : Nat) : natToDigits (if s % 10 = 0 then s % 10 else 10 - s % 10) =
    [48 + (10 - s % 10) % 10] := tenMinus ⟨s % 10, Nat.mod_lt _ (by decide)⟩

theorem pl_validate_val {U : Unicode} (hU : U.WF) {cs : List Str}
    (h : allDigits (joinStrs cs) = true) (ex : Str) :
    NatAlgo.pl.validate U cs ex =
      .ok ([48 + (10 - wsum [3, 9, 7, 1, 3, 9, 7] (joinStrs cs) % 10) % 10] == ex) := by
  simp only [NatAlgo.validate, NatAlgo.compute, plCompute, weighted_val hU _ _ _ h, bind, Res.bind,
    pure, tenMinus']

theorem ee_validate_val {U : Unicode} (hU : U.WF) {cs : List Str}
    (h : allDigits (joinStrs cs) = true) (hl : (joinStrs cs).length = 13) (ex : Str) :
    NatAlgo.ee.validate U cs ex =
      .ok ([48 + (10 - wsum [7, 3, 1, 7, 3, 1, 7, 3, 1, 7, 3, 1, 7] (joinStrs cs).reverse % 10) % 10]
        == ex) := by
  have hw : cycleWeights [7, 3, 1] (joinStrs cs).reverse.length =
      [7, 3, 1, 7, 3, 1, 7, 3, 1, 7, 3, 1, 7] := by
    rw [List.length_reverse, hl]; decide
  simp only [NatAlgo.validate, NatAlgo.compute, eeCompute, hw,
    weighted_val hU _ _ _ (allDigits_reverse h), bind, Res.bind, pure, tenMinus']

/-! ### Czechia, Slovakia -/

theorem cz_validate_val {U : Unicode} (hU : U.WF) {branch account : Str}
    (h1 : allDigits branch = true) (h2 : allDigits account = true) (ex : Str) :
    NatAlgo.czsk.validate U [branch, account] ex =
      .ok (wsum [10, 5, 8, 4, 2, 1] branch % 11 == 0 &&
           wsum [6, 3, 7, 9, 10, 5, 8, 4, 2, 1] account % 11 == 0) := by
  have hw : [6, 3, 7, 9, 10, 5, 8, 4, 2, 1].drop 4 = [10, 5, 8, 4, 2, 1] := by decide
  simp only [NatAlgo.validate, czValidate, hw, weighted_val hU _ _ _ h1, weighted_val hU _ _ _ h2,
    bind, Res.bind, pure]

/-! ### Iceland -/

theorem is_digit : ∀ r : Fin 11, ∀ x : Fin 128,
    ((if r.val = 0 then natToDigits r.val else natToDigits (11 - r.val)) == [x.val]) =
    (r.val != 1 && [x.val] == [48 + (if r.val = 0 then 0 else 11 - r.val)]) := by decide +kernel

theorem is_digit' (s x : Nat) :
    ((if s % 11 = 0 then natToDigits (s % 11) else natToDigits (11 - s % 11)) == [x]) =
    (s % 11 != 1 && [x] == [48 + (if s % 11 = 0 then 0 else 11 - s % 11)]) := by
  by_cases hx : x < 128
  · exact is_digit ⟨s % 11, Nat.mod_lt _ (by decide)⟩ ⟨x, hx⟩
  · have hr : s % 11 < 11 := Nat.mod_lt _ (by decide)
    generalize s % 11 = r at hr ⊢
    have h1 : ∀ k, k < 10 → (natToDigits k == [x]) = false := by
      intro k hk; rw [natToDigits_digit hk]; simp; omega
    have h2 : ([x] == [48 + (if r = 0 then 0 else 11 - r)]) = false := by
      simp; split <;> omega
    rw [h2, Bool.and_false]
    by_cases h0 : r = 0
    · subst h0; simpa using h1 0 (by decide)
    · rw [if_neg h0]
      by_cases h10 : r = 1
      · subst h10; rw [show 11 - 1 = 10 from rfl, natToDigits_10]; simp
      · exact h1 _ (by omega)

theorem is_validate_val {U : Unicode} (hU : U.WF) {holder : Str}
    (h : allDigits holder = true) (hl : holder.length = 10) (ex : Str) :
    NatAlgo.is_.validate U [holder] ex =
      .ok (wsum [3, 2, 7, 6, 5, 4, 3, 2] holder % 11 != 1 &&
        slice holder 8 9 ==
          [48 + (if wsum [3, 2, 7, 6, 5, 4, 3, 2] holder % 11 = 0 then 0
                 else 11 - wsum [3, 2, 7, 6, 5, 4, 3, 2] holder % 11)]) := by
  have h8 : 8 < holder.length := by omega
  have hs := slice_single h8
  have hg : holder[8]? = some holder[8] := by simp [h8]
  simp only [NatAlgo.validate, isValidate, isCompute, weighted_val hU _ _ _ h, bind, Res.bind,
    pure, hg, hs]
  congr 1
  have := is_digit' (wsum [3, 2, 7, 6, 5, 4, 3, 2] holder) holder[8]
  split <;> simp_all

/-! ### Norway -/

theorem no_digit : ∀ r : Fin 11, 11 - r.val ≠ 10 →
    natToDigits ((11 - r.val) % 11) = [48 + (11 - r.val) % 11] := by decide

theorem no_validate_val {U : Unicode} (hU : U.WF) {bank account : Str}
    (h1 : allDigits bank = true) (h2 : allDigits account = true) (ex : Str) :
    NatAlgo.no.validate U [bank, account] ex =
      (let s := if account.take 2 == [48, 48]
                then wsum [5, 4, 3, 2, 7, 6, 5, 4, 3, 2] (account.drop 2)
                else wsum [5, 4, 3, 2, 7, 6, 5, 4, 3, 2] (bank ++ account)
       if 11 - s % 11 = 10 then .err .invalidAccountCode
       else .ok ([48 + (11 - s % 11) % 11] == ex)) := by
  have hv : allDigits (if account.take 2 == [48, 48] then account.drop 2 else joinStrs [bank, account])
      = true := by
    split
    · exact allDigits_drop 2 h2
    · simp only [joinStrs, List.flatten_cons, List.flatten_nil, List.append_nil]
      rw [allDigits_append, h1, h2]; rfl
  simp only [NatAlgo.validate, NatAlgo.compute, noCompute, weightedSum_val hU _ _ hv, bind, Res.bind,
    pure]
  have hj : joinStrs [bank, account] = bank ++ account := by simp [joinStrs]
  rw [hj]
  by_cases hc : (account.take 2 == [48, 48]) = true
  · simp only [hc, if_true]
    by_cases h10 : 11 - wsum [5, 4, 3, 2, 7, 6, 5, 4, 3, 2] (account.drop 2) % 11 = 10
    · simp [h10]
    · have := no_digit ⟨_ % 11, Nat.mod_lt (wsum [5, 4, 3, 2, 7, 6, 5, 4, 3, 2] (account.drop 2))
        (by decide)⟩ h10
      simp only [h10, if_false, this]
  · simp only [hc, Bool.false_eq_true, ↓reduceIte]
    by_cases h10 : 11 - wsum [5, 4, 3, 2, 7, 6, 5, 4, 3, 2] (bank ++ account) % 11 = 10
    · simp [h10]
    · have := no_digit ⟨_ % 11, Nat.mod_lt (wsum [5, 4, 3, 2, 7, 6, 5, 4, 3, 2] (bank ++ account))
        (by decide)⟩ h10
      simp only [h10, if_false, this]

/-! ### Finland (Luhn) -/

theorem luhnNumerical_val : ∀ (s : Str), allDigits s = true → luhnNumerical s = .ok (s.map dv)
  | [], _ => rfl
  | c :: t, h => by
    simp only [allDigits, List.all_cons, Bool.and_eq_true] at h
    have h' : 48 ≤ c ∧ c ≤ 57 := by simpa [isAsciiDigit] using h.1
    have : c - 48 < 10 := by omega
    simp [luhnNumerical, alphaIndex_digit h.1, luhnNumerical_val t h.2, this, dv]

theorem digitSum_small : ∀ n : Fin 19, digitSum n.val = n.val / 10 + n.val % 10 := by decide

theorem luhnSum_val : ∀ (s : Str) (i : Nat), allDigits s = true →
    luhnSum (s.map dv) i = luhnR s i
  | [], _, _ => rfl
  | c :: t, i, h => by
    simp only [allDigits, List.all_cons, Bool.and_eq_true] at h
    have h' : 48 ≤ c ∧ c ≤ 57 := by simpa [isAsciiDigit] using h.1
    simp only [List.map_cons, luhnSum, luhnR, luhnSum_val t (i + 1) h.2]
    congr 1
    have hd : dv c < 10 := by simp [dv]; omega
    by_cases hi : i % 2 = 0
    · have := digitSum_small ⟨dv c * 2, by omega⟩
      simp only [hi, if_true]
      rw [show (2 - 0) * dv c = dv c * 2 by omega]; exact this
    · have h1 : i % 2 = 1 := by omega
      have := digitSum_small ⟨dv c * 1, by omega⟩
      simp only [h1]
      rw [show (2 - 1) * dv c = dv c * 1 by omega]; exact this

theorem fi_validate_val {cs : List Str} (U : Unicode) (h : allDigits (joinStrs cs) = true) (ex : Str) :
    NatAlgo.fi.validate U cs ex =
      .ok ([48 + (10 - luhnR (joinStrs cs).reverse 0 % 10) % 10] == ex) := by
  simp only [NatAlgo.validate, NatAlgo.compute, fiCompute, luhn, luhnNumerical_val _ h, bind,
    Res.bind, pure]
  rw [← List.map_reverse, luhnSum_val _ 0 (allDigits_reverse h)]
  have : (10 - luhnR (joinStrs cs).reverse 0 % 10) % 10 < 10 := Nat.mod_lt _ (by decide)
  rw [natToDigits_digit this]

/-! ### France, Monaco (RIB key) -/

theorem frNumeric_val : ∀ c : Fin 91, isAsciiAlnumUpper c.val = true →
    frNumeric c.val = some (ribVal c.val) := by decide +kernel

theorem frNumeric_val' {c : Nat} (h : isAsciiAlnumUpper c = true) : frNumeric c = some (ribVal c) := by
  have hc : c < 91 := by
    simp only [isAsciiAlnumUpper, isAsciiDigit, isAsciiUpper, Bool.or_eq_true, Bool.and_eq_true,
      decide_eq_true_eq] at h
    omega
  exact frNumeric_val ⟨c, hc⟩ h

theorem frNumerify_val (U : Unicode) :
    ∀ (s : Str) (v n : Nat), allAlnum s = true → 0 < n + s.length → n + s.length ≤ U.maxIntDigits →
      frNumerify U s v n = .ok (ribNum s v)
  | [], v, n, _, h0, h1 => by
    simp only [List.length_nil, Nat.add_zero] at h0 h1
    unfold frNumerify ribNum
    rw [if_neg]
    simp only [Bool.or_eq_true, decide_eq_true_eq, not_or, Nat.not_lt]
    exact ⟨by omega, h1⟩
  | c :: t, v, n, h, _, h1 => by
    simp only [allAlnum, List.all_cons, Bool.and_eq_true] at h
    simp only [frNumerify, frNumeric_val' h.1, ribNum]
    exact frNumerify_val U t (v * 10 + ribVal c) (n + 1) h.2 (by omega)
      (by simp only [List.length_cons] at h1; omega)

theorem ribNum_append : ∀ (s t : Str) (acc : Nat), ribNum (s ++ t) acc = ribNum t (ribNum s acc)
  | [], _, _ => rfl
  | c :: s, t, acc => by simp only [List.cons_append, ribNum]; exact ribNum_append s t _

theorem ribNum_acc : ∀ (s : Str) (acc : Nat), ribNum s acc = acc * 10 ^ s.length + ribNum s 0
  | [], acc => by simp [ribNum]
  | c :: s, acc => by
    simp only [ribNum, List.length_cons]
    rw [ribNum_acc s (acc * 10 + ribVal c), ribNum_acc s (0 * 10 + ribVal c)]
    rw [Nat.pow_succ]
    simp only [Nat.zero_mul, Nat.zero_add, Nat.add_mul, Nat.mul_assoc, Nat.add_assoc]
    rw [Nat.mul_comm 10 (10 ^ s.length)]

theorem fr_validate_val (U : Unicode) {bank branch account : Str}
    (h1 : allAlnum bank = true) (h2 : allAlnum branch = true) (h3 : allAlnum account = true)
    (l1 : bank.length = 5) (l2 : branch.length = 5) (l3 : account.length = 11)
    (hm : 11 ≤ U.maxIntDigits) (ex : Str) :
    NatAlgo.fr.validate U [bank, branch, account] ex =
      .ok (fmt02 (97 - (ribNum (bank ++ branch ++ account) 0 * 100) % 97) == ex) := by
  simp only [NatAlgo.validate, NatAlgo.compute, frCompute,
    frNumerify_val U bank 0 0 h1 (by omega) (by omega),
    frNumerify_val U branch 0 0 h2 (by omega) (by omega),
    frNumerify_val U account 0 0 h3 (by omega) (by omega), bind, Res.bind, pure, iso7064]
  have e : (89 * ribNum bank 0 + 15 * ribNum branch 0 + 3 * ribNum account 0) % 97 =
      (ribNum (bank ++ branch ++ account) 0 * 100) % 97 := by
    have ha := ribNum_acc account (ribNum branch (ribNum bank 0))
    have hb := ribNum_acc branch (ribNum bank 0)
    rw [ribNum_append, ribNum_append, ha, hb, l2, l3]
    generalize ribNum bank 0 = a
    generalize ribNum branch 0 = b
    generalize ribNum account 0 = c
    have p5 : (10 : Nat) ^ 5 = 100000 := by decide
    have p11 : (10 : Nat) ^ 11 = 100000000000 := by decide
    rw [p5, p11]
    omega
  rw [e]

/-! ### Italy, San Marino (CIN) -/

theorem itGetIndex_val {U : Unicode} (hU : U.WF) {c : Nat} (h : isAsciiAlnumUpper c = true) :
    cinVal c < 26 ∧ itGetIndex U c = .ok (cinVal c) := by
  unfold itGetIndex cinVal
  by_cases hd : isAsciiDigit c = true
  · have h' : 48 ≤ c ∧ c ≤ 57 := by simpa [isAsciiDigit] using hd
    rw [if_pos hd, if_pos h'.2]
    exact ⟨by omega, rfl⟩
  · rw [if_neg hd]
    have hu : 65 ≤ c ∧ c ≤ 90 := by
      simp only [isAsciiAlnumUpper, Bool.or_eq_true] at h
      rcases h with h | h
      · exact absurd h hd
      · simpa [isAsciiUpper] using h
    have hup : U.upper c = [c] := by
      have := hU.fixedUpper (c - 65) (by simp; omega)
      rw [show c - 65 + 65 = c by omega] at this
      simp [Unicode.upper, this]
    have hi := indexOf_upper ⟨c - 65, by omega⟩
    simp only [show 65 + (c - 65) = c by omega] at hi
    rw [if_neg (by omega), hup, hi]
    exact ⟨by omega, rfl⟩

theorem itOdds_val : ∀ k : Fin 26, itOdds[k.val]? = some (cinOdd.getD k.val 0) := by decide

theorem itSum_val {U : Unicode} (hU : U.WF) :
    ∀ (s : Str) (i : Nat), allAlnum s = true → itSum U s i = .ok (cinSum s i)
  | [], _, _ => rfl
  | c :: t, i, h => by
    simp only [allAlnum, List.all_cons, Bool.and_eq_true] at h
    obtain ⟨hk, hg⟩ := itGetIndex_val hU h.1
    have ho := itOdds_val ⟨cinVal c, hk⟩
    simp only at ho
    by_cases hp : i % 2 = 0
    · have hp' : ((i + 1) % 2 == 0) = false := by simp; omega
      simp only [itSum, hg, Res.ok_bind, hp', ho, itSum_val hU t (i + 1) h.2, cinSum, hp, if_true]
      rfl
    · have hp' : ((i + 1) % 2 == 0) = true := by simp; omega
      simp only [itSum, hg, Res.ok_bind, hp', itSum_val hU t (i + 1) h.2, cinSum, hp, if_false]
      rfl

theorem it_validate_val {U : Unicode} (hU : U.WF) {cs : List Str}
    (h : allAlnum (joinStrs cs) = true) (ex : Str) :
    NatAlgo.it.validate U cs ex = .ok ([65 + cinSum (joinStrs cs) 0 % 26] == ex) := by
  simp only [NatAlgo.validate, NatAlgo.compute, itCompute, itSum_val hU _ 0 h, bind, Res.bind, pure]

end SV
