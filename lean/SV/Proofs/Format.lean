/-
  SV.Proofs.Format — `formatted` of IBAN and BIC.
-/
import SV.Proofs.Clean
namespace SV

variable {U : Unicode}

theorem chunks4_flatten : ∀ (n : Nat) (s : Str), s.length ≤ n → (chunks4 n s).flatten = s
  | 0, s, h => by
    have : s = [] := List.eq_nil_of_length_eq_zero (by omega)
    subst this; rfl
  | n + 1, s, h => by
    unfold chunks4
    by_cases hs : s = []
    · simp [hs]
    · simp only [hs, ↓reduceIte, List.flatten_cons]
      have hl : (s.drop 4).length ≤ n := by
        have : 0 < s.length := List.length_pos_iff.mpr hs
        simp; omega
      rw [chunks4_flatten n (s.drop 4) hl, List.take_append_drop]

theorem chunks4_shape : ∀ (n : Nat) (s : Str), s.length ≤ n →
    ∀ ch ∈ chunks4 n s, 1 ≤ ch.length ∧ ch.length ≤ 4
  | 0, s, _ => by simp [chunks4]
  | n + 1, s, h => by
    unfold chunks4
    by_cases hs : s = []
    · simp [hs]
    · simp only [hs, ↓reduceIte, List.mem_cons]
      have hpos : 0 < s.length := List.length_pos_iff.mpr hs
      intro ch hch
      rcases hch with rfl | hch
      · simp; omega
      · exact chunks4_shape n (s.drop 4) (by simp; omega) ch hch

theorem clean_intercalateSp (hsp : U.isSpace 32 = true) :
    ∀ l : List Str, clean U (intercalateSp l) = clean U l.flatten
  | [] => rfl
  | [a] => by simp [intercalateSp]
  | a :: b :: t => by
    have ih := clean_intercalateSp hsp (b :: t)
    simp only [intercalateSp, List.flatten_cons] at *
    rw [clean_append, clean_append, ih, clean_append]
    have : clean U [32] = [] := by simp [clean, hsp]
    rw [this]; simp [clean_append]

/-- Parsing the formatted form of an IBAN gives back its compact form. -/
theorem clean_iban_formatted (hU : U.WF) (s : Str) :
    clean U (IBAN.formatted (clean U s)) = clean U s := by
  unfold IBAN.formatted
  rw [clean_intercalateSp hU.space, chunks4_flatten _ _ (Nat.le_refl _), clean_idem hU]

theorem getSlice_some_of_le {c : Str} {a b : Nat} (ha : a < c.length) (hb : b ≤ c.length) :
    getSlice c a (some b) = slice c a b := by
  simp [getSlice, ha, hb]

/-- The formatted form of an 8- or 11-character BIC, written out. -/
theorem bic_formatted_8 {c : Str} (h : c.length = 8) :
    BIC.formatted c = slice c 0 4 ++ [32] ++ slice c 4 6 ++ [32] ++ slice c 6 8 := by
  unfold BIC.formatted BIC.bankCode BIC.countryCode BIC.locationCode BIC.branchCode
  rw [getSlice_some_of_le (by omega) (by omega), getSlice_some_of_le (by omega) (by omega),
    getSlice_some_of_le (by omega) (by omega)]
  have : getSlice c 8 (some 11) = [] := by simp [getSlice, h]
  simp [this]

theorem bic_formatted_11 {c : Str} (h : c.length = 11) :
    BIC.formatted c =
      slice c 0 4 ++ [32] ++ slice c 4 6 ++ [32] ++ slice c 6 8 ++ [32] ++ slice c 8 11 := by
  unfold BIC.formatted BIC.bankCode BIC.countryCode BIC.locationCode BIC.branchCode
  rw [getSlice_some_of_le (by omega) (by omega), getSlice_some_of_le (by omega) (by omega),
    getSlice_some_of_le (by omega) (by omega), getSlice_some_of_le (by omega) (by omega)]
  have : slice c 8 11 ≠ [] := by
    intro hn
    have := congrArg List.length hn
    simp [slice, h] at this
  simp [this]

theorem slices_8 {c : Str} (h : c.length = 8) : slice c 0 4 ++ slice c 4 6 ++ slice c 6 8 = c := by
  match c, h with
  | [a, b, c', d, e, f, g, i], _ => rfl

theorem slices_11 {c : Str} (h : c.length = 11) :
    slice c 0 4 ++ slice c 4 6 ++ slice c 6 8 ++ slice c 8 11 = c := by
  match c, h with
  | [a, b, c', d, e, f, g, i, j, k, l], _ => rfl

theorem clean_sp (hU : U.WF) : clean U [32] = [] := by simp [clean, hU.space]

/-- Parsing the formatted form of a BIC (8 or 11 characters) gives back its compact form. -/
theorem clean_bic_formatted (hU : U.WF) (s : Str)
    (hlen : (clean U s).length = 8 ∨ (clean U s).length = 11) :
    clean U (BIC.formatted (clean U s)) = clean U s := by
  rcases hlen with h | h
  · rw [bic_formatted_8 h]
    simp only [clean_append, clean_sp hU, List.append_nil]
    rw [← clean_append, ← clean_append, slices_8 h, clean_idem hU]
  · rw [bic_formatted_11 h]
    simp only [clean_append, clean_sp hU, List.append_nil]
    rw [← clean_append, ← clean_append, ← clean_append, slices_11 h, clean_idem hU]

end SV
