/-
  SV.Proofs.IbanIso — the decision tree accepts exactly the ISO 13616 rule set.
-/
import SV.Proofs.IbanValidate
namespace SV
open Spec

theorem tree_ok_iff (U : Unicode) (T : Table) (c : Str) :
    validateTree U T c = .ok true ↔
      prefixOk U c = true ∧ ∃ e, T.lookup (c.take 2) = some e ∧ e.ibanLength = c.length ∧
        ∃ items, e.pattern = some items ∧ matchItems U items (c.drop 4) = true ∧
          allAlnum (c.drop 4 ++ c.take 4) = true ∧
          numLen (c.drop 4 ++ c.take 4) ≤ U.maxIntDigits ∧
          numVal (c.drop 4 ++ c.take 4) 0 % 97 = 1 ∧
          fmt02 (98 - (numVal (c.drop 4 ++ c.take 2) 0 * 100) % 97) = (c.take 4).drop 2 := by
  unfold validateTree
  cases hp : prefixOk U c with
  | false => simp
  | true =>
    simp only [Bool.true_eq_false, ↓reduceIte, true_and]
    cases hl : T.lookup (c.take 2) with
    | none => simp
    | some e =>
      simp only [Option.some.injEq, exists_eq_left']
      by_cases hlen : e.ibanLength = c.length
      · simp only [hlen, ne_eq, not_true_eq_false, ↓reduceIte, true_and]
        cases hpat : e.pattern with
        | none => simp
        | some items =>
          simp only [Option.some.injEq, exists_eq_left']
          cases hm : matchItems U items (c.drop 4) with
          | false => simp
          | true =>
            simp only [Bool.true_eq_false, ↓reduceIte, true_and]
            by_cases hA : allAlnum (c.drop 4 ++ c.take 4) = true ∧
                numLen (c.drop 4 ++ c.take 4) ≤ U.maxIntDigits
            · rw [if_neg (fun h => h hA)]
              by_cases hmod : numVal (c.drop 4 ++ c.take 4) 0 % 97 = 1
              · rw [if_neg (fun h : ¬ _ => h hmod)]
                cases hd : (fmt02 (98 - (numVal (c.drop 4 ++ c.take 2) 0 * 100) % 97) ==
                    (c.take 4).drop 2) with
                | true =>
                  have := beq_iff_eq.mp hd
                  simp [hA.1, hA.2, hmod, this]
                | false =>
                  have : ¬ (fmt02 (98 - (numVal (c.drop 4 ++ c.take 2) 0 * 100) % 97) =
                      (c.take 4).drop 2) := by
                    intro h; rw [h] at hd; simp at hd
                  simp [this]
              · rw [if_pos hmod]; simp [hmod]
            · rw [if_pos hA]
              constructor
              · intro h; cases h
              · rintro ⟨h1, h2, _⟩; exact absurd ⟨h1, h2⟩ hA
      · simp [hlen]

theorem digit_pair_of_fmt02 {v d1 d2 : Nat} (hv : v < 100) (h : fmt02 v = [d1, d2]) :
    isAsciiDigit d1 = true ∧ isAsciiDigit d2 = true ∧ (d1 - 48) * 10 + (d2 - 48) = v := by
  rw [fmt02_lt_100 v hv] at h
  simp only [List.cons.injEq, and_true] at h
  obtain ⟨h1, h2⟩ := h
  subst h1 h2
  simp only [isAsciiDigit, Bool.and_eq_true, decide_eq_true_eq]
  omega

theorem fmt02_of_digit_pair {d1 d2 : Nat} (h1 : isAsciiDigit d1 = true) (h2 : isAsciiDigit d2 = true) :
    fmt02 ((d1 - 48) * 10 + (d2 - 48)) = [d1, d2] := by
  simp only [isAsciiDigit, Bool.and_eq_true, decide_eq_true_eq] at h1 h2
  rw [fmt02_lt_100 _ (by omega)]
  congr 1
  · omega
  · congr 1; omega

theorem list_ge4 {c : Str} (h : 4 ≤ c.length) : ∃ a b d1 d2 rest, c = a :: b :: d1 :: d2 :: rest := by
  match c, h with
  | a :: b :: d1 :: d2 :: rest, _ => exact ⟨a, b, d1, d2, rest, rfl⟩

/-- **Acceptance is exactly the ISO 13616 rule set** (on compact texts). -/
theorem tree_ok_iff_isoValid {U : Unicode} {T : Table} (hU : U.WF) (hT : T.WF) {c : Str}
    (hc : Compact U c) : validateTree U T c = .ok true ↔ isoValid T c = true := by
  rw [tree_ok_iff]
  constructor
  · rintro ⟨hp, e, hl, hlen, items, hpat, hm, hA, _, hmod, hdd⟩
    obtain ⟨a, b, d1, d2, rest, rfl⟩ := list_ge4 (prefixOk_length hp)
    have heT := (Table.lookup_mem hl).1
    have hW := hT e heT
    obtain ⟨l, items', hps, hpat', hmatch, hexp⟩ := hW.spec
    simp only [List.take_succ_cons, List.take_zero, List.drop_succ_cons, List.drop_zero] at *
    rw [hpat'] at hpat
    have hitems : items = items' := (Option.some.inj hpat).symm
    subst hitems
    rw [hmatch] at hm
    simp only [prefixOk, Bool.and_eq_true] at hp
    simp only [allAlnum_append, Bool.and_eq_true] at hA
    have hArest := hA.1
    have hA4 := hA.2
    simp only [allAlnum, List.all_cons, List.all_nil, Bool.and_true, Bool.and_eq_true] at hA4
    have hd1 := asciiDigit_of_isDigit_alnum hU hp.1.2 hA4.2.2.1
    have hd2 := asciiDigit_of_isDigit_alnum hU hp.2 hA4.2.2.2
    have hrestC : Compact U rest := fun x hx => hc x (by simp [hx])
    have hfit : fitsClasses (expandSpec l) rest = true := by
      rcases (matchItems_spec U l rest).mp hm with h | ⟨s', hs, _⟩
      · exact fitsClasses_of_fitsRe hU _ _ h hArest
      · exfalso
        exact newline_not_mem_compact hU hrestC (by rw [hs]; simp)
    have hrl := fitsClasses_length _ _ hfit
    -- check digits
    have hv : 98 - (numVal (rest ++ [a, b]) 0 * 100) % 97 < 100 := by omega
    have hpair := digit_pair_of_fmt02 hv hdd
    unfold isoValid
    simp only [List.take_succ_cons, List.take_zero, List.drop_succ_cons, List.drop_zero, hl]
    simp only [fits, hps, hfit, List.length_cons, List.getD_cons_succ,
      List.getD_cons_zero, hd1, hd2, hmod, ddVal, Bool.and_eq_true, beq_iff_eq, decide_eq_true_eq,
      and_true, true_and]
    refine ⟨⟨?_, ?_⟩, ?_⟩
    · omega
    · have := hpair.2.2; omega
    · have := hpair.2.2; omega
  · intro h
    unfold isoValid at h
    cases hl : T.lookup (c.take 2) with
    | none => simp [hl] at h
    | some e =>
      simp only [hl, Bool.and_eq_true, beq_iff_eq, decide_eq_true_eq] at h
      obtain ⟨⟨⟨⟨⟨⟨hlen, hg2⟩, hg3⟩, hfit⟩, hmod⟩, hlo⟩, hhi⟩ := h
      have h4 : 4 ≤ c.length := by omega
      obtain ⟨a, b, d1, d2, rest, rfl⟩ := list_ge4 h4
      have ⟨heT, hcode⟩ := Table.lookup_mem hl
      have hW := hT e heT
      obtain ⟨l, items', hps, hpat', hmatch, hexp⟩ := hW.spec
      obtain ⟨a', b', hcd, hua, hub⟩ := hW.code
      simp only [List.take_succ_cons, List.take_zero, List.drop_succ_cons, List.drop_zero,
        List.getD_cons_succ, List.getD_cons_zero, List.length_cons] at *
      rw [hcd] at hcode
      simp only [List.cons.injEq, and_true] at hcode
      obtain ⟨rfl, rfl⟩ := hcode
      simp only [fits, hps] at hfit
      have hrestC : Compact U rest := fun x hx => hc x (by simp [hx])
      have hArest := allAlnum_of_fitsClasses hU _ _ hfit hrestC
      have hdig1 := isDigit_of_ascii hU hg2
      have hdig2 := isDigit_of_ascii hU hg3
      have hA : allAlnum (rest ++ [a', b', d1, d2]) = true := by
        simp only [allAlnum_append, Bool.and_eq_true]
        refine ⟨hArest, ?_⟩
        simp [allAlnum, isAsciiAlnumUpper, hua, hub, hg2, hg3]
      have hnl : numLen (rest ++ [a', b', d1, d2]) ≤ U.maxIntDigits := by
        have h1 := numLen_le (rest ++ [a', b', d1, d2])
        have h2 := hW.maxLen
        have h3 := hW.ibanLen
        have h4 := hU.maxInt
        simp only [List.length_append, List.length_cons, List.length_nil] at h1
        omega
      refine ⟨by simp [prefixOk, hua, hub, hdig1, hdig2], e, rfl, by have := hW.ibanLen; omega,
        items', hpat', ?_, hA, hnl, hmod, ?_⟩
      · rw [hmatch]
        exact (matchItems_spec U l rest).mpr (Or.inl (fitsRe_of_fitsClasses hU _ _ hfit))
      · -- the given digits are the computed ones
        have e1 : rest ++ [a', b', d1, d2] = (rest ++ [a', b']) ++ [d1, d2] := by simp
        rw [e1, numVal_append, numVal_two_digits hg2 hg3] at hmod
        simp only [ddVal, List.getD_cons_succ, List.getD_cons_zero] at hlo hhi
        have := dd_unique hmod hlo hhi
        rw [← this]
        exact fmt02_of_digit_pair hg2 hg3

end SV
