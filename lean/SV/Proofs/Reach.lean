/-
  SV.Proofs.Reach — every bank code that fits a country's bank-identifying field occurs in a
  structure-conforming BBAN of that country and is read back from it (C17, last sentence).
-/
import SV.Proofs.Placement
import SV.Proofs.NationalTotal
namespace SV
open Spec

/-! ### class-wise construction -/

/-- A character of each class. -/
def fillChar : SClass → Nat
  | .n => 48 | .a => 65 | .c => 48 | .e => 32

theorem fillChar_ok (k : SClass) : k.ok (fillChar k) = true := by cases k <;> decide

theorem fits_filler : ∀ cls : List SClass, fitsClasses cls (cls.map fillChar) = true
  | [] => rfl
  | k :: t => by simp [fitsClasses, fillChar_ok, fits_filler t]

theorem fitsClasses_append : ∀ {l1 l2 : List SClass} {s1 s2 : Str},
    fitsClasses l1 s1 = true → fitsClasses l2 s2 = true → fitsClasses (l1 ++ l2) (s1 ++ s2) = true
  | [], _, [], _, _, h2 => by simpa using h2
  | [], _, _ :: _, _, h1, _ => by simp [fitsClasses] at h1
  | _ :: _, _, [], _, h1, _ => by simp [fitsClasses] at h1
  | k :: l1, l2, x :: s1, s2, h1, h2 => by
    simp only [fitsClasses, Bool.and_eq_true] at h1
    simp only [List.cons_append, fitsClasses, h1.1, Bool.true_and]
    exact fitsClasses_append h1.2 h2

/-- Overlaying a piece that fits the classes of its range keeps a BBAN fitting. -/
theorem fits_overlay {cls : List SClass} {b v : Str} {r : Range} (hb : fitsClasses cls b = true)
    (hr : r.start ≤ r.stop)
    (hv : fitsClasses ((cls.take r.stop).drop r.start) v = true) :
    fitsClasses cls (overlay b r v) = true := by
  unfold overlay
  have e : cls = cls.take r.start ++ ((cls.take r.stop).drop r.start ++ cls.drop r.stop) := by
    have h1 : cls.take r.start = (cls.take r.stop).take r.start := by
      rw [List.take_take, Nat.min_eq_left hr]
    rw [h1, ← List.append_assoc, List.take_append_drop, List.take_append_drop]
  have goal := fitsClasses_append (fitsClasses_take r.start hb)
    (fitsClasses_append hv (fitsClasses_drop r.stop hb))
  rw [← e] at goal
  rw [List.append_assoc]
  exact goal

/-- The classes of the structure string at a component's range. -/
def clsAt (cls : List SClass) (r : Range) : List SClass := (cls.take r.stop).drop r.start

theorem fits_overlayAll {e : Country} (hW : e.WF) {cls : List SClass} (c : Comps) :
    ∀ (ks : List Component) (b : Str),
      (∀ k ∈ ks, ∀ r, publishedAt e k r → fitsClasses (clsAt cls r) (c k) = true) →
      fitsClasses cls b = true → fitsClasses cls (overlayAll e c ks b) = true
  | [], _, _, hb => hb
  | k :: t, b, hc, hb => by
    simp only [overlayAll]
    cases hk : (e.positions.getD []).lookup k with
    | none =>
      rw [range_unpublished hk]
      simp only [Range.isEmpty, beq_self_eq_true, Bool.and_self, ↓reduceIte]
      exact fits_overlayAll hW c t b (fun k' hk' => hc k' (by simp [hk'])) hb
    | some r =>
      have hp : publishedAt e k r := hk
      rw [range_of_published hp]
      have hbd := hW.bounds (k, r) (mem_of_lookup hk)
      simp only at hbd
      have hne : r.isEmpty = false := by
        simp only [Range.isEmpty, Bool.and_eq_false_iff, beq_eq_false_iff_ne]
        right; omega
      simp only [hne, Bool.false_eq_true, ↓reduceIte]
      exact fits_overlayAll hW c t _ (fun k' hk' => hc k' (by simp [hk']))
        (fits_overlay hb (by omega) (hc k (by simp) r hp))

/-! ### cutting a key into the pieces of its components -/

/-- The piece of `code` that belongs to component `j` when the components `ks` share it out in
    order, each taking the width of its field. -/
def pieceOf (e : Country) : List Component → Str → Component → Str
  | [], _, _ => []
  | k :: t, code, j =>
    if j = k then code.take (e.range k).length else pieceOf e t (code.drop (e.range k).length) j

/-- The pieces, joined in order, give the key back. -/
theorem join_pieces (e : Country) : ∀ (ks : List Component) (code : Str), ks.Nodup →
    code.length = (ks.map (fun k => (e.range k).length)).sum →
    joinStrs (ks.map (pieceOf e ks code)) = code
  | [], code, _, h => by
    simp at h
    simp [joinStrs, h]
  | k :: t, code, hnd, h => by
    have hnd' := List.nodup_cons.mp hnd
    simp only [List.map_cons, List.sum_cons] at h
    have ht : t.map (pieceOf e (k :: t) code) = t.map (pieceOf e t (code.drop (e.range k).length)) := by
      apply List.map_congr_left
      intro j hj
      have : j ≠ k := fun hjk => hnd'.1 (hjk ▸ hj)
      simp [pieceOf, this]
    have := join_pieces e t (code.drop (e.range k).length) hnd'.2 (by rw [List.length_drop]; omega)
    simp only [joinStrs] at this
    simp only [List.map_cons, joinStrs, List.flatten_cons]
    rw [ht, this]
    simp only [pieceOf, if_true, List.take_append_drop]

/-- Every piece fits the classes of its component's range. -/
theorem pieces_fit (e : Country) (cls : List SClass) : ∀ (ks : List Component) (code : Str), ks.Nodup →
    (∀ k ∈ ks, (clsAt cls (e.range k)).length = (e.range k).length) →
    fitsClasses (ks.flatMap (fun k => clsAt cls (e.range k))) code = true →
    ∀ j ∈ ks, fitsClasses (clsAt cls (e.range j)) (pieceOf e ks code j) = true
  | [], _, _, _, _, j, hj => by cases hj
  | k :: t, code, hnd, hw, hf, j, hj => by
    have hnd' := List.nodup_cons.mp hnd
    simp only [List.flatMap_cons] at hf
    have hwk := hw k (by simp)
    have h1 := fitsClasses_take (e.range k).length hf
    have h2 := fitsClasses_drop (e.range k).length hf
    rw [List.take_append_of_le_length (by omega), List.take_of_length_le (by omega)] at h1
    rw [List.drop_append_of_le_length (by omega), List.drop_of_length_le (by omega),
      List.nil_append] at h2
    by_cases hjk : j = k
    · subst hjk; simp only [pieceOf, if_true]; exact h1
    · simp only [pieceOf, hjk, if_false]
      exact pieces_fit e cls t _ hnd'.2 (fun k' hk' => hw k' (by simp [hk'])) h2 j (by
        rcases List.mem_cons.mp hj with h | h
        · exact absurd h hjk
        · exact h)

/-- The width of the classes at a published range. -/
theorem clsAt_length {e : Country} (hW : e.WF) {cls : List SClass} (hcl : cls.length = e.bbanLength)
    {k : Component} {r : Range} (hp : publishedAt e k r) : (clsAt cls r).length = r.stop - r.start := by
  have hbd := hW.bounds (k, r) (mem_of_lookup hp)
  simp only at hbd
  simp only [clsAt, List.length_drop, List.length_take]
  omega

/-- **Reachability.**  For a well-formed country entry whose bank-identifying components are
    distinct published fields, every key that fits the classes of those fields occurs in a BBAN that
    fits the country's structure, and the key read off that BBAN is the key. -/
theorem reachable {e : Country} (hW : e.WF) {l : List (Nat × SClass)}
    (hps : parseSpec e.bbanSpec = some l)
    (hnd : (e.bicLookup.getD [.bankCode]).Nodup)
    (hpub : ∀ k ∈ e.bicLookup.getD [.bankCode], ∃ r, publishedAt e k r)
    {code : Str}
    (hf : fitsClasses ((e.bicLookup.getD [.bankCode]).flatMap
      (fun k => clsAt (expandSpec l) (e.range k))) code = true) :
    ∃ b, fits e b = true ∧ b.length = e.bbanLength ∧ lookupKey e b = code := by
  obtain ⟨l', _, hps', _, _, hexp⟩ := hW.spec
  rw [hps] at hps'; cases hps'
  generalize hL : e.bicLookup.getD [.bankCode] = L at hnd hpub hf
  let cls := expandSpec l
  have hcl : cls.length = e.bbanLength := hexp
  let c : Comps := fun j => if j ∈ L then pieceOf e L code j else List.replicate (e.range j).length 48
  have hwid : ∀ k ∈ L, (clsAt cls (e.range k)).length = (e.range k).length := by
    intro k hk
    obtain ⟨r, hp⟩ := hpub k hk
    rw [range_of_published hp, clsAt_length hW hcl hp]; rfl
  have hpf := pieces_fit e cls L code hnd hwid hf
  have hclen : ∀ k r, publishedAt e k r → (c k).length = r.stop - r.start := by
    intro k r hp
    simp only [c]
    by_cases hk : k ∈ L
    · rw [if_pos hk]
      have := fitsClasses_len (hpf k hk)
      rw [← this, range_of_published hp, clsAt_length hW hcl hp]
    · rw [if_neg hk, List.length_replicate, range_of_published hp]; rfl
  have hfill : (cls.map fillChar).length = e.bbanLength := by rw [List.length_map]; exact hcl
  refine ⟨overlayAll e c L (cls.map fillChar), ?_, ?_, ?_⟩
  · -- it fits the structure
    unfold fits; rw [hps]
    refine fits_overlayAll hW c L _ (fun k hk r hp => ?_) (fits_filler cls)
    simp only [c, if_pos hk]
    have := hpf k hk
    rwa [range_of_published hp] at this
  · exact (overlayAll_other hW c hclen L _ ⟨0, 0⟩ hfill (by simp) (fun k _ r' _ => Or.inl (by simp))).1
  · -- the key read off it is `code`
    unfold lookupKey
    rw [hL, componentsOf_map', ← join_pieces e L code hnd (by
      have := fitsClasses_len hf
      rw [← this, List.length_flatMap]
      congr 1
      apply List.map_congr_left
      intro k hk; exact hwid k hk)]
    congr 1
    apply List.map_congr_left
    intro k hk
    obtain ⟨r, hp⟩ := hpub k hk
    have hbd := hW.bounds (k, r) (mem_of_lookup hp)
    simp only at hbd
    have hlen := (overlayAll_other hW c hclen L (cls.map fillChar) ⟨0, 0⟩ hfill (by simp)
      (fun k _ r' _ => Or.inl (by simp))).1
    rw [range_of_published hp]
    simp only [getSlice, hlen, show (decide (r.start < e.bbanLength) && decide (r.stop ≤ e.bbanLength)) = true
      by simp; omega, ↓reduceIte]
    rw [overlayAll_same hW c hclen L _ hnd hfill k hk r hp]
    simp only [c, if_pos hk]
where
  componentsOf_map' {e : Country} {b : Str} : ∀ ks : List Component,
      componentsOf e b ks = ks.map (fun k => getSlice b (e.range k).start (some (e.range k).stop))
    | [] => rfl
    | k :: t => by simp [componentsOf, componentsOf_map' t]

end SV
