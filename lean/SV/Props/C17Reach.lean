/-
  C17 (last sentence) — "every listed bank can occur in a valid IBAN and is found again from that
  IBAN".

  `bank_reachable` (generic: every well-formed table, every registry): for an entry of the registry
  whose bank code fits the classes of the country's bank-identifying field there is a valid IBAN of
  that country whose `bank` lookup returns the first entry the registry lists for that (country,
  bank code) pair.  `live_rows_reachable`: the hypothesis holds for every row of the regenerated
  bank table (the per-chunk obligations of `SV.Gen.Banks*`) and the live country table.
-/
import SV.Proofs.Reach
import SV.Props.C17
import SV.Props.C02
import SV.Props.C08EndToEnd
namespace SV.Props.C17
open SV Spec

/-- Decidable: the bank-identifying components of every country are distinct, and published when
    the country publishes positions at all and lists them. -/
def lookupCompsOk (T : Table) : Bool :=
  T.all (fun e => decide ((e.bicLookup.getD [.bankCode]).Nodup))

theorem keyClasses_eq {e : Country} {l : List (Nat × SClass)} (hps : parseSpec e.bbanSpec = some l) :
    keyClasses e = some ((e.bicLookup.getD [.bankCode]).flatMap
      (fun k => clsAt (expandSpec l) (e.range k))) := by
  unfold keyClasses; rw [hps]; rfl

/-- A component whose classes are not empty is published (an unpublished one has the empty range). -/
theorem published_of_nonempty_cls {e : Country} {cls : List SClass} {k : Component}
    (h : clsAt cls (e.range k) ≠ []) : ∃ r, publishedAt e k r := by
  cases hq : (e.positions.getD []).lookup k with
  | some r => exact ⟨r, hq⟩
  | none =>
    rw [range_unpublished hq] at h
    simp [clsAt] at h

/-- **A listed bank is reachable** (generic). -/
theorem bank_reachable (X : Ctx) (hU : X.U.WF) (hT : X.T.WF) {cc : Str} {e : Country}
    {l : List (Nat × SClass)} (hl : X.T.lookup cc = some e) (hps : parseSpec e.bbanSpec = some l)
    (hnb : clsAlnum (expandSpec l) = true)
    (hnd : (e.bicLookup.getD [.bankCode]).Nodup)
    (hpub : ∀ k ∈ e.bicLookup.getD [.bankCode], ∃ r, publishedAt e k r)
    {x : BankEntry} (hx : x ∈ X.R) (hcc : x.countryCode = cc) (hne : x.bankCode ≠ [])
    (hfit : ∀ cls, keyClasses e = some cls → fitsClasses cls x.bankCode = true) :
    ∃ i y, IBAN.new X i false false = .ok i ∧ i.take 2 = cc ∧
      BBAN.bank X cc (i.drop 4) = .ok (some y) ∧ y ∈ X.R ∧ y.countryCode = cc ∧
      y.bankCode = x.bankCode := by
  have hW := hT e (Table.lookup_mem hl).1
  have hf := hfit _ (keyClasses_eq hps)
  obtain ⟨b, hfits, hblen, hkey⟩ := reachable hW hps hnd hpub hf
  have hAb : allAlnum b = true := by
    have hf' := hfits; simp only [fits, hps] at hf'
    exact alnum_of_fits hf' hnb
  have h32 : (32 : Nat) ∉ b := by
    intro hm
    simp only [allAlnum, List.all_eq_true] at hAb
    have := hAb 32 hm
    simp [isAsciiAlnumUpper, isAsciiDigit, isAsciiUpper] at this
  have hfb := C02.from_bban X hU hT hl hfits h32
  have hbc : Compact X.U b := compact_of_allAlnum hU hAb
  obtain ⟨_, htake, hdrop, _, hnew⟩ := C08.fromBban_ok X hU hT hl hbc hfb
  refine ⟨cc ++ fmt02 (checkDigits cc b) ++ b, ?_⟩
  -- the registry lists at least `x` under the key, so the lookup returns the first listed entry
  have hccne : cc ≠ [] := by
    obtain ⟨a1, a2, hcd, _, _⟩ := hW.code
    rw [← (Table.lookup_mem hl).2, hcd]; simp
  have hmemf : x ∈ X.R.filter (fun y => y.countryCode == cc && y.bankCode == x.bankCode) := by
    simp [List.mem_filter, hx, hcc]
  cases hfl : X.R.filter (fun y => y.countryCode == cc && y.bankCode == x.bankCode) with
  | nil => rw [hfl] at hmemf; cases hmemf
  | cons y t =>
    have hy : y ∈ X.R.filter (fun y => y.countryCode == cc && y.bankCode == x.bankCode) := by
      rw [hfl]; simp
    simp only [List.mem_filter, Bool.and_eq_true, beq_iff_eq] at hy
    refine ⟨y, hnew, htake, ?_, hy.1, hy.2.1, hy.2.2⟩
    rw [hdrop]
    unfold BBAN.bank bbanSpec
    rw [hl]
    simp only [Res.ok_bind, hkey, Registry.byBankCode]
    have hcond : (cc = [] || x.bankCode = []) = false := by simp [hccne, hne]
    simp only [hcond, Bool.false_eq_true, ↓reduceIte, hfl]
    rfl

/-! ### Instance: every row of the regenerated bank table -/

theorem live_lookup_comps_ok : lookupCompsOk Gen.table = true := by decide +kernel

/-- The bank-identifying components are published: those a country lists are (`table_wf`), and
    the default `bank_code` is whenever some non-empty key fits its classes. -/
theorem lookup_comps_published {e : Country} (hW : e.WF) {l : List (Nat × SClass)} {code : Str}
    (hne : code ≠ [])
    (hf : fitsClasses ((e.bicLookup.getD [.bankCode]).flatMap
      (fun k => clsAt (expandSpec l) (e.range k))) code = true) :
    ∀ k ∈ e.bicLookup.getD [.bankCode], ∃ r, publishedAt e k r := by
  intro k hk
  cases hb : e.bicLookup with
  | some L =>
    rw [hb] at hk
    have := hW.lookupDefined k (by rw [hb]; exact hk)
    obtain ⟨r, hr⟩ := Option.isSome_iff_exists.mp this
    exact ⟨r, hr⟩
  | none =>
    rw [hb] at hk hf
    simp only [Option.getD_none, List.mem_singleton] at hk
    subst hk
    simp only [Option.getD_none, List.flatMap_cons, List.flatMap_nil, List.append_nil] at hf
    apply published_of_nonempty_cls (cls := expandSpec l)
    intro h0
    rw [h0] at hf
    cases code with
    | nil => exact hne rfl
    | cons _ _ => simp [fitsClasses] at hf

/-- On the live tables: for every row of the regenerated bank table with a bank code, and every
    registry that contains an entry with that country and bank code, there is a valid IBAN of the
    country from which the `bank` lookup finds the first entry listed for that pair. -/
theorem live_rows_reachable {c : BankChunk} (hc : c ∈ Gen.bankChunks) {r : BankRow} (hr : r ∈ c.rows)
    (hne : r.code ≠ []) (R : Registry) {x : BankEntry} (hx : x ∈ R)
    (hcc : x.countryCode = c.country) (hcode : x.bankCode = r.code) :
    ∃ i y, IBAN.new (Gen.ctx R) i false false = .ok i ∧ i.take 2 = c.country ∧
      BBAN.bank (Gen.ctx R) c.country (i.drop 4) = .ok (some y) ∧ y ∈ R ∧
      y.countryCode = c.country ∧ y.bankCode = r.code := by
  have hall := live_banks_ok
  simp only [List.all_eq_true] at hall
  have hok := hall c hc
  obtain ⟨e, hl, hkc⟩ := chunk_country_known hok
  have hfit := row_bank_code_fits hok hr hne
  have hW := C01.table_wf e (Table.lookup_mem hl).1
  obtain ⟨l, _, hps, _, _, _⟩ := hW.spec
  have hkc' := keyClasses_eq hps
  rw [hkc] at hkc'
  have hcls : c.cls = (e.bicLookup.getD [.bankCode]).flatMap (fun k => clsAt (expandSpec l) (e.range k)) := by
    simpa using hkc'
  have hnd : (e.bicLookup.getD [.bankCode]).Nodup := by
    have := live_lookup_comps_ok
    simp only [lookupCompsOk, List.all_eq_true, decide_eq_true_eq] at this
    exact this e (Table.lookup_mem hl).1
  have hnb : clsAlnum (expandSpec l) = true := by
    have := C02.live_no_blank_class
    simp only [List.all_eq_true] at this
    have h1 := this e (Table.lookup_mem hl).1
    rw [hps] at h1
    simp only [clsAlnum, List.all_eq_true, bne_iff_ne, ne_eq]
    intro k hk hke
    subst hke
    simp only [Bool.not_eq_true', List.contains_eq_mem, decide_eq_false_iff_not] at h1
    exact h1 hk
  have hf' : fitsClasses ((e.bicLookup.getD [.bankCode]).flatMap
      (fun k => clsAt (expandSpec l) (e.range k))) x.bankCode = true := by rw [hcode, ← hcls]; exact hfit
  have := bank_reachable (Gen.ctx R) C10.unicode_wf C01.table_wf hl hps hnb hnd
    (lookup_comps_published hW (by rw [hcode]; exact hne) hf') hx hcc (by rw [hcode]; exact hne)
    (fun cls hk => by rw [hkc] at hk; cases hk; rw [hcode]; exact hfit)
  rw [hcode] at this
  exact this

/-! Non-vacuity: the live table has chunks, and the first row of the first chunk has a bank code. -/
example : (match Gen.bankChunks with
    | c :: _ => (match c.rows with | r :: _ => r.code != [] | [] => false)
    | [] => false) = true := by decide +kernel

end SV.Props.C17
