/-
  C03 — Every single typing error in a valid IBAN is detected.

  For every country table, every accepted compact IBAN of any country and length: replacing one
  character after the country code by a different character of the same kind (digit by digit,
  upper-case letter by upper-case letter), or swapping two adjacent different characters of the same
  kind — inside the BBAN, inside the check digits, the two country letters, or across the boundary
  between check digits and BBAN — yields a text that is NOT accepted.  Number theory on the model's
  letter-expanded number (97 is prime, 10 is a unit, every single-character delta is below 97,
  10^K ≢ 1 (mod 97) for 0 < K < 96); the model is tied to the code by the C01 correspondence.
-/
import SV.Proofs.ErrorDetect
import SV.Proofs.FromBban
import SV.Props.C01
namespace SV.Props.C03
open SV Spec

/-- Acceptance needs remainder 1 of the rearranged, letter-expanded number. -/
theorem residue_of_valid {T : Table} {c : Str} (h : isoValid T c = true) :
    numVal (c.drop 4 ++ c.take 4) 0 % 97 = 1 := by
  unfold isoValid at h
  cases hl : T.lookup (c.take 2) with
  | none => simp [hl] at h
  | some e =>
    simp only [hl, Bool.and_eq_true, beq_iff_eq] at h
    exact h.1.1.2

theorem invalid_of_residue {T : Table} {c : Str}
    (h : numVal (c.drop 4 ++ c.take 4) 0 % 97 ≠ 1) : isoValid T c = false := by
  cases hv : isoValid T c with
  | false => rfl
  | true => exact absurd (residue_of_valid hv) h

/-- Substitution inside the BBAN (any position, any BBAN length). -/
theorem subst_bban (T : Table) (a b d1 d2 : Nat) (pre post : Str) (x y : Nat)
    (hv : isoValid T (a :: b :: d1 :: d2 :: (pre ++ y :: post)) = true)
    (hk : sameKind x y = true) (hne : x ≠ y) :
    isoValid T (a :: b :: d1 :: d2 :: (pre ++ x :: post)) = false := by
  apply invalid_of_residue
  have h1 := residue_of_valid hv
  simp only [List.drop_succ_cons, List.drop_zero, List.take_succ_cons, List.take_zero,
    List.append_assoc, List.cons_append] at h1 ⊢
  have := subst_changes_residue pre (post ++ [a, b, d1, d2]) x y hk hne
  rw [h1] at this
  exact this

/-- Substitution of a check digit. -/
theorem subst_check_digit_1 (T : Table) (a b d2 : Nat) (rest : Str) (x y : Nat)
    (hv : isoValid T (a :: b :: y :: d2 :: rest) = true) (hk : sameKind x y = true) (hne : x ≠ y) :
    isoValid T (a :: b :: x :: d2 :: rest) = false := by
  apply invalid_of_residue
  have h1 := residue_of_valid hv
  simp only [List.drop_succ_cons, List.drop_zero, List.take_succ_cons, List.take_zero] at h1 ⊢
  have := subst_changes_residue (rest ++ [a, b]) [d2] x y hk hne
  simp only [List.append_assoc, List.cons_append, List.nil_append] at this
  rw [h1] at this
  exact this

theorem subst_check_digit_2 (T : Table) (a b d1 : Nat) (rest : Str) (x y : Nat)
    (hv : isoValid T (a :: b :: d1 :: y :: rest) = true) (hk : sameKind x y = true) (hne : x ≠ y) :
    isoValid T (a :: b :: d1 :: x :: rest) = false := by
  apply invalid_of_residue
  have h1 := residue_of_valid hv
  simp only [List.drop_succ_cons, List.drop_zero, List.take_succ_cons, List.take_zero] at h1 ⊢
  have := subst_changes_residue (rest ++ [a, b, d1]) [] x y hk hne
  simp only [List.append_assoc, List.cons_append, List.nil_append] at this
  rw [h1] at this
  exact this

/-- Adjacent transposition inside the BBAN. -/
theorem swap_bban (T : Table) (a b d1 d2 : Nat) (pre post : Str) (u v : Nat)
    (hv : isoValid T (a :: b :: d1 :: d2 :: (pre ++ u :: v :: post)) = true)
    (hk : sameKind u v = true) (hne : u ≠ v) :
    isoValid T (a :: b :: d1 :: d2 :: (pre ++ v :: u :: post)) = false := by
  apply invalid_of_residue
  have h1 := residue_of_valid hv
  simp only [List.drop_succ_cons, List.drop_zero, List.take_succ_cons, List.take_zero,
    List.append_assoc, List.cons_append] at h1 ⊢
  have := swap_changes_residue pre (post ++ [a, b, d1, d2]) u v hk hne
  rw [h1] at this
  exact fun h => this h.symm

/-- Transposition of the two check digits. -/
theorem swap_check_digits (T : Table) (a b : Nat) (rest : Str) (u v : Nat)
    (hv : isoValid T (a :: b :: u :: v :: rest) = true) (hk : sameKind u v = true) (hne : u ≠ v) :
    isoValid T (a :: b :: v :: u :: rest) = false := by
  apply invalid_of_residue
  have h1 := residue_of_valid hv
  simp only [List.drop_succ_cons, List.drop_zero, List.take_succ_cons, List.take_zero] at h1 ⊢
  have := swap_changes_residue (rest ++ [a, b]) [] u v hk hne
  simp only [List.append_assoc, List.cons_append, List.nil_append] at this
  rw [h1] at this
  exact fun h => this h.symm

/-- Transposition of the two country letters (whatever country the result names). -/
theorem swap_country_letters (T : Table) (d1 d2 : Nat) (rest : Str) (u v : Nat)
    (hv : isoValid T (u :: v :: d1 :: d2 :: rest) = true) (hk : sameKind u v = true) (hne : u ≠ v) :
    isoValid T (v :: u :: d1 :: d2 :: rest) = false := by
  apply invalid_of_residue
  have h1 := residue_of_valid hv
  simp only [List.drop_succ_cons, List.drop_zero, List.take_succ_cons, List.take_zero] at h1 ⊢
  have := swap_changes_residue rest [d1, d2] u v hk hne
  rw [h1] at this
  exact fun h => this h.symm

/-- The order of 10 modulo 97 is 96: no smaller positive power is 1. -/
theorem pow10_ne_one : ∀ K : Fin 96, 0 < K.val → 10 ^ K.val % 97 ≠ 1 := by decide +kernel

theorem digit_times_mod97 {d m : Nat} (hd0 : 0 < d) (hd : d < 10) (h : (d * m) % 97 = 0) : m % 97 = 0 := by
  have : d = 1 ∨ d = 2 ∨ d = 3 ∨ d = 4 ∨ d = 5 ∨ d = 6 ∨ d = 7 ∨ d = 8 ∨ d = 9 := by omega
  rcases this with rfl | rfl | rfl | rfl | rfl | rfl | rfl | rfl | rfl <;> omega

theorem boundary_arith (y D P M : Nat) (hD : 0 < D) (hD9 : D < 10) (hP : 1 ≤ P)
    (h : ((y + D) * P + M * 10 + y) % 97 = (y * P + M * 10 + (y + D)) % 97) : (P - 1) % 97 = 0 := by
  rw [Nat.add_mul] at h
  have hB : D ≤ D * P := Nat.le_mul_of_pos_right D hP
  have e : D * (P - 1) = D * P - D := by rw [Nat.mul_sub, Nat.mul_one]
  have : (D * (P - 1)) % 97 = 0 := by
    rw [e]
    generalize y * P = A at *
    generalize D * P = B at *
    omega
  exact digit_times_mod97 hD hD9 this

/-- Transposition across the boundary between the check digits and the BBAN (both digits),
    for IBANs of at most 34 characters. -/
theorem swap_boundary (T : Table) (a b d1 : Nat) (rest : Str) (u v : Nat)
    (hv : isoValid T (a :: b :: d1 :: u :: v :: rest) = true)
    (hu : isAsciiDigit u = true) (hvd : isAsciiDigit v = true) (hne : u ≠ v)
    (hlen : (a :: b :: d1 :: u :: v :: rest).length ≤ 34) :
    isoValid T (a :: b :: d1 :: v :: u :: rest) = false := by
  apply invalid_of_residue
  have h1 := residue_of_valid hv
  simp only [List.drop_succ_cons, List.drop_zero, List.take_succ_cons, List.take_zero,
    List.cons_append] at h1 ⊢
  -- r = v :: mid ++ [u]  versus  r' = u :: mid ++ [v]   with mid = rest ++ [a, b, d1]
  have shape : ∀ (p q : Nat), isAsciiDigit p = true → isAsciiDigit q = true →
      numVal (p :: (rest ++ [a, b, d1, q])) 0 =
        (p - 48) * 10 ^ (numLen (rest ++ [a, b, d1]) + 1) + numVal (rest ++ [a, b, d1]) 0 * 10 + (q - 48) := by
    intro p q hp hq
    have e : p :: (rest ++ [a, b, d1, q]) = [] ++ p :: ((rest ++ [a, b, d1]) ++ [q]) := by simp
    rw [e, numVal_split]
    have e2 : numVal ((rest ++ [a, b, d1]) ++ [q]) 0 = numVal (rest ++ [a, b, d1]) 0 * 10 + (q - 48) := by
      rw [numVal_append]; simp [numVal, hq]
    have e3 : numLen ((rest ++ [a, b, d1]) ++ [q]) = numLen (rest ++ [a, b, d1]) + 1 := by
      rw [numLen_append]; simp [numLen, hq]
    rw [e2, e3]
    simp only [numVal, cv, hp, ↓reduceIte, cw, Nat.zero_mul, Nat.zero_add]
    omega
  rw [shape v u hvd hu] at h1
  rw [shape u v hu hvd]
  have hK : numLen (rest ++ [a, b, d1]) + 1 < 96 := by
    have := numLen_le (rest ++ [a, b, d1])
    simp only [List.length_append, List.length_cons, List.length_nil] at this hlen
    omega
  have hp := pow10_ne_one ⟨numLen (rest ++ [a, b, d1]) + 1, hK⟩ (by simp)
  simp only at hp
  generalize numLen (rest ++ [a, b, d1]) + 1 = K at *
  generalize numVal (rest ++ [a, b, d1]) 0 = M at *
  simp only [isAsciiDigit, Bool.and_eq_true, decide_eq_true_eq] at hu hvd
  have hpos : 1 ≤ 10 ^ K := Nat.pow_pos (by decide)
  intro h2
  have hfin : (10 ^ K - 1) % 97 = 0 := by
    rcases Nat.lt_or_ge (u - 48) (v - 48) with hlt | hge
    · obtain ⟨D, hD⟩ : ∃ D, v - 48 = (u - 48) + D := ⟨v - 48 - (u - 48), by omega⟩
      rw [hD] at h1 h2
      exact boundary_arith (u - 48) D (10 ^ K) M (by omega) (by omega) hpos (by rw [h1, h2])
    · obtain ⟨D, hD⟩ : ∃ D, u - 48 = (v - 48) + D := ⟨u - 48 - (v - 48), by omega⟩
      rw [hD] at h1 h2
      exact boundary_arith (v - 48) D (10 ^ K) M (by omega) (by omega) hpos (by rw [h1, h2])
  omega

/-- The substitution theorem at the level of the constructor: a same-kind substitution inside
    the BBAN of an accepted IBAN is rejected by `IBAN(text)`. -/
theorem constructor_rejects_substitution (X : Ctx) (hU : X.U.WF) (hT : X.T.WF)
    (a b d1 d2 : Nat) (pre post : Str) (x y : Nat)
    (hacc : (IBAN.new X (a :: b :: d1 :: d2 :: (pre ++ y :: post)) false false).isOk = true)
    (hcompact : clean X.U (a :: b :: d1 :: d2 :: (pre ++ y :: post)) = a :: b :: d1 :: d2 :: (pre ++ y :: post))
    (hk : sameKind x y = true) (hne : x ≠ y) :
    (IBAN.new X (a :: b :: d1 :: d2 :: (pre ++ x :: post)) false false).isOk = false := by
  have hv := (C01.accept_iff X hU hT _).mp hacc
  rw [hcompact] at hv
  have hrej := subst_bban X.T a b d1 d2 pre post x y hv hk hne
  -- the mutated text is compact too: same characters except `x`, which is a digit or upper-case letter
  have hc : Compact X.U (a :: b :: d1 :: d2 :: (pre ++ y :: post)) := by
    rw [← hcompact]; exact compact_clean hU _
  have hx : isAsciiAlnumUpper x = true := by
    simp only [sameKind, Bool.or_eq_true, Bool.and_eq_true] at hk
    simp only [isAsciiAlnumUpper, Bool.or_eq_true]
    rcases hk with h | h
    · exact Or.inl h.1
    · exact Or.inr h.1
  have hcx : Compact X.U [x] := compact_of_allAlnum hU (by simp [allAlnum, hx])
  have hc' : Compact X.U (a :: b :: d1 :: d2 :: (pre ++ x :: post)) := by
    intro z hz
    simp only [List.mem_cons, List.mem_append] at hz
    rcases hz with h | h | h | h | h | h | h
    · exact hc z (by simp [h])
    · exact hc z (by simp [h])
    · exact hc z (by simp [h])
    · exact hc z (by simp [h])
    · exact hc z (by simp [h])
    · exact hcx z (by simp [h])
    · exact hc z (by simp [h])
  cases hres : (IBAN.new X (a :: b :: d1 :: d2 :: (pre ++ x :: post)) false false).isOk with
  | false => rfl
  | true =>
    have := (C01.accept_iff X hU hT _).mp hres
    rw [clean_of_compact hc', hrej] at this
    cases this

end SV.Props.C03
