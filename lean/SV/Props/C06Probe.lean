/-
  C06 — tie between the model of the national algorithm classes and the live objects: the
  recorded outcomes of `compute` / `validate` of every registered national algorithm on a fixed,
  systematic input set (`tools/gen.py: probe_inputs` — unit vectors over every position and every
  character of its class, seeded random inputs with computed and with random check values,
  ill-formed inputs) are reproduced by the model.  Kernel-checked correspondence, regenerated on
  every run; NOT a theorem about all inputs (those are in `C06.lean` and `C06Rules.lean`).  A
  changed weight, table entry, modulus or special case in a national algorithm class changes a
  recorded outcome and this obligation no longer checks.
-/
import SV.Gen.ProbeNatAll
namespace SV.Props.C06

theorem live_probes_reproduced :
    Gen.probesNat.all (fun c => c.all (probeOk Gen.unicode Gen.algoTable)) = true := Gen.probesNat_ok

end SV.Props.C06
