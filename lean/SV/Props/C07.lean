/-
  C07 — German account numbers are judged by the Bundesbank method of their bank.

  * `SV.Props.C07Plain`, `SV.Props.C07Special`: for 37 of the 39 implemented methods, for ALL ten
    digits, the engine instantiated with the class parameters regenerated from the live tree returns
    a verdict and accepts exactly when the published rule (SV.Spec.Germany) does — whatever the
    incoming scratch state.  Methods 24 and 68 are not proved in Lean (their rules branch on the
    number of leading zeros in a way that needs a larger case analysis); they are covered by the
    correspondence stream and by the independent reference `tools/natref.py`.
  * this file: the dispatch from bank code to method, acceptance for unlisted banks and for methods
    that are not implemented, and independence of anything but method and account number.
-/
import SV.Props.C07Plain
import SV.Props.C07Special
import SV.Props.C06
namespace SV.Props.C07
open SV Spec

/-- Dispatch: the method is the one named by the FIRST registry entry for the BBAN's bank code
    (`default` when there is no entry or it names none); a method without an implementation, and
    an unlisted bank, are accepted; otherwise the verdict is that method's verdict on the fields
    it declares. -/
theorem dispatch (X : Ctx) {cc b : Str} {e : Country} (hl : X.T.lookup cc = some e) :
    BBAN.validateNational X cc b =
      let name := match (X.R.byBankCode cc (lookupKey e b)) with
        | some (entry :: _) => entry.checksumAlgo.getD strDefault
        | _ => strDefault
      match X.A.get (cc ++ [colon] ++ name) with
      | none => .ok true
      | some a =>
        (a.ref.validate X.U (componentsOf e b a.accepts)
          (getSlice b (e.range .nationalChecksumDigits).start
            (some (e.range .nationalChecksumDigits).stop))).bind
          (fun ok => if ok then .ok true else .err .invalidBBANChecksum) := by
  unfold BBAN.validateNational BBAN.bank bbanSpec
  rw [hl]
  simp only [Res.ok_bind]
  cases hb : X.R.byBankCode cc (lookupKey e b) with
  | none =>
    simp only [Res.pure_eq, Res.ok_bind]
    cases X.A.get (cc ++ [colon] ++ strDefault) <;> rfl
  | some l =>
    cases l with
    | nil =>
      simp only [Res.pure_eq, Res.ok_bind]
      cases X.A.get (cc ++ [colon] ++ strDefault) <;> rfl
    | cons x t =>
      simp only [Res.pure_eq, Res.ok_bind]
      cases X.A.get (cc ++ [colon] ++ x.checksumAlgo.getD strDefault) <;> rfl

/-- German IBANs of unlisted banks are accepted (there is no `DE:default` algorithm), and so are
    banks whose method is not implemented. -/
theorem unlisted_or_unimplemented_accepted (X : Ctx) {cc b : Str} {e : Country}
    (hl : X.T.lookup cc = some e)
    (h : ∀ name, (match (X.R.byBankCode cc (lookupKey e b)) with
        | some (entry :: _) => entry.checksumAlgo.getD strDefault
        | _ => strDefault) = name → X.A.get (cc ++ [colon] ++ name) = none) :
    BBAN.validateNational X cc b = .ok true := by
  rw [dispatch X hl]
  simp only
  rw [h _ rfl]

/-- Instance facts: no `DE:default` is registered; the German methods read the account code only;
    the account code is `bban[8:18]` and the bank-identifying field is `bban[0:8]`. -/
theorem live_no_de_default : (Gen.algoTable.get (C06.bytes "DE:default")).isNone = true := by
  decide +kernel

theorem live_de_accepts_account_only :
    (Gen.algoTable.filter (fun a => match a.ref with | .de _ => true | _ => false)).all
      (fun a => a.accepts == [Component.accountCode]) = true := by decide +kernel

theorem live_de_positions :
    (match Gen.table.lookup (C06.bytes "DE") with
     | some e => e.range .accountCode == ⟨8, 18⟩ && e.range .bankCode == ⟨0, 8⟩ &&
         e.bicLookup.isNone && e.bbanLength == 18
     | none => false) = true := by decide +kernel

/-- The implemented methods are exactly the 39 of the property. -/
theorem live_de_methods :
    (Gen.algoTable.filter (fun a => match a.ref with | .de _ => true | _ => false)).map (·.key) =
    (["00", "01", "02", "03", "04", "05", "06", "07", "08", "09", "10", "11", "13", "14", "15", "16",
      "17", "18", "19", "20", "21", "22", "23", "24", "25", "26", "28", "32", "33", "34", "38", "60",
      "61", "63", "68", "76", "88", "91", "99"].map (fun m => C06.bytes ("DE:" ++ m))) := by
  decide +kernel

/-- "The verdict depends on nothing but the method and the account number": in particular not on
    the scratch state left behind by earlier computations (instance for method 25, the method
    whose `validate` reads the scratch state after `compute`). -/
theorem verdict_independent_of_scratch (U : Unicode) (hU : U.WF) (d1 d2 d3 d4 d5 d6 d7 d8 d9 d10 : Nat)
    (h1 : d1 < 10) (h2 : d2 < 10) (h3 : d3 < 10) (h4 : d4 < 10) (h5 : d5 < 10) (h6 : d6 < 10)
    (h7 : d7 < 10) (h8 : d8 < 10) (h9 : d9 < 10) (h10 : d10 < 10) (sc sc' : Scratch) :
    deAccepts (Gen.de_DE_25.validateM U [acct d1 d2 d3 d4 d5 d6 d7 d8 d9 d10] sc).2 =
    deAccepts (Gen.de_DE_25.validateM U [acct d1 d2 d3 d4 d5 d6 d7 d8 d9 d10] sc').2 := by
  rw [(de25 U hU d1 d2 d3 d4 d5 d6 d7 d8 d9 d10 h1 h2 h3 h4 h5 h6 h7 h8 h9 h10 sc).2,
    (de25 U hU d1 d2 d3 d4 d5 d6 d7 d8 d9 d10 h1 h2 h3 h4 h5 h6 h7 h8 h9 h10 sc').2]

end SV.Props.C07
