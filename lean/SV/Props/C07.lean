/-
  C07 — German account numbers are judged by the Bundesbank method of their bank.

  * `SV.Props.C07Plain`, `SV.Props.C07Special`: for all 39 implemented methods, for ALL ten
    digits, the engine instantiated with the class parameters regenerated from the live tree returns
    a verdict and accepts exactly when the published rule (SV.Spec.Germany) does — whatever the
    incoming scratch state.  (Methods 24 and 68 branch on the number of leading zeros; their proofs
    are zero-prefix case trees, the text of 68 is written by tools/mk_de68.py.)
  * this file: the dispatch from bank code to method, acceptance for unlisted banks and for methods
    that are not implemented, and independence of anything but method and account number.
-/
import SV.Props.C07Plain
import SV.Props.C07Special
import SV.Props.C06
namespace SV.Props.C07
open SV Spec

/-- Dispatch: the method is the one named by the FIRST registry entry for the BBAN's bank code
    (`default` when there is no entry or it names none); a method without an implementation, and
    an unlisted bank, are accepted; otherwise the verdict is that method's verdict on the fields
    it declares. -/
theorem dispatch (X : Ctx) {cc b : Str} {e : Country} (hl : X.T.lookup cc = some e) :
    BBAN.validateNational X cc b =
      let name := match (X.R.byBankCode cc (lookupKey e b)) with
        | some (entry :: _) => entry.checksumAlgo.getD strDefault
        | _ => strDefault
      match X.A.get (cc ++ [colon] ++ name) with
      | none => .ok true
      | some a =>
        (a.ref.validate X.U (componentsOf e b a.accepts)
          (getSlice b (e.range .nationalChecksumDigits).start
            (some (e.range .nationalChecksumDigits).stop))).bind
          (fun ok => if ok then .ok true else .err .invalidBBANChecksum) := by
  unfold BBAN.validateNational BBAN.bank bbanSpec
  rw [hl]
  simp only [Res.ok_bind]
  cases hb : X.R.byBankCode cc (lookupKey e b) with
  | none =>
    simp only [Res.pure_eq, Res.ok_bind]
    cases X.A.get (cc ++ [colon] ++ strDefault) <;> rfl
  | some l =>
    cases l with
    | nil =>
      simp only [Res.pure_eq, Res.ok_bind]
      cases X.A.get (cc ++ [colon] ++ strDefault) <;> rfl
    | cons x t =>
      simp only [Res.pure_eq, Res.ok_bind]
      cases X.A.get (cc ++ [colon] ++ x.checksumAlgo.getD strDefault) <;> rfl

/-- German IBANs of unlisted banks are accepted (there is no `DE:default` algorithm), and so are
    banks whose method is not implemented. -/
theorem unlisted_or_unimplemented_accepted (X : Ctx) {cc b : Str} {e : Country}
    (hl : X.T.lookup cc = some e)
    (h : ∀ name, (match (X.R.byBankCode cc (lookupKey e b)) with
        | some (entry :: _) => entry.checksumAlgo.getD strDefault
        | _ => strDefault) = name → X.A.get (cc ++ [colon] ++ name) = none) :
    BBAN.validateNational X cc b = .ok true := by
  rw [dispatch X hl]
  simp only
  rw [h _ rfl]

/-- Instance facts: no `DE:default` is registered; the German methods read the account code only;
    the account code is `bban[8:18]` and the bank-identifying field is `bban[0:8]`. -/
theorem live_no_de_default : (Gen.algoTable.get (C06.bytes "DE:default")).isNone = true := by
  decide +kernel

theorem live_de_accepts_account_only :
    (Gen.algoTable.filter (fun a => match a.ref with | .de _ => true | _ => false)).all
      (fun a => a.accepts == [Component.accountCode]) = true := by decide +kernel

theorem live_de_positions :
    (match Gen.table.lookup (C06.bytes "DE") with
     | some e => e.range .accountCode == ⟨8, 18⟩ && e.range .bankCode == ⟨0, 8⟩ &&
         e.bicLookup.isNone && e.bbanLength == 18
     | none => false) = true := by decide +kernel

/-- The implemented methods are exactly the 39 of the property. -/
theorem live_de_methods :
    (Gen.algoTable.filter (fun a => match a.ref with | .de _ => true | _ => false)).map (·.key) =
    (["00", "01", "02", "03", "04", "05", "06", "07", "08", "09", "10", "11", "13", "14", "15", "16",
      "17", "18", "19", "20", "21", "22", "23", "24", "25", "26", "28", "32", "33", "34", "38", "60",
      "61", "63", "68", "76", "88", "91", "99"].map (fun m => C06.bytes ("DE:" ++ m))) := by
  decide +kernel

/-- The parameter records of the live German methods, in table order. -/
def liveDEParams : List DEParams :=
  Gen.algoTable.filterMap (fun a => match a.ref with | .de p => some p | _ => none)

theorem live_de_params : liveDEParams = [Gen.de_DE_00, Gen.de_DE_01, Gen.de_DE_02, Gen.de_DE_03, Gen.de_DE_04, Gen.de_DE_05, Gen.de_DE_06, Gen.de_DE_07, Gen.de_DE_08, Gen.de_DE_09, Gen.de_DE_10, Gen.de_DE_11, Gen.de_DE_13, Gen.de_DE_14, Gen.de_DE_15, Gen.de_DE_16, Gen.de_DE_17, Gen.de_DE_18, Gen.de_DE_19, Gen.de_DE_20, Gen.de_DE_21, Gen.de_DE_22, Gen.de_DE_23, Gen.de_DE_24, Gen.de_DE_25, Gen.de_DE_26, Gen.de_DE_28, Gen.de_DE_32, Gen.de_DE_33, Gen.de_DE_34, Gen.de_DE_38, Gen.de_DE_60, Gen.de_DE_61, Gen.de_DE_63, Gen.de_DE_68, Gen.de_DE_76, Gen.de_DE_88, Gen.de_DE_91, Gen.de_DE_99] := by
  rfl

/-- Totality of the German national check: EVERY live method, on EVERY ten-digit account number,
    from EVERY scratch state, returns a verdict or the library's own `InvalidBBANChecksum` — never
    a foreign exception (`deVerdict` is false exactly on `crash`). -/
theorem live_de_total (U : Unicode) (hU : U.WF) (d1 d2 d3 d4 d5 d6 d7 d8 d9 d10 : Nat)
    (h1 : d1 < 10) (h2 : d2 < 10) (h3 : d3 < 10) (h4 : d4 < 10) (h5 : d5 < 10) (h6 : d6 < 10)
    (h7 : d7 < 10) (h8 : d8 < 10) (h9 : d9 < 10) (h10 : d10 < 10) (sc : Scratch) :
    ∀ p ∈ liveDEParams,
      deVerdict (p.validateM U [acct d1 d2 d3 d4 d5 d6 d7 d8 d9 d10] sc).2 = true := by
  intro p hp
  rw [live_de_params] at hp
  simp only [List.mem_cons, List.not_mem_nil, or_false] at hp
  rcases hp with rfl | rfl | rfl | rfl | rfl | rfl | rfl | rfl | rfl | rfl | rfl | rfl | rfl | rfl | rfl | rfl | rfl | rfl | rfl | rfl | rfl | rfl | rfl | rfl | rfl | rfl | rfl | rfl | rfl | rfl | rfl | rfl | rfl | rfl | rfl | rfl | rfl | rfl | rfl
  · exact (de00 U hU d1 d2 d3 d4 d5 d6 d7 d8 d9 d10 h1 h2 h3 h4 h5 h6 h7 h8 h9 h10 sc).1
  · exact (de01 U hU d1 d2 d3 d4 d5 d6 d7 d8 d9 d10 h1 h2 h3 h4 h5 h6 h7 h8 h9 h10 sc).1
  · exact (de02 U hU d1 d2 d3 d4 d5 d6 d7 d8 d9 d10 h1 h2 h3 h4 h5 h6 h7 h8 h9 h10 sc).1
  · exact (de03 U hU d1 d2 d3 d4 d5 d6 d7 d8 d9 d10 h1 h2 h3 h4 h5 h6 h7 h8 h9 h10 sc).1
  · exact (de04 U hU d1 d2 d3 d4 d5 d6 d7 d8 d9 d10 h1 h2 h3 h4 h5 h6 h7 h8 h9 h10 sc).1
  · exact (de05 U hU d1 d2 d3 d4 d5 d6 d7 d8 d9 d10 h1 h2 h3 h4 h5 h6 h7 h8 h9 h10 sc).1
  · exact (de06 U hU d1 d2 d3 d4 d5 d6 d7 d8 d9 d10 h1 h2 h3 h4 h5 h6 h7 h8 h9 h10 sc).1
  · exact (de07 U hU d1 d2 d3 d4 d5 d6 d7 d8 d9 d10 h1 h2 h3 h4 h5 h6 h7 h8 h9 h10 sc).1
  · exact (de08 U hU d1 d2 d3 d4 d5 d6 d7 d8 d9 d10 h1 h2 h3 h4 h5 h6 h7 h8 h9 h10 sc).1
  · rw [de09 U _ sc]; rfl
  · exact (de10 U hU d1 d2 d3 d4 d5 d6 d7 d8 d9 d10 h1 h2 h3 h4 h5 h6 h7 h8 h9 h10 sc).1
  · exact (de11 U hU d1 d2 d3 d4 d5 d6 d7 d8 d9 d10 h1 h2 h3 h4 h5 h6 h7 h8 h9 h10 sc).1
  · exact (de13 U hU d1 d2 d3 d4 d5 d6 d7 d8 d9 d10 h1 h2 h3 h4 h5 h6 h7 h8 h9 h10 sc).1
  · exact (de14 U hU d1 d2 d3 d4 d5 d6 d7 d8 d9 d10 h1 h2 h3 h4 h5 h6 h7 h8 h9 h10 sc).1
  · exact (de15 U hU d1 d2 d3 d4 d5 d6 d7 d8 d9 d10 h1 h2 h3 h4 h5 h6 h7 h8 h9 h10 sc).1
  · exact (de16 U hU d1 d2 d3 d4 d5 d6 d7 d8 d9 d10 h1 h2 h3 h4 h5 h6 h7 h8 h9 h10 sc).1
  · exact (de17 U hU d1 d2 d3 d4 d5 d6 d7 d8 d9 d10 h1 h2 h3 h4 h5 h6 h7 h8 h9 h10 sc).1
  · exact (de18 U hU d1 d2 d3 d4 d5 d6 d7 d8 d9 d10 h1 h2 h3 h4 h5 h6 h7 h8 h9 h10 sc).1
  · exact (de19 U hU d1 d2 d3 d4 d5 d6 d7 d8 d9 d10 h1 h2 h3 h4 h5 h6 h7 h8 h9 h10 sc).1
  · exact (de20 U hU d1 d2 d3 d4 d5 d6 d7 d8 d9 d10 h1 h2 h3 h4 h5 h6 h7 h8 h9 h10 sc).1
  · exact (de21 U hU d1 d2 d3 d4 d5 d6 d7 d8 d9 d10 h1 h2 h3 h4 h5 h6 h7 h8 h9 h10 sc).1
  · exact (de22 U hU d1 d2 d3 d4 d5 d6 d7 d8 d9 d10 h1 h2 h3 h4 h5 h6 h7 h8 h9 h10 sc).1
  · exact (de23 U hU d1 d2 d3 d4 d5 d6 d7 d8 d9 d10 h1 h2 h3 h4 h5 h6 h7 h8 h9 h10 sc).1
  · exact (de24 U hU d1 d2 d3 d4 d5 d6 d7 d8 d9 d10 h1 h2 h3 h4 h5 h6 h7 h8 h9 h10 sc).1
  · exact (de25 U hU d1 d2 d3 d4 d5 d6 d7 d8 d9 d10 h1 h2 h3 h4 h5 h6 h7 h8 h9 h10 sc).1
  · exact (de26 U hU d1 d2 d3 d4 d5 d6 d7 d8 d9 d10 h1 h2 h3 h4 h5 h6 h7 h8 h9 h10 sc).1
  · exact (de28 U hU d1 d2 d3 d4 d5 d6 d7 d8 d9 d10 h1 h2 h3 h4 h5 h6 h7 h8 h9 h10 sc).1
  · exact (de32 U hU d1 d2 d3 d4 d5 d6 d7 d8 d9 d10 h1 h2 h3 h4 h5 h6 h7 h8 h9 h10 sc).1
  · exact (de33 U hU d1 d2 d3 d4 d5 d6 d7 d8 d9 d10 h1 h2 h3 h4 h5 h6 h7 h8 h9 h10 sc).1
  · exact (de34 U hU d1 d2 d3 d4 d5 d6 d7 d8 d9 d10 h1 h2 h3 h4 h5 h6 h7 h8 h9 h10 sc).1
  · exact (de38 U hU d1 d2 d3 d4 d5 d6 d7 d8 d9 d10 h1 h2 h3 h4 h5 h6 h7 h8 h9 h10 sc).1
  · exact (de60 U hU d1 d2 d3 d4 d5 d6 d7 d8 d9 d10 h1 h2 h3 h4 h5 h6 h7 h8 h9 h10 sc).1
  · exact (de61 U hU d1 d2 d3 d4 d5 d6 d7 d8 d9 d10 h1 h2 h3 h4 h5 h6 h7 h8 h9 h10 sc).1
  · exact (de63 U hU d1 d2 d3 d4 d5 d6 d7 d8 d9 d10 h1 h2 h3 h4 h5 h6 h7 h8 h9 h10 sc).1
  · exact (de68 U hU d1 d2 d3 d4 d5 d6 d7 d8 d9 d10 h1 h2 h3 h4 h5 h6 h7 h8 h9 h10 sc).1
  · exact (de76 U hU d1 d2 d3 d4 d5 d6 d7 d8 d9 d10 h1 h2 h3 h4 h5 h6 h7 h8 h9 h10 sc).1
  · exact (de88 U hU d1 d2 d3 d4 d5 d6 d7 d8 d9 d10 h1 h2 h3 h4 h5 h6 h7 h8 h9 h10 sc).1
  · rw [de91 U hU d1 d2 d3 d4 d5 d6 d7 d8 d9 d10 h1 h2 h3 h4 h5 h6 h7 h8 h9 h10 sc]; rfl
  · exact (de99 U hU d1 d2 d3 d4 d5 d6 d7 d8 d9 d10 h1 h2 h3 h4 h5 h6 h7 h8 h9 h10 sc).1

/-- "The verdict depends on nothing but the method and the account number": in particular not on
    the scratch state left behind by earlier computations (instance for method 25, the method
    whose `validate` reads the scratch state after `compute`). -/
theorem verdict_independent_of_scratch (U : Unicode) (hU : U.WF) (d1 d2 d3 d4 d5 d6 d7 d8 d9 d10 : Nat)
    (h1 : d1 < 10) (h2 : d2 < 10) (h3 : d3 < 10) (h4 : d4 < 10) (h5 : d5 < 10) (h6 : d6 < 10)
    (h7 : d7 < 10) (h8 : d8 < 10) (h9 : d9 < 10) (h10 : d10 < 10) (sc sc' : Scratch) :
    deAccepts (Gen.de_DE_25.validateM U [acct d1 d2 d3 d4 d5 d6 d7 d8 d9 d10] sc).2 =
    deAccepts (Gen.de_DE_25.validateM U [acct d1 d2 d3 d4 d5 d6 d7 d8 d9 d10] sc').2 := by
  rw [(de25 U hU d1 d2 d3 d4 d5 d6 d7 d8 d9 d10 h1 h2 h3 h4 h5 h6 h7 h8 h9 h10 sc).2,
    (de25 U hU d1 d2 d3 d4 d5 d6 d7 d8 d9 d10 h1 h2 h3 h4 h5 h6 h7 h8 h9 h10 sc').2]

/-- "The method of its bank": the dispatch reads the FIRST entry listed for the bank code.  When all
    entries listed for the pair name the same method (or none names one), that is the method every
    listed entry names — for every registry. -/
theorem first_entry_names_the_method (R : Registry) (cc code : Str) (l : List BankEntry)
    (h : R.byBankCode cc code = some l)
    (hu : ∀ x ∈ l, ∀ y ∈ l, x.checksumAlgo = y.checksumAlgo) :
    ∃ e t, l = e :: t ∧
      ∀ x ∈ R, x.countryCode = cc → x.bankCode = code → x.checksumAlgo = e.checksumAlgo := by
  unfold Registry.byBankCode at h
  split at h
  · cases h
  · split at h
    · cases h
    · rename_i l' hne
      injection h with h
      subst h
      cases hl : R.filter (fun e => e.countryCode == cc && e.bankCode == code) with
      | nil => exact absurd hl (by simpa using hne)
      | cons e t =>
        refine ⟨e, t, rfl, ?_⟩
        intro x hx hc hb
        have hxl : x ∈ e :: t := by
          rw [← hl, List.mem_filter]
          exact ⟨hx, by simp [hc, hb]⟩
        exact hu x (hl ▸ hxl) e (hl ▸ List.mem_cons_self)

/-- Instance obligation: every method id in the bank data is a two-character text (the form of a
    Bundesbank method id, and the form of the keys the methods are registered under), so that "listed
    with a method the library implements" is the same as "the id is a registered key". -/
theorem live_method_ids_wellformed : Gen.malformedMethodIds = [] := by decide

/-- Non-vacuity of `first_entry_names_the_method`: a registry with two entries of one pair naming the same
    method satisfies its hypotheses. -/
example :
    let e1 : BankEntry := ⟨[68, 69], [49], some [65], false, some [48, 54], [], []⟩
    let e2 : BankEntry := ⟨[68, 69], [49], some [66], true, some [48, 54], [], []⟩
    Registry.byBankCode [e1, e2] [68, 69] [49] = some [e1, e2] ∧
      (∀ x ∈ [e1, e2], ∀ y ∈ [e1, e2], x.checksumAlgo = y.checksumAlgo) := by
  decide

/-- All `checksum_algo` values listed for one bank code agree. -/
def methodsAgree (ms : List Nat) : Bool := ms.all (fun m => some m == ms.head?)

/-- Instance obligation on the regenerated registry: for every German bank code, all listed entries
    name the same method (or none does), so "the method of the bank" is the first entry's. -/
theorem live_de_methods_agree : Gen.deMethods.all (fun p => methodsAgree p.2) = true := by
  decide +kernel

end SV.Props.C07
