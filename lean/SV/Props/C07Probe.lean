/-
  C07 — tie between the model of the Bundesbank method classes and the live objects: the
  recorded outcomes of `compute` / `validate` of every registered German method on a fixed,
  systematic set of account numbers (`tools/gen.py: probe_inputs` — unit vectors over every
  position and digit, seeded random numbers with every check digit, numbers around every integer
  literal of `germany.py`, ill-formed inputs) are reproduced by the model.  Kernel-checked
  correspondence, regenerated on every run; NOT a theorem about all inputs (those are the 39
  method theorems).  A changed constant or special case inside a hook body, which the class
  parameters of `SV.Gen.Algorithms` do not show, changes a recorded outcome.
-/
import SV.Gen.ProbeDeAll
namespace SV.Props.C07

theorem live_probes_reproduced :
    Gen.probesDe.all (fun c => c.all (probeOk Gen.unicode Gen.algoTable)) = true := Gen.probesDe_ok

end SV.Props.C07
