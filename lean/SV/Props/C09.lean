/-
  C09 — Computed national check digits validate; parsing and rebuilding round-trips.

  Proved: for every algorithm whose `validate` is the inherited `compute(components) == expected`
  (all national algorithms except CZ/SK and IS — exactly the 19 countries of the property), any
  successfully computed check digits validate, for all component strings; together with the
  placement theorem of C08 (the fields the algorithm reads and the check-digit field are found
  unchanged in the assembled BBAN) this is "computing and validating agree"; the end-to-end form
  (every IBAN `generate` returns for one of the 19 countries passes national validation) is proved
  in `C09EndToEnd.lean`, as is parse → rebuild (`rebuild`).  Random draws are exercised by the
  correspondence stream (they funnel through `from_components`).
-/
import SV.Props.C08
import SV.Props.C06
namespace SV.Props.C09
open SV

/-- Whatever `compute` returns for some components, `validate` accepts for the same components. -/
theorem compute_validates (U : Unicode) (a : NatAlgo) (h1 : a ≠ .czsk) (h2 : a ≠ .is_)
    (cs : List Str) (d : Str) (h : a.compute U cs = .ok d) : a.validate U cs d = .ok true := by
  cases a <;> simp_all [NatAlgo.validate]

/-- The 19 countries with a dedicated check-digit field are exactly those registered for such an
    algorithm (instance fact on the regenerated registration table). -/
theorem live_computing_countries :
    ((Gen.algoTable.filter (fun a => match a.ref with
        | .nat .czsk => false | .nat .is_ => false | .nat _ => true | _ => false)).map (·.key)) =
    (["BA", "BE", "EE", "ES", "FI", "FR", "IT", "MC", "ME", "MK", "MR", "NO", "PL", "PT", "RS", "SI",
      "SM", "TL", "TN"].map (fun c => C06.bytes (c ++ ":default"))) := by decide +kernel

/-- For those countries the check-digit field and at least one field the algorithm reads are
    published (so that `from_components` writes the digits into a field of the BBAN). -/
theorem live_check_field_published :
    (Gen.algoTable.filter (fun a => match a.ref with
        | .nat .czsk => false | .nat .is_ => false | .nat _ => true | _ => false)).all
      (fun a => match Gen.table.lookup (a.key.take 2) with
        | some e => ((e.positions.getD []).lookup .nationalChecksumDigits).isSome
        | none => false) = true := by decide +kernel

end SV.Props.C09
