/-
  C13 — Random generation is always valid, honours pinned fields, and is reproducible.

  PARTIAL.  `BBAN.random` / `IBAN.random` are modelled as pure functions of the arguments and an
  explicit choice record (the bank index `random.choice` picked, the strings `rstr.xeger` returned).
  Proved: whatever the choice record is, `IBAN.random` never returns an invalid object — any result
  is accepted again by the validating constructor and is its own compact form; the only library
  errors are the documented overflow error and `InvalidCountryCode` for an unknown country; the
  result is a function of arguments and choice record (nothing else — no hash seed, no history).
  Not provable here: that `random.Random(seed)` and `rstr.xeger` are deterministic functions of the
  seed and honour the pattern.  Pinned-field read-back and listed-bank membership are proved in
  `C13Pinned.lean` (and exercised with recorded choice records).
-/
import SV.Model.Random
import SV.Props.C01
namespace SV.Props.C13
open SV

/-- A successfully constructed IBAN is accepted again, unchanged (construction is idempotent). -/
theorem new_idempotent (X : Ctx) (hU : X.U.WF) (s i : Str) (vb : Bool)
    (h : IBAN.new X s false vb = .ok i) : IBAN.new X i false vb = .ok i := by
  unfold IBAN.new at h ⊢
  simp only [Bool.false_eq_true, ↓reduceIte] at h ⊢
  cases hv : IBAN.validate X (clean X.U s) vb with
  | ok b =>
    rw [hv] at h
    have hi : i = clean X.U s := by simpa using h.symm
    rw [hi, clean_idem hU, hv]; rfl
  | err e => rw [hv] at h; cases h
  | crash c => rw [hv] at h; cases h

/-- **Never an invalid object**: for every country, registry mode, pinned components and every
    choice record, a returned IBAN is valid (the validating constructor accepts it and returns it). -/
theorem random_valid (X : Ctx) (hU : X.U.WF) (cc : Str) (useReg : Bool)
    (pinned : List (Component × Str)) (ch : Choice) (i : Str)
    (h : IBAN.random X cc useReg pinned ch = .ok i) : IBAN.new X i false false = .ok i := by
  unfold IBAN.random at h
  cases hb : BBAN.random X cc useReg pinned ch with
  | ok b =>
    rw [hb] at h
    simp only [Res.ok_bind] at h
    unfold IBAN.fromBban at h
    cases hd : isoDefaultCompute X.U [b, cc] with
    | ok dd =>
      rw [hd] at h
      simp only [Res.ok_bind] at h
      exact new_idempotent X hU _ i false h
    | err e => rw [hd] at h; cases h
    | crash c => rw [hd] at h; cases h
  | err e => rw [hb] at h; cases h
  | crash c => rw [hb] at h; cases h

theorem loop_errors (X : Ctx) (cc : Str) (e : Country) (bank : Option BankEntry)
    (pinned : List (Component × Str)) : ∀ (n : Nat) (xs : List Str) (k : Err),
    randomLoop X cc e bank pinned n xs = .err k → k = .generateRandomOverflow
  | 0, _, k, h => by simpa [randomLoop] using h.symm
  | _ + 1, [], k, h => by simpa [randomLoop] using h.symm
  | n + 1, x :: xs, k, h => by
    simp only [randomLoop] at h
    split at h
    · cases h
    · exact loop_errors X cc e bank pinned n xs k h
    · cases h

/-- The only library errors of BBAN generation are the documented overflow error and
    `InvalidCountryCode` (unknown country): errors of individual attempts never escape. -/
theorem bban_random_errors (X : Ctx) (cc : Str) (useReg : Bool) (pinned : List (Component × Str))
    (ch : Choice) (k : Err) (h : BBAN.random X cc useReg pinned ch = .err k) :
    k = .generateRandomOverflow ∨ k = .invalidCountryCode := by
  unfold BBAN.random bbanSpec at h
  cases hl : X.T.lookup cc with
  | none => rw [hl] at h; right; simpa using h.symm
  | some e =>
    rw [hl] at h
    simp only [Res.ok_bind] at h
    left
    split at h
    · split at h
      · cases h
      · simpa using h.symm
    · exact loop_errors X cc e _ pinned 100 ch.xegers k h

/-- Reproducibility, as far as the library is concerned: the result is determined by the arguments
    and the choice record. -/
theorem random_is_function (X : Ctx) (cc : Str) (useReg : Bool) (pinned : List (Component × Str))
    (ch ch' : Choice) (h1 : ch.bank = ch'.bank) (h2 : ch.xegers = ch'.xegers) :
    IBAN.random X cc useReg pinned ch = IBAN.random X cc useReg pinned ch' := by
  cases ch; cases ch'; simp only at h1 h2; subst h1 h2; rfl

end SV.Props.C13
