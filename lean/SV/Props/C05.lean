/-
  C05 — Validation is total and its errors name a defect that is really present.

  This file covers IBAN validation without national validation and BIC validation in both modes,
  for every text.  Totality of national validation (`validate_bban=True`) needs the national
  algorithms and the 39 German method theorems; it is in `SV.Props.C05National`.
-/
import SV.Proofs.IbanSound
import SV.Props.C01
import SV.Props.C04
namespace SV.Props.C05
open SV Spec

/-- IBAN: the validating constructor never lets a foreign exception escape. -/
theorem iban_new_no_crash (X : Ctx) (hU : X.U.WF) (hT : X.T.WF) (s : Str) (ai : Bool) :
    (IBAN.new X s ai false).isCrash = false := by
  unfold IBAN.new
  cases ai with
  | true => rfl
  | false =>
    simp only [Bool.false_eq_true, ↓reduceIte]
    rw [validate_eq_tree X (compact_clean hU s)]
    rcases C01.tree_total hT (clean X.U s) with h | ⟨k, h⟩ <;> rw [h] <;> rfl

/-- IBAN: `validate()` on an unvalidated object never lets a foreign exception escape. -/
theorem iban_validate_no_crash (X : Ctx) (hU : X.U.WF) (hT : X.T.WF) (s : Str) :
    (IBAN.validate X (clean X.U s) false).isCrash = false := by
  rw [validate_eq_tree X (compact_clean hU s)]
  rcases C01.tree_total hT (clean X.U s) with h | ⟨k, h⟩ <;> rw [h] <;> rfl

/-- IBAN: `is_valid` never raises at all. -/
theorem iban_is_valid_total (X : Ctx) (hU : X.U.WF) (hT : X.T.WF) (s : Str) :
    ∃ b, IBAN.isValid X (clean X.U s) = .ok b :=
  ⟨_, C01.isValid_eq X hU hT s⟩

/-- IBAN: validated construction succeeds exactly when `is_valid` on the unvalidated object is
    true. -/
theorem iban_agree (X : Ctx) (hU : X.U.WF) (hT : X.T.WF) (s : Str) :
    (IBAN.new X s false false).isOk = true ↔ IBAN.isValid X (clean X.U s) = .ok true := by
  rw [C01.accept_iff X hU hT, C01.isValid_eq X hU hT]
  constructor
  · intro h; rw [h]
  · intro h; exact (Res.ok.inj h)

/-- IBAN: an error names a defect that is present in the cleaned text —
    `InvalidCountryCode`: the first two characters are not a key of the table;
    `InvalidLength`: the length is not the country's; `InvalidStructure`: not "letters, two
    digits, BBAN fitting the structure"; `InvalidChecksumDigits`: structure fine, mod-97 fails. -/
theorem iban_error_sound (X : Ctx) (hU : X.U.WF) (hT : X.T.WF) (s : Str) (k : Err)
    (h : IBAN.new X s false false = .err k) : ibanDefect X.T k (clean X.U s) := by
  unfold IBAN.new at h
  simp only [Bool.false_eq_true, ↓reduceIte] at h
  rw [validate_eq_tree X (compact_clean hU s)] at h
  cases hv : validateTree X.U X.T (clean X.U s) with
  | ok b => rw [hv] at h; cases h
  | crash c => rw [hv] at h; cases h
  | err k' =>
    rw [hv] at h
    have : k' = k := by simpa using h
    subst this
    exact tree_err_sound hU hT (compact_clean hU s) hv

/-- …and conversely a defect-free text is accepted (no error is raised without a defect). -/
theorem iban_no_error_without_defect (X : Ctx) (hU : X.U.WF) (hT : X.T.WF) (s : Str)
    (h : isoValid X.T (clean X.U s) = true) : (IBAN.new X s false false).isOk = true :=
  (C01.accept_iff X hU hT s).mpr h

/-- BIC: validation never lets a foreign exception escape (both modes). -/
theorem bic_no_crash (X : BicCtx) (hX : X.WF) (s : Str) (ai strict : Bool) :
    (BIC.new X s ai strict).isCrash = false := by
  unfold BIC.new
  cases ai with
  | true => rfl
  | false =>
    simp only [Bool.false_eq_true, ↓reduceIte]
    rw [bic_validate_eq X hX]
    split
    · rfl
    · split
      · rfl
      · split <;> rfl

theorem bic_is_valid_total (X : BicCtx) (hX : X.WF) (c : Str) : ∃ b, BIC.isValid X c = .ok b :=
  ⟨_, C04.isValid_eq X hX c⟩

theorem bic_agree (X : BicCtx) (hX : X.WF) (s : Str) :
    (BIC.new X s false false).isOk = true ↔ BIC.isValid X (clean X.U s) = .ok true := by
  rw [C04.accept_iff X hX, C04.isValid_eq X hX]
  constructor
  · intro h; rw [h]
  · intro h; exact (Res.ok.inj h)

/-- BIC: an error names the defect that is present (`c` is the compact text): `InvalidLength` —
    the length is not 8 or 11; `InvalidStructure` — length fine, some character outside its
    class; `InvalidCountryCode` — length and characters fine, the country code is not an
    ISO 3166-1 alpha-2 code. -/
theorem bic_error_sound (X : BicCtx) (hX : X.WF) (c : Str) (strict : Bool) (k : Err)
    (h : BIC.validate X c strict = .err k) :
    (k = .invalidLength ∧ c.length ≠ 8 ∧ c.length ≠ 11) ∨
    (k = .invalidStructure ∧ (c.length = 8 ∨ c.length = 11) ∧
      iso9362 [(c.drop 4).take 2] strict c = false) ∨
    (k = .invalidCountryCode ∧ iso9362 [(c.drop 4).take 2] strict c = true ∧
      X.iso.contains ((c.drop 4).take 2) = false) := by
  rw [bic_validate_eq X hX] at h
  by_cases hlen : c.length ≠ 8 ∧ c.length ≠ 11
  · rw [if_pos hlen] at h
    left; exact ⟨by simpa using h.symm, hlen⟩
  · rw [if_neg hlen] at h
    have hl : c.length = 8 ∨ c.length = 11 := by omega
    cases h1 : iso9362 [(c.drop 4).take 2] strict c with
    | false =>
      rw [h1] at h
      right; left; exact ⟨by simpa using h.symm, hl, rfl⟩
    | true =>
      rw [h1] at h
      cases h2 : X.iso.contains ((c.drop 4).take 2) with
      | false =>
        rw [h2] at h
        right; right; exact ⟨by simpa using h.symm, rfl, rfl⟩
      | true =>
        rw [h2] at h
        simp at h

/-- The constructor raises exactly what `validate` raises on the compact text. -/
theorem bic_new_err (X : BicCtx) (s : Str) (strict : Bool) (k : Err) :
    BIC.new X s false strict = .err k ↔ BIC.validate X (clean X.U s) strict = .err k := by
  unfold BIC.new
  simp only [Bool.false_eq_true, ↓reduceIte]
  cases BIC.validate X (clean X.U s) strict <;> simp

end SV.Props.C05
