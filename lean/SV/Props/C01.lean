/-
  C01 — IBAN acceptance is exactly the ISO 13616 rule set over the bundled country table.

  Generic theorems: for every Unicode table with `Unicode.WF` and every country table with
  `Table.WF` (both decidable), and for **every** text (list of code points).  Instance
  obligations: the tables regenerated from the live tree satisfy `WF` (kernel evaluation).
-/
import SV.Proofs.IbanIso
import SV.Props.C10
namespace SV.Props.C01
open SV Spec

/-- Instance obligation: every entry of the effective country table is well-formed — the
    structure string parses, the live compiled pattern is its conversion, lengths add up,
    `iban_length ≤ 34`, the key is two upper-case letters, positions are in bounds and disjoint. -/
theorem table_wf : Gen.table.WF := Table.wf_of_wfb (by decide +kernel)

/-- `IBAN.new` succeeds iff validation of the compact form does. -/
theorem new_isOk (X : Ctx) (s : Str) (vb : Bool) :
    (IBAN.new X s false vb).isOk = true ↔ IBAN.validate X (clean X.U s) vb = .ok true := by
  unfold IBAN.new
  simp only [Bool.false_eq_true, ↓reduceIte]
  cases h : IBAN.validate X (clean X.U s) vb with
  | ok b =>
    -- `validate` only ever returns `True`
    have : b = true := by
      unfold IBAN.validate at h
      cases h1 : IBAN.validateCharacters X.U (clean X.U s) <;> simp [h1] at h
      cases h2 : IBAN.validateLength X.T (clean X.U s) <;> simp [h2] at h
      cases h3 : IBAN.validateFormat X.U X.T (clean X.U s) <;> simp [h3] at h
      cases h4 : IBAN.validateChecksum X.U (clean X.U s) <;> simp [h4] at h
      cases vb with
      | false => simpa using h.symm
      | true =>
        simp only [↓reduceIte] at h
        cases h5 : BBAN.validateNational X (IBAN.countryCode (clean X.U s))
          (IBAN.bban X.U (clean X.U s)) <;> simp [h5] at h
        exact h
    subst this; simp
  | err e => simp
  | crash c => simp

/-- **C01, constructor**: for every text, constructing a validated IBAN succeeds exactly when
    the cleaned text satisfies the ISO 13616 rule set over the country table. -/
theorem accept_iff (X : Ctx) (hU : X.U.WF) (hT : X.T.WF) (s : Str) :
    (IBAN.new X s false false).isOk = true ↔ isoValid X.T (clean X.U s) = true := by
  rw [new_isOk, validate_eq_tree X (compact_clean hU s)]
  exact tree_ok_iff_isoValid hU hT (compact_clean hU s)

/-- **C01, `validate()` on an unvalidated object**. -/
theorem validate_iff (X : Ctx) (hU : X.U.WF) (hT : X.T.WF) (s : Str) :
    IBAN.validate X (clean X.U s) false = .ok true ↔ isoValid X.T (clean X.U s) = true := by
  rw [validate_eq_tree X (compact_clean hU s)]
  exact tree_ok_iff_isoValid hU hT (compact_clean hU s)

/-- Under `Table.WF` the pipeline never ends in a foreign exception and never returns `False`. -/
theorem tree_total {U : Unicode} {T : Table} (hT : T.WF) (c : Str) :
    validateTree U T c = .ok true ∨ ∃ k, validateTree U T c = .err k := by
  unfold validateTree
  split
  · exact Or.inr ⟨_, rfl⟩
  · split
    · exact Or.inr ⟨_, rfl⟩
    · rename_i e hl
      split
      · exact Or.inr ⟨_, rfl⟩
      · have hW := hT e (Table.lookup_mem hl).1
        obtain ⟨l, _, _, hpat, _, _⟩ := hW.spec
        rw [hpat]
        simp only
        split
        · exact Or.inr ⟨_, rfl⟩
        · split
          · exact Or.inr ⟨_, rfl⟩
          · split
            · exact Or.inr ⟨_, rfl⟩
            · split
              · exact Or.inr ⟨_, rfl⟩
              · exact Or.inl rfl

/-- **C01, `is_valid`**: it never raises and is the ISO predicate. -/
theorem isValid_eq (X : Ctx) (hU : X.U.WF) (hT : X.T.WF) (s : Str) :
    IBAN.isValid X (clean X.U s) = .ok (isoValid X.T (clean X.U s)) := by
  unfold IBAN.isValid
  have hiff := validate_iff X hU hT s
  rw [validate_eq_tree X (compact_clean hU s)] at hiff ⊢
  rcases tree_total hT (clean X.U s) with h | ⟨k, h⟩
  · rw [h]; simp only [Res.catchLib]; rw [hiff.mp h]
  · rw [h]; simp only [Res.catchLib]
    cases hv : isoValid X.T (clean X.U s) with
    | false => rfl
    | true => rw [hiff.mpr hv] at h; cases h

/-- **C01, alphabet and length**: every accepted IBAN's compact form consists only of ASCII
    upper-case letters and digits and is at most 34 characters long. -/
theorem accepted_alphabet (X : Ctx) (hU : X.U.WF) (hT : X.T.WF) (s : Str)
    (h : (IBAN.new X s false false).isOk = true) :
    (clean X.U s).all isAsciiAlnumUpper = true ∧ (clean X.U s).length ≤ 34 := by
  rw [new_isOk, validate_eq_tree X (compact_clean hU s), tree_ok_iff] at h
  obtain ⟨_, e, hl, hlen, _, _, _, hA, _⟩ := h
  have hW := hT e (Table.lookup_mem hl).1
  constructor
  · rw [allAlnum_append, Bool.and_eq_true] at hA
    have : (clean X.U s) = (clean X.U s).take 4 ++ (clean X.U s).drop 4 := by simp
    rw [this, List.all_append, Bool.and_eq_true]
    exact ⟨hA.2, hA.1⟩
  · have := hW.maxLen; omega

/-- The same holds for the live tables. -/
theorem accept_iff_live (R : Registry) (s : Str) :
    (IBAN.new (Gen.ctx R) s false false).isOk = true ↔ isoValid Gen.table (clean Gen.unicode s) = true :=
  accept_iff (Gen.ctx R) C10.unicode_wf table_wf s

/-! Non-vacuity: concrete accepted and rejected texts on the live table. -/

-- "DE89370400440532013000"
example : isoValid Gen.table
    [68, 69, 56, 57, 51, 55, 48, 52, 48, 48, 52, 52, 48, 53, 51, 50, 48, 49, 51, 48, 48, 48] = true := by
  decide +kernel

-- "DE88…" (wrong check digits) and "DE00…"/alias are rejected
example : isoValid Gen.table
    [68, 69, 56, 56, 51, 55, 48, 52, 48, 48, 52, 52, 48, 53, 51, 50, 48, 49, 51, 48, 48, 48] = false := by
  decide +kernel

-- a text with a non-ASCII digit ("DE٨٩…", ARABIC-INDIC DIGIT EIGHT/NINE) is not accepted
example : isoValid Gen.table
    [68, 69, 0x668, 0x669, 51, 55, 48, 52, 48, 48, 52, 52, 48, 53, 51, 50, 48, 49, 51, 48, 48, 48] = false := by
  decide +kernel

end SV.Props.C01
