/-
  C09 (continued) — computing and validating national check digits agree, end to end.

  `build_validates`: whenever `from_components` returns a BBAN of the country's length for a country
  whose registered algorithm computes its check digits (the 19 countries of the property: decidable
  description `computingOk`, discharged on the live tables), `validate_national_checksum` accepts
  that BBAN — for every registry that names no method for the country, every component strings.
  `generate_validates`: every IBAN `IBAN.generate` returns for such a country also passes national
  validation (`IBAN(text, validate_bban=True)` returns it).
  `rebuild`: the components read off any compact BBAN of the country's length that passes the
  national check, handed to `from_components`, give back a BBAN of the same length that agrees
  with it at every position covered by a component (filler positions become `0`).
-/
import SV.Props.C08EndToEnd
import SV.Props.C09
namespace SV.Props.C09
open SV Spec

/-- Whatever a computing algorithm computes is non-empty. -/
theorem compute_nonempty (U : Unicode) (a : NatAlgo) (h1 : a ≠ .czsk) (cs : List Str) {d : Str}
    (h : a.compute U cs = .ok d) : d ≠ [] := by
  have hf : ∀ v, fmt02 v ≠ [] := by
    intro v; unfold fmt02; split
    · simp
    · intro hc
      simp only [natToDigits, List.map_eq_nil_iff] at hc
      exact Nat.toDigits_ne_nil hc
  have hn : ∀ v, natToDigits v ≠ [] := by
    intro v hc
    simp only [natToDigits, List.map_eq_nil_iff] at hc
    exact Nat.toDigits_ne_nil hc
  cases a with
  | czsk => exact absurd rfl h1
  | isoDefault =>
    simp only [NatAlgo.compute, isoDefaultCompute, bind, Res.bind] at h
    split at h <;> try cases h
    exact hf _
  | isoVariant =>
    simp only [NatAlgo.compute, isoVariantCompute, bind, Res.bind] at h
    split at h <;> try cases h
    exact hf _
  | be =>
    simp only [NatAlgo.compute, beCompute, bind, Res.bind] at h
    split at h <;> try cases h
    exact hf _
  | fr =>
    simp only [NatAlgo.compute, frCompute] at h
    split at h
    · simp only [bind, Res.bind] at h
      split at h <;> try cases h
      split at h <;> try cases h
      split at h <;> try cases h
      exact hf _
    · cases h
  | es =>
    simp only [NatAlgo.compute, esCompute] at h
    split at h
    · simp only [bind, Res.bind] at h
      split at h <;> try cases h
      split at h <;> try cases h
      intro hc
      exact hn _ (List.append_eq_nil_iff.mp hc).1
    · cases h
  | pl =>
    simp only [NatAlgo.compute, plCompute, bind, Res.bind] at h
    split at h <;> try cases h
    exact hn _
  | ee =>
    simp only [NatAlgo.compute, eeCompute, bind, Res.bind] at h
    split at h <;> try cases h
    exact hn _
  | is_ =>
    simp only [NatAlgo.compute, isCompute] at h
    split at h
    · simp only [bind, Res.bind] at h
      split at h <;> try cases h
      split <;> exact hn _
    · cases h
  | no =>
    simp only [NatAlgo.compute, noCompute] at h
    split at h
    · simp only [bind, Res.bind] at h
      split at h <;> try cases h
      split at h <;> try cases h
      exact hn _
    · cases h
  | fi =>
    simp only [NatAlgo.compute, fiCompute, luhn, bind, Res.bind] at h
    split at h <;> try cases h
    exact hn _
  | it =>
    simp only [NatAlgo.compute, itCompute, bind, Res.bind] at h
    split at h <;> try cases h
    simp

/-- Decidable description of "country `cc` keeps separately computed national check digits in a
    dedicated field": it is registered for a computing algorithm class that reads only bank, branch
    and account code, and the check-digit field is published. -/
def computingOk (T : Table) (A : AlgoTable) (cc : Str) : Bool :=
  match T.lookup cc, A.get (defaultKey cc) with
  | some e, some a =>
    (match a.ref with
     | .nat .czsk => false
     | .nat .is_ => false
     | .nat _ => true
     | _ => false) &&
    a.accepts.all (fun k => k == .bankCode || k == .branchCode || k == .accountCode) &&
    ((e.positions.getD []).lookup .nationalChecksumDigits).isSome
  | _, _ => false

/-- A published component is cut out by `_get_component` exactly as the slice at its position. -/
theorem getSlice_published {e : Country} (hW : e.WF) {b : Str} (hb : b.length = e.bbanLength)
    {k : Component} {r : Range} (hp : publishedAt e k r) :
    getSlice b (e.range k).start (some (e.range k).stop) = slice b r.start r.stop := by
  rw [range_of_published hp]
  have := hW.bounds (k, r) (mem_of_lookup hp)
  simp only at this
  exact getSlice_eq_slice (by omega) (by omega)

/-- **Computing and validating agree.**  A BBAN of the country's length that `from_components`
    returns passes the national check. -/
theorem build_validates (X : Ctx) (hU : X.U.WF) (hT : X.T.WF) {cc : Str}
    (hC : computingOk X.T X.A cc = true)
    (hR : ∀ x ∈ X.R, x.countryCode = cc → x.checksumAlgo = none)
    {vs : List (Component × Str)} {b : Str} (h : BBAN.fromComponents X cc vs = .ok b)
    (hfitOther : ∀ k, k ≠ .bankCode → k ≠ .branchCode → k ≠ .accountCode → valuesGet vs k = [])
    (hlen : ∀ e, X.T.lookup cc = some e → b.length = e.bbanLength) :
    BBAN.validateNational X cc b = .ok true := by
  obtain ⟨e, cs, hl, hps, hb1, hb2, hb3, hcs, hbeq⟩ := fromComponents_ok X h
  have hblen := hlen e hl
  have hW := hT e (Table.lookup_mem hl).1
  unfold computingOk at hC
  cases ha : X.A.get (defaultKey cc) with
  | none => simp [hl, ha] at hC
  | some a =>
    simp only [hl, ha, Bool.and_eq_true, List.all_eq_true, Bool.or_eq_true, beq_iff_eq] at hC
    obtain ⟨⟨href, hacc⟩, hncd⟩ := hC
    -- the registered algorithm is a computing national class
    obtain ⟨n, hn, hn1, hn2⟩ : ∃ n, a.ref = .nat n ∧ n ≠ .czsk ∧ n ≠ .is_ := by
      cases hr : a.ref with
      | nat n => cases n <;> simp [hr] at href <;> exact ⟨_, rfl, by decide, by decide⟩
      | de p => simp [hr] at href
      | unknown => simp [hr] at href
    have hA : C08.defaultsNat X.A cc := fun a' ha' => by
      rw [ha] at ha'; cases ha'; exact ⟨n, hn⟩
    -- what was computed
    have hcomp : n.compute X.U (a.accepts.map (splitComps X e vs)) = .ok cs := by
      unfold computeNationalChecksum at hcs
      have ha' : X.A.get (cc ++ [colon] ++ strDefault) = some a := ha
      simp only [ha', hn, AlgoRef.compute] at hcs
      cases hc : n.compute X.U (a.accepts.map (splitComps X e vs)) with
      | ok d => rw [hc] at hcs; simpa [Res.translate] using hcs
      | err _ => rw [hc] at hcs; simp [Res.translate] at hcs
      | crash k => rw [hc] at hcs; cases k <;> simp [Res.translate] at hcs
    have hne : cs ≠ [] := compute_nonempty X.U n hn1 _ hcomp
    have hcsC := C08.computeNational_compact X hU hA _ hcs
    -- no component is longer than its field
    have hfit : ∀ k r, publishedAt e k r → k ≠ .nationalChecksumDigits →
        (splitComps X e vs k).length ≤ r.stop - r.start := by
      intro k r hp hk
      have hwid : (e.range k).length = r.stop - r.start := by rw [range_of_published hp]; rfl
      rw [← hwid]
      by_cases h1 : k = .bankCode
      · subst h1; exact hb1
      by_cases h2 : k = .branchCode
      · subst h2; exact hb2
      by_cases h3 : k = .accountCode
      · subst h3; exact hb3
      have : splitComps X e vs k = padComps X e vs k := by
        unfold splitComps
        split
        · show (if k = Component.bankCode then _ else if k = Component.branchCode then _ else _) = _
          rw [if_neg h1, if_neg h2]
        · rfl
      rw [this]
      simp [padComps, hfitOther k h1 h2 h3, clean_nil, zfill_length]
    have hpl := fromComponents_placement X hU hW vs hcsC hfit hbeq hblen
    -- the fields the algorithm reads, cut from the assembled BBAN, are the components it was given
    have hcut : componentsOf e b a.accepts = a.accepts.map (splitComps X e vs) := by
      rw [componentsOf_map, List.map_map]
      apply List.map_congr_left
      intro k hk
      have hk3 := hacc k hk
      have hkn : k ≠ .nationalChecksumDigits := by
        rcases hk3 with (h | h) | h <;> rw [h] <;> decide
      simp only [Function.comp]
      cases hq : (e.positions.getD []).lookup k with
      | some r =>
        have hp : publishedAt e k r := hq
        rw [getSlice_published hW hblen hp]
        exact hpl.1 k r hp hkn
      | none =>
        rw [range_unpublished hq, getSlice_zero_zero]
        have hz : (e.range k).length = 0 := by rw [range_unpublished hq]; rfl
        have : (splitComps X e vs k).length ≤ 0 := by
          rcases hk3 with (h | h) | h <;> subst h
          · rw [← hz]; exact hb1
          · rw [← hz]; exact hb2
          · rw [← hz]; exact hb3
        exact (List.eq_nil_of_length_eq_zero (by omega)).symm
    obtain ⟨rn, hrn⟩ := Option.isSome_iff_exists.mp hncd
    have hpn : publishedAt e .nationalChecksumDigits rn := hrn
    have hexp : getSlice b (e.range .nationalChecksumDigits).start
        (some (e.range .nationalChecksumDigits).stop) = cs := by
      rw [getSlice_published hW hblen hpn, hpl.2 rn hpn]
      unfold withChecksum
      have : (cs != []) = true := by simpa using hne
      rw [if_pos this]
      simp [Comps.set]
    rw [validateNational_dispatch X hl hR, ha]
    simp only [hn, AlgoRef.validate, hcut, hexp]
    rw [compute_validates X.U n hn1 hn2 _ cs hcomp]
    rfl

/-- Every IBAN `IBAN.generate` returns for a computing country passes national validation. -/
theorem generate_validates (X : Ctx) (hU : X.U.WF) (hT : X.T.WF) {cc : Str}
    (hC : computingOk X.T X.A cc = true)
    (hR : ∀ x ∈ X.R, x.countryCode = cc → x.checksumAlgo = none)
    {bank account branch i : Str} (h : IBAN.generate X cc bank account branch = .ok i) :
    BBAN.validateNational X cc (i.drop 4) = .ok true := by
  have hA : C08.defaultsNat X.A cc := by
    intro a ha
    unfold computingOk at hC
    cases hl : X.T.lookup cc with
    | none => simp [hl] at hC
    | some e =>
      simp only [hl, ha, Bool.and_eq_true] at hC
      cases hr : a.ref with
      | nat n => exact ⟨n, rfl⟩
      | de p => simp [hr] at hC
      | unknown => simp [hr] at hC
  obtain ⟨e, b, hl, hb, hblen, _, hdrop, _, _, _⟩ := C08.generate_ok X hU hT hA h
  rw [hdrop]
  exact build_validates X hU hT hC hR hb
    (fun k h1 h2 h3 => by cases k <;> first | rfl | exact absurd rfl h1 | exact absurd rfl h2 | exact absurd rfl h3)
    (fun e' hl' => by rw [hl] at hl'; cases hl'; exact hblen)

/-- …so `IBAN(text, validate_bban=True)` returns it. -/
theorem generate_passes_national (X : Ctx) (hU : X.U.WF) (hT : X.T.WF) {cc : Str}
    (hC : computingOk X.T X.A cc = true)
    (hR : ∀ x ∈ X.R, x.countryCode = cc → x.checksumAlgo = none)
    {bank account branch i : Str} (h : IBAN.generate X cc bank account branch = .ok i) :
    IBAN.new X i false true = .ok i := by
  have hnat := generate_validates X hU hT hC hR h
  have hA : C08.defaultsNat X.A cc := by
    intro a ha
    unfold computingOk at hC
    cases hl : X.T.lookup cc with
    | none => simp [hl] at hC
    | some e =>
      simp only [hl, ha, Bool.and_eq_true] at hC
      cases hr : a.ref with
      | nat n => exact ⟨n, rfl⟩
      | de p => simp [hr] at hC
      | unknown => simp [hr] at hC
  obtain ⟨e, b, hl, _, hblen, htake, hdrop, hiso, hnew, _⟩ := C08.generate_ok X hU hT hA h
  -- `i` is its own compact form (the constructor returned it unchanged)
  have hclean : clean X.U i = i := by
    unfold IBAN.new at hnew
    simp only [Bool.false_eq_true, ↓reduceIte] at hnew
    cases hv : IBAN.validate X (clean X.U i) false with
    | ok _ => rw [hv] at hnew; simpa using hnew
    | err _ => rw [hv] at hnew; cases hnew
    | crash _ => rw [hv] at hnew; cases hnew
  have hcomp : Compact X.U i := by rw [← hclean]; exact compact_clean hU i
  have hlen4 : 4 ≤ i.length := by
    have := congrArg List.length hdrop
    have h2 := congrArg List.length htake
    have hcc : cc.length = 2 := by
      obtain ⟨a1, a2, hcd, _, _⟩ := (hT e (Table.lookup_mem hl).1).code
      rw [← (Table.lookup_mem hl).2, hcd]; rfl
    unfold isoValid at hiso
    rw [htake, hl] at hiso
    simp only [Bool.and_eq_true, beq_iff_eq, decide_eq_true_eq] at hiso
    have := hiso.1.1.1.1.1.1
    omega
  have hval : IBAN.validate X i false = .ok true := by
    have := (C01.new_isOk X i false).mp (by rw [hnew]; rfl)
    rwa [hclean] at this
  unfold IBAN.new
  simp only [Bool.false_eq_true, ↓reduceIte, hclean]
  unfold IBAN.validate at hval ⊢
  cases h1 : IBAN.validateCharacters X.U i <;> simp only [h1, bind, Res.bind] at hval ⊢ <;> try cases hval
  cases h2 : IBAN.validateLength X.T i <;> simp only [h2] at hval ⊢ <;> try cases hval
  cases h3 : IBAN.validateFormat X.U X.T i <;> simp only [h3] at hval ⊢ <;> try cases hval
  cases h4 : IBAN.validateChecksum X.U i <;> simp only [h4] at hval ⊢ <;> try cases hval
  rw [countryCode_eq (by omega), bban_of_compact hcomp, htake, hnat]
  rfl

/-! ### Instance: the 19 computing countries of the live tables -/

theorem live_computing_ok :
    ["BA", "BE", "EE", "ES", "FI", "FR", "IT", "MC", "ME", "MK", "MR", "NO", "PL", "PT", "RS", "SI",
      "SM", "TL", "TN"].all (fun c => computingOk Gen.table Gen.algoTable (C06.bytes c)) = true := by
  decide +kernel

/-- On the live tables: every IBAN generated for one of the 19 countries passes national
    validation — every registry that names no method for the country, every component strings. -/
theorem live_generate_passes_national (R : Registry) {c : String}
    (hc : c ∈ ["BA", "BE", "EE", "ES", "FI", "FR", "IT", "MC", "ME", "MK", "MR", "NO", "PL", "PT", "RS",
      "SI", "SM", "TL", "TN"])
    (hR : ∀ x ∈ R, x.countryCode = C06.bytes c → x.checksumAlgo = none)
    {bank account branch i : Str}
    (h : IBAN.generate (Gen.ctx R) (C06.bytes c) bank account branch = .ok i) :
    IBAN.new (Gen.ctx R) i false true = .ok i := by
  have := live_computing_ok
  simp only [List.all_eq_true] at this
  exact generate_passes_national (Gen.ctx R) C10.unicode_wf C01.table_wf (this c hc) hR h

/-! Non-vacuity: a Spanish IBAN built from components carries the computed control digits `45` and
    passes national validation. -/
example : IBAN.generate (Gen.ctx []) (C06.bytes "ES") (C06.bytes "2100") (C06.bytes "0200051332")
    (C06.bytes "0418") = .ok (C06.bytes "ES9121000418450200051332") := by decide +kernel
example : IBAN.new (Gen.ctx []) (C06.bytes "ES9121000418450200051332") false true =
    .ok (C06.bytes "ES9121000418450200051332") := by decide +kernel

/-! ### parse → rebuild -/

/-- The components read off a BBAN: every published component with the text at its position. -/
def publishedComps (e : Country) (b : Str) : List (Component × Str) :=
  (e.positions.getD []).map (fun p => (p.1, slice b p.2.start p.2.stop))

theorem lookup_map_snd {α β γ : Type} [BEq α] (f : β → γ) : ∀ (ps : List (α × β)) (k : α),
    (ps.map (fun p => (p.1, f p.2))).lookup k = (ps.lookup k).map f
  | [], _ => rfl
  | (a, v) :: t, k => by
    simp only [List.map_cons, List.lookup_cons]
    cases h : k == a
    · simp only; exact lookup_map_snd f t k
    · simp only [Option.map_some]

theorem valuesGet_published {e : Country} {b : Str} {k : Component} {r : Range}
    (hp : publishedAt e k r) : valuesGet (publishedComps e b) k = slice b r.start r.stop := by
  unfold valuesGet publishedComps publishedAt at *
  rw [lookup_map_snd (fun r : Range => slice b r.start r.stop), hp]; rfl

theorem valuesGet_unpublished {e : Country} {b : Str} {k : Component}
    (hp : (e.positions.getD []).lookup k = none) : valuesGet (publishedComps e b) k = [] := by
  unfold valuesGet publishedComps
  rw [lookup_map_snd (fun r : Range => slice b r.start r.stop), hp]; rfl

/-- Read off a compact BBAN of the country's length, every component comes back from cleaning and
    padding unchanged. -/
theorem padComps_published (X : Ctx) {e : Country} (hW : e.WF) {b : Str} (hc : Compact X.U b)
    (hb : b.length = e.bbanLength) (k : Component) :
    padComps X e (publishedComps e b) k =
      match (e.positions.getD []).lookup k with
      | some r => slice b r.start r.stop
      | none => [] := by
  unfold padComps
  cases hq : (e.positions.getD []).lookup k with
  | some r =>
    have hp : publishedAt e k r := hq
    have hbd := hW.bounds (k, r) (mem_of_lookup hq)
    simp only at hbd
    rw [valuesGet_published hp, clean_of_compact (compact_slice hc _ _), range_of_published hp]
    exact zfill_exact _ _ (by rw [slice_length (by omega)]; rfl)
  | none =>
    rw [valuesGet_unpublished hq, clean_nil, range_unpublished hq]
    rfl


/-- A published field of a BBAN of the country's length has exactly its width. -/
theorem slice_published_length {e : Country} (hW : e.WF) {b : Str} (hb : b.length = e.bbanLength)
    {k : Component} {r : Range} (hp : publishedAt e k r) :
    (slice b r.start r.stop).length = r.stop - r.start := by
  have hbd := hW.bounds (k, r) (mem_of_lookup hp)
  simp only at hbd
  exact slice_length (by omega)

/-- **Parse → rebuild.**  Take any compact BBAN `b` of the country's length that passes the national
    check, read off every published component, and hand them to `from_components`: the result is a
    BBAN of the same length that agrees with `b` at every position covered by a component (reserved
    filler positions become `0`).  `hIs`: an algorithm with its own `validate` that nevertheless
    computes something (Iceland) has no published check-digit field to write it to. -/
theorem rebuild (X : Ctx) (hU : X.U.WF) (hT : X.T.WF) {cc : Str} {e : Country}
    (hl : X.T.lookup cc = some e) (hps : e.positions.isSome = true) (hA : C08.defaultsNat X.A cc)
    (hR : ∀ x ∈ X.R, x.countryCode = cc → x.checksumAlgo = none)
    (hIs : ∀ a, X.A.get (defaultKey cc) = some a → a.ref = .nat .is_ →
      (e.positions.getD []).lookup .nationalChecksumDigits = none)
    {b : Str} (hc : Compact X.U b) (hlen : b.length = e.bbanLength)
    (hnat : BBAN.validateNational X cc b = .ok true) :
    ∃ b', BBAN.fromComponents X cc (publishedComps e b) = .ok b' ∧ b'.length = e.bbanLength ∧
      ∀ k r, publishedAt e k r → slice b' r.start r.stop = slice b r.start r.stop := by
  have hW := hT e (Table.lookup_mem hl).1
  have hpad := padComps_published X hW hc hlen
  -- no combined-width split: a published branch code is non-empty, an unpublished one has width 0
  have hns : splitsB X e (publishedComps e b) = false := by
    unfold splitsB
    cases hq : (e.positions.getD []).lookup .branchCode with
    | none =>
      rw [range_unpublished hq]
      simp [Range.length]
    | some r =>
      have hp : publishedAt e .branchCode r := hq
      have hbd := hW.bounds (_, r) (mem_of_lookup hq)
      simp only at hbd
      rw [valuesGet_published hp, clean_of_compact (compact_slice hc _ _)]
      have : slice b r.start r.stop ≠ [] := by
        intro h0
        have := slice_published_length hW hlen hp
        rw [h0] at this; simp at this; omega
      simp [this]
  have hsc : ∀ k, splitComps X e (publishedComps e b) k = padComps X e (publishedComps e b) k := by
    intro k; unfold splitComps; rw [hns]; rfl
  have hval : ∀ k r, publishedAt e k r →
      splitComps X e (publishedComps e b) k = slice b r.start r.stop := by
    intro k r hp
    rw [hsc, hpad]
    have : (e.positions.getD []).lookup k = some r := hp
    rw [this]
  have hval0 : ∀ k, (e.positions.getD []).lookup k = none →
      splitComps X e (publishedComps e b) k = [] := by
    intro k hq; rw [hsc, hpad, hq]
  have hle : ∀ k, (splitComps X e (publishedComps e b) k).length ≤ (e.range k).length := by
    intro k
    cases hq : (e.positions.getD []).lookup k with
    | some r =>
      have hp : publishedAt e k r := hq
      rw [hval k r hp, slice_published_length hW hlen hp, range_of_published hp]
      exact Nat.le_refl _
    | none => rw [hval0 k hq]; simp
  have hpn : e.positions.isNone = false := by cases hq : e.positions <;> simp [hq] at hps ⊢
  rw [fromComponents_eq X hl hpn]
  rw [if_neg (by have := hle .bankCode; omega), if_neg (by have := hle .branchCode; omega),
    if_neg (by have := hle .accountCode; omega)]
  -- what `compute_national_checksum` returns, and that writing it changes nothing
  have hcomps : ∀ ks : List Component,
      componentsOf e b ks = ks.map (splitComps X e (publishedComps e b)) := by
    intro ks
    rw [componentsOf_map, List.map_map]
    apply List.map_congr_left
    intro k _
    simp only [Function.comp]
    cases hq : (e.positions.getD []).lookup k with
    | some r =>
      have hp : publishedAt e k r := hq
      rw [getSlice_published hW hlen hp, hval k r hp]
    | none => rw [range_unpublished hq, getSlice_zero_zero, hval0 k hq]
  have hcs : ∃ cs, computeNationalChecksum X cc (splitComps X e (publishedComps e b)) = .ok cs ∧
      ∀ r, publishedAt e .nationalChecksumDigits r → cs ≠ [] → cs = slice b r.start r.stop := by
    unfold computeNationalChecksum
    cases ha : X.A.get (cc ++ [colon] ++ strDefault) with
    | none => exact ⟨[], rfl, fun _ _ h => absurd rfl h⟩
    | some a =>
      have ha' : X.A.get (defaultKey cc) = some a := ha
      obtain ⟨n, hn⟩ := hA a ha'
      rw [validateNational_dispatch X hl hR, ha'] at hnat
      simp only [hn, AlgoRef.validate, hcomps] at hnat
      simp only [hn, AlgoRef.compute]
      by_cases h1 : n = .czsk
      · subst h1
        exact ⟨[], rfl, fun _ _ h => absurd rfl h⟩
      by_cases h2 : n = .is_
      · subst h2
        have hno := hIs a ha' hn
        -- `validate` succeeded, so `compute` did
        generalize a.accepts.map (splitComps X e (publishedComps e b)) = L at hnat ⊢
        simp only [NatAlgo.validate] at hnat
        cases hcmp : isCompute X.U L with
        | ok d =>
          refine ⟨d, ?_, fun r hp => ?_⟩
          · simp only [NatAlgo.compute, hcmp, Res.translate]
          · have : (e.positions.getD []).lookup .nationalChecksumDigits = some r := hp
            rw [hno] at this; cases this
        | err _ =>
          exfalso
          unfold isValidate at hnat
          split at hnat
          · rw [hcmp] at hnat; simp [bind, Res.bind] at hnat
          · simp [Res.bind] at hnat
        | crash _ =>
          exfalso
          unfold isValidate at hnat
          split at hnat
          · rw [hcmp] at hnat; simp [bind, Res.bind] at hnat
          · simp [Res.bind] at hnat
      -- inherited `validate`: compute == expected
      have hv : NatAlgo.validate X.U n (a.accepts.map (splitComps X e (publishedComps e b)))
          (getSlice b (e.range .nationalChecksumDigits).start (some (e.range .nationalChecksumDigits).stop)) =
          (n.compute X.U (a.accepts.map (splitComps X e (publishedComps e b)))).bind
            (fun c => .ok (c == getSlice b (e.range .nationalChecksumDigits).start
              (some (e.range .nationalChecksumDigits).stop))) := by
        cases n <;> first | rfl | exact absurd rfl h1 | exact absurd rfl h2
      rw [hv] at hnat
      cases hcmp : n.compute X.U (a.accepts.map (splitComps X e (publishedComps e b))) with
      | ok d =>
        rw [hcmp] at hnat
        simp only [Res.bind] at hnat
        refine ⟨d, by simp [Res.translate], fun r hp _ => ?_⟩
        rw [getSlice_published hW hlen hp] at hnat
        by_cases hd : (d == slice b r.start r.stop) = true
        · exact beq_iff_eq.mp hd
        · simp [hd] at hnat
      | err _ => rw [hcmp] at hnat; simp [Res.bind] at hnat
      | crash _ => rw [hcmp] at hnat; simp [Res.bind] at hnat
  obtain ⟨cs, hcse, hcsv⟩ := hcs
  rw [hcse]
  simp only [Res.bind]
  have hcsC := C08.computeNational_compact X hU hA _ hcse
  -- every published component of the table that is written is the text of `b` at its position
  have hc2 : ∀ k r, publishedAt e k r →
      withChecksum (splitComps X e (publishedComps e b)) cs k = slice b r.start r.stop := by
    intro k r hp
    unfold withChecksum
    by_cases hne : (cs != []) = true
    · rw [if_pos hne]
      show (if k = Component.nationalChecksumDigits then cs else _) = _
      by_cases hk : k = .nationalChecksumDigits
      · subst hk; rw [if_pos rfl]; exact hcsv r hp (by simpa using hne)
      · rw [if_neg hk]; exact hval k r hp
    · rw [if_neg hne]; exact hval k r hp
  have hc2len : ∀ k r, publishedAt e k r →
      (withChecksum (splitComps X e (publishedComps e b)) cs k).length = r.stop - r.start := by
    intro k r hp; rw [hc2 k r hp, slice_published_length hW hlen hp]
  have hcompact : Compact X.U (overlayAll e (withChecksum (splitComps X e (publishedComps e b)) cs)
      Component.all (zeros e)) :=
    compact_overlayAll e _ (compact_withChecksum X hU e _ hcsC) _ _ (compact_zeros hU _)
  refine ⟨_, rfl, ?_, fun k r hp => ?_⟩
  · rw [clean_of_compact hcompact]
    exact (overlayAll_other hW _ hc2len Component.all (zeros e) ⟨0, 0⟩ (by simp [zeros]) (by simp)
      (fun k _ r' _ => Or.inl (by simp))).1
  · rw [clean_of_compact hcompact, (C08.placement hW _ hc2len (zeros e) (by simp [zeros]) k r hp).1]
    exact hc2 k r hp

/-- Decidable form of the hypothesis `hIs` of `rebuild`, for every country of the table at once. -/
def ownValidateOk (T : Table) (A : AlgoTable) : Bool :=
  T.all (fun e => match A.get (defaultKey e.code) with
    | some a => (match a.ref with
      | .nat .is_ => ((e.positions.getD []).lookup .nationalChecksumDigits).isNone
      | _ => true)
    | none => true)

theorem live_own_validate_ok : ownValidateOk Gen.table Gen.algoTable = true := by decide +kernel

/-- Parse → rebuild on the live tables: every country with published positions, every registry that
    names no method for it, every compact BBAN of the country's length that passes the national
    check. -/
theorem live_rebuild (R : Registry) {cc : Str} {e : Country} (hl : Gen.table.lookup cc = some e)
    (hps : e.positions.isSome = true)
    (hR : ∀ x ∈ R, x.countryCode = cc → x.checksumAlgo = none)
    {b : Str} (hc : Compact Gen.unicode b) (hlen : b.length = e.bbanLength)
    (hnat : BBAN.validateNational (Gen.ctx R) cc b = .ok true) :
    ∃ b', BBAN.fromComponents (Gen.ctx R) cc (publishedComps e b) = .ok b' ∧ b'.length = e.bbanLength ∧
      ∀ k r, publishedAt e k r → slice b' r.start r.stop = slice b r.start r.stop := by
  refine rebuild (Gen.ctx R) C10.unicode_wf C01.table_wf hl hps
    (C08.defaultsNat_of_B C08.live_defaults_nat cc) hR ?_ hc hlen hnat
  intro a ha hr
  have hm := Table.lookup_mem hl
  have := live_own_validate_ok
  simp only [ownValidateOk, List.all_eq_true] at this
  have h1 := this e hm.1
  rw [hm.2] at h1
  have ha' : Gen.algoTable.get (defaultKey cc) = some a := ha
  simp only [ha', hr] at h1
  simpa using h1

/-! Non-vacuity: the components of a valid Spanish BBAN rebuild it. -/
example : (match Gen.table.lookup (C06.bytes "ES") with
    | some e => BBAN.fromComponents (Gen.ctx []) (C06.bytes "ES")
        (publishedComps e (C06.bytes "21000418450200051332")) == .ok (C06.bytes "21000418450200051332")
    | none => false) = true := by decide +kernel

end SV.Props.C09
