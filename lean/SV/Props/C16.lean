/-
  C16 — IBAN, BIC and BBAN are string values: equality, hashing, order and copies agree.

  PARTIAL: the comparison laws are proved for the model (in which `__eq__/__lt__/__hash__` are the
  compact strings' — tied to the code by the operator correspondence stream); the copy / deepcopy /
  pickle theorems are about the reconstruction protocol `cls.__new__(cls, *getnewargs)` + restored
  instance dict, with the arities and overrides read off the live classes (`SV.Gen.Classes`);
  that CPython's `copyreg` / `pickle` implement that protocol is trusted and exercised dynamically.
-/
import SV.Model.Obj
import SV.Props.C12
import SV.Proofs.National
import SV.Gen.Classes
namespace SV.Props.C16
open SV

/-- Equality is an equivalence relation and is the equality of the compact strings. -/
theorem eq_equivalence (a b c : Obj) :
    pyEq a a = true ∧ (pyEq a b = pyEq b a) ∧ (pyEq a b = true → pyEq b c = true → pyEq a c = true) := by
  refine ⟨by simp [pyEq], ?_, ?_⟩
  · simp only [pyEq]
    exact beq_str_comm a.value b.value
  · simp only [pyEq, beq_iff_eq]; intro h1 h2; rw [h1, h2]

/-- Equal objects hash equally, so they can stand in for each other (and for their compact
    string) as dictionary keys. -/
theorem eq_hash (a b : Obj) (h : pyEq a b = true) : pyHashKey a = pyHashKey b := by
  simpa [pyEq, pyHashKey] using h

theorem eq_is_string_eq (U : Unicode) (k : Cls) (cc : Option Str) (s t : Str) :
    pyEq (Obj.make U k cc s) (Obj.make U .str none t) =
      ((Obj.make U k cc s).value == t) := rfl

theorem strLt_total : ∀ a b : Str, strLt a b = true ∨ a = b ∨ strLt b a = true
  | [], [] => Or.inr (Or.inl rfl)
  | [], _ :: _ => Or.inl rfl
  | _ :: _, [] => Or.inr (Or.inr rfl)
  | x :: s, y :: t => by
    simp only [strLt]
    by_cases h1 : x < y
    · simp [h1]
    · by_cases h2 : y < x
      · simp [h1, h2]
      · have : x = y := by omega
        subst this
        simp only [Nat.lt_irrefl, ↓reduceIte]
        rcases strLt_total s t with h | h | h
        · exact Or.inl h
        · exact Or.inr (Or.inl (by rw [h]))
        · exact Or.inr (Or.inr h)

/-- `<` is a strict total order on the compact strings (lexicographic by code point):
    irreflexive, transitive, total; `<=` is `<` or `==`. -/
theorem lt_strict_total_order (a b c : Obj) :
    pyLt a a = false ∧
    (pyLt a b = true → pyLt b c = true → pyLt a c = true) ∧
    (pyLt a b = true ∨ pyEq a b = true ∨ pyLt b a = true) ∧
    (pyLt a b = true → pyLt b a = false) ∧
    (pyLe a b = (pyLt a b || pyEq a b)) := by
  refine ⟨C12.strLt_irrefl _, fun h1 h2 => C12.strLt_trans h1 h2, ?_, ?_, rfl⟩
  · rcases strLt_total a.value b.value with h | h | h
    · exact Or.inl h
    · exact Or.inr (Or.inl (by simp [pyEq, h]))
    · exact Or.inr (Or.inr h)
  · intro h
    cases hba : pyLt b a with
    | false => rfl
    | true =>
      have := C12.strLt_trans h hba
      rw [C12.strLt_irrefl] at this; cases this

/-- Sorting by `<` is therefore consistent with equality: incomparable objects are equal. -/
theorem incomparable_eq (a b : Obj) (h1 : pyLt a b = false) (h2 : pyLt b a = false) :
    pyEq a b = true := by
  rcases strLt_total a.value b.value with h | h | h
  · simp [pyLt, h] at h1
  · simp [pyEq, h]
  · simp [pyLt, h] at h2

/-- Instance obligation: on the live classes `__new__` takes exactly the arguments
    `__getnewargs__` supplies, no class overrides the copy / reduce protocol, and `__deepcopy__`
    is the (non-validating) `Base` method. -/
theorem live_class_facts :
    [Cls.iban, Cls.bic, Cls.bban].all (fun c =>
      Gen.classFacts.newArity c == Gen.classFacts.newArgsLen c &&
      !Gen.classFacts.customCopy c && Gen.classFacts.deepcopyIsBase c) = true := by decide

/-- Shallow copy, deep copy and pickling of ANY object (valid or built with validation off) yield
    an equal object of the same class with the same country — given class facts as above. -/
theorem copy_equal (U : Unicode) (hU : U.WF) (F : ClassFacts) (k : Cls) (cc : Option Str) (s : Str)
    (hk : k ≠ .str)
    (hF : ∀ c, c ≠ Cls.str → F.newArity c = F.newArgsLen c ∧ F.customCopy c = false ∧
      F.deepcopyIsBase c = true) :
    pyCopy U F (Obj.make U k cc s) = .ok (Obj.make U k cc s) ∧
    pyDeepCopy U F (Obj.make U k cc s) = .ok (Obj.make U k cc s) := by
  have hrec : ∀ (o : Obj), o.cls ≠ .str → clean U o.value = o.value → reconstruct U F o = .ok o := by
    intro o ho hv
    have := hF o.cls ho
    unfold reconstruct
    simp only [this.2.1, Bool.false_eq_true, ↓reduceIte, this.1, ne_eq, not_true_eq_false]
    obtain ⟨c, v, ctry⟩ := o
    simp only at ho hv ⊢
    cases c with
    | str => exact absurd rfl ho
    | iban | bic | bban => simp [hv]
  have hval : clean U (Obj.make U k cc s).value = (Obj.make U k cc s).value := by
    cases k <;> simp [Obj.make, clean_idem hU] at hk ⊢
  have hcls : (Obj.make U k cc s).cls = k := by cases k <;> rfl
  constructor
  · exact hrec _ (by rw [hcls]; exact hk) hval
  · unfold pyDeepCopy
    have hdeep := (hF k hk).2.2
    by_cases hi : k = .iban
    · subst hi
      have hb : reconstruct U F ⟨.bban, IBAN.bban U (Obj.make U .iban cc s).value,
          some (IBAN.countryCode (Obj.make U .iban cc s).value)⟩ = .ok _ :=
        hrec _ (by simp) (by simp only [IBAN.bban]; exact clean_idem hU _)
      simp only [hcls, ↓reduceIte, hb, Res.ok_bind, hdeep, Bool.not_true, Bool.false_and,
        Bool.false_eq_true]
      exact hrec _ (by rw [hcls]; simp) hval
    · simp only [hcls, hi, ↓reduceIte, hdeep, Bool.not_true, Bool.false_and, Bool.false_eq_true]
      exact hrec _ (by rw [hcls]; exact hk) hval

/-- The pinned defect as a theorem about the model: with `BBAN.__new__` taking two arguments but
    the default protocol supplying one, copying a BBAN is a `TypeError`. -/
theorem arity_mismatch_is_type_error (U : Unicode) (F : ClassFacts) (o : Obj)
    (hc : F.customCopy o.cls = false) (h : F.newArity o.cls ≠ F.newArgsLen o.cls) :
    pyCopy U F o = .crash .typeError := by
  simp [pyCopy, reconstruct, hc, h]

end SV.Props.C16
