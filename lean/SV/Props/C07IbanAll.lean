/-
  GENERATED ONCE by tools/mk_c07_iban.py from the statements of the method theorems (committed; not
  regenerated at run time).  C07 at the IBAN level, per method: a German text that is valid without
  national validation and whose bank's FIRST registry entry names method `xx` is accepted by
  `IBAN(text, validate_bban=True)` exactly when the published rule of method `xx` holds for the ten
  account digits `d1 … d10` at positions 12 … 21 of the compact IBAN — for every registry.
-/
import SV.Props.C07IbanLevel
import SV.Props.C07Plain
import SV.Props.C07Special
namespace SV.Props.C07
open SV Spec

theorem live_german_iban_00' (R : Registry) (s : Str)
    (hv : isoValid Gen.table (clean Gen.unicode s) = true)
    (hcc : (clean Gen.unicode s).take 2 = C06.bytes "DE")
    {e : Country} (hl : Gen.table.lookup (C06.bytes "DE") = some e)
    {x : BankEntry} {t : List BankEntry}
    (hb : R.byBankCode (C06.bytes "DE") (lookupKey e ((clean Gen.unicode s).drop 4)) = some (x :: t))
    (hname : x.checksumAlgo = some (C06.bytes "00")) :
    ∃ d1 d2 d3 d4 d5 d6 d7 d8 d9 d10,
      slice ((clean Gen.unicode s).drop 4) 8 18 = acct d1 d2 d3 d4 d5 d6 d7 d8 d9 d10 ∧
      (IBAN.new (Gen.ctx R) s false true).isOk =
        (rule10 (dotQ [2, 1, 2, 1, 2, 1, 2, 1, 2] [d9, d8, d7, d6, d5, d4, d3, d2, d1]) d10) := by
  have hk : Gen.algoTable.get (C06.bytes "DE" ++ [colon] ++ C06.bytes "00") =
      some ⟨C06.bytes "DE:00", .de Gen.de_DE_00, [.accountCode]⟩ := by rfl
  obtain ⟨d1, d2, d3, d4, d5, d6, d7, d8, d9, d10, g1, g2, g3, g4, g5, g6, g7, g8, g9, g10, hs, hok⟩ :=
    live_german_iban R s hv hcc hl hb hname hk rfl rfl
  refine ⟨d1, d2, d3, d4, d5, d6, d7, d8, d9, d10, hs, ?_⟩
  rw [hok]
  exact (de00 Gen.unicode C10.unicode_wf d1 d2 d3 d4 d5 d6 d7 d8 d9 d10 g1 g2 g3 g4 g5 g6 g7 g8 g9 g10 ⟨0⟩).2

theorem live_german_iban_01' (R : Registry) (s : Str)
    (hv : isoValid Gen.table (clean Gen.unicode s) = true)
    (hcc : (clean Gen.unicode s).take 2 = C06.bytes "DE")
    {e : Country} (hl : Gen.table.lookup (C06.bytes "DE") = some e)
    {x : BankEntry} {t : List BankEntry}
    (hb : R.byBankCode (C06.bytes "DE") (lookupKey e ((clean Gen.unicode s).drop 4)) = some (x :: t))
    (hname : x.checksumAlgo = some (C06.bytes "01")) :
    ∃ d1 d2 d3 d4 d5 d6 d7 d8 d9 d10,
      slice ((clean Gen.unicode s).drop 4) 8 18 = acct d1 d2 d3 d4 d5 d6 d7 d8 d9 d10 ∧
      (IBAN.new (Gen.ctx R) s false true).isOk =
        (rule10 (dot [3, 7, 1, 3, 7, 1, 3, 7, 1] [d9, d8, d7, d6, d5, d4, d3, d2, d1]) d10) := by
  have hk : Gen.algoTable.get (C06.bytes "DE" ++ [colon] ++ C06.bytes "01") =
      some ⟨C06.bytes "DE:01", .de Gen.de_DE_01, [.accountCode]⟩ := by rfl
  obtain ⟨d1, d2, d3, d4, d5, d6, d7, d8, d9, d10, g1, g2, g3, g4, g5, g6, g7, g8, g9, g10, hs, hok⟩ :=
    live_german_iban R s hv hcc hl hb hname hk rfl rfl
  refine ⟨d1, d2, d3, d4, d5, d6, d7, d8, d9, d10, hs, ?_⟩
  rw [hok]
  exact (de01 Gen.unicode C10.unicode_wf d1 d2 d3 d4 d5 d6 d7 d8 d9 d10 g1 g2 g3 g4 g5 g6 g7 g8 g9 g10 ⟨0⟩).2

theorem live_german_iban_02' (R : Registry) (s : Str)
    (hv : isoValid Gen.table (clean Gen.unicode s) = true)
    (hcc : (clean Gen.unicode s).take 2 = C06.bytes "DE")
    {e : Country} (hl : Gen.table.lookup (C06.bytes "DE") = some e)
    {x : BankEntry} {t : List BankEntry}
    (hb : R.byBankCode (C06.bytes "DE") (lookupKey e ((clean Gen.unicode s).drop 4)) = some (x :: t))
    (hname : x.checksumAlgo = some (C06.bytes "02")) :
    ∃ d1 d2 d3 d4 d5 d6 d7 d8 d9 d10,
      slice ((clean Gen.unicode s).drop 4) 8 18 = acct d1 d2 d3 d4 d5 d6 d7 d8 d9 d10 ∧
      (IBAN.new (Gen.ctx R) s false true).isOk =
        (rule02 (dot [2, 3, 4, 5, 6, 7, 8, 9, 2] [d9, d8, d7, d6, d5, d4, d3, d2, d1]) d10) := by
  have hk : Gen.algoTable.get (C06.bytes "DE" ++ [colon] ++ C06.bytes "02") =
      some ⟨C06.bytes "DE:02", .de Gen.de_DE_02, [.accountCode]⟩ := by rfl
  obtain ⟨d1, d2, d3, d4, d5, d6, d7, d8, d9, d10, g1, g2, g3, g4, g5, g6, g7, g8, g9, g10, hs, hok⟩ :=
    live_german_iban R s hv hcc hl hb hname hk rfl rfl
  refine ⟨d1, d2, d3, d4, d5, d6, d7, d8, d9, d10, hs, ?_⟩
  rw [hok]
  exact (de02 Gen.unicode C10.unicode_wf d1 d2 d3 d4 d5 d6 d7 d8 d9 d10 g1 g2 g3 g4 g5 g6 g7 g8 g9 g10 ⟨0⟩).2

theorem live_german_iban_03' (R : Registry) (s : Str)
    (hv : isoValid Gen.table (clean Gen.unicode s) = true)
    (hcc : (clean Gen.unicode s).take 2 = C06.bytes "DE")
    {e : Country} (hl : Gen.table.lookup (C06.bytes "DE") = some e)
    {x : BankEntry} {t : List BankEntry}
    (hb : R.byBankCode (C06.bytes "DE") (lookupKey e ((clean Gen.unicode s).drop 4)) = some (x :: t))
    (hname : x.checksumAlgo = some (C06.bytes "03")) :
    ∃ d1 d2 d3 d4 d5 d6 d7 d8 d9 d10,
      slice ((clean Gen.unicode s).drop 4) 8 18 = acct d1 d2 d3 d4 d5 d6 d7 d8 d9 d10 ∧
      (IBAN.new (Gen.ctx R) s false true).isOk =
        (rule10 (dot [2, 1, 2, 1, 2, 1, 2, 1, 2] [d9, d8, d7, d6, d5, d4, d3, d2, d1]) d10) := by
  have hk : Gen.algoTable.get (C06.bytes "DE" ++ [colon] ++ C06.bytes "03") =
      some ⟨C06.bytes "DE:03", .de Gen.de_DE_03, [.accountCode]⟩ := by rfl
  obtain ⟨d1, d2, d3, d4, d5, d6, d7, d8, d9, d10, g1, g2, g3, g4, g5, g6, g7, g8, g9, g10, hs, hok⟩ :=
    live_german_iban R s hv hcc hl hb hname hk rfl rfl
  refine ⟨d1, d2, d3, d4, d5, d6, d7, d8, d9, d10, hs, ?_⟩
  rw [hok]
  exact (de03 Gen.unicode C10.unicode_wf d1 d2 d3 d4 d5 d6 d7 d8 d9 d10 g1 g2 g3 g4 g5 g6 g7 g8 g9 g10 ⟨0⟩).2

theorem live_german_iban_04' (R : Registry) (s : Str)
    (hv : isoValid Gen.table (clean Gen.unicode s) = true)
    (hcc : (clean Gen.unicode s).take 2 = C06.bytes "DE")
    {e : Country} (hl : Gen.table.lookup (C06.bytes "DE") = some e)
    {x : BankEntry} {t : List BankEntry}
    (hb : R.byBankCode (C06.bytes "DE") (lookupKey e ((clean Gen.unicode s).drop 4)) = some (x :: t))
    (hname : x.checksumAlgo = some (C06.bytes "04")) :
    ∃ d1 d2 d3 d4 d5 d6 d7 d8 d9 d10,
      slice ((clean Gen.unicode s).drop 4) 8 18 = acct d1 d2 d3 d4 d5 d6 d7 d8 d9 d10 ∧
      (IBAN.new (Gen.ctx R) s false true).isOk =
        (rule02 (dot [2, 3, 4, 5, 6, 7, 2, 3, 4] [d9, d8, d7, d6, d5, d4, d3, d2, d1]) d10) := by
  have hk : Gen.algoTable.get (C06.bytes "DE" ++ [colon] ++ C06.bytes "04") =
      some ⟨C06.bytes "DE:04", .de Gen.de_DE_04, [.accountCode]⟩ := by rfl
  obtain ⟨d1, d2, d3, d4, d5, d6, d7, d8, d9, d10, g1, g2, g3, g4, g5, g6, g7, g8, g9, g10, hs, hok⟩ :=
    live_german_iban R s hv hcc hl hb hname hk rfl rfl
  refine ⟨d1, d2, d3, d4, d5, d6, d7, d8, d9, d10, hs, ?_⟩
  rw [hok]
  exact (de04 Gen.unicode C10.unicode_wf d1 d2 d3 d4 d5 d6 d7 d8 d9 d10 g1 g2 g3 g4 g5 g6 g7 g8 g9 g10 ⟨0⟩).2

theorem live_german_iban_05' (R : Registry) (s : Str)
    (hv : isoValid Gen.table (clean Gen.unicode s) = true)
    (hcc : (clean Gen.unicode s).take 2 = C06.bytes "DE")
    {e : Country} (hl : Gen.table.lookup (C06.bytes "DE") = some e)
    {x : BankEntry} {t : List BankEntry}
    (hb : R.byBankCode (C06.bytes "DE") (lookupKey e ((clean Gen.unicode s).drop 4)) = some (x :: t))
    (hname : x.checksumAlgo = some (C06.bytes "05")) :
    ∃ d1 d2 d3 d4 d5 d6 d7 d8 d9 d10,
      slice ((clean Gen.unicode s).drop 4) 8 18 = acct d1 d2 d3 d4 d5 d6 d7 d8 d9 d10 ∧
      (IBAN.new (Gen.ctx R) s false true).isOk =
        (rule10 (dot [7, 3, 1, 7, 3, 1, 7, 3, 1] [d9, d8, d7, d6, d5, d4, d3, d2, d1]) d10) := by
  have hk : Gen.algoTable.get (C06.bytes "DE" ++ [colon] ++ C06.bytes "05") =
      some ⟨C06.bytes "DE:05", .de Gen.de_DE_05, [.accountCode]⟩ := by rfl
  obtain ⟨d1, d2, d3, d4, d5, d6, d7, d8, d9, d10, g1, g2, g3, g4, g5, g6, g7, g8, g9, g10, hs, hok⟩ :=
    live_german_iban R s hv hcc hl hb hname hk rfl rfl
  refine ⟨d1, d2, d3, d4, d5, d6, d7, d8, d9, d10, hs, ?_⟩
  rw [hok]
  exact (de05 Gen.unicode C10.unicode_wf d1 d2 d3 d4 d5 d6 d7 d8 d9 d10 g1 g2 g3 g4 g5 g6 g7 g8 g9 g10 ⟨0⟩).2

theorem live_german_iban_06' (R : Registry) (s : Str)
    (hv : isoValid Gen.table (clean Gen.unicode s) = true)
    (hcc : (clean Gen.unicode s).take 2 = C06.bytes "DE")
    {e : Country} (hl : Gen.table.lookup (C06.bytes "DE") = some e)
    {x : BankEntry} {t : List BankEntry}
    (hb : R.byBankCode (C06.bytes "DE") (lookupKey e ((clean Gen.unicode s).drop 4)) = some (x :: t))
    (hname : x.checksumAlgo = some (C06.bytes "06")) :
    ∃ d1 d2 d3 d4 d5 d6 d7 d8 d9 d10,
      slice ((clean Gen.unicode s).drop 4) 8 18 = acct d1 d2 d3 d4 d5 d6 d7 d8 d9 d10 ∧
      (IBAN.new (Gen.ctx R) s false true).isOk =
        (rule06 (dot [2, 3, 4, 5, 6, 7, 2, 3, 4] [d9, d8, d7, d6, d5, d4, d3, d2, d1]) d10) := by
  have hk : Gen.algoTable.get (C06.bytes "DE" ++ [colon] ++ C06.bytes "06") =
      some ⟨C06.bytes "DE:06", .de Gen.de_DE_06, [.accountCode]⟩ := by rfl
  obtain ⟨d1, d2, d3, d4, d5, d6, d7, d8, d9, d10, g1, g2, g3, g4, g5, g6, g7, g8, g9, g10, hs, hok⟩ :=
    live_german_iban R s hv hcc hl hb hname hk rfl rfl
  refine ⟨d1, d2, d3, d4, d5, d6, d7, d8, d9, d10, hs, ?_⟩
  rw [hok]
  exact (de06 Gen.unicode C10.unicode_wf d1 d2 d3 d4 d5 d6 d7 d8 d9 d10 g1 g2 g3 g4 g5 g6 g7 g8 g9 g10 ⟨0⟩).2

theorem live_german_iban_07' (R : Registry) (s : Str)
    (hv : isoValid Gen.table (clean Gen.unicode s) = true)
    (hcc : (clean Gen.unicode s).take 2 = C06.bytes "DE")
    {e : Country} (hl : Gen.table.lookup (C06.bytes "DE") = some e)
    {x : BankEntry} {t : List BankEntry}
    (hb : R.byBankCode (C06.bytes "DE") (lookupKey e ((clean Gen.unicode s).drop 4)) = some (x :: t))
    (hname : x.checksumAlgo = some (C06.bytes "07")) :
    ∃ d1 d2 d3 d4 d5 d6 d7 d8 d9 d10,
      slice ((clean Gen.unicode s).drop 4) 8 18 = acct d1 d2 d3 d4 d5 d6 d7 d8 d9 d10 ∧
      (IBAN.new (Gen.ctx R) s false true).isOk =
        (rule02 (dot [2, 3, 4, 5, 6, 7, 8, 9, 10] [d9, d8, d7, d6, d5, d4, d3, d2, d1]) d10) := by
  have hk : Gen.algoTable.get (C06.bytes "DE" ++ [colon] ++ C06.bytes "07") =
      some ⟨C06.bytes "DE:07", .de Gen.de_DE_07, [.accountCode]⟩ := by rfl
  obtain ⟨d1, d2, d3, d4, d5, d6, d7, d8, d9, d10, g1, g2, g3, g4, g5, g6, g7, g8, g9, g10, hs, hok⟩ :=
    live_german_iban R s hv hcc hl hb hname hk rfl rfl
  refine ⟨d1, d2, d3, d4, d5, d6, d7, d8, d9, d10, hs, ?_⟩
  rw [hok]
  exact (de07 Gen.unicode C10.unicode_wf d1 d2 d3 d4 d5 d6 d7 d8 d9 d10 g1 g2 g3 g4 g5 g6 g7 g8 g9 g10 ⟨0⟩).2

theorem live_german_iban_10' (R : Registry) (s : Str)
    (hv : isoValid Gen.table (clean Gen.unicode s) = true)
    (hcc : (clean Gen.unicode s).take 2 = C06.bytes "DE")
    {e : Country} (hl : Gen.table.lookup (C06.bytes "DE") = some e)
    {x : BankEntry} {t : List BankEntry}
    (hb : R.byBankCode (C06.bytes "DE") (lookupKey e ((clean Gen.unicode s).drop 4)) = some (x :: t))
    (hname : x.checksumAlgo = some (C06.bytes "10")) :
    ∃ d1 d2 d3 d4 d5 d6 d7 d8 d9 d10,
      slice ((clean Gen.unicode s).drop 4) 8 18 = acct d1 d2 d3 d4 d5 d6 d7 d8 d9 d10 ∧
      (IBAN.new (Gen.ctx R) s false true).isOk =
        (rule06 (dot [2, 3, 4, 5, 6, 7, 8, 9, 10] [d9, d8, d7, d6, d5, d4, d3, d2, d1]) d10) := by
  have hk : Gen.algoTable.get (C06.bytes "DE" ++ [colon] ++ C06.bytes "10") =
      some ⟨C06.bytes "DE:10", .de Gen.de_DE_10, [.accountCode]⟩ := by rfl
  obtain ⟨d1, d2, d3, d4, d5, d6, d7, d8, d9, d10, g1, g2, g3, g4, g5, g6, g7, g8, g9, g10, hs, hok⟩ :=
    live_german_iban R s hv hcc hl hb hname hk rfl rfl
  refine ⟨d1, d2, d3, d4, d5, d6, d7, d8, d9, d10, hs, ?_⟩
  rw [hok]
  exact (de10 Gen.unicode C10.unicode_wf d1 d2 d3 d4 d5 d6 d7 d8 d9 d10 g1 g2 g3 g4 g5 g6 g7 g8 g9 g10 ⟨0⟩).2

theorem live_german_iban_11' (R : Registry) (s : Str)
    (hv : isoValid Gen.table (clean Gen.unicode s) = true)
    (hcc : (clean Gen.unicode s).take 2 = C06.bytes "DE")
    {e : Country} (hl : Gen.table.lookup (C06.bytes "DE") = some e)
    {x : BankEntry} {t : List BankEntry}
    (hb : R.byBankCode (C06.bytes "DE") (lookupKey e ((clean Gen.unicode s).drop 4)) = some (x :: t))
    (hname : x.checksumAlgo = some (C06.bytes "11")) :
    ∃ d1 d2 d3 d4 d5 d6 d7 d8 d9 d10,
      slice ((clean Gen.unicode s).drop 4) 8 18 = acct d1 d2 d3 d4 d5 d6 d7 d8 d9 d10 ∧
      (IBAN.new (Gen.ctx R) s false true).isOk =
        (rule11 (dot [2, 3, 4, 5, 6, 7, 8, 9, 10] [d9, d8, d7, d6, d5, d4, d3, d2, d1]) d10) := by
  have hk : Gen.algoTable.get (C06.bytes "DE" ++ [colon] ++ C06.bytes "11") =
      some ⟨C06.bytes "DE:11", .de Gen.de_DE_11, [.accountCode]⟩ := by rfl
  obtain ⟨d1, d2, d3, d4, d5, d6, d7, d8, d9, d10, g1, g2, g3, g4, g5, g6, g7, g8, g9, g10, hs, hok⟩ :=
    live_german_iban R s hv hcc hl hb hname hk rfl rfl
  refine ⟨d1, d2, d3, d4, d5, d6, d7, d8, d9, d10, hs, ?_⟩
  rw [hok]
  exact (de11 Gen.unicode C10.unicode_wf d1 d2 d3 d4 d5 d6 d7 d8 d9 d10 g1 g2 g3 g4 g5 g6 g7 g8 g9 g10 ⟨0⟩).2

theorem live_german_iban_13' (R : Registry) (s : Str)
    (hv : isoValid Gen.table (clean Gen.unicode s) = true)
    (hcc : (clean Gen.unicode s).take 2 = C06.bytes "DE")
    {e : Country} (hl : Gen.table.lookup (C06.bytes "DE") = some e)
    {x : BankEntry} {t : List BankEntry}
    (hb : R.byBankCode (C06.bytes "DE") (lookupKey e ((clean Gen.unicode s).drop 4)) = some (x :: t))
    (hname : x.checksumAlgo = some (C06.bytes "13")) :
    ∃ d1 d2 d3 d4 d5 d6 d7 d8 d9 d10,
      slice ((clean Gen.unicode s).drop 4) 8 18 = acct d1 d2 d3 d4 d5 d6 d7 d8 d9 d10 ∧
      (IBAN.new (Gen.ctx R) s false true).isOk =
        (rule10 (dotQ [2, 1, 2, 1, 2, 1] [d7, d6, d5, d4, d3, d2]) d8) := by
  have hk : Gen.algoTable.get (C06.bytes "DE" ++ [colon] ++ C06.bytes "13") =
      some ⟨C06.bytes "DE:13", .de Gen.de_DE_13, [.accountCode]⟩ := by rfl
  obtain ⟨d1, d2, d3, d4, d5, d6, d7, d8, d9, d10, g1, g2, g3, g4, g5, g6, g7, g8, g9, g10, hs, hok⟩ :=
    live_german_iban R s hv hcc hl hb hname hk rfl rfl
  refine ⟨d1, d2, d3, d4, d5, d6, d7, d8, d9, d10, hs, ?_⟩
  rw [hok]
  exact (de13 Gen.unicode C10.unicode_wf d1 d2 d3 d4 d5 d6 d7 d8 d9 d10 g1 g2 g3 g4 g5 g6 g7 g8 g9 g10 ⟨0⟩).2

theorem live_german_iban_14' (R : Registry) (s : Str)
    (hv : isoValid Gen.table (clean Gen.unicode s) = true)
    (hcc : (clean Gen.unicode s).take 2 = C06.bytes "DE")
    {e : Country} (hl : Gen.table.lookup (C06.bytes "DE") = some e)
    {x : BankEntry} {t : List BankEntry}
    (hb : R.byBankCode (C06.bytes "DE") (lookupKey e ((clean Gen.unicode s).drop 4)) = some (x :: t))
    (hname : x.checksumAlgo = some (C06.bytes "14")) :
    ∃ d1 d2 d3 d4 d5 d6 d7 d8 d9 d10,
      slice ((clean Gen.unicode s).drop 4) 8 18 = acct d1 d2 d3 d4 d5 d6 d7 d8 d9 d10 ∧
      (IBAN.new (Gen.ctx R) s false true).isOk =
        (rule02 (dot [2, 3, 4, 5, 6, 7] [d9, d8, d7, d6, d5, d4]) d10) := by
  have hk : Gen.algoTable.get (C06.bytes "DE" ++ [colon] ++ C06.bytes "14") =
      some ⟨C06.bytes "DE:14", .de Gen.de_DE_14, [.accountCode]⟩ := by rfl
  obtain ⟨d1, d2, d3, d4, d5, d6, d7, d8, d9, d10, g1, g2, g3, g4, g5, g6, g7, g8, g9, g10, hs, hok⟩ :=
    live_german_iban R s hv hcc hl hb hname hk rfl rfl
  refine ⟨d1, d2, d3, d4, d5, d6, d7, d8, d9, d10, hs, ?_⟩
  rw [hok]
  exact (de14 Gen.unicode C10.unicode_wf d1 d2 d3 d4 d5 d6 d7 d8 d9 d10 g1 g2 g3 g4 g5 g6 g7 g8 g9 g10 ⟨0⟩).2

theorem live_german_iban_15' (R : Registry) (s : Str)
    (hv : isoValid Gen.table (clean Gen.unicode s) = true)
    (hcc : (clean Gen.unicode s).take 2 = C06.bytes "DE")
    {e : Country} (hl : Gen.table.lookup (C06.bytes "DE") = some e)
    {x : BankEntry} {t : List BankEntry}
    (hb : R.byBankCode (C06.bytes "DE") (lookupKey e ((clean Gen.unicode s).drop 4)) = some (x :: t))
    (hname : x.checksumAlgo = some (C06.bytes "15")) :
    ∃ d1 d2 d3 d4 d5 d6 d7 d8 d9 d10,
      slice ((clean Gen.unicode s).drop 4) 8 18 = acct d1 d2 d3 d4 d5 d6 d7 d8 d9 d10 ∧
      (IBAN.new (Gen.ctx R) s false true).isOk =
        (rule06 (dot [2, 3, 4, 5] [d9, d8, d7, d6]) d10) := by
  have hk : Gen.algoTable.get (C06.bytes "DE" ++ [colon] ++ C06.bytes "15") =
      some ⟨C06.bytes "DE:15", .de Gen.de_DE_15, [.accountCode]⟩ := by rfl
  obtain ⟨d1, d2, d3, d4, d5, d6, d7, d8, d9, d10, g1, g2, g3, g4, g5, g6, g7, g8, g9, g10, hs, hok⟩ :=
    live_german_iban R s hv hcc hl hb hname hk rfl rfl
  refine ⟨d1, d2, d3, d4, d5, d6, d7, d8, d9, d10, hs, ?_⟩
  rw [hok]
  exact (de15 Gen.unicode C10.unicode_wf d1 d2 d3 d4 d5 d6 d7 d8 d9 d10 g1 g2 g3 g4 g5 g6 g7 g8 g9 g10 ⟨0⟩).2

theorem live_german_iban_18' (R : Registry) (s : Str)
    (hv : isoValid Gen.table (clean Gen.unicode s) = true)
    (hcc : (clean Gen.unicode s).take 2 = C06.bytes "DE")
    {e : Country} (hl : Gen.table.lookup (C06.bytes "DE") = some e)
    {x : BankEntry} {t : List BankEntry}
    (hb : R.byBankCode (C06.bytes "DE") (lookupKey e ((clean Gen.unicode s).drop 4)) = some (x :: t))
    (hname : x.checksumAlgo = some (C06.bytes "18")) :
    ∃ d1 d2 d3 d4 d5 d6 d7 d8 d9 d10,
      slice ((clean Gen.unicode s).drop 4) 8 18 = acct d1 d2 d3 d4 d5 d6 d7 d8 d9 d10 ∧
      (IBAN.new (Gen.ctx R) s false true).isOk =
        (rule10 (dot [3, 9, 7, 1, 3, 9, 7, 1, 3] [d9, d8, d7, d6, d5, d4, d3, d2, d1]) d10) := by
  have hk : Gen.algoTable.get (C06.bytes "DE" ++ [colon] ++ C06.bytes "18") =
      some ⟨C06.bytes "DE:18", .de Gen.de_DE_18, [.accountCode]⟩ := by rfl
  obtain ⟨d1, d2, d3, d4, d5, d6, d7, d8, d9, d10, g1, g2, g3, g4, g5, g6, g7, g8, g9, g10, hs, hok⟩ :=
    live_german_iban R s hv hcc hl hb hname hk rfl rfl
  refine ⟨d1, d2, d3, d4, d5, d6, d7, d8, d9, d10, hs, ?_⟩
  rw [hok]
  exact (de18 Gen.unicode C10.unicode_wf d1 d2 d3 d4 d5 d6 d7 d8 d9 d10 g1 g2 g3 g4 g5 g6 g7 g8 g9 g10 ⟨0⟩).2

theorem live_german_iban_19' (R : Registry) (s : Str)
    (hv : isoValid Gen.table (clean Gen.unicode s) = true)
    (hcc : (clean Gen.unicode s).take 2 = C06.bytes "DE")
    {e : Country} (hl : Gen.table.lookup (C06.bytes "DE") = some e)
    {x : BankEntry} {t : List BankEntry}
    (hb : R.byBankCode (C06.bytes "DE") (lookupKey e ((clean Gen.unicode s).drop 4)) = some (x :: t))
    (hname : x.checksumAlgo = some (C06.bytes "19")) :
    ∃ d1 d2 d3 d4 d5 d6 d7 d8 d9 d10,
      slice ((clean Gen.unicode s).drop 4) 8 18 = acct d1 d2 d3 d4 d5 d6 d7 d8 d9 d10 ∧
      (IBAN.new (Gen.ctx R) s false true).isOk =
        (rule06 (dot [2, 3, 4, 5, 6, 7, 8, 9, 1] [d9, d8, d7, d6, d5, d4, d3, d2, d1]) d10) := by
  have hk : Gen.algoTable.get (C06.bytes "DE" ++ [colon] ++ C06.bytes "19") =
      some ⟨C06.bytes "DE:19", .de Gen.de_DE_19, [.accountCode]⟩ := by rfl
  obtain ⟨d1, d2, d3, d4, d5, d6, d7, d8, d9, d10, g1, g2, g3, g4, g5, g6, g7, g8, g9, g10, hs, hok⟩ :=
    live_german_iban R s hv hcc hl hb hname hk rfl rfl
  refine ⟨d1, d2, d3, d4, d5, d6, d7, d8, d9, d10, hs, ?_⟩
  rw [hok]
  exact (de19 Gen.unicode C10.unicode_wf d1 d2 d3 d4 d5 d6 d7 d8 d9 d10 g1 g2 g3 g4 g5 g6 g7 g8 g9 g10 ⟨0⟩).2

theorem live_german_iban_20' (R : Registry) (s : Str)
    (hv : isoValid Gen.table (clean Gen.unicode s) = true)
    (hcc : (clean Gen.unicode s).take 2 = C06.bytes "DE")
    {e : Country} (hl : Gen.table.lookup (C06.bytes "DE") = some e)
    {x : BankEntry} {t : List BankEntry}
    (hb : R.byBankCode (C06.bytes "DE") (lookupKey e ((clean Gen.unicode s).drop 4)) = some (x :: t))
    (hname : x.checksumAlgo = some (C06.bytes "20")) :
    ∃ d1 d2 d3 d4 d5 d6 d7 d8 d9 d10,
      slice ((clean Gen.unicode s).drop 4) 8 18 = acct d1 d2 d3 d4 d5 d6 d7 d8 d9 d10 ∧
      (IBAN.new (Gen.ctx R) s false true).isOk =
        (rule06 (dot [2, 3, 4, 5, 6, 7, 8, 9, 3] [d9, d8, d7, d6, d5, d4, d3, d2, d1]) d10) := by
  have hk : Gen.algoTable.get (C06.bytes "DE" ++ [colon] ++ C06.bytes "20") =
      some ⟨C06.bytes "DE:20", .de Gen.de_DE_20, [.accountCode]⟩ := by rfl
  obtain ⟨d1, d2, d3, d4, d5, d6, d7, d8, d9, d10, g1, g2, g3, g4, g5, g6, g7, g8, g9, g10, hs, hok⟩ :=
    live_german_iban R s hv hcc hl hb hname hk rfl rfl
  refine ⟨d1, d2, d3, d4, d5, d6, d7, d8, d9, d10, hs, ?_⟩
  rw [hok]
  exact (de20 Gen.unicode C10.unicode_wf d1 d2 d3 d4 d5 d6 d7 d8 d9 d10 g1 g2 g3 g4 g5 g6 g7 g8 g9 g10 ⟨0⟩).2

theorem live_german_iban_22' (R : Registry) (s : Str)
    (hv : isoValid Gen.table (clean Gen.unicode s) = true)
    (hcc : (clean Gen.unicode s).take 2 = C06.bytes "DE")
    {e : Country} (hl : Gen.table.lookup (C06.bytes "DE") = some e)
    {x : BankEntry} {t : List BankEntry}
    (hb : R.byBankCode (C06.bytes "DE") (lookupKey e ((clean Gen.unicode s).drop 4)) = some (x :: t))
    (hname : x.checksumAlgo = some (C06.bytes "22")) :
    ∃ d1 d2 d3 d4 d5 d6 d7 d8 d9 d10,
      slice ((clean Gen.unicode s).drop 4) 8 18 = acct d1 d2 d3 d4 d5 d6 d7 d8 d9 d10 ∧
      (IBAN.new (Gen.ctx R) s false true).isOk =
        (rule10 (dotM10 [3, 1, 3, 1, 3, 1, 3, 1, 3] [d9, d8, d7, d6, d5, d4, d3, d2, d1]) d10) := by
  have hk : Gen.algoTable.get (C06.bytes "DE" ++ [colon] ++ C06.bytes "22") =
      some ⟨C06.bytes "DE:22", .de Gen.de_DE_22, [.accountCode]⟩ := by rfl
  obtain ⟨d1, d2, d3, d4, d5, d6, d7, d8, d9, d10, g1, g2, g3, g4, g5, g6, g7, g8, g9, g10, hs, hok⟩ :=
    live_german_iban R s hv hcc hl hb hname hk rfl rfl
  refine ⟨d1, d2, d3, d4, d5, d6, d7, d8, d9, d10, hs, ?_⟩
  rw [hok]
  exact (de22 Gen.unicode C10.unicode_wf d1 d2 d3 d4 d5 d6 d7 d8 d9 d10 g1 g2 g3 g4 g5 g6 g7 g8 g9 g10 ⟨0⟩).2

theorem live_german_iban_28' (R : Registry) (s : Str)
    (hv : isoValid Gen.table (clean Gen.unicode s) = true)
    (hcc : (clean Gen.unicode s).take 2 = C06.bytes "DE")
    {e : Country} (hl : Gen.table.lookup (C06.bytes "DE") = some e)
    {x : BankEntry} {t : List BankEntry}
    (hb : R.byBankCode (C06.bytes "DE") (lookupKey e ((clean Gen.unicode s).drop 4)) = some (x :: t))
    (hname : x.checksumAlgo = some (C06.bytes "28")) :
    ∃ d1 d2 d3 d4 d5 d6 d7 d8 d9 d10,
      slice ((clean Gen.unicode s).drop 4) 8 18 = acct d1 d2 d3 d4 d5 d6 d7 d8 d9 d10 ∧
      (IBAN.new (Gen.ctx R) s false true).isOk =
        (rule06 (dot [2, 3, 4, 5, 6, 7, 8] [d7, d6, d5, d4, d3, d2, d1]) d8) := by
  have hk : Gen.algoTable.get (C06.bytes "DE" ++ [colon] ++ C06.bytes "28") =
      some ⟨C06.bytes "DE:28", .de Gen.de_DE_28, [.accountCode]⟩ := by rfl
  obtain ⟨d1, d2, d3, d4, d5, d6, d7, d8, d9, d10, g1, g2, g3, g4, g5, g6, g7, g8, g9, g10, hs, hok⟩ :=
    live_german_iban R s hv hcc hl hb hname hk rfl rfl
  refine ⟨d1, d2, d3, d4, d5, d6, d7, d8, d9, d10, hs, ?_⟩
  rw [hok]
  exact (de28 Gen.unicode C10.unicode_wf d1 d2 d3 d4 d5 d6 d7 d8 d9 d10 g1 g2 g3 g4 g5 g6 g7 g8 g9 g10 ⟨0⟩).2

theorem live_german_iban_32' (R : Registry) (s : Str)
    (hv : isoValid Gen.table (clean Gen.unicode s) = true)
    (hcc : (clean Gen.unicode s).take 2 = C06.bytes "DE")
    {e : Country} (hl : Gen.table.lookup (C06.bytes "DE") = some e)
    {x : BankEntry} {t : List BankEntry}
    (hb : R.byBankCode (C06.bytes "DE") (lookupKey e ((clean Gen.unicode s).drop 4)) = some (x :: t))
    (hname : x.checksumAlgo = some (C06.bytes "32")) :
    ∃ d1 d2 d3 d4 d5 d6 d7 d8 d9 d10,
      slice ((clean Gen.unicode s).drop 4) 8 18 = acct d1 d2 d3 d4 d5 d6 d7 d8 d9 d10 ∧
      (IBAN.new (Gen.ctx R) s false true).isOk =
        (rule06 (dot [2, 3, 4, 5, 6, 7] [d9, d8, d7, d6, d5, d4]) d10) := by
  have hk : Gen.algoTable.get (C06.bytes "DE" ++ [colon] ++ C06.bytes "32") =
      some ⟨C06.bytes "DE:32", .de Gen.de_DE_32, [.accountCode]⟩ := by rfl
  obtain ⟨d1, d2, d3, d4, d5, d6, d7, d8, d9, d10, g1, g2, g3, g4, g5, g6, g7, g8, g9, g10, hs, hok⟩ :=
    live_german_iban R s hv hcc hl hb hname hk rfl rfl
  refine ⟨d1, d2, d3, d4, d5, d6, d7, d8, d9, d10, hs, ?_⟩
  rw [hok]
  exact (de32 Gen.unicode C10.unicode_wf d1 d2 d3 d4 d5 d6 d7 d8 d9 d10 g1 g2 g3 g4 g5 g6 g7 g8 g9 g10 ⟨0⟩).2

theorem live_german_iban_33' (R : Registry) (s : Str)
    (hv : isoValid Gen.table (clean Gen.unicode s) = true)
    (hcc : (clean Gen.unicode s).take 2 = C06.bytes "DE")
    {e : Country} (hl : Gen.table.lookup (C06.bytes "DE") = some e)
    {x : BankEntry} {t : List BankEntry}
    (hb : R.byBankCode (C06.bytes "DE") (lookupKey e ((clean Gen.unicode s).drop 4)) = some (x :: t))
    (hname : x.checksumAlgo = some (C06.bytes "33")) :
    ∃ d1 d2 d3 d4 d5 d6 d7 d8 d9 d10,
      slice ((clean Gen.unicode s).drop 4) 8 18 = acct d1 d2 d3 d4 d5 d6 d7 d8 d9 d10 ∧
      (IBAN.new (Gen.ctx R) s false true).isOk =
        (rule06 (dot [2, 3, 4, 5, 6] [d9, d8, d7, d6, d5]) d10) := by
  have hk : Gen.algoTable.get (C06.bytes "DE" ++ [colon] ++ C06.bytes "33") =
      some ⟨C06.bytes "DE:33", .de Gen.de_DE_33, [.accountCode]⟩ := by rfl
  obtain ⟨d1, d2, d3, d4, d5, d6, d7, d8, d9, d10, g1, g2, g3, g4, g5, g6, g7, g8, g9, g10, hs, hok⟩ :=
    live_german_iban R s hv hcc hl hb hname hk rfl rfl
  refine ⟨d1, d2, d3, d4, d5, d6, d7, d8, d9, d10, hs, ?_⟩
  rw [hok]
  exact (de33 Gen.unicode C10.unicode_wf d1 d2 d3 d4 d5 d6 d7 d8 d9 d10 g1 g2 g3 g4 g5 g6 g7 g8 g9 g10 ⟨0⟩).2

theorem live_german_iban_34' (R : Registry) (s : Str)
    (hv : isoValid Gen.table (clean Gen.unicode s) = true)
    (hcc : (clean Gen.unicode s).take 2 = C06.bytes "DE")
    {e : Country} (hl : Gen.table.lookup (C06.bytes "DE") = some e)
    {x : BankEntry} {t : List BankEntry}
    (hb : R.byBankCode (C06.bytes "DE") (lookupKey e ((clean Gen.unicode s).drop 4)) = some (x :: t))
    (hname : x.checksumAlgo = some (C06.bytes "34")) :
    ∃ d1 d2 d3 d4 d5 d6 d7 d8 d9 d10,
      slice ((clean Gen.unicode s).drop 4) 8 18 = acct d1 d2 d3 d4 d5 d6 d7 d8 d9 d10 ∧
      (IBAN.new (Gen.ctx R) s false true).isOk =
        (rule06 (dot [2, 4, 8, 5, 10, 9, 7] [d7, d6, d5, d4, d3, d2, d1]) d8) := by
  have hk : Gen.algoTable.get (C06.bytes "DE" ++ [colon] ++ C06.bytes "34") =
      some ⟨C06.bytes "DE:34", .de Gen.de_DE_34, [.accountCode]⟩ := by rfl
  obtain ⟨d1, d2, d3, d4, d5, d6, d7, d8, d9, d10, g1, g2, g3, g4, g5, g6, g7, g8, g9, g10, hs, hok⟩ :=
    live_german_iban R s hv hcc hl hb hname hk rfl rfl
  refine ⟨d1, d2, d3, d4, d5, d6, d7, d8, d9, d10, hs, ?_⟩
  rw [hok]
  exact (de34 Gen.unicode C10.unicode_wf d1 d2 d3 d4 d5 d6 d7 d8 d9 d10 g1 g2 g3 g4 g5 g6 g7 g8 g9 g10 ⟨0⟩).2

theorem live_german_iban_38' (R : Registry) (s : Str)
    (hv : isoValid Gen.table (clean Gen.unicode s) = true)
    (hcc : (clean Gen.unicode s).take 2 = C06.bytes "DE")
    {e : Country} (hl : Gen.table.lookup (C06.bytes "DE") = some e)
    {x : BankEntry} {t : List BankEntry}
    (hb : R.byBankCode (C06.bytes "DE") (lookupKey e ((clean Gen.unicode s).drop 4)) = some (x :: t))
    (hname : x.checksumAlgo = some (C06.bytes "38")) :
    ∃ d1 d2 d3 d4 d5 d6 d7 d8 d9 d10,
      slice ((clean Gen.unicode s).drop 4) 8 18 = acct d1 d2 d3 d4 d5 d6 d7 d8 d9 d10 ∧
      (IBAN.new (Gen.ctx R) s false true).isOk =
        (rule06 (dot [2, 4, 8, 5, 10, 9] [d9, d8, d7, d6, d5, d4]) d10) := by
  have hk : Gen.algoTable.get (C06.bytes "DE" ++ [colon] ++ C06.bytes "38") =
      some ⟨C06.bytes "DE:38", .de Gen.de_DE_38, [.accountCode]⟩ := by rfl
  obtain ⟨d1, d2, d3, d4, d5, d6, d7, d8, d9, d10, g1, g2, g3, g4, g5, g6, g7, g8, g9, g10, hs, hok⟩ :=
    live_german_iban R s hv hcc hl hb hname hk rfl rfl
  refine ⟨d1, d2, d3, d4, d5, d6, d7, d8, d9, d10, hs, ?_⟩
  rw [hok]
  exact (de38 Gen.unicode C10.unicode_wf d1 d2 d3 d4 d5 d6 d7 d8 d9 d10 g1 g2 g3 g4 g5 g6 g7 g8 g9 g10 ⟨0⟩).2

theorem live_german_iban_60' (R : Registry) (s : Str)
    (hv : isoValid Gen.table (clean Gen.unicode s) = true)
    (hcc : (clean Gen.unicode s).take 2 = C06.bytes "DE")
    {e : Country} (hl : Gen.table.lookup (C06.bytes "DE") = some e)
    {x : BankEntry} {t : List BankEntry}
    (hb : R.byBankCode (C06.bytes "DE") (lookupKey e ((clean Gen.unicode s).drop 4)) = some (x :: t))
    (hname : x.checksumAlgo = some (C06.bytes "60")) :
    ∃ d1 d2 d3 d4 d5 d6 d7 d8 d9 d10,
      slice ((clean Gen.unicode s).drop 4) 8 18 = acct d1 d2 d3 d4 d5 d6 d7 d8 d9 d10 ∧
      (IBAN.new (Gen.ctx R) s false true).isOk =
        (rule10 (dotQ [2, 1, 2, 1, 2, 1, 2] [d9, d8, d7, d6, d5, d4, d3]) d10) := by
  have hk : Gen.algoTable.get (C06.bytes "DE" ++ [colon] ++ C06.bytes "60") =
      some ⟨C06.bytes "DE:60", .de Gen.de_DE_60, [.accountCode]⟩ := by rfl
  obtain ⟨d1, d2, d3, d4, d5, d6, d7, d8, d9, d10, g1, g2, g3, g4, g5, g6, g7, g8, g9, g10, hs, hok⟩ :=
    live_german_iban R s hv hcc hl hb hname hk rfl rfl
  refine ⟨d1, d2, d3, d4, d5, d6, d7, d8, d9, d10, hs, ?_⟩
  rw [hok]
  exact (de60 Gen.unicode C10.unicode_wf d1 d2 d3 d4 d5 d6 d7 d8 d9 d10 g1 g2 g3 g4 g5 g6 g7 g8 g9 g10 ⟨0⟩).2

theorem live_german_iban_16' (R : Registry) (s : Str)
    (hv : isoValid Gen.table (clean Gen.unicode s) = true)
    (hcc : (clean Gen.unicode s).take 2 = C06.bytes "DE")
    {e : Country} (hl : Gen.table.lookup (C06.bytes "DE") = some e)
    {x : BankEntry} {t : List BankEntry}
    (hb : R.byBankCode (C06.bytes "DE") (lookupKey e ((clean Gen.unicode s).drop 4)) = some (x :: t))
    (hname : x.checksumAlgo = some (C06.bytes "16")) :
    ∃ d1 d2 d3 d4 d5 d6 d7 d8 d9 d10,
      slice ((clean Gen.unicode s).drop 4) 8 18 = acct d1 d2 d3 d4 d5 d6 d7 d8 d9 d10 ∧
      (IBAN.new (Gen.ctx R) s false true).isOk =
        (rule16 (dot [2, 3, 4, 5, 6, 7, 2, 3, 4] [d9, d8, d7, d6, d5, d4, d3, d2, d1]) d9 d10) := by
  have hk : Gen.algoTable.get (C06.bytes "DE" ++ [colon] ++ C06.bytes "16") =
      some ⟨C06.bytes "DE:16", .de Gen.de_DE_16, [.accountCode]⟩ := by rfl
  obtain ⟨d1, d2, d3, d4, d5, d6, d7, d8, d9, d10, g1, g2, g3, g4, g5, g6, g7, g8, g9, g10, hs, hok⟩ :=
    live_german_iban R s hv hcc hl hb hname hk rfl rfl
  refine ⟨d1, d2, d3, d4, d5, d6, d7, d8, d9, d10, hs, ?_⟩
  rw [hok]
  exact (de16 Gen.unicode C10.unicode_wf d1 d2 d3 d4 d5 d6 d7 d8 d9 d10 g1 g2 g3 g4 g5 g6 g7 g8 g9 g10 ⟨0⟩).2

theorem live_german_iban_23' (R : Registry) (s : Str)
    (hv : isoValid Gen.table (clean Gen.unicode s) = true)
    (hcc : (clean Gen.unicode s).take 2 = C06.bytes "DE")
    {e : Country} (hl : Gen.table.lookup (C06.bytes "DE") = some e)
    {x : BankEntry} {t : List BankEntry}
    (hb : R.byBankCode (C06.bytes "DE") (lookupKey e ((clean Gen.unicode s).drop 4)) = some (x :: t))
    (hname : x.checksumAlgo = some (C06.bytes "23")) :
    ∃ d1 d2 d3 d4 d5 d6 d7 d8 d9 d10,
      slice ((clean Gen.unicode s).drop 4) 8 18 = acct d1 d2 d3 d4 d5 d6 d7 d8 d9 d10 ∧
      (IBAN.new (Gen.ctx R) s false true).isOk =
        (rule16 (dot [2, 3, 4, 5, 6, 7] [d6, d5, d4, d3, d2, d1]) d6 d7) := by
  have hk : Gen.algoTable.get (C06.bytes "DE" ++ [colon] ++ C06.bytes "23") =
      some ⟨C06.bytes "DE:23", .de Gen.de_DE_23, [.accountCode]⟩ := by rfl
  obtain ⟨d1, d2, d3, d4, d5, d6, d7, d8, d9, d10, g1, g2, g3, g4, g5, g6, g7, g8, g9, g10, hs, hok⟩ :=
    live_german_iban R s hv hcc hl hb hname hk rfl rfl
  refine ⟨d1, d2, d3, d4, d5, d6, d7, d8, d9, d10, hs, ?_⟩
  rw [hok]
  exact (de23 Gen.unicode C10.unicode_wf d1 d2 d3 d4 d5 d6 d7 d8 d9 d10 g1 g2 g3 g4 g5 g6 g7 g8 g9 g10 ⟨0⟩).2

theorem live_german_iban_25' (R : Registry) (s : Str)
    (hv : isoValid Gen.table (clean Gen.unicode s) = true)
    (hcc : (clean Gen.unicode s).take 2 = C06.bytes "DE")
    {e : Country} (hl : Gen.table.lookup (C06.bytes "DE") = some e)
    {x : BankEntry} {t : List BankEntry}
    (hb : R.byBankCode (C06.bytes "DE") (lookupKey e ((clean Gen.unicode s).drop 4)) = some (x :: t))
    (hname : x.checksumAlgo = some (C06.bytes "25")) :
    ∃ d1 d2 d3 d4 d5 d6 d7 d8 d9 d10,
      slice ((clean Gen.unicode s).drop 4) 8 18 = acct d1 d2 d3 d4 d5 d6 d7 d8 d9 d10 ∧
      (IBAN.new (Gen.ctx R) s false true).isOk =
        (rule25 (dot [2, 3, 4, 5, 6, 7, 8, 9] [d9, d8, d7, d6, d5, d4, d3, d2]) d2 d10) := by
  have hk : Gen.algoTable.get (C06.bytes "DE" ++ [colon] ++ C06.bytes "25") =
      some ⟨C06.bytes "DE:25", .de Gen.de_DE_25, [.accountCode]⟩ := by rfl
  obtain ⟨d1, d2, d3, d4, d5, d6, d7, d8, d9, d10, g1, g2, g3, g4, g5, g6, g7, g8, g9, g10, hs, hok⟩ :=
    live_german_iban R s hv hcc hl hb hname hk rfl rfl
  refine ⟨d1, d2, d3, d4, d5, d6, d7, d8, d9, d10, hs, ?_⟩
  rw [hok]
  exact (de25 Gen.unicode C10.unicode_wf d1 d2 d3 d4 d5 d6 d7 d8 d9 d10 g1 g2 g3 g4 g5 g6 g7 g8 g9 g10 ⟨0⟩).2

theorem live_german_iban_08' (R : Registry) (s : Str)
    (hv : isoValid Gen.table (clean Gen.unicode s) = true)
    (hcc : (clean Gen.unicode s).take 2 = C06.bytes "DE")
    {e : Country} (hl : Gen.table.lookup (C06.bytes "DE") = some e)
    {x : BankEntry} {t : List BankEntry}
    (hb : R.byBankCode (C06.bytes "DE") (lookupKey e ((clean Gen.unicode s).drop 4)) = some (x :: t))
    (hname : x.checksumAlgo = some (C06.bytes "08")) :
    ∃ d1 d2 d3 d4 d5 d6 d7 d8 d9 d10,
      slice ((clean Gen.unicode s).drop 4) 8 18 = acct d1 d2 d3 d4 d5 d6 d7 d8 d9 d10 ∧
      (IBAN.new (Gen.ctx R) s false true).isOk =
        ((decide (num [d1, d2, d3, d4, d5, d6, d7, d8, d9, d10] 0 < 60000) || rule10 (dotQ [2, 1, 2, 1, 2, 1, 2, 1, 2] [d9, d8, d7, d6, d5, d4, d3, d2, d1]) d10)) := by
  have hk : Gen.algoTable.get (C06.bytes "DE" ++ [colon] ++ C06.bytes "08") =
      some ⟨C06.bytes "DE:08", .de Gen.de_DE_08, [.accountCode]⟩ := by rfl
  obtain ⟨d1, d2, d3, d4, d5, d6, d7, d8, d9, d10, g1, g2, g3, g4, g5, g6, g7, g8, g9, g10, hs, hok⟩ :=
    live_german_iban R s hv hcc hl hb hname hk rfl rfl
  refine ⟨d1, d2, d3, d4, d5, d6, d7, d8, d9, d10, hs, ?_⟩
  rw [hok]
  exact (de08 Gen.unicode C10.unicode_wf d1 d2 d3 d4 d5 d6 d7 d8 d9 d10 g1 g2 g3 g4 g5 g6 g7 g8 g9 g10 ⟨0⟩).2

theorem live_german_iban_99' (R : Registry) (s : Str)
    (hv : isoValid Gen.table (clean Gen.unicode s) = true)
    (hcc : (clean Gen.unicode s).take 2 = C06.bytes "DE")
    {e : Country} (hl : Gen.table.lookup (C06.bytes "DE") = some e)
    {x : BankEntry} {t : List BankEntry}
    (hb : R.byBankCode (C06.bytes "DE") (lookupKey e ((clean Gen.unicode s).drop 4)) = some (x :: t))
    (hname : x.checksumAlgo = some (C06.bytes "99")) :
    ∃ d1 d2 d3 d4 d5 d6 d7 d8 d9 d10,
      slice ((clean Gen.unicode s).drop 4) 8 18 = acct d1 d2 d3 d4 d5 d6 d7 d8 d9 d10 ∧
      (IBAN.new (Gen.ctx R) s false true).isOk =
        ((decide (396000000 ≤ num [d1, d2, d3, d4, d5, d6, d7, d8, d9, d10] 0 ∧ num [d1, d2, d3, d4, d5, d6, d7, d8, d9, d10] 0 ≤ 499999999) || rule06 (dot [2, 3, 4, 5, 6, 7, 2, 3, 4] [d9, d8, d7, d6, d5, d4, d3, d2, d1]) d10)) := by
  have hk : Gen.algoTable.get (C06.bytes "DE" ++ [colon] ++ C06.bytes "99") =
      some ⟨C06.bytes "DE:99", .de Gen.de_DE_99, [.accountCode]⟩ := by rfl
  obtain ⟨d1, d2, d3, d4, d5, d6, d7, d8, d9, d10, g1, g2, g3, g4, g5, g6, g7, g8, g9, g10, hs, hok⟩ :=
    live_german_iban R s hv hcc hl hb hname hk rfl rfl
  refine ⟨d1, d2, d3, d4, d5, d6, d7, d8, d9, d10, hs, ?_⟩
  rw [hok]
  exact (de99 Gen.unicode C10.unicode_wf d1 d2 d3 d4 d5 d6 d7 d8 d9 d10 g1 g2 g3 g4 g5 g6 g7 g8 g9 g10 ⟨0⟩).2

theorem live_german_iban_63' (R : Registry) (s : Str)
    (hv : isoValid Gen.table (clean Gen.unicode s) = true)
    (hcc : (clean Gen.unicode s).take 2 = C06.bytes "DE")
    {e : Country} (hl : Gen.table.lookup (C06.bytes "DE") = some e)
    {x : BankEntry} {t : List BankEntry}
    (hb : R.byBankCode (C06.bytes "DE") (lookupKey e ((clean Gen.unicode s).drop 4)) = some (x :: t))
    (hname : x.checksumAlgo = some (C06.bytes "63")) :
    ∃ d1 d2 d3 d4 d5 d6 d7 d8 d9 d10,
      slice ((clean Gen.unicode s).drop 4) 8 18 = acct d1 d2 d3 d4 d5 d6 d7 d8 d9 d10 ∧
      (IBAN.new (Gen.ctx R) s false true).isOk =
        ((decide (d1 = 0) && rule10 (dotQ [2, 1, 2, 1, 2, 1] [d7, d6, d5, d4, d3, d2]) d8)) := by
  have hk : Gen.algoTable.get (C06.bytes "DE" ++ [colon] ++ C06.bytes "63") =
      some ⟨C06.bytes "DE:63", .de Gen.de_DE_63, [.accountCode]⟩ := by rfl
  obtain ⟨d1, d2, d3, d4, d5, d6, d7, d8, d9, d10, g1, g2, g3, g4, g5, g6, g7, g8, g9, g10, hs, hok⟩ :=
    live_german_iban R s hv hcc hl hb hname hk rfl rfl
  refine ⟨d1, d2, d3, d4, d5, d6, d7, d8, d9, d10, hs, ?_⟩
  rw [hok]
  exact (de63 Gen.unicode C10.unicode_wf d1 d2 d3 d4 d5 d6 d7 d8 d9 d10 g1 g2 g3 g4 g5 g6 g7 g8 g9 g10 ⟨0⟩).2

theorem live_german_iban_17' (R : Registry) (s : Str)
    (hv : isoValid Gen.table (clean Gen.unicode s) = true)
    (hcc : (clean Gen.unicode s).take 2 = C06.bytes "DE")
    {e : Country} (hl : Gen.table.lookup (C06.bytes "DE") = some e)
    {x : BankEntry} {t : List BankEntry}
    (hb : R.byBankCode (C06.bytes "DE") (lookupKey e ((clean Gen.unicode s).drop 4)) = some (x :: t))
    (hname : x.checksumAlgo = some (C06.bytes "17")) :
    ∃ d1 d2 d3 d4 d5 d6 d7 d8 d9 d10,
      slice ((clean Gen.unicode s).drop 4) 8 18 = acct d1 d2 d3 d4 d5 d6 d7 d8 d9 d10 ∧
      (IBAN.new (Gen.ctx R) s false true).isOk =
        (rule17 (dotQ [1, 2, 1, 2, 1, 2] [d2, d3, d4, d5, d6, d7]) d8) := by
  have hk : Gen.algoTable.get (C06.bytes "DE" ++ [colon] ++ C06.bytes "17") =
      some ⟨C06.bytes "DE:17", .de Gen.de_DE_17, [.accountCode]⟩ := by rfl
  obtain ⟨d1, d2, d3, d4, d5, d6, d7, d8, d9, d10, g1, g2, g3, g4, g5, g6, g7, g8, g9, g10, hs, hok⟩ :=
    live_german_iban R s hv hcc hl hb hname hk rfl rfl
  refine ⟨d1, d2, d3, d4, d5, d6, d7, d8, d9, d10, hs, ?_⟩
  rw [hok]
  exact (de17 Gen.unicode C10.unicode_wf d1 d2 d3 d4 d5 d6 d7 d8 d9 d10 g1 g2 g3 g4 g5 g6 g7 g8 g9 g10 ⟨0⟩).2

theorem live_german_iban_21' (R : Registry) (s : Str)
    (hv : isoValid Gen.table (clean Gen.unicode s) = true)
    (hcc : (clean Gen.unicode s).take 2 = C06.bytes "DE")
    {e : Country} (hl : Gen.table.lookup (C06.bytes "DE") = some e)
    {x : BankEntry} {t : List BankEntry}
    (hb : R.byBankCode (C06.bytes "DE") (lookupKey e ((clean Gen.unicode s).drop 4)) = some (x :: t))
    (hname : x.checksumAlgo = some (C06.bytes "21")) :
    ∃ d1 d2 d3 d4 d5 d6 d7 d8 d9 d10,
      slice ((clean Gen.unicode s).drop 4) 8 18 = acct d1 d2 d3 d4 d5 d6 d7 d8 d9 d10 ∧
      (IBAN.new (Gen.ctx R) s false true).isOk =
        (rule21 (dotQ [2, 1, 2, 1, 2, 1, 2, 1, 2] [d9, d8, d7, d6, d5, d4, d3, d2, d1]) d10) := by
  have hk : Gen.algoTable.get (C06.bytes "DE" ++ [colon] ++ C06.bytes "21") =
      some ⟨C06.bytes "DE:21", .de Gen.de_DE_21, [.accountCode]⟩ := by rfl
  obtain ⟨d1, d2, d3, d4, d5, d6, d7, d8, d9, d10, g1, g2, g3, g4, g5, g6, g7, g8, g9, g10, hs, hok⟩ :=
    live_german_iban R s hv hcc hl hb hname hk rfl rfl
  refine ⟨d1, d2, d3, d4, d5, d6, d7, d8, d9, d10, hs, ?_⟩
  rw [hok]
  exact (de21 Gen.unicode C10.unicode_wf d1 d2 d3 d4 d5 d6 d7 d8 d9 d10 g1 g2 g3 g4 g5 g6 g7 g8 g9 g10 ⟨0⟩).2

theorem live_german_iban_88' (R : Registry) (s : Str)
    (hv : isoValid Gen.table (clean Gen.unicode s) = true)
    (hcc : (clean Gen.unicode s).take 2 = C06.bytes "DE")
    {e : Country} (hl : Gen.table.lookup (C06.bytes "DE") = some e)
    {x : BankEntry} {t : List BankEntry}
    (hb : R.byBankCode (C06.bytes "DE") (lookupKey e ((clean Gen.unicode s).drop 4)) = some (x :: t))
    (hname : x.checksumAlgo = some (C06.bytes "88")) :
    ∃ d1 d2 d3 d4 d5 d6 d7 d8 d9 d10,
      slice ((clean Gen.unicode s).drop 4) 8 18 = acct d1 d2 d3 d4 d5 d6 d7 d8 d9 d10 ∧
      (IBAN.new (Gen.ctx R) s false true).isOk =
        ((if d3 = 9 then rule06 (dot [2, 3, 4, 5, 6, 7, 8] [d9, d8, d7, d6, d5, d4, d3]) d10 else rule06 (dot [2, 3, 4, 5, 6, 7] [d9, d8, d7, d6, d5, d4]) d10)) := by
  have hk : Gen.algoTable.get (C06.bytes "DE" ++ [colon] ++ C06.bytes "88") =
      some ⟨C06.bytes "DE:88", .de Gen.de_DE_88, [.accountCode]⟩ := by rfl
  obtain ⟨d1, d2, d3, d4, d5, d6, d7, d8, d9, d10, g1, g2, g3, g4, g5, g6, g7, g8, g9, g10, hs, hok⟩ :=
    live_german_iban R s hv hcc hl hb hname hk rfl rfl
  refine ⟨d1, d2, d3, d4, d5, d6, d7, d8, d9, d10, hs, ?_⟩
  rw [hok]
  exact (de88 Gen.unicode C10.unicode_wf d1 d2 d3 d4 d5 d6 d7 d8 d9 d10 g1 g2 g3 g4 g5 g6 g7 g8 g9 g10 ⟨0⟩).2

theorem live_german_iban_61' (R : Registry) (s : Str)
    (hv : isoValid Gen.table (clean Gen.unicode s) = true)
    (hcc : (clean Gen.unicode s).take 2 = C06.bytes "DE")
    {e : Country} (hl : Gen.table.lookup (C06.bytes "DE") = some e)
    {x : BankEntry} {t : List BankEntry}
    (hb : R.byBankCode (C06.bytes "DE") (lookupKey e ((clean Gen.unicode s).drop 4)) = some (x :: t))
    (hname : x.checksumAlgo = some (C06.bytes "61")) :
    ∃ d1 d2 d3 d4 d5 d6 d7 d8 d9 d10,
      slice ((clean Gen.unicode s).drop 4) 8 18 = acct d1 d2 d3 d4 d5 d6 d7 d8 d9 d10 ∧
      (IBAN.new (Gen.ctx R) s false true).isOk =
        ((if d9 = 8 then rule10 (dotQ [2, 1, 2, 1, 2, 1, 2, 1, 2] [d10, d9, d7, d6, d5, d4, d3, d2, d1]) d8 else rule10 (dotQ [2, 1, 2, 1, 2, 1, 2] [d7, d6, d5, d4, d3, d2, d1]) d8)) := by
  have hk : Gen.algoTable.get (C06.bytes "DE" ++ [colon] ++ C06.bytes "61") =
      some ⟨C06.bytes "DE:61", .de Gen.de_DE_61, [.accountCode]⟩ := by rfl
  obtain ⟨d1, d2, d3, d4, d5, d6, d7, d8, d9, d10, g1, g2, g3, g4, g5, g6, g7, g8, g9, g10, hs, hok⟩ :=
    live_german_iban R s hv hcc hl hb hname hk rfl rfl
  refine ⟨d1, d2, d3, d4, d5, d6, d7, d8, d9, d10, hs, ?_⟩
  rw [hok]
  exact (de61 Gen.unicode C10.unicode_wf d1 d2 d3 d4 d5 d6 d7 d8 d9 d10 g1 g2 g3 g4 g5 g6 g7 g8 g9 g10 ⟨0⟩).2

theorem live_german_iban_26' (R : Registry) (s : Str)
    (hv : isoValid Gen.table (clean Gen.unicode s) = true)
    (hcc : (clean Gen.unicode s).take 2 = C06.bytes "DE")
    {e : Country} (hl : Gen.table.lookup (C06.bytes "DE") = some e)
    {x : BankEntry} {t : List BankEntry}
    (hb : R.byBankCode (C06.bytes "DE") (lookupKey e ((clean Gen.unicode s).drop 4)) = some (x :: t))
    (hname : x.checksumAlgo = some (C06.bytes "26")) :
    ∃ d1 d2 d3 d4 d5 d6 d7 d8 d9 d10,
      slice ((clean Gen.unicode s).drop 4) 8 18 = acct d1 d2 d3 d4 d5 d6 d7 d8 d9 d10 ∧
      (IBAN.new (Gen.ctx R) s false true).isOk =
        ((if d1 = 0 ∧ d2 = 0 then rule06 (dot [2, 3, 4, 5, 6, 7, 2] [d9, d8, d7, d6, d5, d4, d3]) d10 else rule06 (dot [2, 3, 4, 5, 6, 7, 2] [d7, d6, d5, d4, d3, d2, d1]) d8)) := by
  have hk : Gen.algoTable.get (C06.bytes "DE" ++ [colon] ++ C06.bytes "26") =
      some ⟨C06.bytes "DE:26", .de Gen.de_DE_26, [.accountCode]⟩ := by rfl
  obtain ⟨d1, d2, d3, d4, d5, d6, d7, d8, d9, d10, g1, g2, g3, g4, g5, g6, g7, g8, g9, g10, hs, hok⟩ :=
    live_german_iban R s hv hcc hl hb hname hk rfl rfl
  refine ⟨d1, d2, d3, d4, d5, d6, d7, d8, d9, d10, hs, ?_⟩
  rw [hok]
  exact (de26 Gen.unicode C10.unicode_wf d1 d2 d3 d4 d5 d6 d7 d8 d9 d10 g1 g2 g3 g4 g5 g6 g7 g8 g9 g10 ⟨0⟩).2

theorem live_german_iban_76' (R : Registry) (s : Str)
    (hv : isoValid Gen.table (clean Gen.unicode s) = true)
    (hcc : (clean Gen.unicode s).take 2 = C06.bytes "DE")
    {e : Country} (hl : Gen.table.lookup (C06.bytes "DE") = some e)
    {x : BankEntry} {t : List BankEntry}
    (hb : R.byBankCode (C06.bytes "DE") (lookupKey e ((clean Gen.unicode s).drop 4)) = some (x :: t))
    (hname : x.checksumAlgo = some (C06.bytes "76")) :
    ∃ d1 d2 d3 d4 d5 d6 d7 d8 d9 d10,
      slice ((clean Gen.unicode s).drop 4) 8 18 = acct d1 d2 d3 d4 d5 d6 d7 d8 d9 d10 ∧
      (IBAN.new (Gen.ctx R) s false true).isOk =
        ((decide (d1 = 0 ∨ d1 = 4 ∨ d1 = 6 ∨ d1 = 7 ∨ d1 = 8 ∨ d1 = 9) && rule76 (dot [2, 3, 4, 5, 6, 7] [d7, d6, d5, d4, d3, d2]) d8)) := by
  have hk : Gen.algoTable.get (C06.bytes "DE" ++ [colon] ++ C06.bytes "76") =
      some ⟨C06.bytes "DE:76", .de Gen.de_DE_76, [.accountCode]⟩ := by rfl
  obtain ⟨d1, d2, d3, d4, d5, d6, d7, d8, d9, d10, g1, g2, g3, g4, g5, g6, g7, g8, g9, g10, hs, hok⟩ :=
    live_german_iban R s hv hcc hl hb hname hk rfl rfl
  refine ⟨d1, d2, d3, d4, d5, d6, d7, d8, d9, d10, hs, ?_⟩
  rw [hok]
  exact (de76 Gen.unicode C10.unicode_wf d1 d2 d3 d4 d5 d6 d7 d8 d9 d10 g1 g2 g3 g4 g5 g6 g7 g8 g9 g10 ⟨0⟩).2

theorem live_german_iban_24' (R : Registry) (s : Str)
    (hv : isoValid Gen.table (clean Gen.unicode s) = true)
    (hcc : (clean Gen.unicode s).take 2 = C06.bytes "DE")
    {e : Country} (hl : Gen.table.lookup (C06.bytes "DE") = some e)
    {x : BankEntry} {t : List BankEntry}
    (hb : R.byBankCode (C06.bytes "DE") (lookupKey e ((clean Gen.unicode s).drop 4)) = some (x :: t))
    (hname : x.checksumAlgo = some (C06.bytes "24")) :
    ∃ d1 d2 d3 d4 d5 d6 d7 d8 d9 d10,
      slice ((clean Gen.unicode s).drop 4) 8 18 = acct d1 d2 d3 d4 d5 d6 d7 d8 d9 d10 ∧
      (IBAN.new (Gen.ctx R) s false true).isOk =
        (Spec.de24 [d1, d2, d3, d4, d5, d6, d7, d8, d9] d10) := by
  have hk : Gen.algoTable.get (C06.bytes "DE" ++ [colon] ++ C06.bytes "24") =
      some ⟨C06.bytes "DE:24", .de Gen.de_DE_24, [.accountCode]⟩ := by rfl
  obtain ⟨d1, d2, d3, d4, d5, d6, d7, d8, d9, d10, g1, g2, g3, g4, g5, g6, g7, g8, g9, g10, hs, hok⟩ :=
    live_german_iban R s hv hcc hl hb hname hk rfl rfl
  refine ⟨d1, d2, d3, d4, d5, d6, d7, d8, d9, d10, hs, ?_⟩
  rw [hok]
  exact (de24 Gen.unicode C10.unicode_wf d1 d2 d3 d4 d5 d6 d7 d8 d9 d10 g1 g2 g3 g4 g5 g6 g7 g8 g9 g10 ⟨0⟩).2

theorem live_german_iban_68' (R : Registry) (s : Str)
    (hv : isoValid Gen.table (clean Gen.unicode s) = true)
    (hcc : (clean Gen.unicode s).take 2 = C06.bytes "DE")
    {e : Country} (hl : Gen.table.lookup (C06.bytes "DE") = some e)
    {x : BankEntry} {t : List BankEntry}
    (hb : R.byBankCode (C06.bytes "DE") (lookupKey e ((clean Gen.unicode s).drop 4)) = some (x :: t))
    (hname : x.checksumAlgo = some (C06.bytes "68")) :
    ∃ d1 d2 d3 d4 d5 d6 d7 d8 d9 d10,
      slice ((clean Gen.unicode s).drop 4) 8 18 = acct d1 d2 d3 d4 d5 d6 d7 d8 d9 d10 ∧
      (IBAN.new (Gen.ctx R) s false true).isOk =
        (Spec.de68 d1 d2 d3 d4 d5 d6 d7 d8 d9 d10) := by
  have hk : Gen.algoTable.get (C06.bytes "DE" ++ [colon] ++ C06.bytes "68") =
      some ⟨C06.bytes "DE:68", .de Gen.de_DE_68, [.accountCode]⟩ := by rfl
  obtain ⟨d1, d2, d3, d4, d5, d6, d7, d8, d9, d10, g1, g2, g3, g4, g5, g6, g7, g8, g9, g10, hs, hok⟩ :=
    live_german_iban R s hv hcc hl hb hname hk rfl rfl
  refine ⟨d1, d2, d3, d4, d5, d6, d7, d8, d9, d10, hs, ?_⟩
  rw [hok]
  exact (de68 Gen.unicode C10.unicode_wf d1 d2 d3 d4 d5 d6 d7 d8 d9 d10 g1 g2 g3 g4 g5 g6 g7 g8 g9 g10 ⟨0⟩).2

/-- Method 91: four variants, the account number is valid if one of them accepts. -/
theorem live_german_iban_91' (R : Registry) (s : Str)
    (hv : isoValid Gen.table (clean Gen.unicode s) = true)
    (hcc : (clean Gen.unicode s).take 2 = C06.bytes "DE")
    {e : Country} (hl : Gen.table.lookup (C06.bytes "DE") = some e)
    {x : BankEntry} {t : List BankEntry}
    (hb : R.byBankCode (C06.bytes "DE") (lookupKey e ((clean Gen.unicode s).drop 4)) = some (x :: t))
    (hname : x.checksumAlgo = some (C06.bytes "91")) :
    ∃ d1 d2 d3 d4 d5 d6 d7 d8 d9 d10,
      slice ((clean Gen.unicode s).drop 4) 8 18 = acct d1 d2 d3 d4 d5 d6 d7 d8 d9 d10 ∧
      (IBAN.new (Gen.ctx R) s false true).isOk =
        (rule06 (dot [2, 3, 4, 5, 6, 7] [d6, d5, d4, d3, d2, d1]) d7 ||
         rule06 (dot [7, 6, 5, 4, 3, 2] [d6, d5, d4, d3, d2, d1]) d7 ||
         rule06 (dot [2, 3, 4, 0, 5, 6, 7, 8, 9, 10] [d10, d9, d8, d7, d6, d5, d4, d3, d2, d1]) d7 ||
         rule06 (dot [2, 4, 8, 5, 10, 9] [d6, d5, d4, d3, d2, d1]) d7) := by
  have hk : Gen.algoTable.get (C06.bytes "DE" ++ [colon] ++ C06.bytes "91") =
      some ⟨C06.bytes "DE:91", .de Gen.de_DE_91, [.accountCode]⟩ := by rfl
  obtain ⟨d1, d2, d3, d4, d5, d6, d7, d8, d9, d10, g1, g2, g3, g4, g5, g6, g7, g8, g9, g10, hs, hok⟩ :=
    live_german_iban R s hv hcc hl hb hname hk rfl rfl
  refine ⟨d1, d2, d3, d4, d5, d6, d7, d8, d9, d10, hs, ?_⟩
  rw [hok, de91 Gen.unicode C10.unicode_wf d1 d2 d3 d4 d5 d6 d7 d8 d9 d10 g1 g2 g3 g4 g5 g6 g7 g8 g9 g10 ⟨0⟩]
  rfl

/-- Method 09 has no check digit: every account number is accepted. -/
theorem live_german_iban_09' (R : Registry) (s : Str)
    (hv : isoValid Gen.table (clean Gen.unicode s) = true)
    (hcc : (clean Gen.unicode s).take 2 = C06.bytes "DE")
    {e : Country} (hl : Gen.table.lookup (C06.bytes "DE") = some e)
    {x : BankEntry} {t : List BankEntry}
    (hb : R.byBankCode (C06.bytes "DE") (lookupKey e ((clean Gen.unicode s).drop 4)) = some (x :: t))
    (hname : x.checksumAlgo = some (C06.bytes "09")) :
    (IBAN.new (Gen.ctx R) s false true).isOk = true := by
  have hk : Gen.algoTable.get (C06.bytes "DE" ++ [colon] ++ C06.bytes "09") =
      some ⟨C06.bytes "DE:09", .de Gen.de_DE_09, [.accountCode]⟩ := by rfl
  obtain ⟨d1, d2, d3, d4, d5, d6, d7, d8, d9, d10, _, _, _, _, _, _, _, _, _, _, _, hok⟩ :=
    live_german_iban R s hv hcc hl hb hname hk rfl rfl
  rw [hok, de09 Gen.unicode _ ⟨0⟩]
  rfl

end SV.Props.C07
