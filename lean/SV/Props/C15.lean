/-
  C15 — Results depend only on arguments and bundled data, never on call history.

  PARTIAL.  Proved: the generic history theorem (if the outcome of a call does not depend on the
  hidden state, then after ANY finite history every call gives what it gives as the first call);
  its instance for the only hidden state the library keeps between calls — the scratch cell of the
  German algorithm objects — from the per-method theorems of C07 (outcome independent of the
  incoming scratch, for all ten digits).  In the model the registries are an immutable parameter;
  that the Python code does not write them after import, and that CPython / third-party modules keep
  no hidden state, is checked dynamically (effect probe, fork-based first-call references).
-/
import SV.Model.Effects
import SV.Props.C07
import SV.Gen.Effects
namespace SV.Props.C15
open SV Spec

/-- **History independence**: if outcomes do not depend on the hidden state, the outcome of a
    call after any history equals its outcome on the initial state. -/
theorem history_independent {W C O : Type} (S : Sys W C O)
    (h : ∀ w w' c, (S.step w c).2 = (S.step w' c).2) :
    ∀ (hist : List C) (w : W) (c : C),
      (S.run w (hist ++ [c])).2.getLast? = some (S.step w c).2
  | [], w, c => by simp [Sys.run]
  | d :: t, w, c => by
    have ih := history_independent S h t (S.step w d).1 c
    simp only [List.cons_append, Sys.run]
    rw [List.getLast?_cons]
    have hne : (S.run (S.step w d).1 (t ++ [c])).2 ≠ [] := by
      intro hn; rw [hn] at ih; simp at ih
    cases hr : (S.run (S.step w d).1 (t ++ [c])).2 with
    | nil => exact absurd hr hne
    | cons x xs =>
      rw [hr] at ih
      simp only [Option.getD, ih]
      rw [h (S.step w d).1 w c]

/-- Every outcome along a history equals the first-call outcome (not only the last one). -/
theorem every_outcome {W C O : Type} (S : Sys W C O)
    (h : ∀ w w' c, (S.step w c).2 = (S.step w' c).2) :
    ∀ (hist : List C) (w : W), (S.run w hist).2 = hist.map (fun c => (S.step w c).2)
  | [], _ => rfl
  | d :: t, w => by
    simp only [Sys.run, List.map_cons]
    rw [every_outcome S h t (S.step w d).1]
    congr 1
    apply List.map_congr_left
    intro c _
    exact h _ _ c

/-- The German algorithm objects as such a system: hidden state = the scratch cell; a call =
    ten digits; outcome = the verdict.  Instance for method 25 (whose `validate` reads the scratch
    cell after `compute` wrote it) and 16 and 02 (ditto in `validate` / `reconcile`). -/
def deSys (U : Unicode) (P : DEParams) : Sys Scratch (List Nat) Bool where
  step sc ds :=
    let r := P.validateM U [ds.map (48 + ·)] sc
    (r.1, deAccepts r.2)

theorem de25_history (U : Unicode) (hU : U.WF) (hist : List (List Nat))
    (hd : ∀ ds ∈ hist, ds.length = 10 ∧ ∀ d ∈ ds, d < 10) (w w' : Scratch) :
    ((deSys U Gen.de_DE_25).run w hist).2 = ((deSys U Gen.de_DE_25).run w' hist).2 := by
  induction hist generalizing w w' with
  | nil => rfl
  | cons ds t ih =>
    have ⟨hl, hdig⟩ := hd ds (by simp)
    match ds, hl with
    | [d1, d2, d3, d4, d5, d6, d7, d8, d9, d10], _ =>
      have hb : ∀ d ∈ [d1, d2, d3, d4, d5, d6, d7, d8, d9, d10], d < 10 := hdig
      simp only [List.mem_cons, List.not_mem_nil, or_false, forall_eq_or_imp, forall_eq] at hb
      obtain ⟨h1, h2, h3, h4, h5, h6, h7, h8, h9, h10⟩ := hb
      simp only [Sys.run, deSys, List.map_cons, List.map_nil]
      have e := C07.verdict_independent_of_scratch U hU d1 d2 d3 d4 d5 d6 d7 d8 d9 d10
        h1 h2 h3 h4 h5 h6 h7 h8 h9 h10 w w'
      simp only [acct] at e
      rw [e]
      congr 1
      exact ih (fun x hx => hd x (by simp [hx])) _ _

/-- Instance obligation (effect probe on the live tree): a battery of library calls run in one
    thread changes nothing another thread can see — neither `registry._registry` (objects, contents,
    order of index buckets) nor the algorithm singletons. -/
theorem live_no_shared_writes : Gen.sharedWritesAfterImport = [] := by decide

/-- …and no module-level or class-level container, `functools` cache, mutable default argument,
    closure cell or function attribute of the schwifty modules: nothing a later call could read. -/
theorem live_no_module_state_writes : Gen.moduleStateWrites = [] := by decide

/-- The only state the (per-thread) algorithm objects carry from one call to the next is the scratch
    the model threads through the engine (`remainder`) and the write-only `weighted_sum`: the
    history theorem above is about all of it. -/
theorem live_scratch_attrs :
    Gen.threadScratchAttrs.all (fun a => a == "remainder" || a == "weighted_sum") = true := by decide

end SV.Props.C15
