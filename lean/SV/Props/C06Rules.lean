/-
  C06 (continued) — the published weighted-sum / Luhn / RIB / CIN rules.

  For ES, FR, MC, IT, SM, FI, NO, PL, EE, CZ, SK and IS: for every structure-conforming BBAN the
  national check accepts exactly when the published rule of `SV.Spec.National` (stated over the
  BBAN string positions, weights written out) holds.  Each generic theorem assumes only a
  decidable description of the country's layout (`layoutAlgo`: the registered algorithm class,
  the positions of the fields it reads and of the check-digit field, the classes of the structure
  string); the `live_*` theorems discharge it on the tables regenerated from the live tree, so a
  changed registration, a moved position or a changed structure string breaks them.
-/
import SV.Proofs.NationalRules
import SV.Props.C06
import SV.Props.C02
namespace SV.Props.C06
open SV Spec

abbrev nCls (k : Nat) : List SClass := List.replicate k .n

/-- ES. -/
theorem spain_rule (X : Ctx) (hU : X.U.WF) {cc : Str}
    (hp : layoutAlgo X.T X.A .es cc (nCls 20) [⟨0, 4⟩, ⟨4, 8⟩, ⟨10, 20⟩] ⟨8, 10⟩ = true)
    (hR : ∀ x ∈ X.R, x.countryCode = cc → x.checksumAlgo = none)
    (b : Str) (hf : fitsClasses (nCls 20) b = true) :
    BBAN.validateNational X cc b = if spain b then .ok true else .err .invalidBBANChecksum := by
  have hlen : b.length = 20 := by have := fitsClasses_len hf; simpa [nCls] using this.symm
  have hd : allDigits b = true := digits_of_fits hf (by decide)
  rw [layout_dispatch X hp hR b]
  simp only [List.map]
  rw [getSlice_eq_slice (s := 0) (t := 4) (by omega) (by omega),
    getSlice_eq_slice (s := 4) (t := 8) (by omega) (by omega),
    getSlice_eq_slice (s := 10) (t := 20) (by omega) (by omega),
    getSlice_eq_slice (s := 8) (t := 10) (by omega) (by omega),
    es_validate_val hU (allDigits_slice _ _ hd) (allDigits_slice _ _ hd) (allDigits_slice _ _ hd),
    slice_append_slice b 0 4 8 (by omega) (by omega)]
  unfold spain
  rw [beq_str_comm]
  rfl

/-- FR, MC. -/
theorem france_rule (X : Ctx) {cc : Str}
    (hp : layoutAlgo X.T X.A .fr cc (nCls 10 ++ List.replicate 11 .c ++ nCls 2)
      [⟨0, 5⟩, ⟨5, 10⟩, ⟨10, 21⟩] ⟨21, 23⟩ = true)
    (hR : ∀ x ∈ X.R, x.countryCode = cc → x.checksumAlgo = none) (hm : 11 ≤ X.U.maxIntDigits)
    (b : Str) (hf : fitsClasses (nCls 10 ++ List.replicate 11 .c ++ nCls 2) b = true) :
    BBAN.validateNational X cc b = if france b then .ok true else .err .invalidBBANChecksum := by
  have hlen : b.length = 23 := by have := fitsClasses_len hf; simpa [nCls] using this.symm
  have hd : allAlnum b = true := alnum_of_fits hf (by decide)
  rw [layout_dispatch X hp hR b]
  simp only [List.map]
  rw [getSlice_eq_slice (s := 0) (t := 5) (by omega) (by omega),
    getSlice_eq_slice (s := 5) (t := 10) (by omega) (by omega),
    getSlice_eq_slice (s := 10) (t := 21) (by omega) (by omega),
    getSlice_eq_slice (s := 21) (t := 23) (by omega) (by omega),
    fr_validate_val X.U (allAlnum_slice _ _ hd) (allAlnum_slice _ _ hd) (allAlnum_slice _ _ hd)
      (by rw [slice_length (by omega)]) (by rw [slice_length (by omega)])
      (by rw [slice_length (by omega)]) hm,
    slice_append_slice b 0 5 10 (by omega) (by omega),
    slice_append_slice b 0 10 21 (by omega) (by omega), slice_zero,
    slice_to_end (s := 21) (t := 23) (by omega)]
  unfold france
  rw [beq_str_comm]
  rfl

/-- IT, SM. -/
theorem italy_rule (X : Ctx) (hU : X.U.WF) {cc : Str}
    (hp : layoutAlgo X.T X.A .it cc ([SClass.a] ++ nCls 10 ++ List.replicate 12 .c)
      [⟨1, 6⟩, ⟨6, 11⟩, ⟨11, 23⟩] ⟨0, 1⟩ = true)
    (hR : ∀ x ∈ X.R, x.countryCode = cc → x.checksumAlgo = none)
    (b : Str) (hf : fitsClasses ([SClass.a] ++ nCls 10 ++ List.replicate 12 .c) b = true) :
    BBAN.validateNational X cc b = if italy b then .ok true else .err .invalidBBANChecksum := by
  have hlen : b.length = 23 := by have := fitsClasses_len hf; simpa [nCls] using this.symm
  have hd : allAlnum b = true := alnum_of_fits hf (by decide)
  rw [layout_dispatch X hp hR b]
  simp only [List.map]
  rw [getSlice_eq_slice (s := 1) (t := 6) (by omega) (by omega),
    getSlice_eq_slice (s := 6) (t := 11) (by omega) (by omega),
    getSlice_eq_slice (s := 11) (t := 23) (by omega) (by omega),
    getSlice_eq_slice (s := 0) (t := 1) (by omega) (by omega)]
  have hj : joinStrs [slice b 1 6, slice b 6 11, slice b 11 23] = slice b 1 23 := by
    simp only [joinStrs, List.flatten_cons, List.flatten_nil, List.append_nil]
    rw [← List.append_assoc, slice_append_slice b 1 6 11 (by omega) (by omega),
      slice_append_slice b 1 11 23 (by omega) (by omega)]
  rw [it_validate_val hU (by rw [hj]; exact allAlnum_slice _ _ hd), hj, slice_zero]
  unfold italy
  rw [beq_str_comm]
  rfl

/-- FI. -/
theorem finland_rule (X : Ctx) {cc : Str}
    (hp : layoutAlgo X.T X.A .fi cc (nCls 14) [⟨0, 3⟩, ⟨3, 13⟩] ⟨13, 14⟩ = true)
    (hR : ∀ x ∈ X.R, x.countryCode = cc → x.checksumAlgo = none)
    (b : Str) (hf : fitsClasses (nCls 14) b = true) :
    BBAN.validateNational X cc b = if finland b then .ok true else .err .invalidBBANChecksum := by
  have hlen : b.length = 14 := by have := fitsClasses_len hf; simpa [nCls] using this.symm
  have hd : allDigits b = true := digits_of_fits hf (by decide)
  rw [layout_dispatch X hp hR b]
  simp only [List.map]
  rw [getSlice_eq_slice (s := 0) (t := 3) (by omega) (by omega),
    getSlice_eq_slice (s := 3) (t := 13) (by omega) (by omega),
    getSlice_eq_slice (s := 13) (t := 14) (by omega) (by omega)]
  have hj : joinStrs [slice b 0 3, slice b 3 13] = b.take 13 := by
    simp only [joinStrs, List.flatten_cons, List.flatten_nil, List.append_nil]
    rw [slice_append_slice b 0 3 13 (by omega) (by omega), slice_zero]
  rw [fi_validate_val X.U (by rw [hj, ← slice_zero]; exact allDigits_slice _ _ hd), hj,
    slice_to_end (s := 13) (t := 14) (by omega)]
  unfold finland
  rw [beq_str_comm]
  rfl

/-- NO: an account number for which no check digit exists is reported as `InvalidAccountCode`,
    a wrong check digit as `InvalidBBANChecksum`. -/
theorem norway_rule (X : Ctx) (hU : X.U.WF) {cc : Str}
    (hp : layoutAlgo X.T X.A .no cc (nCls 11) [⟨0, 4⟩, ⟨4, 10⟩] ⟨10, 11⟩ = true)
    (hR : ∀ x ∈ X.R, x.countryCode = cc → x.checksumAlgo = none)
    (b : Str) (hf : fitsClasses (nCls 11) b = true) :
    BBAN.validateNational X cc b =
      if norwayUnusable b then .err .invalidAccountCode
      else if norway b then .ok true else .err .invalidBBANChecksum := by
  have hlen : b.length = 11 := by have := fitsClasses_len hf; simpa [nCls] using this.symm
  have hd : allDigits b = true := digits_of_fits hf (by decide)
  rw [layout_dispatch X hp hR b]
  simp only [List.map]
  rw [getSlice_eq_slice (s := 0) (t := 4) (by omega) (by omega),
    getSlice_eq_slice (s := 4) (t := 10) (by omega) (by omega),
    getSlice_eq_slice (s := 10) (t := 11) (by omega) (by omega),
    no_validate_val hU (allDigits_slice _ _ hd) (allDigits_slice _ _ hd),
    slice_take b 4 10 2 (by omega), slice_drop, slice_append_slice b 0 4 10 (by omega) (by omega),
    slice_to_end (s := 10) (t := 11) (by omega)]
  have ht : wsum [5, 4, 3, 2, 7, 6, 5, 4, 3, 2] (slice b (4 + 2) 10) = wsum [5, 4, 3, 2] (slice b 6 10) :=
    wsum_trunc [5, 4, 3, 2] [7, 6, 5, 4, 3, 2] _ (by rw [slice_length (by omega)]; decide)
  rw [ht]
  have hs : (if (slice b 4 (4 + 2) == [48, 48]) = true then wsum [5, 4, 3, 2] (slice b 6 10)
      else wsum [5, 4, 3, 2, 7, 6, 5, 4, 3, 2] (slice b 0 10)) = norwaySum b := rfl
  simp only [hs]
  unfold norway norwayUnusable
  by_cases h10 : 11 - norwaySum b % 11 = 10
  · simp [h10, Res.bind]
  · have h10' : (11 - norwaySum b % 11 == 10) = false := by simpa using h10
    simp only [h10, h10', if_false, Bool.not_false, Bool.true_and, Res.bind]
    rw [beq_str_comm]
    simp

/-- PL. -/
theorem poland_rule (X : Ctx) (hU : X.U.WF) {cc : Str}
    (hp : layoutAlgo X.T X.A .pl cc (nCls 24) [⟨0, 3⟩, ⟨3, 7⟩] ⟨7, 8⟩ = true)
    (hR : ∀ x ∈ X.R, x.countryCode = cc → x.checksumAlgo = none)
    (b : Str) (hf : fitsClasses (nCls 24) b = true) :
    BBAN.validateNational X cc b = if poland b then .ok true else .err .invalidBBANChecksum := by
  have hlen : b.length = 24 := by have := fitsClasses_len hf; simpa [nCls] using this.symm
  have hd : allDigits b = true := digits_of_fits hf (by decide)
  rw [layout_dispatch X hp hR b]
  simp only [List.map]
  rw [getSlice_eq_slice (s := 0) (t := 3) (by omega) (by omega),
    getSlice_eq_slice (s := 3) (t := 7) (by omega) (by omega),
    getSlice_eq_slice (s := 7) (t := 8) (by omega) (by omega)]
  have hj : joinStrs [slice b 0 3, slice b 3 7] = slice b 0 7 := by
    simp only [joinStrs, List.flatten_cons, List.flatten_nil, List.append_nil]
    rw [slice_append_slice b 0 3 7 (by omega) (by omega)]
  rw [pl_validate_val hU (by rw [hj]; exact allDigits_slice _ _ hd), hj]
  unfold poland
  rw [beq_str_comm]
  rfl

/-- EE. -/
theorem estonia_rule (X : Ctx) (hU : X.U.WF) {cc : Str}
    (hp : layoutAlgo X.T X.A .ee cc (nCls 16) [⟨2, 4⟩, ⟨4, 15⟩] ⟨15, 16⟩ = true)
    (hR : ∀ x ∈ X.R, x.countryCode = cc → x.checksumAlgo = none)
    (b : Str) (hf : fitsClasses (nCls 16) b = true) :
    BBAN.validateNational X cc b = if estonia b then .ok true else .err .invalidBBANChecksum := by
  have hlen : b.length = 16 := by have := fitsClasses_len hf; simpa [nCls] using this.symm
  have hd : allDigits b = true := digits_of_fits hf (by decide)
  rw [layout_dispatch X hp hR b]
  simp only [List.map]
  rw [getSlice_eq_slice (s := 2) (t := 4) (by omega) (by omega),
    getSlice_eq_slice (s := 4) (t := 15) (by omega) (by omega),
    getSlice_eq_slice (s := 15) (t := 16) (by omega) (by omega)]
  have hj : joinStrs [slice b 2 4, slice b 4 15] = slice b 2 15 := by
    simp only [joinStrs, List.flatten_cons, List.flatten_nil, List.append_nil]
    rw [slice_append_slice b 2 4 15 (by omega) (by omega)]
  rw [ee_validate_val hU (by rw [hj]; exact allDigits_slice _ _ hd)
    (by rw [hj, slice_length (by omega)]), hj, slice_to_end (s := 15) (t := 16) (by omega)]
  unfold estonia
  rw [beq_str_comm]
  rfl

/-- CZ, SK. -/
theorem czech_rule (X : Ctx) (hU : X.U.WF) {cc : Str} {chk : Range}
    (hp : layoutAlgo X.T X.A .czsk cc (nCls 20) [⟨4, 10⟩, ⟨10, 20⟩] chk = true)
    (hR : ∀ x ∈ X.R, x.countryCode = cc → x.checksumAlgo = none)
    (b : Str) (hf : fitsClasses (nCls 20) b = true) :
    BBAN.validateNational X cc b = if czech b then .ok true else .err .invalidBBANChecksum := by
  have hlen : b.length = 20 := by have := fitsClasses_len hf; simpa [nCls] using this.symm
  have hd : allDigits b = true := digits_of_fits hf (by decide)
  rw [layout_dispatch X hp hR b]
  simp only [List.map]
  rw [getSlice_eq_slice (s := 4) (t := 10) (by omega) (by omega),
    getSlice_eq_slice (s := 10) (t := 20) (by omega) (by omega),
    cz_validate_val hU (allDigits_slice _ _ hd) (allDigits_slice _ _ hd)]
  rfl

/-- IS. -/
theorem iceland_rule (X : Ctx) (hU : X.U.WF) {cc : Str} {chk : Range}
    (hp : layoutAlgo X.T X.A .is_ cc (nCls 22) [⟨12, 22⟩] chk = true)
    (hR : ∀ x ∈ X.R, x.countryCode = cc → x.checksumAlgo = none)
    (b : Str) (hf : fitsClasses (nCls 22) b = true) :
    BBAN.validateNational X cc b = if iceland b then .ok true else .err .invalidBBANChecksum := by
  have hlen : b.length = 22 := by have := fitsClasses_len hf; simpa [nCls] using this.symm
  have hd : allDigits b = true := digits_of_fits hf (by decide)
  rw [layout_dispatch X hp hR b]
  simp only [List.map]
  rw [getSlice_eq_slice (s := 12) (t := 22) (by omega) (by omega),
    is_validate_val hU (allDigits_slice _ _ hd) (by rw [slice_length (by omega)]),
    slice_slice b 12 22 8 9 (by omega)]
  rfl

/-! ### Instance obligations: the layouts of the live tables -/

/-- A BBAN fits the structure string of the country `cc` of the table. -/
def fitsCountry (T : Table) (cc b : Str) : Bool :=
  match T.lookup cc with
  | some e => fits e b
  | none => false

theorem fitsClasses_of_layout {T : Table} {A : AlgoTable} {alg : NatAlgo} {cc : Str}
    {cls : List SClass} {fields : List Range} {chk : Range}
    (hp : layoutAlgo T A alg cc cls fields chk = true) {b : Str}
    (hf : fitsCountry T cc b = true) : fitsClasses cls b = true := by
  obtain ⟨e, hl, he⟩ := fits_of_layout hp
  unfold fitsCountry at hf
  rw [hl] at hf
  rw [← he]; exact hf

theorem live_layout_es : layoutAlgo Gen.table Gen.algoTable .es (bytes "ES") (nCls 20)
    [⟨0, 4⟩, ⟨4, 8⟩, ⟨10, 20⟩] ⟨8, 10⟩ = true := by decide +kernel
theorem live_layout_fr : layoutAlgo Gen.table Gen.algoTable .fr (bytes "FR")
    (nCls 10 ++ List.replicate 11 .c ++ nCls 2) [⟨0, 5⟩, ⟨5, 10⟩, ⟨10, 21⟩] ⟨21, 23⟩ = true := by
  decide +kernel
theorem live_layout_mc : layoutAlgo Gen.table Gen.algoTable .fr (bytes "MC")
    (nCls 10 ++ List.replicate 11 .c ++ nCls 2) [⟨0, 5⟩, ⟨5, 10⟩, ⟨10, 21⟩] ⟨21, 23⟩ = true := by
  decide +kernel
theorem live_layout_it : layoutAlgo Gen.table Gen.algoTable .it (bytes "IT")
    ([SClass.a] ++ nCls 10 ++ List.replicate 12 .c) [⟨1, 6⟩, ⟨6, 11⟩, ⟨11, 23⟩] ⟨0, 1⟩ = true := by
  decide +kernel
theorem live_layout_sm : layoutAlgo Gen.table Gen.algoTable .it (bytes "SM")
    ([SClass.a] ++ nCls 10 ++ List.replicate 12 .c) [⟨1, 6⟩, ⟨6, 11⟩, ⟨11, 23⟩] ⟨0, 1⟩ = true := by
  decide +kernel
theorem live_layout_fi : layoutAlgo Gen.table Gen.algoTable .fi (bytes "FI") (nCls 14)
    [⟨0, 3⟩, ⟨3, 13⟩] ⟨13, 14⟩ = true := by decide +kernel
theorem live_layout_no : layoutAlgo Gen.table Gen.algoTable .no (bytes "NO") (nCls 11)
    [⟨0, 4⟩, ⟨4, 10⟩] ⟨10, 11⟩ = true := by decide +kernel
theorem live_layout_pl : layoutAlgo Gen.table Gen.algoTable .pl (bytes "PL") (nCls 24)
    [⟨0, 3⟩, ⟨3, 7⟩] ⟨7, 8⟩ = true := by decide +kernel
theorem live_layout_ee : layoutAlgo Gen.table Gen.algoTable .ee (bytes "EE") (nCls 16)
    [⟨2, 4⟩, ⟨4, 15⟩] ⟨15, 16⟩ = true := by decide +kernel
theorem live_layout_cz : layoutAlgo Gen.table Gen.algoTable .czsk (bytes "CZ") (nCls 20)
    [⟨4, 10⟩, ⟨10, 20⟩] ⟨0, 0⟩ = true := by decide +kernel
theorem live_layout_sk : layoutAlgo Gen.table Gen.algoTable .czsk (bytes "SK") (nCls 20)
    [⟨4, 10⟩, ⟨10, 20⟩] ⟨0, 0⟩ = true := by decide +kernel
theorem live_layout_is : layoutAlgo Gen.table Gen.algoTable .is_ (bytes "IS") (nCls 22)
    [⟨12, 22⟩] ⟨0, 0⟩ = true := by decide +kernel

/-- The hypothesis "no bank entry of the country names a method" for the bundled registry's
    non-German countries is `live_only_de_names_methods`; the theorems below keep it explicit so
    that they hold for every registry. -/
abbrev NoMethodNames (R : Registry) (cc : Str) : Prop :=
  ∀ x ∈ R, x.countryCode = cc → x.checksumAlgo = none

theorem live_maxInt (R : Registry) : 11 ≤ (Gen.ctx R).U.maxIntDigits := by
  have : (Gen.ctx R).U.maxIntDigits = 4300 := rfl
  rw [this]; decide

/-! ### The live theorems: every structure-conforming BBAN of the country, every registry -/

theorem live_spain (R : Registry) (hR : NoMethodNames R (bytes "ES")) (b : Str)
    (hf : fitsCountry Gen.table (bytes "ES") b = true) :
    BBAN.validateNational (Gen.ctx R) (bytes "ES") b =
      if spain b then .ok true else .err .invalidBBANChecksum :=
  spain_rule (Gen.ctx R) C10.unicode_wf live_layout_es hR b (fitsClasses_of_layout live_layout_es hf)

theorem live_france (R : Registry) (hR : NoMethodNames R (bytes "FR")) (b : Str)
    (hf : fitsCountry Gen.table (bytes "FR") b = true) :
    BBAN.validateNational (Gen.ctx R) (bytes "FR") b =
      if france b then .ok true else .err .invalidBBANChecksum :=
  france_rule (Gen.ctx R) live_layout_fr hR (live_maxInt R) b (fitsClasses_of_layout live_layout_fr hf)

theorem live_monaco (R : Registry) (hR : NoMethodNames R (bytes "MC")) (b : Str)
    (hf : fitsCountry Gen.table (bytes "MC") b = true) :
    BBAN.validateNational (Gen.ctx R) (bytes "MC") b =
      if france b then .ok true else .err .invalidBBANChecksum :=
  france_rule (Gen.ctx R) live_layout_mc hR (live_maxInt R) b (fitsClasses_of_layout live_layout_mc hf)

theorem live_italy (R : Registry) (hR : NoMethodNames R (bytes "IT")) (b : Str)
    (hf : fitsCountry Gen.table (bytes "IT") b = true) :
    BBAN.validateNational (Gen.ctx R) (bytes "IT") b =
      if italy b then .ok true else .err .invalidBBANChecksum :=
  italy_rule (Gen.ctx R) C10.unicode_wf live_layout_it hR b (fitsClasses_of_layout live_layout_it hf)

theorem live_san_marino (R : Registry) (hR : NoMethodNames R (bytes "SM")) (b : Str)
    (hf : fitsCountry Gen.table (bytes "SM") b = true) :
    BBAN.validateNational (Gen.ctx R) (bytes "SM") b =
      if italy b then .ok true else .err .invalidBBANChecksum :=
  italy_rule (Gen.ctx R) C10.unicode_wf live_layout_sm hR b (fitsClasses_of_layout live_layout_sm hf)

theorem live_finland (R : Registry) (hR : NoMethodNames R (bytes "FI")) (b : Str)
    (hf : fitsCountry Gen.table (bytes "FI") b = true) :
    BBAN.validateNational (Gen.ctx R) (bytes "FI") b =
      if finland b then .ok true else .err .invalidBBANChecksum :=
  finland_rule (Gen.ctx R) live_layout_fi hR b (fitsClasses_of_layout live_layout_fi hf)

theorem live_norway (R : Registry) (hR : NoMethodNames R (bytes "NO")) (b : Str)
    (hf : fitsCountry Gen.table (bytes "NO") b = true) :
    BBAN.validateNational (Gen.ctx R) (bytes "NO") b =
      if norwayUnusable b then .err .invalidAccountCode
      else if norway b then .ok true else .err .invalidBBANChecksum :=
  norway_rule (Gen.ctx R) C10.unicode_wf live_layout_no hR b (fitsClasses_of_layout live_layout_no hf)

theorem live_poland (R : Registry) (hR : NoMethodNames R (bytes "PL")) (b : Str)
    (hf : fitsCountry Gen.table (bytes "PL") b = true) :
    BBAN.validateNational (Gen.ctx R) (bytes "PL") b =
      if poland b then .ok true else .err .invalidBBANChecksum :=
  poland_rule (Gen.ctx R) C10.unicode_wf live_layout_pl hR b (fitsClasses_of_layout live_layout_pl hf)

theorem live_estonia (R : Registry) (hR : NoMethodNames R (bytes "EE")) (b : Str)
    (hf : fitsCountry Gen.table (bytes "EE") b = true) :
    BBAN.validateNational (Gen.ctx R) (bytes "EE") b =
      if estonia b then .ok true else .err .invalidBBANChecksum :=
  estonia_rule (Gen.ctx R) C10.unicode_wf live_layout_ee hR b (fitsClasses_of_layout live_layout_ee hf)

theorem live_czechia (R : Registry) (hR : NoMethodNames R (bytes "CZ")) (b : Str)
    (hf : fitsCountry Gen.table (bytes "CZ") b = true) :
    BBAN.validateNational (Gen.ctx R) (bytes "CZ") b =
      if czech b then .ok true else .err .invalidBBANChecksum :=
  czech_rule (Gen.ctx R) C10.unicode_wf live_layout_cz hR b (fitsClasses_of_layout live_layout_cz hf)

theorem live_slovakia (R : Registry) (hR : NoMethodNames R (bytes "SK")) (b : Str)
    (hf : fitsCountry Gen.table (bytes "SK") b = true) :
    BBAN.validateNational (Gen.ctx R) (bytes "SK") b =
      if czech b then .ok true else .err .invalidBBANChecksum :=
  czech_rule (Gen.ctx R) C10.unicode_wf live_layout_sk hR b (fitsClasses_of_layout live_layout_sk hf)

theorem live_iceland (R : Registry) (hR : NoMethodNames R (bytes "IS")) (b : Str)
    (hf : fitsCountry Gen.table (bytes "IS") b = true) :
    BBAN.validateNational (Gen.ctx R) (bytes "IS") b =
      if iceland b then .ok true else .err .invalidBBANChecksum :=
  iceland_rule (Gen.ctx R) C10.unicode_wf live_layout_is hR b (fitsClasses_of_layout live_layout_is hf)

/-! ### The IBAN level: "an otherwise valid IBAN … is accepted exactly when its national check digits
    satisfy the country's published algorithm" -/

/-- For a text that is valid without national validation, `IBAN(text, validate_bban=True)` is the
    national check of its BBAN (and returns the compact form when that passes); for any other text
    it fails exactly as it does without national validation. -/
theorem new_national_eq (X : Ctx) (hU : X.U.WF) (hT : X.T.WF) (s : Str) :
    IBAN.new X s false true =
      if isoValid X.T (clean X.U s) = true then
        (BBAN.validateNational X ((clean X.U s).take 2) ((clean X.U s).drop 4)).bind
          (fun _ => .ok (clean X.U s))
      else IBAN.new X s false false := by
  have hcomp := compact_clean hU s
  unfold IBAN.new
  simp only [Bool.false_eq_true, ↓reduceIte]
  generalize clean X.U s = c at hcomp ⊢
  have hiff : IBAN.validate X c false = .ok true ↔ isoValid X.T c = true := by
    rw [validate_eq_tree X hcomp]; exact tree_ok_iff_isoValid hU hT hcomp
  show (IBAN.validate X c true).bind (fun _ => Res.ok c) = _
  by_cases hv : isoValid X.T c = true
  · rw [if_pos hv]
    have hok := hiff.mpr hv
    have h4 : 4 ≤ c.length := by
      unfold isoValid at hv
      cases hl : X.T.lookup (c.take 2) with
      | none => simp [hl] at hv
      | some e =>
        simp only [hl, Bool.and_eq_true, beq_iff_eq] at hv
        have := hv.1.1.1.1.1.1; omega
    unfold IBAN.validate at hok ⊢
    cases h1 : IBAN.validateCharacters X.U c <;> simp only [h1, bind, Res.bind] at hok ⊢ <;> try cases hok
    cases h2 : IBAN.validateLength X.T c <;> simp only [h2] at hok ⊢ <;> try cases hok
    cases h3 : IBAN.validateFormat X.U X.T c <;> simp only [h3] at hok ⊢ <;> try cases hok
    cases h4' : IBAN.validateChecksum X.U c <;> simp only [h4'] at hok ⊢ <;> try cases hok
    rw [countryCode_eq (by omega), bban_of_compact hcomp]
    cases BBAN.validateNational X (c.take 2) (c.drop 4) <;> rfl
  · rw [if_neg hv]
    have hne : IBAN.validate X c false ≠ .ok true := fun h => hv (hiff.mp h)
    show _ = (IBAN.validate X c false).bind (fun _ => Res.ok c)
    unfold IBAN.validate at hne ⊢
    cases h1 : IBAN.validateCharacters X.U c <;> simp only [h1, bind, Res.bind] at hne ⊢
    cases h2 : IBAN.validateLength X.T c <;> simp only [h2] at hne ⊢
    cases h3 : IBAN.validateFormat X.U X.T c <;> simp only [h3] at hne ⊢
    cases h4' : IBAN.validateChecksum X.U c <;> simp only [h4'] at hne ⊢
    exact absurd rfl hne

/-- **C06 at the IBAN level**, generic: if the national check of every structure-conforming BBAN of
    country `cc` is `if rule b then True else raise`, then an IBAN of that country is accepted with
    national validation exactly when it is valid without and its BBAN satisfies the rule. -/
theorem iban_accept_iff (X : Ctx) (hU : X.U.WF) (hT : X.T.WF) {cc : Str} {rule : Str → Bool}
    {err : Str → Err}
    (hrule : ∀ b, fitsCountry X.T cc b = true →
      BBAN.validateNational X cc b = if rule b then .ok true else .err (err b))
    (s : Str) (hcc : (clean X.U s).take 2 = cc) :
    (IBAN.new X s false true).isOk = true ↔
      isoValid X.T (clean X.U s) = true ∧ rule ((clean X.U s).drop 4) = true := by
  rw [new_national_eq X hU hT s]
  by_cases hv : isoValid X.T (clean X.U s) = true
  · rw [if_pos hv, hcc]
    have hfit : fitsCountry X.T cc ((clean X.U s).drop 4) = true := by
      unfold isoValid at hv
      unfold fitsCountry
      rw [hcc] at hv
      cases hl : X.T.lookup cc with
      | none => simp [hl] at hv
      | some e =>
        simp only [hl, Bool.and_eq_true] at hv
        exact hv.1.1.1.2
    rw [hrule _ hfit]
    by_cases hr : rule ((clean X.U s).drop 4) = true
    · simp [hr, hv, Res.bind]
    · simp [hr, hv, Res.bind]
  · rw [if_neg hv]
    have : ¬ (IBAN.new X s false false).isOk = true := fun h => hv ((C01.accept_iff X hU hT s).mp h)
    simp [hv, this]

/-- **Error soundness with national validation** (C05's last clause, generic): an error raised by
    `IBAN(text, validate_bban=True)` is either the error the text gets without national validation
    (the text is not valid without it), or — the text being valid without it — the error of the
    national check of its BBAN; with the country's rule: the rule really fails for that BBAN. -/
theorem national_error_sound (X : Ctx) (hU : X.U.WF) (hT : X.T.WF) {cc : Str} {rule : Str → Bool}
    {err : Str → Err}
    (hrule : ∀ b, fitsCountry X.T cc b = true →
      BBAN.validateNational X cc b = if rule b then .ok true else .err (err b))
    (s : Str) (hcc : (clean X.U s).take 2 = cc) (k : Err) (h : IBAN.new X s false true = .err k) :
    (isoValid X.T (clean X.U s) = false ∧ IBAN.new X s false false = .err k) ∨
    (isoValid X.T (clean X.U s) = true ∧ rule ((clean X.U s).drop 4) = false ∧
      k = err ((clean X.U s).drop 4)) := by
  rw [new_national_eq X hU hT s] at h
  by_cases hv : isoValid X.T (clean X.U s) = true
  · right
    rw [if_pos hv, hcc] at h
    have hfit : fitsCountry X.T cc ((clean X.U s).drop 4) = true := by
      unfold isoValid at hv
      unfold fitsCountry
      rw [hcc] at hv
      cases hl : X.T.lookup cc with
      | none => simp [hl] at hv
      | some e =>
        simp only [hl, Bool.and_eq_true] at hv
        exact hv.1.1.1.2
    rw [hrule _ hfit] at h
    by_cases hr : rule ((clean X.U s).drop 4) = true
    · simp [hr, Res.bind] at h
    · simp only [hr, Bool.false_eq_true, ↓reduceIte, Res.bind, Res.err.injEq] at h
      exact ⟨hv, by simpa using hr, h.symm⟩
  · left
    rw [if_neg hv] at h
    exact ⟨by simpa using hv, h⟩

/-- Spain, at the IBAN level, on the live tables. -/
theorem live_spain_iban (R : Registry) (hR : NoMethodNames R (bytes "ES")) (s : Str)
    (hcc : (clean Gen.unicode s).take 2 = bytes "ES") :
    (IBAN.new (Gen.ctx R) s false true).isOk = true ↔
      isoValid Gen.table (clean Gen.unicode s) = true ∧ spain ((clean Gen.unicode s).drop 4) = true :=
  iban_accept_iff (Gen.ctx R) C10.unicode_wf C01.table_wf (err := fun _ => .invalidBBANChecksum)
    (fun b hb => live_spain R hR b hb) s hcc

/-- France, at the IBAN level, on the live tables. -/
theorem live_france_iban (R : Registry) (hR : NoMethodNames R (bytes "FR")) (s : Str)
    (hcc : (clean Gen.unicode s).take 2 = bytes "FR") :
    (IBAN.new (Gen.ctx R) s false true).isOk = true ↔
      isoValid Gen.table (clean Gen.unicode s) = true ∧ france ((clean Gen.unicode s).drop 4) = true :=
  iban_accept_iff (Gen.ctx R) C10.unicode_wf C01.table_wf (err := fun _ => .invalidBBANChecksum)
    (fun b hb => live_france R hR b hb) s hcc

/-- Norway (two error classes), at the IBAN level, on the live tables. -/
theorem live_norway_iban (R : Registry) (hR : NoMethodNames R (bytes "NO")) (s : Str)
    (hcc : (clean Gen.unicode s).take 2 = bytes "NO") :
    (IBAN.new (Gen.ctx R) s false true).isOk = true ↔
      isoValid Gen.table (clean Gen.unicode s) = true ∧ norway ((clean Gen.unicode s).drop 4) = true :=
  iban_accept_iff (Gen.ctx R) C10.unicode_wf C01.table_wf
    (rule := norway) (err := fun b => if norwayUnusable b then .invalidAccountCode else .invalidBBANChecksum)
    (fun b hb => by
      rw [live_norway R hR b hb]
      by_cases hu : norwayUnusable b = true
      · have : norway b = false := by simp [norway, hu]
        simp [hu, this]
      · simp [hu]) s hcc

theorem live_monaco_iban (R : Registry) (hR : NoMethodNames R (bytes "MC")) (s : Str)
    (hcc : (clean Gen.unicode s).take 2 = bytes "MC") :
    (IBAN.new (Gen.ctx R) s false true).isOk = true ↔
      isoValid Gen.table (clean Gen.unicode s) = true ∧ france ((clean Gen.unicode s).drop 4) = true :=
  iban_accept_iff (Gen.ctx R) C10.unicode_wf C01.table_wf (err := fun _ => .invalidBBANChecksum)
    (fun b hb => live_monaco R hR b hb) s hcc

theorem live_italy_iban (R : Registry) (hR : NoMethodNames R (bytes "IT")) (s : Str)
    (hcc : (clean Gen.unicode s).take 2 = bytes "IT") :
    (IBAN.new (Gen.ctx R) s false true).isOk = true ↔
      isoValid Gen.table (clean Gen.unicode s) = true ∧ italy ((clean Gen.unicode s).drop 4) = true :=
  iban_accept_iff (Gen.ctx R) C10.unicode_wf C01.table_wf (err := fun _ => .invalidBBANChecksum)
    (fun b hb => live_italy R hR b hb) s hcc

theorem live_san_marino_iban (R : Registry) (hR : NoMethodNames R (bytes "SM")) (s : Str)
    (hcc : (clean Gen.unicode s).take 2 = bytes "SM") :
    (IBAN.new (Gen.ctx R) s false true).isOk = true ↔
      isoValid Gen.table (clean Gen.unicode s) = true ∧ italy ((clean Gen.unicode s).drop 4) = true :=
  iban_accept_iff (Gen.ctx R) C10.unicode_wf C01.table_wf (err := fun _ => .invalidBBANChecksum)
    (fun b hb => live_san_marino R hR b hb) s hcc

theorem live_finland_iban (R : Registry) (hR : NoMethodNames R (bytes "FI")) (s : Str)
    (hcc : (clean Gen.unicode s).take 2 = bytes "FI") :
    (IBAN.new (Gen.ctx R) s false true).isOk = true ↔
      isoValid Gen.table (clean Gen.unicode s) = true ∧ finland ((clean Gen.unicode s).drop 4) = true :=
  iban_accept_iff (Gen.ctx R) C10.unicode_wf C01.table_wf (err := fun _ => .invalidBBANChecksum)
    (fun b hb => live_finland R hR b hb) s hcc

theorem live_poland_iban (R : Registry) (hR : NoMethodNames R (bytes "PL")) (s : Str)
    (hcc : (clean Gen.unicode s).take 2 = bytes "PL") :
    (IBAN.new (Gen.ctx R) s false true).isOk = true ↔
      isoValid Gen.table (clean Gen.unicode s) = true ∧ poland ((clean Gen.unicode s).drop 4) = true :=
  iban_accept_iff (Gen.ctx R) C10.unicode_wf C01.table_wf (err := fun _ => .invalidBBANChecksum)
    (fun b hb => live_poland R hR b hb) s hcc

theorem live_estonia_iban (R : Registry) (hR : NoMethodNames R (bytes "EE")) (s : Str)
    (hcc : (clean Gen.unicode s).take 2 = bytes "EE") :
    (IBAN.new (Gen.ctx R) s false true).isOk = true ↔
      isoValid Gen.table (clean Gen.unicode s) = true ∧ estonia ((clean Gen.unicode s).drop 4) = true :=
  iban_accept_iff (Gen.ctx R) C10.unicode_wf C01.table_wf (err := fun _ => .invalidBBANChecksum)
    (fun b hb => live_estonia R hR b hb) s hcc

theorem live_czechia_iban (R : Registry) (hR : NoMethodNames R (bytes "CZ")) (s : Str)
    (hcc : (clean Gen.unicode s).take 2 = bytes "CZ") :
    (IBAN.new (Gen.ctx R) s false true).isOk = true ↔
      isoValid Gen.table (clean Gen.unicode s) = true ∧ czech ((clean Gen.unicode s).drop 4) = true :=
  iban_accept_iff (Gen.ctx R) C10.unicode_wf C01.table_wf (err := fun _ => .invalidBBANChecksum)
    (fun b hb => live_czechia R hR b hb) s hcc

theorem live_slovakia_iban (R : Registry) (hR : NoMethodNames R (bytes "SK")) (s : Str)
    (hcc : (clean Gen.unicode s).take 2 = bytes "SK") :
    (IBAN.new (Gen.ctx R) s false true).isOk = true ↔
      isoValid Gen.table (clean Gen.unicode s) = true ∧ czech ((clean Gen.unicode s).drop 4) = true :=
  iban_accept_iff (Gen.ctx R) C10.unicode_wf C01.table_wf (err := fun _ => .invalidBBANChecksum)
    (fun b hb => live_slovakia R hR b hb) s hcc

theorem live_iceland_iban (R : Registry) (hR : NoMethodNames R (bytes "IS")) (s : Str)
    (hcc : (clean Gen.unicode s).take 2 = bytes "IS") :
    (IBAN.new (Gen.ctx R) s false true).isOk = true ↔
      isoValid Gen.table (clean Gen.unicode s) = true ∧ iceland ((clean Gen.unicode s).drop 4) = true :=
  iban_accept_iff (Gen.ctx R) C10.unicode_wf C01.table_wf (err := fun _ => .invalidBBANChecksum)
    (fun b hb => live_iceland R hR b hb) s hcc

/-! ### The ISO 7064 families at the same level (BA, ME, MK, PT, RS, SI, TL; MR, TN; BE) -/

/-- A BBAN that fits the structure of a country of the live table has the country's length and
    consists of ASCII digits and upper-case letters. -/
theorem live_fits_facts {cc b : Str} {e : Country} (hl : Gen.table.lookup cc = some e)
    (hf : fits e b = true) : b.length = e.bbanLength ∧ allAlnum b = true := by
  have hW := C01.table_wf e (Table.lookup_mem hl).1
  obtain ⟨l, _, hps, _, _, hexp⟩ := hW.spec
  have hf' := hf
  simp only [fits, hps] at hf'
  have hlen := fitsClasses_len hf'
  have hnb : clsAlnum (expandSpec l) = true := by
    have := C02.live_no_blank_class
    simp only [List.all_eq_true] at this
    have h1 := this e (Table.lookup_mem hl).1
    rw [hps] at h1
    simp only [clsAlnum, List.all_eq_true, bne_iff_ne, ne_eq]
    intro k hk hke
    subst hke
    simp only [Bool.not_eq_true', List.contains_eq_mem, decide_eq_false_iff_not] at h1
    exact h1 hk
  exact ⟨by rw [← hlen]; exact hexp, alnum_of_fits hf' hnb⟩

theorem prefixAlgo_len {T : Table} {A : AlgoTable} {alg : NatAlgo} {cc : Str} {n : Nat}
    (hp : prefixAlgo T A alg cc n = true) : ∃ e, T.lookup cc = some e ∧ e.bbanLength = n + 2 := by
  unfold prefixAlgo at hp
  cases hl : T.lookup cc with
  | none => simp [hl] at hp
  | some e =>
    cases ha : A.get (defaultKey cc) with
    | none => simp [hl, ha] at hp
    | some a =>
      simp only [hl, ha, Bool.and_eq_true, beq_iff_eq, decide_eq_true_eq] at hp
      exact ⟨e, rfl, hp.1.2⟩

/-- The seven `98 − r` countries on the live tables: every structure-conforming BBAN. -/
theorem live_iso_default_rule (R : Registry) {p : String × Nat}
    (hp : p ∈ [("BA", 14), ("ME", 16), ("MK", 13), ("PT", 19), ("RS", 16), ("SI", 13), ("TL", 17)])
    (hR : NoMethodNames R (bytes p.1)) (b : Str) (hf : fitsCountry Gen.table (bytes p.1) b = true) :
    BBAN.validateNational (Gen.ctx R) (bytes p.1) b =
      if mod97_98 b p.2 then .ok true else .err .invalidBBANChecksum := by
  have hall := live_iso_default
  simp only [List.all_eq_true] at hall
  have hpa := hall p hp
  obtain ⟨e, hl, hbl⟩ := prefixAlgo_len hpa
  unfold fitsCountry at hf
  rw [hl] at hf
  obtain ⟨hlen, hA⟩ := live_fits_facts hl hf
  exact iso_default_rule (Gen.ctx R) C10.unicode_wf hpa hR (by rw [hlen, hbl]) hA (by
    have : (Gen.ctx R).U.maxIntDigits = 4300 := rfl
    rw [this, hlen, hbl]
    simp only [List.mem_cons, List.mem_nil_iff, or_false] at hp
    rcases hp with h | h | h | h | h | h | h <;> subst h <;> decide)

/-- MR, TN (`97 − r`). -/
theorem live_iso_variant_rule (R : Registry) {p : String × Nat} (hp : p ∈ [("MR", 21), ("TN", 18)])
    (hR : NoMethodNames R (bytes p.1)) (b : Str) (hf : fitsCountry Gen.table (bytes p.1) b = true) :
    BBAN.validateNational (Gen.ctx R) (bytes p.1) b =
      if mod97_97 b p.2 then .ok true else .err .invalidBBANChecksum := by
  have hall := live_iso_variant
  simp only [List.all_eq_true] at hall
  have hpa := hall p hp
  obtain ⟨e, hl, hbl⟩ := prefixAlgo_len hpa
  unfold fitsCountry at hf
  rw [hl] at hf
  obtain ⟨hlen, hA⟩ := live_fits_facts hl hf
  exact iso_variant_rule (Gen.ctx R) C10.unicode_wf hpa hR (by rw [hlen, hbl]) hA (by
    have : (Gen.ctx R).U.maxIntDigits = 4300 := rfl
    rw [this, hlen, hbl]
    simp only [List.mem_cons, List.mem_nil_iff, or_false] at hp
    rcases hp with h | h <;> subst h <;> decide)

/-- BE. -/
theorem live_belgium_rule (R : Registry) (hR : NoMethodNames R (bytes "BE")) (b : Str)
    (hf : fitsCountry Gen.table (bytes "BE") b = true) :
    BBAN.validateNational (Gen.ctx R) (bytes "BE") b =
      if belgium b then .ok true else .err .invalidBBANChecksum := by
  obtain ⟨e, hl, hbl⟩ := prefixAlgo_len live_belgium
  unfold fitsCountry at hf
  rw [hl] at hf
  obtain ⟨hlen, hA⟩ := live_fits_facts hl hf
  exact belgium_rule (Gen.ctx R) C10.unicode_wf live_belgium hR (by rw [hlen, hbl]) hA (by
    have : (Gen.ctx R).U.maxIntDigits = 4300 := rfl
    rw [this, hlen, hbl]; decide)

/-- …and at the IBAN level. -/
theorem live_iso_default_iban (R : Registry) {p : String × Nat}
    (hp : p ∈ [("BA", 14), ("ME", 16), ("MK", 13), ("PT", 19), ("RS", 16), ("SI", 13), ("TL", 17)])
    (hR : NoMethodNames R (bytes p.1)) (s : Str) (hcc : (clean Gen.unicode s).take 2 = bytes p.1) :
    (IBAN.new (Gen.ctx R) s false true).isOk = true ↔
      isoValid Gen.table (clean Gen.unicode s) = true ∧ mod97_98 ((clean Gen.unicode s).drop 4) p.2 = true :=
  iban_accept_iff (Gen.ctx R) C10.unicode_wf C01.table_wf (rule := fun b => mod97_98 b p.2)
    (err := fun _ => .invalidBBANChecksum) (fun b hb => live_iso_default_rule R hp hR b hb) s hcc

theorem live_iso_variant_iban (R : Registry) {p : String × Nat} (hp : p ∈ [("MR", 21), ("TN", 18)])
    (hR : NoMethodNames R (bytes p.1)) (s : Str) (hcc : (clean Gen.unicode s).take 2 = bytes p.1) :
    (IBAN.new (Gen.ctx R) s false true).isOk = true ↔
      isoValid Gen.table (clean Gen.unicode s) = true ∧ mod97_97 ((clean Gen.unicode s).drop 4) p.2 = true :=
  iban_accept_iff (Gen.ctx R) C10.unicode_wf C01.table_wf (rule := fun b => mod97_97 b p.2)
    (err := fun _ => .invalidBBANChecksum) (fun b hb => live_iso_variant_rule R hp hR b hb) s hcc

theorem live_belgium_iban (R : Registry) (hR : NoMethodNames R (bytes "BE")) (s : Str)
    (hcc : (clean Gen.unicode s).take 2 = bytes "BE") :
    (IBAN.new (Gen.ctx R) s false true).isOk = true ↔
      isoValid Gen.table (clean Gen.unicode s) = true ∧ belgium ((clean Gen.unicode s).drop 4) = true :=
  iban_accept_iff (Gen.ctx R) C10.unicode_wf C01.table_wf (err := fun _ => .invalidBBANChecksum)
    (fun b hb => live_belgium_rule R hR b hb) s hcc

/-! ### Non-vacuity: known valid account numbers satisfy the published rules, neighbours do not -/

example : fitsCountry Gen.table (bytes "ES") (bytes "21000418450200051332") = true := by decide +kernel
example : spain (bytes "21000418450200051332") = true := by decide +kernel
example : spain (bytes "21000418460200051332") = false := by decide +kernel
example : france (bytes "20041010050500013M02606") = true := by decide +kernel
example : france (bytes "20041010050500013M02607") = false := by decide +kernel
example : italy (bytes "X0542811101000000123456") = true := by decide +kernel
example : italy (bytes "Y0542811101000000123456") = false := by decide +kernel
example : finland (bytes "12345600000785") = true := by decide +kernel
example : finland (bytes "12345600000786") = false := by decide +kernel
example : norway (bytes "86011117947") = true := by decide +kernel
example : norway (bytes "86011117948") = false := by decide +kernel
example : poland (bytes "109010140000071219812874") = true := by decide +kernel
example : poland (bytes "109010150000071219812874") = false := by decide +kernel
example : estonia (bytes "2200221020145685") = true := by decide +kernel
example : estonia (bytes "2200221020145686") = false := by decide +kernel
example : czech (bytes "08000000192000145399") = true := by decide +kernel
example : czech (bytes "08000000192000145398") = false := by decide +kernel
example : iceland (bytes "0159260076545510730339") = true := by decide +kernel
example : iceland (bytes "0159260076545510730349") = false := by decide +kernel

/-! ### The Spec against external data: the example IBANs of the SWIFT registry (the literals of the
    repository's test-suite, one or two per country) satisfy the published rule as written in `SV.Spec.National`. -/
example : belgium (bytes "539007547034") = true := by decide +kernel   -- BE
example : mod97_98 (bytes "1290079401028494") 14 = true := by decide +kernel   -- BA
example : czech (bytes "08000000192000145399") = true := by decide +kernel   -- CZ
example : czech (bytes "55000000001011038930") = true := by decide +kernel   -- CZ
example : estonia (bytes "2200221020145685") = true := by decide +kernel   -- EE
example : finland (bytes "12345600000785") = true := by decide +kernel   -- FI
example : france (bytes "20041010050500013M02606") = true := by decide +kernel   -- FR
example : iceland (bytes "0159260076545510730339") = true := by decide +kernel   -- IS
example : italy (bytes "X0542811101000000123456") = true := by decide +kernel   -- IT
example : mod97_98 (bytes "250120000058984") 13 = true := by decide +kernel   -- MK
example : mod97_97 (bytes "00020001010000123456753") 21 = true := by decide +kernel   -- MR
example : france (bytes "11222000010123456789030") = true := by decide +kernel   -- MC
example : mod97_98 (bytes "505000012345678951") 16 = true := by decide +kernel   -- ME
example : norway (bytes "86011117947") = true := by decide +kernel   -- NO
example : poland (bytes "109010140000071219812874") = true := by decide +kernel   -- PL
example : mod97_98 (bytes "000201231234567890154") 19 = true := by decide +kernel   -- PT
example : italy (bytes "U0322509800000000270100") = true := by decide +kernel   -- SM
example : mod97_98 (bytes "260005601001611379") 16 = true := by decide +kernel   -- RS
example : czech (bytes "12000000198742637541") = true := by decide +kernel   -- SK
example : mod97_98 (bytes "191000000123438") 13 = true := by decide +kernel   -- SI
example : spain (bytes "21000418450200051332") = true := by decide +kernel   -- ES
example : mod97_98 (bytes "0080012345678910157") 17 = true := by decide +kernel   -- TL
example : mod97_97 (bytes "10006035183598478831") 18 = true := by decide +kernel   -- TN

end SV.Props.C06
