/-
  C02 — IBAN check digits are computed correctly, uniquely and canonically.

  For every country of a well-formed table and every BBAN (in the library's compact form) that
  fits the country's structure string: `IBAN.from_bban` returns the valid IBAN carrying the ISO
  7064 mod 97-10 check digits `98 − (numeric(bban + country)·100 mod 97)`, which lie in 02..98;
  among all 100 digit pairs exactly that one is accepted; 00, 01 and 99 never are.
-/
import SV.Proofs.FromBban
import SV.Props.C01
namespace SV.Props.C02
open SV Spec

/-- `2 ≤ check digits ≤ 98`, for every country code and BBAN. -/
theorem range (cc b : Str) : 2 ≤ checkDigits cc b ∧ checkDigits cc b ≤ 98 := by
  unfold checkDigits; omega

/-- Uniqueness: for the country code, a fitting BBAN and any two ASCII digits `x y`, the text
    `cc x y bban` is accepted iff `xy` is the computed pair. -/
theorem unique (X : Ctx) (hU : X.U.WF) (hT : X.T.WF) {cc b : Str} {e : Country}
    (hl : X.T.lookup cc = some e) (hf : fits e b = true) (hb : (32 : Nat) ∉ b)
    {x y : Nat} (hx : isAsciiDigit x = true) (hy : isAsciiDigit y = true) :
    (IBAN.new X (cc ++ [x, y] ++ b) false false).isOk = true ↔
      [x, y] = fmt02 (checkDigits cc b) := by
  have ⟨heT, hcode⟩ := Table.lookup_mem hl
  have hW := hT e heT
  obtain ⟨l, _, hps, _, _, _⟩ := hW.spec
  have hAb : allAlnum b = true := by
    have hf' := hf; simp only [fits, hps] at hf'
    exact allAlnum_of_fits_noblank _ _ hf' hb
  obtain ⟨a', b', hcd, hua, hub⟩ := hW.code
  have hA : allAlnum (cc ++ [x, y] ++ b) = true := by
    rw [← hcode, hcd]
    simp only [allAlnum_append, Bool.and_eq_true]
    exact ⟨⟨by simp [allAlnum, isAsciiAlnumUpper, hua, hub],
      by simp [allAlnum, isAsciiAlnumUpper, hx, hy]⟩, hAb⟩
  rw [C01.accept_iff X hU hT, clean_of_allAlnum hU hA, isoValid_assembled hT hl hf hx hy]
  have hr := range cc b
  constructor
  · intro h
    rw [← h]
    exact (fmt02_of_digit_pair hx hy).symm
  · intro h
    have := digit_pair_of_fmt02 (by omega : checkDigits cc b < 100) h.symm
    exact this.2.2

/-- `IBAN.from_bban` yields the valid IBAN with the computed check digits. -/
theorem from_bban (X : Ctx) (hU : X.U.WF) (hT : X.T.WF) {cc b : Str} {e : Country}
    (hl : X.T.lookup cc = some e) (hf : fits e b = true) (hb : (32 : Nat) ∉ b) :
    IBAN.fromBban X cc b false false = .ok (cc ++ fmt02 (checkDigits cc b) ++ b) := by
  have ⟨heT, hcode⟩ := Table.lookup_mem hl
  have hW := hT e heT
  obtain ⟨l, _, hps, _, _, hexp⟩ := hW.spec
  have hf' := hf
  simp only [fits, hps] at hf'
  have hAb : allAlnum b = true := allAlnum_of_fits_noblank _ _ hf' hb
  have hblen := fitsClasses_length _ _ hf'
  obtain ⟨a', b', hcd, hua, hub⟩ := hW.code
  have hAcc : allAlnum cc = true := by
    rw [← hcode, hcd]; simp [allAlnum, isAsciiAlnumUpper, hua, hub]
  have hcclen : cc.length = 2 := by rw [← hcode, hcd]; rfl
  -- the check-digit computation succeeds
  have hcomp : isoDefaultCompute X.U [b, cc] = .ok (fmt02 (checkDigits cc b)) := by
    simp only [isoDefaultCompute, isoPre, joinStrs, List.flatten_cons, List.flatten_nil,
      List.append_nil]
    rw [numerify_ok (by rw [allAlnum_append, hAb, hAcc]; rfl)
      (by intro h; have := congrArg List.length h; simp [hcclen] at this)
      (by
        have h1 := numLen_le (b ++ cc)
        have h2 := hW.maxLen
        have h3 := hW.ibanLen
        have h4 := hU.maxInt
        simp only [List.length_append] at h1
        omega)]
    rfl
  unfold IBAN.fromBban
  rw [hcomp]
  simp only [Res.ok_bind]
  obtain ⟨x, y, hxy, hx, hy, _⟩ := fmt02_digits (by have := range cc b; omega : checkDigits cc b < 100)
  have hacc := (unique X hU hT hl hf hb hx hy).mpr hxy.symm
  rw [hxy]
  have hA : allAlnum (cc ++ [x, y] ++ b) = true := by
    simp only [allAlnum_append, Bool.and_eq_true]
    exact ⟨⟨hAcc, by simp [allAlnum, isAsciiAlnumUpper, hx, hy]⟩, hAb⟩
  have hval := (C01.new_isOk X _ false).mp hacc
  rw [clean_of_allAlnum hU hA] at hval
  unfold IBAN.new
  simp only [Bool.false_eq_true, ↓reduceIte]
  rw [clean_of_allAlnum hU hA, hval]
  rfl

/-- The aliases 00, 01 and 99 (which also leave remainder 1) are never accepted. -/
theorem no_alias (X : Ctx) (hU : X.U.WF) (hT : X.T.WF) {cc b : Str} {e : Country}
    (hl : X.T.lookup cc = some e) (hf : fits e b = true) (hb : (32 : Nat) ∉ b) :
    (IBAN.new X (cc ++ [48, 48] ++ b) false false).isOk = false ∧
    (IBAN.new X (cc ++ [48, 49] ++ b) false false).isOk = false ∧
    (IBAN.new X (cc ++ [57, 57] ++ b) false false).isOk = false := by
  have hr := range cc b
  have key : ∀ x y, isAsciiDigit x = true → isAsciiDigit y = true →
      ((x - 48) * 10 + (y - 48) < 2 ∨ 98 < (x - 48) * 10 + (y - 48)) →
      (IBAN.new X (cc ++ [x, y] ++ b) false false).isOk = false := by
    intro x y hx hy hv
    cases h : (IBAN.new X (cc ++ [x, y] ++ b) false false).isOk with
    | false => rfl
    | true =>
      have := (unique X hU hT hl hf hb hx hy).mp h
      have := (digit_pair_of_fmt02 (by omega : checkDigits cc b < 100) this.symm).2.2
      omega
  exact ⟨key 48 48 (by decide) (by decide) (by omega), key 48 49 (by decide) (by decide) (by omega),
    key 57 57 (by decide) (by decide) (by omega)⟩

/-- Instance fact: no country of the live table has a blank (`e`) position, so "contains no
    blank" holds for every BBAN that fits a live structure. -/
theorem live_no_blank_class :
    Gen.table.all (fun e => match parseSpec e.bbanSpec with
      | some l => !(expandSpec l).contains SClass.e
      | none => false) = true := by decide +kernel

/-- Instance fact: every entry of the live table is found under its own key. -/
theorem live_lookup_self : Gen.table.all (fun e => (Gen.table.lookup e.code).map (·.code) == some e.code) = true := by
  decide +kernel

/-! Non-vacuity -/
-- DE, BBAN 370400440532013000 fits; computed digits are 89
example : fits (Gen.table.lookup [68, 69]).get!
    [51, 55, 48, 52, 48, 48, 52, 52, 48, 53, 51, 50, 48, 49, 51, 48, 48, 48] = true := by decide +kernel
example : fmt02 (checkDigits [68, 69]
    [51, 55, 48, 52, 48, 48, 52, 52, 48, 53, 51, 50, 48, 49, 51, 48, 48, 48]) = [56, 57] := by
  decide +kernel

end SV.Props.C02
