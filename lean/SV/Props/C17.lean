/-
  C17 — The bundled country and bank data are internally consistent.

  Everything here is an obligation on the data regenerated from the live tree (so "future registry
  updates" are covered by construction: the kernel re-checks whatever the tree bundles), plus the
  generic lemmas that turn the boolean checks into the statements of the property.
  Reachability ("every listed bank can occur in a valid IBAN and is found again from it") is proved
  in `C17Reach.lean` (and exercised on the real code for every distinct key).
-/
import SV.Proofs.BankData
import SV.Props.C12
import SV.Props.C06
import SV.Props.C02
import SV.Gen.BanksAll
namespace SV.Props.C17
open SV Spec

/-- Country table: every structure string parses and describes exactly `bban_length` positions,
    `iban_length = bban_length + 4 ≤ 34`, the compiled pattern is the conversion of the structure
    string, keys are two upper-case letters, every published position is non-empty and inside the
    BBAN, positions are pairwise disjoint, bank-identifying fields are published fields. -/
theorem live_table_wf : Gen.table.WF := C01.table_wf

/-- Every entry is found under its own key (keys are distinct). -/
theorem live_keys_distinct :
    Gen.table.all (fun e => (Gen.table.lookup e.code).map (·.code) == some e.code) = true :=
  C02.live_lookup_self

/-- National algorithms read only fields the country defines: for every country with a registered
    national algorithm, every declared field is published or not published at all (then it reads
    the empty string), at least one declared field is published, and the field holding the check
    digits that the algorithm compares with (`national_checksum_digits`; the holder id for IS; none
    for CZ/SK whose rule has no separate check field) is published. -/
def algoFieldsOk (T : Table) (A : AlgoTable) : Bool :=
  A.all (fun a =>
    match a.ref with
    | .nat alg =>
      match T.lookup (a.key.take 2) with
      | none => true        -- registered for a country the table does not have: nothing is read
      | some e =>
        a.accepts.any (fun k => ((e.positions.getD []).lookup k).isSome) &&
        (match alg with
         | .czsk => true
         | .is_ => ((e.positions.getD []).lookup .accountHolderId).isSome
         | _ => ((e.positions.getD []).lookup .nationalChecksumDigits).isSome)
    | _ => true)

theorem live_algo_fields : algoFieldsOk Gen.table Gen.algoTable = true := by decide +kernel

/-- The bit mask used for BIC country codes only has bits of pycountry's alpha-2 codes. -/
theorem live_iso_mask_sound : maskSound Gen.isoMask (fun c => Gen.iso.contains c) = true := by
  decide +kernel

/-- Every bank entry of the effective registry: its country is a key of the table, the chunk's key
    classes are those of the country's bank-identifying field, its BIC is null, empty or an ISO 9362
    BIC with a known country code, its bank code is empty or fits the field in length and
    character classes.  (Kernel evaluation, chunk by chunk, in `SV.Gen.Banks*`.) -/
theorem live_banks_ok : Gen.bankChunks.all (chunkOk Gen.table Gen.isoMask) = true :=
  Gen.bankChunks_ok

/-- …and the chunks hold every entry of the registry. -/
theorem live_bank_rows_complete :
    Gen.bankRowCount = Gen.bankCount ∧
    (Gen.bankChunks.map (fun c => c.rows.length)).sum = Gen.bankRowCount := by decide +kernel

/-! ### what the boolean checks mean -/

theorem chunk_country_known {T : Table} {m : Nat} {c : BankChunk} (h : chunkOk T m c = true) :
    ∃ e, T.lookup c.country = some e ∧ keyClasses e = some c.cls := by
  unfold chunkOk at h
  simp only [Bool.and_eq_true] at h
  cases hl : T.lookup c.country with
  | none => simp [hl] at h
  | some e => exact ⟨e, rfl, by simpa [hl] using h.1⟩

theorem row_bank_code_fits {T : Table} {m : Nat} {c : BankChunk} (h : chunkOk T m c = true)
    {r : BankRow} (hr : r ∈ c.rows) (hne : r.code ≠ []) : fitsClasses c.cls r.code = true := by
  unfold chunkOk at h
  simp only [Bool.and_eq_true, List.all_eq_true] at h
  have := h.2 r hr
  simp only [rowOk, codeOk, Bool.and_eq_true, Bool.or_eq_true, beq_iff_eq] at this
  rcases this.2 with h' | h'
  · exact absurd h' hne
  · exact h'

theorem row_bic_valid {T : Table} {iso : List Str} {m : Nat}
    (hs : maskSound m (fun c => iso.contains c) = true) {c : BankChunk} (h : chunkOk T m c = true)
    {r : BankRow} (hr : r ∈ c.rows) {b : Str} (hb : r.bic = some b) (hne : b ≠ []) :
    iso9362 iso false b = true := by
  unfold chunkOk at h
  simp only [Bool.and_eq_true, List.all_eq_true] at h
  have := h.2 r hr
  simp only [rowOk, Bool.and_eq_true] at this
  rw [hb] at this
  exact iso9362_of_bicOk hs hne this.1

/-- A valid BIC consists of upper-case letters and digits, so it is its own compact form and the
    BIC constructor returns it unchanged: the hypothesis `RegistryBicsOk` of the C12 theorems. -/
theorem bic_new_of_iso9362 (X : BicCtx) (hX : X.WF) (hU : X.U.WF) {b : Str}
    (h : iso9362 X.iso false b = true) : BIC.new X b false false = .ok b := by
  have hA : allAlnum b = true := by
    simp only [iso9362, Bool.and_eq_true, Bool.or_eq_true, beq_iff_eq] at h
    obtain ⟨⟨⟨⟨⟨_, h4⟩, hcc⟩, _⟩, hloc⟩, hbr⟩ := h
    have e : b = b.take 4 ++ ((b.drop 4).take 2 ++ ((b.drop 6).take 2 ++ b.drop 8)) := by
      have e1 : b.drop 6 = (b.drop 4).drop 2 := by simp
      have e2 : b.drop 8 = (b.drop 6).drop 2 := by simp
      rw [e2, List.take_append_drop, e1, List.take_append_drop, List.take_append_drop]
    rw [e]
    simp only [allAlnum, List.all_append, Bool.and_eq_true]
    refine ⟨by simpa [isAlnumU, isAsciiAlnumUpper] using h4, ?_, by simpa [isAlnumU, isAsciiAlnumUpper] using hloc,
      by simpa [isAlnumU, isAsciiAlnumUpper] using hbr⟩
    simp only [List.all_eq_true] at hcc ⊢
    intro x hx
    simp [isAsciiAlnumUpper, hcc x hx]
  have hc := clean_of_allAlnum hU hA
  have hv := (C04.validate_iff X hX b false).mpr h
  unfold BIC.new
  simp only [Bool.false_eq_true, ↓reduceIte]
  rw [hc, hv]; rfl

theorem registryBicsOk_of_bicOk (X : BicCtx) (hX : X.WF) (hU : X.U.WF) {m : Nat}
    (hs : maskSound m (fun c => X.iso.contains c) = true) (R : Registry)
    (h : ∀ e ∈ R, bicOk m e.bic = true) : C12.RegistryBicsOk X R := by
  intro e he b hb hne
  have := h e he
  rw [hb] at this
  exact bic_new_of_iso9362 X hX hU (iso9362_of_bicOk hs hne this)

/-! Non-vacuity: the obligations are about non-empty data. -/
example : Gen.bankChunks.length > 50 ∧ Gen.bankRowCount > 20000 := by decide +kernel

end SV.Props.C17
