/-
  C07 at the IBAN level — "for a German IBAN whose bank code is listed … with a method the library
  implements, national validation accepts the IBAN exactly when that method accepts the ten-digit
  account number".

  `german_iban_level` (generic): for a text that is valid without national validation, whose
  country's layout reads the account number at `bban[8:18]`, and whose bank's FIRST registry entry
  names a method registered with parameters `p`, `IBAN(text, validate_bban=True)` succeeds exactly
  when the engine instantiated with `p` accepts the ten account digits.  `live_german_iban_00`: the
  chain closed for method 00 on the live tables — accepted iff the published rule of method 00 holds
  for the digits at positions 12 … 21 of the compact IBAN (the other 38 methods compose in the same
  way with their theorems in `C07Plain` / `C07Special`).
-/
import SV.Props.C07
import SV.Props.C06Rules
namespace SV.Props.C07
open SV Spec

/-- For a text valid without national validation, acceptance with it is the national check. -/
theorem accept_national_iff (X : Ctx) (hU : X.U.WF) (hT : X.T.WF) (s : Str)
    (hv : isoValid X.T (clean X.U s) = true) :
    (IBAN.new X s false true).isOk = true ↔
      BBAN.validateNational X ((clean X.U s).take 2) ((clean X.U s).drop 4) = .ok true := by
  rw [C06.new_national_eq X hU hT s, if_pos hv]
  cases h : BBAN.validateNational X ((clean X.U s).take 2) ((clean X.U s).drop 4) with
  | ok b =>
    have := validateNational_true X _ _ h
    subst this
    simp [Res.bind]
  | err _ => simp [Res.bind]
  | crash _ => simp [Res.bind]

/-- **German IBANs, generic.** -/
theorem german_iban_level (X : Ctx) (hU : X.U.WF) (hT : X.T.WF) (s : Str) {cc : Str} {e : Country}
    (hv : isoValid X.T (clean X.U s) = true) (hcc : (clean X.U s).take 2 = cc)
    (hl : X.T.lookup cc = some e)
    (hacc : e.range .accountCode = ⟨8, 18⟩) (hblen : e.bbanLength = 18)
    {x : BankEntry} {t : List BankEntry}
    (hb : X.R.byBankCode cc (lookupKey e ((clean X.U s).drop 4)) = some (x :: t))
    {name : Str} (hname : x.checksumAlgo = some name)
    {a : AlgoEntry} {p : DEParams} (ha : X.A.get (cc ++ [colon] ++ name) = some a)
    (href : a.ref = .de p) (haccepts : a.accepts = [.accountCode]) :
    (IBAN.new X s false true).isOk =
      deAccepts (p.validateM X.U [slice ((clean X.U s).drop 4) 8 18] ⟨0⟩).2 := by
  have hlen : ((clean X.U s).drop 4).length = 18 := by
    unfold isoValid at hv
    rw [hcc, hl] at hv
    simp only [Bool.and_eq_true, beq_iff_eq] at hv
    have := hv.1.1.1.1.1.1
    rw [List.length_drop]; omega
  have hiff := accept_national_iff X hU hT s hv
  rw [hcc, dispatch X hl] at hiff
  simp only [hb, hname, Option.getD_some, ha, href, AlgoRef.validate, haccepts, componentsOf, hacc] at hiff
  rw [getSlice_eq_slice (by omega) (by omega)] at hiff
  cases hr : (p.validateM X.U [slice ((clean X.U s).drop 4) 8 18] ⟨0⟩).2 with
  | ok v =>
    rw [hr] at hiff
    cases v with
    | true =>
      simp only [deAccepts]
      exact hiff.mpr (by simp [Res.bind])
    | false =>
      simp only [deAccepts]
      cases hq : (IBAN.new X s false true).isOk with
      | false => rfl
      | true => have := hiff.mp hq; simp [Res.bind] at this
  | err k =>
    rw [hr] at hiff
    simp only [deAccepts]
    cases hq : (IBAN.new X s false true).isOk with
    | false => rfl
    | true => have := hiff.mp hq; simp [Res.bind] at this
  | crash k =>
    rw [hr] at hiff
    simp only [deAccepts]
    cases hq : (IBAN.new X s false true).isOk with
    | false => rfl
    | true => have := hiff.mp hq; simp [Res.bind] at this

/-- The live German layout. -/
theorem live_de_layout : (match Gen.table.lookup (C06.bytes "DE") with
    | some e => e.range .accountCode == ⟨8, 18⟩ && e.bbanLength == 18 &&
        ((parseSpec e.bbanSpec).map expandSpec == some (List.replicate 18 SClass.n))
    | none => false) = true := by decide +kernel

/-- **Every implemented method, on the live tables**: a German text that is valid without national
    validation and whose bank's first registry entry names a method registered with parameters `p`
    is accepted with national validation exactly when the engine instantiated with `p` accepts its
    ten account digits `d1 … d10` (the digits at positions 12 … 21 of the compact IBAN).  Composing
    with the method's theorem (`de00` … `de99`) replaces the right-hand side by the published rule. -/
theorem live_german_iban (R : Registry) (s : Str)
    (hv : isoValid Gen.table (clean Gen.unicode s) = true)
    (hcc : (clean Gen.unicode s).take 2 = C06.bytes "DE")
    {e : Country} (hl : Gen.table.lookup (C06.bytes "DE") = some e)
    {x : BankEntry} {t : List BankEntry}
    (hb : R.byBankCode (C06.bytes "DE") (lookupKey e ((clean Gen.unicode s).drop 4)) = some (x :: t))
    {name : Str} (hname : x.checksumAlgo = some name)
    {a : AlgoEntry} {p : DEParams} (ha : Gen.algoTable.get (C06.bytes "DE" ++ [colon] ++ name) = some a)
    (href : a.ref = .de p) (haccepts : a.accepts = [.accountCode]) :
    ∃ d1 d2 d3 d4 d5 d6 d7 d8 d9 d10, d1 < 10 ∧ d2 < 10 ∧ d3 < 10 ∧ d4 < 10 ∧ d5 < 10 ∧ d6 < 10 ∧
      d7 < 10 ∧ d8 < 10 ∧ d9 < 10 ∧ d10 < 10 ∧
      slice ((clean Gen.unicode s).drop 4) 8 18 = acct d1 d2 d3 d4 d5 d6 d7 d8 d9 d10 ∧
      (IBAN.new (Gen.ctx R) s false true).isOk =
        deAccepts (p.validateM Gen.unicode [acct d1 d2 d3 d4 d5 d6 d7 d8 d9 d10] ⟨0⟩).2 := by
  have hlay := live_de_layout
  rw [hl] at hlay
  simp only [Bool.and_eq_true, beq_iff_eq] at hlay
  obtain ⟨⟨hacc, hblen⟩, hcls⟩ := hlay
  have hfit : fits e ((clean Gen.unicode s).drop 4) = true := by
    unfold isoValid at hv
    rw [hcc, hl] at hv
    simp only [Bool.and_eq_true] at hv
    exact hv.1.1.1.2
  have hfc : fitsClasses (List.replicate 18 SClass.n) ((clean Gen.unicode s).drop 4) = true := by
    unfold fits at hfit
    cases hps : parseSpec e.bbanSpec with
    | none => simp [hps] at hcls
    | some l =>
      rw [hps] at hfit hcls
      simp only [Option.map_some, Option.some.injEq] at hcls
      rw [← hcls]; exact hfit
  have h10 : fitsClasses (List.replicate 10 SClass.n) (slice ((clean Gen.unicode s).drop 4) 8 18) = true := by
    have h1 := fitsClasses_take 18 hfc
    have h2 := fitsClasses_drop 8 h1
    simpa [slice] using h2
  obtain ⟨d1, d2, d3, d4, d5, d6, d7, d8, d9, d10, g1, g2, g3, g4, g5, g6, g7, g8, g9, g10, hs⟩ :=
    acct_of_digits h10
  refine ⟨d1, d2, d3, d4, d5, d6, d7, d8, d9, d10, g1, g2, g3, g4, g5, g6, g7, g8, g9, g10, hs, ?_⟩
  have := german_iban_level (Gen.ctx R) C10.unicode_wf C01.table_wf s hv hcc hl hacc hblen hb hname ha
    href haccepts
  have hU' : (Gen.ctx R).U = Gen.unicode := rfl
  rw [hU'] at this
  rw [this, hs]

/-- **Method 00, end to end on the live tables**: accepted exactly when the published rule of method
    00 holds for the ten account digits. -/
theorem live_german_iban_00 (R : Registry) (s : Str)
    (hv : isoValid Gen.table (clean Gen.unicode s) = true)
    (hcc : (clean Gen.unicode s).take 2 = C06.bytes "DE")
    {e : Country} (hl : Gen.table.lookup (C06.bytes "DE") = some e)
    {x : BankEntry} {t : List BankEntry}
    (hb : R.byBankCode (C06.bytes "DE") (lookupKey e ((clean Gen.unicode s).drop 4)) = some (x :: t))
    (hname : x.checksumAlgo = some (C06.bytes "00")) :
    ∃ d1 d2 d3 d4 d5 d6 d7 d8 d9 d10,
      slice ((clean Gen.unicode s).drop 4) 8 18 = acct d1 d2 d3 d4 d5 d6 d7 d8 d9 d10 ∧
      (IBAN.new (Gen.ctx R) s false true).isOk =
        rule10 (dotQ [2, 1, 2, 1, 2, 1, 2, 1, 2] [d9, d8, d7, d6, d5, d4, d3, d2, d1]) d10 := by
  have hk : Gen.algoTable.get (C06.bytes "DE" ++ [colon] ++ C06.bytes "00") =
      some ⟨C06.bytes "DE:00", .de Gen.de_DE_00, [.accountCode]⟩ := by rfl
  obtain ⟨d1, d2, d3, d4, d5, d6, d7, d8, d9, d10, g1, g2, g3, g4, g5, g6, g7, g8, g9, g10, hs, hok⟩ :=
    live_german_iban R s hv hcc hl hb hname hk rfl rfl
  refine ⟨d1, d2, d3, d4, d5, d6, d7, d8, d9, d10, hs, ?_⟩
  rw [hok]
  exact (de00 Gen.unicode C10.unicode_wf d1 d2 d3 d4 d5 d6 d7 d8 d9 d10 g1 g2 g3 g4 g5 g6 g7 g8 g9 g10 ⟨0⟩).2

end SV.Props.C07
