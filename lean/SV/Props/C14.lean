/-
  C14 — Concurrent use gives every caller the answer it would get alone.

  PARTIAL.  Proved: non-interference for ANY number of threads and ANY schedule (unbounded length) in
  the model where every thread works on its own state and only reads the shared environment; and that
  the pinned design (one scratch cell shared by all threads) does NOT have the property (a concrete
  three-step schedule).  Tie to the code: the effect probe regenerated on every run shows that (after
  the repair) attributes of the algorithm singletons are per-thread and that calls write nothing
  shared after import (`live_*` obligations).  Real preemption inside CPython, the free-threaded
  build and third-party modules are outside the model; the line-level scheduler `tools/sched.py`
  searches the real code for a schedule whose result differs from running alone.
-/
import SV.Model.Effects
import SV.Gen.Effects
namespace SV.Props.C14
open SV

theorem stepThread_length {E L : Type} (step : E → L → L) (env : E) (locals : List L) (i : Nat) :
    (stepThread step env locals i).length = locals.length := by
  unfold stepThread; split <;> simp

theorem stepThread_get {E L : Type} (step : E → L → L) (env : E) (locals : List L) (i j : Nat) :
    (stepThread step env locals i)[j]? =
      if i = j then locals[j]?.map (step env) else locals[j]? := by
  unfold stepThread
  by_cases hij : i = j
  · subst hij
    cases h : locals[i]? with
    | none => simp [h]
    | some l =>
      have hi : i < locals.length := by
        rcases Nat.lt_or_ge i locals.length with hlt | hge
        · exact hlt
        · rw [List.getElem?_eq_none hge] at h; cases h
      simp [h, List.getElem?_set, hi]
  · cases h : locals[i]? with
    | none => simp [hij]
    | some l => simp [hij, List.getElem?_set]

theorem iter_succ' {α : Type} (f : α → α) (n : Nat) (a : α) : iter f (n + 1) a = f (iter f n a) := by
  induction n generalizing a with
  | zero => rfl
  | succ n ih => simp only [iter]; rw [← ih]; rfl

theorem iter_map_comm {α : Type} (f : α → α) (n : Nat) (a : Option α) :
    (a.map (iter f n)).map f = (a.map f).map (iter f n) := by
  cases a with
  | none => rfl
  | some x =>
    simp only [Option.map_some]
    induction n generalizing x with
    | zero => rfl
    | succ n ih => simp only [iter]; rw [ih]

/-- **Non-interference**: under every schedule, each thread ends in the state it reaches by making
    the same number of steps alone. -/
theorem noninterference {E L : Type} (step : E → L → L) (env : E) :
    ∀ (sched : List Nat) (locals : List L) (j : Nat),
      (runSchedule step env locals sched)[j]? = locals[j]?.map (iter (step env) (sched.count j))
  | [], locals, j => by simp [runSchedule, iter]
  | i :: t, locals, j => by
    simp only [runSchedule]
    rw [noninterference step env t (stepThread step env locals i) j, stepThread_get]
    by_cases hij : i = j
    · subst hij
      simp only [↓reduceIte, List.count_cons_self]
      cases locals[i]? with
      | none => rfl
      | some l => simp [iter]
    · have : (i == j) = false := by simpa using hij
      simp [hij, List.count_cons, this]

/-- The number of steps a thread needs does not matter either: once a thread has made all its
    steps alone, its result is in its state, and the schedule gave it exactly those steps. -/
theorem result_as_alone {E L : Type} (step : E → L → L) (env : E) (sched : List Nat) (locals : List L)
    (j : Nat) (l : L) (h : locals[j]? = some l) :
    (runSchedule step env locals sched)[j]? = some (iter (step env) (sched.count j) l) := by
  rw [noninterference, h]; rfl

/-- With ONE cell shared by the threads the property fails: thread 0 writes 1 and reads, thread 1
    writes 2; under the schedule 0,1,0 thread 0 reads 2 although alone it reads 1. -/
theorem shared_cell_interferes :
    let run := fun (sch : List Nat) => sch.foldl (sharedCellStep 1 2) (0, 0, none, 0)
    (run [0, 0]).2.2.1 = some 1 ∧ (run [0, 1, 0]).2.2.1 = some 2 := by decide

/-- Instance obligations (effect probe on the live tree, regenerated on every run): no attribute of
    an algorithm singleton written by one thread is visible to another, and a battery of calls
    writes nothing shared after import. -/
theorem live_scratch_is_thread_local : Gen.sharedScratch = [] := by decide
theorem live_no_shared_writes : Gen.sharedWritesAfterImport = [] := by decide

/-- …nor does it change any module-level or class-level container, `functools` cache, mutable default
    argument, closure cell or function attribute of the schwifty modules (state every thread shares). -/
theorem live_no_module_state_writes : Gen.moduleStateWrites = [] := by decide

end SV.Props.C14
