/-
  C12 — Bank-code ↔ BIC lookups agree with the registry and with each other.

  All theorems are for EVERY registry `R` (any list of bank entries), no reference to the bundled
  one.  `RegistryBicsOk` (every non-empty BIC of the registry is valid and already in compact form)
  is the only hypothesis about the data; it is part of the C17 obligations on the bundled registry.
-/
import SV.Proofs.Bic
import SV.Props.C04
namespace SV.Props.C12
open SV Spec

/-- Every non-empty BIC listed in the registry is a valid BIC in compact form. -/
def RegistryBicsOk (X : BicCtx) (R : Registry) : Prop :=
  ∀ e ∈ R, ∀ b, e.bic = some b → b ≠ [] → BIC.new X b false false = .ok b

/-- The non-empty BICs of a list of entries, in order. -/
def nonEmptyBics : List BankEntry → List Str
  | [] => []
  | e :: t => match e.bic with
    | some b => if b = [] then nonEmptyBics t else b :: nonEmptyBics t
    | none => nonEmptyBics t

/-- The entries the registry lists for a (country, bank code) pair, in file order. -/
def listed (R : Registry) (cc code : Str) : List BankEntry :=
  R.filter (fun e => e.countryCode == cc && e.bankCode == code)

theorem byBankCode_eq (R : Registry) (cc code : Str) :
    R.byBankCode cc code =
      if cc = [] ∨ code = [] ∨ listed R cc code = [] then none else some (listed R cc code) := by
  unfold Registry.byBankCode listed
  by_cases h1 : cc = []
  · simp [h1]
  · by_cases h2 : code = []
    · simp [h2]
    · simp only [h1, h2, decide_false, Bool.or_self, Bool.false_eq_true, ↓reduceIte, false_or]
      cases hf : R.filter (fun e => e.countryCode == cc && e.bankCode == code) with
      | nil => simp
      | cons a t => simp

/-- An unlisted pair raises `InvalidBankCode` — from both lookups. -/
theorem unlisted (X : BicCtx) (R : Registry) (cc code : Str)
    (h : R.byBankCode cc code = none) :
    BIC.candidates X R cc code = .err .invalidBankCode ∧
    BIC.fromBankCode X R cc code = .err .invalidBankCode := by
  unfold BIC.fromBankCode BIC.candidates
  rw [h]
  exact ⟨rfl, rfl⟩

theorem bicsOf_eq (X : BicCtx) (R : Registry) (hR : RegistryBicsOk X R) :
    ∀ l : List BankEntry, (∀ e ∈ l, e ∈ R) → bicsOf X l = .ok (nonEmptyBics l)
  | [], _ => rfl
  | e :: t, h => by
    have ih := bicsOf_eq X R hR t (fun x hx => h x (by simp [hx]))
    unfold bicsOf nonEmptyBics
    cases hb : e.bic with
    | none => simpa using ih
    | some b =>
      by_cases hbe : b = []
      · simpa [hbe] using ih
      · have := hR e (h e (by simp)) b hb hbe
        simp only [hbe, ↓reduceIte]
        rw [this, ih]
        rfl

/-- The candidates are exactly the non-empty BICs the registry lists for the pair — those of the
    primary entries first, each group in file order. -/
theorem candidates_listed (X : BicCtx) (R : Registry) (hR : RegistryBicsOk X R) (cc code : Str)
    (l : List BankEntry) (h : R.byBankCode cc code = some l) :
    l = listed R cc code ∧
    BIC.candidates X R cc code =
      .ok (nonEmptyBics (l.filter (·.primary)) ++ nonEmptyBics (l.filter (fun e => !e.primary))) := by
  have hl : l = listed R cc code := by
    rw [byBankCode_eq] at h
    split at h
    · cases h
    · exact (Option.some.inj h).symm
  refine ⟨hl, ?_⟩
  unfold BIC.candidates
  rw [h]
  simp only
  have hmem : ∀ e ∈ sortPrimaryFirst l, e ∈ R := by
    intro e he
    simp only [sortPrimaryFirst, List.mem_append, List.mem_filter] at he
    have : e ∈ l := by rcases he with h' | h' <;> exact h'.1
    rw [hl] at this
    exact (List.mem_filter.mp this).1
  rw [bicsOf_eq X R hR _ hmem]
  congr 1
  unfold sortPrimaryFirst
  generalize l.filter (·.primary) = a
  generalize l.filter (fun e => !e.primary) = b
  induction a with
  | nil => rfl
  | cons e t ih =>
    simp only [List.cons_append, nonEmptyBics]
    cases e.bic with
    | none => exact ih
    | some x => by_cases hx : x = [] <;> simp [hx, ih]

/-! ### the selection rule -/

theorem maxStr_mem : ∀ (l : List Str) (m : Str), maxStr l = some m → m ∈ l
  | [], m, h => by simp [maxStr] at h
  | a :: t, m, h => by
    unfold maxStr at h
    cases ht : maxStr t with
    | none => simp [ht] at h; simp [h]
    | some m' =>
      simp only [ht, Option.some.injEq] at h
      have := maxStr_mem t m' ht
      by_cases hlt : strLt m' a = true
      · simp [hlt] at h; simp [← h]
      · simp [hlt] at h; simp [← h, this]

theorem maxStr_none : ∀ (l : List Str), maxStr l = none → l = []
  | [], _ => rfl
  | a :: t, h => by
    unfold maxStr at h
    cases ht : maxStr t <;> simp [ht] at h

theorem strLt_irrefl : ∀ a : Str, strLt a a = false
  | [] => rfl
  | x :: t => by simp [strLt, strLt_irrefl t]

theorem strLt_trans : ∀ {a b c : Str}, strLt a b = true → strLt b c = true → strLt a c = true
  | [], [], _, h, _ => by simp [strLt] at h
  | [], _ :: _, [], _, h => by simp [strLt] at h
  | [], _ :: _, _ :: _, _, _ => rfl
  | _ :: _, [], _, h, _ => by simp [strLt] at h
  | _ :: _, _ :: _, [], _, h => by simp [strLt] at h
  | x :: s, y :: t, z :: u, h1, h2 => by
    simp only [strLt] at h1 h2 ⊢
    by_cases hxy : x < y
    · by_cases hyz : y < z
      · have : x < z := by omega
        simp [this]
      · by_cases hzy : z < y
        · simp [hyz, hzy] at h2
        · have : y = z := by omega
          subst this; simp [hxy]
    · by_cases hyx : y < x
      · simp [hxy, hyx] at h1
      · have : x = y := by omega
        subst this
        simp only [hxy, ↓reduceIte, Nat.lt_irrefl] at h1
        by_cases hxz : x < z
        · simp [hxz]
        · by_cases hzx : z < x
          · simp [hxz, hzx] at h2
          · simp only [hxz, hzx, ↓reduceIte] at h2 ⊢
            exact strLt_trans h1 h2

/-- `maxStr` returns a greatest element: nothing in the list is strictly greater. -/
theorem maxStr_max : ∀ (l : List Str) (m : Str), maxStr l = some m → ∀ x ∈ l, strLt m x = false
  | [], m, h, _, _ => by simp [maxStr] at h
  | a :: t, m, h, x, hx => by
    unfold maxStr at h
    cases ht : maxStr t with
    | none =>
      simp only [ht, Option.some.injEq] at h
      have := maxStr_none t ht
      subst this h
      simp at hx; subst hx; exact strLt_irrefl _
    | some m' =>
      simp only [ht, Option.some.injEq] at h
      have ih := maxStr_max t m' ht
      by_cases hlt : strLt m' a = true
      · simp only [hlt, ↓reduceIte] at h
        subst h
        rcases List.mem_cons.mp hx with rfl | hx'
        · exact strLt_irrefl _
        · cases hax : strLt a x with
          | false => rfl
          | true => have := strLt_trans hlt hax; rw [ih x hx'] at this; cases this
      · simp only [hlt, Bool.false_eq_true, ↓reduceIte] at h
        subst h
        rcases List.mem_cons.mp hx with rfl | hx'
        · simpa using hlt
        · exact ih x hx'

/-- The selection rule of the property: an 8-character candidate if any (the greatest such),
    else one with branch `XXX` (the greatest such), else the first. -/
def specChoice (cands : List Str) : Option Str :=
  match maxStr (cands.filter (fun c => BIC.branchCode c == [])) with
  | some m => some m
  | none => match maxStr (cands.filter (fun c => BIC.branchCode c == [88, 88, 88])) with
    | some m => some m
    | none => cands.head?

theorem choice (X : BicCtx) (R : Registry) (cc code : Str) (cands : List Str)
    (h : BIC.candidates X R cc code = .ok cands) :
    BIC.fromBankCode X R cc code =
      (match specChoice cands with
       | some b => .ok b
       | none => .err .invalidBankCode) ∧
    (∀ b, specChoice cands = some b → b ∈ cands) := by
  constructor
  · unfold BIC.fromBankCode
    rw [h]
    simp only [Res.ok_bind]
    unfold specChoice
    match cands with
    | [] => rfl
    | [c] =>
      -- a single candidate: the guard `len > 1` is false, the rule gives the same answer
      simp only [List.length_singleton, Nat.lt_irrefl, ↓reduceIte, List.filter_cons, List.filter_nil,
        List.head?_cons]
      by_cases h8 : (BIC.branchCode c == []) = true
      · simp [h8, maxStr]
      · by_cases hx : (BIC.branchCode c == [88, 88, 88]) = true
        · simp [h8, hx, maxStr]
        · simp [h8, hx, maxStr]
    | c :: d :: t =>
      have : (c :: d :: t).length > 1 := by simp
      simp only [this, ↓reduceIte]
      cases maxStr ((c :: d :: t).filter (fun c => BIC.branchCode c == [])) with
      | some m => rfl
      | none =>
        simp only
        cases maxStr ((c :: d :: t).filter (fun c => BIC.branchCode c == [88, 88, 88])) with
        | some m => rfl
        | none => rfl
  · intro b hb
    unfold specChoice at hb
    cases h1 : maxStr (cands.filter (fun c => BIC.branchCode c == [])) with
    | some m =>
      simp only [h1, Option.some.injEq] at hb; subst hb
      exact (List.mem_filter.mp (maxStr_mem _ _ h1)).1
    | none =>
      simp only [h1] at hb
      cases h2 : maxStr (cands.filter (fun c => BIC.branchCode c == [88, 88, 88])) with
      | some m =>
        simp only [h2, Option.some.injEq] at hb; subst hb
        exact (List.mem_filter.mp (maxStr_mem _ _ h2)).1
      | none =>
        simp only [h2] at hb
        exact List.mem_of_mem_head? hb

/-- The chosen BIC has no branch part whenever some candidate has none, and is then the
    greatest such candidate; otherwise likewise for branch `XXX`. -/
theorem choice_prefers_generic (cands : List Str) (b : Str) (hb : specChoice cands = some b) :
    ((∃ c ∈ cands, BIC.branchCode c = []) →
        BIC.branchCode b = [] ∧ ∀ c ∈ cands, BIC.branchCode c = [] → strLt b c = false) ∧
    ((¬ ∃ c ∈ cands, BIC.branchCode c = []) → (∃ c ∈ cands, BIC.branchCode c = [88, 88, 88]) →
        BIC.branchCode b = [88, 88, 88] ∧
        ∀ c ∈ cands, BIC.branchCode c = [88, 88, 88] → strLt b c = false) := by
  unfold specChoice at hb
  constructor
  · rintro ⟨c, hc, hbr⟩
    cases h1 : maxStr (cands.filter (fun c => BIC.branchCode c == [])) with
    | none =>
      have := maxStr_none _ h1
      have hm : c ∈ cands.filter (fun c => BIC.branchCode c == []) := by
        simp [List.mem_filter, hc, hbr]
      rw [this] at hm; cases hm
    | some m =>
      simp only [h1, Option.some.injEq] at hb; subst hb
      have hm := List.mem_filter.mp (maxStr_mem _ _ h1)
      refine ⟨by simpa using hm.2, fun c' hc' hbr' => ?_⟩
      exact maxStr_max _ _ h1 c' (by simp [List.mem_filter, hc', hbr'])
  · intro hno ⟨c, hc, hbr⟩
    have h1 : maxStr (cands.filter (fun c => BIC.branchCode c == [])) = none := by
      cases h1 : maxStr (cands.filter (fun c => BIC.branchCode c == [])) with
      | none => rfl
      | some m =>
        have hm := List.mem_filter.mp (maxStr_mem _ _ h1)
        exact absurd ⟨m, hm.1, by simpa using hm.2⟩ hno
    simp only [h1] at hb
    cases h2 : maxStr (cands.filter (fun c => BIC.branchCode c == [88, 88, 88])) with
    | none =>
      have := maxStr_none _ h2
      have hm : c ∈ cands.filter (fun c => BIC.branchCode c == [88, 88, 88]) := by
        simp [List.mem_filter, hc, hbr]
      rw [this] at hm; cases hm
    | some m =>
      simp only [h2, Option.some.injEq] at hb; subst hb
      have hm := List.mem_filter.mp (maxStr_mem _ _ h2)
      refine ⟨by simpa using hm.2, fun c' hc' hbr' => ?_⟩
      exact maxStr_max _ _ h2 c' (by simp [List.mem_filter, hc', hbr'])

/-! ### inversion -/

theorem mem_nonEmptyBics {l : List BankEntry} {b : Str} (h : b ∈ nonEmptyBics l) :
    ∃ e ∈ l, e.bic = some b ∧ b ≠ [] := by
  induction l with
  | nil => simp [nonEmptyBics] at h
  | cons e t ih =>
    unfold nonEmptyBics at h
    cases hb : e.bic with
    | none =>
      simp only [hb] at h
      obtain ⟨e', he', h'⟩ := ih h
      exact ⟨e', by simp [he'], h'⟩
    | some x =>
      simp only [hb] at h
      by_cases hx : x = []
      · simp only [hx, ↓reduceIte] at h
        obtain ⟨e', he', h'⟩ := ih h
        exact ⟨e', by simp [he'], h'⟩
      · simp only [hx, ↓reduceIte, List.mem_cons] at h
        rcases h with rfl | h
        · exact ⟨e, by simp, hb, hx⟩
        · obtain ⟨e', he', h'⟩ := ih h
          exact ⟨e', by simp [he'], h'⟩

theorem mem_sortedSet_ins (x y : Str) (l : List Str) :
    y ∈ sortedSet.ins x l ↔ y = x ∨ y ∈ l := by
  induction l with
  | nil => simp [sortedSet.ins]
  | cons z t ih =>
    unfold sortedSet.ins
    by_cases h1 : (x == z) = true
    · have : x = z := by simpa using h1
      subst this; simp
    · simp only [h1, Bool.false_eq_true, ↓reduceIte]
      by_cases h2 : strLt x z = true
      · simp [h2]
      · simp only [h2, Bool.false_eq_true, ↓reduceIte, List.mem_cons, ih]
        constructor
        · rintro (h | h | h) <;> simp [h]
        · rintro (h | h | h) <;> simp [h]

theorem mem_sortedSet (y : Str) (l : List Str) : y ∈ sortedSet l ↔ y ∈ l := by
  unfold sortedSet
  have : ∀ (acc : List Str), y ∈ l.foldl (fun acc x => sortedSet.ins x acc) acc ↔ y ∈ acc ∨ y ∈ l := by
    induction l with
    | nil => simp
    | cons a t ih =>
      intro acc
      simp only [List.foldl_cons, ih, mem_sortedSet_ins, List.mem_cons]
      constructor
      · rintro ((h | h) | h) <;> simp [h]
      · rintro (h | h | h) <;> simp [h]
  simpa using this []

/-- The mapping is invertible: every candidate lists the bank code among its domestic bank codes
    and reports that it exists. -/
theorem inverse (X : BicCtx) (R : Registry) (hR : RegistryBicsOk X R) (cc code : Str)
    (cands : List Str) (h : BIC.candidates X R cc code = .ok cands) (b : Str) (hb : b ∈ cands) :
    code ∈ BIC.domesticBankCodes R b ∧ BIC.exists_ R b = true := by
  unfold BIC.candidates at h
  cases hl : R.byBankCode cc code with
  | none => rw [hl] at h; cases h
  | some l =>
    have ⟨hl', hc⟩ := candidates_listed X R hR cc code l hl
    unfold BIC.candidates at hc
    rw [hl] at h hc
    rw [hc] at h
    have hcands : cands = nonEmptyBics (l.filter (·.primary)) ++
        nonEmptyBics (l.filter (fun e => !e.primary)) := (Res.ok.inj h).symm
    rw [hcands, List.mem_append] at hb
    have ⟨e, he, hbic, hne⟩ : ∃ e ∈ l, e.bic = some b ∧ b ≠ [] := by
      rcases hb with hb | hb
      · obtain ⟨e, he, h'⟩ := mem_nonEmptyBics hb
        exact ⟨e, (List.mem_filter.mp he).1, h'⟩
      · obtain ⟨e, he, h'⟩ := mem_nonEmptyBics hb
        exact ⟨e, (List.mem_filter.mp he).1, h'⟩
    rw [hl'] at he
    have hf := List.mem_filter.mp he
    simp only [Bool.and_eq_true, beq_iff_eq] at hf
    have hin : e ∈ R.byBic b := by
      unfold Registry.byBic
      simp [hne, List.mem_filter, hf.1, hbic]
    constructor
    · unfold BIC.domesticBankCodes
      rw [mem_sortedSet]
      exact List.mem_map.mpr ⟨e, hin, hf.2.2⟩
    · unfold BIC.exists_
      cases hbb : R.byBic b with
      | nil => rw [hbb] at hin; cases hin
      | cons a t => rfl

/-! ### the IBAN/BBAN-level accessors -/

/-- `iban.bank` is the first registry entry for the key formed from the country's
    bank-identifying fields, or `None`. -/
theorem bban_bank (X : Ctx) {cc b : Str} {e : Country} (hl : X.T.lookup cc = some e) :
    BBAN.bank X cc b = .ok ((X.R.byBankCode cc (lookupKey e b)).bind List.head?) := by
  unfold BBAN.bank bbanSpec
  rw [hl]
  simp only [Res.ok_bind]
  cases X.R.byBankCode cc (lookupKey e b) with
  | none => rfl
  | some l => cases l <;> rfl

/-- `iban.bic` is `BIC.from_bank_code` on that key, `None` when it raises a library error. -/
theorem bban_bic (X : Ctx) {cc b : Str} {e : Country} (hl : X.T.lookup cc = some e) :
    BBAN.bic X cc b =
      match BIC.fromBankCode X.B X.R cc (lookupKey e b) with
      | .ok x => .ok (some x)
      | .err _ => .ok none
      | .crash c => .crash c := by
  unfold BBAN.bic bbanSpec
  rw [hl]
  simp only [Res.ok_bind]
  cases BIC.fromBankCode X.B X.R cc (lookupKey e b) <;> rfl

/-! Non-vacuity: a registry with ties, an empty BIC, a null BIC and a non-primary entry. -/
def demoR : Registry :=
  [⟨[68, 69], [49], some [71, 69, 78, 79, 68, 69, 77, 49, 71, 76, 83], false, none, [], []⟩,
   ⟨[68, 69], [49], some [], true, none, [], []⟩,
   ⟨[68, 69], [49], none, true, none, [], []⟩,
   ⟨[68, 69], [49], some [71, 69, 78, 79, 68, 69, 77, 49], true, none, [], []⟩]

example : BIC.candidates Gen.bicCtx demoR [68, 69] [49] =
    .ok [[71, 69, 78, 79, 68, 69, 77, 49], [71, 69, 78, 79, 68, 69, 77, 49, 71, 76, 83]] := by
  decide +kernel
example : BIC.fromBankCode Gen.bicCtx demoR [68, 69] [49] = .ok [71, 69, 78, 79, 68, 69, 77, 49] := by
  decide +kernel

end SV.Props.C12
