/-
  C04 — BIC acceptance is exactly the ISO 9362 structure with a known country code.
-/
import SV.Proofs.Bic
import SV.Props.C10
namespace SV.Props.C04
open SV Spec

/-- Instance obligation: the two compiled patterns of the live `bic.py` are
    `[A-Z0-9]{4}[A-Z]{2}[A-Z0-9]{2}(?:[A-Z0-9]{3})?` and the SWIFT variant with `[A-Z]{4}`. -/
theorem bic_ctx_wf : Gen.bicCtx.WF := ⟨by decide +kernel, by decide +kernel⟩

/-- `validate()` accepts exactly the ISO 9362 predicate, in both compliance modes, for every
    compact text; every other outcome is a library error (never a foreign exception). -/
theorem validate_iff (X : BicCtx) (hX : X.WF) (c : Str) (strict : Bool) :
    BIC.validate X c strict = .ok true ↔ iso9362 X.iso strict c = true := by
  rw [bic_validate_eq X hX, iso9362_split X.iso]
  by_cases hlen : c.length ≠ 8 ∧ c.length ≠ 11
  · have : iso9362 [(c.drop 4).take 2] strict c = false := by
      unfold iso9362
      have : (c.length == 8 || c.length == 11) = false := by simp [hlen.1, hlen.2]
      simp [this]
    simp [hlen, this]
  · rw [if_neg hlen]
    cases h1 : iso9362 [(c.drop 4).take 2] strict c <;>
      cases h2 : X.iso.contains ((c.drop 4).take 2) <;> simp

/-- **C04**: for every text, constructing a validated BIC succeeds exactly when the cleaned text
    is an ISO 9362 BIC with a known country code (strict mode: letters only in the prefix). -/
theorem accept_iff (X : BicCtx) (hX : X.WF) (s : Str) (strict : Bool) :
    (BIC.new X s false strict).isOk = true ↔ iso9362 X.iso strict (clean X.U s) = true := by
  rw [← validate_iff X hX]
  unfold BIC.new
  simp only [Bool.false_eq_true, ↓reduceIte]
  rw [bic_validate_eq X hX]
  split
  · simp
  · split
    · simp
    · split <;> simp

/-- `is_valid` never raises and is the (non-strict) ISO 9362 predicate. -/
theorem isValid_eq (X : BicCtx) (hX : X.WF) (c : Str) :
    BIC.isValid X c = .ok (iso9362 X.iso false c) := by
  unfold BIC.isValid
  have hiff := validate_iff X hX c false
  rw [bic_validate_eq X hX] at hiff ⊢
  split
  · rename_i h; rw [if_pos h] at hiff
    cases hv : iso9362 X.iso false c with
    | false => rfl
    | true => exact absurd (hiff.mpr hv) (by simp)
  · rename_i h; rw [if_neg h] at hiff
    split
    · rename_i h2; rw [if_pos h2] at hiff
      cases hv : iso9362 X.iso false c with
      | false => rfl
      | true => exact absurd (hiff.mpr hv) (by simp)
    · rename_i h2; rw [if_neg h2] at hiff
      split
      · rename_i h3; rw [if_pos h3] at hiff
        cases hv : iso9362 X.iso false c with
        | false => rfl
        | true => exact absurd (hiff.mpr hv) (by simp)
      · rename_i h3; rw [if_neg h3] at hiff
        simp only [Res.catchLib]
        rw [hiff.mp rfl]

/-- On the live patterns and pycountry's code list. -/
theorem accept_iff_live (s : Str) (strict : Bool) :
    (BIC.new Gen.bicCtx s false strict).isOk = true ↔
      iso9362 Gen.iso strict (clean Gen.unicode s) = true :=
  accept_iff Gen.bicCtx bic_ctx_wf s strict

/-! Non-vacuity -/
-- GENODEM1GLS is accepted (non-strict and strict); GENODEM1G-S and 1234DEWWXXX (strict) are not
example : iso9362 Gen.iso false [71, 69, 78, 79, 68, 69, 77, 49, 71, 76, 83] = true := by decide +kernel
example : iso9362 Gen.iso true [71, 69, 78, 79, 68, 69, 77, 49, 71, 76, 83] = true := by decide +kernel
example : iso9362 Gen.iso false [71, 69, 78, 79, 68, 69, 77, 49, 71, 45, 83] = false := by decide +kernel
example : iso9362 Gen.iso true [49, 50, 51, 52, 68, 69, 87, 87, 88, 88, 88] = false := by decide +kernel
example : iso9362 Gen.iso false [49, 50, 51, 52, 68, 69, 87, 87, 88, 88, 88] = true := by decide +kernel

end SV.Props.C04
