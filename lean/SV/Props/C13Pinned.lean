/-
  C13 (continued) — pinned components are read back.

  `pinned_readback`: for every country, registry, registry mode and choice record, if `IBAN.random`
  returns an IBAN then every pinned component that is a compact text no longer than its field sits,
  left-padded with zeros, at the country's published position of the returned IBAN's BBAN — provided
  all pinned values are such texts (the quantifier of the property: pinned values that conform to
  their fields) and the country's `default_<component>` values are compact.  The proof follows the
  successful attempt of the retry loop into `from_components` and uses the end-to-end placement
  theorem of C08.
-/
import SV.Props.C13
import SV.Props.C08EndToEnd
import SV.Gen.Ctx
namespace SV.Props.C13
open SV Spec

/-- A successful retry loop returns what `from_components` returned for one of the recorded
    `xeger` strings. -/
theorem loop_ok (X : Ctx) (cc : Str) (e : Country) (bank : Option BankEntry)
    (pinned : List (Component × Str)) : ∀ (n : Nat) (xs : List Str) (b : Str),
    randomLoop X cc e bank pinned n xs = .ok b →
    ∃ x ∈ xs, BBAN.fromComponents X cc (randomComponents e bank pinned (pyUpper X.U x)) = .ok b
  | 0, _, b, h => by simp [randomLoop] at h
  | _ + 1, [], b, h => by simp [randomLoop] at h
  | n + 1, x :: xs, b, h => by
    simp only [randomLoop] at h
    split at h
    · rename_i b' hb
      cases h
      exact ⟨x, by simp, hb⟩
    · obtain ⟨y, hy, hb⟩ := loop_ok X cc e bank pinned n xs b h
      exact ⟨y, by simp [hy], hb⟩
    · cases h

/-- `components[key]` before the bank/branch split of `random`. -/
def rcBase (e : Country) (bank : Option BankEntry) (pinned : List (Component × Str)) (bban : Str)
    (k : Component) : Str :=
  match pinned.lookup k with
  | some v => v
  | none =>
    match bankGet bank k with
    | some v => if v != [] then v else
        (match e.defaults.lookup k with | some d => d | none => (e.range k).cut bban)
    | none => (match e.defaults.lookup k with | some d => d | none => (e.range k).cut bban)

def rcSplit (e : Country) (bank : Option BankEntry) (pinned : List (Component × Str)) (bban : Str) : Bool :=
  (pinned.lookup .branchCode).isNone &&
    decide ((rcBase e bank pinned bban .bankCode).length ≥
      (e.range .bankCode).length + (e.range .branchCode).length)

/-- The value `random` hands to `from_components` for component `k`. -/
def rcValue (e : Country) (bank : Option BankEntry) (pinned : List (Component × Str)) (bban : Str)
    (k : Component) : Str :=
  let bankCode := rcBase e bank pinned bban .bankCode
  let bankLen := (e.range .bankCode).length
  let branchLen := (e.range .branchCode).length
  let split := rcSplit e bank pinned bban
  let c1 : Str :=
    if split && k == .branchCode then slice bankCode bankLen (bankLen + branchLen)
    else if split && k == .bankCode && bankCode.length == bankLen + branchLen then bankCode.take bankLen
    else rcBase e bank pinned bban k
  if (pinned.lookup k).isNone then c1.take (e.range k).length else c1

theorem randomComponents_eq (e : Country) (bank : Option BankEntry) (pinned : List (Component × Str))
    (bban : Str) :
    randomComponents e bank pinned bban = Component.all.map (fun k => (k, rcValue e bank pinned bban k)) :=
  rfl

theorem lookup_map_self {β : Type} (f : Component → β) : ∀ (ks : List Component) (k : Component),
    k ∈ ks → (ks.map (fun k => (k, f k))).lookup k = some (f k)
  | [], _, h => by cases h
  | a :: t, k, h => by
    simp only [List.map_cons, List.lookup_cons]
    by_cases hk : k = a
    · subst hk; simp
    · have : (k == a) = false := by simpa using hk
      rw [this]
      exact lookup_map_self f t k (by
        rcases List.mem_cons.mp h with h | h
        · exact absurd h hk
        · exact h)

theorem valuesGet_random (e : Country) (bank : Option BankEntry) (pinned : List (Component × Str))
    (bban : Str) (k : Component) :
    valuesGet (randomComponents e bank pinned bban) k = rcValue e bank pinned bban k := by
  unfold valuesGet
  rw [randomComponents_eq, lookup_map_self _ _ k (by cases k <;> simp [Component.all])]
  rfl

/-! ### upper-cased texts do not grow when cleaned -/

def UpperFixed (U : Unicode) (s : Str) : Prop := ∀ c ∈ s, U.upper c = [c]

theorem upperFixed_pyUpper {U : Unicode} (hU : U.WF) (x : Str) : UpperFixed U (pyUpper U x) := by
  intro c hc
  simp only [pyUpper, List.mem_flatMap] at hc
  obtain ⟨d, _, hcd⟩ := hc
  rcases upper_cases U d with ⟨_, hu⟩ | ⟨v, _, hu, hm⟩
  · rw [hu] at hcd; simp at hcd; subst hcd; exact hu
  · rw [hu] at hcd
    have := hU.image (d, v) hm c hcd
    unfold Unicode.upper; rw [this.2.2]

theorem upperFixed_sub {U : Unicode} {s t : Str} (h : UpperFixed U s) (hs : ∀ c ∈ t, c ∈ s) :
    UpperFixed U t := fun c hc => h c (hs c hc)

theorem clean_length_le {U : Unicode} : ∀ {s : Str}, UpperFixed U s → (clean U s).length ≤ s.length
  | [], _ => by simp [clean]
  | c :: t, h => by
    have ih := clean_length_le (s := t) (fun x hx => h x (by simp [hx]))
    by_cases hsp : U.isSpace c = true
    · rw [clean_cons_space hsp]; simp only [List.length_cons]; omega
    · rw [clean_cons_nonspace (by simpa using hsp), h c (by simp)]
      simp only [List.length_append, List.length_cons, List.length_nil]; omega

theorem compact_upperFixed {U : Unicode} {s : Str} (h : Compact U s) : UpperFixed U s :=
  fun c hc => (h c hc).2.2

/-! ### pinned components -/

/-- The pinned values conform to their fields: compact texts no longer than the field. -/
def PinnedOk (U : Unicode) (e : Country) (pinned : List (Component × Str)) : Prop :=
  ∀ k v, pinned.lookup k = some v → Compact U v ∧ v.length ≤ (e.range k).length

/-- The country's `default_<component>` values are compact texts. -/
def DefaultsOk (U : Unicode) (e : Country) : Prop :=
  ∀ k d, e.defaults.lookup k = some d → Compact U d

theorem slice_mem {s : Str} {a b c : Nat} (h : c ∈ slice s a b) : c ∈ s :=
  List.mem_of_mem_take (List.mem_of_mem_drop h)

/-- A component other than bank and branch code: what `random` hands over is no longer than the
    field once cleaned. -/
theorem rcValue_other_fits {U : Unicode} (hU : U.WF) {e : Country} {bank : Option BankEntry}
    {pinned : List (Component × Str)} (hP : PinnedOk U e pinned) (hD : DefaultsOk U e) (x : Str)
    {k : Component} (h1 : k ≠ .bankCode) (h2 : k ≠ .branchCode) :
    (clean U (rcValue e bank pinned (pyUpper U x) k)).length ≤ (e.range k).length := by
  have hb1 : (k == Component.bankCode) = false := by simpa using h1
  have hb2 : (k == Component.branchCode) = false := by simpa using h2
  have hbank : bankGet bank k = none := by
    unfold bankGet; cases bank <;> cases k <;> simp_all
  unfold rcValue
  simp only [hb1, hb2, Bool.and_false, Bool.false_and, Bool.false_eq_true, ↓reduceIte]
  cases hp : pinned.lookup k with
  | some v =>
    obtain ⟨hc, hl⟩ := hP k v hp
    simp only [Option.isNone_some, Bool.false_eq_true, ↓reduceIte, rcBase, hp]
    rw [clean_of_compact hc]; exact hl
  | none =>
    simp only [Option.isNone_none, ↓reduceIte, rcBase, hp, hbank]
    have hfix : UpperFixed U (match e.defaults.lookup k with
        | some d => d | none => (e.range k).cut (pyUpper U x)) := by
      cases hd : e.defaults.lookup k with
      | some d => exact compact_upperFixed (hD k d hd)
      | none => exact upperFixed_sub (upperFixed_pyUpper hU x) (fun c hc => slice_mem hc)
    have := clean_length_le (upperFixed_sub hfix
      (fun c hc => List.mem_of_mem_take (i := (e.range k).length) hc))
    refine Nat.le_trans this ?_
    rw [List.length_take]; omega

/-- A pinned component that conforms: what `from_components` makes of it. -/
theorem splitComps_pinned (X : Ctx) {e : Country} {bank : Option BankEntry}
    {pinned : List (Component × Str)} (hP : PinnedOk X.U e pinned) (bban : Str)
    {k : Component} {v : Str} (hp : pinned.lookup k = some v) (hne : k = .branchCode → v ≠ []) :
    splitComps X e (randomComponents e bank pinned bban) k = zfill v (e.range k).length := by
  obtain ⟨hc, hl⟩ := hP k v hp
  -- the value handed over is `v`
  have hval : rcValue e bank pinned bban k = v := by
    unfold rcValue
    simp only [hp, Option.isNone_some, Bool.false_eq_true, ↓reduceIte]
    have hbase : rcBase e bank pinned bban k = v := by simp [rcBase, hp]
    by_cases hk2 : k = .branchCode
    · subst hk2
      simp [rcSplit, hp, hbase]
    · have hb2 : (k == Component.branchCode) = false := by simpa using hk2
      by_cases hk1 : k = .bankCode
      · subst hk1
        simp only [hb2, Bool.and_false, Bool.false_eq_true, ↓reduceIte, hbase]
        split
        · rename_i hs
          simp only [Bool.and_eq_true, beq_iff_eq] at hs
          rw [List.take_of_length_le (by omega)]
        · rfl
      · have hb1 : (k == Component.bankCode) = false := by simpa using hk1
        simp [hb1, hb2, hbase]
  -- no combined-width split can involve it
  have hpad : padComps X e (randomComponents e bank pinned bban) k = zfill v (e.range k).length := by
    unfold padComps; rw [valuesGet_random, hval, clean_of_compact hc]
  unfold splitComps
  split
  · rename_i hs
    simp only [splitsB, Bool.and_eq_true, beq_iff_eq, decide_eq_true_eq] at hs
    obtain ⟨⟨hpos, hbr⟩, hlen⟩ := hs
    show (if k = Component.bankCode then _ else if k = Component.branchCode then _ else _) = _
    by_cases hk1 : k = .bankCode
    · -- a pinned bank code of at most its own width cannot have the combined width
      subst hk1
      exfalso
      rw [hpad, zfill_length] at hlen
      omega
    · rw [if_neg hk1]
      by_cases hk2 : k = .branchCode
      · -- a pinned, non-empty branch code is not empty after cleaning
        subst hk2
        exfalso
        rw [valuesGet_random, hval, clean_of_compact hc] at hbr
        exact hne rfl hbr
      · rw [if_neg hk2]; exact hpad
  · exact hpad

/-- The registry bank `random.choice(banks)` picked (if any). -/
def chosenBank (X : Ctx) (cc : Str) (useReg : Bool) (ch : Choice) : Option BankEntry :=
  match X.R.byCountry cc, useReg, ch.bank with
  | some banks, true, some i => banks[i]?
  | _, _, _ => none

/-- What a successful `BBAN.random` returns for a country with published positions: the BBAN
    `from_components` made of the components of one recorded attempt. -/
theorem bban_random_ok (X : Ctx) {cc : Str} {useReg : Bool} {pinned : List (Component × Str)}
    {ch : Choice} {b : Str} {e : Country} (hl : X.T.lookup cc = some e)
    (hps : e.positions.isSome = true) (h : BBAN.random X cc useReg pinned ch = .ok b) :
    ∃ x, BBAN.fromComponents X cc
      (randomComponents e (chosenBank X cc useReg ch) pinned (pyUpper X.U x)) = .ok b := by
  unfold BBAN.random bbanSpec at h
  rw [hl] at h
  simp only [Res.ok_bind] at h
  have hpn : e.positions.isNone = false := by cases hq : e.positions <;> simp [hq] at hps ⊢
  simp only [hpn, Bool.false_eq_true, ↓reduceIte] at h
  obtain ⟨x, _, hx⟩ := loop_ok X cc e _ pinned 100 ch.xegers b h
  exact ⟨x, hx⟩

/-- **Where the components of a random IBAN sit.**  If `IBAN.random` returns an IBAN for a country
    with published positions and the pinned values conform, every component other than the check
    digits is found in the IBAN's BBAN at its published position, as `from_components` made it of the
    values of the successful attempt. -/
theorem random_placement (X : Ctx) (hU : X.U.WF) (hT : X.T.WF) {cc : Str} (hA : C08.defaultsNat X.A cc)
    {useReg : Bool} {pinned : List (Component × Str)} {ch : Choice} {i : Str} {e : Country}
    (hl : X.T.lookup cc = some e) (hps : e.positions.isSome = true)
    (hP : PinnedOk X.U e pinned) (hD : DefaultsOk X.U e)
    (h : IBAN.random X cc useReg pinned ch = .ok i) :
    ∃ x, (i.drop 4).length = e.bbanLength ∧ ∀ k r, publishedAt e k r → k ≠ .nationalChecksumDigits →
      slice (i.drop 4) r.start r.stop =
        splitComps X e (randomComponents e (chosenBank X cc useReg ch) pinned (pyUpper X.U x)) k := by
  unfold IBAN.random at h
  cases hb : BBAN.random X cc useReg pinned ch with
  | err _ => rw [hb] at h; cases h
  | crash _ => rw [hb] at h; cases h
  | ok b =>
    rw [hb] at h
    simp only [Res.ok_bind] at h
    obtain ⟨x, hfc⟩ := bban_random_ok X hl hps hb
    obtain ⟨e', cs, hl', _, hb1, hb2, hb3, hcs, hbeq⟩ := fromComponents_ok X hfc
    rw [hl] at hl'; cases hl'
    have hW := hT e (Table.lookup_mem hl).1
    have hbc : Compact X.U b := by rw [hbeq]; exact compact_clean hU _
    obtain ⟨hblen, _, hdrop, _, _⟩ := C08.fromBban_ok X hU hT hl hbc h
    have hcsC := C08.computeNational_compact X hU hA _ hcs
    have hfit : ∀ k r, publishedAt e k r → k ≠ .nationalChecksumDigits →
        (splitComps X e (randomComponents e (chosenBank X cc useReg ch) pinned (pyUpper X.U x)) k).length
          ≤ r.stop - r.start := by
      intro k r hpk hk
      have hwid : (e.range k).length = r.stop - r.start := by rw [range_of_published hpk]; rfl
      rw [← hwid]
      by_cases h1 : k = .bankCode
      · subst h1; exact hb1
      by_cases h2 : k = .branchCode
      · subst h2; exact hb2
      have : splitComps X e (randomComponents e (chosenBank X cc useReg ch) pinned (pyUpper X.U x)) k =
          padComps X e (randomComponents e (chosenBank X cc useReg ch) pinned (pyUpper X.U x)) k := by
        unfold splitComps
        split
        · show (if k = Component.bankCode then _ else if k = Component.branchCode then _ else _) = _
          rw [if_neg h1, if_neg h2]
        · rfl
      rw [this]
      unfold padComps
      rw [zfill_length, valuesGet_random]
      have := rcValue_other_fits hU (bank := chosenBank X cc useReg ch) hP hD x h1 h2
      omega
    have hpl := fromComponents_placement X hU hW _ hcsC hfit hbeq hblen
    refine ⟨x, by rw [hdrop]; exact hblen, fun k r hpub hkn => ?_⟩
    rw [hdrop]; exact hpl.1 k r hpub hkn

/-- **Pinned components are read back.**  If `IBAN.random` returns an IBAN for a country with
    published positions, and the pinned values are compact texts no longer than their fields, then
    every pinned component (a pinned branch code being non-empty) sits, left-padded with zeros, at
    its published position of the IBAN's BBAN. -/
theorem pinned_readback (X : Ctx) (hU : X.U.WF) (hT : X.T.WF) {cc : Str} (hA : C08.defaultsNat X.A cc)
    {useReg : Bool} {pinned : List (Component × Str)} {ch : Choice} {i : Str} {e : Country}
    (hl : X.T.lookup cc = some e) (hps : e.positions.isSome = true)
    (hP : PinnedOk X.U e pinned) (hD : DefaultsOk X.U e)
    (h : IBAN.random X cc useReg pinned ch = .ok i) :
    ∀ k v r, pinned.lookup k = some v → (k = .branchCode → v ≠ []) → publishedAt e k r →
      k ≠ .nationalChecksumDigits → slice (i.drop 4) r.start r.stop = zfill v (r.stop - r.start) := by
  intro k v r hp hne hpub hkn
  obtain ⟨x, _, hpl⟩ := random_placement X hU hT hA hl hps hP hD h
  rw [hpl k r hpub hkn, splitComps_pinned X hP _ hp hne, range_of_published hpub]
  rfl

/-! ### a registry-based draw belongs to the drawn bank -/

theorem rcBase_bank (e : Country) {bk : BankEntry} {pinned : List (Component × Str)} (bban : Str)
    (hp : pinned.lookup .bankCode = none) (hne : bk.bankCode ≠ []) :
    rcBase e (some bk) pinned bban .bankCode = bk.bankCode := by
  have : (bk.bankCode != []) = true := by simpa using hne
  simp [rcBase, hp, bankGet, this]

theorem getSlice_pub {e : Country} (hW : e.WF) {b : Str} (hb : b.length = e.bbanLength)
    {k : Component} {r : Range} (hp : publishedAt e k r) :
    getSlice b (e.range k).start (some (e.range k).stop) = slice b r.start r.stop := by
  rw [range_of_published hp]
  have := hW.bounds (k, r) (mem_of_lookup hp)
  simp only at this
  simp [getSlice, hb]; omega

/-- **Listed-bank membership.**  If the draw used the registry bank `bk` (bank and branch code not
    pinned) and `bk`'s bank code is a compact text of the width of the country's bank-identifying
    field — the bank code field, or bank and branch code fields together — then the bank-identifying
    key of the returned IBAN is `bk`'s bank code. -/
theorem listed_bank (X : Ctx) (hU : X.U.WF) (hT : X.T.WF) {cc : Str} (hA : C08.defaultsNat X.A cc)
    {useReg : Bool} {pinned : List (Component × Str)} {ch : Choice} {i : Str} {e : Country}
    (hl : X.T.lookup cc = some e) (hps : e.positions.isSome = true)
    (hP : PinnedOk X.U e pinned) (hD : DefaultsOk X.U e)
    (hpb : pinned.lookup .bankCode = none) (hpr : pinned.lookup .branchCode = none)
    {bk : BankEntry} (hbank : chosenBank X cc useReg ch = some bk)
    (hne : bk.bankCode ≠ []) (hc : Compact X.U bk.bankCode)
    {rb : Range} (hrb : publishedAt e .bankCode rb)
    (hkey : (e.bicLookup.getD [.bankCode] = [.bankCode] ∧ bk.bankCode.length = rb.stop - rb.start) ∨
      (∃ rr, publishedAt e .branchCode rr ∧ e.bicLookup.getD [.bankCode] = [.bankCode, .branchCode] ∧
        bk.bankCode.length = (rb.stop - rb.start) + (rr.stop - rr.start)))
    (h : IBAN.random X cc useReg pinned ch = .ok i) :
    lookupKey e (i.drop 4) = bk.bankCode := by
  obtain ⟨x, hblen, hpl⟩ := random_placement X hU hT hA hl hps hP hD h
  rw [hbank] at hpl
  have hW := hT e (Table.lookup_mem hl).1
  have hbl : (e.range .bankCode).length = rb.stop - rb.start := by rw [range_of_published hrb]; rfl
  have hbase := rcBase_bank e (pinned := pinned) (pyUpper X.U x) hpb hne
  have hpbN : (pinned.lookup Component.bankCode).isNone = true := by rw [hpb]; rfl
  have hprN : (pinned.lookup Component.branchCode).isNone = true := by rw [hpr]; rfl
  rcases hkey with ⟨hL, hlen⟩ | ⟨rr, hrr, hL, hlen⟩
  · -- the key is the bank code field
    have hval : rcValue e (some bk) pinned (pyUpper X.U x) .bankCode = bk.bankCode := by
      unfold rcValue
      simp only [hbase, hpbN, ↓reduceIte, hbl]
      have hnb : (Component.bankCode == Component.branchCode) = false := by decide
      simp only [hnb, Bool.and_false, Bool.false_eq_true, ↓reduceIte, beq_self_eq_true, Bool.and_true]
      split
      · rw [List.take_take, Nat.min_self, List.take_of_length_le (by omega)]
      · rw [List.take_of_length_le (by omega)]
    have hpad : padComps X e (randomComponents e (some bk) pinned (pyUpper X.U x)) .bankCode =
        bk.bankCode := by
      unfold padComps
      rw [valuesGet_random, hval, clean_of_compact hc, hbl]
      exact zfill_exact _ _ hlen
    have hsp : splitComps X e (randomComponents e (some bk) pinned (pyUpper X.U x)) .bankCode =
        bk.bankCode := by
      unfold splitComps
      have : splitsB X e (randomComponents e (some bk) pinned (pyUpper X.U x)) = false := by
        unfold splitsB
        rw [hpad]
        by_cases h0 : (e.range .branchCode).length = 0
        · simp [h0]
        · simp only [Bool.and_eq_false_iff, beq_eq_false_iff_ne, ne_eq, decide_eq_false_iff_not]
          right; rw [hbl]; omega
      rw [this]; exact hpad
    unfold lookupKey
    rw [hL]
    simp only [componentsOf, joinStrs, List.flatten_cons, List.flatten_nil, List.append_nil]
    rw [getSlice_pub hW hblen hrb, hpl .bankCode rb hrb (by decide), hsp]
  · -- the key is bank code field followed by branch code field
    have hrl : (e.range .branchCode).length = rr.stop - rr.start := by rw [range_of_published hrr]; rfl
    have hrpos : 0 < rr.stop - rr.start := by
      have := hW.bounds (_, rr) (mem_of_lookup hrr); simp only at this; omega
    have hsplit : rcSplit e (some bk) pinned (pyUpper X.U x) = true := by
      simp only [rcSplit, hprN, hbase, Bool.true_and, decide_eq_true_eq, hbl, hrl]; omega
    have hvalB : rcValue e (some bk) pinned (pyUpper X.U x) .bankCode =
        bk.bankCode.take (rb.stop - rb.start) := by
      unfold rcValue
      have hnb : (Component.bankCode == Component.branchCode) = false := by decide
      simp only [hbase, hpbN, ↓reduceIte, hbl, hrl, hsplit, hnb, Bool.and_false, Bool.false_eq_true,
        Bool.true_and, beq_self_eq_true, hlen]
      rw [List.take_take, Nat.min_self]
    have hvalR : rcValue e (some bk) pinned (pyUpper X.U x) .branchCode =
        slice bk.bankCode (rb.stop - rb.start) ((rb.stop - rb.start) + (rr.stop - rr.start)) := by
      unfold rcValue
      simp only [hbase, hprN, ↓reduceIte, hbl, hrl, hsplit, beq_self_eq_true, Bool.and_self]
      rw [List.take_of_length_le (by rw [slice_length (by omega)]; omega)]
    have hpadB : padComps X e (randomComponents e (some bk) pinned (pyUpper X.U x)) .bankCode =
        bk.bankCode.take (rb.stop - rb.start) := by
      unfold padComps
      rw [valuesGet_random, hvalB, clean_of_compact (compact_take hc _), hbl]
      exact zfill_exact _ _ (by rw [List.length_take]; omega)
    have hpadR : padComps X e (randomComponents e (some bk) pinned (pyUpper X.U x)) .branchCode =
        slice bk.bankCode (rb.stop - rb.start) ((rb.stop - rb.start) + (rr.stop - rr.start)) := by
      unfold padComps
      rw [valuesGet_random, hvalR, clean_of_compact (compact_slice hc _ _), hrl]
      exact zfill_exact _ _ (by rw [slice_length (by omega)]; omega)
    have hns : splitsB X e (randomComponents e (some bk) pinned (pyUpper X.U x)) = false := by
      unfold splitsB
      rw [valuesGet_random, hvalR, clean_of_compact (compact_slice hc _ _)]
      have : slice bk.bankCode (rb.stop - rb.start) ((rb.stop - rb.start) + (rr.stop - rr.start)) ≠ [] := by
        intro h0
        have := slice_length (b := bk.bankCode) (s := rb.stop - rb.start)
          (t := (rb.stop - rb.start) + (rr.stop - rr.start)) (by omega)
        rw [h0] at this; simp at this; omega
      simp [this]
    have hspB : splitComps X e (randomComponents e (some bk) pinned (pyUpper X.U x)) .bankCode =
        bk.bankCode.take (rb.stop - rb.start) := by
      unfold splitComps; rw [hns]; exact hpadB
    have hspR : splitComps X e (randomComponents e (some bk) pinned (pyUpper X.U x)) .branchCode =
        slice bk.bankCode (rb.stop - rb.start) ((rb.stop - rb.start) + (rr.stop - rr.start)) := by
      unfold splitComps; rw [hns]; exact hpadR
    unfold lookupKey
    rw [hL]
    simp only [componentsOf, joinStrs, List.flatten_cons, List.flatten_nil, List.append_nil]
    rw [getSlice_pub hW hblen hrb, getSlice_pub hW hblen hrr, hpl .bankCode rb hrb (by decide),
      hpl .branchCode rr hrr (by decide), hspB, hspR]
    unfold slice
    have ht : bk.bankCode.take ((rb.stop - rb.start) + (rr.stop - rr.start)) = bk.bankCode :=
      List.take_of_length_le (by omega)
    rw [ht, List.take_append_drop]

/-- The bank the draw picked is an entry of the registry for that country. -/
theorem chosenBank_mem {X : Ctx} {cc : Str} {useReg : Bool} {ch : Choice} {bk : BankEntry}
    (h : chosenBank X cc useReg ch = some bk) : bk ∈ X.R ∧ bk.countryCode = cc ∧ cc ≠ [] := by
  unfold chosenBank at h
  cases hb : X.R.byCountry cc with
  | none => simp [hb] at h
  | some banks =>
    cases useReg with
    | false => simp [hb] at h
    | true =>
      cases hi : ch.bank with
      | none => simp [hb, hi] at h
      | some i =>
        simp only [hb, hi] at h
        unfold Registry.byCountry at hb
        by_cases hc : cc = []
        · simp [hc] at hb
        · simp only [hc, ↓reduceIte] at hb
          have hm : bk ∈ banks := List.mem_of_getElem? h
          cases hf : X.R.filter (fun e => e.countryCode == cc) with
          | nil => rw [hf] at hb; cases hb
          | cons y t =>
            rw [hf] at hb
            have : banks = y :: t := by cases hb; rfl
            rw [this, ← hf] at hm
            simp only [List.mem_filter, beq_iff_eq] at hm
            exact ⟨hm.1, hm.2, hc⟩

/-- …so the IBAN's `bank` lookup finds an entry of the registry with the drawn bank's bank code:
    a registry-based draw belongs to a listed bank. -/
theorem listed_bank_found (X : Ctx) (hU : X.U.WF) (hT : X.T.WF) {cc : Str} (hA : C08.defaultsNat X.A cc)
    {useReg : Bool} {pinned : List (Component × Str)} {ch : Choice} {i : Str} {e : Country}
    (hl : X.T.lookup cc = some e) (hps : e.positions.isSome = true)
    (hP : PinnedOk X.U e pinned) (hD : DefaultsOk X.U e)
    (hpb : pinned.lookup .bankCode = none) (hpr : pinned.lookup .branchCode = none)
    {bk : BankEntry} (hbank : chosenBank X cc useReg ch = some bk)
    (hne : bk.bankCode ≠ []) (hc : Compact X.U bk.bankCode)
    {rb : Range} (hrb : publishedAt e .bankCode rb)
    (hkey : (e.bicLookup.getD [.bankCode] = [.bankCode] ∧ bk.bankCode.length = rb.stop - rb.start) ∨
      (∃ rr, publishedAt e .branchCode rr ∧ e.bicLookup.getD [.bankCode] = [.bankCode, .branchCode] ∧
        bk.bankCode.length = (rb.stop - rb.start) + (rr.stop - rr.start)))
    (h : IBAN.random X cc useReg pinned ch = .ok i) :
    ∃ y, BBAN.bank X cc (i.drop 4) = .ok (some y) ∧ y ∈ X.R ∧ y.countryCode = cc ∧
      y.bankCode = bk.bankCode := by
  have hk := listed_bank X hU hT hA hl hps hP hD hpb hpr hbank hne hc hrb hkey h
  obtain ⟨hmem, hcc, hccne⟩ := chosenBank_mem hbank
  have hmemf : bk ∈ X.R.filter (fun y => y.countryCode == cc && y.bankCode == bk.bankCode) := by
    simp [List.mem_filter, hmem, hcc]
  cases hfl : X.R.filter (fun y => y.countryCode == cc && y.bankCode == bk.bankCode) with
  | nil => rw [hfl] at hmemf; cases hmemf
  | cons y t =>
    have hy : y ∈ X.R.filter (fun y => y.countryCode == cc && y.bankCode == bk.bankCode) := by
      rw [hfl]; simp
    simp only [List.mem_filter, Bool.and_eq_true, beq_iff_eq] at hy
    refine ⟨y, ?_, hy.1, hy.2.1, hy.2.2⟩
    unfold BBAN.bank bbanSpec
    rw [hl]
    simp only [Res.ok_bind, hk, Registry.byBankCode]
    have hcond : (cc = [] || bk.bankCode = []) = false := by simp [hccne, hne]
    simp only [hcond, Bool.false_eq_true, ↓reduceIte, hfl]
    rfl

/-! ### Instance: the live tables -/

/-- Decidable form of `DefaultsOk` for every country of a table. -/
def defaultsAlnumB (T : Table) : Bool := T.all (fun e => e.defaults.all (fun p => allAlnum p.2))

theorem defaultsOk_of_B {U : Unicode} (hU : U.WF) {T : Table} (h : defaultsAlnumB T = true)
    {cc : Str} {e : Country} (hl : T.lookup cc = some e) : DefaultsOk U e := by
  intro k d hd
  simp only [defaultsAlnumB, List.all_eq_true] at h
  have := h e (Table.lookup_mem hl).1 (k, d) (mem_of_lookup' hd)
  exact compact_of_allAlnum hU this
where
  mem_of_lookup' {ps : List (Component × Str)} {k : Component} {d : Str}
      (h : ps.lookup k = some d) : (k, d) ∈ ps := by
    obtain ⟨l1, l2, hl, _⟩ := List.lookup_eq_some_iff.mp h
    rw [hl]; simp

theorem live_defaults_alnum : defaultsAlnumB Gen.table = true := by decide +kernel

/-- On the live tables, for every registry, registry mode and choice record. -/
theorem live_pinned_readback (R : Registry) {cc : Str} {useReg : Bool}
    {pinned : List (Component × Str)} {ch : Choice} {i : Str} {e : Country}
    (hl : Gen.table.lookup cc = some e) (hps : e.positions.isSome = true)
    (hP : PinnedOk Gen.unicode e pinned)
    (h : IBAN.random (Gen.ctx R) cc useReg pinned ch = .ok i) :
    ∀ k v r, pinned.lookup k = some v → (k = .branchCode → v ≠ []) → publishedAt e k r →
      k ≠ .nationalChecksumDigits → slice (i.drop 4) r.start r.stop = zfill v (r.stop - r.start) :=
  pinned_readback (Gen.ctx R) C10.unicode_wf C01.table_wf
    (C08.defaultsNat_of_B C08.live_defaults_nat cc) hl hps hP
    (defaultsOk_of_B C10.unicode_wf live_defaults_alnum hl) h

/-! Non-vacuity: a draw for DE with the account code pinned (choice record: no registry bank, one
    `xeger` string) returns an IBAN that carries the pinned value, zero-padded. -/
example : IBAN.random (Gen.ctx []) (C06.bytes "DE") false [(.accountCode, C06.bytes "532013000")]
    ⟨none, [C06.bytes "370400449999999999"]⟩ = .ok (C06.bytes "DE89370400440532013000") := by
  decide +kernel

/-! Non-vacuity of `listed_bank`: a registry-based draw for DE (registry with one German bank, the
    bank index 0 drawn, one `xeger` string) carries the drawn bank's code and is found again. -/
example :
    let R : Registry := [⟨C06.bytes "DE", C06.bytes "37040044", some (C06.bytes "COBADEFFXXX"), true, none,
      C06.bytes "Commerzbank", C06.bytes "Commerzbank"⟩]
    IBAN.random (Gen.ctx R) (C06.bytes "DE") true [] ⟨some 0, [C06.bytes "999999990532013000"]⟩ =
      .ok (C06.bytes "DE89370400440532013000") := by decide +kernel

end SV.Props.C13
