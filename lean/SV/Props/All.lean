import SV.Props.C01
import SV.Props.C02
import SV.Props.C04
import SV.Props.C05
import SV.Props.C10
import SV.Props.C11
import SV.Props.C06
import SV.Props.C07
