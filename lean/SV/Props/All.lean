import SV.Props.C10
