import SV.Props.C10
import SV.Props.C01
