/-
  C18 — Registry files compose in name order: deep later-wins merge, list concatenation.

  Laws of `merge_dicts` for ALL pairs of JSON documents (trees of any shape and depth), the
  composition of a directory of files, v2 expansion, and the instance obligation that the Lean
  composition of the files on disk is the effective country table the live library computed.
-/
import SV.Proofs.Registry
import SV.Gen.Files
import SV.Gen.BankFacts
import SV.Gen.Countries
import SV.Proofs.Decode
namespace SV.Props.C18
open SV

/-- One level: common key with two dicts → merged recursively; common key otherwise → the later
    file's value; other keys keep their value.  Independent of member order. -/
theorem merge_get (k : Str) (l r : List (Str × J)) :
    lookupJ k (mergeDicts l r) =
      match lookupJ k l, lookupJ k r with
      | some lv, some rv => some (J.merge lv rv)
      | some lv, none => some lv
      | none, some rv => some rv
      | none, none => none :=
  SV.merge_get k l r

/-- Recursion happens exactly for two dicts; any other pair is replaced by the later value
    (dict-versus-scalar conflicts both ways). -/
theorem merge_values (lv rv : J) :
    J.merge lv rv = match lv, rv with
      | .obj a, .obj b => .obj (mergeDicts a b)
      | _, r => r :=
  merge_dict_dict lv rv

/-- The keys of the merged document are the keys of either document. -/
theorem merge_keys (k : Str) (l r : List (Str × J)) :
    hasKey k (mergeDicts l r) = (hasKey k l || hasKey k r) :=
  SV.merge_keys k l r

/-- An overlay changes nothing it does not name (any depth). -/
theorem untouched_survives (l r : J) (p : List Str) (hl : l.isObj = true) (hr : r.isObj = true)
    (h : untouched r p = true) : getPath (J.merge l r) p = getPath l p :=
  merge_untouched l r p hl hr h

/-- An overlay changes exactly the keys it names: its non-dict values end up at their paths. -/
theorem named_wins (l r : J) (p : List Str) (v : J) (hr : r.isObj = true)
    (h : getPath r p = some v) (hv : v.isObj = false) : getPath (J.merge l r) p = some v :=
  merge_named l r p v hr h hv

/-- Composition of a directory: the files are taken in file-name order; the first chunk is the
    start value, each further dict is merged onto the result so far (a LEFT fold), each further
    list is appended. -/
theorem get_is_left_fold (files : List RegFile) :
    registryGet files =
      match foldGet (sortByName files) none with
      | some (some d) => some d
      | _ => none := rfl

theorem fold_step_dict (l r : List (Str × J)) (rest : List RegFile) :
    foldGet (⟨[120, 46, 106, 115, 111, 110], .obj r⟩ :: rest) (some (.obj l)) =
      foldGet rest (some (.obj (mergeDicts l r))) := by
  simp [foldGet, chunkOf, isV2, stepGet]

theorem fold_step_list (l c : List J) (rest : List RegFile) :
    foldGet (⟨[120, 46, 106, 115, 111, 110], .arr c⟩ :: rest) (some (.arr l)) =
      foldGet rest (some (.arr (l ++ c))) := by
  simp [foldGet, chunkOf, isV2, stepGet]

/-- `sortByName` yields the files in non-decreasing name order, and is a permutation. -/
theorem sortByName_length (fs : List RegFile) : (sortByName fs).length = fs.length := by
  unfold sortByName
  induction fs with
  | nil => rfl
  | cons f t ih =>
    simp only [List.foldr_cons, List.length_cons]
    rw [← ih]
    generalize List.foldr insertByName [] t = s
    induction s with
    | nil => rfl
    | cons g u ihu =>
      simp only [insertByName]
      split
      · rfl
      · simp [ihu]

/-- The merge is not associative: folding from the right would give another document — three
    files where a key is a dict, then a scalar, then a dict again. -/
theorem left_fold_matters :
    let a : J := .obj [([107], .obj [([120], .num 1)])]
    let b : J := .obj [([107], .null)]
    let c : J := .obj [([107], .obj [([121], .num 2)])]
    J.eqv (J.merge (J.merge a b) c) (J.merge a (J.merge b c)) = false := by decide +kernel

/-- v2 expansion: every expanded entry carries the value under the target key, keeps every other
    member of the compact entry except the source list, and gets `primary = False` if it had none. -/
theorem v2_entry (src dst : Str) (kv : List (Str × J)) (vs : List J)
    (h : lookupJ src kv = some (.arr vs)) :
    expandEntry src dst (.obj kv) =
      some (vs.map (fun v => .obj (setKey dst v
        (if hasKey strPrimary (removeKey src kv) then removeKey src kv
         else removeKey src kv ++ [(strPrimary, .bool false)])))) := by
  simp [expandEntry, h]

theorem v2_target (dst : Str) (v : J) (rest : List (Str × J)) :
    lookupJ dst (setKey dst v rest) = some v := lookupJ_setKey_same dst v rest

theorem v2_other {k dst : Str} (h : (k == dst) = false) (v : J) (rest : List (Str × J)) :
    lookupJ k (setKey dst v rest) = lookupJ k rest := lookupJ_setKey_other h v rest

theorem v2_source_removed (src k : Str) (kv : List (Str × J)) :
    lookupJ k (removeKey src kv) = if (k == src) = true then none else lookupJ k kv :=
  lookupJ_removeKey src k kv

/-! ### Instance obligations on the files of the live tree -/

/-- The Lean composition of the `iban_registry/*.json` files on disk IS the effective country
    table the live library computed at import (`registry.get("iban")`, minus the compiled `regex`
    objects that `manipulate` adds), as documents up to member order. -/
theorem effective_eq_merge_of_files :
    (registryGet Gen.ibanFiles).map
      (fun d => J.eqv d Gen.effectiveIban && J.eqv Gen.effectiveIban d) = some true := by
  decide +kernel

/-- The effective bank list has as many entries as the files contribute (v2 files expanded). -/
theorem bank_list_is_concatenation_count :
    (Gen.bankFiles.map (·.2)).sum = Gen.bankCount := by decide +kernel

/-- No registry file gives a member name twice inside one object: the documents `json.load` delivers
    (which all theorems here are about) contain everything the files' texts name. -/
theorem live_no_duplicate_members : Gen.duplicateMembers = [] := by decide

/-- The files the code expands (it goes by the file name: stem ending in `v2`) are exactly the files
    whose document has the compact v2 shape. -/
theorem v2_files : Gen.bankFileShapes.all (fun f => isV2 f.1 == f.2) = true := by
  decide +kernel

/-! ### "Validation, generation and lookup follow the effective data"

  Every IBAN / BBAN theorem of this development is about a typed table (`SV.Table`); the registry
  theorems above are about JSON documents.  The two are tied here: the typed table the other
  properties' obligations are checked on (`Gen.table`) is, entry by entry and key by key as the code
  reads them, the effective document — which `effective_eq_merge_of_files` shows to be the
  composition of the files on disk. -/

/-- What `_get_position_range(spec, k)` reads from a country's document. -/
def docRange (kv : List (Str × J)) (k : Component) : Range :=
  match lookupJ strPositions kv with
  | some (.obj ps) => ((lookupJ k.jsonName ps).bind J.asRange?).getD ⟨0, 0⟩
  | _ => ⟨0, 0⟩

/-- A typed entry that matches its document has the document's lengths, structure string and
    position ranges (for every component; `[0, 0]` where the document names none). -/
theorem typed_entry_reads_document (e : Country) (kv : List (Str × J))
    (h : countryMatches e (.obj kv) = true) :
    (lookupJ strBbanSpec kv).bind J.asStr? = some e.bbanSpec ∧
    (lookupJ strBbanLength kv).bind J.asNat? = some e.bbanLength ∧
    (lookupJ strIbanLength kv).bind J.asNat? = some e.ibanLength ∧
    ∀ k, e.range k = docRange kv k := by
  simp only [countryMatches, Bool.and_eq_true, beq_iff_eq] at h
  obtain ⟨⟨⟨⟨⟨h1, h2⟩, h3⟩, h4⟩, _⟩, _⟩ := h
  refine ⟨h1, h2, h3, ?_⟩
  intro k
  unfold Country.range docRange
  unfold positionsMatch at h4
  cases hp : e.positions with
  | none =>
    rw [hp] at h4
    cases hd : lookupJ strPositions kv with
    | none => rfl
    | some d => rw [hd] at h4; cases h4
  | some ps =>
    rw [hp] at h4
    cases hd : lookupJ strPositions kv with
    | none => rw [hd] at h4; cases h4
    | some d =>
      rw [hd] at h4
      cases d with
      | obj pkv =>
        simp only [Bool.and_eq_true, List.all_eq_true, beq_iff_eq] at h4
        have hk := h4.1 k (by cases k <;> simp [Component.all])
        simp only
        rw [← hk]
        cases lookupJ k.jsonName pkv with
        | none => rfl
        | some v => simp only [Option.bind_some]; cases v.asRange? <;> rfl
      | _ => cases h4

/-- A typed table that matches a document has, for every key it answers, the document's entry of
    that key, and that entry matches. -/
theorem typed_lookup_reads_document (T : Table) (kv : List (Str × J))
    (h : tableMatches T (.obj kv) = true) {cc : Str} {e : Country} (hl : T.lookup cc = some e) :
    ∃ c, lookupJ cc kv = some c ∧ countryMatches e c = true := by
  simp only [tableMatches, Bool.and_eq_true, List.all_eq_true] at h
  have hmem : e ∈ T := List.mem_of_find?_eq_some hl
  have hcode : e.code = cc := by
    have := List.find?_some hl
    simpa using this
  have := h.2 e hmem
  rw [hcode] at this
  cases hc : lookupJ cc kv with
  | none => rw [hc] at this; cases this
  | some c => rw [hc] at this; exact ⟨c, rfl, this⟩

/-- Instance obligation: the regenerated typed table IS the regenerated effective document. -/
theorem live_typed_table_is_effective_document :
    tableMatches Gen.table Gen.effectiveIban = true := by decide +kernel

/-! ### Lookups follow the concatenation of the bank files

  The bank list is the concatenation of the files in name order; the lookup index lists, for a pair,
  the entries of that pair in list order.  Hence for an additional (later) file: the entries it lists
  for a pair come AFTER those of the earlier files (so the first-entry rule of `BBAN.bank` keeps
  reading the earlier file when it lists the pair), and a pair the additional file does not list is
  looked up exactly as before. -/

theorem byBankCode_append (R1 R2 : Registry) (cc code : Str) :
    (R1 ++ R2).byBankCode cc code =
      match R1.byBankCode cc code, R2.byBankCode cc code with
      | some a, some b => some (a ++ b)
      | some a, none => some a
      | none, some b => some b
      | none, none => none := by
  unfold Registry.byBankCode
  by_cases hk : (cc = [] || code = []) = true
  · simp [hk]
  · simp only [hk, Bool.false_eq_true, ↓reduceIte, List.filter_append]
    cases h1 : R1.filter (fun e => e.countryCode == cc && e.bankCode == code) <;>
      cases h2 : R2.filter (fun e => e.countryCode == cc && e.bankCode == code) <;> simp

/-- An additional file changes nothing for the pairs it does not list. -/
theorem byBankCode_append_unlisted (R1 R2 : Registry) (cc code : Str)
    (h : ∀ e ∈ R2, ¬ (e.countryCode = cc ∧ e.bankCode = code)) :
    (R1 ++ R2).byBankCode cc code = R1.byBankCode cc code := by
  rw [byBankCode_append]
  have h2 : R2.byBankCode cc code = none := by
    unfold Registry.byBankCode
    split
    · rfl
    · have : R2.filter (fun e => e.countryCode == cc && e.bankCode == code) = [] := by
        rw [List.filter_eq_nil_iff]
        intro e he
        simpa using h e he
      rw [this]
  rw [h2]
  cases R1.byBankCode cc code <;> rfl

/-- The first entry of a pair comes from the earliest file that lists the pair. -/
theorem first_entry_from_earlier_file (R1 R2 : Registry) (cc code : Str) (a : List BankEntry)
    (h : R1.byBankCode cc code = some a) :
    ((R1 ++ R2).byBankCode cc code).map List.head? = some a.head? := by
  have hne : a ≠ [] := by
    unfold Registry.byBankCode at h
    split at h
    · cases h
    · split at h
      · cases h
      · rename_i hne'; injection h with h; subst h; simpa using hne'
  rw [byBankCode_append, h]
  cases R2.byBankCode cc code with
  | none => rfl
  | some b =>
    cases a with
    | nil => exact absurd rfl hne
    | cons x t => rfl

/-! Non-vacuity -/
example :
    let e1 : BankEntry := ⟨[68, 69], [49], some [65], true, none, [], []⟩
    let e2 : BankEntry := ⟨[68, 69], [49], some [66], false, none, [], []⟩
    let e3 : BankEntry := ⟨[68, 69], [50], some [67], false, none, [], []⟩
    (Registry.byBankCode ([e1] ++ [e2, e3]) [68, 69] [49] = some [e1, e2]) ∧
    (Registry.byBankCode ([e1] ++ [e3]) [68, 69] [49] = Registry.byBankCode [e1] [68, 69] [49]) := by
  decide
example : untouched (.obj [([97], .obj [([98], .num 1)])]) [[97], [99]] = true := by decide
example : (getPath (J.merge (.obj [([97], .obj [([98], .num 1), ([99], .num 5)])])
    (.obj [([97], .obj [([98], .num 2)])])) [[97], [99]]).map (J.eqv · (.num 5)) = some true := by
  decide +kernel

end SV.Props.C18
