/-
  GENERATED ONCE by tools/mk_c07.py from the table of published rules in that script (committed;
  not regenerated at run time).  One theorem per "plain" Bundesbank method: for all ten digits,
  every Unicode table with `WF` and every incoming scratch state, the engine instantiated with the
  class parameters regenerated from the live tree (`SV.Gen.de_DE_xx`) returns a verdict (never a
  foreign exception) and accepts exactly when the published rule does.
-/
import SV.Proofs.GermanyTactics
namespace SV.Props.C07
open SV Spec

set_option maxHeartbeats 2000000 in
theorem de00 (U : Unicode) (hU : U.WF) (d1 d2 d3 d4 d5 d6 d7 d8 d9 d10 : Nat)
    (h1 : d1 < 10) (h2 : d2 < 10) (h3 : d3 < 10) (h4 : d4 < 10) (h5 : d5 < 10) (h6 : d6 < 10)
    (h7 : d7 < 10) (h8 : d8 < 10) (h9 : d9 < 10) (h10 : d10 < 10) (sc : Scratch) :
    deVerdict (Gen.de_DE_00.validateM U [acct d1 d2 d3 d4 d5 d6 d7 d8 d9 d10] sc).2 = true ∧
    deAccepts (Gen.de_DE_00.validateM U [acct d1 d2 d3 d4 d5 d6 d7 d8 d9 d10] sc).2 =
      rule10 (dotQ [2, 1, 2, 1, 2, 1, 2, 1, 2] [d9, d8, d7, d6, d5, d4, d3, d2, d1]) d10 := by
  have hw : cycleWeights Gen.de_DE_00.weights 9 = [2, 1, 2, 1, 2, 1, 2, 1, 2] := by decide
  de_simp [Gen.de_DE_00, intChar_ascii hU, h1, h2, h3, h4, h5, h6, h7, h8, h9, h10] at hw ⊢
  de_simp [Gen.de_DE_00, hw, intChar_ascii hU, h1, h2, h3, h4, h5, h6, h7, h8, h9, h10]
  clear hw
  generalize digitSum (d9 * 2) + (digitSum d8 + (digitSum (d7 * 2) + (digitSum d6 + (digitSum (d5 * 2) + (digitSum d4 + (digitSum (d3 * 2) + (digitSum d2 + (digitSum (d1 * 2))))))))) = S
  de_close 10 rule10 S d10 h10

set_option maxHeartbeats 2000000 in
theorem de01 (U : Unicode) (hU : U.WF) (d1 d2 d3 d4 d5 d6 d7 d8 d9 d10 : Nat)
    (h1 : d1 < 10) (h2 : d2 < 10) (h3 : d3 < 10) (h4 : d4 < 10) (h5 : d5 < 10) (h6 : d6 < 10)
    (h7 : d7 < 10) (h8 : d8 < 10) (h9 : d9 < 10) (h10 : d10 < 10) (sc : Scratch) :
    deVerdict (Gen.de_DE_01.validateM U [acct d1 d2 d3 d4 d5 d6 d7 d8 d9 d10] sc).2 = true ∧
    deAccepts (Gen.de_DE_01.validateM U [acct d1 d2 d3 d4 d5 d6 d7 d8 d9 d10] sc).2 =
      rule10 (dot [3, 7, 1, 3, 7, 1, 3, 7, 1] [d9, d8, d7, d6, d5, d4, d3, d2, d1]) d10 := by
  have hw : cycleWeights Gen.de_DE_01.weights 9 = [3, 7, 1, 3, 7, 1, 3, 7, 1] := by decide
  de_simp [Gen.de_DE_01, intChar_ascii hU, h1, h2, h3, h4, h5, h6, h7, h8, h9, h10] at hw ⊢
  de_simp [Gen.de_DE_01, hw, intChar_ascii hU, h1, h2, h3, h4, h5, h6, h7, h8, h9, h10]
  clear hw
  generalize d9 * 3 + (d8 * 7 + (d7 + (d6 * 3 + (d5 * 7 + (d4 + (d3 * 3 + (d2 * 7 + (d1)))))))) = S
  de_close 10 rule10 S d10 h10

set_option maxHeartbeats 2000000 in
theorem de02 (U : Unicode) (hU : U.WF) (d1 d2 d3 d4 d5 d6 d7 d8 d9 d10 : Nat)
    (h1 : d1 < 10) (h2 : d2 < 10) (h3 : d3 < 10) (h4 : d4 < 10) (h5 : d5 < 10) (h6 : d6 < 10)
    (h7 : d7 < 10) (h8 : d8 < 10) (h9 : d9 < 10) (h10 : d10 < 10) (sc : Scratch) :
    deVerdict (Gen.de_DE_02.validateM U [acct d1 d2 d3 d4 d5 d6 d7 d8 d9 d10] sc).2 = true ∧
    deAccepts (Gen.de_DE_02.validateM U [acct d1 d2 d3 d4 d5 d6 d7 d8 d9 d10] sc).2 =
      rule02 (dot [2, 3, 4, 5, 6, 7, 8, 9, 2] [d9, d8, d7, d6, d5, d4, d3, d2, d1]) d10 := by
  have hw : cycleWeights Gen.de_DE_02.weights 9 = [2, 3, 4, 5, 6, 7, 8, 9, 2] := by decide
  de_simp [Gen.de_DE_02, intChar_ascii hU, h1, h2, h3, h4, h5, h6, h7, h8, h9, h10] at hw ⊢
  de_simp [Gen.de_DE_02, hw, intChar_ascii hU, h1, h2, h3, h4, h5, h6, h7, h8, h9, h10]
  clear hw
  generalize d9 * 2 + (d8 * 3 + (d7 * 4 + (d6 * 5 + (d5 * 6 + (d4 * 7 + (d3 * 8 + (d2 * 9 + (d1 * 2)))))))) = S
  de_close 11 rule02 S d10 h10

set_option maxHeartbeats 2000000 in
theorem de03 (U : Unicode) (hU : U.WF) (d1 d2 d3 d4 d5 d6 d7 d8 d9 d10 : Nat)
    (h1 : d1 < 10) (h2 : d2 < 10) (h3 : d3 < 10) (h4 : d4 < 10) (h5 : d5 < 10) (h6 : d6 < 10)
    (h7 : d7 < 10) (h8 : d8 < 10) (h9 : d9 < 10) (h10 : d10 < 10) (sc : Scratch) :
    deVerdict (Gen.de_DE_03.validateM U [acct d1 d2 d3 d4 d5 d6 d7 d8 d9 d10] sc).2 = true ∧
    deAccepts (Gen.de_DE_03.validateM U [acct d1 d2 d3 d4 d5 d6 d7 d8 d9 d10] sc).2 =
      rule10 (dot [2, 1, 2, 1, 2, 1, 2, 1, 2] [d9, d8, d7, d6, d5, d4, d3, d2, d1]) d10 := by
  have hw : cycleWeights Gen.de_DE_03.weights 9 = [2, 1, 2, 1, 2, 1, 2, 1, 2] := by decide
  de_simp [Gen.de_DE_03, intChar_ascii hU, h1, h2, h3, h4, h5, h6, h7, h8, h9, h10] at hw ⊢
  de_simp [Gen.de_DE_03, hw, intChar_ascii hU, h1, h2, h3, h4, h5, h6, h7, h8, h9, h10]
  clear hw
  generalize d9 * 2 + (d8 + (d7 * 2 + (d6 + (d5 * 2 + (d4 + (d3 * 2 + (d2 + (d1 * 2)))))))) = S
  de_close 10 rule10 S d10 h10

set_option maxHeartbeats 2000000 in
theorem de04 (U : Unicode) (hU : U.WF) (d1 d2 d3 d4 d5 d6 d7 d8 d9 d10 : Nat)
    (h1 : d1 < 10) (h2 : d2 < 10) (h3 : d3 < 10) (h4 : d4 < 10) (h5 : d5 < 10) (h6 : d6 < 10)
    (h7 : d7 < 10) (h8 : d8 < 10) (h9 : d9 < 10) (h10 : d10 < 10) (sc : Scratch) :
    deVerdict (Gen.de_DE_04.validateM U [acct d1 d2 d3 d4 d5 d6 d7 d8 d9 d10] sc).2 = true ∧
    deAccepts (Gen.de_DE_04.validateM U [acct d1 d2 d3 d4 d5 d6 d7 d8 d9 d10] sc).2 =
      rule02 (dot [2, 3, 4, 5, 6, 7, 2, 3, 4] [d9, d8, d7, d6, d5, d4, d3, d2, d1]) d10 := by
  have hw : cycleWeights Gen.de_DE_04.weights 9 = [2, 3, 4, 5, 6, 7, 2, 3, 4] := by decide
  de_simp [Gen.de_DE_04, intChar_ascii hU, h1, h2, h3, h4, h5, h6, h7, h8, h9, h10] at hw ⊢
  de_simp [Gen.de_DE_04, hw, intChar_ascii hU, h1, h2, h3, h4, h5, h6, h7, h8, h9, h10]
  clear hw
  generalize d9 * 2 + (d8 * 3 + (d7 * 4 + (d6 * 5 + (d5 * 6 + (d4 * 7 + (d3 * 2 + (d2 * 3 + (d1 * 4)))))))) = S
  de_close 11 rule02 S d10 h10

set_option maxHeartbeats 2000000 in
theorem de05 (U : Unicode) (hU : U.WF) (d1 d2 d3 d4 d5 d6 d7 d8 d9 d10 : Nat)
    (h1 : d1 < 10) (h2 : d2 < 10) (h3 : d3 < 10) (h4 : d4 < 10) (h5 : d5 < 10) (h6 : d6 < 10)
    (h7 : d7 < 10) (h8 : d8 < 10) (h9 : d9 < 10) (h10 : d10 < 10) (sc : Scratch) :
    deVerdict (Gen.de_DE_05.validateM U [acct d1 d2 d3 d4 d5 d6 d7 d8 d9 d10] sc).2 = true ∧
    deAccepts (Gen.de_DE_05.validateM U [acct d1 d2 d3 d4 d5 d6 d7 d8 d9 d10] sc).2 =
      rule10 (dot [7, 3, 1, 7, 3, 1, 7, 3, 1] [d9, d8, d7, d6, d5, d4, d3, d2, d1]) d10 := by
  have hw : cycleWeights Gen.de_DE_05.weights 9 = [7, 3, 1, 7, 3, 1, 7, 3, 1] := by decide
  de_simp [Gen.de_DE_05, intChar_ascii hU, h1, h2, h3, h4, h5, h6, h7, h8, h9, h10] at hw ⊢
  de_simp [Gen.de_DE_05, hw, intChar_ascii hU, h1, h2, h3, h4, h5, h6, h7, h8, h9, h10]
  clear hw
  generalize d9 * 7 + (d8 * 3 + (d7 + (d6 * 7 + (d5 * 3 + (d4 + (d3 * 7 + (d2 * 3 + (d1)))))))) = S
  de_close 10 rule10 S d10 h10

set_option maxHeartbeats 2000000 in
theorem de06 (U : Unicode) (hU : U.WF) (d1 d2 d3 d4 d5 d6 d7 d8 d9 d10 : Nat)
    (h1 : d1 < 10) (h2 : d2 < 10) (h3 : d3 < 10) (h4 : d4 < 10) (h5 : d5 < 10) (h6 : d6 < 10)
    (h7 : d7 < 10) (h8 : d8 < 10) (h9 : d9 < 10) (h10 : d10 < 10) (sc : Scratch) :
    deVerdict (Gen.de_DE_06.validateM U [acct d1 d2 d3 d4 d5 d6 d7 d8 d9 d10] sc).2 = true ∧
    deAccepts (Gen.de_DE_06.validateM U [acct d1 d2 d3 d4 d5 d6 d7 d8 d9 d10] sc).2 =
      rule06 (dot [2, 3, 4, 5, 6, 7, 2, 3, 4] [d9, d8, d7, d6, d5, d4, d3, d2, d1]) d10 := by
  have hw : cycleWeights Gen.de_DE_06.weights 9 = [2, 3, 4, 5, 6, 7, 2, 3, 4] := by decide
  de_simp [Gen.de_DE_06, intChar_ascii hU, h1, h2, h3, h4, h5, h6, h7, h8, h9, h10] at hw ⊢
  de_simp [Gen.de_DE_06, hw, intChar_ascii hU, h1, h2, h3, h4, h5, h6, h7, h8, h9, h10]
  clear hw
  generalize d9 * 2 + (d8 * 3 + (d7 * 4 + (d6 * 5 + (d5 * 6 + (d4 * 7 + (d3 * 2 + (d2 * 3 + (d1 * 4)))))))) = S
  de_close 11 rule06 S d10 h10

set_option maxHeartbeats 2000000 in
theorem de07 (U : Unicode) (hU : U.WF) (d1 d2 d3 d4 d5 d6 d7 d8 d9 d10 : Nat)
    (h1 : d1 < 10) (h2 : d2 < 10) (h3 : d3 < 10) (h4 : d4 < 10) (h5 : d5 < 10) (h6 : d6 < 10)
    (h7 : d7 < 10) (h8 : d8 < 10) (h9 : d9 < 10) (h10 : d10 < 10) (sc : Scratch) :
    deVerdict (Gen.de_DE_07.validateM U [acct d1 d2 d3 d4 d5 d6 d7 d8 d9 d10] sc).2 = true ∧
    deAccepts (Gen.de_DE_07.validateM U [acct d1 d2 d3 d4 d5 d6 d7 d8 d9 d10] sc).2 =
      rule02 (dot [2, 3, 4, 5, 6, 7, 8, 9, 10] [d9, d8, d7, d6, d5, d4, d3, d2, d1]) d10 := by
  have hw : cycleWeights Gen.de_DE_07.weights 9 = [2, 3, 4, 5, 6, 7, 8, 9, 10] := by decide
  de_simp [Gen.de_DE_07, intChar_ascii hU, h1, h2, h3, h4, h5, h6, h7, h8, h9, h10] at hw ⊢
  de_simp [Gen.de_DE_07, hw, intChar_ascii hU, h1, h2, h3, h4, h5, h6, h7, h8, h9, h10]
  clear hw
  generalize d9 * 2 + (d8 * 3 + (d7 * 4 + (d6 * 5 + (d5 * 6 + (d4 * 7 + (d3 * 8 + (d2 * 9 + (d1 * 10)))))))) = S
  de_close 11 rule02 S d10 h10

set_option maxHeartbeats 2000000 in
theorem de10 (U : Unicode) (hU : U.WF) (d1 d2 d3 d4 d5 d6 d7 d8 d9 d10 : Nat)
    (h1 : d1 < 10) (h2 : d2 < 10) (h3 : d3 < 10) (h4 : d4 < 10) (h5 : d5 < 10) (h6 : d6 < 10)
    (h7 : d7 < 10) (h8 : d8 < 10) (h9 : d9 < 10) (h10 : d10 < 10) (sc : Scratch) :
    deVerdict (Gen.de_DE_10.validateM U [acct d1 d2 d3 d4 d5 d6 d7 d8 d9 d10] sc).2 = true ∧
    deAccepts (Gen.de_DE_10.validateM U [acct d1 d2 d3 d4 d5 d6 d7 d8 d9 d10] sc).2 =
      rule06 (dot [2, 3, 4, 5, 6, 7, 8, 9, 10] [d9, d8, d7, d6, d5, d4, d3, d2, d1]) d10 := by
  have hw : cycleWeights Gen.de_DE_10.weights 9 = [2, 3, 4, 5, 6, 7, 8, 9, 10] := by decide
  de_simp [Gen.de_DE_10, intChar_ascii hU, h1, h2, h3, h4, h5, h6, h7, h8, h9, h10] at hw ⊢
  de_simp [Gen.de_DE_10, hw, intChar_ascii hU, h1, h2, h3, h4, h5, h6, h7, h8, h9, h10]
  clear hw
  generalize d9 * 2 + (d8 * 3 + (d7 * 4 + (d6 * 5 + (d5 * 6 + (d4 * 7 + (d3 * 8 + (d2 * 9 + (d1 * 10)))))))) = S
  de_close 11 rule06 S d10 h10

set_option maxHeartbeats 2000000 in
theorem de11 (U : Unicode) (hU : U.WF) (d1 d2 d3 d4 d5 d6 d7 d8 d9 d10 : Nat)
    (h1 : d1 < 10) (h2 : d2 < 10) (h3 : d3 < 10) (h4 : d4 < 10) (h5 : d5 < 10) (h6 : d6 < 10)
    (h7 : d7 < 10) (h8 : d8 < 10) (h9 : d9 < 10) (h10 : d10 < 10) (sc : Scratch) :
    deVerdict (Gen.de_DE_11.validateM U [acct d1 d2 d3 d4 d5 d6 d7 d8 d9 d10] sc).2 = true ∧
    deAccepts (Gen.de_DE_11.validateM U [acct d1 d2 d3 d4 d5 d6 d7 d8 d9 d10] sc).2 =
      rule11 (dot [2, 3, 4, 5, 6, 7, 8, 9, 10] [d9, d8, d7, d6, d5, d4, d3, d2, d1]) d10 := by
  have hw : cycleWeights Gen.de_DE_11.weights 9 = [2, 3, 4, 5, 6, 7, 8, 9, 10] := by decide
  de_simp [Gen.de_DE_11, intChar_ascii hU, h1, h2, h3, h4, h5, h6, h7, h8, h9, h10] at hw ⊢
  de_simp [Gen.de_DE_11, hw, intChar_ascii hU, h1, h2, h3, h4, h5, h6, h7, h8, h9, h10]
  clear hw
  generalize d9 * 2 + (d8 * 3 + (d7 * 4 + (d6 * 5 + (d5 * 6 + (d4 * 7 + (d3 * 8 + (d2 * 9 + (d1 * 10)))))))) = S
  de_close 11 rule11 S d10 h10

set_option maxHeartbeats 2000000 in
theorem de13 (U : Unicode) (hU : U.WF) (d1 d2 d3 d4 d5 d6 d7 d8 d9 d10 : Nat)
    (h1 : d1 < 10) (h2 : d2 < 10) (h3 : d3 < 10) (h4 : d4 < 10) (h5 : d5 < 10) (h6 : d6 < 10)
    (h7 : d7 < 10) (h8 : d8 < 10) (h9 : d9 < 10) (h10 : d10 < 10) (sc : Scratch) :
    deVerdict (Gen.de_DE_13.validateM U [acct d1 d2 d3 d4 d5 d6 d7 d8 d9 d10] sc).2 = true ∧
    deAccepts (Gen.de_DE_13.validateM U [acct d1 d2 d3 d4 d5 d6 d7 d8 d9 d10] sc).2 =
      rule10 (dotQ [2, 1, 2, 1, 2, 1] [d7, d6, d5, d4, d3, d2]) d8 := by
  have hw : cycleWeights Gen.de_DE_13.weights 6 = [2, 1, 2, 1, 2, 1] := by decide
  de_simp [Gen.de_DE_13, intChar_ascii hU, h1, h2, h3, h4, h5, h6, h7, h8, h9, h10] at hw ⊢
  de_simp [Gen.de_DE_13, hw, intChar_ascii hU, h1, h2, h3, h4, h5, h6, h7, h8, h9, h10]
  clear hw
  generalize digitSum (d7 * 2) + (digitSum d6 + (digitSum (d5 * 2) + (digitSum d4 + (digitSum (d3 * 2) + (digitSum d2))))) = S
  de_close 10 rule10 S d8 h8

set_option maxHeartbeats 2000000 in
theorem de14 (U : Unicode) (hU : U.WF) (d1 d2 d3 d4 d5 d6 d7 d8 d9 d10 : Nat)
    (h1 : d1 < 10) (h2 : d2 < 10) (h3 : d3 < 10) (h4 : d4 < 10) (h5 : d5 < 10) (h6 : d6 < 10)
    (h7 : d7 < 10) (h8 : d8 < 10) (h9 : d9 < 10) (h10 : d10 < 10) (sc : Scratch) :
    deVerdict (Gen.de_DE_14.validateM U [acct d1 d2 d3 d4 d5 d6 d7 d8 d9 d10] sc).2 = true ∧
    deAccepts (Gen.de_DE_14.validateM U [acct d1 d2 d3 d4 d5 d6 d7 d8 d9 d10] sc).2 =
      rule02 (dot [2, 3, 4, 5, 6, 7] [d9, d8, d7, d6, d5, d4]) d10 := by
  have hw : cycleWeights Gen.de_DE_14.weights 6 = [2, 3, 4, 5, 6, 7] := by decide
  de_simp [Gen.de_DE_14, intChar_ascii hU, h1, h2, h3, h4, h5, h6, h7, h8, h9, h10] at hw ⊢
  de_simp [Gen.de_DE_14, hw, intChar_ascii hU, h1, h2, h3, h4, h5, h6, h7, h8, h9, h10]
  clear hw
  generalize d9 * 2 + (d8 * 3 + (d7 * 4 + (d6 * 5 + (d5 * 6 + (d4 * 7))))) = S
  de_close 11 rule02 S d10 h10

set_option maxHeartbeats 2000000 in
theorem de15 (U : Unicode) (hU : U.WF) (d1 d2 d3 d4 d5 d6 d7 d8 d9 d10 : Nat)
    (h1 : d1 < 10) (h2 : d2 < 10) (h3 : d3 < 10) (h4 : d4 < 10) (h5 : d5 < 10) (h6 : d6 < 10)
    (h7 : d7 < 10) (h8 : d8 < 10) (h9 : d9 < 10) (h10 : d10 < 10) (sc : Scratch) :
    deVerdict (Gen.de_DE_15.validateM U [acct d1 d2 d3 d4 d5 d6 d7 d8 d9 d10] sc).2 = true ∧
    deAccepts (Gen.de_DE_15.validateM U [acct d1 d2 d3 d4 d5 d6 d7 d8 d9 d10] sc).2 =
      rule06 (dot [2, 3, 4, 5] [d9, d8, d7, d6]) d10 := by
  have hw : cycleWeights Gen.de_DE_15.weights 4 = [2, 3, 4, 5] := by decide
  de_simp [Gen.de_DE_15, intChar_ascii hU, h1, h2, h3, h4, h5, h6, h7, h8, h9, h10] at hw ⊢
  de_simp [Gen.de_DE_15, hw, intChar_ascii hU, h1, h2, h3, h4, h5, h6, h7, h8, h9, h10]
  clear hw
  generalize d9 * 2 + (d8 * 3 + (d7 * 4 + (d6 * 5))) = S
  de_close 11 rule06 S d10 h10

set_option maxHeartbeats 2000000 in
theorem de18 (U : Unicode) (hU : U.WF) (d1 d2 d3 d4 d5 d6 d7 d8 d9 d10 : Nat)
    (h1 : d1 < 10) (h2 : d2 < 10) (h3 : d3 < 10) (h4 : d4 < 10) (h5 : d5 < 10) (h6 : d6 < 10)
    (h7 : d7 < 10) (h8 : d8 < 10) (h9 : d9 < 10) (h10 : d10 < 10) (sc : Scratch) :
    deVerdict (Gen.de_DE_18.validateM U [acct d1 d2 d3 d4 d5 d6 d7 d8 d9 d10] sc).2 = true ∧
    deAccepts (Gen.de_DE_18.validateM U [acct d1 d2 d3 d4 d5 d6 d7 d8 d9 d10] sc).2 =
      rule10 (dot [3, 9, 7, 1, 3, 9, 7, 1, 3] [d9, d8, d7, d6, d5, d4, d3, d2, d1]) d10 := by
  have hw : cycleWeights Gen.de_DE_18.weights 9 = [3, 9, 7, 1, 3, 9, 7, 1, 3] := by decide
  de_simp [Gen.de_DE_18, intChar_ascii hU, h1, h2, h3, h4, h5, h6, h7, h8, h9, h10] at hw ⊢
  de_simp [Gen.de_DE_18, hw, intChar_ascii hU, h1, h2, h3, h4, h5, h6, h7, h8, h9, h10]
  clear hw
  generalize d9 * 3 + (d8 * 9 + (d7 * 7 + (d6 + (d5 * 3 + (d4 * 9 + (d3 * 7 + (d2 + (d1 * 3)))))))) = S
  de_close 10 rule10 S d10 h10

set_option maxHeartbeats 2000000 in
theorem de19 (U : Unicode) (hU : U.WF) (d1 d2 d3 d4 d5 d6 d7 d8 d9 d10 : Nat)
    (h1 : d1 < 10) (h2 : d2 < 10) (h3 : d3 < 10) (h4 : d4 < 10) (h5 : d5 < 10) (h6 : d6 < 10)
    (h7 : d7 < 10) (h8 : d8 < 10) (h9 : d9 < 10) (h10 : d10 < 10) (sc : Scratch) :
    deVerdict (Gen.de_DE_19.validateM U [acct d1 d2 d3 d4 d5 d6 d7 d8 d9 d10] sc).2 = true ∧
    deAccepts (Gen.de_DE_19.validateM U [acct d1 d2 d3 d4 d5 d6 d7 d8 d9 d10] sc).2 =
      rule06 (dot [2, 3, 4, 5, 6, 7, 8, 9, 1] [d9, d8, d7, d6, d5, d4, d3, d2, d1]) d10 := by
  have hw : cycleWeights Gen.de_DE_19.weights 9 = [2, 3, 4, 5, 6, 7, 8, 9, 1] := by decide
  de_simp [Gen.de_DE_19, intChar_ascii hU, h1, h2, h3, h4, h5, h6, h7, h8, h9, h10] at hw ⊢
  de_simp [Gen.de_DE_19, hw, intChar_ascii hU, h1, h2, h3, h4, h5, h6, h7, h8, h9, h10]
  clear hw
  generalize d9 * 2 + (d8 * 3 + (d7 * 4 + (d6 * 5 + (d5 * 6 + (d4 * 7 + (d3 * 8 + (d2 * 9 + (d1)))))))) = S
  de_close 11 rule06 S d10 h10

set_option maxHeartbeats 2000000 in
theorem de20 (U : Unicode) (hU : U.WF) (d1 d2 d3 d4 d5 d6 d7 d8 d9 d10 : Nat)
    (h1 : d1 < 10) (h2 : d2 < 10) (h3 : d3 < 10) (h4 : d4 < 10) (h5 : d5 < 10) (h6 : d6 < 10)
    (h7 : d7 < 10) (h8 : d8 < 10) (h9 : d9 < 10) (h10 : d10 < 10) (sc : Scratch) :
    deVerdict (Gen.de_DE_20.validateM U [acct d1 d2 d3 d4 d5 d6 d7 d8 d9 d10] sc).2 = true ∧
    deAccepts (Gen.de_DE_20.validateM U [acct d1 d2 d3 d4 d5 d6 d7 d8 d9 d10] sc).2 =
      rule06 (dot [2, 3, 4, 5, 6, 7, 8, 9, 3] [d9, d8, d7, d6, d5, d4, d3, d2, d1]) d10 := by
  have hw : cycleWeights Gen.de_DE_20.weights 9 = [2, 3, 4, 5, 6, 7, 8, 9, 3] := by decide
  de_simp [Gen.de_DE_20, intChar_ascii hU, h1, h2, h3, h4, h5, h6, h7, h8, h9, h10] at hw ⊢
  de_simp [Gen.de_DE_20, hw, intChar_ascii hU, h1, h2, h3, h4, h5, h6, h7, h8, h9, h10]
  clear hw
  generalize d9 * 2 + (d8 * 3 + (d7 * 4 + (d6 * 5 + (d5 * 6 + (d4 * 7 + (d3 * 8 + (d2 * 9 + (d1 * 3)))))))) = S
  de_close 11 rule06 S d10 h10

set_option maxHeartbeats 2000000 in
theorem de22 (U : Unicode) (hU : U.WF) (d1 d2 d3 d4 d5 d6 d7 d8 d9 d10 : Nat)
    (h1 : d1 < 10) (h2 : d2 < 10) (h3 : d3 < 10) (h4 : d4 < 10) (h5 : d5 < 10) (h6 : d6 < 10)
    (h7 : d7 < 10) (h8 : d8 < 10) (h9 : d9 < 10) (h10 : d10 < 10) (sc : Scratch) :
    deVerdict (Gen.de_DE_22.validateM U [acct d1 d2 d3 d4 d5 d6 d7 d8 d9 d10] sc).2 = true ∧
    deAccepts (Gen.de_DE_22.validateM U [acct d1 d2 d3 d4 d5 d6 d7 d8 d9 d10] sc).2 =
      rule10 (dotM10 [3, 1, 3, 1, 3, 1, 3, 1, 3] [d9, d8, d7, d6, d5, d4, d3, d2, d1]) d10 := by
  have hw : cycleWeights Gen.de_DE_22.weights 9 = [3, 1, 3, 1, 3, 1, 3, 1, 3] := by decide
  de_simp [Gen.de_DE_22, intChar_ascii hU, h1, h2, h3, h4, h5, h6, h7, h8, h9, h10] at hw ⊢
  de_simp [Gen.de_DE_22, hw, intChar_ascii hU, h1, h2, h3, h4, h5, h6, h7, h8, h9, h10]
  clear hw
  generalize d9 * 3 % 10 + (d8 % 10 + (d7 * 3 % 10 + (d6 % 10 + (d5 * 3 % 10 + (d4 % 10 + (d3 * 3 % 10 + (d2 % 10 + (d1 * 3 % 10)))))))) = S
  de_close 10 rule10 S d10 h10

set_option maxHeartbeats 2000000 in
theorem de28 (U : Unicode) (hU : U.WF) (d1 d2 d3 d4 d5 d6 d7 d8 d9 d10 : Nat)
    (h1 : d1 < 10) (h2 : d2 < 10) (h3 : d3 < 10) (h4 : d4 < 10) (h5 : d5 < 10) (h6 : d6 < 10)
    (h7 : d7 < 10) (h8 : d8 < 10) (h9 : d9 < 10) (h10 : d10 < 10) (sc : Scratch) :
    deVerdict (Gen.de_DE_28.validateM U [acct d1 d2 d3 d4 d5 d6 d7 d8 d9 d10] sc).2 = true ∧
    deAccepts (Gen.de_DE_28.validateM U [acct d1 d2 d3 d4 d5 d6 d7 d8 d9 d10] sc).2 =
      rule06 (dot [2, 3, 4, 5, 6, 7, 8] [d7, d6, d5, d4, d3, d2, d1]) d8 := by
  have hw : cycleWeights Gen.de_DE_28.weights 7 = [2, 3, 4, 5, 6, 7, 8] := by decide
  de_simp [Gen.de_DE_28, intChar_ascii hU, h1, h2, h3, h4, h5, h6, h7, h8, h9, h10] at hw ⊢
  de_simp [Gen.de_DE_28, hw, intChar_ascii hU, h1, h2, h3, h4, h5, h6, h7, h8, h9, h10]
  clear hw
  generalize d7 * 2 + (d6 * 3 + (d5 * 4 + (d4 * 5 + (d3 * 6 + (d2 * 7 + (d1 * 8)))))) = S
  de_close 11 rule06 S d8 h8

set_option maxHeartbeats 2000000 in
theorem de32 (U : Unicode) (hU : U.WF) (d1 d2 d3 d4 d5 d6 d7 d8 d9 d10 : Nat)
    (h1 : d1 < 10) (h2 : d2 < 10) (h3 : d3 < 10) (h4 : d4 < 10) (h5 : d5 < 10) (h6 : d6 < 10)
    (h7 : d7 < 10) (h8 : d8 < 10) (h9 : d9 < 10) (h10 : d10 < 10) (sc : Scratch) :
    deVerdict (Gen.de_DE_32.validateM U [acct d1 d2 d3 d4 d5 d6 d7 d8 d9 d10] sc).2 = true ∧
    deAccepts (Gen.de_DE_32.validateM U [acct d1 d2 d3 d4 d5 d6 d7 d8 d9 d10] sc).2 =
      rule06 (dot [2, 3, 4, 5, 6, 7] [d9, d8, d7, d6, d5, d4]) d10 := by
  have hw : cycleWeights Gen.de_DE_32.weights 6 = [2, 3, 4, 5, 6, 7] := by decide
  de_simp [Gen.de_DE_32, intChar_ascii hU, h1, h2, h3, h4, h5, h6, h7, h8, h9, h10] at hw ⊢
  de_simp [Gen.de_DE_32, hw, intChar_ascii hU, h1, h2, h3, h4, h5, h6, h7, h8, h9, h10]
  clear hw
  generalize d9 * 2 + (d8 * 3 + (d7 * 4 + (d6 * 5 + (d5 * 6 + (d4 * 7))))) = S
  de_close 11 rule06 S d10 h10

set_option maxHeartbeats 2000000 in
theorem de33 (U : Unicode) (hU : U.WF) (d1 d2 d3 d4 d5 d6 d7 d8 d9 d10 : Nat)
    (h1 : d1 < 10) (h2 : d2 < 10) (h3 : d3 < 10) (h4 : d4 < 10) (h5 : d5 < 10) (h6 : d6 < 10)
    (h7 : d7 < 10) (h8 : d8 < 10) (h9 : d9 < 10) (h10 : d10 < 10) (sc : Scratch) :
    deVerdict (Gen.de_DE_33.validateM U [acct d1 d2 d3 d4 d5 d6 d7 d8 d9 d10] sc).2 = true ∧
    deAccepts (Gen.de_DE_33.validateM U [acct d1 d2 d3 d4 d5 d6 d7 d8 d9 d10] sc).2 =
      rule06 (dot [2, 3, 4, 5, 6] [d9, d8, d7, d6, d5]) d10 := by
  have hw : cycleWeights Gen.de_DE_33.weights 5 = [2, 3, 4, 5, 6] := by decide
  de_simp [Gen.de_DE_33, intChar_ascii hU, h1, h2, h3, h4, h5, h6, h7, h8, h9, h10] at hw ⊢
  de_simp [Gen.de_DE_33, hw, intChar_ascii hU, h1, h2, h3, h4, h5, h6, h7, h8, h9, h10]
  clear hw
  generalize d9 * 2 + (d8 * 3 + (d7 * 4 + (d6 * 5 + (d5 * 6)))) = S
  de_close 11 rule06 S d10 h10

set_option maxHeartbeats 2000000 in
theorem de34 (U : Unicode) (hU : U.WF) (d1 d2 d3 d4 d5 d6 d7 d8 d9 d10 : Nat)
    (h1 : d1 < 10) (h2 : d2 < 10) (h3 : d3 < 10) (h4 : d4 < 10) (h5 : d5 < 10) (h6 : d6 < 10)
    (h7 : d7 < 10) (h8 : d8 < 10) (h9 : d9 < 10) (h10 : d10 < 10) (sc : Scratch) :
    deVerdict (Gen.de_DE_34.validateM U [acct d1 d2 d3 d4 d5 d6 d7 d8 d9 d10] sc).2 = true ∧
    deAccepts (Gen.de_DE_34.validateM U [acct d1 d2 d3 d4 d5 d6 d7 d8 d9 d10] sc).2 =
      rule06 (dot [2, 4, 8, 5, 10, 9, 7] [d7, d6, d5, d4, d3, d2, d1]) d8 := by
  have hw : cycleWeights Gen.de_DE_34.weights 7 = [2, 4, 8, 5, 10, 9, 7] := by decide
  de_simp [Gen.de_DE_34, intChar_ascii hU, h1, h2, h3, h4, h5, h6, h7, h8, h9, h10] at hw ⊢
  de_simp [Gen.de_DE_34, hw, intChar_ascii hU, h1, h2, h3, h4, h5, h6, h7, h8, h9, h10]
  clear hw
  generalize d7 * 2 + (d6 * 4 + (d5 * 8 + (d4 * 5 + (d3 * 10 + (d2 * 9 + (d1 * 7)))))) = S
  de_close 11 rule06 S d8 h8

set_option maxHeartbeats 2000000 in
theorem de38 (U : Unicode) (hU : U.WF) (d1 d2 d3 d4 d5 d6 d7 d8 d9 d10 : Nat)
    (h1 : d1 < 10) (h2 : d2 < 10) (h3 : d3 < 10) (h4 : d4 < 10) (h5 : d5 < 10) (h6 : d6 < 10)
    (h7 : d7 < 10) (h8 : d8 < 10) (h9 : d9 < 10) (h10 : d10 < 10) (sc : Scratch) :
    deVerdict (Gen.de_DE_38.validateM U [acct d1 d2 d3 d4 d5 d6 d7 d8 d9 d10] sc).2 = true ∧
    deAccepts (Gen.de_DE_38.validateM U [acct d1 d2 d3 d4 d5 d6 d7 d8 d9 d10] sc).2 =
      rule06 (dot [2, 4, 8, 5, 10, 9] [d9, d8, d7, d6, d5, d4]) d10 := by
  have hw : cycleWeights Gen.de_DE_38.weights 6 = [2, 4, 8, 5, 10, 9] := by decide
  de_simp [Gen.de_DE_38, intChar_ascii hU, h1, h2, h3, h4, h5, h6, h7, h8, h9, h10] at hw ⊢
  de_simp [Gen.de_DE_38, hw, intChar_ascii hU, h1, h2, h3, h4, h5, h6, h7, h8, h9, h10]
  clear hw
  generalize d9 * 2 + (d8 * 4 + (d7 * 8 + (d6 * 5 + (d5 * 10 + (d4 * 9))))) = S
  de_close 11 rule06 S d10 h10

set_option maxHeartbeats 2000000 in
theorem de60 (U : Unicode) (hU : U.WF) (d1 d2 d3 d4 d5 d6 d7 d8 d9 d10 : Nat)
    (h1 : d1 < 10) (h2 : d2 < 10) (h3 : d3 < 10) (h4 : d4 < 10) (h5 : d5 < 10) (h6 : d6 < 10)
    (h7 : d7 < 10) (h8 : d8 < 10) (h9 : d9 < 10) (h10 : d10 < 10) (sc : Scratch) :
    deVerdict (Gen.de_DE_60.validateM U [acct d1 d2 d3 d4 d5 d6 d7 d8 d9 d10] sc).2 = true ∧
    deAccepts (Gen.de_DE_60.validateM U [acct d1 d2 d3 d4 d5 d6 d7 d8 d9 d10] sc).2 =
      rule10 (dotQ [2, 1, 2, 1, 2, 1, 2] [d9, d8, d7, d6, d5, d4, d3]) d10 := by
  have hw : cycleWeights Gen.de_DE_60.weights 7 = [2, 1, 2, 1, 2, 1, 2] := by decide
  de_simp [Gen.de_DE_60, intChar_ascii hU, h1, h2, h3, h4, h5, h6, h7, h8, h9, h10] at hw ⊢
  de_simp [Gen.de_DE_60, hw, intChar_ascii hU, h1, h2, h3, h4, h5, h6, h7, h8, h9, h10]
  clear hw
  generalize digitSum (d9 * 2) + (digitSum d8 + (digitSum (d7 * 2) + (digitSum d6 + (digitSum (d5 * 2) + (digitSum d4 + (digitSum (d3 * 2))))))) = S
  de_close 10 rule10 S d10 h10

end SV.Props.C07
