/-
  C06 — National check digits are judged by the country's published algorithm.

  Generic part (every table, registry, algorithm table): the return-value contract, monotonicity
  (national validation can only reject), acceptance for countries without an algorithm, and the
  dispatch theorem.  Published-rule equivalences are proved here for the ISO 7064 families
  (BA, ME, MK, PT, RS, SI, TL; MR, TN; BE) against `SV.Spec.National`, through the regenerated
  registration table and positions; for the weighted / Luhn / RIB / CIN algorithms (ES, FR, MC, IT,
  SM, FI, NO, PL, EE, CZ, SK, IS) in `C06Rules.lean`.  `C06Probe.lean` ties the algorithm bodies
  and their constants to the live objects by kernel-checked recorded calls.
-/
import SV.Proofs.National
import SV.Props.C01
namespace SV.Props.C06
open SV Spec

/-- The BBAN-level national check reports success as `True` and failure by raising: it never
    returns `False`. -/
theorem returns_true (X : Ctx) (cc b : Str) (v : Bool)
    (h : BBAN.validateNational X cc b = .ok v) : v = true :=
  validateNational_true X cc b h

/-- National validation can only reject: whatever is accepted with it is accepted without it. -/
theorem monotone (X : Ctx) (s : Str) (h : (IBAN.new X s false true).isOk = true) :
    (IBAN.new X s false false).isOk = true := by
  rw [C01.new_isOk] at h ⊢
  unfold IBAN.validate at h ⊢
  cases h1 : IBAN.validateCharacters X.U (clean X.U s) <;> simp [h1] at h ⊢
  cases h2 : IBAN.validateLength X.T (clean X.U s) <;> simp [h2] at h ⊢
  cases h3 : IBAN.validateFormat X.U X.T (clean X.U s) <;> simp [h3] at h ⊢
  cases h4 : IBAN.validateChecksum X.U (clean X.U s) <;> simp [h4] at h ⊢

/-- Countries without a registered algorithm are unaffected: the national check accepts. -/
theorem no_algorithm_accepts (X : Ctx) {cc b : Str} {e : Country} (hl : X.T.lookup cc = some e)
    (hR : ∀ x ∈ X.R, x.countryCode = cc → x.checksumAlgo = none)
    (hA : X.A.get (defaultKey cc) = none) :
    BBAN.validateNational X cc b = .ok true := by
  rw [validateNational_dispatch X hl hR, hA]

/-- Dispatch (see `validateNational_dispatch`): the registered algorithm judges exactly the
    fields it declares, cut at the country's published positions. -/
theorem dispatch (X : Ctx) {cc b : Str} {e : Country} (hl : X.T.lookup cc = some e)
    (hR : ∀ x ∈ X.R, x.countryCode = cc → x.checksumAlgo = none) :
    BBAN.validateNational X cc b =
      match X.A.get (defaultKey cc) with
      | none => .ok true
      | some a =>
        (a.ref.validate X.U (componentsOf e b a.accepts)
          (getSlice b (e.range .nationalChecksumDigits).start
            (some (e.range .nationalChecksumDigits).stop))).bind
          (fun ok => if ok then .ok true else .err .invalidBBANChecksum) :=
  validateNational_dispatch X hl hR

/-! ### ISO 7064 mod 97-10 families -/

theorem isoDefault_validate (U : Unicode) (cs : List Str) (ha : allAlnum (joinStrs cs) = true)
    (hne : joinStrs cs ≠ []) (hl : numLen (joinStrs cs) ≤ U.maxIntDigits) :
    NatAlgo.isoDefault.validate U cs = fun ex =>
      .ok (fmt02 ((fun r => 98 - r) ((fun v => v * 100) (numVal (joinStrs cs) 0) % 97)) == ex) := by
  funext ex
  simp only [NatAlgo.validate, NatAlgo.compute, isoDefaultCompute, isoPre]
  rw [numerify_ok ha hne hl]; rfl

theorem isoVariant_validate (U : Unicode) (cs : List Str) (ha : allAlnum (joinStrs cs) = true)
    (hne : joinStrs cs ≠ []) (hl : numLen (joinStrs cs) ≤ U.maxIntDigits) :
    NatAlgo.isoVariant.validate U cs = fun ex =>
      .ok (fmt02 ((fun r => 97 - r) ((fun v => v * 100) (numVal (joinStrs cs) 0) % 97)) == ex) := by
  funext ex
  simp only [NatAlgo.validate, NatAlgo.compute, isoVariantCompute, isoPre]
  rw [numerify_ok ha hne hl]; rfl

theorem be_validate (U : Unicode) (cs : List Str) (ha : allAlnum (joinStrs cs) = true)
    (hne : joinStrs cs ≠ []) (hl : numLen (joinStrs cs) ≤ U.maxIntDigits) :
    NatAlgo.be.validate U cs = fun ex =>
      .ok (fmt02 ((fun r => if r ≠ 0 then r else 97)
        ((fun v => v * 100 / 100) (numVal (joinStrs cs) 0) % 97)) == ex) := by
  funext ex
  simp only [NatAlgo.validate, NatAlgo.compute, beCompute, isoPre]
  rw [numerify_ok ha hne hl]; rfl

/-- BA, ME, MK, PT, RS, SI, TL (whichever countries satisfy `prefixAlgo … isoDefault`): the
    national check accepts exactly when the last two characters are `98 − (prefix·100 mod 97)`. -/
theorem iso_default_rule (X : Ctx) (hU : X.U.WF) {cc b : Str} {n : Nat}
    (hp : prefixAlgo X.T X.A .isoDefault cc n = true)
    (hR : ∀ x ∈ X.R, x.countryCode = cc → x.checksumAlgo = none)
    (hlen : b.length = n + 2) (hA : allAlnum b = true) (hmax : 2 * b.length ≤ X.U.maxIntDigits) :
    BBAN.validateNational X cc b =
      if mod97_98 b n then .ok true else .err .invalidBBANChecksum :=
  iso_family X hU .isoDefault (fun r => 98 - r) (fun v => v * 100) (isoDefault_validate X.U) hp hR hlen hA hmax

/-- MR, TN: `97 − (prefix·100 mod 97)`. -/
theorem iso_variant_rule (X : Ctx) (hU : X.U.WF) {cc b : Str} {n : Nat}
    (hp : prefixAlgo X.T X.A .isoVariant cc n = true)
    (hR : ∀ x ∈ X.R, x.countryCode = cc → x.checksumAlgo = none)
    (hlen : b.length = n + 2) (hA : allAlnum b = true) (hmax : 2 * b.length ≤ X.U.maxIntDigits) :
    BBAN.validateNational X cc b =
      if mod97_97 b n then .ok true else .err .invalidBBANChecksum :=
  iso_family X hU .isoVariant (fun r => 97 - r) (fun v => v * 100) (isoVariant_validate X.U) hp hR hlen hA hmax

/-- BE: the last two digits are the first ten modulo 97 (0 written as 97). -/
theorem belgium_rule (X : Ctx) (hU : X.U.WF) {cc b : Str}
    (hp : prefixAlgo X.T X.A .be cc 10 = true)
    (hR : ∀ x ∈ X.R, x.countryCode = cc → x.checksumAlgo = none)
    (hlen : b.length = 12) (hA : allAlnum b = true) (hmax : 2 * b.length ≤ X.U.maxIntDigits) :
    BBAN.validateNational X cc b =
      if belgium b then .ok true else .err .invalidBBANChecksum := by
  have := iso_family X hU .be (fun r => if r ≠ 0 then r else 97) (fun v => v * 100 / 100)
    (be_validate X.U) hp hR hlen hA hmax
  rw [this]
  unfold belgium
  have e : numVal (b.take 10) 0 * 100 / 100 = numVal (b.take 10) 0 := Nat.mul_div_cancel _ (by decide)
  rw [e]

/-! ### Instance obligations on the regenerated registration table and positions -/

def bytes (s : String) : Str := s.toList.map Char.toNat

/-- The seven countries registered for the default ISO 7064 algorithm, with the length of the
    prefix their declared fields tile. -/
theorem live_iso_default :
    [("BA", 14), ("ME", 16), ("MK", 13), ("PT", 19), ("RS", 16), ("SI", 13), ("TL", 17)].all
      (fun p => prefixAlgo Gen.table Gen.algoTable .isoDefault (bytes p.1) p.2) = true := by
  decide +kernel

theorem live_iso_variant :
    [("MR", 21), ("TN", 18)].all
      (fun p => prefixAlgo Gen.table Gen.algoTable .isoVariant (bytes p.1) p.2) = true := by
  decide +kernel

theorem live_belgium : prefixAlgo Gen.table Gen.algoTable .be (bytes "BE") 10 = true := by
  decide +kernel

/-- The national (non-German) algorithms of the live algorithm table are registered for exactly
    the 22 countries the property lists. -/
theorem live_registered_countries :
    ((Gen.algoTable.filter (fun a => match a.ref with | .nat _ => true | _ => false)).map
      (fun a => a.key)) =
    (["BA", "BE", "CZ", "EE", "ES", "FI", "FR", "IS", "IT", "MC", "ME", "MK", "MR", "NO", "PL", "PT",
      "RS", "SI", "SK", "SM", "TL", "TN"].map (fun c => bytes (c ++ ":default"))) := by
  decide +kernel

/-- Only German bank entries name a method: for every other country the hypothesis "no entry
    of the country names a method" of the theorems above holds for the bundled registry. -/
theorem live_only_de_names_methods : Gen.countriesWithAlgo = [bytes "DE"] := by decide +kernel

/-- Bosnia: on the live tables, for every registry without method names for BA and every
    16-character alphanumeric BBAN, the national check is the published ISO 7064 rule. -/
theorem live_bosnia (R : Registry) (hR : ∀ x ∈ R, x.countryCode = bytes "BA" → x.checksumAlgo = none)
    (b : Str) (hlen : b.length = 16) (hA : allAlnum b = true) :
    BBAN.validateNational (Gen.ctx R) (bytes "BA") b =
      if mod97_98 b 14 then .ok true else .err .invalidBBANChecksum := by
  have hp : prefixAlgo Gen.table Gen.algoTable .isoDefault (bytes "BA") 14 = true := by
    have := live_iso_default
    simp only [List.all_cons, Bool.and_eq_true] at this
    exact this.1
  exact iso_default_rule (Gen.ctx R) C10.unicode_wf hp hR hlen hA (by
    have : (Gen.ctx R).U.maxIntDigits = 4300 := rfl
    rw [hlen, this]; decide)

/-! Non-vacuity: "1990440001200279" + computed digits -/
example : mod97_98 (bytes "1290079401028494") 14 = true := by decide +kernel
example : mod97_98 (bytes "1290079401028495") 14 = false := by decide +kernel

end SV.Props.C06
