/-
  C11 — An IBAN or BIC decomposes losslessly into its published fields.
-/
import SV.Props.C02
import SV.Props.C04
namespace SV.Props.C11
open SV Spec

/-- country code + check digits + BBAN = compact form, for every compact text of at least four
    characters (in particular every accepted IBAN). -/
theorem parts_concat (U : Unicode) {c : Str} (hc : Compact U c) (h4 : 4 ≤ c.length) :
    IBAN.countryCode c ++ IBAN.checksumDigits c ++ IBAN.bban U c = c := by
  rw [countryCode_eq (by omega), checksumDigits_eq h4, bban_of_compact hc]
  obtain ⟨a, b, d1, d2, rest, rfl⟩ := list_ge4 h4
  rfl

/-- A published component is the BBAN substring at the published position; an unpublished one
    is empty. (`b.length = e.bbanLength` holds for every accepted IBAN's BBAN.) -/
theorem component_eq (T : Table) (hT : T.WF) {cc b : Str} {e : Country}
    (hl : T.lookup cc = some e) (hlen : b.length = e.bbanLength) (k : Component) :
    BBAN.component T cc b k =
      .ok (match (e.positions.getD []).lookup k with
           | some r => slice b r.start r.stop
           | none => []) := by
  have hW := hT e (Table.lookup_mem hl).1
  unfold BBAN.component bbanSpec
  rw [hl]
  simp only [Res.ok_bind, Res.pure_eq]
  unfold Country.range
  cases hp : e.positions with
  | none => simp [getSlice, slice]
  | some ps =>
    simp only [Option.getD_some]
    cases hk : ps.lookup k with
    | none => simp [getSlice, slice]
    | some r =>
      have hmem : (k, r) ∈ e.positions.getD [] := by
        rw [hp]; simp only [Option.getD_some]
        have := List.lookup_eq_some_iff.mp hk
        obtain ⟨l1, l2, h, _⟩ := this
        rw [h]; simp
      have hb := hW.bounds (k, r) hmem
      simp only at hb
      simp only [getSlice]
      have h1 : r.start < b.length := by omega
      have h2 : r.stop ≤ b.length := by omega
      simp [h1, h2]

/-- Published fields of a well-formed entry never overlap. -/
theorem pairwise_of_pairwiseDisjoint : ∀ (ps : List (Component × Range)),
    pairwiseDisjoint ps = true →
    ∀ i j (hi : i < ps.length) (hj : j < ps.length), i < j →
      ps[i].1 ≠ ps[j].1 ∧ (ps[i].2.stop ≤ ps[j].2.start ∨ ps[j].2.stop ≤ ps[i].2.start)
  | [], _, i, _, hi, _, _ => by simp at hi
  | p :: t, h, i, j, hi, hj, hij => by
    simp only [pairwiseDisjoint, Bool.and_eq_true, List.all_eq_true] at h
    cases i with
    | zero =>
      cases j with
      | zero => omega
      | succ j =>
        simp only [List.length_cons] at hj
        have := h.1 t[j] (List.getElem_mem (by omega))
        simp only [Range.disjoint, Bool.and_eq_true, bne_iff_ne, Bool.or_eq_true,
          decide_eq_true_eq] at this
        simpa using this
    | succ i =>
      cases j with
      | zero => omega
      | succ j =>
        simp only [List.length_cons] at hi hj
        simpa using pairwise_of_pairwiseDisjoint t h.2 i j (by omega) (by omega) (by omega)

theorem fields_disjoint (T : Table) (hT : T.WF) {e : Country} (he : e ∈ T) :
    ∀ i j (hi : i < (e.positions.getD []).length) (hj : j < (e.positions.getD []).length), i < j →
      (e.positions.getD [])[i].1 ≠ (e.positions.getD [])[j].1 ∧
      ((e.positions.getD [])[i].2.stop ≤ (e.positions.getD [])[j].2.start ∨
       (e.positions.getD [])[j].2.stop ≤ (e.positions.getD [])[i].2.start) :=
  pairwise_of_pairwiseDisjoint _ (hT e he).disjoint

/-- Re-assembling an accepted IBAN from its country code and BBAN gives the same IBAN. -/
theorem reassemble (X : Ctx) (hU : X.U.WF) (hT : X.T.WF) (s : Str)
    (h : (IBAN.new X s false false).isOk = true) :
    IBAN.fromBban X (IBAN.countryCode (clean X.U s)) (IBAN.bban X.U (clean X.U s)) false false =
      .ok (clean X.U s) := by
  have hc := compact_clean hU s
  have hiso := (C01.accept_iff X hU hT s).mp h
  generalize clean X.U s = c at *
  unfold isoValid at hiso
  cases hl : X.T.lookup (c.take 2) with
  | none => simp [hl] at hiso
  | some e =>
    simp only [hl, Bool.and_eq_true, beq_iff_eq, decide_eq_true_eq] at hiso
    obtain ⟨⟨⟨⟨⟨⟨hlen, hg2⟩, hg3⟩, hfit⟩, hmod⟩, hlo⟩, hhi⟩ := hiso
    have h4 : 4 ≤ c.length := by omega
    rw [countryCode_eq (by omega), bban_of_compact hc]
    have hnb : (32 : Nat) ∉ c.drop 4 := by
      intro hm
      have := (hc 32 (List.mem_of_mem_drop hm)).1
      rw [hU.space] at this; exact absurd this (by simp)
    rw [C02.from_bban X hU hT hl hfit hnb]
    -- the given digits are the computed ones (uniqueness)
    obtain ⟨a, b, d1, d2, rest, rfl⟩ := list_ge4 h4
    simp only [List.take_succ_cons, List.take_zero, List.drop_succ_cons, List.drop_zero,
      List.getD_cons_succ, List.getD_cons_zero] at *
    have hacc : (IBAN.new X ([a, b] ++ [d1, d2] ++ rest) false false).isOk = true := by
      rw [C01.accept_iff X hU hT]
      have : clean X.U ([a, b] ++ [d1, d2] ++ rest) = a :: b :: d1 :: d2 :: rest :=
        clean_of_compact hc
      rw [this]
      unfold isoValid
      simp only [List.take_succ_cons, List.take_zero, hl, List.drop_succ_cons, List.drop_zero,
        List.getD_cons_succ, List.getD_cons_zero, hg2, hg3, hfit, hmod, Bool.and_eq_true,
        beq_iff_eq, decide_eq_true_eq, and_true, true_and]
      exact ⟨⟨hlen, hlo⟩, hhi⟩
    have := (C02.unique X hU hT hl hfit hnb hg2 hg3).mp hacc
    rw [← this]; rfl

/-- For every accepted BIC: party prefix + country code + location code + branch code equals the
    compact form, and the branch code is empty exactly for the 8-character form. -/
theorem bic_parts (X : BicCtx) (hX : X.WF) (c : Str) (strict : Bool)
    (h : BIC.validate X c strict = .ok true) :
    BIC.bankCode c ++ BIC.countryCode c ++ BIC.locationCode c ++ BIC.branchCode c = c ∧
    (BIC.branchCode c = [] ↔ c.length = 8) := by
  have hv := (C04.validate_iff X hX c strict).mp h
  have hlen : c.length = 8 ∨ c.length = 11 := by
    unfold iso9362 at hv
    simp only [Bool.and_eq_true, Bool.or_eq_true, beq_iff_eq] at hv
    exact hv.1.1.1.1.1
  rcases hlen with h8 | h11
  · obtain ⟨c0, c1, c2, c3, c4, c5, c6, c7, rfl⟩ := list_len8 h8
    simp [BIC.bankCode, BIC.countryCode, BIC.locationCode, BIC.branchCode, getSlice, slice]
  · obtain ⟨c0, c1, c2, c3, c4, c5, c6, c7, c8, c9, c10, rfl⟩ := list_len11 h11
    simp [BIC.bankCode, BIC.countryCode, BIC.locationCode, BIC.branchCode, getSlice, slice]

end SV.Props.C11
