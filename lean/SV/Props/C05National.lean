/-
  C05 (continued) — totality of validation WITH national validation (`validate_bban=True`).

  Generic part (`SV.Proofs.NationalTotal`): for every context whose algorithm table is class-safe
  for its country table (`natSafeB`, decidable) and whose German methods return a verdict on every
  ten-digit account (`DETotal`), `IBAN(text, validate_bban=True)` never lets a foreign exception
  escape, for every text.  Instance part: both hypotheses hold for the tables regenerated from the
  live tree (`live_nat_safe` by kernel evaluation, `live_de_total` from the 39 method theorems of
  C07).
-/
import SV.Proofs.NationalTotal
import SV.Props.C01
import SV.Props.C07
import SV.Props.C10
import SV.Gen.Ctx
namespace SV.Props.C05
open SV Spec

/-- `validate(validate_bban=True)` is `validate()` followed by the national check. -/
theorem validate_true_eq (X : Ctx) (c : Str) :
    IBAN.validate X c true =
      (IBAN.validate X c false).bind (fun _ =>
        (BBAN.validateNational X (IBAN.countryCode c) (IBAN.bban X.U c)).bind (fun _ => .ok true)) := by
  unfold IBAN.validate
  cases IBAN.validateCharacters X.U c <;> try rfl
  cases IBAN.validateLength X.T c <;> try rfl
  cases IBAN.validateFormat X.U X.T c <;> try rfl
  cases IBAN.validateChecksum X.U c <;> rfl

/-- IBAN with national validation: `validate(validate_bban=True)` never lets a foreign exception
    escape, for every text. -/
theorem iban_validate_bban_no_crash (X : Ctx) (hU : X.U.WF) (hT : X.T.WF)
    (hS : natSafeB X.A X.T = true) (hD : DETotal X.U X.A) (s : Str) :
    (IBAN.validate X (clean X.U s) true).isCrash = false := by
  have hc := compact_clean hU s
  rw [validate_true_eq, validate_eq_tree X hc]
  rcases C01.tree_total (U := X.U) hT (clean X.U s) with h | ⟨k, h⟩
  · rw [h]
    have hiso := (tree_ok_iff_isoValid hU hT hc).mp h
    have h4 : 4 ≤ (clean X.U s).length := by
      have := (tree_ok_iff X.U X.T (clean X.U s)).mp h
      exact prefixOk_length this.1
    unfold isoValid at hiso
    cases hl : X.T.lookup ((clean X.U s).take 2) with
    | none => rw [hl] at hiso; cases hiso
    | some e =>
      rw [hl] at hiso
      simp only [Bool.and_eq_true] at hiso
      have hfit : fits e ((clean X.U s).drop 4) = true := hiso.1.1.1.2
      have := validateNational_no_crash X hU hS hD (cc := (clean X.U s).take 2)
        (by rw [List.length_take]; omega) hl hfit
      rw [countryCode_eq (by omega), bban_of_compact hc]
      cases hv : BBAN.validateNational X ((clean X.U s).take 2) ((clean X.U s).drop 4) with
      | crash c => rw [hv] at this; cases this
      | err k => rfl
      | ok v => rfl
  · rw [h]; rfl

/-- …and so does the validating constructor. -/
theorem iban_new_bban_no_crash (X : Ctx) (hU : X.U.WF) (hT : X.T.WF)
    (hS : natSafeB X.A X.T = true) (hD : DETotal X.U X.A) (s : Str) (ai : Bool) :
    (IBAN.new X s ai true).isCrash = false := by
  unfold IBAN.new
  cases ai with
  | true => rfl
  | false =>
    simp only [Bool.false_eq_true, ↓reduceIte]
    have := iban_validate_bban_no_crash X hU hT hS hD s
    cases hv : IBAN.validate X (clean X.U s) true with
    | crash c => rw [hv] at this; cases this
    | err k => rfl
    | ok v => rfl

/-! ### Instance: the regenerated tables -/

/-- Every algorithm registered in the live tree reads only fields whose published positions carry
    the character classes it can digest (digits for the weighted sums, alphanumerics for FR / IT /
    FI, ten digits for the German methods). -/
theorem live_nat_safe : natSafeB Gen.algoTable Gen.table = true := by decide +kernel

theorem live_de_total_all (U : Unicode) (hU : U.WF) : DETotal U Gen.algoTable := by
  intro a ha p hp d1 d2 d3 d4 d5 d6 d7 d8 d9 d10 h1 h2 h3 h4 h5 h6 h7 h8 h9 h10 sc
  apply C07.live_de_total U hU d1 d2 d3 d4 d5 d6 d7 d8 d9 d10 h1 h2 h3 h4 h5 h6 h7 h8 h9 h10 sc p
  unfold C07.liveDEParams
  exact List.mem_filterMap.mpr ⟨a, ha, by rw [hp]⟩

/-- The statement for the live tree, with every hypothesis discharged. -/
theorem live_iban_bban_no_crash (R : Registry) (s : Str) (ai : Bool) :
    (IBAN.new (Gen.ctx R) s ai true).isCrash = false :=
  iban_new_bban_no_crash (Gen.ctx R) C10.unicode_wf C01.table_wf live_nat_safe
    (live_de_total_all _ C10.unicode_wf) s ai

end SV.Props.C05
