/-
  C10 — Whitespace and letter case never matter; formatting round-trips.

  Every entry point of IBAN / BIC / BBAN sees its text argument only through `clean`
  (`Base.__new__`), so the theorems are about `clean`, for every Unicode table satisfying the
  decidable facts `Unicode.WF`, which are re-checked by the kernel on the tables regenerated
  from the running interpreter (`unicode_wf`).
-/
import SV.Proofs.Format
import SV.Gen.Ctx
namespace SV.Props.C10
open SV

/-- Instance obligation: the interpreter's tables satisfy the facts the theorems assume. -/
theorem unicode_wf : Gen.unicode.WF :=
  Unicode.wf_of_wfb (km := Gen.upperKeysMask) (sm := Gen.spacesMask) (by decide +kernel)

/-- Instance obligation: the pattern `clean` removes is `\s+` (with default flags), i.e. runs of
    exactly the `\s` code points of the Unicode table — nothing more, nothing less.  When `clean` is not
    written with that pattern, the translator reads its behaviour on every code point instead, and the
    obligation is that it removes exactly the whitespace code points and upper-cases every other one
    (recorded behaviour, i.e. correspondence made part of the build; texts of several characters are
    covered by the correspondence streams). -/
theorem clean_pattern_is_ws :
    Gen.cleanPattern = [92, 115, 43] ∨
      (Gen.cleanPattern = [] ∧ Gen.cleanRemovedMask = Gen.spacesMask ∧ Gen.cleanOtherMask = 0) := by
  decide +kernel

/-- Instance obligation: the alphabet of `numerify` is `0-9A-Z`. -/
theorem alphabet_is_alnum :
    Gen.alphabet = (List.range 10).map (· + 48) ++ (List.range 26).map (· + 65) := by decide +kernel

/-- Whitespace anywhere: inserting any `\s` code point at any place leaves the compact form
    unchanged. -/
theorem clean_ws (U : Unicode) (w : Nat) (hw : U.isSpace w = true) (xs ys : Str) :
    clean U (xs ++ w :: ys) = clean U (xs ++ ys) :=
  clean_insert_space hw xs ys

/-- More generally: two texts that agree after deleting all whitespace have the same compact
    form (any number of insertions and deletions, anywhere, of any `\s` code points). -/
theorem clean_ws_general (U : Unicode) (s t : Str)
    (h : s.filter (fun c => !U.isSpace c) = t.filter (fun c => !U.isSpace c)) :
    clean U s = clean U t :=
  clean_eq_of_filter_eq h

/-- The case of ASCII letters: flipping the case of any subset of the ASCII letters leaves the
    compact form unchanged. -/
theorem clean_case (U : Unicode) (hU : U.WF) (s t : Str) (h : CaseVariant s t) :
    clean U s = clean U t :=
  clean_caseVariant hU h

/-- Hence all such variants are accepted or rejected alike and yield equal objects, for every
    constructor and flag combination (the result *is* a function of the compact form). -/
theorem iban_variants_alike (X : Ctx) (s t : Str) (ai vb : Bool)
    (h : clean X.U s = clean X.U t) : IBAN.new X s ai vb = IBAN.new X t ai vb := by
  unfold IBAN.new; rw [h]

theorem bic_variants_alike (X : BicCtx) (s t : Str) (ai strict : Bool)
    (h : clean X.U s = clean X.U t) : BIC.new X s ai strict = BIC.new X t ai strict := by
  unfold BIC.new; rw [h]

/-- The compact form contains no whitespace and no (ASCII) lower-case letter. -/
theorem compact_no_ws_no_lower (U : Unicode) (hU : U.WF) (s : Str) :
    ∀ x ∈ clean U s, U.isSpace x = false ∧ isAsciiLower x = false :=
  fun x hx => ⟨(clean_elem hU s x hx).1, (clean_elem hU s x hx).2.1⟩

/-- Parsing a compact form again yields the same compact form. -/
theorem clean_idempotent (U : Unicode) (hU : U.WF) (s : Str) : clean U (clean U s) = clean U s :=
  clean_idem hU s

/-- The formatted IBAN is the compact form cut into groups separated by single spaces:
    the groups concatenate to the compact form, every group has 1 … 4 characters. -/
theorem iban_formatted_groups (c : Str) :
    IBAN.formatted c = intercalateSp (chunks4 c.length c) ∧
    (chunks4 c.length c).flatten = c ∧
    ∀ g ∈ chunks4 c.length c, 1 ≤ g.length ∧ g.length ≤ 4 :=
  ⟨rfl, chunks4_flatten _ _ (Nat.le_refl _), chunks4_shape _ _ (Nat.le_refl _)⟩

/-- All groups but the last have exactly four characters. -/
theorem iban_formatted_full_groups : ∀ (n : Nat) (c : Str), c.length ≤ n →
    ∀ i, i + 1 < (chunks4 n c).length → ((chunks4 n c)[i]?.map List.length) = some 4
  | 0, c, _, i, hi => by simp [chunks4] at hi
  | n + 1, c, h, i, hi => by
    unfold chunks4 at hi ⊢
    by_cases hc : c = []
    · simp [hc] at hi
    · simp only [hc, ↓reduceIte] at hi ⊢
      have hpos : 0 < c.length := List.length_pos_iff.mpr hc
      cases i with
      | zero =>
        simp only [List.length_cons] at hi
        -- a second group exists, so more than four characters remain
        have : chunks4 n (c.drop 4) ≠ [] := by
          intro hn; rw [hn] at hi; simp at hi
        have hlen : 4 < c.length := by
          cases n with
          | zero => simp [chunks4] at this
          | succ n =>
            unfold chunks4 at this
            by_cases hd : c.drop 4 = []
            · simp [hd] at this
            · have := List.length_pos_iff.mpr hd
              simp at this; omega
        simp; omega
      | succ i =>
        simp only [List.length_cons, List.getElem?_cons_succ] at hi ⊢
        exact iban_formatted_full_groups n (c.drop 4) (by simp; omega) i (by omega)

/-- Parsing the formatted form of an IBAN yields the same object as parsing the compact form. -/
theorem iban_formatted_roundtrip (X : Ctx) (hU : X.U.WF) (s : Str) (ai vb : Bool) :
    IBAN.new X (IBAN.formatted (clean X.U s)) ai vb = IBAN.new X (clean X.U s) ai vb :=
  iban_variants_alike X _ _ ai vb (by rw [clean_iban_formatted hU, clean_idem hU])

/-- The formatted BIC is its parts separated by single spaces (8 characters: 4-2-2,
    11 characters: 4-2-2-3). -/
theorem bic_formatted_parts (c : Str) :
    (c.length = 8 → BIC.formatted c = slice c 0 4 ++ [32] ++ slice c 4 6 ++ [32] ++ slice c 6 8) ∧
    (c.length = 11 → BIC.formatted c =
      slice c 0 4 ++ [32] ++ slice c 4 6 ++ [32] ++ slice c 6 8 ++ [32] ++ slice c 8 11) :=
  ⟨bic_formatted_8, bic_formatted_11⟩

/-- Parsing the formatted form of a BIC yields the same object as parsing the compact form. -/
theorem bic_formatted_roundtrip (X : BicCtx) (hU : X.U.WF) (s : Str) (ai strict : Bool)
    (hlen : (clean X.U s).length = 8 ∨ (clean X.U s).length = 11) :
    BIC.new X (BIC.formatted (clean X.U s)) ai strict = BIC.new X (clean X.U s) ai strict :=
  bic_variants_alike X _ _ ai strict (by rw [clean_bic_formatted hU s hlen, clean_idem hU])

/-! Non-vacuity: the hypotheses are met by the live tables and by concrete inputs. -/

-- "de89 3704\t0044 ..." : tab, newline and no-break space are whitespace of the live tables
example : Gen.unicode.isSpace 9 = true ∧ Gen.unicode.isSpace 10 = true ∧
    Gen.unicode.isSpace 160 = true ∧ Gen.unicode.isSpace 0x2003 = true := by decide +kernel

example : CaseVariant [100, 101, 56, 57] [68, 101, 56, 57] :=
  .flip 100 (.same 101 (.same 56 (.same 57 .nil)))

example : clean Gen.unicode [100, 9, 101, 160, 56, 57] = [68, 69, 56, 57] := by decide +kernel

example : (clean Gen.unicode [71, 69, 78, 79, 68, 69, 77, 49, 71, 76, 83]).length = 11 := by
  decide +kernel

end SV.Props.C10
