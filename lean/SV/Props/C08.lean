/-
  C08 — Generated IBANs carry exactly the supplied components, padded, never altered.

  Proved here, for every well-formed table and every component strings (any length, any code
  points): padding (`zfill`) keeps every supplied character; the placement theorem — after all
  components have been written each one is found unchanged at its published position, because
  published fields are disjoint and inside the BBAN; the error class for an over-long component
  (bank, branch, account — in that order) and for an unknown country / a country without
  positions.  The end-to-end statements — `generate` is total, and a returned IBAN is accepted and
  carries every supplied component at its published position — are in `C08EndToEnd.lean`.
-/
import SV.Proofs.Placement
import SV.Props.C10
namespace SV.Props.C08
open SV

/-- Padding never drops, truncates or changes a supplied character: the result has length
    `max(len, width)`, and consists of zeros followed by the value (after a leading sign, if the
    value starts with `+`/`-`, as `str.zfill` does). -/
theorem padding (s : Str) (w : Nat) :
    (zfill s w).length = max s.length w ∧
    ((∀ c, s.head? = some c → c ≠ 43 ∧ c ≠ 45) → zfill s w = List.replicate (w - s.length) 48 ++ s) :=
  ⟨zfill_length s w, zfill_nosign s w⟩

/-- **Placement**: whatever the component values are (as long as each published one has exactly
    its field width), after writing all eight components in `Component` order into a BBAN of the
    country's length, every published component sits unchanged at its published position. -/
theorem placement {e : Country} (hW : e.WF) (c : Comps)
    (hlen : ∀ k r, publishedAt e k r → (c k).length = r.stop - r.start)
    (b : Str) (hb : b.length = e.bbanLength) (j : Component) (r : Range) (hp : publishedAt e j r) :
    slice (overlayAll e c Component.all b) r.start r.stop = c j ∧
    (overlayAll e c Component.all b).length = e.bbanLength := by
  have hnd : Component.all.Nodup := by decide
  have hj : j ∈ Component.all := by cases j <;> simp [Component.all]
  refine ⟨overlayAll_same hW c hlen Component.all b hnd hb j hj r hp, ?_⟩
  exact (overlayAll_other hW c hlen Component.all b ⟨0, 0⟩ hb (by simp)
    (fun k _ r' _ => Or.inl (by simp))).1

/-- Unknown country: `InvalidCountryCode`; known country without published positions: the library's
    root error. -/
theorem unknown_country (X : Ctx) (cc : Str) (vs : List (Component × Str))
    (h : X.T.lookup cc = none) : BBAN.fromComponents X cc vs = .err .invalidCountryCode := by
  simp [BBAN.fromComponents, bbanSpec, h]

theorem no_positions (X : Ctx) (cc : Str) (vs : List (Component × Str)) (e : Country)
    (h : X.T.lookup cc = some e) (hp : e.positions = none) :
    BBAN.fromComponents X cc vs = .err .schwifty := by
  simp [BBAN.fromComponents, bbanSpec, h, hp]

/-- The combined bank+branch split happens only when the country has a branch field, no branch
    code was supplied and the (padded) bank code has exactly the combined width. -/
def splits (X : Ctx) (e : Country) (vs : List (Component × Str)) : Bool :=
  (e.range .branchCode).length > 0 && clean X.U (valuesGet vs .branchCode) == [] &&
    (zfill (clean X.U (valuesGet vs .bankCode)) (e.range .bankCode).length).length ==
      (e.range .bankCode).length + (e.range .branchCode).length

/-- A bank code longer than its field (and not of combined width) raises `InvalidBankCode`. -/
theorem too_long_bank (X : Ctx) (cc : Str) (vs : List (Component × Str)) (e : Country)
    (h : X.T.lookup cc = some e) (hp : e.positions.isSome = true) (hs : splits X e vs = false)
    (hl : (clean X.U (valuesGet vs .bankCode)).length > (e.range .bankCode).length) :
    BBAN.fromComponents X cc vs = .err .invalidBankCode := by
  unfold splits at hs
  have hz := zfill_length (clean X.U (valuesGet vs .bankCode)) (e.range .bankCode).length
  have hnone : e.positions.isNone = false := by cases hq : e.positions <;> simp [hq] at hp ⊢
  simp only [BBAN.fromComponents, bbanSpec, h, Res.ok_bind, hnone, Bool.false_eq_true, ↓reduceIte, hs]
  have : (zfill (clean X.U (valuesGet vs .bankCode)) (e.range .bankCode).length).length >
      (e.range .bankCode).length := by rw [hz]; omega
  simp [this]

/-- With the bank code fine, a branch code longer than its field raises `InvalidBranchCode`. -/
theorem too_long_branch (X : Ctx) (cc : Str) (vs : List (Component × Str)) (e : Country)
    (h : X.T.lookup cc = some e) (hp : e.positions.isSome = true) (hs : splits X e vs = false)
    (hb : (clean X.U (valuesGet vs .bankCode)).length ≤ (e.range .bankCode).length)
    (hl : (clean X.U (valuesGet vs .branchCode)).length > (e.range .branchCode).length) :
    BBAN.fromComponents X cc vs = .err .invalidBranchCode := by
  unfold splits at hs
  have hz := zfill_length (clean X.U (valuesGet vs .bankCode)) (e.range .bankCode).length
  have hz2 := zfill_length (clean X.U (valuesGet vs .branchCode)) (e.range .branchCode).length
  have hnone : e.positions.isNone = false := by cases hq : e.positions <;> simp [hq] at hp ⊢
  simp only [BBAN.fromComponents, bbanSpec, h, Res.ok_bind, hnone, Bool.false_eq_true, ↓reduceIte, hs]
  have h1 : ¬ ((zfill (clean X.U (valuesGet vs .bankCode)) (e.range .bankCode).length).length >
      (e.range .bankCode).length) := by rw [hz]; omega
  have h2 : (zfill (clean X.U (valuesGet vs .branchCode)) (e.range .branchCode).length).length >
      (e.range .branchCode).length := by rw [hz2]; omega
  simp [h1, h2]

/-- With bank and branch fine, an account code longer than its field raises
    `InvalidAccountCode`. -/
theorem too_long_account (X : Ctx) (cc : Str) (vs : List (Component × Str)) (e : Country)
    (h : X.T.lookup cc = some e) (hp : e.positions.isSome = true) (hs : splits X e vs = false)
    (hb : (clean X.U (valuesGet vs .bankCode)).length ≤ (e.range .bankCode).length)
    (hbr : (clean X.U (valuesGet vs .branchCode)).length ≤ (e.range .branchCode).length)
    (hl : (clean X.U (valuesGet vs .accountCode)).length > (e.range .accountCode).length) :
    BBAN.fromComponents X cc vs = .err .invalidAccountCode := by
  unfold splits at hs
  have hz := zfill_length (clean X.U (valuesGet vs .bankCode)) (e.range .bankCode).length
  have hz2 := zfill_length (clean X.U (valuesGet vs .branchCode)) (e.range .branchCode).length
  have hz3 := zfill_length (clean X.U (valuesGet vs .accountCode)) (e.range .accountCode).length
  have hnone : e.positions.isNone = false := by cases hq : e.positions <;> simp [hq] at hp ⊢
  simp only [BBAN.fromComponents, bbanSpec, h, Res.ok_bind, hnone, Bool.false_eq_true, ↓reduceIte, hs]
  have h1 : ¬ ((zfill (clean X.U (valuesGet vs .bankCode)) (e.range .bankCode).length).length >
      (e.range .bankCode).length) := by rw [hz]; omega
  have h2 : ¬ ((zfill (clean X.U (valuesGet vs .branchCode)) (e.range .branchCode).length).length >
      (e.range .branchCode).length) := by rw [hz2]; omega
  have h3 : (zfill (clean X.U (valuesGet vs .accountCode)) (e.range .accountCode).length).length >
      (e.range .accountCode).length := by rw [hz3]; omega
  simp [h1, h2, h3]

/-! Non-vacuity: the German entry of the live table publishes bank code at [0,8), account at [8,18). -/
example : (match Gen.table.lookup [68, 69] with
    | some e => (e.positions.getD []).lookup Component.accountCode == some ⟨8, 18⟩
    | none => false) = true := by decide +kernel

end SV.Props.C08
