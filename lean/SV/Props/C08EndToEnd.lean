/-
  C08 (continued) — `IBAN.generate` end to end.

  For every Unicode table and country table with `WF`, every algorithm table whose `:default`
  entries are national algorithm classes (decidable; discharged on the live table), every country
  string and **every three component strings** (any length, any code points):

  * `generate_total`   — `IBAN.generate` returns an IBAN or raises a library error, never a
                         foreign exception;
  * `generate_ok`      — a returned IBAN is `country code ++ two digits ++ BBAN`, is accepted by the
                         validating constructor (`isoValid`), and every supplied component — cleaned
                         and left-padded with zeros to its field width — sits at the country's
                         published position of that BBAN; a bank code of combined bank-plus-branch
                         width is found split across both fields (`split_bank_branch`);
  * supplied characters are never dropped, truncated or changed: `padding` (C08.lean) and the
    three `too_long_*` theorems cover what is not returned.
-/
import SV.Proofs.Generate
import SV.Props.C08
import SV.Props.C05
import SV.Props.C06
import SV.Gen.Ctx
namespace SV.Props.C08
open SV Spec

/-- Every `<country>:default` entry of the algorithm table is a national algorithm class. -/
def defaultsNat (A : AlgoTable) (cc : Str) : Prop :=
  ∀ a, A.get (defaultKey cc) = some a → ∃ n, a.ref = .nat n

/-- The keyword arguments `IBAN.generate` passes to `from_components`. -/
def genArgs (bank account branch : Str) : List (Component × Str) :=
  [(.bankCode, bank), (.branchCode, branch), (.accountCode, account)]

theorem computeNational_no_crash (X : Ctx) {cc : Str} (hA : defaultsNat X.A cc) (c : Comps) :
    (computeNationalChecksum X cc c).isCrash = false := by
  unfold computeNationalChecksum
  cases ha : X.A.get (cc ++ [colon] ++ strDefault) with
  | none => rfl
  | some a =>
    obtain ⟨n, hn⟩ := hA a ha
    simp only [hn, AlgoRef.compute]
    exact Res.translate_mild (NatAlgo.compute_mild X.U n _) _

theorem computeNational_compact (X : Ctx) (hU : X.U.WF) {cc : Str} (hA : defaultsNat X.A cc)
    (c : Comps) {cs : Str} (h : computeNationalChecksum X cc c = .ok cs) : Compact X.U cs := by
  unfold computeNationalChecksum at h
  cases ha : X.A.get (cc ++ [colon] ++ strDefault) with
  | none => rw [ha] at h; cases h; exact compact_nil
  | some a =>
    obtain ⟨n, hn⟩ := hA a ha
    simp only [ha, hn, AlgoRef.compute] at h
    cases hc : n.compute X.U (a.accepts.map c) with
    | ok d =>
      rw [hc] at h
      simp only [Res.translate, Res.ok.injEq] at h
      subst h
      exact compact_of_allAlnum hU (NatAlgo.compute_alnum X.U n _ hc)
    | err e => rw [hc] at h; simp [Res.translate] at h
    | crash k => rw [hc] at h; cases k <;> simp [Res.translate] at h

/-- `from_components` never lets a foreign exception escape. -/
theorem fromComponents_no_crash (X : Ctx) {cc : Str} (hA : defaultsNat X.A cc)
    (vs : List (Component × Str)) : (BBAN.fromComponents X cc vs).isCrash = false := by
  cases hl : X.T.lookup cc with
  | none => simp [BBAN.fromComponents, bbanSpec, hl]
  | some e =>
    by_cases hp : e.positions.isNone = true
    · unfold BBAN.fromComponents bbanSpec
      simp only [hl, Res.ok_bind, hp, ↓reduceIte]
      rfl
    · have hp' : e.positions.isNone = false := (Bool.not_eq_true _).mp hp
      rw [fromComponents_eq X hl hp' vs]
      split
      · rfl
      · split
        · rfl
        · split
          · rfl
          · have := computeNational_no_crash X hA (splitComps X e vs)
            cases hc : computeNationalChecksum X cc (splitComps X e vs) with
            | ok cs => rfl
            | err _ => rfl
            | crash k => rw [hc] at this; cases this

/-- **Totality of `IBAN.generate`**: an IBAN or a library error, never a foreign exception —
    for every country string and every three component strings. -/
theorem generate_total (X : Ctx) (hU : X.U.WF) (hT : X.T.WF) {cc : Str} (hA : defaultsNat X.A cc)
    (bank account branch : Str) : (IBAN.generate X cc bank account branch).isCrash = false := by
  unfold IBAN.generate
  have h1 := fromComponents_no_crash X hA (genArgs bank account branch)
  cases hb : BBAN.fromComponents X cc (genArgs bank account branch) with
  | crash k => rw [hb] at h1; cases h1
  | err _ => simp only [genArgs] at hb; rw [hb]; rfl
  | ok b =>
    simp only [genArgs] at hb
    rw [hb]
    simp only [Res.ok_bind, IBAN.fromBban]
    cases hd : isoDefaultCompute X.U [b, cc] with
    | crash k =>
      unfold isoDefaultCompute at hd
      rcases isoPre_no_crash X.U [b, cc] with ⟨v, hv⟩ | ⟨k', hk'⟩
      · rw [hv] at hd; cases hd
      · rw [hk'] at hd; cases hd
    | err _ => rfl
    | ok dd => exact C05.iban_new_no_crash X hU hT _ false

/-- What `splitComps` is when no combined-width split applies: the cleaned, zero-padded value. -/
theorem splitComps_plain (X : Ctx) (e : Country) (vs : List (Component × Str))
    (hs : splitsB X e vs = false) (k : Component) :
    splitComps X e vs k = zfill (clean X.U (valuesGet vs k)) (e.range k).length := by
  unfold splitComps; rw [hs]; rfl

/-- …and when it does (branch field published, no branch code supplied, bank code of combined
    width): bank field followed by branch field spell the cleaned bank code, unchanged. -/
theorem split_bank_branch (X : Ctx) (e : Country) (vs : List (Component × Str))
    (hs : splitsB X e vs = true) :
    splitComps X e vs .bankCode ++ splitComps X e vs .branchCode = clean X.U (valuesGet vs .bankCode) ∧
    (splitComps X e vs .bankCode).length = (e.range .bankCode).length ∧
    (splitComps X e vs .branchCode).length = (e.range .branchCode).length := by
  have hs' := hs
  simp only [splitsB, Bool.and_eq_true, beq_iff_eq, decide_eq_true_eq] at hs'
  obtain ⟨⟨hpos, _⟩, hl⟩ := hs'
  -- the padded bank code is longer than its field, so padding left it alone
  have hz : padComps X e vs .bankCode = clean X.U (valuesGet vs .bankCode) := by
    unfold padComps at hl ⊢
    rw [zfill_length] at hl
    unfold zfill
    rw [if_pos (by omega)]
  have h1 : splitComps X e vs .bankCode = (padComps X e vs .bankCode).take (e.range .bankCode).length := by
    unfold splitComps; rw [hs]; simp [Comps.set]
  have h2 : splitComps X e vs .branchCode =
      slice (padComps X e vs .bankCode) (e.range .bankCode).length
        ((e.range .bankCode).length + (e.range .branchCode).length) := by
    unfold splitComps; rw [hs]; simp [Comps.set]
  refine ⟨?_, ?_, ?_⟩
  · have ht : (padComps X e vs .bankCode).take ((e.range .bankCode).length + (e.range .branchCode).length)
        = padComps X e vs .bankCode := List.take_of_length_le (by omega)
    rw [h1, h2, ← hz]
    unfold slice
    rw [ht, List.take_append_drop]
  · rw [h1, List.length_take]; omega
  · rw [h2, slice_length (by omega)]; omega

/-- **`IBAN.from_bban` on a compact BBAN, success case**: the returned text is
    `cc ++ dd ++ b` with two check digits, it is accepted by the validating constructor, and `b` has
    the country's BBAN length. -/
theorem fromBban_ok (X : Ctx) (hU : X.U.WF) (hT : X.T.WF) {cc b i : Str} {e : Country}
    (hl : X.T.lookup cc = some e) (hbc : Compact X.U b)
    (h : IBAN.fromBban X cc b false false = .ok i) :
    b.length = e.bbanLength ∧ i.take 2 = cc ∧ i.drop 4 = b ∧ isoValid X.T i = true ∧
      IBAN.new X i false false = .ok i := by
  have ⟨heT, hcode⟩ := Table.lookup_mem hl
  have hW := hT e heT
  unfold IBAN.fromBban at h
  cases hd : isoDefaultCompute X.U [b, cc] with
  | err _ => rw [hd] at h; cases h
  | crash _ => rw [hd] at h; cases h
  | ok dd =>
    rw [hd] at h
    simp only [Res.ok_bind] at h
    have hddA : allAlnum dd = true := NatAlgo.compute_alnum X.U .isoDefault [b, cc] hd
    obtain ⟨a1, a2, hcd, ha1, ha2⟩ := hW.code
    rw [hcd] at hcode
    have hccA : allAlnum cc = true := by
      rw [← hcode]; simp [allAlnum, isAsciiAlnumUpper, ha1, ha2]
    have hcomp : Compact X.U (cc ++ dd ++ b) :=
      compact_append (compact_append (compact_of_allAlnum hU hccA) (compact_of_allAlnum hU hddA)) hbc
    have hclean : clean X.U (cc ++ dd ++ b) = cc ++ dd ++ b := clean_of_compact hcomp
    have hok : (IBAN.new X (cc ++ dd ++ b) false false).isOk = true := by rw [h]; rfl
    have hiso := (C01.accept_iff X hU hT _).mp hok
    rw [hclean] at hiso
    have hi : i = cc ++ dd ++ b := by
      unfold IBAN.new at h
      simp only [Bool.false_eq_true, ↓reduceIte, hclean] at h
      cases hv : IBAN.validate X (cc ++ dd ++ b) false with
      | ok _ => rw [hv] at h; simp only [Res.ok_bind, pure, Res.ok.injEq] at h; exact h.symm
      | err _ => rw [hv] at h; cases h
      | crash _ => rw [hv] at h; cases h
    have hddl : dd.length = 2 := by
      simp only [isoDefaultCompute, isoPre, bind, Res.bind] at hd
      cases hn : numerify X.U (joinStrs [b, cc]) with
      | ok n =>
        simp only [hn, pure, Res.ok.injEq] at hd
        obtain ⟨x, y, he, _⟩ := fmt02_digits (v := 98 - n * 100 % 97) (by omega)
        rw [← hd]; simp only [iso7064]; rw [he]; rfl
      | err _ => simp [hn] at hd
      | crash _ => simp [hn] at hd
    have hccl : cc.length = 2 := by rw [← hcode]; rfl
    have htake : (cc ++ dd ++ b).take 2 = cc := by
      rw [List.append_assoc, List.take_append_of_le_length (by omega), List.take_of_length_le (by omega)]
    have hdrop : (cc ++ dd ++ b).drop 4 = b := by
      have : (cc ++ dd).length = 4 := by rw [List.length_append]; omega
      rw [List.drop_append_of_le_length (by omega), List.drop_of_length_le (by omega), List.nil_append]
    have hblen : b.length = e.bbanLength := by
      unfold isoValid at hiso
      rw [htake, hl] at hiso
      simp only [Bool.and_eq_true, beq_iff_eq, decide_eq_true_eq] at hiso
      have := hiso.1.1.1.1.1.1
      simp only [List.length_append] at this
      omega
    refine ⟨hblen, ?_, ?_, ?_, ?_⟩
    · rw [hi]; exact htake
    · rw [hi]; exact hdrop
    · rw [hi]; exact hiso
    · rw [hi] at h ⊢
      unfold IBAN.new at h ⊢
      simp only [Bool.false_eq_true, ↓reduceIte, hclean] at h ⊢
      exact h

/-- **`IBAN.generate`, success case.**  The returned text is `cc ++ dd ++ b` with `dd` two ASCII
    digits and `b` the assembled BBAN of the country's length; it is accepted by the validating
    constructor; and each of bank, branch and account code — as `splitComps` describes them:
    cleaned and zero-padded, or the combined-width bank code cut in two — is found at the
    country's published position of `b`. -/
theorem generate_ok (X : Ctx) (hU : X.U.WF) (hT : X.T.WF) {cc : Str} (hA : defaultsNat X.A cc)
    {bank account branch i : Str} (h : IBAN.generate X cc bank account branch = .ok i) :
    ∃ e b, X.T.lookup cc = some e ∧ BBAN.fromComponents X cc (genArgs bank account branch) = .ok b ∧
      b.length = e.bbanLength ∧ i.take 2 = cc ∧ i.drop 4 = b ∧
      isoValid X.T i = true ∧ (IBAN.new X i false false) = .ok i ∧
      ∀ k r, publishedAt e k r → k ≠ .nationalChecksumDigits →
        slice b r.start r.stop = splitComps X e (genArgs bank account branch) k := by
  unfold IBAN.generate at h
  cases hb : BBAN.fromComponents X cc [(.bankCode, bank), (.branchCode, branch), (.accountCode, account)] with
  | err _ => rw [hb] at h; cases h
  | crash _ => rw [hb] at h; cases h
  | ok b =>
    rw [hb] at h
    simp only [Res.ok_bind] at h
    obtain ⟨e, cs, hl, hps, hb1, hb2, hb3, hcs, hbeq⟩ := fromComponents_ok X hb
    have hW := hT e (Table.lookup_mem hl).1
    have hbc : Compact X.U b := by rw [hbeq]; exact compact_clean hU _
    obtain ⟨hblen, htake, hdrop, hiso, hnew⟩ := fromBban_ok X hU hT hl hbc h
    have hcsC := computeNational_compact X hU hA _ hcs
    -- no component is longer than its field
    have hfit : ∀ k r, publishedAt e k r → k ≠ .nationalChecksumDigits →
        (splitComps X e (genArgs bank account branch) k).length ≤ r.stop - r.start := by
      intro k r hp hk
      have hr := range_of_published hp
      have hwid : (e.range k).length = r.stop - r.start := by rw [hr]; rfl
      rw [← hwid]
      have hsp : ∀ k, k ≠ Component.bankCode → k ≠ Component.branchCode →
          splitComps X e (genArgs bank account branch) k = padComps X e (genArgs bank account branch) k := by
        intro k h1 h2
        unfold splitComps
        split
        · show (if k = Component.bankCode then _ else if k = Component.branchCode then _ else _) = _
          rw [if_neg h1, if_neg h2]
        · rfl
      have hv0 : valuesGet (genArgs bank account branch) .accountId = [] := rfl
      have hv1 : valuesGet (genArgs bank account branch) .accountType = [] := rfl
      have hv2 : valuesGet (genArgs bank account branch) .accountHolderId = [] := rfl
      have hv3 : valuesGet (genArgs bank account branch) .currencyCode = [] := rfl
      cases k with
      | bankCode => exact hb1
      | branchCode => exact hb2
      | accountCode => exact hb3
      | nationalChecksumDigits => exact absurd rfl hk
      | accountId => rw [hsp _ (by decide) (by decide)]; simp [padComps, hv0, clean_nil, zfill_length]
      | accountType => rw [hsp _ (by decide) (by decide)]; simp [padComps, hv1, clean_nil, zfill_length]
      | accountHolderId => rw [hsp _ (by decide) (by decide)]; simp [padComps, hv2, clean_nil, zfill_length]
      | currencyCode => rw [hsp _ (by decide) (by decide)]; simp [padComps, hv3, clean_nil, zfill_length]
    have hpl := fromComponents_placement X hU hW (genArgs bank account branch) hcsC hfit hbeq hblen
    exact ⟨e, b, hl, hb, hblen, htake, hdrop, hiso, hnew, hpl.1⟩

/-! ### Instance: the live tables -/

/-- A key of the form `…:default`. -/
def keyIsDefault (k : Str) : Bool := (colon :: strDefault).reverse.isPrefixOf k.reverse

/-- Decidable form of `defaultsNat` for every country string at once. -/
def defaultsNatB (A : AlgoTable) : Bool :=
  A.all (fun a => !keyIsDefault a.key || (match a.ref with | .nat _ => true | _ => false))

theorem defaultsNat_of_B {A : AlgoTable} (h : defaultsNatB A = true) (cc : Str) : defaultsNat A cc := by
  intro a ha
  unfold AlgoTable.get at ha
  have hm := List.mem_of_find?_eq_some ha
  have hk := List.find?_some ha
  simp only [beq_iff_eq] at hk
  simp only [defaultsNatB, List.all_eq_true, Bool.or_eq_true, Bool.not_eq_true'] at h
  rcases h a hm with h1 | h1
  · exfalso
    rw [hk] at h1
    have : keyIsDefault (defaultKey cc) = true := by
      unfold keyIsDefault defaultKey
      have e : (cc ++ [colon] ++ strDefault).reverse = (colon :: strDefault).reverse ++ cc.reverse := by
        simp [List.reverse_append]
      rw [e]
      exact List.isPrefixOf_iff_prefix.mpr (List.prefix_append _ _)
    rw [this] at h1; cases h1
  · cases hr : a.ref with
    | nat n => exact ⟨n, rfl⟩
    | de p => rw [hr] at h1; cases h1
    | unknown => rw [hr] at h1; cases h1

theorem live_defaults_nat : defaultsNatB Gen.algoTable = true := by decide +kernel

/-- On the live tables `IBAN.generate` never lets a foreign exception escape — every registry,
    every country string, every component strings. -/
theorem live_generate_total (R : Registry) (cc bank account branch : Str) :
    (IBAN.generate (Gen.ctx R) cc bank account branch).isCrash = false :=
  generate_total (Gen.ctx R) C10.unicode_wf C01.table_wf (defaultsNat_of_B live_defaults_nat cc) _ _ _

/-- On the live tables a generated IBAN is valid and carries the supplied components at the
    published positions. -/
theorem live_generate_ok (R : Registry) {cc bank account branch i : Str}
    (h : IBAN.generate (Gen.ctx R) cc bank account branch = .ok i) :
    ∃ e b, Gen.table.lookup cc = some e ∧
      BBAN.fromComponents (Gen.ctx R) cc (genArgs bank account branch) = .ok b ∧
      b.length = e.bbanLength ∧ i.take 2 = cc ∧ i.drop 4 = b ∧
      isoValid Gen.table i = true ∧ (IBAN.new (Gen.ctx R) i false false) = .ok i ∧
      ∀ k r, publishedAt e k r → k ≠ .nationalChecksumDigits →
        slice b r.start r.stop = splitComps (Gen.ctx R) e (genArgs bank account branch) k :=
  generate_ok (Gen.ctx R) C10.unicode_wf C01.table_wf (defaultsNat_of_B live_defaults_nat cc) h

/-! Non-vacuity: a concrete generation on the live tables (`IBAN.generate('DE', '37040044',
    '532013000')` = DE89370400440532013000), and a combined-width bank code for GB. -/
example : IBAN.generate (Gen.ctx []) (C06.bytes "DE") (C06.bytes "37040044") (C06.bytes "532013000") [] =
    .ok (C06.bytes "DE89370400440532013000") := by decide +kernel
example : IBAN.generate (Gen.ctx []) (C06.bytes "GB") (C06.bytes "NWBK601613") (C06.bytes "31926819") [] =
    .ok (C06.bytes "GB29NWBK60161331926819") := by decide +kernel
example : (match Gen.table.lookup (C06.bytes "GB") with
    | some e => splitsB (Gen.ctx []) e (genArgs (C06.bytes "NWBK601613") (C06.bytes "31926819") [])
    | none => false) = true := by decide +kernel

end SV.Props.C08
