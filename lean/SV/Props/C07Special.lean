/-
  The Bundesbank methods with special cases (ranges of account numbers, exceptions depending on
  further digits, modified sums).  Same statement as in `C07Plain`: for all ten digits the engine
  with the regenerated class parameters returns a verdict and accepts exactly when the published
  rule (SV.Spec.Germany / DESIGN.md Appendix A) does.
-/
import SV.Proofs.GermanyTactics
namespace SV.Props.C07
open SV Spec

/-- Method 09: no check. -/
theorem de09 (U : Unicode) (a : Str) (sc : Scratch) :
    (Gen.de_DE_09.validateM U [a] sc).2 = .ok true := by
  simp [Gen.de_DE_09, DEParams.validateM, validateHook0, DEM.pure', pure]

set_option maxHeartbeats 2000000 in
/-- Method 16: like 06 over positions 1–9; remainder 1 with `d9 = d10` is also valid. -/
theorem de16 (U : Unicode) (hU : U.WF) (d1 d2 d3 d4 d5 d6 d7 d8 d9 d10 : Nat)
    (h1 : d1 < 10) (h2 : d2 < 10) (h3 : d3 < 10) (h4 : d4 < 10) (h5 : d5 < 10) (h6 : d6 < 10)
    (h7 : d7 < 10) (h8 : d8 < 10) (h9 : d9 < 10) (h10 : d10 < 10) (sc : Scratch) :
    deVerdict (Gen.de_DE_16.validateM U [acct d1 d2 d3 d4 d5 d6 d7 d8 d9 d10] sc).2 = true ∧
    deAccepts (Gen.de_DE_16.validateM U [acct d1 d2 d3 d4 d5 d6 d7 d8 d9 d10] sc).2 =
      rule16 (dot [2, 3, 4, 5, 6, 7, 2, 3, 4] [d9, d8, d7, d6, d5, d4, d3, d2, d1]) d9 d10 := by
  have hw : cycleWeights Gen.de_DE_16.weights 9 = [2, 3, 4, 5, 6, 7, 2, 3, 4] := by decide
  de_simp [Gen.de_DE_16, intChar_ascii hU, h1, h2, h3, h4, h5, h6, h7, h8, h9, h10] at hw ⊢
  de_simp [Gen.de_DE_16, hw, intChar_ascii hU, h1, h2, h3, h4, h5, h6, h7, h8, h9, h10]
  clear hw
  generalize d9 * 2 + (d8 * 3 + (d7 * 4 + (d6 * 5 + (d5 * 6 + (d4 * 7 + (d3 * 2 + (d2 * 3 + (d1 * 4)))))))) = S
  simp only [rule16]
  de_close2 11 rule06 S d10 h10 d9 h9

set_option maxHeartbeats 2000000 in
/-- Method 23: like 16 over positions 1–6, check digit at 7, exception compares `d6` and `d7`. -/
theorem de23 (U : Unicode) (hU : U.WF) (d1 d2 d3 d4 d5 d6 d7 d8 d9 d10 : Nat)
    (h1 : d1 < 10) (h2 : d2 < 10) (h3 : d3 < 10) (h4 : d4 < 10) (h5 : d5 < 10) (h6 : d6 < 10)
    (h7 : d7 < 10) (h8 : d8 < 10) (h9 : d9 < 10) (h10 : d10 < 10) (sc : Scratch) :
    deVerdict (Gen.de_DE_23.validateM U [acct d1 d2 d3 d4 d5 d6 d7 d8 d9 d10] sc).2 = true ∧
    deAccepts (Gen.de_DE_23.validateM U [acct d1 d2 d3 d4 d5 d6 d7 d8 d9 d10] sc).2 =
      rule16 (dot [2, 3, 4, 5, 6, 7] [d6, d5, d4, d3, d2, d1]) d6 d7 := by
  have hw : cycleWeights Gen.de_DE_23.weights 6 = [2, 3, 4, 5, 6, 7] := by decide
  de_simp [Gen.de_DE_23, intChar_ascii hU, h1, h2, h3, h4, h5, h6, h7, h8, h9, h10] at hw ⊢
  de_simp [Gen.de_DE_23, hw, intChar_ascii hU, h1, h2, h3, h4, h5, h6, h7, h8, h9, h10]
  clear hw
  generalize d6 * 2 + (d5 * 3 + (d4 * 4 + (d3 * 5 + (d2 * 6 + (d1 * 7))))) = S
  simp only [rule16]
  de_close2 11 rule06 S d7 h7 d6 h6

set_option maxHeartbeats 2000000 in
/-- Method 25: positions 2–9, weights 2…9; remainder 1 needs check digit 0 and `d2 ∈ {8, 9}`. -/
theorem de25 (U : Unicode) (hU : U.WF) (d1 d2 d3 d4 d5 d6 d7 d8 d9 d10 : Nat)
    (h1 : d1 < 10) (h2 : d2 < 10) (h3 : d3 < 10) (h4 : d4 < 10) (h5 : d5 < 10) (h6 : d6 < 10)
    (h7 : d7 < 10) (h8 : d8 < 10) (h9 : d9 < 10) (h10 : d10 < 10) (sc : Scratch) :
    deVerdict (Gen.de_DE_25.validateM U [acct d1 d2 d3 d4 d5 d6 d7 d8 d9 d10] sc).2 = true ∧
    deAccepts (Gen.de_DE_25.validateM U [acct d1 d2 d3 d4 d5 d6 d7 d8 d9 d10] sc).2 =
      rule25 (dot [2, 3, 4, 5, 6, 7, 8, 9] [d9, d8, d7, d6, d5, d4, d3, d2]) d2 d10 := by
  have hw : cycleWeights Gen.de_DE_25.weights 8 = [2, 3, 4, 5, 6, 7, 8, 9] := by decide
  de_simp [Gen.de_DE_25, intChar_ascii hU, h1, h2, h3, h4, h5, h6, h7, h8, h9, h10] at hw ⊢
  de_simp [Gen.de_DE_25, hw, intChar_ascii hU, h1, h2, h3, h4, h5, h6, h7, h8, h9, h10]
  clear hw
  generalize d9 * 2 + (d8 * 3 + (d7 * 4 + (d6 * 5 + (d5 * 6 + (d4 * 7 + (d3 * 8 + (d2 * 9))))))) = S
  de_close2 11 rule25 S d10 h10 d2 h2

set_option maxHeartbeats 4000000 in
/-- Method 08: like 00, but only from account number 60 000; smaller numbers are not checked. -/
theorem de08 (U : Unicode) (hU : U.WF) (d1 d2 d3 d4 d5 d6 d7 d8 d9 d10 : Nat)
    (h1 : d1 < 10) (h2 : d2 < 10) (h3 : d3 < 10) (h4 : d4 < 10) (h5 : d5 < 10) (h6 : d6 < 10)
    (h7 : d7 < 10) (h8 : d8 < 10) (h9 : d9 < 10) (h10 : d10 < 10) (sc : Scratch) :
    deVerdict (Gen.de_DE_08.validateM U [acct d1 d2 d3 d4 d5 d6 d7 d8 d9 d10] sc).2 = true ∧
    deAccepts (Gen.de_DE_08.validateM U [acct d1 d2 d3 d4 d5 d6 d7 d8 d9 d10] sc).2 =
      (decide (num [d1, d2, d3, d4, d5, d6, d7, d8, d9, d10] 0 < 60000) ||
       rule10 (dotQ [2, 1, 2, 1, 2, 1, 2, 1, 2] [d9, d8, d7, d6, d5, d4, d3, d2, d1]) d10) := by
  have hw : cycleWeights Gen.de_DE_08.weights 9 = [2, 1, 2, 1, 2, 1, 2, 1, 2] := by decide
  simp only [Gen.de_DE_08] at hw
  by_cases hn : ((((((((d1 * 10 + d2) * 10 + d3) * 10 + d4) * 10 + d5) * 10 + d6) * 10 + d7) * 10 + d8) * 10 + d9) * 10 + d10 < 60000
  · de_simp [Gen.de_DE_08, pyIntStr, num, hw, hn, deVerdict, deAccepts, intChar_ascii hU, h1, h2, h3, h4, h5, h6, h7, h8, h9, h10]
  · de_simp [Gen.de_DE_08, pyIntStr, num, hw, hn, intChar_ascii hU, h1, h2, h3, h4, h5, h6, h7, h8, h9, h10]
    clear hw hn
    generalize digitSum (d9 * 2) + (digitSum d8 + (digitSum (d7 * 2) + (digitSum d6 + (digitSum (d5 * 2) + (digitSum d4 + (digitSum (d3 * 2) + (digitSum d2 + digitSum (d1 * 2)))))))) = S
    de_close 10 rule10 S d10 h10

set_option maxHeartbeats 4000000 in
/-- Method 99: like 06; account numbers 0396000000 … 0499999999 are not checked (valid). -/
theorem de99 (U : Unicode) (hU : U.WF) (d1 d2 d3 d4 d5 d6 d7 d8 d9 d10 : Nat)
    (h1 : d1 < 10) (h2 : d2 < 10) (h3 : d3 < 10) (h4 : d4 < 10) (h5 : d5 < 10) (h6 : d6 < 10)
    (h7 : d7 < 10) (h8 : d8 < 10) (h9 : d9 < 10) (h10 : d10 < 10) (sc : Scratch) :
    deVerdict (Gen.de_DE_99.validateM U [acct d1 d2 d3 d4 d5 d6 d7 d8 d9 d10] sc).2 = true ∧
    deAccepts (Gen.de_DE_99.validateM U [acct d1 d2 d3 d4 d5 d6 d7 d8 d9 d10] sc).2 =
      (decide (396000000 ≤ num [d1, d2, d3, d4, d5, d6, d7, d8, d9, d10] 0 ∧
               num [d1, d2, d3, d4, d5, d6, d7, d8, d9, d10] 0 ≤ 499999999) ||
       rule06 (dot [2, 3, 4, 5, 6, 7, 2, 3, 4] [d9, d8, d7, d6, d5, d4, d3, d2, d1]) d10) := by
  have hw : cycleWeights Gen.de_DE_99.weights 9 = [2, 3, 4, 5, 6, 7, 2, 3, 4] := by decide
  simp only [Gen.de_DE_99] at hw
  by_cases hn : 396000000 ≤ ((((((((d1 * 10 + d2) * 10 + d3) * 10 + d4) * 10 + d5) * 10 + d6) * 10 + d7) * 10 + d8) * 10 + d9) * 10 + d10 ∧ ((((((((d1 * 10 + d2) * 10 + d3) * 10 + d4) * 10 + d5) * 10 + d6) * 10 + d7) * 10 + d8) * 10 + d9) * 10 + d10 ≤ 499999999
  · de_simp [Gen.de_DE_99, pyIntStr, num, hw, hn.1, hn.2, deVerdict, deAccepts, intChar_ascii hU, h1, h2, h3, h4, h5, h6, h7, h8, h9, h10]
  · have hn' : ¬ (396000000 ≤ ((((((((d1 * 10 + d2) * 10 + d3) * 10 + d4) * 10 + d5) * 10 + d6) * 10 + d7) * 10 + d8) * 10 + d9) * 10 + d10) ∨ ¬ (((((((((d1 * 10 + d2) * 10 + d3) * 10 + d4) * 10 + d5) * 10 + d6) * 10 + d7) * 10 + d8) * 10 + d9) * 10 + d10 ≤ 499999999) := by omega
    rcases hn' with hn' | hn' <;>
    · de_simp [Gen.de_DE_99, pyIntStr, num, hw, hn', intChar_ascii hU, h1, h2, h3, h4, h5, h6, h7, h8, h9, h10]
      clear hw hn hn'
      generalize d9 * 2 + (d8 * 3 + (d7 * 4 + (d6 * 5 + (d5 * 6 + (d4 * 7 + (d3 * 2 + (d2 * 3 + d1 * 4))))))) = S
      de_close 11 rule06 S d10 h10

set_option maxHeartbeats 4000000 in
/-- Method 63: `d1` must be 0; like 00 over positions 2–7, check digit at 8. -/
theorem de63 (U : Unicode) (hU : U.WF) (d1 d2 d3 d4 d5 d6 d7 d8 d9 d10 : Nat)
    (h1 : d1 < 10) (h2 : d2 < 10) (h3 : d3 < 10) (h4 : d4 < 10) (h5 : d5 < 10) (h6 : d6 < 10)
    (h7 : d7 < 10) (h8 : d8 < 10) (h9 : d9 < 10) (h10 : d10 < 10) (sc : Scratch) :
    deVerdict (Gen.de_DE_63.validateM U [acct d1 d2 d3 d4 d5 d6 d7 d8 d9 d10] sc).2 = true ∧
    deAccepts (Gen.de_DE_63.validateM U [acct d1 d2 d3 d4 d5 d6 d7 d8 d9 d10] sc).2 =
      (decide (d1 = 0) && rule10 (dotQ [2, 1, 2, 1, 2, 1] [d7, d6, d5, d4, d3, d2]) d8) := by
  have hw : cycleWeights Gen.de_DE_63.weights 6 = [2, 1, 2, 1, 2, 1] := by decide
  simp only [Gen.de_DE_63] at hw
  by_cases hz : d1 = 0
  · subst hz
    de_simp [Gen.de_DE_63, hw, intChar_ascii hU, h1, h2, h3, h4, h5, h6, h7, h8, h9, h10]
    clear hw
    generalize digitSum (d7 * 2) + (digitSum d6 + (digitSum (d5 * 2) + (digitSum d4 + (digitSum (d3 * 2) + digitSum d2)))) = S
    de_close 10 rule10 S d8 h8
  · have : ¬ (48 + d1 = 48) := by omega
    de_simp [Gen.de_DE_63, hw, hz, this, deVerdict, deAccepts, intChar_ascii hU, h1, h2, h3, h4, h5, h6, h7, h8, h9, h10]

set_option maxHeartbeats 4000000 in
/-- Method 17: positions 2–7 left to right with weights 1, 2, …, cross sums; `r = (s − 1) mod 11`. -/
theorem de17 (U : Unicode) (hU : U.WF) (d1 d2 d3 d4 d5 d6 d7 d8 d9 d10 : Nat)
    (h1 : d1 < 10) (h2 : d2 < 10) (h3 : d3 < 10) (h4 : d4 < 10) (h5 : d5 < 10) (h6 : d6 < 10)
    (h7 : d7 < 10) (h8 : d8 < 10) (h9 : d9 < 10) (h10 : d10 < 10) (sc : Scratch) :
    deVerdict (Gen.de_DE_17.validateM U [acct d1 d2 d3 d4 d5 d6 d7 d8 d9 d10] sc).2 = true ∧
    deAccepts (Gen.de_DE_17.validateM U [acct d1 d2 d3 d4 d5 d6 d7 d8 d9 d10] sc).2 =
      rule17 (dotQ [1, 2, 1, 2, 1, 2] [d2, d3, d4, d5, d6, d7]) d8 := by
  have hw : cycleWeights Gen.de_DE_17.weights 6 = [1, 2, 1, 2, 1, 2] := by decide
  simp only [Gen.de_DE_17] at hw
  de_simp [Gen.de_DE_17, hw, intChar_ascii hU, h1, h2, h3, h4, h5, h6, h7, h8, h9, h10]
  clear hw
  generalize digitSum d2 + (digitSum (d3 * 2) + (digitSum d4 + (digitSum (d5 * 2) + (digitSum d6 + digitSum (d7 * 2))))) = S
  have e : ((S : Int) - 1) % 11 = (((S % 11 : Nat) : Int) - 1) % 11 := by omega
  simp only [natToInt, rule17, e]
  have hr : S % 11 < 11 := Nat.mod_lt _ (by decide)
  generalize S % 11 = r at hr ⊢
  clear e
  revert hr; revert r; revert h8; revert d8
  decide +kernel

theorem digitSum_le9 : ∀ n, n < 19 → digitSum n ≤ 9 := by decide +kernel

set_option maxHeartbeats 4000000 in
/-- Method 21: like 00, but the sum is reduced to one digit by repeated cross sums. -/
theorem de21 (U : Unicode) (hU : U.WF) (d1 d2 d3 d4 d5 d6 d7 d8 d9 d10 : Nat)
    (h1 : d1 < 10) (h2 : d2 < 10) (h3 : d3 < 10) (h4 : d4 < 10) (h5 : d5 < 10) (h6 : d6 < 10)
    (h7 : d7 < 10) (h8 : d8 < 10) (h9 : d9 < 10) (h10 : d10 < 10) (sc : Scratch) :
    deVerdict (Gen.de_DE_21.validateM U [acct d1 d2 d3 d4 d5 d6 d7 d8 d9 d10] sc).2 = true ∧
    deAccepts (Gen.de_DE_21.validateM U [acct d1 d2 d3 d4 d5 d6 d7 d8 d9 d10] sc).2 =
      rule21 (dotQ [2, 1, 2, 1, 2, 1, 2, 1, 2] [d9, d8, d7, d6, d5, d4, d3, d2, d1]) d10 := by
  have hw : cycleWeights Gen.de_DE_21.weights 9 = [2, 1, 2, 1, 2, 1, 2, 1, 2] := by decide
  simp only [Gen.de_DE_21] at hw
  de_simp [Gen.de_DE_21, hw, intChar_ascii hU, h1, h2, h3, h4, h5, h6, h7, h8, h9, h10]
  clear hw
  have hb : digitSum (d9 * 2) + (digitSum d8 + (digitSum (d7 * 2) + (digitSum d6 + (digitSum (d5 * 2) + (digitSum d4 + (digitSum (d3 * 2) + (digitSum d2 + digitSum (d1 * 2)))))))) < 82 := by
    have := digitSum_le9 (d9 * 2) (by omega); have := digitSum_le9 d8 (by omega)
    have := digitSum_le9 (d7 * 2) (by omega); have := digitSum_le9 d6 (by omega)
    have := digitSum_le9 (d5 * 2) (by omega); have := digitSum_le9 d4 (by omega)
    have := digitSum_le9 (d3 * 2) (by omega); have := digitSum_le9 d2 (by omega)
    have := digitSum_le9 (d1 * 2) (by omega)
    omega
  generalize digitSum (d9 * 2) + (digitSum d8 + (digitSum (d7 * 2) + (digitSum d6 + (digitSum (d5 * 2) + (digitSum d4 + (digitSum (d3 * 2) + (digitSum d2 + digitSum (d1 * 2)))))))) = S at hb ⊢
  simp only [natToInt, rule21]
  revert hb; revert S; revert h10; revert d10
  decide +kernel

set_option maxHeartbeats 4000000 in
/-- Method 88: like 06 over positions 4–9 (weights 2…7); if `d3 = 9` over positions 3–9 (2…8). -/
theorem de88 (U : Unicode) (hU : U.WF) (d1 d2 d3 d4 d5 d6 d7 d8 d9 d10 : Nat)
    (h1 : d1 < 10) (h2 : d2 < 10) (h3 : d3 < 10) (h4 : d4 < 10) (h5 : d5 < 10) (h6 : d6 < 10)
    (h7 : d7 < 10) (h8 : d8 < 10) (h9 : d9 < 10) (h10 : d10 < 10) (sc : Scratch) :
    deVerdict (Gen.de_DE_88.validateM U [acct d1 d2 d3 d4 d5 d6 d7 d8 d9 d10] sc).2 = true ∧
    deAccepts (Gen.de_DE_88.validateM U [acct d1 d2 d3 d4 d5 d6 d7 d8 d9 d10] sc).2 =
      (if d3 = 9 then rule06 (dot [2, 3, 4, 5, 6, 7, 8] [d9, d8, d7, d6, d5, d4, d3]) d10
       else rule06 (dot [2, 3, 4, 5, 6, 7] [d9, d8, d7, d6, d5, d4]) d10) := by
  have hw7 : cycleWeights Gen.de_DE_88.weights 7 = [2, 3, 4, 5, 6, 7, 8] := by decide
  have hw6 : cycleWeights Gen.de_DE_88.weights 6 = [2, 3, 4, 5, 6, 7] := by decide
  simp only [Gen.de_DE_88] at hw7 hw6
  by_cases h : d3 = 9
  · subst h
    have i9 : U.intChar 57 = .ok 9 := intChar_ascii hU (by decide : 9 < 10)
    de_simp [Gen.de_DE_88, hw7, i9, intChar_ascii hU, h1, h2, h3, h4, h5, h6, h7, h8, h9, h10]
    clear hw7 hw6
    generalize d9 * 2 + (d8 * 3 + (d7 * 4 + (d6 * 5 + (d5 * 6 + (d4 * 7 + 72))))) = S
    de_close 11 rule06 S d10 h10
  · have hc : ¬ (48 + d3 = 57) := by omega
    de_simp [Gen.de_DE_88, hw6, h, hc, intChar_ascii hU, h1, h2, h3, h4, h5, h6, h7, h8, h9, h10]
    clear hw7 hw6
    generalize d9 * 2 + (d8 * 3 + (d7 * 4 + (d6 * 5 + (d5 * 6 + d4 * 7)))) = S
    de_close 11 rule06 S d10 h10

set_option maxHeartbeats 4000000 in
/-- Method 61: like 00 over positions 1–7 (check digit at 8); if `d9 = 8`, positions 9 and 10
    are included. -/
theorem de61 (U : Unicode) (hU : U.WF) (d1 d2 d3 d4 d5 d6 d7 d8 d9 d10 : Nat)
    (h1 : d1 < 10) (h2 : d2 < 10) (h3 : d3 < 10) (h4 : d4 < 10) (h5 : d5 < 10) (h6 : d6 < 10)
    (h7 : d7 < 10) (h8 : d8 < 10) (h9 : d9 < 10) (h10 : d10 < 10) (sc : Scratch) :
    deVerdict (Gen.de_DE_61.validateM U [acct d1 d2 d3 d4 d5 d6 d7 d8 d9 d10] sc).2 = true ∧
    deAccepts (Gen.de_DE_61.validateM U [acct d1 d2 d3 d4 d5 d6 d7 d8 d9 d10] sc).2 =
      (if d9 = 8 then rule10 (dotQ [2, 1, 2, 1, 2, 1, 2, 1, 2] [d10, d9, d7, d6, d5, d4, d3, d2, d1]) d8
       else rule10 (dotQ [2, 1, 2, 1, 2, 1, 2] [d7, d6, d5, d4, d3, d2, d1]) d8) := by
  have hw9 : cycleWeights Gen.de_DE_61.weights 9 = [2, 1, 2, 1, 2, 1, 2, 1, 2] := by decide
  have hw7 : cycleWeights Gen.de_DE_61.weights 7 = [2, 1, 2, 1, 2, 1, 2] := by decide
  simp only [Gen.de_DE_61] at hw9 hw7
  by_cases h : d9 = 8
  · subst h
    have i8 : U.intChar 56 = .ok 8 := intChar_ascii hU (by decide : 8 < 10)
    de_simp [Gen.de_DE_61, hw9, i8, intChar_ascii hU, h1, h2, h3, h4, h5, h6, h7, h8, h9, h10]
    clear hw9 hw7
    generalize digitSum (d10 * 2) + (digitSum 8 + (digitSum (d7 * 2) + (digitSum d6 + (digitSum (d5 * 2) + (digitSum d4 + (digitSum (d3 * 2) + (digitSum d2 + digitSum (d1 * 2)))))))) = S
    de_close 10 rule10 S d8 h8
  · have hc : ¬ (48 + d9 = 56) := by omega
    de_simp [Gen.de_DE_61, hw7, h, hc, intChar_ascii hU, h1, h2, h3, h4, h5, h6, h7, h8, h9, h10]
    clear hw9 hw7
    generalize digitSum (d7 * 2) + (digitSum d6 + (digitSum (d5 * 2) + (digitSum d4 + (digitSum (d3 * 2) + (digitSum d2 + digitSum (d1 * 2)))))) = S
    de_close 10 rule10 S d8 h8

set_option maxHeartbeats 4000000 in
/-- Method 26: like 06 over positions 1–7 (weights 2…7, 2), check digit at 8; numbers starting
    with `00` are shifted left by two places first. -/
theorem de26 (U : Unicode) (hU : U.WF) (d1 d2 d3 d4 d5 d6 d7 d8 d9 d10 : Nat)
    (h1 : d1 < 10) (h2 : d2 < 10) (h3 : d3 < 10) (h4 : d4 < 10) (h5 : d5 < 10) (h6 : d6 < 10)
    (h7 : d7 < 10) (h8 : d8 < 10) (h9 : d9 < 10) (h10 : d10 < 10) (sc : Scratch) :
    deVerdict (Gen.de_DE_26.validateM U [acct d1 d2 d3 d4 d5 d6 d7 d8 d9 d10] sc).2 = true ∧
    deAccepts (Gen.de_DE_26.validateM U [acct d1 d2 d3 d4 d5 d6 d7 d8 d9 d10] sc).2 =
      (if d1 = 0 ∧ d2 = 0 then rule06 (dot [2, 3, 4, 5, 6, 7, 2] [d9, d8, d7, d6, d5, d4, d3]) d10
       else rule06 (dot [2, 3, 4, 5, 6, 7, 2] [d7, d6, d5, d4, d3, d2, d1]) d8) := by
  have hw : cycleWeights Gen.de_DE_26.weights 7 = [2, 3, 4, 5, 6, 7, 2] := by decide
  simp only [Gen.de_DE_26] at hw
  have i0 : U.intChar 48 = .ok 0 := intChar_ascii hU (by decide : 0 < 10)
  by_cases hz1 : d1 = 0
  · by_cases hz2 : d2 = 0
    · subst hz1 hz2
      de_simp [Gen.de_DE_26, startsWith, hw, i0, intChar_ascii hU, h1, h2, h3, h4, h5, h6, h7, h8, h9, h10]
      clear hw
      generalize d9 * 2 + (d8 * 3 + (d7 * 4 + (d6 * 5 + (d5 * 6 + (d4 * 7 + d3 * 2))))) = S
      de_close 11 rule06 S d10 h10
    · subst hz1
      have hc : ¬ (48 + d2 = 48) := by omega
      have hc' : ¬ (48 = 48 + d2) := by omega
      de_simp [Gen.de_DE_26, startsWith, hw, i0, hz2, hc, hc', intChar_ascii hU, h1, h2, h3, h4, h5, h6, h7, h8, h9, h10]
      clear hw
      generalize d7 * 2 + (d6 * 3 + (d5 * 4 + (d4 * 5 + (d3 * 6 + d2 * 7)))) = S
      de_close 11 rule06 S d8 h8
  · have hc : ¬ (48 + d1 = 48) := by omega
    have hc' : ¬ (48 = 48 + d1) := by omega
    de_simp [Gen.de_DE_26, startsWith, hw, hz1, hc, hc', intChar_ascii hU, h1, h2, h3, h4, h5, h6, h7, h8, h9, h10]
    clear hw
    generalize d7 * 2 + (d6 * 3 + (d5 * 4 + (d4 * 5 + (d3 * 6 + (d2 * 7 + d1 * 2))))) = S
    de_close 11 rule06 S d8 h8

set_option maxHeartbeats 8000000 in
/-- Method 76: `d1 ∈ {0, 4, 6, 7, 8, 9}`; positions 2–7 right to left with weights 2…7; the
    remainder modulo 11 is the check digit (position 8); remainder 10 cannot be used. -/
theorem de76 (U : Unicode) (hU : U.WF) (d1 d2 d3 d4 d5 d6 d7 d8 d9 d10 : Nat)
    (h1 : d1 < 10) (h2 : d2 < 10) (h3 : d3 < 10) (h4 : d4 < 10) (h5 : d5 < 10) (h6 : d6 < 10)
    (h7 : d7 < 10) (h8 : d8 < 10) (h9 : d9 < 10) (h10 : d10 < 10) (sc : Scratch) :
    deVerdict (Gen.de_DE_76.validateM U [acct d1 d2 d3 d4 d5 d6 d7 d8 d9 d10] sc).2 = true ∧
    deAccepts (Gen.de_DE_76.validateM U [acct d1 d2 d3 d4 d5 d6 d7 d8 d9 d10] sc).2 =
      (decide (d1 = 0 ∨ d1 = 4 ∨ d1 = 6 ∨ d1 = 7 ∨ d1 = 8 ∨ d1 = 9) &&
       rule76 (dot [2, 3, 4, 5, 6, 7] [d7, d6, d5, d4, d3, d2]) d8) := by
  have hw1 : cycleWeights Gen.de_DE_76.weights 1 = [2] := by decide
  have hw2 : cycleWeights Gen.de_DE_76.weights 2 = [2, 3] := by decide
  have hw3 : cycleWeights Gen.de_DE_76.weights 3 = [2, 3, 4] := by decide
  have hw4 : cycleWeights Gen.de_DE_76.weights 4 = [2, 3, 4, 5] := by decide
  have hw5 : cycleWeights Gen.de_DE_76.weights 5 = [2, 3, 4, 5, 6] := by decide
  have hw6 : cycleWeights Gen.de_DE_76.weights 6 = [2, 3, 4, 5, 6, 7] := by decide
  simp only [Gen.de_DE_76] at hw1 hw2 hw3 hw4 hw5 hw6
  have i0 : U.intChar 48 = .ok 0 := intChar_ascii hU (by decide : 0 < 10)
  by_cases z2 : d2 = 0
  · by_cases z3 : d3 = 0
    · by_cases z4 : d4 = 0
      · by_cases z5 : d5 = 0
        · by_cases z6 : d6 = 0
          · by_cases z7 : d7 = 0
            · subst z2 z3 z4 z5 z6 z7
              de_simp [Gen.de_DE_76, rstrip0, lstrip0, hw1, hw2, hw3, hw4, hw5, hw6, i0, rule76, natToInt, intChar_ascii hU, h1, h2, h3, h4, h5, h6, h7, h8, h9, h10]
              clear hw1 hw2 hw3 hw4 hw5 hw6
              revert h8; revert d8; revert h1; revert d1
              decide +kernel
            · subst z2 z3 z4 z5 z6
              have nz : ¬ (48 + d7 = 48) := by omega
              de_simp [Gen.de_DE_76, rstrip0, lstrip0, hw1, hw2, hw3, hw4, hw5, hw6, i0, nz, z7, intChar_ascii hU, h1, h2, h3, h4, h5, h6, h7, h8, h9, h10]
              clear hw1 hw2 hw3 hw4 hw5 hw6
              generalize d7 * 2 = S
              have e : ((S : Int) % 11) = ((S % 11 : Nat) : Int) := by omega
              simp only [natToInt, e, rule76]
              have hr : S % 11 < 11 := Nat.mod_lt _ (by decide)
              generalize S % 11 = r at hr ⊢
              clear e
              revert hr; revert r; revert h8; revert d8; revert h1; revert d1
              decide +kernel
          · subst z2 z3 z4 z5
            have nz : ¬ (48 + d6 = 48) := by omega
            de_simp [Gen.de_DE_76, rstrip0, lstrip0, hw1, hw2, hw3, hw4, hw5, hw6, i0, nz, z6, intChar_ascii hU, h1, h2, h3, h4, h5, h6, h7, h8, h9, h10]
            clear hw1 hw2 hw3 hw4 hw5 hw6
            generalize d7 * 2 + (d6 * 3) = S
            have e : ((S : Int) % 11) = ((S % 11 : Nat) : Int) := by omega
            simp only [natToInt, e, rule76]
            have hr : S % 11 < 11 := Nat.mod_lt _ (by decide)
            generalize S % 11 = r at hr ⊢
            clear e
            revert hr; revert r; revert h8; revert d8; revert h1; revert d1
            decide +kernel
        · subst z2 z3 z4
          have nz : ¬ (48 + d5 = 48) := by omega
          de_simp [Gen.de_DE_76, rstrip0, lstrip0, hw1, hw2, hw3, hw4, hw5, hw6, i0, nz, z5, intChar_ascii hU, h1, h2, h3, h4, h5, h6, h7, h8, h9, h10]
          clear hw1 hw2 hw3 hw4 hw5 hw6
          generalize d7 * 2 + (d6 * 3 + (d5 * 4)) = S
          have e : ((S : Int) % 11) = ((S % 11 : Nat) : Int) := by omega
          simp only [natToInt, e, rule76]
          have hr : S % 11 < 11 := Nat.mod_lt _ (by decide)
          generalize S % 11 = r at hr ⊢
          clear e
          revert hr; revert r; revert h8; revert d8; revert h1; revert d1
          decide +kernel
      · subst z2 z3
        have nz : ¬ (48 + d4 = 48) := by omega
        de_simp [Gen.de_DE_76, rstrip0, lstrip0, hw1, hw2, hw3, hw4, hw5, hw6, i0, nz, z4, intChar_ascii hU, h1, h2, h3, h4, h5, h6, h7, h8, h9, h10]
        clear hw1 hw2 hw3 hw4 hw5 hw6
        generalize d7 * 2 + (d6 * 3 + (d5 * 4 + (d4 * 5))) = S
        have e : ((S : Int) % 11) = ((S % 11 : Nat) : Int) := by omega
        simp only [natToInt, e, rule76]
        have hr : S % 11 < 11 := Nat.mod_lt _ (by decide)
        generalize S % 11 = r at hr ⊢
        clear e
        revert hr; revert r; revert h8; revert d8; revert h1; revert d1
        decide +kernel
    · subst z2
      have nz : ¬ (48 + d3 = 48) := by omega
      de_simp [Gen.de_DE_76, rstrip0, lstrip0, hw1, hw2, hw3, hw4, hw5, hw6, i0, nz, z3, intChar_ascii hU, h1, h2, h3, h4, h5, h6, h7, h8, h9, h10]
      clear hw1 hw2 hw3 hw4 hw5 hw6
      generalize d7 * 2 + (d6 * 3 + (d5 * 4 + (d4 * 5 + (d3 * 6)))) = S
      have e : ((S : Int) % 11) = ((S % 11 : Nat) : Int) := by omega
      simp only [natToInt, e, rule76]
      have hr : S % 11 < 11 := Nat.mod_lt _ (by decide)
      generalize S % 11 = r at hr ⊢
      clear e
      revert hr; revert r; revert h8; revert d8; revert h1; revert d1
      decide +kernel
  · have nz : ¬ (48 + d2 = 48) := by omega
    de_simp [Gen.de_DE_76, rstrip0, lstrip0, hw1, hw2, hw3, hw4, hw5, hw6, i0, nz, z2, intChar_ascii hU, h1, h2, h3, h4, h5, h6, h7, h8, h9, h10]
    clear hw1 hw2 hw3 hw4 hw5 hw6
    generalize d7 * 2 + (d6 * 3 + (d5 * 4 + (d4 * 5 + (d3 * 6 + (d2 * 7))))) = S
    have e : ((S : Int) % 11) = ((S % 11 : Nat) : Int) := by omega
    simp only [natToInt, e, rule76]
    have hr : S % 11 < 11 := Nat.mod_lt _ (by decide)
    generalize S % 11 = r at hr ⊢
    clear e
    revert hr; revert r; revert h8; revert d8; revert h1; revert d1
    decide +kernel

/-- The four variant classes of method 91 (`Algorithm91.Variant1 … Variant4`), as regenerated. -/
def de91v (i : Nat) : DEParams := Gen.de_DE_91.variants.getD i default

set_option maxHeartbeats 4000000 in
theorem de91_variant1 (U : Unicode) (hU : U.WF) (d1 d2 d3 d4 d5 d6 d7 d8 d9 d10 : Nat)
    (h1 : d1 < 10) (h2 : d2 < 10) (h3 : d3 < 10) (h4 : d4 < 10) (h5 : d5 < 10) (h6 : d6 < 10)
    (h7 : d7 < 10) (h8 : d8 < 10) (h9 : d9 < 10) (h10 : d10 < 10) :
    freshValidate U (de91v 0) [acct d1 d2 d3 d4 d5 d6 d7 d8 d9 d10] =
      .ok (rule06 (dot [2, 3, 4, 5, 6, 7] [d6, d5, d4, d3, d2, d1]) d7) := by
  have hw : cycleWeights (de91v 0).weights 6 = [2, 3, 4, 5, 6, 7] := by decide
  simp only [de91v, Gen.de_DE_91, List.getD_cons_succ, List.getD_cons_zero] at hw
  de_simp [de91v, Gen.de_DE_91, freshValidate, hw, intChar_ascii hU, h1, h2, h3, h4, h5, h6, h7, h8, h9, h10]
  clear hw
  generalize d6 * 2 + (d5 * 3 + (d4 * 4 + (d3 * 5 + (d2 * 6 + (d1 * 7))))) = S
  have e : ((S : Int) % 11) = ((S % 11 : Nat) : Int) := by omega
  simp only [natToInt, e, rule06]
  have hr : S % 11 < 11 := Nat.mod_lt _ (by decide)
  generalize S % 11 = r at hr ⊢
  clear e
  revert hr; revert r; revert h7; revert d7
  decide +kernel

set_option maxHeartbeats 4000000 in
theorem de91_variant2 (U : Unicode) (hU : U.WF) (d1 d2 d3 d4 d5 d6 d7 d8 d9 d10 : Nat)
    (h1 : d1 < 10) (h2 : d2 < 10) (h3 : d3 < 10) (h4 : d4 < 10) (h5 : d5 < 10) (h6 : d6 < 10)
    (h7 : d7 < 10) (h8 : d8 < 10) (h9 : d9 < 10) (h10 : d10 < 10) :
    freshValidate U (de91v 1) [acct d1 d2 d3 d4 d5 d6 d7 d8 d9 d10] =
      .ok (rule06 (dot [7, 6, 5, 4, 3, 2] [d6, d5, d4, d3, d2, d1]) d7) := by
  have hw : cycleWeights (de91v 1).weights 6 = [7, 6, 5, 4, 3, 2] := by decide
  simp only [de91v, Gen.de_DE_91, List.getD_cons_succ, List.getD_cons_zero] at hw
  de_simp [de91v, Gen.de_DE_91, freshValidate, hw, intChar_ascii hU, h1, h2, h3, h4, h5, h6, h7, h8, h9, h10]
  clear hw
  generalize d6 * 7 + (d5 * 6 + (d4 * 5 + (d3 * 4 + (d2 * 3 + (d1 * 2))))) = S
  have e : ((S : Int) % 11) = ((S % 11 : Nat) : Int) := by omega
  simp only [natToInt, e, rule06]
  have hr : S % 11 < 11 := Nat.mod_lt _ (by decide)
  generalize S % 11 = r at hr ⊢
  clear e
  revert hr; revert r; revert h7; revert d7
  decide +kernel

set_option maxHeartbeats 4000000 in
theorem de91_variant3 (U : Unicode) (hU : U.WF) (d1 d2 d3 d4 d5 d6 d7 d8 d9 d10 : Nat)
    (h1 : d1 < 10) (h2 : d2 < 10) (h3 : d3 < 10) (h4 : d4 < 10) (h5 : d5 < 10) (h6 : d6 < 10)
    (h7 : d7 < 10) (h8 : d8 < 10) (h9 : d9 < 10) (h10 : d10 < 10) :
    freshValidate U (de91v 2) [acct d1 d2 d3 d4 d5 d6 d7 d8 d9 d10] =
      .ok (rule06 (dot [2, 3, 4, 0, 5, 6, 7, 8, 9, 10] [d10, d9, d8, d7, d6, d5, d4, d3, d2, d1]) d7) := by
  have hw : cycleWeights (de91v 2).weights 10 = [2, 3, 4, 0, 5, 6, 7, 8, 9, 10] := by decide
  simp only [de91v, Gen.de_DE_91, List.getD_cons_succ, List.getD_cons_zero] at hw
  de_simp [de91v, Gen.de_DE_91, freshValidate, hw, intChar_ascii hU, h1, h2, h3, h4, h5, h6, h7, h8, h9, h10]
  clear hw
  generalize d10 * 2 + (d9 * 3 + (d8 * 4 + (d6 * 5 + (d5 * 6 + (d4 * 7 + (d3 * 8 + (d2 * 9 + (d1 * 10)))))))) = S
  have e : ((S : Int) % 11) = ((S % 11 : Nat) : Int) := by omega
  simp only [natToInt, e, rule06]
  have hr : S % 11 < 11 := Nat.mod_lt _ (by decide)
  generalize S % 11 = r at hr ⊢
  clear e
  revert hr; revert r; revert h7; revert d7
  decide +kernel

set_option maxHeartbeats 4000000 in
theorem de91_variant4 (U : Unicode) (hU : U.WF) (d1 d2 d3 d4 d5 d6 d7 d8 d9 d10 : Nat)
    (h1 : d1 < 10) (h2 : d2 < 10) (h3 : d3 < 10) (h4 : d4 < 10) (h5 : d5 < 10) (h6 : d6 < 10)
    (h7 : d7 < 10) (h8 : d8 < 10) (h9 : d9 < 10) (h10 : d10 < 10) :
    freshValidate U (de91v 3) [acct d1 d2 d3 d4 d5 d6 d7 d8 d9 d10] =
      .ok (rule06 (dot [2, 4, 8, 5, 10, 9] [d6, d5, d4, d3, d2, d1]) d7) := by
  have hw : cycleWeights (de91v 3).weights 6 = [2, 4, 8, 5, 10, 9] := by decide
  simp only [de91v, Gen.de_DE_91, List.getD_cons_succ, List.getD_cons_zero] at hw
  de_simp [de91v, Gen.de_DE_91, freshValidate, hw, intChar_ascii hU, h1, h2, h3, h4, h5, h6, h7, h8, h9, h10]
  clear hw
  generalize d6 * 2 + (d5 * 4 + (d4 * 8 + (d3 * 5 + (d2 * 10 + (d1 * 9))))) = S
  have e : ((S : Int) % 11) = ((S % 11 : Nat) : Int) := by omega
  simp only [natToInt, e, rule06]
  have hr : S % 11 < 11 := Nat.mod_lt _ (by decide)
  generalize S % 11 = r at hr ⊢
  clear e
  revert hr; revert r; revert h7; revert d7
  decide +kernel

/-- Method 91: four variants, each like 06 with the check digit at position 7; valid if any
    of them accepts. -/
theorem de91 (U : Unicode) (hU : U.WF) (d1 d2 d3 d4 d5 d6 d7 d8 d9 d10 : Nat)
    (h1 : d1 < 10) (h2 : d2 < 10) (h3 : d3 < 10) (h4 : d4 < 10) (h5 : d5 < 10) (h6 : d6 < 10)
    (h7 : d7 < 10) (h8 : d8 < 10) (h9 : d9 < 10) (h10 : d10 < 10) (sc : Scratch) :
    (Gen.de_DE_91.validateM U [acct d1 d2 d3 d4 d5 d6 d7 d8 d9 d10] sc).2 =
      .ok (rule06 (dot [2, 3, 4, 5, 6, 7] [d6, d5, d4, d3, d2, d1]) d7 ||
           rule06 (dot [7, 6, 5, 4, 3, 2] [d6, d5, d4, d3, d2, d1]) d7 ||
           rule06 (dot [2, 3, 4, 0, 5, 6, 7, 8, 9, 10] [d10, d9, d8, d7, d6, d5, d4, d3, d2, d1]) d7 ||
           rule06 (dot [2, 4, 8, 5, 10, 9] [d6, d5, d4, d3, d2, d1]) d7) := by
  have hv : Gen.de_DE_91.variants = [de91v 0, de91v 1, de91v 2, de91v 3] := rfl
  have hval : Gen.de_DE_91.validate = [.a91] := rfl
  simp only [DEParams.validateM, hval, DEM.lift, hv, variantsAny,
    de91_variant1 U hU d1 d2 d3 d4 d5 d6 d7 d8 d9 d10 h1 h2 h3 h4 h5 h6 h7 h8 h9 h10,
    de91_variant2 U hU d1 d2 d3 d4 d5 d6 d7 d8 d9 d10 h1 h2 h3 h4 h5 h6 h7 h8 h9 h10,
    de91_variant3 U hU d1 d2 d3 d4 d5 d6 d7 d8 d9 d10 h1 h2 h3 h4 h5 h6 h7 h8 h9 h10,
    de91_variant4 U hU d1 d2 d3 d4 d5 d6 d7 d8 d9 d10 h1 h2 h3 h4 h5 h6 h7 h8 h9 h10]
  cases rule06 (dot [2, 3, 4, 5, 6, 7] [d6, d5, d4, d3, d2, d1]) d7 <;>
  cases rule06 (dot [7, 6, 5, 4, 3, 2] [d6, d5, d4, d3, d2, d1]) d7 <;>
  cases rule06 (dot [2, 3, 4, 0, 5, 6, 7, 8, 9, 10] [d10, d9, d8, d7, d6, d5, d4, d3, d2, d1]) d7 <;>
  cases rule06 (dot [2, 4, 8, 5, 10, 9] [d6, d5, d4, d3, d2, d1]) d7 <;> rfl

set_option maxHeartbeats 16000000 in
/-- Method 24 (see `Spec.de24`). -/
theorem de24 (U : Unicode) (hU : U.WF) (d1 d2 d3 d4 d5 d6 d7 d8 d9 d10 : Nat)
    (h1 : d1 < 10) (h2 : d2 < 10) (h3 : d3 < 10) (h4 : d4 < 10) (h5 : d5 < 10) (h6 : d6 < 10)
    (h7 : d7 < 10) (h8 : d8 < 10) (h9 : d9 < 10) (h10 : d10 < 10) (sc : Scratch) :
    deVerdict (Gen.de_DE_24.validateM U [acct d1 d2 d3 d4 d5 d6 d7 d8 d9 d10] sc).2 = true ∧
    deAccepts (Gen.de_DE_24.validateM U [acct d1 d2 d3 d4 d5 d6 d7 d8 d9 d10] sc).2 =
      Spec.de24 [d1, d2, d3, d4, d5, d6, d7, d8, d9] d10 := by
  have hw1 : cycleWeights Gen.de_DE_24.weights 1 = [1] := by decide
  have hw2 : cycleWeights Gen.de_DE_24.weights 2 = [1, 2] := by decide
  have hw3 : cycleWeights Gen.de_DE_24.weights 3 = [1, 2, 3] := by decide
  have hw4 : cycleWeights Gen.de_DE_24.weights 4 = [1, 2, 3, 1] := by decide
  have hw5 : cycleWeights Gen.de_DE_24.weights 5 = [1, 2, 3, 1, 2] := by decide
  have hw6 : cycleWeights Gen.de_DE_24.weights 6 = [1, 2, 3, 1, 2, 3] := by decide
  have hw7 : cycleWeights Gen.de_DE_24.weights 7 = [1, 2, 3, 1, 2, 3, 1] := by decide
  have hw8 : cycleWeights Gen.de_DE_24.weights 8 = [1, 2, 3, 1, 2, 3, 1, 2] := by decide
  have hw9 : cycleWeights Gen.de_DE_24.weights 9 = [1, 2, 3, 1, 2, 3, 1, 2, 3] := by decide
  simp only [Gen.de_DE_24] at hw1 hw2 hw3 hw4 hw5 hw6 hw7 hw8 hw9
  have i0 : U.intChar 48 = .ok 0 := intChar_ascii hU (by decide : 0 < 10)
  have i9 : U.intChar 57 = .ok 9 := intChar_ascii hU (by decide : 9 < 10)
  by_cases hA : ((d1 = 3 ∨ d1 = 4) ∨ d1 = 5) ∨ d1 = 6
  · have hn9 : ¬ d1 = 9 := by omega
    have hA' : d1 = 3 ∨ d1 = 4 ∨ d1 = 5 ∨ d1 = 6 := by omega
    by_cases z2 : d2 = 0
    · subst z2
      by_cases z3 : d3 = 0
      · subst z3
        by_cases z4 : d4 = 0
        · subst z4
          by_cases z5 : d5 = 0
          · subst z5
            by_cases z6 : d6 = 0
            · subst z6
              by_cases z7 : d7 = 0
              · subst z7
                by_cases z8 : d8 = 0
                · subst z8
                  by_cases z9 : d9 = 0
                  · subst z9
                    de_simp [Gen.de_DE_24, lstrip0, Spec.de24, dot24, dropZeros, hw1, hw2, hw3, hw4, hw5, hw6, hw7, hw8, hw9, i0, i9, hA, hA', hn9, intChar_ascii hU, h1, h2, h3, h4, h5, h6, h7, h8, h9, h10]
                    clear hw1 hw2 hw3 hw4 hw5 hw6 hw7 hw8 hw9
                    simp only [natToInt]
                    revert h10; revert d10
                    decide +kernel
                  · have nz9 : ¬ (48 + d9 = 48) := by omega
                    de_simp [Gen.de_DE_24, lstrip0, Spec.de24, dot24, dropZeros, hw1, hw2, hw3, hw4, hw5, hw6, hw7, hw8, hw9, i0, i9, z9, nz9, hA, hA', hn9, intChar_ascii hU, h1, h2, h3, h4, h5, h6, h7, h8, h9, h10]
                    clear hw1 hw2 hw3 hw4 hw5 hw6 hw7 hw8 hw9
                    generalize (d9 + 1) % 11 = S
                    have e : ((S : Int) % 10) = ((S % 10 : Nat) : Int) := by omega
                    simp only [natToInt, e]
                    have hr : S % 10 < 10 := Nat.mod_lt _ (by decide)
                    generalize S % 10 = r at hr ⊢
                    clear e
                    revert hr; revert r; revert h10; revert d10
                    decide +kernel
                · have nz8 : ¬ (48 + d8 = 48) := by omega
                  de_simp [Gen.de_DE_24, lstrip0, Spec.de24, dot24, dropZeros, hw1, hw2, hw3, hw4, hw5, hw6, hw7, hw8, hw9, i0, i9, z8, nz8, hA, hA', hn9, intChar_ascii hU, h1, h2, h3, h4, h5, h6, h7, h8, h9, h10]
                  clear hw1 hw2 hw3 hw4 hw5 hw6 hw7 hw8 hw9
                  generalize (d8 + 1) % 11 + ((d9 * 2 + 2) % 11) = S
                  have e : ((S : Int) % 10) = ((S % 10 : Nat) : Int) := by omega
                  simp only [natToInt, e]
                  have hr : S % 10 < 10 := Nat.mod_lt _ (by decide)
                  generalize S % 10 = r at hr ⊢
                  clear e
                  revert hr; revert r; revert h10; revert d10
                  decide +kernel
              · have nz7 : ¬ (48 + d7 = 48) := by omega
                de_simp [Gen.de_DE_24, lstrip0, Spec.de24, dot24, dropZeros, hw1, hw2, hw3, hw4, hw5, hw6, hw7, hw8, hw9, i0, i9, z7, nz7, hA, hA', hn9, intChar_ascii hU, h1, h2, h3, h4, h5, h6, h7, h8, h9, h10]
                clear hw1 hw2 hw3 hw4 hw5 hw6 hw7 hw8 hw9
                generalize (d7 + 1) % 11 + ((d8 * 2 + 2) % 11 + ((d9 * 3 + 3) % 11)) = S
                have e : ((S : Int) % 10) = ((S % 10 : Nat) : Int) := by omega
                simp only [natToInt, e]
                have hr : S % 10 < 10 := Nat.mod_lt _ (by decide)
                generalize S % 10 = r at hr ⊢
                clear e
                revert hr; revert r; revert h10; revert d10
                decide +kernel
            · have nz6 : ¬ (48 + d6 = 48) := by omega
              de_simp [Gen.de_DE_24, lstrip0, Spec.de24, dot24, dropZeros, hw1, hw2, hw3, hw4, hw5, hw6, hw7, hw8, hw9, i0, i9, z6, nz6, hA, hA', hn9, intChar_ascii hU, h1, h2, h3, h4, h5, h6, h7, h8, h9, h10]
              clear hw1 hw2 hw3 hw4 hw5 hw6 hw7 hw8 hw9
              generalize (d6 + 1) % 11 + ((d7 * 2 + 2) % 11 + ((d8 * 3 + 3) % 11 + ((d9 + 1) % 11))) = S
              have e : ((S : Int) % 10) = ((S % 10 : Nat) : Int) := by omega
              simp only [natToInt, e]
              have hr : S % 10 < 10 := Nat.mod_lt _ (by decide)
              generalize S % 10 = r at hr ⊢
              clear e
              revert hr; revert r; revert h10; revert d10
              decide +kernel
          · have nz5 : ¬ (48 + d5 = 48) := by omega
            de_simp [Gen.de_DE_24, lstrip0, Spec.de24, dot24, dropZeros, hw1, hw2, hw3, hw4, hw5, hw6, hw7, hw8, hw9, i0, i9, z5, nz5, hA, hA', hn9, intChar_ascii hU, h1, h2, h3, h4, h5, h6, h7, h8, h9, h10]
            clear hw1 hw2 hw3 hw4 hw5 hw6 hw7 hw8 hw9
            generalize (d5 + 1) % 11 + ((d6 * 2 + 2) % 11 + ((d7 * 3 + 3) % 11 + ((d8 + 1) % 11 + ((d9 * 2 + 2) % 11)))) = S
            have e : ((S : Int) % 10) = ((S % 10 : Nat) : Int) := by omega
            simp only [natToInt, e]
            have hr : S % 10 < 10 := Nat.mod_lt _ (by decide)
            generalize S % 10 = r at hr ⊢
            clear e
            revert hr; revert r; revert h10; revert d10
            decide +kernel
        · have nz4 : ¬ (48 + d4 = 48) := by omega
          de_simp [Gen.de_DE_24, lstrip0, Spec.de24, dot24, dropZeros, hw1, hw2, hw3, hw4, hw5, hw6, hw7, hw8, hw9, i0, i9, z4, nz4, hA, hA', hn9, intChar_ascii hU, h1, h2, h3, h4, h5, h6, h7, h8, h9, h10]
          clear hw1 hw2 hw3 hw4 hw5 hw6 hw7 hw8 hw9
          generalize (d4 + 1) % 11 + ((d5 * 2 + 2) % 11 + ((d6 * 3 + 3) % 11 + ((d7 + 1) % 11 + ((d8 * 2 + 2) % 11 + ((d9 * 3 + 3) % 11))))) = S
          have e : ((S : Int) % 10) = ((S % 10 : Nat) : Int) := by omega
          simp only [natToInt, e]
          have hr : S % 10 < 10 := Nat.mod_lt _ (by decide)
          generalize S % 10 = r at hr ⊢
          clear e
          revert hr; revert r; revert h10; revert d10
          decide +kernel
      · have nz3 : ¬ (48 + d3 = 48) := by omega
        de_simp [Gen.de_DE_24, lstrip0, Spec.de24, dot24, dropZeros, hw1, hw2, hw3, hw4, hw5, hw6, hw7, hw8, hw9, i0, i9, z3, nz3, hA, hA', hn9, intChar_ascii hU, h1, h2, h3, h4, h5, h6, h7, h8, h9, h10]
        clear hw1 hw2 hw3 hw4 hw5 hw6 hw7 hw8 hw9
        generalize (d3 + 1) % 11 + ((d4 * 2 + 2) % 11 + ((d5 * 3 + 3) % 11 + ((d6 + 1) % 11 + ((d7 * 2 + 2) % 11 + ((d8 * 3 + 3) % 11 + ((d9 + 1) % 11)))))) = S
        have e : ((S : Int) % 10) = ((S % 10 : Nat) : Int) := by omega
        simp only [natToInt, e]
        have hr : S % 10 < 10 := Nat.mod_lt _ (by decide)
        generalize S % 10 = r at hr ⊢
        clear e
        revert hr; revert r; revert h10; revert d10
        decide +kernel
    · have nz2 : ¬ (48 + d2 = 48) := by omega
      de_simp [Gen.de_DE_24, lstrip0, Spec.de24, dot24, dropZeros, hw1, hw2, hw3, hw4, hw5, hw6, hw7, hw8, hw9, i0, i9, z2, nz2, hA, hA', hn9, intChar_ascii hU, h1, h2, h3, h4, h5, h6, h7, h8, h9, h10]
      clear hw1 hw2 hw3 hw4 hw5 hw6 hw7 hw8 hw9
      generalize (d2 + 1) % 11 + ((d3 * 2 + 2) % 11 + ((d4 * 3 + 3) % 11 + ((d5 + 1) % 11 + ((d6 * 2 + 2) % 11 + ((d7 * 3 + 3) % 11 + ((d8 + 1) % 11 + ((d9 * 2 + 2) % 11))))))) = S
      have e : ((S : Int) % 10) = ((S % 10 : Nat) : Int) := by omega
      simp only [natToInt, e]
      have hr : S % 10 < 10 := Nat.mod_lt _ (by decide)
      generalize S % 10 = r at hr ⊢
      clear e
      revert hr; revert r; revert h10; revert d10
      decide +kernel
  · have hA' : ¬ (d1 = 3 ∨ d1 = 4 ∨ d1 = 5 ∨ d1 = 6) := by omega
    by_cases g9 : d1 = 9
    · subst g9
      by_cases z4 : d4 = 0
      · subst z4
        by_cases z5 : d5 = 0
        · subst z5
          by_cases z6 : d6 = 0
          · subst z6
            by_cases z7 : d7 = 0
            · subst z7
              by_cases z8 : d8 = 0
              · subst z8
                by_cases z9 : d9 = 0
                · subst z9
                  de_simp [Gen.de_DE_24, lstrip0, Spec.de24, dot24, dropZeros, hw1, hw2, hw3, hw4, hw5, hw6, hw7, hw8, hw9, i0, i9, intChar_ascii hU, h1, h2, h3, h4, h5, h6, h7, h8, h9, h10]
                  clear hw1 hw2 hw3 hw4 hw5 hw6 hw7 hw8 hw9
                  simp only [natToInt]
                  revert h10; revert d10
                  decide +kernel
                · have nz9 : ¬ (48 + d9 = 48) := by omega
                  de_simp [Gen.de_DE_24, lstrip0, Spec.de24, dot24, dropZeros, hw1, hw2, hw3, hw4, hw5, hw6, hw7, hw8, hw9, i0, i9, z9, nz9, intChar_ascii hU, h1, h2, h3, h4, h5, h6, h7, h8, h9, h10]
                  clear hw1 hw2 hw3 hw4 hw5 hw6 hw7 hw8 hw9
                  generalize (d9 + 1) % 11 = S
                  have e : ((S : Int) % 10) = ((S % 10 : Nat) : Int) := by omega
                  simp only [natToInt, e]
                  have hr : S % 10 < 10 := Nat.mod_lt _ (by decide)
                  generalize S % 10 = r at hr ⊢
                  clear e
                  revert hr; revert r; revert h10; revert d10
                  decide +kernel
              · have nz8 : ¬ (48 + d8 = 48) := by omega
                de_simp [Gen.de_DE_24, lstrip0, Spec.de24, dot24, dropZeros, hw1, hw2, hw3, hw4, hw5, hw6, hw7, hw8, hw9, i0, i9, z8, nz8, intChar_ascii hU, h1, h2, h3, h4, h5, h6, h7, h8, h9, h10]
                clear hw1 hw2 hw3 hw4 hw5 hw6 hw7 hw8 hw9
                generalize (d8 + 1) % 11 + ((d9 * 2 + 2) % 11) = S
                have e : ((S : Int) % 10) = ((S % 10 : Nat) : Int) := by omega
                simp only [natToInt, e]
                have hr : S % 10 < 10 := Nat.mod_lt _ (by decide)
                generalize S % 10 = r at hr ⊢
                clear e
                revert hr; revert r; revert h10; revert d10
                decide +kernel
            · have nz7 : ¬ (48 + d7 = 48) := by omega
              de_simp [Gen.de_DE_24, lstrip0, Spec.de24, dot24, dropZeros, hw1, hw2, hw3, hw4, hw5, hw6, hw7, hw8, hw9, i0, i9, z7, nz7, intChar_ascii hU, h1, h2, h3, h4, h5, h6, h7, h8, h9, h10]
              clear hw1 hw2 hw3 hw4 hw5 hw6 hw7 hw8 hw9
              generalize (d7 + 1) % 11 + ((d8 * 2 + 2) % 11 + ((d9 * 3 + 3) % 11)) = S
              have e : ((S : Int) % 10) = ((S % 10 : Nat) : Int) := by omega
              simp only [natToInt, e]
              have hr : S % 10 < 10 := Nat.mod_lt _ (by decide)
              generalize S % 10 = r at hr ⊢
              clear e
              revert hr; revert r; revert h10; revert d10
              decide +kernel
          · have nz6 : ¬ (48 + d6 = 48) := by omega
            de_simp [Gen.de_DE_24, lstrip0, Spec.de24, dot24, dropZeros, hw1, hw2, hw3, hw4, hw5, hw6, hw7, hw8, hw9, i0, i9, z6, nz6, intChar_ascii hU, h1, h2, h3, h4, h5, h6, h7, h8, h9, h10]
            clear hw1 hw2 hw3 hw4 hw5 hw6 hw7 hw8 hw9
            generalize (d6 + 1) % 11 + ((d7 * 2 + 2) % 11 + ((d8 * 3 + 3) % 11 + ((d9 + 1) % 11))) = S
            have e : ((S : Int) % 10) = ((S % 10 : Nat) : Int) := by omega
            simp only [natToInt, e]
            have hr : S % 10 < 10 := Nat.mod_lt _ (by decide)
            generalize S % 10 = r at hr ⊢
            clear e
            revert hr; revert r; revert h10; revert d10
            decide +kernel
        · have nz5 : ¬ (48 + d5 = 48) := by omega
          de_simp [Gen.de_DE_24, lstrip0, Spec.de24, dot24, dropZeros, hw1, hw2, hw3, hw4, hw5, hw6, hw7, hw8, hw9, i0, i9, z5, nz5, intChar_ascii hU, h1, h2, h3, h4, h5, h6, h7, h8, h9, h10]
          clear hw1 hw2 hw3 hw4 hw5 hw6 hw7 hw8 hw9
          generalize (d5 + 1) % 11 + ((d6 * 2 + 2) % 11 + ((d7 * 3 + 3) % 11 + ((d8 + 1) % 11 + ((d9 * 2 + 2) % 11)))) = S
          have e : ((S : Int) % 10) = ((S % 10 : Nat) : Int) := by omega
          simp only [natToInt, e]
          have hr : S % 10 < 10 := Nat.mod_lt _ (by decide)
          generalize S % 10 = r at hr ⊢
          clear e
          revert hr; revert r; revert h10; revert d10
          decide +kernel
      · have nz4 : ¬ (48 + d4 = 48) := by omega
        de_simp [Gen.de_DE_24, lstrip0, Spec.de24, dot24, dropZeros, hw1, hw2, hw3, hw4, hw5, hw6, hw7, hw8, hw9, i0, i9, z4, nz4, intChar_ascii hU, h1, h2, h3, h4, h5, h6, h7, h8, h9, h10]
        clear hw1 hw2 hw3 hw4 hw5 hw6 hw7 hw8 hw9
        generalize (d4 + 1) % 11 + ((d5 * 2 + 2) % 11 + ((d6 * 3 + 3) % 11 + ((d7 + 1) % 11 + ((d8 * 2 + 2) % 11 + ((d9 * 3 + 3) % 11))))) = S
        have e : ((S : Int) % 10) = ((S % 10 : Nat) : Int) := by omega
        simp only [natToInt, e]
        have hr : S % 10 < 10 := Nat.mod_lt _ (by decide)
        generalize S % 10 = r at hr ⊢
        clear e
        revert hr; revert r; revert h10; revert d10
        decide +kernel
    · by_cases z1 : d1 = 0
      · subst z1
        by_cases z2 : d2 = 0
        · subst z2
          by_cases z3 : d3 = 0
          · subst z3
            by_cases z4 : d4 = 0
            · subst z4
              by_cases z5 : d5 = 0
              · subst z5
                by_cases z6 : d6 = 0
                · subst z6
                  by_cases z7 : d7 = 0
                  · subst z7
                    by_cases z8 : d8 = 0
                    · subst z8
                      by_cases z9 : d9 = 0
                      · subst z9
                        de_simp [Gen.de_DE_24, lstrip0, Spec.de24, dot24, dropZeros, hw1, hw2, hw3, hw4, hw5, hw6, hw7, hw8, hw9, i0, i9, hA, hA', g9, intChar_ascii hU, h1, h2, h3, h4, h5, h6, h7, h8, h9, h10]
                        clear hw1 hw2 hw3 hw4 hw5 hw6 hw7 hw8 hw9
                        simp only [natToInt]
                        revert h10; revert d10
                        decide +kernel
                      · have nz9 : ¬ (48 + d9 = 48) := by omega
                        de_simp [Gen.de_DE_24, lstrip0, Spec.de24, dot24, dropZeros, hw1, hw2, hw3, hw4, hw5, hw6, hw7, hw8, hw9, i0, i9, z9, nz9, hA, hA', g9, intChar_ascii hU, h1, h2, h3, h4, h5, h6, h7, h8, h9, h10]
                        clear hw1 hw2 hw3 hw4 hw5 hw6 hw7 hw8 hw9
                        generalize (d9 + 1) % 11 = S
                        have e : ((S : Int) % 10) = ((S % 10 : Nat) : Int) := by omega
                        simp only [natToInt, e]
                        have hr : S % 10 < 10 := Nat.mod_lt _ (by decide)
                        generalize S % 10 = r at hr ⊢
                        clear e
                        revert hr; revert r; revert h10; revert d10
                        decide +kernel
                    · have nz8 : ¬ (48 + d8 = 48) := by omega
                      de_simp [Gen.de_DE_24, lstrip0, Spec.de24, dot24, dropZeros, hw1, hw2, hw3, hw4, hw5, hw6, hw7, hw8, hw9, i0, i9, z8, nz8, hA, hA', g9, intChar_ascii hU, h1, h2, h3, h4, h5, h6, h7, h8, h9, h10]
                      clear hw1 hw2 hw3 hw4 hw5 hw6 hw7 hw8 hw9
                      generalize (d8 + 1) % 11 + ((d9 * 2 + 2) % 11) = S
                      have e : ((S : Int) % 10) = ((S % 10 : Nat) : Int) := by omega
                      simp only [natToInt, e]
                      have hr : S % 10 < 10 := Nat.mod_lt _ (by decide)
                      generalize S % 10 = r at hr ⊢
                      clear e
                      revert hr; revert r; revert h10; revert d10
                      decide +kernel
                  · have nz7 : ¬ (48 + d7 = 48) := by omega
                    de_simp [Gen.de_DE_24, lstrip0, Spec.de24, dot24, dropZeros, hw1, hw2, hw3, hw4, hw5, hw6, hw7, hw8, hw9, i0, i9, z7, nz7, hA, hA', g9, intChar_ascii hU, h1, h2, h3, h4, h5, h6, h7, h8, h9, h10]
                    clear hw1 hw2 hw3 hw4 hw5 hw6 hw7 hw8 hw9
                    generalize (d7 + 1) % 11 + ((d8 * 2 + 2) % 11 + ((d9 * 3 + 3) % 11)) = S
                    have e : ((S : Int) % 10) = ((S % 10 : Nat) : Int) := by omega
                    simp only [natToInt, e]
                    have hr : S % 10 < 10 := Nat.mod_lt _ (by decide)
                    generalize S % 10 = r at hr ⊢
                    clear e
                    revert hr; revert r; revert h10; revert d10
                    decide +kernel
                · have nz6 : ¬ (48 + d6 = 48) := by omega
                  de_simp [Gen.de_DE_24, lstrip0, Spec.de24, dot24, dropZeros, hw1, hw2, hw3, hw4, hw5, hw6, hw7, hw8, hw9, i0, i9, z6, nz6, hA, hA', g9, intChar_ascii hU, h1, h2, h3, h4, h5, h6, h7, h8, h9, h10]
                  clear hw1 hw2 hw3 hw4 hw5 hw6 hw7 hw8 hw9
                  generalize (d6 + 1) % 11 + ((d7 * 2 + 2) % 11 + ((d8 * 3 + 3) % 11 + ((d9 + 1) % 11))) = S
                  have e : ((S : Int) % 10) = ((S % 10 : Nat) : Int) := by omega
                  simp only [natToInt, e]
                  have hr : S % 10 < 10 := Nat.mod_lt _ (by decide)
                  generalize S % 10 = r at hr ⊢
                  clear e
                  revert hr; revert r; revert h10; revert d10
                  decide +kernel
              · have nz5 : ¬ (48 + d5 = 48) := by omega
                de_simp [Gen.de_DE_24, lstrip0, Spec.de24, dot24, dropZeros, hw1, hw2, hw3, hw4, hw5, hw6, hw7, hw8, hw9, i0, i9, z5, nz5, hA, hA', g9, intChar_ascii hU, h1, h2, h3, h4, h5, h6, h7, h8, h9, h10]
                clear hw1 hw2 hw3 hw4 hw5 hw6 hw7 hw8 hw9
                generalize (d5 + 1) % 11 + ((d6 * 2 + 2) % 11 + ((d7 * 3 + 3) % 11 + ((d8 + 1) % 11 + ((d9 * 2 + 2) % 11)))) = S
                have e : ((S : Int) % 10) = ((S % 10 : Nat) : Int) := by omega
                simp only [natToInt, e]
                have hr : S % 10 < 10 := Nat.mod_lt _ (by decide)
                generalize S % 10 = r at hr ⊢
                clear e
                revert hr; revert r; revert h10; revert d10
                decide +kernel
            · have nz4 : ¬ (48 + d4 = 48) := by omega
              de_simp [Gen.de_DE_24, lstrip0, Spec.de24, dot24, dropZeros, hw1, hw2, hw3, hw4, hw5, hw6, hw7, hw8, hw9, i0, i9, z4, nz4, hA, hA', g9, intChar_ascii hU, h1, h2, h3, h4, h5, h6, h7, h8, h9, h10]
              clear hw1 hw2 hw3 hw4 hw5 hw6 hw7 hw8 hw9
              generalize (d4 + 1) % 11 + ((d5 * 2 + 2) % 11 + ((d6 * 3 + 3) % 11 + ((d7 + 1) % 11 + ((d8 * 2 + 2) % 11 + ((d9 * 3 + 3) % 11))))) = S
              have e : ((S : Int) % 10) = ((S % 10 : Nat) : Int) := by omega
              simp only [natToInt, e]
              have hr : S % 10 < 10 := Nat.mod_lt _ (by decide)
              generalize S % 10 = r at hr ⊢
              clear e
              revert hr; revert r; revert h10; revert d10
              decide +kernel
          · have nz3 : ¬ (48 + d3 = 48) := by omega
            de_simp [Gen.de_DE_24, lstrip0, Spec.de24, dot24, dropZeros, hw1, hw2, hw3, hw4, hw5, hw6, hw7, hw8, hw9, i0, i9, z3, nz3, hA, hA', g9, intChar_ascii hU, h1, h2, h3, h4, h5, h6, h7, h8, h9, h10]
            clear hw1 hw2 hw3 hw4 hw5 hw6 hw7 hw8 hw9
            generalize (d3 + 1) % 11 + ((d4 * 2 + 2) % 11 + ((d5 * 3 + 3) % 11 + ((d6 + 1) % 11 + ((d7 * 2 + 2) % 11 + ((d8 * 3 + 3) % 11 + ((d9 + 1) % 11)))))) = S
            have e : ((S : Int) % 10) = ((S % 10 : Nat) : Int) := by omega
            simp only [natToInt, e]
            have hr : S % 10 < 10 := Nat.mod_lt _ (by decide)
            generalize S % 10 = r at hr ⊢
            clear e
            revert hr; revert r; revert h10; revert d10
            decide +kernel
        · have nz2 : ¬ (48 + d2 = 48) := by omega
          de_simp [Gen.de_DE_24, lstrip0, Spec.de24, dot24, dropZeros, hw1, hw2, hw3, hw4, hw5, hw6, hw7, hw8, hw9, i0, i9, z2, nz2, hA, hA', g9, intChar_ascii hU, h1, h2, h3, h4, h5, h6, h7, h8, h9, h10]
          clear hw1 hw2 hw3 hw4 hw5 hw6 hw7 hw8 hw9
          generalize (d2 + 1) % 11 + ((d3 * 2 + 2) % 11 + ((d4 * 3 + 3) % 11 + ((d5 + 1) % 11 + ((d6 * 2 + 2) % 11 + ((d7 * 3 + 3) % 11 + ((d8 + 1) % 11 + ((d9 * 2 + 2) % 11))))))) = S
          have e : ((S : Int) % 10) = ((S % 10 : Nat) : Int) := by omega
          simp only [natToInt, e]
          have hr : S % 10 < 10 := Nat.mod_lt _ (by decide)
          generalize S % 10 = r at hr ⊢
          clear e
          revert hr; revert r; revert h10; revert d10
          decide +kernel
      · have nz1 : ¬ (48 + d1 = 48) := by omega
        de_simp [Gen.de_DE_24, lstrip0, Spec.de24, dot24, dropZeros, hw1, hw2, hw3, hw4, hw5, hw6, hw7, hw8, hw9, i0, i9, z1, nz1, hA, hA', g9, intChar_ascii hU, h1, h2, h3, h4, h5, h6, h7, h8, h9, h10]
        clear hw1 hw2 hw3 hw4 hw5 hw6 hw7 hw8 hw9
        generalize (d1 + 1) % 11 + ((d2 * 2 + 2) % 11 + ((d3 * 3 + 3) % 11 + ((d4 + 1) % 11 + ((d5 * 2 + 2) % 11 + ((d6 * 3 + 3) % 11 + ((d7 + 1) % 11 + ((d8 * 2 + 2) % 11 + ((d9 * 3 + 3) % 11)))))))) = S
        have e : ((S : Int) % 10) = ((S % 10 : Nat) : Int) := by omega
        simp only [natToInt, e]
        have hr : S % 10 < 10 := Nat.mod_lt _ (by decide)
        generalize S % 10 = r at hr ⊢
        clear e
        revert hr; revert r; revert h10; revert d10
        decide +kernel

set_option maxHeartbeats 32000000 in
/-- Method 68 (see `Spec.de68`): ten-digit numbers need a 9 as fourth digit and use six digits;
400000000…499999999 is not checked; nine-digit and shorter numbers are tried with all digits and
then with the digits d3, d4 left out. -/
theorem de68 (U : Unicode) (hU : U.WF) (d1 d2 d3 d4 d5 d6 d7 d8 d9 d10 : Nat)
    (h1 : d1 < 10) (h2 : d2 < 10) (h3 : d3 < 10) (h4 : d4 < 10) (h5 : d5 < 10) (h6 : d6 < 10)
    (h7 : d7 < 10) (h8 : d8 < 10) (h9 : d9 < 10) (h10 : d10 < 10) (sc : Scratch) :
    deVerdict (Gen.de_DE_68.validateM U [acct d1 d2 d3 d4 d5 d6 d7 d8 d9 d10] sc).2 = true ∧
    deAccepts (Gen.de_DE_68.validateM U [acct d1 d2 d3 d4 d5 d6 d7 d8 d9 d10] sc).2 =
      Spec.de68 d1 d2 d3 d4 d5 d6 d7 d8 d9 d10 := by
  have hw1 : cycleWeights Gen.de_DE_68.weights 1 = [2] := by decide
  have hw2 : cycleWeights Gen.de_DE_68.weights 2 = [2, 1] := by decide
  have hw3 : cycleWeights Gen.de_DE_68.weights 3 = [2, 1, 2] := by decide
  have hw4 : cycleWeights Gen.de_DE_68.weights 4 = [2, 1, 2, 1] := by decide
  have hw5 : cycleWeights Gen.de_DE_68.weights 5 = [2, 1, 2, 1, 2] := by decide
  have hw6 : cycleWeights Gen.de_DE_68.weights 6 = [2, 1, 2, 1, 2, 1] := by decide
  have hw7 : cycleWeights Gen.de_DE_68.weights 7 = [2, 1, 2, 1, 2, 1, 2] := by decide
  have hw8 : cycleWeights Gen.de_DE_68.weights 8 = [2, 1, 2, 1, 2, 1, 2, 1] := by decide
  simp only [Gen.de_DE_68] at hw1 hw2 hw3 hw4 hw5 hw6 hw7 hw8
  have i0 : U.intChar 48 = .ok 0 := intChar_ascii hU (by decide : 0 < 10)
  have i9 : U.intChar 57 = .ok 9 := intChar_ascii hU (by decide : 9 < 10)
  have hint := pyIntStr_acct hU d1 d2 d3 d4 d5 d6 d7 d8 d9 d10 h1 h2 h3 h4 h5 h6 h7 h8 h9 h10
  by_cases z1 : d1 = 0
  · by_cases g4 : d2 = 4
    · subst z1 g4
      have hn : 400000000 ≤ num [0, 4, d3, d4, d5, d6, d7, d8, d9, d10] 0 ∧
          num [0, 4, d3, d4, d5, d6, d7, d8, d9, d10] 0 ≤ 499999999 := by
        simp only [num]; omega
      de_simp [Gen.de_DE_68, Spec.de68, hint, hn.1, hn.2, deVerdict, deAccepts]
    · have hn : ¬ (400000000 ≤ num [d1, d2, d3, d4, d5, d6, d7, d8, d9, d10] 0) ∨ ¬ (num [d1, d2, d3, d4, d5, d6, d7, d8, d9, d10] 0 ≤ 499999999) := by
        subst z1; simp only [num]; omega
      subst z1
      rcases hn with hn | hn
      all_goals (
        by_cases z2 : d2 = 0
        · subst z2
          by_cases z3 : d3 = 0
          · subst z3
            by_cases z4 : d4 = 0
            · subst z4
              by_cases z5 : d5 = 0
              · subst z5
                by_cases z6 : d6 = 0
                · subst z6
                  by_cases z7 : d7 = 0
                  · subst z7
                    by_cases z8 : d8 = 0
                    · subst z8
                      by_cases z9 : d9 = 0
                      · subst z9
                        de_simp [Gen.de_DE_68, rstrip0, lstrip0, Spec.de68, hint, hw1, hw2, hw3, hw4, hw5, hw6, hw7, hw8, i0, i9, hn, g4, intChar_ascii hU, h1, h2, h3, h4, h5, h6, h7, h8, h9, h10]
                        clear hw1 hw2 hw3 hw4 hw5 hw6 hw7 hw8 hint
                        simp only [natToInt, rule10]
                        clear hn
                        revert h10; revert d10
                        decide +kernel
                      · have nz9 : ¬ (48 + d9 = 48) := by omega
                        de_simp [Gen.de_DE_68, rstrip0, lstrip0, Spec.de68, hint, hw1, hw2, hw3, hw4, hw5, hw6, hw7, hw8, i0, i9, hn, g4, z9, nz9, intChar_ascii hU, h1, h2, h3, h4, h5, h6, h7, h8, h9, h10]
                        clear hw1 hw2 hw3 hw4 hw5 hw6 hw7 hw8 hint
                        generalize digitSum (d9 * 2) = S1
                        have eS1 : ((S1 : Int) % 10) = ((S1 % 10 : Nat) : Int) := by omega
                        simp only [natToInt, rule10, eS1]
                        have hrS1 : S1 % 10 < 10 := Nat.mod_lt _ (by decide)
                        generalize S1 % 10 = rS1 at hrS1 ⊢
                        clear eS1
                        clear hn
                        revert hrS1; revert rS1
                        revert h10; revert d10
                        decide +kernel
                    · have nz8 : ¬ (48 + d8 = 48) := by omega
                      de_simp [Gen.de_DE_68, rstrip0, lstrip0, Spec.de68, hint, hw1, hw2, hw3, hw4, hw5, hw6, hw7, hw8, i0, i9, hn, g4, z8, nz8, intChar_ascii hU, h1, h2, h3, h4, h5, h6, h7, h8, h9, h10]
                      clear hw1 hw2 hw3 hw4 hw5 hw6 hw7 hw8 hint
                      generalize digitSum (d9 * 2) + (digitSum d8) = S1
                      have eS1 : ((S1 : Int) % 10) = ((S1 % 10 : Nat) : Int) := by omega
                      simp only [natToInt, rule10, eS1]
                      have hrS1 : S1 % 10 < 10 := Nat.mod_lt _ (by decide)
                      generalize S1 % 10 = rS1 at hrS1 ⊢
                      clear eS1
                      clear hn
                      revert hrS1; revert rS1
                      revert h10; revert d10
                      decide +kernel
                  · have nz7 : ¬ (48 + d7 = 48) := by omega
                    de_simp [Gen.de_DE_68, rstrip0, lstrip0, Spec.de68, hint, hw1, hw2, hw3, hw4, hw5, hw6, hw7, hw8, i0, i9, hn, g4, z7, nz7, intChar_ascii hU, h1, h2, h3, h4, h5, h6, h7, h8, h9, h10]
                    clear hw1 hw2 hw3 hw4 hw5 hw6 hw7 hw8 hint
                    generalize digitSum (d9 * 2) + (digitSum d8 + (digitSum (d7 * 2))) = S1
                    have eS1 : ((S1 : Int) % 10) = ((S1 % 10 : Nat) : Int) := by omega
                    simp only [natToInt, rule10, eS1]
                    have hrS1 : S1 % 10 < 10 := Nat.mod_lt _ (by decide)
                    generalize S1 % 10 = rS1 at hrS1 ⊢
                    clear eS1
                    clear hn
                    revert hrS1; revert rS1
                    revert h10; revert d10
                    decide +kernel
                · have nz6 : ¬ (48 + d6 = 48) := by omega
                  de_simp [Gen.de_DE_68, rstrip0, lstrip0, Spec.de68, hint, hw1, hw2, hw3, hw4, hw5, hw6, hw7, hw8, i0, i9, hn, g4, z6, nz6, intChar_ascii hU, h1, h2, h3, h4, h5, h6, h7, h8, h9, h10]
                  clear hw1 hw2 hw3 hw4 hw5 hw6 hw7 hw8 hint
                  generalize digitSum (d9 * 2) + (digitSum d8 + (digitSum (d7 * 2) + (digitSum d6))) = S1
                  have eS1 : ((S1 : Int) % 10) = ((S1 % 10 : Nat) : Int) := by omega
                  simp only [natToInt, rule10, eS1]
                  have hrS1 : S1 % 10 < 10 := Nat.mod_lt _ (by decide)
                  generalize S1 % 10 = rS1 at hrS1 ⊢
                  clear eS1
                  clear hn
                  revert hrS1; revert rS1
                  revert h10; revert d10
                  decide +kernel
              · have nz5 : ¬ (48 + d5 = 48) := by omega
                de_simp [Gen.de_DE_68, rstrip0, lstrip0, Spec.de68, hint, hw1, hw2, hw3, hw4, hw5, hw6, hw7, hw8, i0, i9, hn, g4, z5, nz5, intChar_ascii hU, h1, h2, h3, h4, h5, h6, h7, h8, h9, h10]
                clear hw1 hw2 hw3 hw4 hw5 hw6 hw7 hw8 hint
                generalize digitSum (d9 * 2) + (digitSum d8 + (digitSum (d7 * 2) + (digitSum d6 + (digitSum (d5 * 2))))) = S1
                have eS1 : ((S1 : Int) % 10) = ((S1 % 10 : Nat) : Int) := by omega
                simp only [natToInt, rule10, eS1]
                have hrS1 : S1 % 10 < 10 := Nat.mod_lt _ (by decide)
                generalize S1 % 10 = rS1 at hrS1 ⊢
                clear eS1
                clear hn
                revert hrS1; revert rS1
                revert h10; revert d10
                decide +kernel
            · have nz4 : ¬ (48 + d4 = 48) := by omega
              by_cases y5 : d5 = 0
              · subst y5
                by_cases y6 : d6 = 0
                · subst y6
                  by_cases y7 : d7 = 0
                  · subst y7
                    by_cases y8 : d8 = 0
                    · subst y8
                      by_cases y9 : d9 = 0
                      · subst y9
                        de_simp [Gen.de_DE_68, rstrip0, lstrip0, Spec.de68, hint, hw1, hw2, hw3, hw4, hw5, hw6, hw7, hw8, i0, i9, hn, g4, z4, nz4, intChar_ascii hU, h1, h2, h3, h4, h5, h6, h7, h8, h9, h10]
                        clear hw1 hw2 hw3 hw4 hw5 hw6 hw7 hw8 hint
                        generalize digitSum d4 = S1
                        have eS1 : ((S1 : Int) % 10) = ((S1 % 10 : Nat) : Int) := by omega
                        simp only [natToInt, rule10, eS1]
                        have hrS1 : S1 % 10 < 10 := Nat.mod_lt _ (by decide)
                        generalize S1 % 10 = rS1 at hrS1 ⊢
                        clear eS1
                        clear hn
                        revert hrS1; revert rS1
                        revert h10; revert d10
                        decide +kernel
                      · have ny9 : ¬ (48 + d9 = 48) := by omega
                        de_simp [Gen.de_DE_68, rstrip0, lstrip0, Spec.de68, hint, hw1, hw2, hw3, hw4, hw5, hw6, hw7, hw8, i0, i9, hn, g4, z4, nz4, y9, ny9, intChar_ascii hU, h1, h2, h3, h4, h5, h6, h7, h8, h9, h10]
                        clear hw1 hw2 hw3 hw4 hw5 hw6 hw7 hw8 hint
                        generalize digitSum (d9 * 2) + (digitSum d4) = S1
                        generalize digitSum (d9 * 2) = S2
                        have eS1 : ((S1 : Int) % 10) = ((S1 % 10 : Nat) : Int) := by omega
                        have eS2 : ((S2 : Int) % 10) = ((S2 % 10 : Nat) : Int) := by omega
                        simp only [natToInt, rule10, eS1, eS2]
                        have hrS1 : S1 % 10 < 10 := Nat.mod_lt _ (by decide)
                        generalize S1 % 10 = rS1 at hrS1 ⊢
                        have hrS2 : S2 % 10 < 10 := Nat.mod_lt _ (by decide)
                        generalize S2 % 10 = rS2 at hrS2 ⊢
                        clear eS1 eS2
                        clear hn
                        revert hrS1; revert rS1
                        revert hrS2; revert rS2
                        revert h10; revert d10
                        decide +kernel
                    · have ny8 : ¬ (48 + d8 = 48) := by omega
                      de_simp [Gen.de_DE_68, rstrip0, lstrip0, Spec.de68, hint, hw1, hw2, hw3, hw4, hw5, hw6, hw7, hw8, i0, i9, hn, g4, z4, nz4, y8, ny8, intChar_ascii hU, h1, h2, h3, h4, h5, h6, h7, h8, h9, h10]
                      clear hw1 hw2 hw3 hw4 hw5 hw6 hw7 hw8 hint
                      generalize digitSum (d9 * 2) + (digitSum d8 + (digitSum d4)) = S1
                      generalize digitSum (d9 * 2) + (digitSum d8) = S2
                      have eS1 : ((S1 : Int) % 10) = ((S1 % 10 : Nat) : Int) := by omega
                      have eS2 : ((S2 : Int) % 10) = ((S2 % 10 : Nat) : Int) := by omega
                      simp only [natToInt, rule10, eS1, eS2]
                      have hrS1 : S1 % 10 < 10 := Nat.mod_lt _ (by decide)
                      generalize S1 % 10 = rS1 at hrS1 ⊢
                      have hrS2 : S2 % 10 < 10 := Nat.mod_lt _ (by decide)
                      generalize S2 % 10 = rS2 at hrS2 ⊢
                      clear eS1 eS2
                      clear hn
                      revert hrS1; revert rS1
                      revert hrS2; revert rS2
                      revert h10; revert d10
                      decide +kernel
                  · have ny7 : ¬ (48 + d7 = 48) := by omega
                    de_simp [Gen.de_DE_68, rstrip0, lstrip0, Spec.de68, hint, hw1, hw2, hw3, hw4, hw5, hw6, hw7, hw8, i0, i9, hn, g4, z4, nz4, y7, ny7, intChar_ascii hU, h1, h2, h3, h4, h5, h6, h7, h8, h9, h10]
                    clear hw1 hw2 hw3 hw4 hw5 hw6 hw7 hw8 hint
                    generalize digitSum (d9 * 2) + (digitSum d8 + (digitSum (d7 * 2) + (digitSum d4))) = S1
                    generalize digitSum (d9 * 2) + (digitSum d8 + (digitSum (d7 * 2))) = S2
                    have eS1 : ((S1 : Int) % 10) = ((S1 % 10 : Nat) : Int) := by omega
                    have eS2 : ((S2 : Int) % 10) = ((S2 % 10 : Nat) : Int) := by omega
                    simp only [natToInt, rule10, eS1, eS2]
                    have hrS1 : S1 % 10 < 10 := Nat.mod_lt _ (by decide)
                    generalize S1 % 10 = rS1 at hrS1 ⊢
                    have hrS2 : S2 % 10 < 10 := Nat.mod_lt _ (by decide)
                    generalize S2 % 10 = rS2 at hrS2 ⊢
                    clear eS1 eS2
                    clear hn
                    revert hrS1; revert rS1
                    revert hrS2; revert rS2
                    revert h10; revert d10
                    decide +kernel
                · have ny6 : ¬ (48 + d6 = 48) := by omega
                  de_simp [Gen.de_DE_68, rstrip0, lstrip0, Spec.de68, hint, hw1, hw2, hw3, hw4, hw5, hw6, hw7, hw8, i0, i9, hn, g4, z4, nz4, y6, ny6, intChar_ascii hU, h1, h2, h3, h4, h5, h6, h7, h8, h9, h10]
                  clear hw1 hw2 hw3 hw4 hw5 hw6 hw7 hw8 hint
                  generalize digitSum (d9 * 2) + (digitSum d8 + (digitSum (d7 * 2) + (digitSum d6 + (digitSum d4)))) = S1
                  generalize digitSum (d9 * 2) + (digitSum d8 + (digitSum (d7 * 2) + (digitSum d6))) = S2
                  have eS1 : ((S1 : Int) % 10) = ((S1 % 10 : Nat) : Int) := by omega
                  have eS2 : ((S2 : Int) % 10) = ((S2 % 10 : Nat) : Int) := by omega
                  simp only [natToInt, rule10, eS1, eS2]
                  have hrS1 : S1 % 10 < 10 := Nat.mod_lt _ (by decide)
                  generalize S1 % 10 = rS1 at hrS1 ⊢
                  have hrS2 : S2 % 10 < 10 := Nat.mod_lt _ (by decide)
                  generalize S2 % 10 = rS2 at hrS2 ⊢
                  clear eS1 eS2
                  clear hn
                  revert hrS1; revert rS1
                  revert hrS2; revert rS2
                  revert h10; revert d10
                  decide +kernel
              · have ny5 : ¬ (48 + d5 = 48) := by omega
                de_simp [Gen.de_DE_68, rstrip0, lstrip0, Spec.de68, hint, hw1, hw2, hw3, hw4, hw5, hw6, hw7, hw8, i0, i9, hn, g4, z4, nz4, y5, ny5, intChar_ascii hU, h1, h2, h3, h4, h5, h6, h7, h8, h9, h10]
                clear hw1 hw2 hw3 hw4 hw5 hw6 hw7 hw8 hint
                generalize digitSum (d9 * 2) + (digitSum d8 + (digitSum (d7 * 2) + (digitSum d6 + (digitSum (d5 * 2) + (digitSum d4))))) = S1
                generalize digitSum (d9 * 2) + (digitSum d8 + (digitSum (d7 * 2) + (digitSum d6 + (digitSum (d5 * 2))))) = S2
                have eS1 : ((S1 : Int) % 10) = ((S1 % 10 : Nat) : Int) := by omega
                have eS2 : ((S2 : Int) % 10) = ((S2 % 10 : Nat) : Int) := by omega
                simp only [natToInt, rule10, eS1, eS2]
                have hrS1 : S1 % 10 < 10 := Nat.mod_lt _ (by decide)
                generalize S1 % 10 = rS1 at hrS1 ⊢
                have hrS2 : S2 % 10 < 10 := Nat.mod_lt _ (by decide)
                generalize S2 % 10 = rS2 at hrS2 ⊢
                clear eS1 eS2
                clear hn
                revert hrS1; revert rS1
                revert hrS2; revert rS2
                revert h10; revert d10
                decide +kernel
          · have nz3 : ¬ (48 + d3 = 48) := by omega
            by_cases y5 : d5 = 0
            · subst y5
              by_cases y6 : d6 = 0
              · subst y6
                by_cases y7 : d7 = 0
                · subst y7
                  by_cases y8 : d8 = 0
                  · subst y8
                    by_cases y9 : d9 = 0
                    · subst y9
                      de_simp [Gen.de_DE_68, rstrip0, lstrip0, Spec.de68, hint, hw1, hw2, hw3, hw4, hw5, hw6, hw7, hw8, i0, i9, hn, g4, z3, nz3, intChar_ascii hU, h1, h2, h3, h4, h5, h6, h7, h8, h9, h10]
                      clear hw1 hw2 hw3 hw4 hw5 hw6 hw7 hw8 hint
                      generalize digitSum d4 + (digitSum (d3 * 2)) = S1
                      have eS1 : ((S1 : Int) % 10) = ((S1 % 10 : Nat) : Int) := by omega
                      simp only [natToInt, rule10, eS1]
                      have hrS1 : S1 % 10 < 10 := Nat.mod_lt _ (by decide)
                      generalize S1 % 10 = rS1 at hrS1 ⊢
                      clear eS1
                      clear hn
                      revert hrS1; revert rS1
                      revert h10; revert d10
                      decide +kernel
                    · have ny9 : ¬ (48 + d9 = 48) := by omega
                      de_simp [Gen.de_DE_68, rstrip0, lstrip0, Spec.de68, hint, hw1, hw2, hw3, hw4, hw5, hw6, hw7, hw8, i0, i9, hn, g4, z3, nz3, y9, ny9, intChar_ascii hU, h1, h2, h3, h4, h5, h6, h7, h8, h9, h10]
                      clear hw1 hw2 hw3 hw4 hw5 hw6 hw7 hw8 hint
                      generalize digitSum (d9 * 2) + (digitSum d4 + (digitSum (d3 * 2))) = S1
                      generalize digitSum (d9 * 2) = S2
                      have eS1 : ((S1 : Int) % 10) = ((S1 % 10 : Nat) : Int) := by omega
                      have eS2 : ((S2 : Int) % 10) = ((S2 % 10 : Nat) : Int) := by omega
                      simp only [natToInt, rule10, eS1, eS2]
                      have hrS1 : S1 % 10 < 10 := Nat.mod_lt _ (by decide)
                      generalize S1 % 10 = rS1 at hrS1 ⊢
                      have hrS2 : S2 % 10 < 10 := Nat.mod_lt _ (by decide)
                      generalize S2 % 10 = rS2 at hrS2 ⊢
                      clear eS1 eS2
                      clear hn
                      revert hrS1; revert rS1
                      revert hrS2; revert rS2
                      revert h10; revert d10
                      decide +kernel
                  · have ny8 : ¬ (48 + d8 = 48) := by omega
                    de_simp [Gen.de_DE_68, rstrip0, lstrip0, Spec.de68, hint, hw1, hw2, hw3, hw4, hw5, hw6, hw7, hw8, i0, i9, hn, g4, z3, nz3, y8, ny8, intChar_ascii hU, h1, h2, h3, h4, h5, h6, h7, h8, h9, h10]
                    clear hw1 hw2 hw3 hw4 hw5 hw6 hw7 hw8 hint
                    generalize digitSum (d9 * 2) + (digitSum d8 + (digitSum d4 + (digitSum (d3 * 2)))) = S1
                    generalize digitSum (d9 * 2) + (digitSum d8) = S2
                    have eS1 : ((S1 : Int) % 10) = ((S1 % 10 : Nat) : Int) := by omega
                    have eS2 : ((S2 : Int) % 10) = ((S2 % 10 : Nat) : Int) := by omega
                    simp only [natToInt, rule10, eS1, eS2]
                    have hrS1 : S1 % 10 < 10 := Nat.mod_lt _ (by decide)
                    generalize S1 % 10 = rS1 at hrS1 ⊢
                    have hrS2 : S2 % 10 < 10 := Nat.mod_lt _ (by decide)
                    generalize S2 % 10 = rS2 at hrS2 ⊢
                    clear eS1 eS2
                    clear hn
                    revert hrS1; revert rS1
                    revert hrS2; revert rS2
                    revert h10; revert d10
                    decide +kernel
                · have ny7 : ¬ (48 + d7 = 48) := by omega
                  de_simp [Gen.de_DE_68, rstrip0, lstrip0, Spec.de68, hint, hw1, hw2, hw3, hw4, hw5, hw6, hw7, hw8, i0, i9, hn, g4, z3, nz3, y7, ny7, intChar_ascii hU, h1, h2, h3, h4, h5, h6, h7, h8, h9, h10]
                  clear hw1 hw2 hw3 hw4 hw5 hw6 hw7 hw8 hint
                  generalize digitSum (d9 * 2) + (digitSum d8 + (digitSum (d7 * 2) + (digitSum d4 + (digitSum (d3 * 2))))) = S1
                  generalize digitSum (d9 * 2) + (digitSum d8 + (digitSum (d7 * 2))) = S2
                  have eS1 : ((S1 : Int) % 10) = ((S1 % 10 : Nat) : Int) := by omega
                  have eS2 : ((S2 : Int) % 10) = ((S2 % 10 : Nat) : Int) := by omega
                  simp only [natToInt, rule10, eS1, eS2]
                  have hrS1 : S1 % 10 < 10 := Nat.mod_lt _ (by decide)
                  generalize S1 % 10 = rS1 at hrS1 ⊢
                  have hrS2 : S2 % 10 < 10 := Nat.mod_lt _ (by decide)
                  generalize S2 % 10 = rS2 at hrS2 ⊢
                  clear eS1 eS2
                  clear hn
                  revert hrS1; revert rS1
                  revert hrS2; revert rS2
                  revert h10; revert d10
                  decide +kernel
              · have ny6 : ¬ (48 + d6 = 48) := by omega
                de_simp [Gen.de_DE_68, rstrip0, lstrip0, Spec.de68, hint, hw1, hw2, hw3, hw4, hw5, hw6, hw7, hw8, i0, i9, hn, g4, z3, nz3, y6, ny6, intChar_ascii hU, h1, h2, h3, h4, h5, h6, h7, h8, h9, h10]
                clear hw1 hw2 hw3 hw4 hw5 hw6 hw7 hw8 hint
                generalize digitSum (d9 * 2) + (digitSum d8 + (digitSum (d7 * 2) + (digitSum d6 + (digitSum d4 + (digitSum (d3 * 2)))))) = S1
                generalize digitSum (d9 * 2) + (digitSum d8 + (digitSum (d7 * 2) + (digitSum d6))) = S2
                have eS1 : ((S1 : Int) % 10) = ((S1 % 10 : Nat) : Int) := by omega
                have eS2 : ((S2 : Int) % 10) = ((S2 % 10 : Nat) : Int) := by omega
                simp only [natToInt, rule10, eS1, eS2]
                have hrS1 : S1 % 10 < 10 := Nat.mod_lt _ (by decide)
                generalize S1 % 10 = rS1 at hrS1 ⊢
                have hrS2 : S2 % 10 < 10 := Nat.mod_lt _ (by decide)
                generalize S2 % 10 = rS2 at hrS2 ⊢
                clear eS1 eS2
                clear hn
                revert hrS1; revert rS1
                revert hrS2; revert rS2
                revert h10; revert d10
                decide +kernel
            · have ny5 : ¬ (48 + d5 = 48) := by omega
              de_simp [Gen.de_DE_68, rstrip0, lstrip0, Spec.de68, hint, hw1, hw2, hw3, hw4, hw5, hw6, hw7, hw8, i0, i9, hn, g4, z3, nz3, y5, ny5, intChar_ascii hU, h1, h2, h3, h4, h5, h6, h7, h8, h9, h10]
              clear hw1 hw2 hw3 hw4 hw5 hw6 hw7 hw8 hint
              generalize digitSum (d9 * 2) + (digitSum d8 + (digitSum (d7 * 2) + (digitSum d6 + (digitSum (d5 * 2) + (digitSum d4 + (digitSum (d3 * 2))))))) = S1
              generalize digitSum (d9 * 2) + (digitSum d8 + (digitSum (d7 * 2) + (digitSum d6 + (digitSum (d5 * 2))))) = S2
              have eS1 : ((S1 : Int) % 10) = ((S1 % 10 : Nat) : Int) := by omega
              have eS2 : ((S2 : Int) % 10) = ((S2 % 10 : Nat) : Int) := by omega
              simp only [natToInt, rule10, eS1, eS2]
              have hrS1 : S1 % 10 < 10 := Nat.mod_lt _ (by decide)
              generalize S1 % 10 = rS1 at hrS1 ⊢
              have hrS2 : S2 % 10 < 10 := Nat.mod_lt _ (by decide)
              generalize S2 % 10 = rS2 at hrS2 ⊢
              clear eS1 eS2
              clear hn
              revert hrS1; revert rS1
              revert hrS2; revert rS2
              revert h10; revert d10
              decide +kernel
        · have nz2 : ¬ (48 + d2 = 48) := by omega
          de_simp [Gen.de_DE_68, rstrip0, lstrip0, Spec.de68, hint, hw1, hw2, hw3, hw4, hw5, hw6, hw7, hw8, i0, i9, hn, g4, z2, nz2, intChar_ascii hU, h1, h2, h3, h4, h5, h6, h7, h8, h9, h10]
          clear hw1 hw2 hw3 hw4 hw5 hw6 hw7 hw8 hint
          generalize digitSum (d9 * 2) + (digitSum d8 + (digitSum (d7 * 2) + (digitSum d6 + (digitSum (d5 * 2) + (digitSum d4 + (digitSum (d3 * 2) + (digitSum d2))))))) = S1
          generalize digitSum (d9 * 2) + (digitSum d8 + (digitSum (d7 * 2) + (digitSum d6 + (digitSum (d5 * 2) + (digitSum d2))))) = S2
          have eS1 : ((S1 : Int) % 10) = ((S1 % 10 : Nat) : Int) := by omega
          have eS2 : ((S2 : Int) % 10) = ((S2 % 10 : Nat) : Int) := by omega
          simp only [natToInt, rule10, eS1, eS2]
          have hrS1 : S1 % 10 < 10 := Nat.mod_lt _ (by decide)
          generalize S1 % 10 = rS1 at hrS1 ⊢
          have hrS2 : S2 % 10 < 10 := Nat.mod_lt _ (by decide)
          generalize S2 % 10 = rS2 at hrS2 ⊢
          clear eS1 eS2
          clear hn
          revert hrS1; revert rS1
          revert hrS2; revert rS2
          revert h10; revert d10
          decide +kernel
      )
  · have hn : ¬ (num [d1, d2, d3, d4, d5, d6, d7, d8, d9, d10] 0 ≤ 499999999) := by simp only [num]; omega
    have nz1 : ¬ (48 + d1 = 48) := by omega
    by_cases g9 : d4 = 9
    · subst g9
      de_simp [Gen.de_DE_68, rstrip0, lstrip0, Spec.de68, hint, hw1, hw2, hw3, hw4, hw5, hw6, hw7, hw8, i0, i9, hn, z1, nz1, intChar_ascii hU, h1, h2, h3, h4, h5, h6, h7, h8, h9, h10]
      clear hw1 hw2 hw3 hw4 hw5 hw6 hw7 hw8 hint
      generalize digitSum (d9 * 2) + (digitSum d8 + (digitSum (d7 * 2) + (digitSum d6 + (digitSum (d5 * 2) + digitSum 9)))) = S1
      have eS1 : ((S1 : Int) % 10) = ((S1 % 10 : Nat) : Int) := by omega
      simp only [natToInt, rule10, eS1]
      have hrS1 : S1 % 10 < 10 := Nat.mod_lt _ (by decide)
      generalize S1 % 10 = rS1 at hrS1 ⊢
      clear eS1
      clear hn nz1
      revert hrS1; revert rS1
      revert h10; revert d10
      decide +kernel
    · have c9 : ¬ (48 + d4 = 57) := by omega
      de_simp [Gen.de_DE_68, rstrip0, lstrip0, Spec.de68, hint, hw1, hw2, hw3, hw4, hw5, hw6, hw7, hw8, i0, i9, hn, z1, nz1, g9, c9, deVerdict, deAccepts, intChar_ascii hU, h1, h2, h3, h4, h5, h6, h7, h8, h9, h10]


end SV.Props.C07
