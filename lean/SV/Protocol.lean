/-
  SV.Protocol — encoding of the driver's line protocol (hex code points, canonical results).
-/
import SV.Model.Iban
namespace SV

def hexDigit (c : Char) : Option Nat :=
  if '0' ≤ c ∧ c ≤ '9' then some (c.toNat - 48)
  else if 'a' ≤ c ∧ c ≤ 'f' then some (c.toNat - 87)
  else if 'A' ≤ c ∧ c ≤ 'F' then some (c.toNat - 55)
  else none

def parseHex (s : String) : Option Nat :=
  if s.isEmpty then none
  else s.foldl (fun acc c => match acc, hexDigit c with
    | some a, some d => some (a * 16 + d)
    | _, _ => none) (some 0)

def parseStr (s : String) : Option Str :=
  if s == "-" then some []
  else (s.splitOn ".").mapM parseHex

def hexOf (n : Nat) : String := String.ofList (Nat.toDigits 16 n)

def showStr (s : Str) : String :=
  if s.isEmpty then "-" else ".".intercalate (s.map hexOf)

def showErr : Err → String
  | .schwifty => "SchwiftyException" | .invalidLength => "InvalidLength"
  | .invalidStructure => "InvalidStructure" | .invalidCountryCode => "InvalidCountryCode"
  | .invalidBankCode => "InvalidBankCode" | .invalidBranchCode => "InvalidBranchCode"
  | .invalidAccountCode => "InvalidAccountCode" | .invalidChecksumDigits => "InvalidChecksumDigits"
  | .invalidBBANChecksum => "InvalidBBANChecksum"
  | .generateRandomOverflow => "GenerateRandomOverflowError"

def showCrash : Crash → String
  | .valueError => "ValueError" | .keyError => "KeyError" | .indexError => "IndexError"
  | .typeError => "TypeError" | .assertionError => "AssertionError" | .other => "Other"

def showRes {α : Type} (f : α → String) : Res α → String
  | .ok a => "ok " ++ f a
  | .err e => "err " ++ showErr e
  | .crash c => "crash " ++ showCrash c

def showBool (b : Bool) : String := if b then "T" else "F"
def showList (l : List Str) : String := "[" ++ ",".intercalate (l.map showStr) ++ "]"
def showOpt : Option Str → String
  | none => "None"
  | some s => showStr s

def parseBool (s : String) : Option Bool :=
  if s == "T" then some true else if s == "F" then some false else none

def parseComponent (s : String) : Option Component :=
  match s with
  | "account_id" => some .accountId | "account_type" => some .accountType
  | "account_code" => some .accountCode | "account_holder_id" => some .accountHolderId
  | "currency_code" => some .currencyCode | "bank_code" => some .bankCode
  | "branch_code" => some .branchCode | "national_checksum_digits" => some .nationalChecksumDigits
  | _ => none

def parseKV (s : String) : Option (Component × Str) :=
  match s.splitOn "=" with
  | [k, v] => do
    let k ← parseComponent k
    let v ← parseStr v
    pure (k, v)
  | _ => none


end SV
