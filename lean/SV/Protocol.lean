/-
  SV.Protocol — encoding of the driver's line protocol (hex code points, canonical results).
-/
import SV.Model.Iban
import SV.Model.Registry
namespace SV

def hexDigit (c : Char) : Option Nat :=
  if '0' ≤ c ∧ c ≤ '9' then some (c.toNat - 48)
  else if 'a' ≤ c ∧ c ≤ 'f' then some (c.toNat - 87)
  else if 'A' ≤ c ∧ c ≤ 'F' then some (c.toNat - 55)
  else none

def parseHex (s : String) : Option Nat :=
  if s.isEmpty then none
  else s.foldl (fun acc c => match acc, hexDigit c with
    | some a, some d => some (a * 16 + d)
    | _, _ => none) (some 0)

def parseStr (s : String) : Option Str :=
  if s == "-" then some []
  else (s.splitOn ".").mapM parseHex

def hexOf (n : Nat) : String := String.ofList (Nat.toDigits 16 n)

def showStr (s : Str) : String :=
  if s.isEmpty then "-" else ".".intercalate (s.map hexOf)

def showErr : Err → String
  | .schwifty => "SchwiftyException" | .invalidLength => "InvalidLength"
  | .invalidStructure => "InvalidStructure" | .invalidCountryCode => "InvalidCountryCode"
  | .invalidBankCode => "InvalidBankCode" | .invalidBranchCode => "InvalidBranchCode"
  | .invalidAccountCode => "InvalidAccountCode" | .invalidChecksumDigits => "InvalidChecksumDigits"
  | .invalidBBANChecksum => "InvalidBBANChecksum"
  | .generateRandomOverflow => "GenerateRandomOverflowError"

def showCrash : Crash → String
  | .valueError => "ValueError" | .keyError => "KeyError" | .indexError => "IndexError"
  | .typeError => "TypeError" | .assertionError => "AssertionError" | .other => "Other"

def showRes {α : Type} (f : α → String) : Res α → String
  | .ok a => "ok " ++ f a
  | .err e => "err " ++ showErr e
  | .crash c => "crash " ++ showCrash c

def showBool (b : Bool) : String := if b then "T" else "F"
def showList (l : List Str) : String := "[" ++ ",".intercalate (l.map showStr) ++ "]"
def showOpt : Option Str → String
  | none => "None"
  | some s => showStr s

def parseBool (s : String) : Option Bool :=
  if s == "T" then some true else if s == "F" then some false else none

def parseComponent (s : String) : Option Component :=
  match s with
  | "account_id" => some .accountId | "account_type" => some .accountType
  | "account_code" => some .accountCode | "account_holder_id" => some .accountHolderId
  | "currency_code" => some .currencyCode | "bank_code" => some .bankCode
  | "branch_code" => some .branchCode | "national_checksum_digits" => some .nationalChecksumDigits
  | _ => none

def parseKV (s : String) : Option (Component × Str) :=
  match s.splitOn "=" with
  | [k, v] => do
    let k ← parseComponent k
    let v ← parseStr v
    pure (k, v)
  | _ => none


end SV

namespace SV

/-! ### JSON documents in the line protocol: space-separated prefix tokens
    `n` | `t` | `f` | `i<int>` | `s<hex>` | `a<count> item…` | `o<count> key value …` -/

def parseIntTok (s : String) : Option Int :=
  if s.startsWith "-" then (s.drop 1).toString.toNat?.map (fun n => -(n : Int)) else s.toNat?.map (fun n => (n : Int))

mutual
partial def parseJTok : List String → Option (J × List String)
  | [] => none
  | t :: rest =>
    if t == "n" then some (.null, rest)
    else if t == "t" then some (.bool true, rest)
    else if t == "f" then some (.bool false, rest)
    else if t.startsWith "i" then (parseIntTok (t.drop 1).toString).map (fun n => (.num n, rest))
    else if t.startsWith "s" then (parseStr (t.drop 1).toString).map (fun s => (.str s, rest))
    else if t.startsWith "a" then
      match (t.drop 1).toString.toNat? with
      | some n => (parseJItems n rest).map (fun (l, r) => (.arr l, r))
      | none => none
    else if t.startsWith "o" then
      match (t.drop 1).toString.toNat? with
      | some n => (parseJMembers n rest).map (fun (l, r) => (.obj l, r))
      | none => none
    else none
partial def parseJItems : Nat → List String → Option (List J × List String)
  | 0, rest => some ([], rest)
  | n + 1, rest =>
    match parseJTok rest with
    | some (v, rest') => (parseJItems n rest').map (fun (l, r) => (v :: l, r))
    | none => none
partial def parseJMembers : Nat → List String → Option (List (Str × J) × List String)
  | 0, rest => some ([], rest)
  | n + 1, k :: rest =>
    match parseStr k, parseJTok rest with
    | some k, some (v, rest') => (parseJMembers n rest').map (fun (l, r) => ((k, v) :: l, r))
    | _, _ => none
  | _ + 1, [] => none
end

def parseJ (s : String) : Option J :=
  match parseJTok ((s.splitOn " ").filter (· ≠ "")) with
  | some (v, []) => some v
  | _ => none

def insertMember (p : Str × J) : List (Str × J) → List (Str × J)
  | [] => [p]
  | q :: t => if strLt p.1 q.1 then p :: q :: t else q :: insertMember p t

/-- Canonical text: object members sorted by key. -/
partial def showJ : J → String
  | .null => "n"
  | .bool true => "t"
  | .bool false => "f"
  | .num n => "i" ++ toString n
  | .str s => "s" ++ showStr s
  | .arr l => " ".intercalate (("a" ++ toString l.length) :: l.map showJ)
  | .obj kv =>
    let sorted := kv.foldr insertMember []
    " ".intercalate (("o" ++ toString kv.length) :: sorted.flatMap (fun p => [showStr p.1, showJ p.2]))

end SV
