/-
  SV.Model.Bic — `schwifty/bic.py` and the bank-registry indexes of `schwifty/registry.py`.
-/
import SV.Model.Germany
namespace SV

/-- One entry of `registry.get("bank")` (after v2 expansion). -/
structure BankEntry where
  countryCode : Str
  bankCode : Str
  /-- `None` for JSON `null`. -/
  bic : Option Str
  primary : Bool
  /-- `entry.get("checksum_algo")`; `none` when the key is absent. -/
  checksumAlgo : Option Str
  name : Str
  shortName : Str
  deriving DecidableEq, Repr, Inhabited

abbrev Registry := List BankEntry

/-- `registry.get("bank_code")[(cc, code)]` — index built with `accumulate=True`, entries whose
    key has an empty member are skipped; `none` is `KeyError`. -/
def Registry.byBankCode (R : Registry) (cc code : Str) : Option (List BankEntry) :=
  if cc = [] || code = [] then none
  else match R.filter (fun e => e.countryCode == cc && e.bankCode == code) with
    | [] => none
    | l => some l

/-- `registry.get("bic").get(bic, [])`. -/
def Registry.byBic (R : Registry) (b : Str) : List BankEntry :=
  if b = [] then [] else R.filter (fun e => e.bic == some b)

/-- `registry.get("country").get(cc)`. -/
def Registry.byCountry (R : Registry) (cc : Str) : Option (List BankEntry) :=
  if cc = [] then none
  else match R.filter (fun e => e.countryCode == cc) with
    | [] => none
    | l => some l

/-! ### BIC validation -/

/-- The two compiled patterns of `bic.py`, as data (from the translator): four items
    `prefix{4} country{2} location{2}` and the optional tail `branch{3}`. -/
structure BicPattern where
  head : List Item
  tail : Option (List Item)
  deriving DecidableEq, Repr, Inhabited

/-- `regex.fullmatch(s)` for `head(?:tail)?`. -/
def BicPattern.fullmatch (U : Unicode) (p : BicPattern) (s : Str) : Bool :=
  let rec go : List Item → List Item → Str → Bool
    | [], tl, s => s == [] || (tl != [] && goTail tl s)
    | it :: rest, tl, s => matchRep (it.cls.test U) it.lo it.hi s (go rest tl)
  go p.head (p.tail.getD []) s
where
  goTail : List Item → Str → Bool
    | [], s => s == []
    | it :: rest, s => matchRep (it.cls.test U) it.lo it.hi s (goTail rest)

structure BicCtx where
  U : Unicode
  /-- pycountry's alpha-2 codes (`countries.get(alpha_2=…) is not None`). -/
  iso : List Str
  iso9362 : BicPattern
  swift : BicPattern

/-- `BIC.validate(enforce_swift_compliance)` on the compact string. -/
def BIC.validate (X : BicCtx) (c : Str) (strict : Bool) : Res Bool :=
  if c.length ≠ 8 && c.length ≠ 11 then .err .invalidLength
  else if !((if strict then X.swift else X.iso9362).fullmatch X.U c) then .err .invalidStructure
  else if !(X.iso.contains (getSlice c 4 (some 6))) then .err .invalidCountryCode
  else .ok true

/-- `BIC(text, allow_invalid, enforce_swift_compliance)`: the compact string of the new
    object. -/
def BIC.new (X : BicCtx) (s : Str) (allowInvalid strict : Bool) : Res Str :=
  let c := clean X.U s
  if allowInvalid then .ok c
  else do
    let _ ← BIC.validate X c strict
    pure c

/-- `bic.is_valid`. -/
def BIC.isValid (X : BicCtx) (c : Str) : Res Bool :=
  (BIC.validate X c false).catchLib (fun _ => .ok false)

def BIC.bankCode (c : Str) : Str := getSlice c 0 (some 4)
def BIC.countryCode (c : Str) : Str := getSlice c 4 (some 6)
def BIC.locationCode (c : Str) : Str := getSlice c 6 (some 8)
def BIC.branchCode (c : Str) : Str := getSlice c 8 (some 11)

/-- `bic.formatted`. -/
def BIC.formatted (c : Str) : Str :=
  let f := BIC.bankCode c ++ [32] ++ BIC.countryCode c ++ [32] ++ BIC.locationCode c
  if BIC.branchCode c != [] then f ++ [32] ++ BIC.branchCode c else f

/-! ### bank code → BIC -/

/-- `sorted(entries, key=itemgetter("primary"), reverse=True)`: stable, `True` first. -/
def sortPrimaryFirst (l : List BankEntry) : List BankEntry :=
  l.filter (·.primary) ++ l.filter (fun e => !e.primary)

/-- `[cls(entry["bic"]) for entry in banks if entry["bic"]]` — every construction validates. -/
def bicsOf (X : BicCtx) : List BankEntry → Res (List Str)
  | [] => .ok []
  | e :: t =>
    match e.bic with
    | none => bicsOf X t
    | some b =>
      if b = [] then bicsOf X t
      else do
        let c ← BIC.new X b false false
        let r ← bicsOf X t
        pure (c :: r)

/-- `BIC.candidates_from_bank_code`. -/
def BIC.candidates (X : BicCtx) (R : Registry) (cc code : Str) : Res (List Str) :=
  match R.byBankCode cc code with
  | none => .err .invalidBankCode
  | some l => bicsOf X (sortPrimaryFirst l)

/-- `sorted(xs)[-1]` for a non-empty list of strings. -/
def maxStr : List Str → Option Str
  | [] => none
  | a :: t => match maxStr t with
    | none => some a
    | some m => some (if strLt m a then a else m)

/-- `BIC.from_bank_code`. -/
def BIC.fromBankCode (X : BicCtx) (R : Registry) (cc code : Str) : Res Str := do
  let cands ← BIC.candidates X R cc code
  let pick : Option Str :=
    if cands.length > 1 then
      match maxStr (cands.filter (fun c => BIC.branchCode c == [])) with
      | some m => some m
      | none => maxStr (cands.filter (fun c => BIC.branchCode c == [88, 88, 88]))
    else none
  match pick with
  | some m => pure m
  | none => match cands with
    | c :: _ => pure c
    | [] => .err .invalidBankCode

/-- `sorted({entry[key] for entry in entries})` (set, then sorted). -/
def sortedSet (l : List Str) : List Str :=
  let rec ins (x : Str) : List Str → List Str
    | [] => [x]
    | y :: t => if x == y then y :: t else if strLt x y then x :: y :: t else y :: ins x t
  l.foldl (fun acc x => ins x acc) []

def BIC.domesticBankCodes (R : Registry) (c : Str) : List Str :=
  sortedSet ((R.byBic c).map (·.bankCode))
def BIC.bankNames (R : Registry) (c : Str) : List Str :=
  sortedSet ((R.byBic c).map (·.name))
def BIC.bankShortNames (R : Registry) (c : Str) : List Str :=
  sortedSet ((R.byBic c).map (·.shortName))
def BIC.exists_ (R : Registry) (c : Str) : Bool := (R.byBic c) != []

end SV
