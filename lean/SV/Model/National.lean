/-
  SV.Model.National — the national check-digit algorithms of `schwifty/checksum/*.py`
  (everything except Germany).  Every class is modelled by its `compute` and `validate`,
  statement for statement, with the partial Python primitives (`int`, `str.index`, dict `[]`,
  tuple unpacking, subscripts) returning an explicit `crash`.
-/
import SV.Model.Checksum
namespace SV

def joinStrs (cs : List Str) : Str := cs.flatten

/-! ### ISO 7064 mod 97-10 family -/

/-- `ISO7064_mod97_10.pre_process`: `numerify("".join(components)) * 100`. -/
def isoPre (U : Unicode) (cs : List Str) : Res Nat := do
  let n ← numerify U (joinStrs cs)
  pure (n * 100)

/-- `iso7064(n, 97, post)` = `f"{post(n % 97):02d}"`. -/
def iso7064 (n : Nat) (post : Nat → Nat) : Str := fmt02 (post (n % 97))

/-- `ISO7064_mod97_10.compute` with `post_process r = 98 - r` (BA, ME, MK, PT, RS, SI, TL, and
    the IBAN check digits themselves). -/
def isoDefaultCompute (U : Unicode) (cs : List Str) : Res Str := do
  let n ← isoPre U cs
  pure (iso7064 n (fun r => 98 - r))

/-- MR, TN: `post_process r = 97 - r`. -/
def isoVariantCompute (U : Unicode) (cs : List Str) : Res Str := do
  let n ← isoPre U cs
  pure (iso7064 n (fun r => 97 - r))

/-- BE: `pre_process = super().pre_process(components) // 100`, `post r = r if r != 0 else 97`. -/
def beCompute (U : Unicode) (cs : List Str) : Res Str := do
  let n ← isoPre U cs
  pure (iso7064 (n / 100) (fun r => if r ≠ 0 then r else 97))

/-- `france.numerics[c]`; `none` is `KeyError`. -/
def frNumeric (c : Nat) : Option Nat :=
  if isAsciiDigit c then some (c - 48)
  else if 65 ≤ c && c ≤ 73 then some (c - 64)        -- A..I -> 1..9
  else if 74 ≤ c && c ≤ 82 then some (c - 73)        -- J..R -> 1..9
  else if 83 ≤ c && c ≤ 90 then some (c - 81)        -- S..Z -> 2..9
  else none

/-- `france.numerify`: `int("".join(numerics[c] for c in value))`. -/
def frNumerify (U : Unicode) : Str → Nat → Nat → Res Nat
  | [], v, n => if n = 0 || U.maxIntDigits < n then .crash .valueError else .ok v
  | c :: t, v, n =>
    match frNumeric c with
    | some d => frNumerify U t (v * 10 + d) (n + 1)
    | none => .crash .keyError

/-- FR, MC. -/
def frCompute (U : Unicode) (cs : List Str) : Res Str :=
  match cs with
  | [bank, branch, account] => do
    let a ← frNumerify U bank 0 0
    let b ← frNumerify U branch 0 0
    let c ← frNumerify U account 0 0
    pure (iso7064 (89 * a + 15 * b + 3 * c) (fun r => 97 - r))
  | _ => .crash .valueError

/-! ### Weighted sums -/

def esReconcile (n : Nat) : Nat := if n = 11 then 0 else if n = 10 then 1 else n

def esWeights : List Nat := [1, 2, 4, 8, 5, 10, 9, 7, 3, 6]

/-- ES. -/
def esCompute (U : Unicode) (cs : List Str) : Res Str :=
  match cs with
  | [bank, branch, account] => do
    let w1 ← weighted U (bank ++ branch) 11 (esWeights.drop 2)
    let w2 ← weighted U account 11 esWeights
    pure (natToDigits (esReconcile (11 - w1)) ++ natToDigits (esReconcile (11 - w2)))
  | _ => .crash .valueError

/-- PL. -/
def plCompute (U : Unicode) (cs : List Str) : Res Str := do
  let d ← weighted U (joinStrs cs) 10 [3, 9, 7, 1, 3, 9, 7]
  pure (natToDigits (if d = 0 then d else 10 - d))

/-- `zip(cycle(ws), value)` weights for a value of length `n`. -/
def cycleWeights (ws : List Nat) (n : Nat) : List Nat :=
  if ws = [] then [] else (List.range n).map (fun i => ws.getD (i % ws.length) 0)

/-- EE. -/
def eeCompute (U : Unicode) (cs : List Str) : Res Str := do
  let v := (joinStrs cs).reverse
  let d ← weighted U v 10 (cycleWeights [7, 3, 1] v.length)
  pure (natToDigits (if d = 0 then d else 10 - d))

/-- CZ, SK: `compute` returns `""`. -/
def czValidate (U : Unicode) (cs : List Str) : Res Bool :=
  match cs with
  | [branch, account] => do
    let w := [6, 3, 7, 9, 10, 5, 8, 4, 2, 1]
    let d1 ← weighted U branch 11 (w.drop 4)
    let d2 ← weighted U account 11 w
    pure (d1 == 0 && d2 == 0)
  | _ => .crash .valueError

/-- IS `compute`. -/
def isCompute (U : Unicode) (cs : List Str) : Res Str :=
  match cs with
  | [holder] => do
    let r ← weighted U holder 11 [3, 2, 7, 6, 5, 4, 3, 2]
    pure (if r = 0 then natToDigits r else natToDigits (11 - r))
  | _ => .crash .valueError

/-- IS `validate`: `self.compute(components) == account_holder_id[8]`. -/
def isValidate (U : Unicode) (cs : List Str) : Res Bool :=
  match cs with
  | [holder] => do
    let c ← isCompute U cs
    match holder[8]? with
    | some x => pure (c == [x])
    | none => .crash .indexError
  | _ => .crash .valueError

/-- NO. -/
def noCompute (U : Unicode) (cs : List Str) : Res Str :=
  match cs with
  | [_, account] => do
    let value := if account.take 2 == [48, 48] then account.drop 2 else joinStrs cs
    let total ← weightedSum U [5, 4, 3, 2, 7, 6, 5, 4, 3, 2] value
    let check := 11 - total % 11
    if check = 10 then .err .invalidAccountCode else pure (natToDigits (check % 11))
  | _ => .crash .valueError

/-! ### Luhn (FI) -/

/-- `"".join(str(_alphabet.index(n)) for n in value)` as a list of decimal digit values. -/
def luhnNumerical : Str → Res (List Nat)
  | [] => .ok []
  | c :: t =>
    match alphaIndex c with
    | some i => do
      let r ← luhnNumerical t
      pure (if i < 10 then i :: r else (i / 10) :: (i % 10) :: r)
    | none => .crash .valueError

/-- Sum of the decimal digits of `n`. -/
def digitSumAux : Nat → Nat → Nat
  | 0, n => n
  | f + 1, n => if n < 10 then n else n % 10 + digitSumAux f (n / 10)

def digitSum (n : Nat) : Nat := digitSumAux n n

@[simp] theorem digitSum_zero : digitSum 0 = 0 := rfl

/-- `sum(int(n) for n in "".join(str((2 - i % 2) * int(n)) for i, n in enumerate(reversed(num))))`. -/
def luhnSum : List Nat → Nat → Nat
  | [], _ => 0
  | d :: t, i => digitSum ((2 - i % 2) * d) + luhnSum t (i + 1)

/-- `checksum.luhn`. -/
def luhn (value : Str) : Res Str := do
  let num ← luhnNumerical value
  let s := luhnSum num.reverse 0
  pure (natToDigits ((10 - s % 10) % 10))

def fiCompute (cs : List Str) : Res Str := luhn (joinStrs cs)

/-! ### Italy / San Marino -/

def upperAlphabet : Str := (List.range 26).map (· + 65)

/-- `haystack.index(needle)`; `none` is `ValueError`. -/
def indexOfSub (needle : Str) : Str → Nat → Option Nat
  | [], i => if needle == [] then some i else none
  | c :: t, i => if needle.isPrefixOf (c :: t) then some i else indexOfSub needle t (i + 1)

/-- `italy.get_index`. -/
def itGetIndex (U : Unicode) (c : Nat) : Res Nat :=
  if isAsciiDigit c then .ok (c - 48)
  else match indexOfSub (U.upper c) upperAlphabet 0 with
    | some i => .ok i
    | none => .crash .valueError

def itOdds : List Nat :=
  [1, 0, 5, 7, 9, 13, 15, 17, 19, 21, 2, 4, 18, 20, 11, 3, 6, 8, 12, 14, 16, 10, 22, 25, 24, 23]

def itSum (U : Unicode) : Str → Nat → Res Nat
  | [], _ => .ok 0
  | c :: t, i => do
    let k ← itGetIndex U c
    let v ← (if (i + 1) % 2 == 0 then Res.ok k
             else match itOdds[k]? with
               | some o => Res.ok o
               | none => .crash .indexError)
    let r ← itSum U t (i + 1)
    pure (v + r)

def itCompute (U : Unicode) (cs : List Str) : Res Str := do
  let s ← itSum U (joinStrs cs) 0
  pure [65 + s % 26]

/-! ### Dispatch -/

/-- Which class is registered under a key of `checksum.algorithms` (Germany is separate). -/
inductive NatAlgo
  | isoDefault | isoVariant | be | fr | es | pl | ee | czsk | is_ | no | fi | it
  deriving DecidableEq, Repr, Inhabited

def NatAlgo.compute (U : Unicode) : NatAlgo → List Str → Res Str
  | .isoDefault, cs => isoDefaultCompute U cs
  | .isoVariant, cs => isoVariantCompute U cs
  | .be, cs => beCompute U cs
  | .fr, cs => frCompute U cs
  | .es, cs => esCompute U cs
  | .pl, cs => plCompute U cs
  | .ee, cs => eeCompute U cs
  | .czsk, _ => .ok []
  | .is_, cs => isCompute U cs
  | .no, cs => noCompute U cs
  | .fi, cs => fiCompute cs
  | .it, cs => itCompute U cs

/-- `Algorithm.validate` = `compute(components) == expected` unless overridden. -/
def NatAlgo.validate (U : Unicode) : NatAlgo → List Str → Str → Res Bool
  | .czsk, cs, _ => czValidate U cs
  | .is_, cs, _ => isValidate U cs
  | a, cs, expected => do
    let c ← a.compute U cs
    pure (c == expected)

end SV
