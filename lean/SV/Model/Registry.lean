/-
  SV.Model.Registry — `schwifty/registry.py`: JSON documents, `merge_dicts`, `parse_v2`, and the
  composition of the files of a registry directory in `registry.get`.
-/
import SV.Model.Basic
namespace SV

/-- A JSON value as `json.load` delivers it.  Object members keep their order; equality of
    documents is order-insensitive (`J.eqv`), as for Python dicts. -/
inductive J where
  | null
  | bool (b : Bool)
  | num (n : Int)
  | str (s : Str)
  | arr (l : List J)
  | obj (kv : List (Str × J))
  deriving Repr, Inhabited

/-- `d.get(k)` on the members of an object. -/
def lookupJ (k : Str) : List (Str × J) → Option J
  | [] => none
  | (k', v) :: t => if k == k' then some v else lookupJ k t

def hasKey (k : Str) (kv : List (Str × J)) : Bool := (lookupJ k kv).isSome

mutual
/-- `merge_dicts(left, right)`: keys of both with two dict values are merged recursively,
    otherwise the right value wins; the other keys are kept.  (The order of the members of the
    result is one of the orders Python may produce; it depends on the hash seed there.) -/
def J.merge : J → J → J
  | .obj l, .obj r => .obj (mergeL l r ++ r.filter (fun p => !(hasKey p.1 l)))
  | _, r => r
/-- The members of the left operand, each merged with the right operand's member of that name. -/
def mergeL : List (Str × J) → List (Str × J) → List (Str × J)
  | [], _ => []
  | (k, v) :: t, r =>
    (k, match lookupJ k r with
        | some rv => J.merge v rv
        | none => v) :: mergeL t r
end

/-- `merge_dicts` is only ever called with two dicts (`registry.get` guards it). -/
def mergeDicts (l r : List (Str × J)) : List (Str × J) :=
  mergeL l r ++ r.filter (fun p => !(hasKey p.1 l))

/-! ### `parse_v2` -/

def removeKey (k : Str) : List (Str × J) → List (Str × J)
  | [] => []
  | (k', v) :: t => if k == k' then removeKey k t else (k', v) :: removeKey k t

/-- `d[k] = v` on an ordered dict: replace in place, or append. -/
def setKey (k : Str) (v : J) : List (Str × J) → List (Str × J)
  | [] => [(k, v)]
  | (k', v') :: t => if k == k' then (k, v) :: t else (k', v') :: setKey k v t

def strPrimary : Str := [112, 114, 105, 109, 97, 114, 121]   -- "primary"

/-- `expand(entry, src, dst)`: `values = entry.pop(src)`, `entry.setdefault("primary", False)`,
    `[{**entry, dst: value} for value in values]`.  `none` is a `KeyError` / `TypeError`. -/
def expandEntry (src dst : Str) : J → Option (List J)
  | .obj kv =>
    match lookupJ src kv with
    | some (.arr vs) =>
      let rest := removeKey src kv
      let rest := if hasKey strPrimary rest then rest else rest ++ [(strPrimary, .bool false)]
      some (vs.map (fun v => .obj (setKey dst v rest)))
    | _ => none
  | _ => none

def strEntries : Str := [101, 110, 116, 114, 105, 101, 115]
def strExpandFrom : Str := [101, 120, 112, 97, 110, 100, 95, 102, 114, 111, 109]
def strExpandInto : Str := [101, 120, 112, 97, 110, 100, 95, 105, 110, 116, 111]

def flattenOpt : List (Option (List J)) → Option (List J)
  | [] => some []
  | none :: _ => none
  | some l :: t => (flattenOpt t).map (l ++ ·)

/-- `parse_v2(data)`.  The generator expression looks `expand_from` / `expand_into` up once per
    entry, so a document without entries needs neither. -/
def parseV2 : J → Option (List J)
  | .obj kv =>
    match lookupJ strEntries kv with
    | some (.arr []) => some []
    | some (.arr es) =>
      match lookupJ strExpandFrom kv, lookupJ strExpandInto kv with
      | some (.str src), some (.str dst) => flattenOpt (es.map (expandEntry src dst))
      | _, _ => none
    | _ => none
  | _ => none

/-! ### `registry.get` -/

/-- One `*.json` file of a registry directory. -/
structure RegFile where
  name : Str      -- file name, e.g. `overwrite.json`
  doc : J
  deriving Repr, Inhabited

/-- `sorted(directory.glob("*.json"))`: paths of one directory compare by file name. -/
def insertByName (f : RegFile) : List RegFile → List RegFile
  | [] => [f]
  | g :: t => if strLt f.name g.name then f :: g :: t else g :: insertByName f t

def sortByName (fs : List RegFile) : List RegFile := fs.foldr insertByName []

/-- `entry.stem.endswith("v2")` for a name ending in `.json`. -/
def isV2 (name : Str) : Bool :=
  let stem := name.take (name.length - 5)
  stem.drop (stem.length - 2) == [118, 50]

/-- The chunk a file contributes (`parse_v2` for v2 files); `none` is an exception. -/
def chunkOf (f : RegFile) : Option J :=
  if isV2 f.name then (parseV2 f.doc).map J.arr else some f.doc

/-- One step of the loop in `registry.get`: the first chunk is taken as is; a list is extended;
    a dict is merged.  (A dict chunk after a list, or a scalar, leaves `data` unchanged except
    where Python would raise — `list.extend(dict)` extends with the keys; modelled as `none`.) -/
def stepGet (data : Option J) (chunk : J) : Option (Option J) :=
  match data, chunk with
  | none, c => some (some c)
  | some (.arr l), .arr c => some (some (.arr (l ++ c)))
  | some (.arr l), .obj kv => some (some (.arr (l ++ kv.map (fun p => J.str p.1))))   -- extend with the keys
  | some (.arr l), .str s => some (some (.arr (l ++ s.map (fun c => J.str [c]))))      -- … with the characters
  | some (.arr _), _ => none
  | some (.obj l), .obj r => some (some (.obj (mergeDicts l r)))
  | some (.obj _), _ => none
  | some d, _ => some (some d)

def foldGet : List RegFile → Option J → Option (Option J)
  | [], data => some data
  | f :: t, data =>
    match chunkOf f with
    | none => none
    | some c => match stepGet data c with
      | none => none
      | some d => foldGet t d

/-- `registry.get(name)` for a directory with the given files; `none` = an exception escapes
    (including "Failed to load registry" for an empty directory). -/
def registryGet (files : List RegFile) : Option J :=
  match foldGet (sortByName files) none with
  | some (some d) => some d
  | _ => none

/-! ### order-insensitive equality of documents -/

mutual
def J.eqv : J → J → Bool
  | .null, .null => true
  | .bool a, .bool b => a == b
  | .num a, .num b => a == b
  | .str a, .str b => a == b
  | .arr a, .arr b => eqvList a b
  | .obj a, .obj b => a.length == b.length && eqvMembers a b
  | _, _ => false
def eqvList : List J → List J → Bool
  | [], [] => true
  | x :: s, y :: t => J.eqv x y && eqvList s t
  | _, _ => false
/-- every member of the first has an equivalent member of that name in the second -/
def eqvMembers : List (Str × J) → List (Str × J) → Bool
  | [], _ => true
  | (k, v) :: t, b =>
    (match lookupJ k b with
     | some v' => J.eqv v v'
     | none => false) && eqvMembers t b
end

end SV
