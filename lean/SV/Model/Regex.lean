/-
  SV.Model.Regex — matcher for the regular-expression sub-language the library uses:
  a sequence of `class{lo,hi}` items, anchored with `^ … $` and applied with `re.match`.
  Python's `$` matches at the end of the string and before a final newline.
-/
import SV.Model.Table
namespace SV

/-- `p{lo,hi}` followed by the continuation `k` (backtracking over the repetition count). -/
def matchRep (p : Nat → Bool) : Nat → Nat → Str → (Str → Bool) → Bool
  | 0, 0, s, k => k s
  | 0, hi + 1, s, k =>
    k s || (match s with
      | c :: t => p c && matchRep p 0 hi t k
      | [] => false)
  | lo + 1, hi, s, k =>
    match s with
    | c :: t => p c && decide (0 < hi) && matchRep p lo (hi - 1) t k
    | [] => false

/-- Python's `$` without `re.MULTILINE`. -/
def atEnd (s : Str) : Bool := s == [] || s == [10]

/-- `re.compile("^" + items + "$").match(s) is not None`. -/
def matchItems (U : Unicode) : List Item → Str → Bool
  | [], s => atEnd s
  | it :: rest, s => matchRep (it.cls.test U) it.lo it.hi s (matchItems U rest)

end SV
