/-
  SV.Model.Random — `BBAN.random` / `IBAN.random` as pure functions of an explicit choice record
  (what the caller's `random.Random` and `rstr.xeger` delivered).
-/
import SV.Model.Iban
namespace SV

/-- Everything the random sources contributed to one call. -/
structure Choice where
  /-- index picked by `random.choice(banks)` among the registry's banks of the country -/
  bank : Option Nat
  /-- raw outputs of `rstr.xeger(spec["regex"])`, one per attempt -/
  xegers : List Str
  deriving Repr, Inhabited

def pyUpper (U : Unicode) (s : Str) : Str := s.flatMap U.upper

/-- `bank.get(key)` for a bank entry (only `bank_code` is a component name an entry carries). -/
def bankGet (b : Option BankEntry) (k : Component) : Option Str :=
  match b, k with
  | some e, .bankCode => some e.bankCode
  | _, _ => none

/-- One attempt of the loop: the components handed to `from_components`. -/
def randomComponents (e : Country) (bank : Option BankEntry) (pinned : List (Component × Str))
    (bban : Str) : List (Component × Str) :=
  let base : Component → Str := fun k =>
    match pinned.lookup k with
    | some v => v
    | none =>
      match bankGet bank k with
      | some v => if v != [] then v else
          (match e.defaults.lookup k with | some d => d | none => (e.range k).cut bban)
      | none => (match e.defaults.lookup k with | some d => d | none => (e.range k).cut bban)
  let bankCode := base .bankCode
  let bankLen := (e.range .bankCode).length
  let branchLen := (e.range .branchCode).length
  let split := (pinned.lookup .branchCode).isNone && decide (bankCode.length ≥ bankLen + branchLen)
  let c1 : Component → Str := fun k =>
    if split && k == .branchCode then slice bankCode bankLen (bankLen + branchLen)
    else if split && k == .bankCode && bankCode.length == bankLen + branchLen then bankCode.take bankLen
    else base k
  Component.all.map (fun k =>
    (k, if (pinned.lookup k).isNone then (c1 k).take (e.range k).length else c1 k))

/-- The retry loop (`for _ in range(100)`), over the recorded `xeger` outputs. -/
def randomLoop (X : Ctx) (cc : Str) (e : Country) (bank : Option BankEntry)
    (pinned : List (Component × Str)) : Nat → List Str → Res Str
  | 0, _ => .err .generateRandomOverflow
  | _ + 1, [] => .err .generateRandomOverflow      -- the record ran out: treated as exhaustion
  | n + 1, x :: xs =>
    match BBAN.fromComponents X cc (randomComponents e bank pinned (pyUpper X.U x)) with
    | .ok b => .ok b
    | .err _ => randomLoop X cc e bank pinned n xs
    | .crash c => .crash c

/-- `BBAN.random(country_code, random, use_registry, **values)` for a given country. -/
def BBAN.random (X : Ctx) (cc : Str) (useRegistry : Bool) (pinned : List (Component × Str))
    (ch : Choice) : Res Str := do
  let e ← bbanSpec X.T cc
  let bank : Option BankEntry :=
    match X.R.byCountry cc, useRegistry, ch.bank with
    | some banks, true, some i => banks[i]?
    | _, _, _ => none
  if e.positions.isNone then
    match ch.xegers with
    | x :: _ => pure (clean X.U (pyUpper X.U x))
    | [] => .err .generateRandomOverflow
  else randomLoop X cc e bank pinned 100 ch.xegers

/-- `IBAN.random(...)` = `from_bban(bban.country_code, bban)`. -/
def IBAN.random (X : Ctx) (cc : Str) (useRegistry : Bool) (pinned : List (Component × Str))
    (ch : Choice) : Res Str := do
  let b ← BBAN.random X cc useRegistry pinned ch
  IBAN.fromBban X cc b false false

end SV
