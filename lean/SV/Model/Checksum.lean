/-
  SV.Model.Checksum — `schwifty/checksum/__init__.py`: numerify, iso7064, weighted, luhn.
-/
import SV.Model.Regex
namespace SV

/-- `_alphabet.index(c)` for `_alphabet = digits + ascii_uppercase`; `none` is `ValueError`. -/
def alphaIndex (c : Nat) : Option Nat :=
  if isAsciiDigit c then some (c - 48)
  else if isAsciiUpper c then some (c - 55)
  else none

/-- Fold step of `int("".join(str(_alphabet.index(c)) for c in value))`:
    accumulator = (value so far, number of decimal digits written so far). -/
def numStep (acc : Nat × Nat) (i : Nat) : Nat × Nat :=
  if i < 10 then (acc.1 * 10 + i, acc.2 + 1) else (acc.1 * 100 + i, acc.2 + 2)

/-- Value and digit count of the expansion, `none` if a character is outside the alphabet. -/
def expand : Str → Nat × Nat → Option (Nat × Nat)
  | [], acc => some acc
  | c :: t, acc =>
    match alphaIndex c with
    | some i => expand t (numStep acc i)
    | none => none

/-- `checksum.numerify` (after the repair: `ValueError` from `str.index` / `int` — a character
    outside `[0-9A-Z]`, the empty string, more digits than `sys.get_int_max_str_digits()` —
    is raised as `InvalidStructure`). -/
def numerify (U : Unicode) (s : Str) : Res Nat :=
  match expand s (0, 0) with
  | some (v, n) => if n = 0 || U.maxIntDigits < n then .err .invalidStructure else .ok v
  | none => .err .invalidStructure

/-- `f"{n:02d}"` for a natural number. -/
def fmt02 (n : Nat) : Str := if n < 10 then [48, 48 + n] else natToDigits n

/-- `checksum.weighted(value, mod, weights)`:
    `sum(n * int(c) for n, c in zip(weights, value)) % mod` (zip truncates). -/
def weightedSum (U : Unicode) : List Nat → Str → Res Nat
  | w :: ws, c :: t => do
    let d ← U.intChar c
    let r ← weightedSum U ws t
    pure (w * d + r)
  | _, _ => .ok 0

def weighted (U : Unicode) (value : Str) (mod : Nat) (weights : List Nat) : Res Nat := do
  let s ← weightedSum U weights value
  pure (s % mod)

end SV
