/-
  SV.Model.Effects — abstract models for C14 (threads) and C15 (call histories).
-/
import SV.Model.Basic
namespace SV

/-! ### call histories -/

/-- A system whose calls thread a hidden state `W` (scratch cells, caches, …). -/
structure Sys (W C O : Type) where
  step : W → C → W × O

/-- Run a history of calls; the outcomes in order. -/
def Sys.run {W C O : Type} (S : Sys W C O) : W → List C → W × List O
  | w, [] => (w, [])
  | w, c :: t =>
    let (w', o) := S.step w c
    let (w'', os) := S.run w' t
    (w'', o :: os)

/-! ### threads -/

/-- Each thread is a deterministic machine over its OWN state `L` (program counter, locals, its
    thread-local scratch cells) that may read a shared environment `E` it cannot write. -/
def stepThread {E L : Type} (step : E → L → L) (env : E) (locals : List L) (i : Nat) : List L :=
  match locals[i]? with
  | some l => locals.set i (step env l)
  | none => locals

/-- Execute a schedule (a list of thread ids: who makes the next atomic step). -/
def runSchedule {E L : Type} (step : E → L → L) (env : E) : List L → List Nat → List L
  | locals, [] => locals
  | locals, i :: t => runSchedule step env (stepThread step env locals i) t

def iter {α : Type} (f : α → α) : Nat → α → α
  | 0, a => a
  | n + 1, a => iter f n (f a)

/-- A two-thread machine in which both threads use ONE shared cell (the pinned defect):
    thread 0 writes `a` then reads; thread 1 writes `b`.  State: (cell, pc0, out0, pc1). -/
def sharedCellStep (a b : Nat) (s : Nat × Nat × Option Nat × Nat) (i : Nat) : Nat × Nat × Option Nat × Nat :=
  let (cell, pc0, out0, pc1) := s
  if i = 0 then
    if pc0 = 0 then (a, 1, out0, pc1) else if pc0 = 1 then (cell, 2, some cell, pc1) else s
  else
    if pc1 = 0 then (b, pc0, out0, 1) else s

end SV
