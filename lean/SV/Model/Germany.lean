/-
  SV.Model.Germany — `schwifty/checksum/germany.py`.

  One engine mirrors the template-method structure of `WeightedModulus`.  The class attributes
  and, per hook, the chain of implementing functions along the MRO are *data* supplied by the
  translator (`SV.Gen.Algorithms`); the body belonging to each function tag is written here.
  `self.remainder` is threaded explicitly (`Scratch`), exactly where Python reads and writes it.
-/
import SV.Model.National
namespace SV

/-- Function tags: `<class>.<hook>` for every function of `germany.py` that implements a hook.
    `unknown` is emitted by the translator for a function it does not know; it evaluates to a
    crash, so nothing can be proved about a method that uses it. -/
inductive ComputeTag | wm | a08 | a09 | a91 | unknown deriving DecidableEq, Repr, Inhabited
inductive ValidateTag | wm | a08 | a09 | a16 | a25 | a63 | a68 | a76 | a91 | a99 | unknown
  deriving DecidableEq, Repr, Inhabited
inductive AdjustTag | wm | a26 | unknown deriving DecidableEq, Repr, Inhabited
inductive DigitsTag | wm | a24 | a61 | a68 | a76 | unknown deriving DecidableEq, Repr, Inhabited
inductive PositionsTag | wm | a88 | unknown deriving DecidableEq, Repr, Inhabited
inductive WSumTag | wm | a17 | unknown deriving DecidableEq, Repr, Inhabited
inductive SummandTag | wm | a00 | a17 | a22 | a24 | a63 | unknown
  deriving DecidableEq, Repr, Inhabited
inductive RemainderTag | wm | a21 | unknown deriving DecidableEq, Repr, Inhabited
inductive ReconcileTag | wm | a02 | a11 | a76 | unknown deriving DecidableEq, Repr, Inhabited

/-- `germany.Positions` (1-based, as in the Bundesbank text). -/
structure Positions where
  start : Nat
  stop : Nat
  checkDigit : Nat
  deriving DecidableEq, Repr, Inhabited

/-- MRO-resolved class attributes and hook chains of one registered class. -/
structure DEParams where
  modulus : Nat
  minuend : Option Nat
  positions : Positions
  reverse : Bool
  weights : List Nat
  minAccount : Nat            -- `min_account_code` (method 08), 0 where absent
  compute : List ComputeTag
  validate : List ValidateTag
  adjustInput : List AdjustTag
  getDigits : List DigitsTag
  getPositions : List PositionsTag
  weightedSum : List WSumTag
  summand : List SummandTag
  remainder : List RemainderTag
  reconcile : List ReconcileTag
  /-- `Algorithm91.Variant1 … Variant4` (empty for every other class). -/
  variants : List DEParams
  deriving Repr, Inhabited

/-- The per-instance scratch state (`self.remainder`; `self.weighted_sum` is never written
    after `__init__`). -/
structure Scratch where
  remainder : Int
  deriving DecidableEq, Repr, Inhabited

/-- State-passing computations over the scratch cell; the state survives an exception. -/
abbrev DEM (α : Type) := Scratch → Scratch × Res α

namespace DEM
@[inline] def pure' {α : Type} (a : α) : DEM α := fun s => (s, .ok a)
@[inline] def bind' {α β : Type} (m : DEM α) (f : α → DEM β) : DEM β := fun s =>
  match m s with
  | (s', .ok a) => f a s'
  | (s', .err e) => (s', .err e)
  | (s', .crash c) => (s', .crash c)
instance : Monad DEM where
  pure := pure'
  bind := bind'
@[inline] def lift {α : Type} (r : Res α) : DEM α := fun s => (s, r)
@[inline] def getRem : DEM Int := fun s => (s, .ok s.remainder)
@[inline] def setRem (v : Int) : DEM Unit := fun _ => (⟨v⟩, .ok ())
@[inline] def fail {α : Type} (e : Err) : DEM α := fun s => (s, .err e)
@[inline] def crash {α : Type} (c : Crash) : DEM α := fun s => (s, .crash c)
end DEM
open DEM

/-- `int(s)` for a string of decimal digits (of any script; `int` accepts them all).  Anything
    else is reported as `ValueError`; Python's `int` additionally accepts a sign, underscores
    between digits and surrounding whitespace — those inputs are outside the modelled domain
    (they cannot occur in an account number that passed the structure check). -/
def pyIntStr (U : Unicode) : Str → Nat → Bool → Res Nat
  | [], v, seen => if seen then .ok v else .crash .valueError
  | c :: t, v, _ =>
    match U.intChar c with
    | .ok d => pyIntStr U t (v * 10 + d) true
    | _ => .crash .valueError

/-- `s[i]` for a Python index that may be negative. -/
def pyIndex (s : Str) (i : Int) : Res Nat :=
  let j : Int := if i < 0 then i + s.length else i
  if j < 0 then .crash .indexError
  else match s[j.toNat]? with
    | some c => .ok c
    | none => .crash .indexError

/-- `str(n)` for an integer. -/
def intToStr (n : Int) : Str :=
  if n < 0 then 45 :: natToDigits n.natAbs else natToDigits n.toNat

def adjustInput : List AdjustTag → Str → Res Str
  | .wm :: _, a => .ok a
  | .a26 :: _, a => .ok (if startsWith a [48, 48] then a.drop 2 ++ [48, 48] else a)
  | _, _ => .crash .other

def getPositions (P : DEParams) : List PositionsTag → Str → Res Positions
  | .wm :: _, _ => .ok P.positions
  | .a88 :: rest, a =>
    match a[2]? with
    | some c => if c = 57 then .ok ⟨3, 9, 10⟩ else getPositions P rest a
    | none => .crash .indexError
  | _, _ => .crash .other

/-- `WeightedModulus.get_digits`. -/
def wmGetDigits (P : DEParams) (a : Str) : Res Str := do
  let pos ← getPositions P P.getPositions a
  -- start, end = positions.start - 1, positions.end ; three asserts
  if a.length ≠ 10 then .crash .assertionError
  else if pos.start = 0 then .crash .assertionError          -- start - 1 = -1 < 0
  else if 10 < pos.start - 1 then .crash .assertionError
  else if pos.stop < pos.start - 1 || 10 < pos.stop then .crash .assertionError
  else
    let d := slice a (pos.start - 1) pos.stop
    pure (if P.reverse then d.reverse else d)

def getDigits (U : Unicode) (P : DEParams) : List DigitsTag → Str → Res Str
  | .wm :: _, a => wmGetDigits P a
  | .a24 :: rest, a => do
    let d ← getDigits U P rest a
    match d with
    | [] => .crash .indexError
    | c :: _ => do
      let v ← U.intChar c
      let d' := if v = 3 || v = 4 || v = 5 || v = 6 then d.drop 1
                else if v = 9 then d.drop 3 else d
      pure (lstrip0 d')
  | .a61 :: rest, a => do
    let d ← getDigits U P rest a
    match a[8]? with
    | none => .crash .indexError
    | some c => pure (if c = 56 then (a.drop 8).reverse ++ d else d)
  | .a68 :: rest, a => do
    let d ← getDigits U P rest a
    let d := rstrip0 d
    if d.length = 9 then
      match d[5]? with
      | some c => if c ≠ 57 then .err .invalidBBANChecksum else pure (d.take 6)
      | none => .crash .indexError
    else pure d
  | .a76 :: rest, a => do
    let d ← getDigits U P rest a
    pure (rstrip0 d)
  | _, _ => .crash .other

/-- `compute_summand(digit, weight)`; digits and weights are non-negative, so are all summands
    (`digit_sum` of a non-negative number never meets a `'-'`). -/
def summand : List SummandTag → Nat → Nat → Res Nat
  | .wm :: _, d, w => .ok (d * w)
  | .a00 :: rest, d, w => do let x ← summand rest d w; pure (digitSum x)
  | .a17 :: rest, d, w => do let x ← summand rest d w; pure (digitSum x)
  | .a63 :: rest, d, w => do let x ← summand rest d w; pure (digitSum x)
  | .a22 :: rest, d, w => do let x ← summand rest d w; pure (x % 10)
  | .a24 :: rest, d, w => do let x ← summand rest d w; pure ((x + w) % 11)
  | _, _, _ => .crash .other

/-- `sum(self.compute_summand(int(d), w) for d, w in zip(digits, cycle(self.weights)))`. -/
def wmWeightedSum (U : Unicode) (P : DEParams) : Str → List Nat → Res Nat
  | c :: t, w :: ws => do
    let d ← U.intChar c
    let x ← summand P.summand d w
    let r ← wmWeightedSum U P t ws
    pure (x + r)
  | _, _ => .ok 0

/-- The (non-negative) weighted sum as a Python `int`. -/
def natToInt (n : Nat) : Int := n

def weightedSumHook (U : Unicode) (P : DEParams) : List WSumTag → Str → Res Int
  | .wm :: _, ds => do
    let x ← wmWeightedSum U P ds (cycleWeights P.weights ds.length)
    pure (natToInt x)
  | .a17 :: rest, ds => do let x ← weightedSumHook U P rest ds; pure (x - 1)
  | _, _ => .crash .other

/-- `while number >= 10: number = digit_sum(number)` with fuel (the value strictly decreases). -/
def reduceDigits : Nat → Int → Int
  | 0, n => n
  | f + 1, n => if n ≥ 10 then reduceDigits f (digitSum n.toNat) else n

def remainderHook (P : DEParams) : List RemainderTag → Int → Res Int
  | .wm :: _, n => if P.modulus = 0 then .crash .other else .ok (n % P.modulus)
  | .a21 :: _, n => .ok (reduceDigits n.toNat n)
  | _, _ => .crash .other

def reconcile : List ReconcileTag → Int → DEM Int
  | .wm :: _, c => pure (if c ≥ 10 then 0 else c)
  | .a02 :: _, c => do
    let r ← getRem
    if r = 0 then pure 0
    else if r = 1 then fail .invalidBBANChecksum
    else pure c
  | .a11 :: rest, c => if c = 10 then pure 9 else reconcile rest c
  | .a76 :: _, c => if c = 10 then fail .invalidBBANChecksum else pure c
  | _, _ => crash .other

/-- `WeightedModulus.compute`. -/
def wmCompute (U : Unicode) (P : DEParams) (cs : List Str) : DEM Str :=
  match cs with
  | [a] => do
    let a' ← lift (adjustInput P.adjustInput a)
    let ds ← lift (getDigits U P P.getDigits a')
    let ws ← lift (weightedSumHook U P P.weightedSum ds)
    let r ← lift (remainderHook P P.remainder ws)
    setRem r
    let r' ← getRem
    let c : Int := match P.minuend with
      | none => r'
      | some m => (m : Int) - r'
    let c' ← reconcile P.reconcile c
    pure (intToStr c')
  | _ => crash .valueError

/-- Hooks of a class without nested variants (depth 0) — used for `Algorithm91.VariantN`. -/
def computeHook0 (U : Unicode) (P : DEParams) : List ComputeTag → List Str → DEM Str
  | .wm :: _, cs => wmCompute U P cs
  | .a08 :: rest, cs =>
    match cs with
    | [a] => do
      let n ← lift (pyIntStr U a 0 false)
      if n < P.minAccount then pure [] else computeHook0 U P rest cs
    | _ => crash .valueError
  | .a09 :: _, _ => pure []
  | _, _ => crash .other

/-- `check_digit == account_code[k - 1]`. -/
def cmpCheck (cd : Str) (a : Str) (k : Nat) : DEM Bool := do
  let c ← lift (pyIndex a ((k : Int) - 1))
  pure (cd == [c])

def validateHook0 (U : Unicode) (P : DEParams) (comp : List Str → DEM Str) :
    List ValidateTag → List Str → DEM Bool
  | .wm :: _, cs =>
    match cs with
    | [] => crash .indexError
    | a0 :: _ => do
      let a ← lift (adjustInput P.adjustInput a0)
      let cd ← comp cs
      let pos ← lift (getPositions P P.getPositions a)
      cmpCheck cd a pos.checkDigit
  | .a08 :: rest, cs =>
    match cs with
    | [a] => do
      let n ← lift (pyIntStr U a 0 false)
      if n < P.minAccount then pure true else validateHook0 U P comp rest cs
    | _ => crash .valueError
  | .a09 :: _, _ => pure true
  | .a16 :: _, cs =>
    match cs with
    | [a] => do
      let cd ← comp cs
      let idx : Int := (P.positions.checkDigit : Int) - 1
      let r ← getRem
      if r = 1 then
        let x ← lift (pyIndex a (idx - 1))
        let y ← lift (pyIndex a idx)
        if x = y then pure true
        else do let c ← lift (pyIndex a idx); pure (cd == [c])
      else do let c ← lift (pyIndex a idx); pure (cd == [c])
    | _ => crash .valueError
  | .a25 :: rest, cs => do
    let result ← validateHook0 U P comp rest cs
    match cs with
    | [a] => do
      let r ← getRem
      if r = 1 then
        let c ← lift (pyIndex a 1)
        if c ≠ 56 && c ≠ 57 then pure false else pure result
      else pure result
    | _ => crash .valueError
  | .a63 :: rest, cs =>
    match cs with
    | [a] => do
      let c ← lift (pyIndex a 0)
      if c ≠ 48 then pure false else validateHook0 U P comp rest cs
    | _ => crash .valueError
  | .a68 :: rest, cs =>
    match cs with
    | [a] => do
      let n ← lift (pyIntStr U a 0 false)
      if 400000000 ≤ n && n ≤ 499999999 then pure true
      else do
        let ok ← validateHook0 U P comp rest cs
        if ok then pure true
        else do
          let cd ← comp [a.take 2 ++ [48, 48] ++ a.drop 4]
          cmpCheck cd a P.positions.checkDigit
    | _ => crash .valueError
  | .a76 :: rest, cs =>
    match cs with
    | [a] => do
      let c ← lift (pyIndex a 0)
      let v ← lift (U.intChar c)
      if v = 0 || v = 4 || v = 6 || v = 7 || v = 8 || v = 9 then validateHook0 U P comp rest cs
      else pure false
    | _ => crash .valueError
  | .a99 :: rest, cs =>
    match cs with
    | [a] => do
      let n ← lift (pyIntStr U a 0 false)
      if 396000000 ≤ n && n ≤ 499999999 then pure true else validateHook0 U P comp rest cs
    | _ => crash .valueError
  | _, _ => crash .other

/-- `algo_cls().validate(...)` on a fresh instance: its own scratch cell, discarded afterwards. -/
def freshValidate (U : Unicode) (V : DEParams) (cs : List Str) : Res Bool :=
  (validateHook0 U V (computeHook0 U V V.compute) V.validate cs ⟨0⟩).2

def variantsAny (U : Unicode) : List DEParams → List Str → Res Bool
  | [], _ => .ok false
  | V :: rest, cs =>
    match freshValidate U V cs with
    | .ok true => .ok true
    | .ok false => variantsAny U rest cs
    | .err e => .err e
    | .crash c => .crash c

/-- `compute` of a registered class. -/
def DEParams.computeM (U : Unicode) (P : DEParams) (cs : List Str) : DEM Str :=
  match P.compute with
  | .a91 :: _ =>
    match P.variants with
    | V :: _ => lift ((computeHook0 U V V.compute cs ⟨0⟩).2)
    | [] => crash .other
  | tags => computeHook0 U P tags cs

/-- `validate` of a registered class. -/
def DEParams.validateM (U : Unicode) (P : DEParams) (cs : List Str) : DEM Bool :=
  match P.validate with
  | .a91 :: _ => lift (variantsAny U P.variants cs)
  | tags => validateHook0 U P (P.computeM U) tags cs

end SV
