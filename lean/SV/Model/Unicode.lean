/-
  SV.Model.Unicode — the facts about the running interpreter's Unicode database that the
  library's behaviour depends on.  The concrete tables are regenerated from the interpreter
  on every run (`SV.Gen.Unicode`); the model and the generic theorems take them as a parameter.
-/
import SV.Model.Basic
namespace SV

structure Unicode where
  /-- Code points `z` such that `z … z+9` are the decimal digits 0 … 9 of one script. Their
      union is the set matched by `\d` in a `str` pattern and the set of single characters
      `int()` accepts (checked by the translator against the interpreter). -/
  digitZeros : List Nat
  /-- Code points matched by `\s` in a `str` pattern. -/
  spaces : List Nat
  /-- `str.upper()` per code point, for the code points it changes. -/
  upperMap : List (Nat × List Nat)
  /-- `sys.get_int_max_str_digits()`. -/
  maxIntDigits : Nat
  deriving Repr

namespace Unicode

def isDigit (U : Unicode) (c : Nat) : Bool := U.digitZeros.any (fun z => z ≤ c && c ≤ z + 9)

/-- `int(ch)` for a one-character string. -/
def intChar (U : Unicode) (c : Nat) : Res Nat :=
  match U.digitZeros.find? (fun z => z ≤ c && c ≤ z + 9) with
  | some z => .ok (c - z)
  | none => .crash .valueError

def isSpace (U : Unicode) (c : Nat) : Bool := U.spaces.contains c

def upper (U : Unicode) (c : Nat) : List Nat :=
  match U.upperMap.lookup c with
  | some v => v
  | none => [c]

end Unicode

/-- `common.clean`: `re.sub(r"\s+", "", s).upper()`. -/
def clean (U : Unicode) (s : Str) : Str :=
  (s.filter (fun c => !U.isSpace c)).flatMap U.upper

end SV
