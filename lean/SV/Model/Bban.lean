/-
  SV.Model.Bban — `schwifty/bban.py` (everything except `random`, which is in `Random.lean`).
-/
import SV.Model.Bic
namespace SV

/-- What is registered under a key of `checksum.algorithms`. -/
inductive AlgoRef
  | nat (a : NatAlgo)
  | de (p : DEParams)
  | unknown
  deriving Repr, Inhabited

structure AlgoEntry where
  /-- `"<country>:<name>"` -/
  key : Str
  ref : AlgoRef
  /-- the class's `accepts` -/
  accepts : List Component
  deriving Repr, Inhabited

abbrev AlgoTable := List AlgoEntry

def AlgoTable.get (A : AlgoTable) (key : Str) : Option AlgoEntry := A.find? (fun e => e.key == key)

/-- Everything the library reads that is not an argument. -/
structure Ctx where
  U : Unicode
  T : Table
  R : Registry
  A : AlgoTable
  B : BicCtx

def AlgoRef.compute (U : Unicode) : AlgoRef → List Str → Res Str
  | .nat a, cs => a.compute U cs
  | .de p, cs => (p.computeM U cs ⟨0⟩).2
  | .unknown, _ => .crash .other

def AlgoRef.validate (U : Unicode) : AlgoRef → List Str → Str → Res Bool
  | .nat a, cs, ex => a.validate U cs ex
  | .de p, cs, _ => (p.validateM U cs ⟨0⟩).2
  | .unknown, _, _ => .crash .other

/-- `_get_bban_spec`. -/
def bbanSpec (T : Table) (cc : Str) : Res Country :=
  match T.lookup cc with
  | some e => .ok e
  | none => .err .invalidCountryCode

/-- `BBAN._get_component`. -/
def BBAN.component (T : Table) (cc bban : Str) (k : Component) : Res Str := do
  let e ← bbanSpec T cc
  let r := e.range k
  pure (getSlice bban r.start (some r.stop))

def componentsOf (e : Country) (bban : Str) : List Component → List Str
  | [] => []
  | k :: t => getSlice bban (e.range k).start (some (e.range k).stop) :: componentsOf e bban t

/-- The registry key of a BBAN: `"".join(self._get_component(c) for c in lookup_by)`. -/
def lookupKey (e : Country) (bban : Str) : Str :=
  joinStrs (componentsOf e bban (e.bicLookup.getD [.bankCode]))

/-- `BBAN.bank`. -/
def BBAN.bank (X : Ctx) (cc bban : Str) : Res (Option BankEntry) := do
  let e ← bbanSpec X.T cc
  match X.R.byBankCode cc (lookupKey e bban) with
  | some (b :: _) => pure (some b)
  | _ => pure none

/-- `BBAN.bic`. -/
def BBAN.bic (X : Ctx) (cc bban : Str) : Res (Option Str) := do
  let e ← bbanSpec X.T cc
  match BIC.fromBankCode X.B X.R cc (lookupKey e bban) with
  | .ok b => pure (some b)
  | .err _ => pure none
  | .crash c => .crash c

def colon : Nat := 58
def strDefault : Str := [100, 101, 102, 97, 117, 108, 116]   -- "default"

/-- `BBAN.validate_national_checksum`. -/
def BBAN.validateNational (X : Ctx) (cc bban : Str) : Res Bool := do
  let bank ← BBAN.bank X cc bban
  let algoName : Str := match bank with
    | some b => b.checksumAlgo.getD strDefault
    | none => strDefault
  match X.A.get (cc ++ [colon] ++ algoName) with
  | none => pure true
  | some a => do
    let e ← bbanSpec X.T cc
    let comps := componentsOf e bban a.accepts
    let natl := getSlice bban (e.range .nationalChecksumDigits).start
                  (some (e.range .nationalChecksumDigits).stop)
    let ok ← a.ref.validate X.U comps natl
    if ok then pure true else .err .invalidBBANChecksum

/-- `compute_national_checksum` (with the repair: `ValueError` / `LookupError` from the
    algorithm are raised as `InvalidStructure`). -/
def computeNationalChecksum (X : Ctx) (cc : Str) (comps : Component → Str) : Res Str :=
  match X.A.get (cc ++ [colon] ++ strDefault) with
  | none => .ok []
  | some a => (a.ref.compute X.U (a.accepts.map comps)).translate .invalidStructure

/-- The `components` dict of `from_components` as a function on `Component`. -/
def Comps := Component → Str

def Comps.set (c : Comps) (k : Component) (v : Str) : Comps := fun k' => if k' = k then v else c k'

/-- `bban[:start] + value + bban[end:]`. -/
def overlay (b : Str) (r : Range) (v : Str) : Str := b.take r.start ++ v ++ b.drop r.stop

def overlayAll (e : Country) (c : Comps) : List Component → Str → Str
  | [], b => b
  | k :: t, b =>
    let r := e.range k
    overlayAll e c t (if r.isEmpty then b else overlay b r (c k))

/-- `values.get(key, "")` for the keyword arguments of `from_components`. -/
def valuesGet (values : List (Component × Str)) (k : Component) : Str :=
  (values.lookup k).getD []

/-- `BBAN.from_components`: the compact string of the new BBAN. -/
def BBAN.fromComponents (X : Ctx) (cc : Str) (values : List (Component × Str)) : Res Str := do
  let e ← bbanSpec X.T cc
  if e.positions.isNone then .err .schwifty
  else
    let c0 : Comps := fun k => zfill (clean X.U (valuesGet values k)) (e.range k).length
    let bankLen := (e.range .bankCode).length
    let branchLen := (e.range .branchCode).length
    let accountLen := (e.range .accountCode).length
    let c1 : Comps :=
      if branchLen > 0 && clean X.U (valuesGet values .branchCode) == []
          && (c0 .bankCode).length == bankLen + branchLen then
        (c0.set .branchCode (slice (c0 .bankCode) bankLen (bankLen + branchLen))).set
          .bankCode ((c0 .bankCode).take bankLen)
      else c0
    if (c1 .bankCode).length > bankLen then .err .invalidBankCode
    else if (c1 .branchCode).length > branchLen then .err .invalidBranchCode
    else if (c1 .accountCode).length > accountLen then .err .invalidAccountCode
    else do
      let cs ← computeNationalChecksum X cc c1
      let c2 : Comps := if cs != [] then c1.set .nationalChecksumDigits cs else c1
      let b := overlayAll e c2 Component.all (List.replicate e.bbanLength 48)
      pure (clean X.U b)

end SV
