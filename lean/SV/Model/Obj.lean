/-
  SV.Model.Obj — IBAN / BIC / BBAN objects as values: comparison, hashing, and the default
  copy / pickle reconstruction protocol for `str` subclasses.
-/
import SV.Model.Iban
namespace SV

inductive Cls | iban | bic | bban | str
  deriving DecidableEq, Repr, Inhabited

/-- An object as far as value semantics go: its class, its string value (`str(obj)`), and the
    instance attributes that matter (`country_code` of a BBAN; the `bban` of an IBAN is derived). -/
structure Obj where
  cls : Cls
  value : Str
  country : Option Str := none
  deriving DecidableEq, Repr, Inhabited

/-- Constructing with validation off: `IBAN(s, allow_invalid=True)`, `BIC(s, allow_invalid=True)`,
    `BBAN(cc, s)`, or the plain string. -/
def Obj.make (U : Unicode) (cls : Cls) (cc : Option Str) (s : Str) : Obj :=
  match cls with
  | .str => ⟨.str, s, none⟩
  | .bban => ⟨.bban, clean U s, cc⟩
  | c => ⟨c, clean U s, none⟩

/-- `a == b` (`Base.__eq__`: `str(self) == str(other)`; with a plain `str` on the left Python tries
    the subclass' reflected method first). -/
def pyEq (a b : Obj) : Bool := a.value == b.value
/-- `a < b` (`Base.__lt__`); `<=`, `>`, `>=` are `str`'s own and compare the same values. -/
def pyLt (a b : Obj) : Bool := strLt a.value b.value
def pyLe (a b : Obj) : Bool := pyLt a b || pyEq a b
/-- `hash(obj)` is `hash(str(obj))`: an abstract injective-enough function of the value. -/
def pyHashKey (a : Obj) : Str := a.value

/-- Facts about the classes of the live tree that the reconstruction protocol depends on
    (`SV.Gen.Classes`). -/
structure ClassFacts where
  /-- number of positional arguments `cls.__new__` needs besides `cls` -/
  newArity : Cls → Nat
  /-- length of the tuple `obj.__getnewargs__()` returns -/
  newArgsLen : Cls → Nat
  /-- the class (or a base other than `object`) defines `__copy__` / `__reduce__` / `__reduce_ex__`
      itself — then the default protocol modelled here does not apply -/
  customCopy : Cls → Bool
  /-- `__deepcopy__` is the `Base` method: shallow copy plus deep copy of the instance dict -/
  deepcopyIsBase : Cls → Bool
  deriving Inhabited

/-- The default reconstruction `copyreg.__newobj__(cls, *getnewargs)` followed by restoring the
    instance dict: `cls.__new__` cleans the value again (`Base.__new__`).  Arity mismatch is Python's
    `TypeError`. -/
def reconstruct (U : Unicode) (F : ClassFacts) (o : Obj) : Res Obj :=
  if F.customCopy o.cls then .crash .other
  else if F.newArity o.cls ≠ F.newArgsLen o.cls then .crash .typeError
  else match o.cls with
    | .str => .ok o
    | _ => .ok ⟨o.cls, clean U o.value, o.country⟩

/-- `copy.copy(obj)`. -/
def pyCopy (U : Unicode) (F : ClassFacts) (o : Obj) : Res Obj := reconstruct U F o

/-- `copy.deepcopy(obj)` / `pickle.loads(pickle.dumps(obj))`: the object and, for an IBAN, the BBAN
    held in its instance dict are reconstructed. -/
def pyDeepCopy (U : Unicode) (F : ClassFacts) (o : Obj) : Res Obj := do
  if o.cls = .iban then
    let _ ← reconstruct U F ⟨.bban, IBAN.bban U o.value, some (IBAN.countryCode o.value)⟩
  if !(F.deepcopyIsBase o.cls) && o.cls ≠ .str then .crash .other
  else reconstruct U F o

end SV
