/-
  SV.Model.Basic — outcomes and Python string primitives.

  Model code is core Lean only (no Mathlib), total and computable.
  A Python `str` is modelled as the list of its code points (`List Nat`), so lone
  surrogates and every other code point Python can hold are representable.
-/
namespace SV

abbrev Str := List Nat

/-- The library's exception classes (`schwifty/exceptions.py`). `schwifty` is the root class
    raised directly. -/
inductive Err
  | schwifty | invalidLength | invalidStructure | invalidCountryCode | invalidBankCode
  | invalidBranchCode | invalidAccountCode | invalidChecksumDigits | invalidBBANChecksum
  | generateRandomOverflow
  deriving DecidableEq, Repr, Inhabited

/-- Exceptions that are *not* the library's: every partial Python primitive in the model
    returns one of these explicitly instead of being totalised. -/
inductive Crash
  | valueError | keyError | indexError | typeError | assertionError | other
  deriving DecidableEq, Repr, Inhabited

/-- Outcome of a modelled call: a value, a library exception, or a foreign exception. -/
inductive Res (α : Type) where
  | ok (a : α)
  | err (e : Err)
  | crash (c : Crash)
  deriving DecidableEq, Repr

namespace Res

@[inline] def bind {α β : Type} (r : Res α) (f : α → Res β) : Res β :=
  match r with
  | .ok a => f a
  | .err e => .err e
  | .crash c => .crash c

instance : Monad Res where
  pure := .ok
  bind := Res.bind

@[simp] theorem ok_bind {α β : Type} (a : α) (f : α → Res β) : (Res.ok a >>= f) = f a := rfl
@[simp] theorem err_bind {α β : Type} (e : Err) (f : α → Res β) :
    ((Res.err e : Res α) >>= f) = .err e := rfl
@[simp] theorem crash_bind {α β : Type} (c : Crash) (f : α → Res β) :
    ((Res.crash c : Res α) >>= f) = .crash c := rfl
@[simp] theorem pure_eq {α : Type} (a : α) : (pure a : Res α) = .ok a := rfl

def isOk {α : Type} : Res α → Bool
  | .ok _ => true
  | _ => false

def isCrash {α : Type} : Res α → Bool
  | .crash _ => true
  | _ => false

def isErr {α : Type} : Res α → Bool
  | .err _ => true
  | _ => false

@[simp] theorem isOk_ok {α : Type} (a : α) : (Res.ok a).isOk = true := rfl
@[simp] theorem isOk_err {α : Type} (e : Err) : (Res.err e : Res α).isOk = false := rfl
@[simp] theorem isOk_crash {α : Type} (c : Crash) : (Res.crash c : Res α).isOk = false := rfl
@[simp] theorem isCrash_ok {α : Type} (a : α) : (Res.ok a).isCrash = false := rfl
@[simp] theorem isCrash_err {α : Type} (e : Err) : (Res.err e : Res α).isCrash = false := rfl
@[simp] theorem isCrash_crash {α : Type} (c : Crash) : (Res.crash c : Res α).isCrash = true := rfl

/-- `try: r  except SchwiftyException: h` -/
def catchLib {α : Type} (r : Res α) (h : Err → Res α) : Res α :=
  match r with
  | .err e => h e
  | r => r

/-- Translate the foreign exceptions `ValueError` / `LookupError` (`KeyError`, `IndexError`)
    into a library error, as `except (ValueError, LookupError)` does. Library errors pass. -/
def translate {α : Type} (r : Res α) (e : Err) : Res α :=
  match r with
  | .crash .valueError => .err e
  | .crash .keyError => .err e
  | .crash .indexError => .err e
  | r => r

end Res

/-! ### ASCII classes -/

@[inline] def isAsciiDigit (c : Nat) : Bool := 48 ≤ c && c ≤ 57
@[inline] def isAsciiUpper (c : Nat) : Bool := 65 ≤ c && c ≤ 90
@[inline] def isAsciiLower (c : Nat) : Bool := 97 ≤ c && c ≤ 122
@[inline] def isAsciiAlnumUpper (c : Nat) : Bool := isAsciiDigit c || isAsciiUpper c

/-! ### Python string primitives -/

/-- `s[a:b]` for non-negative `a`, `b`. -/
def slice (s : Str) (a b : Nat) : Str := (s.take b).drop a

/-- `Base._get_slice(start, end)` of `schwifty/common.py`:
    the slice, or `""` unless `start < len` and `end ≤ len`. -/
def getSlice (s : Str) (start : Nat) (stop : Option Nat) : Str :=
  match stop with
  | some e => if start < s.length && e ≤ s.length then slice s start e else []
  | none => if start < s.length then s.drop start else []

/-- `str.zfill(width)`: pads with `'0'` on the left, after a leading sign. -/
def zfill (s : Str) (w : Nat) : Str :=
  if w ≤ s.length then s
  else match s with
    | c :: rest =>
      if c = 43 || c = 45 then c :: (List.replicate (w - s.length) 48 ++ rest)
      else List.replicate (w - s.length) 48 ++ s
    | [] => List.replicate w 48

/-- `s.lstrip("0")`. -/
def lstrip0 : Str → Str
  | [] => []
  | c :: t => if c = 48 then lstrip0 t else c :: t

/-- `s.rstrip("0")`. -/
def rstrip0 (s : Str) : Str := (lstrip0 s.reverse).reverse

/-- `s.startswith(p)`. -/
def startsWith (s p : Str) : Bool := p.isPrefixOf s

/-- Decimal digits of a natural number (`str(n)`), most significant first. -/
def natToDigits (n : Nat) : Str := (Nat.toDigits 10 n).map Char.toNat

/-- Python `str.__lt__` : lexicographic on code points. -/
def strLt : Str → Str → Bool
  | [], [] => false
  | [], _ :: _ => true
  | _ :: _, [] => false
  | a :: s, b :: t => if a < b then true else if b < a then false else strLt s t

end SV
