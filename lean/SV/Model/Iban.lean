/-
  SV.Model.Iban — `schwifty/iban.py`.
-/
import SV.Model.Bban
namespace SV

/-- `re.match(r"[A-Z]{2}\d{2}[A-Z]*", self)` (a prefix match: `[A-Z]*` matches the empty string). -/
def IBAN.validateCharacters (U : Unicode) (c : Str) : Res Unit :=
  match c with
  | a :: b :: d1 :: d2 :: _ =>
    if isAsciiUpper a && isAsciiUpper b && U.isDigit d1 && U.isDigit d2 then .ok ()
    else .err .invalidStructure
  | _ => .err .invalidStructure

def IBAN.countryCode (c : Str) : Str := getSlice c 0 (some 2)
def IBAN.checksumDigits (c : Str) : Str := getSlice c 2 (some 4)
/-- `self.bban` = `BBAN(self.country_code, self._get_slice(start=4))` (cleaned again by `Base.__new__`). -/
def IBAN.bban (U : Unicode) (c : Str) : Str := clean U (getSlice c 4 none)

/-- `IBAN.spec`. -/
def IBAN.spec (T : Table) (c : Str) : Res Country :=
  match T.lookup (IBAN.countryCode c) with
  | some e => .ok e
  | none => .err .invalidCountryCode

def IBAN.validateLength (T : Table) (c : Str) : Res Unit := do
  let e ← IBAN.spec T c
  if e.ibanLength ≠ c.length then .err .invalidLength else pure ()

/-- `self.spec["regex"].match(self.bban)`; a pattern outside the modelled sub-language is
    reported as a foreign failure so that nothing is proved about it by accident. -/
def IBAN.validateFormat (U : Unicode) (T : Table) (c : Str) : Res Unit := do
  let e ← IBAN.spec T c
  match e.pattern with
  | none => .crash .other
  | some items => if matchItems U items (IBAN.bban U c) then pure () else .err .invalidStructure

/-- `IBAN.numeric`: `numerify(self.bban + self[:4])`. -/
def IBAN.numeric (U : Unicode) (c : Str) : Res Nat := numerify U (IBAN.bban U c ++ c.take 4)

def IBAN.validateChecksum (U : Unicode) (c : Str) : Res Unit := do
  let n ← IBAN.numeric U c
  if n % 97 ≠ 1 then .err .invalidChecksumDigits
  else do
    let dd ← isoDefaultCompute U [IBAN.bban U c, IBAN.countryCode c]
    if dd == IBAN.checksumDigits c then pure () else .err .invalidChecksumDigits

/-- `IBAN.validate(validate_bban)`. -/
def IBAN.validate (X : Ctx) (c : Str) (validateBban : Bool) : Res Bool := do
  IBAN.validateCharacters X.U c
  IBAN.validateLength X.T c
  IBAN.validateFormat X.U X.T c
  IBAN.validateChecksum X.U c
  if validateBban then do
    let _ ← BBAN.validateNational X (IBAN.countryCode c) (IBAN.bban X.U c)
    pure true
  else pure true

/-- `IBAN(text, allow_invalid, validate_bban)`: the compact string of the new object. -/
def IBAN.new (X : Ctx) (s : Str) (allowInvalid validateBban : Bool) : Res Str :=
  let c := clean X.U s
  if allowInvalid then .ok c
  else do
    let _ ← IBAN.validate X c validateBban
    pure c

/-- `iban.is_valid`. -/
def IBAN.isValid (X : Ctx) (c : Str) : Res Bool :=
  (IBAN.validate X c false).catchLib (fun _ => .ok false)

/-- `IBAN.from_bban(country_code, bban, allow_invalid, validate_bban)`. -/
def IBAN.fromBban (X : Ctx) (cc bban : Str) (allowInvalid validateBban : Bool) : Res Str := do
  let dd ← isoDefaultCompute X.U [bban, cc]
  IBAN.new X (cc ++ dd ++ bban) allowInvalid validateBban

/-- `IBAN.generate(country_code, bank_code, account_code, branch_code)`. -/
def IBAN.generate (X : Ctx) (cc bank account branch : Str) : Res Str := do
  let b ← BBAN.fromComponents X cc [(.bankCode, bank), (.branchCode, branch), (.accountCode, account)]
  IBAN.fromBban X cc b false false

/-- `" ".join(self[i:i+4] for i in range(0, len(self), 4))`. -/
def chunks4 : Nat → Str → List Str
  | 0, _ => []
  | f + 1, s => if s = [] then [] else s.take 4 :: chunks4 f (s.drop 4)

def intercalateSp : List Str → Str
  | [] => []
  | [a] => a
  | a :: t => a ++ [32] ++ intercalateSp t

def IBAN.formatted (c : Str) : Str := intercalateSp (chunks4 c.length c)

end SV
