/-
  SV.Model.Table — the effective country table (`registry.get("iban")` after import).
-/
import SV.Model.Unicode
namespace SV

/-- `schwifty.domain.Component`, in definition (= iteration) order. -/
inductive Component
  | accountId | accountType | accountCode | accountHolderId | currencyCode
  | bankCode | branchCode | nationalChecksumDigits
  deriving DecidableEq, Repr, Inhabited

def Component.all : List Component :=
  [.accountId, .accountType, .accountCode, .accountHolderId, .currencyCode,
   .bankCode, .branchCode, .nationalChecksumDigits]

/-- A character class of the regular-expression sub-language the library uses. -/
inductive CClass
  | uniDigit                          -- `\d` (Unicode aware in a `str` pattern)
  | ranges (rs : List (Nat × Nat))    -- `[a-bc-d…]`, a single literal `x` is `(x, x)`
  deriving DecidableEq, Repr, Inhabited

def CClass.test (U : Unicode) : CClass → Nat → Bool
  | .uniDigit, c => U.isDigit c
  | .ranges rs, c => rs.any (fun r => r.1 ≤ c && c ≤ r.2)

/-- `class{lo,hi}`. -/
structure Item where
  cls : CClass
  lo : Nat
  hi : Nat
  deriving DecidableEq, Repr, Inhabited

/-- Half-open position range `[start, stop)` of a component inside the BBAN
    (`bban.Range`). -/
structure Range where
  start : Nat
  stop : Nat
  deriving DecidableEq, Repr, Inhabited

def Range.length (r : Range) : Nat := r.stop - r.start
def Range.isEmpty (r : Range) : Bool := r.start == 0 && r.stop == 0
/-- `Range.cut`: `s[start:end]`. -/
def Range.cut (r : Range) (s : Str) : Str := slice s r.start r.stop

structure Country where
  /-- The key of the entry in the table. -/
  code : Str
  bbanSpec : Str
  bbanLength : Nat
  ibanLength : Nat
  /-- `spec["regex"]`, parsed by the translator from the live compiled pattern string
      `^item…$`; `none` if the pattern is outside the sub-language. -/
  pattern : Option (List Item)
  /-- `spec["positions"]` if the key is present. -/
  positions : Option (List (Component × Range))
  /-- `spec["bic_lookup_components"]` if present. -/
  bicLookup : Option (List Component)
  /-- `spec["default_<component>"]` entries. -/
  defaults : List (Component × Str)
  deriving Repr, Inhabited

abbrev Table := List Country

/-- `registry.get("iban")[cc]` — `none` is Python's `KeyError`. -/
def Table.lookup (T : Table) (cc : Str) : Option Country := T.find? (fun e => e.code == cc)

/-- `_get_position_range(spec, component)`. -/
def Country.range (e : Country) (k : Component) : Range :=
  match e.positions with
  | none => ⟨0, 0⟩
  | some ps => match ps.lookup k with
    | some r => r
    | none => ⟨0, 0⟩

end SV
