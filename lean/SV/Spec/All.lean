/-
  SV.Spec.All — dispatcher of the executable specifications for the driver (`spec.*` ops).
-/
import SV.Model.Iban
namespace SV.Spec

/-- `spec.*` operations; filled in by the Spec modules. -/
def dispatch (_X : Ctx) (_op : String) (_args : List String) : Option String := none

end SV.Spec
