/-
  SV.Spec.All — dispatcher of the executable specifications for the driver (`spec.*` ops).
-/
import SV.Protocol
import SV.Spec.Iso13616
import SV.Spec.Iso9362
import SV.Proofs.IbanSound
import SV.Spec.National
namespace SV.Spec

/-- Boolean form of `ibanDefect` (by error-class name). -/
def ibanDefectB (T : Table) (k : String) (c : Str) : Option Bool :=
  match k with
  | "InvalidCountryCode" => some (T.lookup (c.take 2)).isNone
  | "InvalidLength" => some (match T.lookup (c.take 2) with
      | some e => c.length != e.bbanLength + 4
      | none => false)
  | "InvalidStructure" => some (!structureOk T c)
  | "InvalidChecksumDigits" => some (structureOk T c && !checksumOk c)
  | _ => none

/-- The defect a BIC error class names. -/
def bicDefectB (iso : List Str) (k : String) (strict : Bool) (c : Str) : Option Bool :=
  let lenOk := c.length == 8 || c.length == 11
  let structOk := iso9362 [(c.drop 4).take 2] strict c
  match k with
  | "InvalidLength" => some (!lenOk)
  | "InvalidStructure" => some (lenOk && !structOk)
  | "InvalidCountryCode" => some (structOk && !iso.contains ((c.drop 4).take 2))
  | _ => none

/-- The published national rule, for the countries whose rule is stated in `SV.Spec.National`
    (prefix lengths as in `SV.Props.C06.live_iso_default` etc.). -/
def nationalB (cc : String) (b : Str) : Option Bool :=
  match cc with
  | "BA" => some (mod97_98 b 14) | "ME" => some (mod97_98 b 16) | "MK" => some (mod97_98 b 13)
  | "PT" => some (mod97_98 b 19) | "RS" => some (mod97_98 b 16) | "SI" => some (mod97_98 b 13)
  | "TL" => some (mod97_98 b 17) | "MR" => some (mod97_97 b 21) | "TN" => some (mod97_97 b 18)
  | "BE" => some (belgium b)
  | _ => none

/-- `spec.*` operations. -/
def dispatch (X : Ctx) (op : String) (args : List String) : Option String :=
  match op, args with
  | "spec.iban_valid", [t] => do
    -- the argument is the raw text; the Spec is about its cleaned form
    let t ← parseStr t
    pure ("ok " ++ showBool (isoValid X.T (clean X.U t)))
  | "spec.check_digits", [cc, b] => do
    let cc ← parseStr cc
    let b ← parseStr b
    pure ("ok " ++ showStr (fmt02 (checkDigits cc b)))
  | "spec.fits", [cc, b] => do
    let cc ← parseStr cc
    let b ← parseStr b
    match X.T.lookup cc with
    | some e => pure ("ok " ++ showBool (fits e b))
    | none => pure "none"
  | "spec.national", [cc, b] => do
    let cc ← parseStr cc
    let b ← parseStr b
    match nationalB (String.ofList (cc.map Char.ofNat)) b with
    | some v => pure ("ok " ++ showBool v)
    | none => pure "none"
  | "spec.bic_valid", [strict, t] => do
    let strict ← parseBool strict
    let t ← parseStr t
    pure ("ok " ++ showBool (iso9362 X.B.iso strict (clean X.U t)))
  | "spec.iban_defect", [k, t] => do
    let t ← parseStr t
    match ibanDefectB X.T k (clean X.U t) with
    | some b => pure ("ok " ++ showBool b)
    | none => pure "ok F"
  | "spec.bic_defect", [k, strict, t] => do
    let strict ← parseBool strict
    let t ← parseStr t
    match bicDefectB X.B.iso k strict (clean X.U t) with
    | some b => pure ("ok " ++ showBool b)
    | none => pure "ok F"
  | _, _ => none

end SV.Spec
