/-
  SV.Spec.All — dispatcher of the executable specifications for the driver (`spec.*` ops).
-/
import SV.Protocol
import SV.Spec.Iso13616
namespace SV.Spec

/-- `spec.*` operations. -/
def dispatch (X : Ctx) (op : String) (args : List String) : Option String :=
  match op, args with
  | "spec.iban_valid", [c] => do
    let c ← parseStr c
    pure ("ok " ++ showBool (isoValid X.T c))
  | "spec.check_digits", [cc, b] => do
    let cc ← parseStr cc
    let b ← parseStr b
    pure ("ok " ++ showStr (fmt02 (checkDigits cc b)))
  | "spec.fits", [cc, b] => do
    let cc ← parseStr cc
    let b ← parseStr b
    match X.T.lookup cc with
    | some e => pure ("ok " ++ showBool (fits e b))
    | none => pure "none"
  | _, _ => none

end SV.Spec
