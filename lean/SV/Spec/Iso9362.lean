/-
  SV.Spec.Iso9362 — the structure of a BIC (ISO 9362:2022 / SWIFT BIC policy), from the
  property text: 8 or 11 characters; four alphanumeric party-prefix characters (letters only
  under strict SWIFT compliance); two letters forming a known ISO 3166-1 alpha-2 country code;
  two alphanumeric location characters; optionally three alphanumeric branch characters.
-/
import SV.Model.Bic
namespace SV.Spec

def isAlnumU (x : Nat) : Bool := isAsciiDigit x || isAsciiUpper x

def iso9362 (iso : List Str) (strict : Bool) (c : Str) : Bool :=
  (c.length == 8 || c.length == 11) &&
  (c.take 4).all (fun x => if strict then isAsciiUpper x else isAlnumU x) &&
  ((c.drop 4).take 2).all isAsciiUpper &&
  iso.contains ((c.drop 4).take 2) &&
  ((c.drop 6).take 2).all isAlnumU &&
  (c.drop 8).all isAlnumU

end SV.Spec
