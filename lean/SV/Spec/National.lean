/-
  SV.Spec.National — published national check-digit rules over BBAN string positions
  (`DESIGN.md`, Appendix A), written independently of the code's classes.
-/
import SV.Spec.Iso13616
namespace SV.Spec

/-- ISO 7064 mod 97-10 over a prefix: the two characters after the first `n` are
    `post(prefix·100 mod 97)` written with two digits. -/
def mod97 (post : Nat → Nat) (b : Str) (n : Nat) : Bool :=
  b.drop n == fmt02 (post ((numVal (b.take n) 0 * 100) % 97))

/-- BA, ME, MK, PT, RS, SI, TL: `98 − r`. -/
def mod97_98 (b : Str) (n : Nat) : Bool := mod97 (fun r => 98 - r) b n
/-- MR, TN: `97 − r`. -/
def mod97_97 (b : Str) (n : Nat) : Bool := mod97 (fun r => 97 - r) b n
/-- BE: `b[10:12] = b[0:10] mod 97`, with 0 written as 97. -/
def belgium (b : Str) : Bool :=
  b.drop 10 == fmt02 (let r := numVal (b.take 10) 0 % 97; if r ≠ 0 then r else 97)

end SV.Spec
