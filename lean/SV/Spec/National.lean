/-
  SV.Spec.National — published national check-digit rules over BBAN string positions
  (`DESIGN.md`, Appendix A), written independently of the code's classes.
-/
import SV.Spec.Iso13616
namespace SV.Spec

/-- ISO 7064 mod 97-10 over a prefix: the two characters after the first `n` are
    `post(prefix·100 mod 97)` written with two digits. -/
def mod97 (post : Nat → Nat) (b : Str) (n : Nat) : Bool :=
  b.drop n == fmt02 (post ((numVal (b.take n) 0 * 100) % 97))

/-- BA, ME, MK, PT, RS, SI, TL: `98 − r`. -/
def mod97_98 (b : Str) (n : Nat) : Bool := mod97 (fun r => 98 - r) b n
/-- MR, TN: `97 − r`. -/
def mod97_97 (b : Str) (n : Nat) : Bool := mod97 (fun r => 97 - r) b n
/-- BE: `b[10:12] = b[0:10] mod 97`, with 0 written as 97. -/
def belgium (b : Str) : Bool :=
  b.drop 10 == fmt02 (let r := numVal (b.take 10) 0 % 97; if r ≠ 0 then r else 97)

/-! ### Weighted-sum, Luhn, RIB and CIN rules (ES, FR, MC, IT, SM, FI, NO, PL, EE, CZ, SK, IS)

Each rule is stated over the BBAN *string positions* of the country, as published, with the
weights written out.  Digit characters stand for their value, and a check character is compared
as a character (`48 + d` is the character of the digit `d`, `65 + k` the `k`-th letter). -/

/-- Value of a decimal digit character. -/
def dv (c : Nat) : Nat := c - 48

/-- `Σ wᵢ·dᵢ` over the leading characters of `s` (as many as there are weights). -/
def wsum : List Nat → Str → Nat
  | w :: ws, c :: t => w * dv c + wsum ws t
  | _, _ => 0

/-- Spain: a control digit is `11 − (Σ mod 11)`, with 11 written as 0 and 10 as 1. -/
def spainDigit (s : Nat) : Nat :=
  let r := 11 - s % 11
  if r = 11 then 0 else if r = 10 then 1 else r

/-- ES (20 digits: bank 0–3, branch 4–7, two control digits 8–9, account 10–19): the first control
    digit protects bank and branch with weights 4,8,5,10,9,7,3,6, the second the account number
    with weights 1,2,4,8,5,10,9,7,3,6. -/
def spain (b : Str) : Bool :=
  slice b 8 10 ==
    [48 + spainDigit (wsum [4, 8, 5, 10, 9, 7, 3, 6] (slice b 0 8)),
     48 + spainDigit (wsum [1, 2, 4, 8, 5, 10, 9, 7, 3, 6] (slice b 10 20))]

/-- The RIB letter table: A,J → 1; B,K,S → 2; C,L,T → 3; D,M,U → 4; E,N,V → 5; F,O,W → 6;
    G,P,X → 7; H,Q,Y → 8; I,R,Z → 9; digits stand for themselves. -/
def ribTable : List (Nat × Nat) :=
  [(65, 1), (74, 1), (66, 2), (75, 2), (83, 2), (67, 3), (76, 3), (84, 3), (68, 4), (77, 4), (85, 4),
   (69, 5), (78, 5), (86, 5), (70, 6), (79, 6), (87, 6), (71, 7), (80, 7), (88, 7),
   (72, 8), (81, 8), (89, 8), (73, 9), (82, 9), (90, 9)]

def ribVal (c : Nat) : Nat := if c ≤ 57 then c - 48 else (ribTable.lookup c).getD 0

/-- The number spelled by a text after replacing letters through the RIB table. -/
def ribNum : Str → Nat → Nat
  | [], acc => acc
  | c :: t, acc => ribNum t (acc * 10 + ribVal c)

/-- FR, MC (23 characters: bank 0–4, branch 5–9, account 10–20, key 21–22): the RIB key is
    `97 − (N·100 mod 97)` where `N` is the number spelled by the first 21 characters (letters
    replaced through the table), written with two digits. -/
def france (b : Str) : Bool :=
  b.drop 21 == fmt02 (97 - (ribNum (b.take 21) 0 * 100) % 97)

/-- CIN: value of a character in an even position (digits and letters count from 0). -/
def cinVal (c : Nat) : Nat := if c ≤ 57 then c - 48 else c - 65

/-- CIN: value of a character in an odd position (1st, 3rd, …), indexed by `cinVal`. -/
def cinOdd : List Nat :=
  [1, 0, 5, 7, 9, 13, 15, 17, 19, 21, 2, 4, 18, 20, 11, 3, 6, 8, 12, 14, 16, 10, 22, 25, 24, 23]

/-- Sum of the CIN values; `i` is the 0-based index of the first character of `s`. -/
def cinSum : Str → Nat → Nat
  | [], _ => 0
  | c :: t, i => (if i % 2 = 0 then cinOdd.getD (cinVal c) 0 else cinVal c) + cinSum t (i + 1)

/-- IT, SM (23 characters: CIN 0, ABI 1–5, CAB 6–10, account 11–22): the CIN is the letter whose
    index is the sum of the values of the 22 characters after it, modulo 26. -/
def italy (b : Str) : Bool :=
  b.take 1 == [65 + cinSum (slice b 1 23) 0 % 26]

/-- Luhn sum, `s` given from the right: every second digit starting with the rightmost is
    doubled, and the digits of the products are added. -/
def luhnR : Str → Nat → Nat
  | [], _ => 0
  | c :: t, i =>
    (let p := dv c * (if i % 2 = 0 then 2 else 1); p / 10 + p % 10) + luhnR t (i + 1)

/-- FI (14 digits: bank 0–2, account 3–12, check digit 13): Luhn over the first 13 digits. -/
def finland (b : Str) : Bool :=
  b.drop 13 == [48 + (10 - luhnR (b.take 13).reverse 0 % 10) % 10]

/-- NO: the weighted sum that the check digit protects — the ten digits before it with weights
    5,4,3,2,7,6,5,4,3,2, or, for account numbers whose account part starts with `00`, the last
    four of them with weights 5,4,3,2. -/
def norwaySum (b : Str) : Nat :=
  if slice b 4 6 == [48, 48] then wsum [5, 4, 3, 2] (slice b 6 10)
  else wsum [5, 4, 3, 2, 7, 6, 5, 4, 3, 2] (slice b 0 10)

/-- NO: no check digit exists when `11 − (Σ mod 11)` is 10. -/
def norwayUnusable (b : Str) : Bool := 11 - norwaySum b % 11 == 10

/-- NO (11 digits: bank 0–3, account 4–9, check digit 10): the check digit is `11 − (Σ mod 11)`,
    11 written as 0; 10 is unusable. -/
def norway (b : Str) : Bool :=
  !norwayUnusable b && b.drop 10 == [48 + (11 - norwaySum b % 11) % 11]

/-- PL (24 digits: bank 0–2, branch 3–6, check digit 7, account 8–23): the eighth digit of the
    sort code is `(10 − Σ mod 10) mod 10` over the first seven with weights 3,9,7,1,3,9,7. -/
def poland (b : Str) : Bool :=
  slice b 7 8 == [48 + (10 - wsum [3, 9, 7, 1, 3, 9, 7] (slice b 0 7) % 10) % 10]

/-- EE (16 digits: bank 0–1, branch 2–3, account 4–14, check digit 15): method 7-3-1 from the
    right over branch and account number. -/
def estonia (b : Str) : Bool :=
  b.drop 15 ==
    [48 + (10 - wsum [7, 3, 1, 7, 3, 1, 7, 3, 1, 7, 3, 1, 7] (slice b 2 15).reverse % 10) % 10]

/-- CZ, SK (20 digits: bank 0–3, prefix 4–9, account 10–19): prefix and account number are each
    divisible by 11 under the weights 6,3,7,9,10,5,8,4,2,1 (the prefix uses the last six). -/
def czech (b : Str) : Bool :=
  wsum [10, 5, 8, 4, 2, 1] (slice b 4 10) % 11 == 0 &&
  wsum [6, 3, 7, 9, 10, 5, 8, 4, 2, 1] (slice b 10 20) % 11 == 0

/-- IS (22 digits; the holder's kennitala is 12–21): its ninth digit is `11 − (Σ mod 11)` over
    the first eight with weights 3,2,7,6,5,4,3,2 (0 when the sum is divisible by 11); a
    remainder of 1 admits no check digit. -/
def iceland (b : Str) : Bool :=
  let r := wsum [3, 2, 7, 6, 5, 4, 3, 2] (slice b 12 22) % 11
  r != 1 && slice b 20 21 == [48 + (if r = 0 then 0 else 11 - r)]

end SV.Spec
