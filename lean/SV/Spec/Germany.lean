/-
  SV.Spec.Germany — the Bundesbank check-digit methods ("Prüfzifferberechnungsmethoden"), written
  from the published descriptions over the ten digits `d1 … d10` of the account number
  (`DESIGN.md`, Appendix A) — not from the code's class hierarchy.
-/
import SV.Model.National
namespace SV.Spec

/-- `Σ dᵢ·wᵢ` (weights first; the lists are given in the order the method pairs them). -/
def dot : List Nat → List Nat → Nat
  | w :: ws, d :: ds => d * w + dot ws ds
  | _, _ => 0

/-- `Σ q(dᵢ·wᵢ)` with `q` the cross sum. -/
def dotQ : List Nat → List Nat → Nat
  | w :: ws, d :: ds => digitSum (d * w) + dotQ ws ds
  | _, _ => 0

/-- `Σ (dᵢ·wᵢ mod 10)` (method 22). -/
def dotM10 : List Nat → List Nat → Nat
  | w :: ws, d :: ds => d * w % 10 + dotM10 ws ds
  | _, _ => 0

/-- Methods 00/01 style: the check digit completes the sum to a multiple of 10. -/
def rule10 (s pz : Nat) : Bool := pz == (10 - s % 10) % 10

/-- Method 02 style: remainder 0 → 0, remainder 1 → the number is invalid, else `11 − r`. -/
def rule02 (s pz : Nat) : Bool :=
  if s % 11 = 0 then pz == 0 else if s % 11 = 1 then false else pz == 11 - s % 11

/-- Method 06 style: remainder 0 or 1 → 0, else `11 − r`. -/
def rule06 (s pz : Nat) : Bool :=
  pz == (if s % 11 = 0 ∨ s % 11 = 1 then 0 else 11 - s % 11)

/-- Method 11: like 06, but remainder 1 gives 9. -/
def rule11 (s pz : Nat) : Bool :=
  pz == (if s % 11 = 0 then 0 else if s % 11 = 1 then 9 else 11 - s % 11)

/-- Method 68: ten-digit numbers (`d1 ≠ 0`) need `d4 = 9` and are checked like 00 over positions 4–9;
    nine-digit and shorter numbers: 400000000–499999999 are not checked; otherwise like 00 over
    positions 2–9, or — second variant — the same with positions 3 and 4 left out. -/
def de68 (d1 d2 d3 d4 d5 d6 d7 d8 d9 d10 : Nat) : Bool :=
  if d1 ≠ 0 then decide (d4 = 9) && rule10 (dotQ [2, 1, 2, 1, 2, 1] [d9, d8, d7, d6, d5, d4]) d10
  else if d2 = 4 then true
  else rule10 (dotQ [2, 1, 2, 1, 2, 1, 2, 1] [d9, d8, d7, d6, d5, d4, d3, d2]) d10 ||
       rule10 (dotQ [2, 1, 2, 1, 2, 1] [d9, d8, d7, d6, d5, d2]) d10

end SV.Spec

namespace SV.Spec

/-- The account number as a natural number. -/
def num : List Nat → Nat → Nat
  | [], acc => acc
  | d :: t, acc => num t (acc * 10 + d)

/-- Repeated cross sum down to one digit (method 21). -/
def crossReduce : Nat → Nat → Nat
  | 0, n => n
  | f + 1, n => if 10 ≤ n then crossReduce f (digitSum n) else n

/-- Method 16/23 style: like 06, additionally valid when the remainder is 1 and the check digit
    equals the digit before it. -/
def rule16 (s before pz : Nat) : Bool :=
  (s % 11 = 1 ∧ before = pz) || rule06 s pz

/-- Method 25: remainder 0 → 0; remainder 1 → 0 and the second digit must be 8 or 9; else `11 − r`. -/
def rule25 (s d2 pz : Nat) : Bool :=
  if s % 11 = 0 then pz == 0
  else if s % 11 = 1 then pz == 0 && (d2 == 8 || d2 == 9)
  else pz == 11 - s % 11

/-- Method 17: `r = (s − 1) mod 11`; check digit 0 if `r = 0`, else `10 − r`. -/
def rule17 (s pz : Nat) : Bool :=
  let r := ((s : Int) - 1) % 11
  (pz : Int) == (if r = 0 then 0 else 10 - r)

/-- Method 21: the sum is reduced by repeated cross sums; `pz = (10 − s) mod 10`. -/
def rule21 (s pz : Nat) : Bool := pz == (10 - crossReduce s s) % 10

/-- Method 76: the remainder itself is the check digit; remainder 10 cannot be used. -/
def rule76 (s pz : Nat) : Bool := s % 11 ≠ 10 && pz == s % 11

end SV.Spec

namespace SV.Spec

/-- `Σ ((dᵢ·wᵢ + wᵢ) mod 11)` (method 24). -/
def dot24 : List Nat → List Nat → Nat
  | w :: ws, d :: ds => (d * w + w) % 11 + dot24 ws ds
  | _, _ => 0

def dropZeros : List Nat → List Nat
  | [] => []
  | d :: t => if d = 0 then dropZeros t else d :: t

/-- Method 24: digits 1–9 left to right; a leading 3, 4, 5 or 6 counts as 0, a leading 9 makes the
    first three digits count as 0; weights 1, 2, 3, 1, 2, 3, … start at the first significant digit;
    each product is increased by its weight and reduced modulo 11; the check digit (position 10)
    is the last digit of the sum. -/
def de24 (ds : List Nat) (pz : Nat) : Bool :=
  let body := match ds with
    | d1 :: rest => if d1 = 3 ∨ d1 = 4 ∨ d1 = 5 ∨ d1 = 6 then rest
                    else if d1 = 9 then rest.drop 2 else d1 :: rest
    | [] => []
  pz == dot24 [1, 2, 3, 1, 2, 3, 1, 2, 3] (dropZeros body) % 10

end SV.Spec
