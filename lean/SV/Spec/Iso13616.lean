/-
  SV.Spec.Iso13616 — what the properties say about IBANs, written from the standard and the
  property text, independently of the code's structure.  Executable (Bool-valued), so the same
  definitions serve as the oracle of the failing-input search.
-/
import SV.Model.Iban
namespace SV.Spec

/-- Character classes of an ISO 13616 structure string. -/
inductive SClass | n | a | c | e
  deriving DecidableEq, Repr, Inhabited

/-- Membership of a (cleaned, i.e. upper-cased) character in a class:
    `n` digits 0-9, `a` upper-case letters A-Z, `c` alphanumeric, `e` blank. -/
def SClass.ok : SClass → Nat → Bool
  | .n, x => isAsciiDigit x
  | .a, x => isAsciiUpper x
  | .c, x => isAsciiDigit x || isAsciiUpper x
  | .e, x => x == 32

def SClass.ofChar (ch : Nat) : Option SClass :=
  if ch = 110 then some .n else if ch = 97 then some .a else if ch = 99 then some .c
  else if ch = 101 then some .e else none

/-- Parse a structure string `8!n10!n…` into `(count, class)` items.  `acc` is the count read so
    far (`none` before the first digit).  Only fixed-length items (`!`) are part of the grammar; blanks
    between items carry no meaning in the notation and are skipped (a structure cell with a stray blank
    still describes the same BBANs). -/
def parseSpecAux : Str → Option Nat → Option (List (Nat × SClass))
  | [], none => some []
  | [], some _ => none
  | ch :: t, acc =>
    if isAsciiDigit ch then parseSpecAux t (some (acc.getD 0 * 10 + (ch - 48)))
    else if ch = 33 then
      match acc, t with
      | some k, cl :: t' =>
        match SClass.ofChar cl, parseSpecAux t' none with
        | some c, some rest => some ((k, c) :: rest)
        | _, _ => none
      | _, _ => none
    else if ch = 32 then
      match acc with
      | none => parseSpecAux t none
      | some _ => none
    else none

def parseSpec (s : Str) : Option (List (Nat × SClass)) := parseSpecAux s none

/-- One class per BBAN position. -/
def expandSpec : List (Nat × SClass) → List SClass
  | [] => []
  | (k, c) :: t => List.replicate k c ++ expandSpec t

/-- `b` has exactly the positions of the structure and every character is in its class. -/
def fitsClasses : List SClass → Str → Bool
  | [], [] => true
  | c :: cs, x :: xs => c.ok x && fitsClasses cs xs
  | _, _ => false

/-- A BBAN (in compact form) fits the country's structure string. -/
def fits (e : Country) (b : Str) : Bool :=
  match parseSpec e.bbanSpec with
  | some l => fitsClasses (expandSpec l) b
  | none => false

/-- The number ISO 13616 assigns to a text of digits and upper-case letters: digits stand for
    themselves, `A … Z` for `10 … 35`, concatenated in decimal. -/
def numVal : Str → Nat → Nat
  | [], acc => acc
  | ch :: t, acc => if isAsciiDigit ch then numVal t (acc * 10 + (ch - 48))
                    else numVal t (acc * 100 + (ch - 55))

/-- Value of a two-character check-digit field. -/
def ddVal (c : Str) : Nat := (c.getD 2 48 - 48) * 10 + (c.getD 3 48 - 48)

/-- The ISO 13616 rule set over a country table, for a compact text `c`:
    known country, two check digits, BBAN of the country's length fitting its structure,
    remainder 1 modulo 97 of the rearranged number, and (property C02) check digits in 02..98. -/
def isoValid (T : Table) (c : Str) : Bool :=
  match T.lookup (c.take 2) with
  | none => false
  | some e =>
    c.length == e.bbanLength + 4 &&
    isAsciiDigit (c.getD 2 0) && isAsciiDigit (c.getD 3 0) &&
    fits e (c.drop 4) &&
    numVal (c.drop 4 ++ c.take 4) 0 % 97 == 1 &&
    decide (2 ≤ ddVal c) && decide (ddVal c ≤ 98)

/-- The check digits ISO 7064 mod 97-10 assigns to a country code and BBAN. -/
def checkDigits (cc b : Str) : Nat := 98 - (numVal (b ++ cc) 0 * 100) % 97

end SV.Spec
