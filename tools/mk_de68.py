"""Writes the proof text of theorem `de68` (Bundesbank method 68) to stdout.

The proof is a zero-prefix case tree (which leading digits of the account are 0 decides how many
digits the engine feeds to the weighted sum, separately for the two attempts of the method); each
leaf evaluates the engine with `de_simp`, abstracts the one or two digit-sum expressions and
closes by `decide +kernel` over the residues.  The text is pasted into Props/C07Special.lean.
"""
HS = "intChar_ascii hU, h1, h2, h3, h4, h5, h6, h7, h8, h9, h10"
SIMP = ("de_simp [Gen.de_DE_68, rstrip0, lstrip0, Spec.de68, hint, hw1, hw2, hw3, hw4, hw5, hw6, hw7, "
        "hw8, i0, i9, {facts}" + HS + "]")


def term(d, w):
    return f"digitSum (d{d} * 2)" if w == 2 else f"digitSum d{d}"


def sumexpr(ds, weights=None):
    if weights is None:
        weights = [[2, 1][i % 2] for i in range(len(ds))]
    parts = [term(d, w) for d, w in zip(ds, weights)]
    if not parts:
        return None
    s = parts[-1]
    for p in reversed(parts[:-1]):
        s = f"{p} + ({s})"
    return s


def close(ind, s1, s2, extra_clear="hn"):
    pad = " " * ind
    L = ["clear hw1 hw2 hw3 hw4 hw5 hw6 hw7 hw8 hint"]
    vs = []
    if s1:
        L.append(f"generalize {s1} = S1")
        vs.append("S1")
    if s2 and s2 != s1:
        L.append(f"generalize {s2} = S2")
        vs.append("S2")
    for v in vs:
        L.append(f"have e{v} : (({v} : Int) % 10) = (({v} % 10 : Nat) : Int) := by omega")
    L.append("simp only [natToInt, rule10" + "".join(f", e{v}" for v in vs) + "]")
    for v in vs:
        L.append(f"have hr{v} : {v} % 10 < 10 := Nat.mod_lt _ (by decide)")
        L.append(f"generalize {v} % 10 = r{v} at hr{v} ⊢")
    if vs:
        L.append("clear " + " ".join(f"e{v}" for v in vs))
    L.append(f"clear {extra_clear}")
    for v in vs:
        L.append(f"revert hr{v}; revert r{v}")
    L.append("revert h10; revert d10")
    L.append("decide +kernel")
    return "\n".join(pad + x for x in L)


def second_tree(ind, facts, ds1, cands, known_zero):
    """d1 = d2 = 0 and the first non-zero digit is d3 or d4: the second attempt (d3, d4 blanked)
    strips further zeros among d5..d9."""
    pad = " " * ind
    w = {d: [2, 1][i % 2] for i, d in enumerate(ds1)}
    now = [d for d in ds1 if d not in known_zero]
    s1 = sumexpr(now, [w[d] for d in now])
    if not cands:
        return f"{pad}{SIMP.format(facts=facts)}\n" + close(ind, s1, None)
    j = cands[0]
    out = f"{pad}by_cases y{j} : d{j} = 0\n"
    out += f"{pad}· subst y{j}\n" + second_tree(ind + 2, facts, ds1, cands[1:], known_zero + [j]) + "\n"
    out += f"{pad}· have ny{j} : ¬ (48 + d{j} = 48) := by omega\n"
    s2 = sumexpr(list(range(9, j - 1, -1)))
    out += f"{pad}  {SIMP.format(facts=facts + f'y{j}, ny{j}, ')}\n" + close(ind + 2, s1, s2)
    return out


def first_tree(cands, ind, facts):
    pad = " " * ind
    if not cands:
        return f"{pad}{SIMP.format(facts=facts)}\n" + close(ind, None, None)
    j = cands[0]
    out = f"{pad}by_cases z{j} : d{j} = 0\n"
    out += f"{pad}· subst z{j}\n" + first_tree(cands[1:], ind + 2, facts) + "\n"
    out += f"{pad}· have nz{j} : ¬ (48 + d{j} = 48) := by omega\n"
    ds1 = list(range(9, j - 1, -1))
    s1 = sumexpr(ds1)
    if j == 2:
        s2 = sumexpr([9, 8, 7, 6, 5, 2])
        out += f"{pad}  {SIMP.format(facts=facts + f'z{j}, nz{j}, ')}\n" + close(ind + 2, s1, s2)
    elif j in (3, 4):
        out += second_tree(ind + 2, facts + f"z{j}, nz{j}, ", ds1, [5, 6, 7, 8, 9], [])
    else:
        out += f"{pad}  {SIMP.format(facts=facts + f'z{j}, nz{j}, ')}\n" + close(ind + 2, s1, s1)
    return out


def main():
    hw = "\n".join(
        f"  have hw{n} : cycleWeights Gen.de_DE_68.weights {n} = {[[2, 1][i % 2] for i in range(n)]} := by decide"
        for n in range(1, 9))
    num = "num [d1, d2, d3, d4, d5, d6, d7, d8, d9, d10] 0"
    s_a1 = sumexpr([9, 8, 7, 6, 5]).rstrip(")")  # placeholder, replaced below
    a1 = "digitSum (d9 * 2) + (digitSum d8 + (digitSum (d7 * 2) + (digitSum d6 + (digitSum (d5 * 2) + digitSum 9))))"
    print(f'''
set_option maxHeartbeats 32000000 in
/-- Method 68 (see `Spec.de68`): ten-digit numbers need a 9 as fourth digit and use six digits;
400000000…499999999 is not checked; nine-digit and shorter numbers are tried with all digits and
then with the digits d3, d4 left out. -/
theorem de68 (U : Unicode) (hU : U.WF) (d1 d2 d3 d4 d5 d6 d7 d8 d9 d10 : Nat)
    (h1 : d1 < 10) (h2 : d2 < 10) (h3 : d3 < 10) (h4 : d4 < 10) (h5 : d5 < 10) (h6 : d6 < 10)
    (h7 : d7 < 10) (h8 : d8 < 10) (h9 : d9 < 10) (h10 : d10 < 10) (sc : Scratch) :
    deVerdict (Gen.de_DE_68.validateM U [acct d1 d2 d3 d4 d5 d6 d7 d8 d9 d10] sc).2 = true ∧
    deAccepts (Gen.de_DE_68.validateM U [acct d1 d2 d3 d4 d5 d6 d7 d8 d9 d10] sc).2 =
      Spec.de68 d1 d2 d3 d4 d5 d6 d7 d8 d9 d10 := by
{hw}
  simp only [Gen.de_DE_68] at hw1 hw2 hw3 hw4 hw5 hw6 hw7 hw8
  have i0 : U.intChar 48 = .ok 0 := intChar_ascii hU (by decide : 0 < 10)
  have i9 : U.intChar 57 = .ok 9 := intChar_ascii hU (by decide : 9 < 10)
  have hint := pyIntStr_acct hU d1 d2 d3 d4 d5 d6 d7 d8 d9 d10 h1 h2 h3 h4 h5 h6 h7 h8 h9 h10
  by_cases z1 : d1 = 0
  · by_cases g4 : d2 = 4
    · subst z1 g4
      have hn : 400000000 ≤ num [0, 4, d3, d4, d5, d6, d7, d8, d9, d10] 0 ∧
          num [0, 4, d3, d4, d5, d6, d7, d8, d9, d10] 0 ≤ 499999999 := by
        simp only [num]; omega
      de_simp [Gen.de_DE_68, Spec.de68, hint, hn.1, hn.2, deVerdict, deAccepts]
    · have hn : ¬ (400000000 ≤ {num}) ∨ ¬ ({num} ≤ 499999999) := by
        subst z1; simp only [num]; omega
      subst z1
      rcases hn with hn | hn
      all_goals (
{first_tree([2, 3, 4, 5, 6, 7, 8, 9], 8, "hn, g4, ")}
      )
  · have hn : ¬ ({num} ≤ 499999999) := by simp only [num]; omega
    have nz1 : ¬ (48 + d1 = 48) := by omega
    by_cases g9 : d4 = 9
    · subst g9
      {SIMP.format(facts="hn, z1, nz1, ")}
{close(6, a1, None, "hn nz1")}
    · have c9 : ¬ (48 + d4 = 57) := by omega
      {SIMP.format(facts="hn, z1, nz1, g9, c9, deVerdict, deAccepts, ")}
''')


main()
