"""Correspondence runner: the same operation lines through the real library and the Lean driver."""
from __future__ import annotations

import os
import subprocess
import tempfile

from realops import real

HERE = os.path.dirname(os.path.abspath(__file__))
LEAN = os.path.join(os.path.dirname(HERE), "lean")
DRIVER = os.path.join(LEAN, ".lake", "build", "bin", "driver")


def run_driver(ops: list[list[str]]) -> list[str]:
    # `op@carrier` (text handed over as a str-subclass object) is the same operation for the model
    data = "".join("\t".join([f[0].split("@", 1)[0]] + list(f[1:])) + "\n" for f in ops)
    with tempfile.TemporaryFile("w+") as fin:
        fin.write(data)
        fin.seek(0)
        p = subprocess.run([DRIVER], stdin=fin, capture_output=True, text=True, timeout=3600)
    if p.returncode != 0:
        raise RuntimeError("driver failed: " + p.stderr[-2000:])
    out = p.stdout.split("\n")
    if out and out[-1] == "":
        out.pop()
    if len(out) != len(ops):
        raise RuntimeError(f"driver returned {len(out)} lines for {len(ops)} operations")
    return out


def compare(ops: list[list[str]]):
    """-> (real outputs, model outputs, indexes that differ)."""
    model = run_driver(ops)
    reals = [real(f) for f in ops]
    diff = [i for i, (a, b) in enumerate(zip(reals, model)) if a != b]
    return reals, model, diff
