"""Deterministic line-level thread scheduler for the real library (C14 search / replay).

Two (or more) callables run in real threads; `sys.settrace` stops every thread before each source line
executed inside schwifty/ and a controller decides which thread may execute its next line.  A
schedule is a list of thread ids; when it is exhausted the threads run to completion one after the
other (thread 0 first).  Every schedule is executed in a forked child, so each one starts from the
same post-import state (nothing looked up or validated yet) and cannot disturb the checker.
"""
from __future__ import annotations

import os
import pickle
import sys
import threading
import time

from realops import REPO, real

SRC = os.path.join(os.path.realpath(REPO), "schwifty") + os.sep


_src_cache = {}


def _in_src(fn):
    v = _src_cache.get(fn)
    if v is None:
        v = _src_cache[fn] = os.path.realpath(fn).startswith(SRC)
    return v


def rle(schedule):
    out = []
    for t in schedule:
        if out and out[-1][0] == t:
            out[-1][1] += 1
        else:
            out.append([t, 1])
    return out


def run_schedule(ops: list[list[str]], schedule, max_lines: int = 10 ** 7):
    """Run ops[i] in thread i under `schedule` (a list of thread ids, one entry per source line inside
    schwifty/, or run-length encoded [[thread, lines], …]). -> (results, lines executed per thread)"""
    n = len(ops)
    segs = [list(x) for x in schedule] if schedule and isinstance(schedule[0], (list, tuple)) else rle(schedule)
    cond = threading.Condition()
    state = {"seg": 0, "done": [False] * n, "free": None, "lines": [0] * n,
             "deadline": time.time() + 4.0}
    results = [None] * n

    def current():
        """thread that may run now (advancing over finished threads / empty segments)"""
        while state["seg"] < len(segs):
            t, k = segs[state["seg"]]
            if k <= 0 or state["done"][t]:
                state["seg"] += 1
                continue
            return t
        if state["free"] is None or state["done"][state["free"]]:
            rest = [k for k in range(n) if not state["done"][k]]
            state["free"] = rest[0] if rest else None
        return state["free"]

    def wait_turn(i):
        with cond:
            while True:
                t = current()
                if t == i or t is None:
                    return
                cond.wait(timeout=0.05)
                if time.time() > state["deadline"]:
                    segs.clear()          # a designated thread cannot proceed: give the schedule up
                    state["seg"] = 0

    def consume(i):
        """thread i executed one line"""
        state["lines"][i] += 1
        if state["seg"] < len(segs) and segs[state["seg"]][0] == i:
            segs[state["seg"]][1] -= 1
            if segs[state["seg"]][1] > 0:
                return                    # keep running without a hand-off
            with cond:
                cond.notify_all()
        wait_turn(i)

    def tracer_for(i):
        def local(frame, event, arg):
            if event == "line" and state["lines"][i] < max_lines:
                consume(i)
            return local

        def glob(frame, event, arg):
            if event == "call" and _in_src(frame.f_code.co_filename):
                return local
            return None
        return glob

    def body(i):
        sys.settrace(tracer_for(i))
        try:
            wait_turn(i)
            results[i] = real(ops[i])
        except BaseException as e:  # noqa: BLE001
            results[i] = "crash " + type(e).__name__
        finally:
            sys.settrace(None)
            with cond:
                state["done"][i] = True
                cond.notify_all()

    threads = [threading.Thread(target=body, args=(i,)) for i in range(n)]
    for t in threads:
        t.start()
    for t in threads:
        t.join(timeout=8)
    return results, state["lines"]


def in_child(fn, timeout: float = 20.0):
    """Run fn() in a forked child and return its (picklable) result; None if it dies or hangs."""
    import select
    import signal
    import time
    r, w = os.pipe()
    pid = os.fork()
    if pid == 0:
        try:
            os.close(r)
            signal.alarm(int(timeout) + 2)
            out = fn()
            with os.fdopen(w, "wb") as f:
                pickle.dump(out, f)
        finally:
            os._exit(0)
    os.close(w)
    data = b""
    deadline = time.time() + timeout
    with os.fdopen(r, "rb") as f:
        while True:
            left = deadline - time.time()
            if left <= 0:
                break
            ready, _, _ = select.select([f], [], [], left)
            if not ready:
                break
            chunk = os.read(f.fileno(), 1 << 16)
            if not chunk:
                break
            data += chunk
    try:
        os.kill(pid, signal.SIGKILL)
    except ProcessLookupError:
        pass
    os.waitpid(pid, 0)
    try:
        return pickle.loads(data) if data else None
    except Exception:  # noqa: BLE001
        return None


def alone(ops):
    """Each op in its own fresh child: the answer a caller gets when running alone."""
    return [in_child(lambda op=op: real(op)) for op in ops]


def single_preemption_schedules(lines0: int, lines1: int, limit: int):
    """Thread 1 runs k lines, then thread 0 runs to completion, then thread 1 — and vice versa."""
    out = []
    pts0 = list(range(0, lines0 + 1))
    pts1 = list(range(0, lines1 + 1))
    step0 = max(1, len(pts0) // max(1, limit // 2))
    step1 = max(1, len(pts1) // max(1, limit // 2))
    for k in pts1[::step1]:
        out.append([[1, k], [0, lines0 + 5]])
    for k in pts0[::step0]:
        out.append([[0, k], [1, lines1 + 5]])
    return out


HANG = ["no result: a call did not return within 40 s (hang / deadlock)"]


def search(ops: list[list[str]], limit: int = 120, budget_s: float = 25.0):
    """-> (number of schedules run, first (schedule, results, expected) whose results differ from alone)"""
    t_end = time.time() + budget_s
    expected = alone(ops)
    probe = in_child(lambda: run_schedule(ops, []))
    if probe is None:
        probe = in_child(lambda: run_schedule(ops, []), timeout=40)
        if probe is None and all(e is not None for e in expected):
            # each call returns when made alone (`alone` above), but not when the two threads run one
            # after the other: a call that never returns is not "the answer it would get alone"
            return 1, ([], HANG, expected)
        if probe is None:
            return 0, None
    lines = probe[1]
    n = 0
    for sch in single_preemption_schedules(lines[0], lines[1], limit):
        if time.time() > t_end:
            break
        res = in_child(lambda sch=sch: run_schedule(ops, sch), timeout=8)
        n += 1
        if res is None:
            res = in_child(lambda sch=sch: run_schedule(ops, sch), timeout=40)
            if res is None:
                if all(e is not None for e in expected):
                    return n, (sch, HANG, expected)
                continue
        if res[0] != expected:
            # compress the schedule for the replay
            return n, (sch, res[0], expected)
    return n, None


def search_flood(ops: list[list[str]], budget_s: float = 60.0, workers: int = 8):
    """Thread 0 is preempted once, after each of its source lines in turn; thread 1 (a long batch of calls)
    then runs to completion; thread 0 resumes.  -> (schedules run, first (schedule, results, expected))"""
    from concurrent.futures import ThreadPoolExecutor
    t_end = time.time() + budget_s
    expected = alone(ops)
    probe = in_child(lambda: run_schedule([ops[0]], []))
    if probe is None:
        return 0, None
    schedules = [[[0, k], [1, 10 ** 9]] for k in range(0, probe[1][0] + 1)]
    n = 0
    with ThreadPoolExecutor(workers) as ex:
        for j in range(0, len(schedules), workers):
            if time.time() > t_end:
                break
            batch = schedules[j:j + workers]
            for sch, res in zip(batch, ex.map(lambda sch: in_child(lambda: run_schedule(ops, sch), timeout=30),
                                              batch)):
                n += 1
                if res is not None and res[0] != expected:
                    return n, (sch, res[0], expected)
    return n, None


def in_fresh(ops, schedule, timeout: float = 30.0):
    """Run `run_schedule(ops, schedule)` in a FRESH interpreter (nothing of the library has been used
    yet: state the library builds on first use is built inside the scheduled calls). -> (results, lines)
    or None."""
    import json
    import subprocess
    try:
        p = subprocess.run([sys.executable, os.path.abspath(__file__), "--fresh"],
                           input=json.dumps({"ops": ops, "schedule": schedule}), capture_output=True, text=True,
                           timeout=timeout, env={**os.environ, "VERIF_REPO": REPO})
        line = [x for x in p.stdout.splitlines() if x.startswith("RESULT ")]
        return tuple(json.loads(line[-1][7:])) if line else None
    except Exception:  # noqa: BLE001
        return None


def search_cold(ops: list[list[str]], limit: int = 40, budget_s: float = 60.0, workers: int = 8):
    """As `search`, but every run (the stand-alone references too) starts in a fresh interpreter:
    finds interleavings of the FIRST use of the library in a process."""
    from concurrent.futures import ThreadPoolExecutor
    t_end = time.time() + budget_s
    with ThreadPoolExecutor(workers) as ex:
        refs = list(ex.map(lambda op: in_fresh([op], []), ops))
        if any(r is None for r in refs):
            return 0, None
        expected = [r[0][0] for r in refs]
        probe = in_fresh(ops, [])
        if probe is None:
            return 0, None
        lines = probe[1]
        schedules = single_preemption_schedules(lines[0], lines[1], limit)
        n = 0
        for k in range(0, len(schedules), workers):
            if time.time() > t_end:
                break
            batch = schedules[k:k + workers]
            for sch, res in zip(batch, ex.map(lambda sch: in_fresh(ops, sch), batch)):
                n += 1
                if res is not None and list(res[0]) != expected:
                    return n, (sch, list(res[0]), expected)
    return n, None


if __name__ == "__main__":
    import json
    if len(sys.argv) > 1 and sys.argv[1] == "--fresh":
        spec = json.load(sys.stdin)
        res = run_schedule(spec["ops"], spec["schedule"])
        print("RESULT " + json.dumps([res[0], res[1]]))
        sys.exit(0)
    spec = json.load(open(sys.argv[1]))
    res = in_child(lambda: run_schedule(spec["ops"], spec["schedule"]))
    print("observed :", res[0] if res else None)
    print("expected :", spec.get("expected"))
