#!/venv/bin/python
"""Effect probe, run by tools/gen.py in a FRESH interpreter (so that state which the library builds
lazily on first use is seen as a write after import): which attributes of the algorithm singletons
are visible across threads, and what a battery of library calls changes in the registries, the
algorithm objects and every piece of module-level / class-level mutable state of the schwifty
modules.  Prints one JSON object."""
from __future__ import annotations

import json
import os
import sys

REPO = os.environ.get("VERIF_REPO", "/repo")
sys.path.insert(0, REPO)


def main() -> None:
    import copy
    import threading
    from schwifty import BIC, IBAN, checksum, registry

    def in_thread(fn):
        box = {}
        t = threading.Thread(target=lambda: box.setdefault("v", fn()))
        t.start()
        t.join()
        return box.get("v")

    def snapshot():
        reg = {k: (id(v), len(v) if hasattr(v, "__len__") else 0) for k, v in dict.items(registry._registry)}
        first = {}
        for k, v in dict.items(registry._registry):
            if isinstance(v, dict):
                first[k] = [(kk, id(vv), len(vv) if hasattr(vv, "__len__") else 0) for kk, vv in list(v.items())[:50]]
                if k in ("bank_code", "bic", "country"):
                    first[k + "/order"] = hash(tuple(tuple(id(e) for e in vv) if isinstance(vv, list) else id(vv)
                                                     for vv in v.values()))
            elif isinstance(v, list):
                first[k] = [id(x) for x in v[:50]]
                # the entries themselves (an in-place update keeps identity and length)
                first[k + "/content"] = hash(tuple(tuple(sorted((str(a), str(b)) for a, b in x.items()))
                                                   if isinstance(x, dict) else str(x) for x in v))
        algos = {k: sorted((n, repr(x)) for n, x in vars(a).items()) if hasattr(a, "__dict__") else [] for k, a in
                 dict.items(checksum.algorithms)}
        return copy.deepcopy((reg, first, algos))

    def module_state():
        """Fingerprints of every piece of mutable state reachable from the schwifty modules without
        calling anything: module-level and class-level containers, functools caches (size and misses),
        mutable default arguments, closure cells and attributes of functions."""
        import types
        budget = [400000]

        def fp(v, depth=0):
            budget[0] -= 1
            if budget[0] < 0 or depth > 6:
                return ("…", id(v))
            if v is None or isinstance(v, (bool, int, float, str, bytes, type, types.FunctionType,
                                           types.BuiltinFunctionType, types.ModuleType)):
                return ("v", type(v).__name__, v if isinstance(v, (bool, int, str, bytes, type(None))) else id(v))
            if isinstance(v, dict):   # the plain dict protocol: a subclass that loads lazily is not triggered
                return ("d", dict.__len__(v), tuple((fp(k, depth + 1), fp(x, depth + 1)) for k, x in dict.items(v)))
            if isinstance(v, (list, tuple)):
                return (type(v).__name__, len(v), tuple(fp(x, depth + 1) for x in v))
            if isinstance(v, (set, frozenset)):
                return ("s", len(v), hash(frozenset(id(x) if not isinstance(x, (str, int, tuple)) else x for x in v)))
            if hasattr(v, "cache_info") and callable(v.cache_info):
                ci = v.cache_info()
                return ("lru", ci.currsize, ci.misses)
            d = getattr(v, "__dict__", None)
            if isinstance(d, dict) and depth < 3 and getattr(type(v), "__module__", "").startswith("schwifty"):
                return ("o", type(v).__name__, fp(d, depth + 1))
            return ("id", type(v).__name__, id(v))

        def interesting(v):
            return isinstance(v, (dict, list, set, bytearray)) or (hasattr(v, "cache_info") and callable(v.cache_info)) \
                or hasattr(v, "maxlen") or type(v).__name__ in ("WeakValueDictionary", "WeakKeyDictionary", "OrderedDict",
                                                                 "defaultdict", "Counter", "deque")

        def of_function(f, where, out):
            f = getattr(f, "__func__", f)
            for i, dv in enumerate((getattr(f, "__defaults__", None) or ())):
                if interesting(dv):
                    out[f"{where} default #{i}"] = fp(dv)
            for n, dv in (getattr(f, "__kwdefaults__", None) or {}).items():
                if interesting(dv):
                    out[f"{where} default {n}"] = fp(dv)
            for i, cell in enumerate(getattr(f, "__closure__", None) or ()):
                try:
                    cv = cell.cell_contents
                except ValueError:
                    continue
                if interesting(cv):
                    out[f"{where} closure #{i}"] = fp(cv)
                elif isinstance(cv, types.FunctionType) and cv is not f:
                    of_function(cv, where + " > " + cv.__name__, out)
            if getattr(f, "__dict__", None):
                for n, dv in f.__dict__.items():
                    if n != "__wrapped__" and interesting(dv):
                        out[f"{where}.{n}"] = fp(dv)
            w = getattr(f, "__wrapped__", None)
            if isinstance(w, types.FunctionType):
                of_function(w, where + " (wrapped)", out)

        out = {}
        # the third-party database the library consults (process-wide, so any write is shared state)
        try:
            import pycountry
            codes = sorted(c.alpha_2 for c in pycountry.countries)
            out["pycountry.countries"] = ("db", len(codes), hash(tuple(codes)))
        except Exception:  # noqa: BLE001
            pass
        for mname, mod in sorted(sys.modules.items()):
            if not (mname == "schwifty" or mname.startswith("schwifty.")) or mod is None:
                continue
            for name, v in sorted(vars(mod).items()):
                if name.startswith("__"):
                    continue
                where = f"{mname}.{name}"
                if mname == "schwifty.registry" and name == "_registry":
                    continue   # fingerprinted separately (objects, contents, order)
                if interesting(v):
                    out[where] = fp(v)
                elif getattr(type(v), "__module__", "").startswith("schwifty") and hasattr(v, "__dict__") \
                        and not isinstance(v, (type, types.ModuleType)) and not hasattr(v, "validate"):
                    out[where] = fp(v)
                elif isinstance(v, (types.FunctionType, types.MethodType)) or hasattr(v, "__wrapped__"):
                    if getattr(v, "__module__", "").startswith("schwifty") or hasattr(v, "cache_info"):
                        of_function(v, where, out)
                elif isinstance(v, type) and v.__module__ == mname:
                    for an, av in sorted(vars(v).items()):
                        if an.startswith("__") and an.endswith("__") and an not in ("__init__", "__new__", "__hash__", "__eq__"):
                            continue
                        if interesting(av):
                            out[f"{where}.{an}"] = fp(av)
                        elif getattr(type(av), "__module__", "").startswith("schwifty") and hasattr(av, "__dict__") \
                                and not isinstance(av, type):
                            out[f"{where}.{an}"] = fp(av)      # e.g. a shared dataclass instance
                        else:
                            raw = getattr(av, "__func__", getattr(av, "fget", av))
                            if isinstance(raw, types.FunctionType) or hasattr(raw, "__wrapped__") or hasattr(raw, "cache_info"):
                                if hasattr(raw, "cache_info") and callable(raw.cache_info):
                                    out[f"{where}.{an}"] = fp(raw)
                                of_function(raw, f"{where}.{an}", out)
        return out

    def thread_attrs():
        names = set()
        for a in checksum.algorithms.values():
            names |= set(getattr(a, "__dict__", {}))
        return sorted(names)

    before = in_thread(snapshot)
    mbefore = in_thread(module_state)

    def battery():
        import random as _random
        _r = _random.Random(7)
        for key, algo in sorted(dict.items(checksum.algorithms)):
            for _ in range(40):
                comps = ["".join(_r.choice("0123456789") for _ in range(10)) for _ in type(algo).accepts]
                for call in (lambda: algo.validate(list(comps), "00"), lambda: algo.compute(list(comps))):
                    try:
                        call()
                    except Exception:  # noqa: BLE001
                        pass
        for rep in range(2):
            for t in ("DE89370400440532013000", "DE65100307000100000111", "GB29NWBK60161331926819", "XX00", "",
                      "ES9121000418450200051332", "NO9386011117947", "DE12500105170648489890",
                      "DE02120300000000202051", "DE02100100100006820101", "FR1420041010050500013M02606",
                      "IT60X0542811101000000123456", "BE68539007547034", "FI2112345600000785",
                      "DK5000400440116243", "FO6264600001631634", "DE88100900001234567892"):
                for vb in (False, True):
                    try:
                        i = IBAN(t, validate_bban=vb)
                        i.bic, i.bank, i.bank_name, i.bank_short_name, i.formatted, i.numeric, i.is_valid
                        i.bank_code, i.branch_code, i.account_code, i.national_checksum_digits, i.account_type
                        i.bban.bank_code, i.bban.national_checksum_digits, hash(i), i == t, i < "X"
                        i.validate(validate_bban=True)
                    except ValueError:
                        pass
            for cc, code in (("DE", "43060967"), ("DE", "12070000"), ("XX", "1"), ("GB", "NWBK"), ("DE", "29050000"),
                             ("CZ", "0600"), ("SK", "0600")):
                try:
                    BIC.from_bank_code(cc, code)
                    BIC.candidates_from_bank_code(cc, code)
                except ValueError:
                    pass
            try:
                for t in ("GENODEM1GLS", "DEUTDEFF", "1234DEWW", "GENODEM1G-S"):
                    try:
                        b = BIC(t)
                        b.domestic_bank_codes, b.bank_names, b.exists, b.formatted, b.type, hash(b), b.country
                    except ValueError:
                        pass
                # table countries the country database does not know (e.g. user-assigned codes)
                import pycountry as _pc
                for cc in sorted(dict.keys(registry.get("iban"))):
                    if _pc.countries.get(alpha_2=cc) is None:
                        for mk in (lambda: BIC("ABCD" + cc + "22", allow_invalid=True).country,
                                   lambda: IBAN(cc + "00", allow_invalid=True).country,
                                   lambda: BIC("ABCD" + cc + "22").exists):
                            try:
                                mk()
                            except ValueError:
                                pass
                IBAN.generate("DE", "37040044", "532013000")
                IBAN.generate("ES", "2100", "0200051332", "0418")
                IBAN.generate("GB", "NWBK601613", "31926819")
                IBAN.random(country_code="DE", random=_random.Random(1))
                IBAN.random(country_code="DE", random=_random.Random(3), bank_code="37040044")
                IBAN.random(country_code="GB", random=_random.Random(4), account_code="31926819")
                IBAN.random(country_code="PL", random=_random.Random(5), branch_code="1111")
                IBAN.random(random=_random.Random(2))
                IBAN.from_bban("FO", "64600001631634")
            except ValueError:
                pass
    in_thread(battery)
    after = in_thread(snapshot)
    mafter = in_thread(module_state)
    tattrs = in_thread(lambda: (battery(), thread_attrs())[1])
    shared_scratch = []
    for key, algo in sorted(checksum.algorithms.items()):
        names = set(getattr(algo, "__dict__", {})) | {n for k in type(algo).__mro__ for n in getattr(k, "__slots__", ())
                                                       if isinstance(n, str) and not n.startswith("__")}
        for name in sorted(names):
            try:
                old = getattr(algo, name)
            except AttributeError:
                continue
            marker = 987654321
            try:
                in_thread(lambda: setattr(algo, name, marker))
                seen = getattr(algo, name, None)
            except Exception:
                continue
            if seen == marker:
                shared_scratch.append(f"{key}.{name}")
                try:
                    setattr(algo, name, old)
                except Exception:
                    pass

    writes = []
    for part, name in ((0, "registry._registry (objects)"), (1, "registry._registry (contents/order)"),
                       (2, "algorithm singletons")):
        if before[part] != after[part]:
            keys = [k for k in set(before[part]) | set(after[part]) if before[part].get(k) != after[part].get(k)]
            writes.append(f"{name}: {sorted(map(str, keys))[:6]}")
    mwrites = sorted(k for k in set(mbefore) | set(mafter) if mbefore.get(k) != mafter.get(k))
    print(json.dumps({"shared_scratch": shared_scratch, "writes": writes, "mwrites": mwrites[:40],
                      "tattrs": tattrs}))


if __name__ == "__main__":
    main()
