#!/usr/bin/env python3
"""Apply a seeded change to /repo, confirm it (tests at baseline, demo fails), run checks, undo it.
usage: mutrun.py <dir with patch.diff/demo.py/meta.json> [check ids …]   (default: the property of meta.json)"""
import json
import os
import subprocess
import sys

REPO = os.environ.get("VERIF_REPO", "/repo")
ROOT = os.path.dirname(os.path.dirname(os.path.abspath(__file__)))


def sh(cmd, **kw):
    p = subprocess.run(cmd, shell=True, capture_output=True, text=True, **kw)
    return p.returncode, (p.stdout + p.stderr)


def main():
    d = os.path.abspath(sys.argv[1])
    meta = json.load(open(os.path.join(d, "meta.json")))
    checks = sys.argv[2:] or [meta["property"]]
    rc, out = sh(f"git -C {REPO} status --porcelain")
    assert out.strip() == "", "repo not clean: " + out
    res = {"dir": d, "property": meta["property"]}
    # the evidence files must describe runs on the unchanged tree: keep them aside during the run
    saved = {}
    for c in checks:
        ev = os.path.join(ROOT, "evidence", c + ".json")
        if os.path.exists(ev):
            saved[ev] = open(ev, "rb").read()
    try:
        rc, out = sh(f"git -C {REPO} apply {d}/patch.diff")
        assert rc == 0, out
        rc, out = sh(f"cd {REPO} && /venv/bin/python -m pytest -q -p no:cacheprovider 2>&1 | tail -1")
        res["tests"] = out.strip()
        rc, out = sh(f"cd /tmp && PYTHONPATH={REPO} /venv/bin/python {d}/demo.py")
        res["demo_with_patch"] = rc
        for c in checks:
            rc, out = sh(f"cd {ROOT} && ./check {c}", timeout=1800)
            lines = [l for l in out.splitlines() if l.startswith(("VIOLATION", "KNOWN", c))]
            res["check_" + c] = {"exit": rc, "lines": lines[-4:]}
            rp = [l.split("replay=")[1].split()[0] for l in lines if l.startswith("VIOLATION")]
            if rp:
                try:
                    v = json.load(open(os.path.join(ROOT, rp[0])))
                    res["check_" + c]["replay"] = {k: v.get(k) for k in ("call", "args", "observed", "expected_by_spec", "how_found", "kind")}
                except Exception as e:
                    res["check_" + c]["replay"] = str(e)
    finally:
        sh(f"git -C {REPO} checkout -- . && git -C {REPO} clean -fdq schwifty")
        for ev, data in saved.items():
            open(ev, "wb").write(data)
    rc, out = sh(f"cd /tmp && PYTHONPATH={REPO} /venv/bin/python {d}/demo.py")
    res["demo_reverted"] = rc
    print(json.dumps(res, indent=1, ensure_ascii=False))
    confirmed = res.get("demo_with_patch") == 1 and res.get("demo_reverted") == 0 and \
        res.get("tests", "").startswith("2 failed, 362 passed")
    if confirmed:
        import shutil
        name = os.path.basename(d)
        dst = os.path.join(ROOT, "seeded", name)
        os.makedirs(dst, exist_ok=True)
        if os.path.abspath(dst) != os.path.abspath(d):
            shutil.copy(os.path.join(d, "patch.diff"), dst)
            shutil.copy(os.path.join(d, "demo.py"), dst)
        meta["breaks_property"] = meta["property"]
        meta["confirmed"] = {
            "how": "git -C /repo apply patch.diff; pytest (baseline 362 passed / 2 pydantic failures); "
                   "PYTHONPATH=/repo python demo.py -> exit 1; git checkout -- .; demo.py -> exit 0",
            "tests_with_patch": res["tests"], "demo_with_patch_exit": 1, "demo_reverted_exit": 0}
        meta.setdefault("checks", {})
        for k, v in res.items():
            if k.startswith("check_"):
                meta["checks"][k[6:]] = {"exit": v["exit"], "verdict": v["lines"][:-1], "replay": v.get("replay")}
        json.dump(meta, open(os.path.join(dst, "meta.json"), "w"), indent=1, ensure_ascii=False)
    else:
        print("NOT CONFIRMED", file=sys.stderr)


main()
