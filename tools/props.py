"""Per-property dynamic parts: correspondence streams (model vs implementation) and the
implementation-vs-Spec checks that double as the failing-input search."""
from __future__ import annotations

from realops import common, hx, real, unhx
from streams import DIGITS, UPPER, Streams, U, iban_check_digits

PROPS: dict = {}


def prop(pid, rule, note, extra=None):
    def deco(f):
        PROPS[pid] = {"dynamic": f, "rule": rule, "note": note, "extra": extra}
        return f
    return deco


# --------------------------------------------------------------------------- C10
@prop("C10",
      rule="cases = texts (valid IBANs/BICs of every country, single-defect mutants, malformed texts) "
           "x decorated variants (random insertions of each of the \\s code points, ASCII case flips); "
           "non-trivial = distinct (base, variant) pair whose variant differs from the base text",
      note="partial tie: the theorems are about the model's `clean`; that every constructor sees its "
           "argument only through `clean` is validated by the correspondence streams")
def c10(run):
    S = Streams(run.seed * 1000 + 10)
    _, spaces, _ = U()
    n = run.scale(6, 200)
    ops = []
    cases = []
    for cc in S.countries:
        for _ in range(n):
            base = S.iban(cc) if S.r.random() < 0.6 else S.mutate(S.iban(cc))
            cases.append(("iban", base))
    bics = [e["bic"] for e in S.banks if e["bic"]]
    for _ in range(n * 60):
        b = S.r.choice(bics)
        cases.append(("bic", b if S.r.random() < 0.6 else S.mutate(b)))
    for _ in range(n * 30):
        cases.append((S.r.choice(["iban", "bic"]), S.malformed()[:60]))
    # every whitespace code point at least once, at every kind of place
    for w in spaces:
        cases.append(("iban", w + "DE89" + w + w + "370400440532013000" + w))
        cases.append(("bic", "GENO" + w + "DEM1GLS" + w))
    for kind, base in cases:
        var = S.decorate(base)
        c = common.clean(base)
        if kind == "iban":
            a = real(["iban.new", hx(base), "F", "F"])
            b = real(["iban.new", hx(var), "F", "F"])
            ops += [["iban.new", hx(var), "F", "F"], ["clean", hx(var)]]
            if a.startswith("ok"):
                ops.append(["iban.parts", hx(c)])
                f = unhx(real(["iban.parts", hx(c)]).split(" ")[4])
                ok_fmt = real(["iban.new", hx(f), "F", "F"]) == a and \
                    f == " ".join(c[i:i + 4] for i in range(0, len(c), 4))
                if not ok_fmt:
                    run.violation("IBAN.formatted", [base], f, "groups of four; parses back to an equal IBAN",
                                  "format round trip")
        else:
            a = real(["bic.new", hx(base), "F", "F"])
            b = real(["bic.new", hx(var), "F", "F"])
            ops += [["bic.new", hx(var), "F", "F"], ["clean", hx(var)]]
            if a.startswith("ok"):
                ops.append(["bic.parts", hx(c)])
                f = unhx(real(["bic.parts", hx(c)]).split(" ")[5])
                if real(["bic.new", hx(f), "F", "F"]) != a:
                    run.violation("BIC.formatted", [base], f, "parses back to an equal BIC", "format round trip")
        run.count(2, key=(kind, base, var) if var != base else None, tag="variant pair")
        if a != b:
            run.violation(f"{kind.upper()}(text)", [base, var], b, a,
                          "whitespace/case variant of the same text gives a different outcome")
        cv = common.clean(var)
        if any(ch in spaces for ch in cv) or any("a" <= ch <= "z" for ch in cv) or common.clean(cv) != cv:
            run.violation("clean", [var], cv, "no whitespace, no ASCII lower case, idempotent",
                          "compact form check")
    run.correspond("variants", ops)


# --------------------------------------------------------------------------- helpers
def run_spec(run, name, texts, spec_op, real_accept, call):
    """Implementation vs Spec: `real_accept(text)` against the Lean Spec's verdict on clean(text)."""
    from corr import run_driver
    if not texts:
        return
    ops = [[spec_op, hx(common.clean(t))] for t in texts]
    out = run_driver(ops)
    for t, o in zip(texts, out):
        acc = real_accept(t)
        run.count(1, tag=f"{name}: spec {'accepts' if o == 'ok T' else 'rejects'}")
        if (o == "ok T") != acc[0]:
            run.violation(call, [t], acc[1], "accepted" if o == "ok T" else "rejected",
                          f"implementation vs Lean Spec ({spec_op}) on stream {name}",
                          op=acc[2], expected_line=("ok" if o == "ok T" else "err"))


def iban_accept(t):
    op = ["iban.new", hx(t), "F", "F"]
    r = real(op)
    return (r.startswith("ok "), r, op)


def nontrivial_iban(f, a):
    # rejected at the very first stage (prefix characters) counts as trivial
    return not (f[0] == "iban.new" and a == "err InvalidStructure" and len(unhx(f[1])) < 4)


# --------------------------------------------------------------------------- C01
@prop("C01",
      rule="texts = valid IBANs of every country (check digits computed by the harness), single-defect "
           "mutants over a wide alphabet (ASCII printable, all \\d and \\s code points, confusables, "
           "surrogates), malformed texts, whitespace/case decorated variants; sweeps: every country x BBAN "
           "position x alphabet sample, all 100 check-digit pairs per country, all 676 two-letter prefixes, "
           "every length 0..40; non-trivial = distinct text not rejected for a short/garbled prefix",
      note="the iff is proved for the model; model = implementation is validated by the correspondence "
           "streams, implementation = Spec is additionally compared directly on every text")
def c01(run):
    S = Streams(run.seed * 1000 + 1)
    r = S.r
    texts = []
    per = run.scale(8, 300)
    for cc in S.countries:
        for _ in range(per):
            i = S.iban(cc, with_bank=r.random() < 0.3)
            texts.append(i)
            texts.append(S.mutate(i))
            texts.append(S.decorate(S.mutate(i)) if r.random() < 0.5 else S.mutate(S.mutate(i)))
    for _ in range(run.scale(1500, 60000)):
        texts.append(S.malformed())
    # sweeps
    npos = run.scale(10, 10 ** 9)
    for cc in S.countries:
        i = S.iban(cc)
        alph = S.wide if run.tier == "thorough" else r.sample(S.wide, 10) + list("0Aa ")
        positions = list(range(4, len(i)))
        if len(positions) > npos:
            positions = r.sample(positions, npos)
        for p in positions:
            for ch in (alph if run.tier == "thorough" else r.sample(alph, 4)):
                texts.append(i[:p] + ch + i[p + 1:])
        b = i[4:]
        for dd in range(100):
            texts.append(cc + "%02d" % dd + b)
    base = S.iban("DE")
    for a in UPPER:
        for b in UPPER:
            texts.append(a + b + base[2:])
    for cc in (S.countries if run.tier == "thorough" else r.sample(S.countries, 6)):
        i = S.iban(cc)
        for n in range(0, 41):
            texts.append((i + "0" * 40)[:n])
    if run.tier == "thorough":
        run.exhaustive = True
    ops = []
    for t in texts:
        c = common.clean(t)
        ops.append(["iban.new", hx(t), "F", "F"])
        ops.append(["iban.is_valid", hx(c)])
    reals, _ = run.correspond("texts", ops, nontrivial_iban)
    # accepted => ASCII upper alnum, at most 34; is_valid agrees with the constructor
    for k in range(0, len(ops), 2):
        a, b = reals[k], reals[k + 1]
        t = unhx(ops[k][1])
        if a.startswith("ok "):
            c = unhx(a[3:])
            if len(c) > 34 or any(ch not in DIGITS + UPPER for ch in c):
                run.violation("IBAN(text)", [t], a, "compact form in [A-Z0-9]{<=34}", "alphabet/length check",
                              op=ops[k])
        if (a.startswith("ok ")) != (b == "ok T") or not b.startswith("ok "):
            run.violation("is_valid", [t], b, "ok " + ("T" if a.startswith("ok ") else "F"),
                          "is_valid vs constructor", op=ops[k + 1])
    run_spec(run, "texts", texts, "spec.iban_valid", iban_accept, "IBAN(text)")
