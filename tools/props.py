"""Per-property dynamic parts: correspondence streams (model vs implementation) and the
implementation-vs-Spec checks that double as the failing-input search."""
from __future__ import annotations

import os

from realops import common, hx, real, unhx
from streams import DIGITS, UPPER, Streams, U, iban_check_digits

PROPS: dict = {}


def prop(pid, rule, note, extra=None):
    def deco(f):
        PROPS[pid] = {"dynamic": f, "rule": rule, "note": note, "extra": extra}
        return f
    return deco


# --------------------------------------------------------------------------- C10
@prop("C10",
      rule="cases = texts (valid IBANs/BICs of every country, single-defect mutants, malformed texts) "
           "x decorated variants (random insertions of each of the \\s code points, ASCII case flips); "
           "non-trivial = distinct (base, variant) pair whose variant differs from the base text "
           "; plus synthetic BICs with digits in every alphanumeric position, the formatted form compared with the parts joined by single spaces; texts carrying a word of the source's string literals before / after a valid IBAN or BIC, with explicit case / blank variants",
      note="partial tie: the theorems are about the model's `clean`; that every constructor sees its "
           "argument only through `clean` is validated by the correspondence streams")
def c10(run):
    S = Streams(run.seed * 1000 + 10)
    _, spaces, _ = U()
    n = run.scale(6, 200)
    ops = []
    cases = []
    for cc in S.countries:
        for _ in range(n):
            base = S.iban(cc) if S.r.random() < 0.6 else S.mutate(S.iban(cc))
            cases.append(("iban", base))
    bics = [e["bic"] for e in S.banks if e["bic"]]
    for _ in range(n * 60):
        b = S.r.choice(bics)
        cases.append(("bic", b if S.r.random() < 0.6 else S.mutate(b)))
    for _ in range(n * 30):
        cases.append((S.r.choice(["iban", "bic"]), S.malformed()[:60]))
    # structurally valid BICs that no bank uses: digits and letters in every alphanumeric position
    ccs = sorted({b[4:6] for b in bics})
    for _ in range(n * 20):
        an = DIGITS + UPPER
        cases.append(("bic", "".join(S.r.choice(an) for _ in range(4)) + S.r.choice(ccs) +
                      "".join(S.r.choice(an) for _ in range(S.r.choice([2, 5])))))
    from streams import near_whitespace
    for ch in near_whitespace():
        cases.append(("iban", "DE89" + ch + "370400440532013000"))
    # long whitespace runs / long raw texts (lengths around powers of two and beyond)
    for n in (60, 100, 127, 128, 129, 200, 255, 256, 257, 511, 513, 1000, 1025, 4097, 70000):
        for base in ("DE89370400440532013000", S.iban(), "GENODEM1GLS"):
            kind = "bic" if len(base) == 11 else "iban"
            p = S.r.randrange(1, len(base))
            cases.append((kind, base[:p] + " " * n + base[p:]))
            cases.append((kind, "\t" * n + base))
            cases.append((kind, base + "\n" * n))
            cases.append((kind, base + " " * n + "99"))
            cases.append((kind, (" " * (n // len(base))).join(base)))
    # every whitespace code point at least once, at every kind of place
    for w in spaces:
        cases.append(("iban", w + "DE89" + w + w + "370400440532013000" + w))
        cases.append(("bic", "GENO" + w + "DEM1GLS" + w))
    # … and as the ONLY blemish of an otherwise compact upper-case text (after, before, inside): explicit pairs
    single = []
    for w in spaces:
        for kind, base in (("iban", "DE89370400440532013000"), ("bic", "GENODEM1GLS"), ("bic", "DEUTDEFF")):
            for var in (base + w, w + base, base[:4] + w + base[4:]):
                single.append((kind, base, var))
    # texts that carry a word of the source code (whatever the code singles out is written in it) before /
    # after a valid IBAN or BIC, each with explicit variants: lower, upper, swapped case, a blank after every
    # character
    toks = [t for t in S.source_tokens() if t.isalpha() and 2 <= len(t) <= 12]
    S.r.shuffle(toks)
    explicit = []
    vi, vb = S.iban("DE"), "GENODEM1GLS"
    for t in sorted(toks[: run.scale(60, 1000)]) + ["IBAN", "BIC", "BBAN"]:
        for kind, v in (("iban", vi), ("bic", vb)):
            for base in (t + " " + v, t + v, t + ": " + v, v + " " + t):
                for var in (base.lower(), base.upper(), base.swapcase(), " ".join(base), base.title()):
                    if var != base:
                        explicit.append((kind, base, var))
    for case in cases + single + explicit:
        kind, base = case[0], case[1]
        if len(case) == 3:
            var = case[2]
        else:
            var = S.decorate(base) if len(base) < 400 else base.replace(" ", "\u2003").swapcase()
        c = common.clean(base)
        if kind == "iban":
            a = real(["iban.new", hx(base), "F", "F"])
            b = real(["iban.new", hx(var), "F", "F"])
            ops += [["iban.new", hx(var), "F", "F"], ["clean", hx(var)]]
            if a.startswith("ok"):
                ops.append(["iban.parts", hx(c)])
                f = unhx(real(["iban.parts", hx(c)]).split(" ")[4])
                ok_fmt = real(["iban.new", hx(f), "F", "F"]) == a and \
                    f == " ".join(c[i:i + 4] for i in range(0, len(c), 4))
                if not ok_fmt:
                    run.violation("IBAN.formatted", [base], f, "groups of four; parses back to an equal IBAN",
                                  "format round trip")
        else:
            a = real(["bic.new", hx(base), "F", "F"])
            b = real(["bic.new", hx(var), "F", "F"])
            ops += [["bic.new", hx(var), "F", "F"], ["clean", hx(var)]]
            if a.startswith("ok"):
                ops.append(["bic.parts", hx(c)])
                f = unhx(real(["bic.parts", hx(c)]).split(" ")[5])
                want = " ".join([c[0:4], c[4:6], c[6:8]] + ([c[8:11]] if len(c) == 11 else []))
                if real(["bic.new", hx(f), "F", "F"]) != a or f != want:
                    run.violation("BIC.formatted", [base], f, want + " (its parts separated by single spaces); "
                                  "parses back to an equal BIC", "format round trip", op=["bic.parts", hx(c)])
        run.count(2, key=(kind, base, var) if var != base else None, tag="variant pair")
        if a != b:
            run.violation(f"{kind.upper()}(text)", [base, var], b, a,
                          "whitespace/case variant of the same text gives a different outcome")
        cv = common.clean(var)
        if any(ch in spaces for ch in cv) or any("a" <= ch <= "z" for ch in cv) or common.clean(cv) != cv:
            run.violation("clean", [var], cv, "no whitespace, no ASCII lower case, idempotent",
                          "compact form check")
    run.correspond("variants", ops)


# --------------------------------------------------------------------------- helpers
def run_spec(run, name, texts, spec_op, real_accept, call):
    """Implementation vs Spec: `real_accept(text)` against the Lean Spec's verdict on clean(text)."""
    from corr import run_driver
    if not texts:
        return
    ops = [[spec_op, hx(t)] for t in texts]
    out = run_driver(ops)
    for t, o in zip(texts, out):
        acc = real_accept(t)
        run.count(1, tag=f"{name}: spec {'accepts' if o == 'ok T' else 'rejects'}")
        if (o == "ok T") != acc[0]:
            run.violation(call, [t], acc[1], "accepted" if o == "ok T" else "rejected",
                          f"implementation vs Lean Spec ({spec_op}) on stream {name}",
                          op=acc[2], expected_line=("ok" if o == "ok T" else "err"))


def iban_accept(t):
    op = ["iban.new", hx(t), "F", "F"]
    r = real(op)
    return (r.startswith("ok "), r, op)


def nontrivial_iban(f, a):
    # rejected at the very first stage (prefix characters) counts as trivial
    return not (f[0] == "iban.new" and a == "err InvalidStructure" and len(unhx(f[1])) < 4)


# --------------------------------------------------------------------------- C01
@prop("C01",
      rule="texts = valid IBANs of every country (check digits computed by the harness), single-defect "
           "mutants over a wide alphabet (ASCII printable, all \\d and \\s code points, confusables, "
           "surrogates), malformed texts, whitespace/case decorated variants; sweeps: every country x BBAN "
           "position x alphabet sample, all 100 check-digit pairs per country, all 676 two-letter prefixes, "
           "every length 0..40; non-trivial = distinct text not rejected for a short/garbled prefix "
           "; plus the 20 code points a case mapping relates to ASCII at every position of letter-rich IBANs",
      note="the iff is proved for the model; model = implementation is validated by the correspondence "
           "streams, implementation = Spec is additionally compared directly on every text")
def c01(run):
    S = Streams(run.seed * 1000 + 1)
    r = S.r
    texts = []
    per = run.scale(8, 300)
    for cc in S.countries:
        for _ in range(per):
            i = S.iban(cc, with_bank=r.random() < 0.3)
            texts.append(i)
            texts.append(S.mutate(i))
            texts.append(S.decorate(S.mutate(i)) if r.random() < 0.5 else S.mutate(S.mutate(i)))
    for _ in range(run.scale(1500, 60000)):
        texts.append(S.malformed())
    # sweeps
    npos = run.scale(10, 10 ** 9)
    for cc in S.countries:
        i = S.iban(cc)
        alph = S.wide if run.tier == "thorough" else r.sample(S.wide, 10) + list("0Aa ")
        positions = list(range(4, len(i)))
        if len(positions) > npos:
            positions = r.sample(positions, npos)
        for p in positions:
            for ch in (alph if run.tier == "thorough" else r.sample(alph, 4)):
                texts.append(i[:p] + ch + i[p + 1:])
        b = i[4:]
        for dd in range(100):
            texts.append(cc + "%02d" % dd + b)
    # the code points a case mapping relates to ASCII, at every position of a few letter-rich IBANs
    from streams import CASE_RELATED
    for cc in ("GB", "MT", "NL", "DE", "LC"):
        if cc in S.table:
            i = S.iban(cc)
            for p in range(len(i)):
                for ch in CASE_RELATED():
                    texts.append(i[:p] + ch + i[p + 1:])
    base = S.iban("DE")
    for a in UPPER:
        for b in UPPER:
            texts.append(a + b + base[2:])
    # invisible characters that are not whitespace must not be cleaned away
    from streams import near_whitespace
    for ch in near_whitespace():
        p = r.randrange(len(base) + 1)
        texts.append(base[:p] + ch + base[p:])
    # every printable ASCII character: as a substitution at every position of a few letter-rich IBANs, and as
    # an INSERTION (a character that is cleaned away goes unnoticed as a substitution: the text gets short)
    ascii_printable = [chr(c) for c in range(32, 127)]
    for cc in ("GB", "MT", "DE"):
        if cc in S.table:
            i = S.iban(cc)
            for p in range(len(i)):
                for ch in ascii_printable:
                    texts.append(i[:p] + ch + i[p + 1:])
            for ch in ascii_printable + ["\u00ad", "\u200b", "\u2013", "\u2212", "\ufeff", "\u00b7"]:
                if ch.isalnum():
                    continue
                for p in sorted({0, 2, 4, len(i) // 2, len(i)}):
                    texts.append(i[:p] + ch + i[p:])
    for cc in (S.countries if run.tier == "thorough" else r.sample(S.countries, 6)):
        i = S.iban(cc)
        for n in range(0, 41):
            texts.append((i + "0" * 40)[:n])
    if run.tier == "thorough":
        run.exhaustive = True
    ops = []
    for t in texts:
        c = common.clean(t)
        ops.append(["iban.new", hx(t), "F", "F"])
        ops.append(["iban.is_valid", hx(c)])
    reals, _ = run.correspond("texts", ops, nontrivial_iban)
    # accepted => ASCII upper alnum, at most 34; is_valid agrees with the constructor
    for k in range(0, len(ops), 2):
        a, b = reals[k], reals[k + 1]
        t = unhx(ops[k][1])
        if a.startswith("ok "):
            c = unhx(a[3:])
            if len(c) > 34 or any(ch not in DIGITS + UPPER for ch in c):
                run.violation("IBAN(text)", [t], a, "compact form in [A-Z0-9]{<=34}", "alphabet/length check",
                              op=ops[k])
        if (a.startswith("ok ")) != (b == "ok T") or not b.startswith("ok "):
            run.violation("is_valid", [t], b, "ok " + ("T" if a.startswith("ok ") else "F"),
                          "is_valid vs constructor", op=ops[k + 1])
    run_spec(run, "texts", texts, "spec.iban_valid", iban_accept, "IBAN(text)")


def check_obj_seq(run, f, a):
    """Calls on one object must give what the same calls give on fresh objects."""
    want = []
    for step in f[2]:
        if step == "v":
            want.append(real(["iban.validate", f[1], "F"]))
        elif step == "V":
            want.append(real(["iban.validate", f[1], "T"]))
        else:
            want.append(real(["iban.is_valid", f[1]]))
    want = "ok " + ";".join(want)
    if a != want:
        run.violation("sequence of calls on one IBAN object: " + f[2], [unhx(f[1])], a, want,
                      "same calls on fresh objects", kind="history", op=f, expected_line=want)


def spec_lines(ops):
    from corr import run_driver
    return run_driver(ops) if ops else []


# --------------------------------------------------------------------------- C02
@prop("C02",
      rule="per country: structure-conforming BBANs (random, and with registry bank codes) -> from_bban, "
           "plus all 100 check-digit pairs around each; non-trivial = distinct (country, BBAN, pair) "
           "; plus BBANs carrying every alphanumeric word of the source's string literals at admissible offsets, and one BBAN text assembled under every country of its length; accepted calls repeated after calls rejected half-way (inadmissible character at the start / middle / end)",
      note="arithmetic proved for the model; BBAN quantified in the library's compact upper-case form")
def c02(run):
    S = Streams(run.seed * 1000 + 2)
    per = run.scale(2, 40)
    ops, meta = [], []
    for cc in S.countries:
        for j in range(per):
            b = (S.bban_with_bank(cc) if j % 2 else S.bban(cc)).upper()
            dd = iban_check_digits(cc, b)
            ops.append(["iban.from_bban", hx(cc), hx(b)])
            meta.append(("from", cc, b, dd))
            for k in range(100):
                ops.append(["iban.new", hx(cc + "%02d" % k + b), "F", "F"])
                meta.append(("pair", cc, b, "%02d" % k))
    # BBANs that carry a word of the source code (whatever text the code singles out is written in it)
    for cc, b in S.bbans_with_tokens(per_token=1, max_tokens=run.scale(150, 2000)):
        dd = iban_check_digits(cc, b)
        ops.append(["iban.from_bban", hx(cc), hx(b)])
        meta.append(("from", cc, b, dd))
        for k in sorted({0, 1, 2, 97, 98, 99, int(dd), (int(dd) + 1) % 100}):
            ops.append(["iban.new", hx(cc + "%02d" % k + b), "F", "F"])
            meta.append(("pair", cc, b, "%02d" % k))
    reals, _ = run.correspond("from_bban+pairs", ops)
    sp = spec_lines([["spec.check_digits", hx(m[1]), hx(m[2])] for m in meta if m[0] == "from"])
    si = 0
    accepted = {}
    for f, m, a in zip(ops, meta, reals):
        if m[0] == "from":
            exp = unhx(sp[si][3:])
            si += 1
            want = "ok " + hx(m[1] + exp + m[2])
            if a != want or exp != m[3] or not ("02" <= exp <= "98"):
                run.violation("IBAN.from_bban", [m[1], m[2]], a, want, "from_bban vs Spec check digits", op=f,
                              expected_line=want)
            accepted[(m[1], m[2])] = [exp, []]
        else:
            if a.startswith("ok "):
                accepted[(m[1], m[2])][1].append(m[3])
    for (cc, b), (exp, got) in accepted.items():
        if got != [exp]:
            run.violation("IBAN(cc+dd+bban) for dd in 00..99", [cc, b], "accepted pairs " + ",".join(got),
                          "exactly " + exp, "uniqueness sweep over all 100 pairs",
                          op=["iban.new", hx(cc + (got[0] if got and got[0] != exp else exp) + b), "F", "F"])
    # the same BBAN text assembled under every country of that BBAN length, in varying order: the check
    # digits depend on (country, BBAN) and on nothing that was assembled before
    r = S.r
    by_len = {}
    for cc in S.countries:
        by_len.setdefault(S.table[cc]["bban_length"], []).append(cc)
    ops2 = []
    for n, ccs in sorted(by_len.items()):
        if len(ccs) < 2:
            continue
        for _ in range(run.scale(2, 30)):
            b = "".join(r.choice(DIGITS) for _ in range(n)) if r.random() < 0.7 else S.bban(r.choice(ccs)).upper()
            order = ccs[:]
            r.shuffle(order)
            for cc in order + order[::-1]:
                ops2.append(["iban.from_bban", hx(cc), hx(b)])
    reals2, model2 = run.correspond("one BBAN text under several countries", ops2)
    for k, (f, a, m) in enumerate(zip(ops2, reals2, model2)):
        if a != m:
            run.violation("IBAN.from_bban after other countries were given the same BBAN text",
                          [unhx(f[1]), unhx(f[2])], a, m, "model (proved against the Spec) on the same call",
                          kind="history", history=ops2[max(0, k - 80):k + 1])
            break
    # rejected calls between accepted ones: a call that fails half-way (an inadmissible character after some
    # admissible ones, at the start, at the end) must leave nothing behind that the next call sees
    ops3 = []
    bad_chars = ["-", ".", "/", "_", "é", "٣", "ß", "{", "\x00"]
    for cc in r.sample(S.countries, run.scale(12, len(S.countries))):
        good = S.bban(cc).upper()
        for ch in r.sample(bad_chars, run.scale(3, len(bad_chars))):
            for p in sorted({0, len(good) // 2, len(good) - 1, r.randrange(len(good))}):
                bad = good[:p] + ch + good[p + 1:]
                ops3.append(["iban.from_bban", hx(cc), hx(good)])
                ops3.append(["iban.from_bban", hx(cc), hx(bad)])
                ops3.append(["iban.from_bban", hx(cc), hx(good)])
                ops3.append(["iban.new", hx(cc + iban_check_digits(cc, good) + good), "F", "F"])
                ops3.append(["iban.generate", hx(cc), hx(bad[:3]), hx(bad[3:6]), hx("")])
                ops3.append(["iban.new", hx(cc + iban_check_digits(cc, good) + good), "F", "F"])
    reals3, model3 = run.correspond("accepted calls after rejected ones", ops3)
    for k, (f, a, m) in enumerate(zip(ops3, reals3, model3)):
        if a != m and k % 6 in (2, 3, 5):
            run.violation("a call repeated after a rejected call", [readable_op(o) for o in ops3[k - k % 6:k + 1]],
                          a, m, "model (proved against the Spec) on the same call; the first call of the "
                          "group is the same call before the rejected one",
                          kind="history", history=ops3[k - k % 6:k + 1])
            break
    sample = []
    for cc in S.countries:
        b = S.bban(cc).upper()
        sample.append(cc + iban_check_digits(cc, b) + b)
    via_bban_check(run, S, sample)


# --------------------------------------------------------------------------- C04
def bic_accept(strict):
    def f(t):
        op = ["bic.new", hx(t), "F", strict]
        r = real(op)
        return (r.startswith("ok "), r, op)
    return f


@prop("C04",
      rule="texts = registry BICs, single-defect mutants over the wide alphabet, malformed texts, every "
           "length 0..14, every position of 8/11-character BICs x alphabet, all 676 country codes, both "
           "compliance modes; non-trivial = distinct (text, mode) with length 8 or 11 after cleaning",
      note="pattern strings are data (regenerated); length/structure/country order is logic tied by "
           "correspondence; pycountry's code list is read from the installed package")
def c04(run):
    S = Streams(run.seed * 1000 + 4)
    r = S.r
    bics = sorted({e["bic"] for e in S.banks if e["bic"]})
    texts = []
    for b in r.sample(bics, run.scale(300, len(bics))):
        texts += [b, S.mutate(b), S.decorate(S.mutate(b))]
    base8, base11 = "GENODEM1", "GENODEM1GLS"
    from streams import CASE_RELATED
    ascii_printable = [chr(c) for c in range(32, 127)]
    alph = S.wide if run.tier == "thorough" else \
        list(dict.fromkeys(r.sample(S.wide, 40) + ascii_printable + CASE_RELATED()))   # ASCII always completely
    for base in (base8, base11, "1234DEWWXXX"):
        for p in range(len(base)):
            for ch in alph:
                texts.append(base[:p] + ch + base[p + 1:])
    # insertions (a character that is cleaned away would go unnoticed as a substitution: the text gets short)
    for base in (base8, base11):
        for ch in ascii_printable + ["\u00ad", "\u200b", "\u2013", "\u2212", "\ufeff", "\u00b7"]:
            if ch.isalnum():
                continue
            for p in sorted({0, 4, 6, len(base) // 2 + 1, len(base)}):
                texts.append(base[:p] + ch + base[p:])
    from streams import near_whitespace
    for ch in near_whitespace():
        p = r.randrange(12)
        texts.append(base11[:p] + ch + base11[p:])
    for n in range(0, 15):
        texts.append(("GENODEM1GLSXXXX")[:n])
        texts.append("".join(r.choice(DIGITS + UPPER) for _ in range(n)))
    for a in UPPER:
        for b in UPPER:
            texts.append("GENO" + a + b + "M1GLS")
            texts.append("GENO" + a + b + "M1")
    for _ in range(run.scale(500, 20000)):
        texts.append(S.malformed()[:20])
    if run.tier == "thorough":
        run.exhaustive = True
    ops = []
    for t in texts:
        c = common.clean(t)
        for strict in "FT":
            ops.append(["bic.new", hx(t), "F", strict])
        ops.append(["bic.is_valid", hx(c)])
    reals, _ = run.correspond("texts", ops, lambda f, a: len(common.clean(unhx(f[1]))) in (8, 11))
    for strict in "FT":
        from corr import run_driver
        out = run_driver([["spec.bic_valid", strict, hx(t)] for t in texts])
        acc = bic_accept(strict)
        for t, o in zip(texts, out):
            a = acc(t)
            run.count(1)
            if (o == "ok T") != a[0]:
                run.violation("BIC(text, enforce_swift_compliance=%s)" % (strict == "T"), [t], a[1],
                              "accepted" if o == "ok T" else "rejected", "implementation vs Lean Spec iso9362",
                              op=a[2], expected_line="ok" if o == "ok T" else "err")
    for k in range(0, len(ops), 3):
        if (reals[k].startswith("ok ")) != (reals[k + 2] == "ok T") or not reals[k + 2].startswith("ok "):
            run.violation("BIC.is_valid", [unhx(ops[k][1])], reals[k + 2], reals[k], "is_valid vs constructor",
                          op=ops[k + 2])


# --------------------------------------------------------------------------- C05
@prop("C05",
      rule="texts = malformed stream (Unicode digits/letters, surrogates, 5000-digit strings, empty), "
           "single- and double-defect mutants of valid IBANs/BICs, with and without national validation / "
           "strict mode; the class of every outcome (including non-library exceptions) is compared with the "
           "model and every raised error class with the Spec's defect predicate; non-trivial = distinct text "
           "that passes the first stage or is in the malformed stream "
           "; plus valid IBANs inside long whitespace (raw lengths 37..330), and one BBAN text under every pair of countries that admit it, national validation on, judged by the country's own rule",
      note="totality/soundness proved for the model for IBAN with and without national validation (every "
           "text, every registry; live_iban_bban_no_crash) and for BIC")
def c05(run):
    S = Streams(run.seed * 1000 + 5)
    r = S.r
    texts = []
    for cc in S.countries:
        for _ in range(run.scale(5, 150)):
            i = S.iban(cc, with_bank=r.random() < 0.5)
            texts += [i, S.mutate(i), S.mutate(S.mutate(i))]
    for _ in range(run.scale(2500, 100000)):
        texts.append(S.malformed())
    # valid IBANs inside a lot of whitespace (raw lengths around and beyond 34, 42, 64, 128): the raw
    # length of the argument is no defect
    _, spaces_, _ = U()
    for _ in range(run.scale(60, 2000)):
        i = S.iban()
        k = r.choice([3, 9, 20, 31, 43, 65, 100, 129, 300])
        kind = r.randrange(4)
        if kind == 0:
            t = i.ljust(len(i) + k)
        elif kind == 1:
            t = " " * k + i
        elif kind == 2:
            sep = r.choice([" ", "  ", "\t", " \n", "\u00a0", "\u2003 "])
            t = sep.join(i[j:j + 4] for j in range(0, len(i), 4)) + "\r\n" * (k // 8)
        else:
            t = "".join(ch + r.choice(spaces_) * r.randint(0, 1 + k // len(i)) for ch in i)
        texts.append(t)
    digits, spaces, to_ascii = U()
    for d in (digits if run.tier == "thorough" else r.sample(digits, 60)):
        texts.append("DE" + d + "9370400440532013000")
        texts.append("DE89" + d + "70400440532013000")
    ops = []
    natl = sorted({k.split(":")[0] for k in __import__("realops").checksum.algorithms})
    by_cc = {}
    for t in texts:
        by_cc.setdefault(common.clean(t)[:2], []).append(t)
    from realops import registry_lines
    for cc, ts in sorted(by_cc.items()):
        if cc in natl:
            ops += registry_lines(S.banks_of(cc))
        for t in ts:
            c = common.clean(t)
            ops.append(["iban.new", hx(t), "F", "F"])
            ops.append(["iban.validate", hx(c), "F"])
            ops.append(["iban.is_valid", hx(c)])
            if cc in natl:
                ops.append(["iban.new", hx(t), "F", "T"])
                if r.random() < 0.3:
                    ops.append(["iban.obj_seq", hx(c), r.choice(["ivV", "vVi", "iVvV", "Vvi", "iiV"])])
        if cc in natl:
            ops.append(["reg.reset"])
    reals, _ = run.correspond("iban", ops, nontrivial_iban)
    chk = []
    for f, a in zip(ops, reals):
        if f[0].startswith("reg."):
            continue
        if f[0] == "iban.obj_seq":
            check_obj_seq(run, f, a)
            continue
        if a.startswith("crash"):
            run.violation(f[0], [unhx(f[1])] + f[2:], a, "a library exception or a value",
                          "non-library exception escaped", op=f, expected_line="err")
        if f[0] == "iban.is_valid" and not a.startswith("ok "):
            run.violation("is_valid", [unhx(f[1])], a, "ok T/F", "is_valid raised", op=f)
        if f[0] == "iban.new" and f[3] == "F" and a.startswith("err "):
            chk.append((f, a))
    out = spec_lines([["spec.iban_defect", a[4:], f[1]] for f, a in chk])
    for (f, a), o in zip(chk, out):
        run.count(1, tag="defect check " + a[4:])
        if o != "ok T":
            run.violation("IBAN(text)", [unhx(f[1])], a, "an error class whose defect is present",
                          "error class vs Spec defect predicate", op=f)
    national_error_soundness(run, S)
    # the same BBAN text under two countries in turn, national validation on: a value or a library error,
    # and the verdict of the country's own rule
    xops, xmeta = cross_country_ops(
        S, lambda cc, b: [["iban.new", hx(cc + iban_check_digits(cc, b) + b), "F", "T"]])
    xreals, _ = run.correspond("one BBAN text under two countries", xops)
    for f, m, a in zip(xops, xmeta, xreals):
        if m is None:
            continue
        if a.startswith("crash"):
            run.violation(f[0], [unhx(f[1])] + f[2:], a, "a library exception or a value",
                          "non-library exception escaped", op=f, expected_line="err")
            continue
        want = national_expectation(S, m[2], m[0], m[1])
        if want is None:
            continue
        if want and not a.startswith("ok "):
            run.violation("IBAN(text, validate_bban=True)", [unhx(f[1])], a, "accepted",
                          "the error names a defect that is not present (the country's own national rule "
                          "accepts this BBAN)", op=f, expected_line="ok")
        if not want and a not in ("err InvalidBBANChecksum", "err InvalidAccountCode"):
            run.violation("IBAN(text, validate_bban=True)", [unhx(f[1])], a, "InvalidBBANChecksum",
                          "the country's own national rule rejects this BBAN", op=f,
                          expected_line="err InvalidBBANChecksum")
    # BIC
    bics = sorted({e["bic"] for e in S.banks if e["bic"]})
    btexts = []
    for b in r.sample(bics, run.scale(300, 5000)):
        btexts += [b, S.mutate(b), S.mutate(S.mutate(b))]
    for _ in range(run.scale(800, 30000)):
        btexts.append(S.malformed()[:24])
    bops = []
    for t in btexts:
        c = common.clean(t)
        for strict in "FT":
            bops.append(["bic.new", hx(t), "F", strict])
            bops.append(["bic.validate", hx(c), strict])
        bops.append(["bic.is_valid", hx(c)])
    breals, _ = run.correspond("bic", bops)
    chk = []
    for f, a in zip(bops, breals):
        if a.startswith("crash"):
            run.violation(f[0], [unhx(f[1])] + f[2:], a, "a library exception or a value",
                          "non-library exception escaped", op=f, expected_line="err")
        if f[0] == "bic.is_valid" and not a.startswith("ok "):
            run.violation("BIC.is_valid", [unhx(f[1])], a, "ok T/F", "is_valid raised", op=f)
        if f[0] == "bic.new" and a.startswith("err "):
            chk.append((f, a))
    out = spec_lines([["spec.bic_defect", a[4:], f[3], f[1]] for f, a in chk])
    for (f, a), o in zip(chk, out):
        run.count(1, tag="bic defect check " + a[4:])
        if o != "ok T":
            run.violation("BIC(text)", [unhx(f[1])], a, "an error class whose defect is present",
                          "error class vs Spec defect predicate", op=f)



def cross_country_ops(S, make, per_pair=1, order=(0, 1, 0, 1)):
    """Operation sequences on one BBAN text under two countries (A, B, A, B): `make(cc, bban)` gives
    the operations for one country.  Returns (ops, meta) with meta = (cc, bban, entries) per operation;
    the registry lines needed by the model are included (meta None)."""
    from realops import registry_lines
    trip = S.shared_bbans(per_pair)
    pairs = [(cc, b) for A, B, b in trip for cc in (A, B)]
    entries = S.entries_for(pairs)
    ops = registry_lines(entries)
    meta = [None] * len(ops)
    for A, B, b in trip:
        for k in order:
            cc = (A, B)[k]
            for f in make(cc, b):
                ops.append(f)
                meta.append((cc, b, entries))
    return ops, meta


def expect_bank_line(S, entries, cc, b):
    """What `bban.bank` / `bban.bic` must show for a BBAN, read off the registry entries."""
    key = S.lookup_key(cc, b)
    listed = [e for e in entries if e["country_code"] == cc and e["bank_code"] == key] if key else []
    if not listed:
        return "ok None | ok None"
    e = listed[0]
    _, chosen = expected_lookup(entries, cc, key)
    return "ok " + " ".join([hx(e["bank_code"]), "None" if e["bic"] is None else hx(e["bic"]),
                             hx(e["name"]), hx(e["short_name"])]) + " | ok " + \
        ("None" if chosen is None else hx(chosen))


def national_expectation(S, entries, cc, b):
    """True / False / None (no reference): does the published national rule accept this BBAN?"""
    import natref
    from realops import checksum
    if cc == "DE":
        key = S.lookup_key(cc, b)
        listed = [e for e in entries if e["country_code"] == cc and e["bank_code"] == key]
        algo = listed[0].get("checksum_algo") if listed else None
        if algo is None or ("DE:" + str(algo)) not in checksum.algorithms:
            return True
        w = natref.de(algo, b[8:18])
        return w if isinstance(w, bool) else None
    if cc in natref.NATIONAL:
        return natref.NATIONAL[cc](b)
    return True


# --------------------------------------------------------------------------- C11
@prop("C11",
      rule="valid IBANs of all countries (several per country, with registry banks) and registry BICs: all "
           "accessors compared with the model and with the published positions read from the live table; "
           "from_bban(country, bban) round trip; non-trivial = distinct accepted object "
           "; plus one BBAN text under every pair of countries that admit it (A, B, A, B), and texts with alias check digits (an accepted one must re-assemble to itself)"
           "; BBANs beginning with their own country code and a digit pair, for every country whose structure admits it",
      note="slicing identities proved for the model; IBAN-level accessors are checked against the BBAN-level "
           "ones on the implementation (they are proxies in the code)")
def c11(run):
    S = Streams(run.seed * 1000 + 11)
    ops = []
    ibans = []
    for cc in S.countries:
        for j in range(run.scale(4, 150)):
            ibans.append(S.iban(cc, with_bank=bool(j % 2)).upper())
    # BBANs that begin with their own country code followed by two digits (they look like the head of an IBAN):
    # every country whose structure admits that, several digit pairs each - swept completely
    for cc in S.countries:
        cl = S.classes(cc)
        if len(cl) >= 4 and all(k in "ac" for k in cl[:2]) and all(k in "nc" for k in cl[2:4]):
            for dd in ("00", "02", "32", "97", "99"):
                b = cc + dd + S.bban(cc).upper()[4:]
                ibans.append(cc + iban_check_digits(cc, b) + b)
    for i in ibans:
        ops.append(["iban.parts", hx(i)])
        ops.append(["iban.from_bban", hx(i[:2]), hx(i[4:])])
    # texts whose check digits are congruent to the right ones modulo 97 (00/01/99): if one is accepted,
    # re-assembling it from its country code and BBAN does not give it back
    alias_ops = []
    for cc in S.r.sample(S.countries, run.scale(40, len(S.countries))):
        for dd, alias in (("02", "99"), ("98", "01"), ("97", "00")):
            i = S.iban_with_dd(cc, dd)
            if i is not None:
                alias_ops.append(["iban.new", hx(cc + alias + i[4:]), "F", "F"])
    alias_reals, _ = run.correspond("alias check digits", alias_ops)
    for f, a in zip(alias_ops, alias_reals):
        if a.startswith("ok "):
            t = unhx(f[1])
            back = real(["iban.from_bban", hx(t[:2]), hx(t[4:])])
            run.violation("IBAN.from_bban(iban.country_code, iban.bban)", [t], back, "ok " + f[1],
                          "an accepted IBAN is not what its country code and BBAN re-assemble to", op=f,
                          expected_line="err")
    reals, _ = run.correspond("iban accessors", ops)
    from realops import COMPONENT_ORDER

    def check_parts(f, real_line):
        i = unhx(f[1])
        a = real_line.split(" ")
        if a[1] == "ACCESSOR-MISMATCH":
            run.violation("iban.<component>", [i], real_line, "IBAN accessor == BBAN accessor", "proxy check",
                          op=f)
            return
        cc, dd, bban = unhx(a[1]), unhx(a[2]), unhx(a[3])
        if cc + dd + bban != i:
            run.violation("country_code+checksum_digits+bban", [i], cc + dd + bban, i, "concatenation", op=f)
        pos = S.table[cc].get("positions", {})
        comps = a[5:]
        used = []
        for n, name in enumerate(COMPONENT_ORDER):
            got = comps[2 * n] + " " + comps[2 * n + 1]
            if name in pos:
                s_, e_ = pos[name]
                want = "ok " + hx(bban[s_:e_])
                used.append((s_, e_, name))
            else:
                want = "ok -"
            if got != want:
                run.violation("iban.bban." + name, [i], got, want, "accessor vs published position", op=f)
        used.sort()
        for (s1, e1, n1), (s2, e2, n2) in zip(used, used[1:]):
            if e1 > s2:
                run.violation("positions", [cc, n1, n2], f"{s1}:{e1} / {s2}:{e2}", "disjoint fields",
                              "overlap check", kind="config")

    for k in range(0, len(ops), 2):
        i = unhx(ops[k][1])
        check_parts(ops[k], reals[k])
        if reals[k + 1] != "ok " + hx(i):
            run.violation("IBAN.from_bban(country, bban)", [i], reals[k + 1], "ok " + hx(i), "reassembly",
                          op=ops[k + 1], expected_line="ok " + hx(i))
    # the same BBAN text under two countries in turn: every accessor still follows the country's own
    # published positions
    xops, xmeta = cross_country_ops(
        S, lambda cc, b: [["iban.parts", hx(cc + iban_check_digits(cc, b) + b)],
                          ["iban.from_bban", hx(cc), hx(b)]])
    xreals, _ = run.correspond("one BBAN text under two countries", xops)
    for f, m, a in zip(xops, xmeta, xreals):
        if m is None:
            continue
        if f[0] == "iban.parts":
            check_parts(f, a)
        else:
            want = "ok " + hx(m[0] + iban_check_digits(m[0], m[1]) + m[1])
            if a != want:
                run.violation("IBAN.from_bban(country, bban)", [m[0], m[1]], a, want,
                              "reassembly after the same BBAN text was used under another country", op=f,
                              expected_line=want)
    via_bban_check(run, S, ibans[:: max(1, len(ibans) // run.scale(400, 4000))])
    bics = sorted({e["bic"] for e in S.banks if e["bic"]})
    bops = [["bic.parts", hx(b)] for b in S.r.sample(bics, run.scale(1500, len(bics)))]
    breals, _ = run.correspond("bic parts", bops)
    for f, a in zip(bops, breals):
        b = unhx(f[1])
        p = [unhx(x) for x in a.split(" ")[1:5]]
        if "".join(p) != b or (p[3] == "") != (len(b) == 8):
            run.violation("bic parts", [b], a, "parts concatenate to the compact form", "concatenation", op=f)



def national_error_soundness(run, S):
    """With national validation on, an error names a defect that is present: IBANs with correct ISO
    check digits are rejected with InvalidBBANChecksum / InvalidAccountCode exactly when the
    independent reference of the national rule (every German method that occurs in the registry,
    every leading digit; the 22 national rules) rejects the BBAN."""
    import natref
    from realops import checksum, registry_lines
    r = S.r
    methods = sorted(k[3:] for k in checksum.algorithms if k.startswith("DE:"))
    de_banks = S.banks_of("DE")
    first = {}
    for e in de_banks:
        first.setdefault(e["bank_code"], e)
    by_algo = {}
    for e in first.values():
        by_algo.setdefault(e.get("checksum_algo"), []).append(e)
    ops, meta = registry_lines(de_banks), [None] * (len(de_banks) + 1)
    for algo, es in sorted(by_algo.items(), key=lambda kv: str(kv[0])):
        if algo not in methods:
            continue
        for lead in DIGITS:
            for j in range(run.scale(2, 30)):
                e = r.choice(es)
                acct = lead + "".join(r.choice(DIGITS) for _ in range(9))
                if j % 2 == 0:      # accept side: an account the reference accepts, found by search
                    for _ in range(300):
                        if natref.de(algo, acct) is True:
                            break
                        acct = lead + "".join(r.choice(DIGITS) for _ in range(9))
                elif r.random() < 0.5:
                    k = r.randint(1, 6)
                    acct = ("0" * k + acct)[:10]
                b = e["bank_code"] + acct
                ops.append(["iban.new", hx("DE" + iban_check_digits("DE", b) + b), "F", "T"])
                meta.append(("DE method " + algo, natref.de(algo, acct)))
    for cc in sorted(natref.NATIONAL):
        ops += registry_lines(S.banks_of(cc))
        meta += [None] * (len(ops) - len(meta))
        for j in range(run.scale(12, 300)):
            b = S.bban(cc).upper()
            if j % 2 == 0:
                b = natref.make_valid(cc, b, r) or b
            ops.append(["iban.new", hx(cc + iban_check_digits(cc, b) + b), "F", "T"])
            meta.append((cc, natref.NATIONAL[cc](b)))
    reals, _ = run.correspond("national errors", ops)
    for f, m, a in zip(ops, meta, reals):
        if m is None or m[1] is None:
            continue
        rule, want = m
        got = a.startswith("ok ")
        okv = (got in want) if isinstance(want, set) else (got == want)
        if not okv or not (got or a in ("err InvalidBBANChecksum", "err InvalidAccountCode")):
            run.violation("IBAN(text, validate_bban=True)", [unhx(f[1]), rule], a,
                          "accepted" if want is True else "InvalidBBANChecksum" if want is False else "either",
                          "error raised only when the national defect is present (independent reference)", op=f)


def via_bban_check(run, S, ibans):
    """An IBAN assembled by from_bban - from a str, from a BBAN object of the same country, from a BBAN
    object that was made for another country - is indistinguishable from IBAN(text): same compact form,
    same accessors, and its .bban belongs to the IBAN's country."""
    r = S.r
    for i in ibans:
        cc, b = i[:2], i[4:]
        want = real(["iban.parts", hx(i)])
        others = [c for c in S.countries if c != cc]
        same_len = [c for c in others if S.table[c]["bban_length"] == len(b)]
        hows = ["str", "same", "other:" + r.choice(others)] + (["other:" + r.choice(same_len)] if same_len else [])
        for how in hows:
            f = ["iban.via_bban", hx(cc), hx(b), how]
            got = real(f)
            run.count(1, key="\t".join(f), tag="iban.via_bban " + how.split(":")[0])
            if got != want:
                run.violation("IBAN.from_bban(country, bban) with bban as " + how, [cc, b], got, want,
                              "same text through IBAN(text)", kind="op", op=f, expected_line=want)


def boundary_sweep(S, r, cc, natref, tries=500):
    """Structure-conforming BBANs of `cc` whose CORRECT national check value is an extreme of its
    range (found by search with the reference: 00..03 / 96..99, 0/1/8/9, A/B/Y/Z), each with every
    neighbouring and congruent value of the check field substituted (so a check that accepts a value
    merely congruent to the right one - 01 for 98, 00 for 97 - meets its counterexample)."""
    if cc not in natref.CHECK_FIELD:
        return []
    s, e = natref.CHECK_FIELD[cc]
    ref = natref.NATIONAL[cc]
    if cc in ("IT", "SM"):
        targets, values = list("ABYZ"), list(UPPER)
    elif e - s == 1:
        targets, values = list("0189"), list(DIGITS)
    else:
        targets = ["00", "01", "02", "03", "95", "96", "97", "98", "99"]
        values = targets + ["04", "10", "11", "12", "86", "87", "88", "89", "94"]
    found = {}
    for _ in range(tries):
        b = S.bban(cc).upper()
        for t in targets:
            if t not in found and ref(b[:s] + t + b[e:]):
                found[t] = b
        if len(found) == len(targets):
            break
    out = []
    for t, b in sorted(found.items()):
        for v in values:
            out.append(b[:s] + v + b[e:])
    return out

# --------------------------------------------------------------------------- C06
@prop("C06",
      rule="per country with a national algorithm (22): structure-conforming BBANs whose check digits are "
           "computed by the harness' own reference (accept side), the same with the check field changed, and "
           "random ones, through IBAN(validate_bban=True), validate(True) and bban.validate_national_checksum(); "
           "every other country: valid IBANs with national validation on; non-trivial = distinct BBAN with "
           "valid IBAN check digits "
           "; plus the translator's probe inputs as whole BBANs, one BBAN text under every pair of countries that admit it, and the same digits as the declared fields of different national countries",
      note="published-rule equivalence proved in Lean for all 22 countries (positional Spec with the weights "
           "written out; live layout obligations); tools/natref.py is a second, independent reading of the rules "
           "used by the failing-input search; live_probes_reproduced is kernel-checked correspondence on "
           "recorded inputs, not a theorem about all inputs")
def c06(run):
    import natref
    from realops import registry_lines
    S = Streams(run.seed * 1000 + 6)
    r = S.r
    ops, meta = [], []
    per = run.scale(40, 2000)
    for cc in sorted(natref.NATIONAL):
        ops += registry_lines(S.banks_of(cc))
        meta += [None] * (len(ops) - len(meta))
        for j in range(per):
            b = S.bban(cc).upper() if j % 3 else S.bban_with_bank(cc).upper()
            if j % 2 == 0:
                v = natref.make_valid(cc, b, r)
                b = v or b
            if j % 5 == 4:   # break exactly the check field
                s_, e_ = natref.CHECK_FIELD.get(cc, (len(b) - 1, len(b)))
                ch = b[s_:e_]
                alt = "".join(r.choice([x for x in (UPPER if ch[0] in UPPER else DIGITS) if x != c]) for c in ch)
                b = b[:s_] + alt + b[e_:]
            want = natref.NATIONAL[cc](b)
            i = cc + iban_check_digits(cc, b) + b
            for f in (["iban.new", hx(i), "F", "T"], ["iban.validate", hx(i), "T"], ["bban.national", hx(cc), hx(b)],
                      ["iban.new", hx(i), "F", "F"]):
                ops.append(f)
                meta.append((cc, b, want))
    # check values at the ends of their range, with neighbouring / congruent values substituted
    for cc in sorted(natref.NATIONAL):
        ops += registry_lines(S.banks_of(cc))
        meta += [None] * (len(ops) - len(meta))
        for b in boundary_sweep(S, r, cc, natref):
            ops.append(["bban.national", hx(cc), hx(b)])
            meta.append((cc, b, natref.NATIONAL[cc](b)))
    # bank entries outside DE that name a method (none on the pinned tree): target each of them
    for e in S.banks:
        if "checksum_algo" in e and e["country_code"] != "DE" and e["country_code"] in natref.NATIONAL \
                and e["bank_code"]:
            cc = e["country_code"]
            ops += registry_lines(S.banks_of(cc))
            meta += [None] * (len(ops) - len(meta))
            spec = S.table[cc]
            for _ in range(6):
                b = list(S.bban(cc).upper())
                pos, code = 0, e["bank_code"]
                for comp in spec.get("bic_lookup_components", ["bank_code"]):
                    s_, e_ = spec["positions"].get(comp, [0, 0])
                    b[s_:e_] = list(code[pos:pos + e_ - s_].ljust(e_ - s_, "0"))
                    pos += e_ - s_
                b = "".join(b)[: spec["bban_length"]]
                ops.append(["bban.national", hx(cc), hx(b)])
                meta.append((cc, b, natref.NATIONAL[cc](b)))
    # the same BBAN text under several countries, in varying order (results must not depend on
    # what was validated before)
    groups = {}
    for cc in S.countries:
        items = S.spec_items(cc)
        if all(k == "n" for _, k in items):
            groups.setdefault(S.table[cc]["bban_length"], []).append(cc)
    ops.append(["reg.reset"])
    meta.append(None)
    for n, ccs in sorted(groups.items()):
        nat_in = [c for c in ccs if c in natref.NATIONAL]
        if not nat_in or len(ccs) < 2:
            continue
        for _ in range(run.scale(6, 100)):
            src = r.choice(nat_in)
            b = natref.make_valid(src, S.bban(src), r) or S.bban(src)
            order = ccs[:]
            r.shuffle(order)
            for cc in order + order[::-1]:
                ops.append(["bban.national", hx(cc), hx(b)])
                meta.append((cc, b, natref.NATIONAL[cc](b) if cc in natref.NATIONAL else True) if cc != "DE" else None)
    # one BBAN text under every pair of countries that admit it (A, B, A, B)
    xops, xmeta = cross_country_ops(S, lambda cc, b: [["bban.national", hx(cc), hx(b)]])
    for f, m in zip(xops, xmeta):
        ops.append(f)
        if m is None:
            meta.append(None)
        else:
            w = national_expectation(S, m[2], m[0], m[1])
            meta.append(None if w is None or m[0] == "DE" else (m[0], m[1], w))
    ops.append(["reg.reset"])
    meta.append(None)
    # the same digits as the *declared fields* of different countries (the fields an algorithm reads,
    # joined, spell the same string although the BBANs differ): the verdict is still the country's own
    from realops import checksum as _cs2
    width_groups = {}
    for cc in sorted(natref.NATIONAL):
        if cc not in natref.CHECK_FIELD or cc in ("CZ", "SK"):
            continue
        spec = S.table[cc]
        cl = S.classes(cc)
        fields = [spec["positions"].get(c.value, [0, 0]) for c in type(_cs2.algorithms[cc + ":default"]).accepts]
        if all(cl[p] == "n" for s_, e_ in fields for p in range(s_, e_)):
            width_groups.setdefault(sum(e_ - s_ for s_, e_ in fields), []).append((cc, fields))
    for w, grp in sorted(width_groups.items()):
        if len(grp) < 2:
            continue
        for _ in range(run.scale(12, 300)):
            digits = "".join(r.choice(DIGITS) for _ in range(w))
            seq = []
            for cc, fields in grp:
                b = list(S.bban(cc).upper())
                pos = 0
                for s_, e_ in fields:
                    b[s_:e_] = list(digits[pos:pos + e_ - s_])
                    pos += e_ - s_
                b = "".join(b)
                seq.append((cc, natref.make_valid(cc, b, r) or b))
            r.shuffle(seq)
            for cc, b in seq + seq[::-1]:
                ops.append(["bban.national", hx(cc), hx(b)])
                meta.append((cc, b, natref.NATIONAL[cc](b)))
    # several calls on one object
    for cc in sorted(natref.NATIONAL):
        for _ in range(run.scale(3, 60)):
            b = S.bban(cc).upper()
            i = cc + iban_check_digits(cc, b) + b
            ops.append(["iban.obj_seq", hx(i), r.choice(["ivV", "vVi", "iVvV", "Vvi"])])
            meta.append(None)
    others = [cc for cc in S.countries if cc not in natref.NATIONAL and cc != "DE"]
    ops.append(["reg.reset"])
    meta.append(None)
    for cc in others:
        for _ in range(run.scale(3, 60)):
            i = S.iban(cc)
            ops.append(["iban.new", hx(i), "F", "T"])
            meta.append((cc, i[4:], True))
    # the translator's probe inputs (unit vectors over every position x character, seeded random inputs)
    # as whole BBANs: the inputs on which the kernel-checked tie `live_probes_reproduced` rests are also
    # judged by the independent reference, so a broken tie comes with the failing input
    import gen as _gen
    from realops import checksum as _cs
    by_cc = {}
    for key, comps, expected in _gen.probe_inputs():
        cc = key.split(":")[0]
        if cc == "DE" or cc not in natref.NATIONAL or not key.endswith(":default"):
            continue
        spec = S.table[cc]
        classes = _gen._position_classes(spec["bban_spec"])
        b = ["A" if c == "a" else " " if c == "e" else "0" for c in classes]
        okc = True
        for comp, v in zip(type(_cs.algorithms[key]).accepts, comps):
            s_, e_ = spec["positions"].get(comp.value, [0, 0])
            if len(v) != e_ - s_ or any(ch not in _gen._class_alphabet(c) for ch, c in zip(v, classes[s_:e_])):
                okc = False
                break
            b[s_:e_] = list(v)
        s_, e_ = spec["positions"].get("national_checksum_digits", [0, 0])
        if not okc or (e_ > s_ and (len(expected) != e_ - s_ or
                                    any(ch not in _gen._class_alphabet(c) for ch, c in zip(expected, classes[s_:e_])))):
            continue
        if e_ > s_:
            b[s_:e_] = list(expected)
        by_cc.setdefault(cc, []).append("".join(b))
    for cc, bs in sorted(by_cc.items()):
        ops += registry_lines(S.banks_of(cc))
        meta += [None] * (len(ops) - len(meta))
        seen = set()
        for b in bs:
            if b in seen:
                continue
            seen.add(b)
            ops.append(["bban.national", hx(cc), hx(b)])
            meta.append((cc, b, natref.NATIONAL[cc](b)))
    reals, _ = run.correspond("national", ops)
    spec_ops, spec_meta = [], []
    for f, m, a in zip(ops, meta, reals):
        if f[0] == "iban.obj_seq":
            check_obj_seq(run, f, a)
        if m is None:
            continue
        cc, b, want = m
        if f[0] == "iban.new" and f[3] == "F":
            if not a.startswith("ok "):
                run.violation("IBAN(text)", [unhx(f[1])], a, "accepted (harness-built valid IBAN)",
                              "monotonicity base case", op=f)
            continue
        exp = "ok T" if f[0] != "iban.new" else "ok " + f[1]
        if want:
            ok = a == (exp if f[0] != "iban.new" else "ok " + hx(common.clean(unhx(f[1]))))
        else:
            ok = a in ("err InvalidBBANChecksum", "err InvalidAccountCode")
        if not ok:
            run.violation(f[0], [cc, b], a, "accepted/True" if want else "InvalidBBANChecksum",
                          "implementation vs independent reference of the published national rule", op=f,
                          expected_line=exp if want else "err InvalidBBANChecksum")
        if f[0] == "bban.national":
            spec_ops.append(["spec.national", hx(cc), hx(b)])
            spec_meta.append((f, cc, b, a))
    out = spec_lines(spec_ops)
    for (f, cc, b, a), o in zip(spec_meta, out):
        if o == "none":
            continue
        run.count(1, tag="lean spec national " + cc)
        if (o == "ok T") != (a == "ok T"):
            run.violation("bban.validate_national_checksum()", [cc, b], a, o, "implementation vs Lean Spec.National",
                          op=f)


# --------------------------------------------------------------------------- C07
@prop("C07",
      rule="per implemented method (39): ten-digit account numbers - random, short numbers with leading "
           "zeros, numbers around every integer literal of germany.py, and the exempt ranges - through "
           "algorithms['DE:xx'].validate and compute; through IBAN(validate_bban=True) for bank codes of "
           "every method present in the registry, unlisted banks and banks with unimplemented methods; "
           "verdicts compared with the independent reference of the published rules; non-trivial = distinct "
           "(method, account) pair; bank codes whose entries name different methods are swept completely "
           "(an account one of the named methods rejects must be rejected)",
      note="all 39 methods proved equal to the published rule for all 10^10 accounts (live_de_total: no "
           "foreign exception); int() of whole account strings is modelled for digit strings")
def c07(run):
    import natref
    from realops import checksum, registry_lines
    from streams import source_literals
    S = Streams(run.seed * 1000 + 7)
    r = S.r
    ints, _ = source_literals()
    lits = sorted({n + k for n in ints if 0 <= n < 10 ** 10 for k in (-1, 0, 1) if 0 <= n + k < 10 ** 10})
    methods = sorted(k[3:] for k in checksum.algorithms if k.startswith("DE:"))
    ops, meta = [], []
    per = run.scale(400, 30000)
    import gen as _gen
    probe_accts = {}
    for key, comps, _e in _gen.probe_inputs():
        if key.startswith("DE:") and len(comps) == 1 and len(comps[0]) == 10 and comps[0].isdigit() \
                and comps[0].isascii():
            probe_accts.setdefault(key[3:], []).append(comps[0])
    for m in methods:
        accts = ["%010d" % n for n in lits] + sorted(set(probe_accts.get(m, [])))
        for j in range(per):
            k = r.random()
            if k < 0.55:
                accts.append("".join(r.choice(DIGITS) for _ in range(10)))
            elif k < 0.8:
                accts.append("%010d" % r.randrange(10 ** r.randint(1, 9)))
            elif k < 0.9:
                accts.append("0" + "%09d" % r.randrange(390000000, 505000000))
            else:
                a = list("".join(r.choice(DIGITS) for _ in range(10)))
                for p in r.sample(range(10), r.randint(1, 5)):
                    a[p] = r.choice("089")
                accts.append("".join(a))
        for a in accts:
            ops.append(["algo.validate", hx("DE:" + m), "-", hx(a)])
            meta.append((m, a))
            if r.random() < 0.15:
                ops.append(["algo.compute", hx("DE:" + m), hx(a)])
                meta.append(None)
    reals, _ = run.correspond("methods", ops)
    for f, mt, a in zip(ops, meta, reals):
        if mt is None:
            continue
        m, acct = mt
        want = natref.de(m, acct)
        if want is None:
            run.notes.append("no reference for method " + m)
            continue
        got = a == "ok T"
        verdict = a in ("ok T", "ok F", "err InvalidBBANChecksum")
        okv = (got in want) if isinstance(want, set) else (got == want)
        if not verdict or not okv:
            run.violation("algorithms['DE:%s'].validate" % m, [acct], a,
                          "accept" if want is True else "reject" if want is False else "either",
                          "implementation vs independent reference of the Bundesbank rule", op=f)
    # dispatch through the public IBAN API
    de_banks = S.banks_of("DE")
    by_algo = {}
    for e in de_banks:
        by_algo.setdefault(e.get("checksum_algo"), []).append(e)
    ops2, meta2 = registry_lines(de_banks), [None] * (len(de_banks) + 1)
    first = {}
    for e in de_banks:
        first.setdefault(e["bank_code"], e)
    for algo, es in sorted(by_algo.items(), key=lambda kv: str(kv[0])):
        for e in r.sample(es, min(len(es), run.scale(2, 20))):
            for _ in range(run.scale(6, 60)):
                acct = "".join(r.choice(DIGITS) for _ in range(10))
                b = e["bank_code"] + acct
                i = "DE" + iban_check_digits("DE", b) + b
                ops2.append(["iban.new", hx(i), "F", "T"])
                meta2.append((first[e["bank_code"]].get("checksum_algo"), acct, i))
    # bank codes whose entries do not all name the same method: "the method of the bank" is every method
    # its entries name - an account that one of them rejects must be rejected (always swept completely)
    named = {}
    for e in de_banks:
        named.setdefault(e["bank_code"], []).append(e.get("checksum_algo"))
    # method ids that are not two-character texts (a number 6 for "06", a blank-padded id, …): the bank IS
    # listed with the method the id denotes; an account that method rejects must be rejected
    import re as _re
    for e in de_banks:
        mid = e.get("checksum_algo")
        if mid is None or (isinstance(mid, str) and _re.fullmatch(r"[0-9A-Z]{2}", mid)):
            continue
        canon = str(mid).strip().upper().zfill(2)
        if canon in methods and e["bank_code"]:
            for _ in range(4000):
                acct = "".join(r.choice(DIGITS) for _ in range(10))
                if natref.de(canon, acct) is False:
                    b = e["bank_code"] + acct
                    i = "DE" + iban_check_digits("DE", b) + b
                    ops2.append(["iban.new", hx(i), "F", "T"])
                    meta2.append((canon, acct, i))
                    break
    for code, ms in sorted(named.items()):
        if code and len(set(map(str, ms))) > 1:
            named_here = sorted({m for m in ms if isinstance(m, str) and m in methods})
            unnamed = any(m not in methods for m in ms)     # an entry without (implemented) method accepts all
            for m in named_here:
                done = 0
                for _ in range(6000):
                    acct = "".join(r.choice(DIGITS) for _ in range(10))
                    if natref.de(m, acct) is not False:
                        continue
                    # an account this method rejects and another reading of the same bank code accepts
                    if unnamed or any(natref.de(o, acct) is True for o in named_here if o != m):
                        b = code + acct
                        i = "DE" + iban_check_digits("DE", b) + b
                        ops2.append(["iban.new", hx(i), "F", "T"])
                        meta2.append((m, acct, i))
                        done += 1
                        if done == 6:
                            break
    for _ in range(run.scale(30, 500)):   # unlisted banks
        bank = "".join(r.choice(DIGITS) for _ in range(8))
        if bank in first:
            continue
        acct = "".join(r.choice(DIGITS) for _ in range(10))
        i = "DE" + iban_check_digits("DE", bank + acct) + bank + acct
        ops2.append(["iban.new", hx(i), "F", "T"])
        meta2.append((None, acct, i))
    reals2, _ = run.correspond("dispatch", ops2)
    for f, mt, a in zip(ops2, meta2, reals2):
        if mt is None:
            continue
        algo, acct, i = mt
        algo = None if algo is None else str(algo)     # the library formats whatever value is there into the key
        want = natref.de(algo, acct) if algo in methods else True
        got = a.startswith("ok ")
        okv = (got in want) if isinstance(want, set) else (got == want)
        if not okv or not (got or a == "err InvalidBBANChecksum"):
            run.violation("IBAN(text, validate_bban=True)", [i, "method " + str(algo)], a,
                          "accepted" if want is True else "InvalidBBANChecksum" if want is False else "either",
                          "dispatch bank code -> method -> published rule", op=f)


# --------------------------------------------------------------------------- C12
def expected_lookup(entries, cc, code):
    """Independent reading of the property for one (country, bank code) pair."""
    listed = [e for e in entries if e["country_code"] == cc and e["bank_code"] == code] if cc and code else []
    if not listed:
        return None, None
    cands = [e["bic"] for e in listed if e["primary"] and e["bic"]] + \
            [e["bic"] for e in listed if not e["primary"] and e["bic"]]
    if not cands:
        return cands, None
    eight = [c for c in cands if len(c) == 8]
    xxx = [c for c in cands if c[8:11] == "XXX"]
    chosen = max(eight) if eight else max(xxx) if xxx else cands[0]
    return cands, chosen


@prop("C12",
      rule="(country, bank code) keys of the bundled registry (quick: a sample per country, thorough: all "
           "22,753), unlisted pairs, all/sampled registry BICs (reverse lookup), IBANs around listed and "
           "unlisted banks; plus synthetic registries (ties, empty and null BICs, empty bank codes, "
           "non-primary-first order) installed into the library through its own index builder; "
           "non-trivial = distinct lookup "
           "; plus one BBAN text under every pair of countries that admit it, keys of registry entries that lack an expected field, and seeded pinned draws in small-registry countries before all their lookups"
           "; entries whose BIC or bank code is not in compact upper-case alphanumeric form are always looked up",
      note="theorems are for every registry; `RegistryBicsOk` for the bundled one is a C17 obligation")
def c12(run):
    from realops import registry_lines
    S = Streams(run.seed * 1000 + 12)
    r = S.r
    ops, meta = [], []
    by_cc = {}
    for e in S.banks:
        by_cc.setdefault(e["country_code"], []).append(e)
    for cc, es in sorted(by_cc.items()):
        ops += registry_lines(es)
        meta += [None] * (len(es) + 1)
        codes = sorted({e["bank_code"] for e in es})
        if run.tier != "thorough":
            codes = r.sample(codes, min(len(codes), 40))
        else:
            run.exhaustive = True
        # entries that lack an expected key are always looked up
        codes += sorted({e.get("bank_code", "") for e, _ in S.malformed_entries if e.get("country_code") == cc} - set(codes))
        # … and so are entries with an unusual value: a BIC or bank code that is not already in compact
        # upper-case alphanumeric form, a BIC of another country, a BIC that is not 8 or 11 characters long
        def odd(e):
            b, c = e["bic"], e["bank_code"]
            return (isinstance(b, str) and b != "" and (common.clean(b) != b or not b.isalnum() or not b.isascii()
                                                        or len(b) not in (8, 11))) or \
                (isinstance(c, str) and (common.clean(c) != c or (c != "" and (not c.isalnum() or not c.isascii())))) or \
                not isinstance(c, str) or not (b is None or isinstance(b, str))
        codes += sorted({str(e["bank_code"]) for e in es if odd(e)} - set(codes))
        for code in codes + ["", "99999999", codes[0] + "0" if codes else "1"]:
            for op in ("bic.candidates", "bic.from_bank_code"):
                ops.append([op, hx(cc), hx(code)])
                meta.append((es, cc, code))
        if cc in S.table:
            for _ in range(run.scale(6, 40)):
                i = S.iban(cc, with_bank=r.random() < 0.8)
                ops.append(["bban.bank", hx(cc), hx(i[4:])])
                meta.append(None)
            # keys whose first-listed entry is not the one a primary-first ordering would put first:
            # lookups must not disturb each other (bank -> bic -> bank)
            firsts = {}
            for e in es:
                firsts.setdefault(e["bank_code"], []).append(e)
            tricky = [c for c, l in firsts.items() if c and not l[0]["primary"] and any(x["primary"] for x in l)]
            spec = S.table[cc]
            if "positions" in spec:
                for code in tricky[: run.scale(25, 10 ** 6)]:
                    b = list(S.bban(cc).upper())
                    pos = 0
                    for comp in spec.get("bic_lookup_components", ["bank_code"]):
                        s_, e_ = spec["positions"].get(comp, [0, 0])
                        b[s_:e_] = list(code[pos:pos + e_ - s_].ljust(e_ - s_, "0"))
                        pos += e_ - s_
                    b = "".join(b)[: spec["bban_length"]]
                    for op in (["bban.bank", hx(cc), hx(b)], ["bic.candidates", hx(cc), hx(code)],
                               ["bic.from_bank_code", hx(cc), hx(code)], ["bban.bank", hx(cc), hx(b)]):
                        ops.append(op)
                        meta.append(("bank", firsts[code][0]) if op[0] == "bban.bank" else (es, cc, code))
    # the same BBAN text under two countries in turn: bank / bic are those of the country's own fields
    xops, xmeta = cross_country_ops(S, lambda cc, b: [["bban.bank", hx(cc), hx(b)]], per_pair=2)
    xreals, _ = run.correspond("one BBAN text under two countries", xops)
    for f, m, a in zip(xops, xmeta, xreals):
        if m is None:
            continue
        want = expect_bank_line(S, m[2], m[0], m[1])
        if a != want:
            run.violation("bban.bank / bban.bic", [m[0], m[1]], a, want,
                          "lookup of the BBAN's own bank-identifying fields in the registry", op=f,
                          expected_line=want)
    reals, _ = run.correspond("bundled registry", ops)
    for f, m, a in zip(ops, meta, reals):
        if isinstance(m, tuple) and m[0] == "bank":
            e = m[1]
            exp = "ok " + " ".join([hx(e["bank_code"]), "None" if e["bic"] is None else hx(e["bic"]),
                                    hx(e["name"]), hx(e["short_name"])])
            if not a.startswith(exp + " | "):
                run.violation("iban.bank", [unhx(f[1]), unhx(f[2])], a, exp + " | …",
                              "bank entry must be the first listed one, whatever was looked up before",
                              kind="history", op=f)
    meta = [None if (isinstance(m, tuple) and m[0] == "bank") else m for m in meta]
    check_lookups(run, ops, meta, reals)
    # seeded random draws with a pinned bank code in countries with few banks, then every lookup of those
    # countries: generating IBANs must leave the registry as it is
    small = [cc for cc, es in sorted(by_cc.items()) if 5 <= len(es) <= 60 and cc in S.table
             and "bank_code" in S.table[cc].get("positions", {})]
    after_draws = []
    for cc in r.sample(small, min(len(small), run.scale(4, 40))):
        s_, e_ = S.table[cc]["positions"]["bank_code"]
        for k in range(12):
            code = "".join(S.draw_class(c) for c in S.classes(cc)[s_:e_])
            real(["iban.random", hx(cc), str(run.seed * 100 + k), "T", "bank_code=" + hx(code)])
        after_draws += sorted({e["bic"] for e in by_cc[cc] if e["bic"]})
    # reverse lookups: registry restricted to the entries of the sampled BICs (+ distractors)
    bics = sorted({e["bic"] for e in S.banks if e["bic"]})
    sample = bics if run.tier == "thorough" else sorted(set(r.sample(bics, 300)) | set(after_draws))
    want = set(sample)
    sub = [e for e in S.banks if e["bic"] in want or r.random() < 0.01]
    ops2 = registry_lines(sub) + [["bic.lookup", hx(b)] for b in sample + ["GENODEM1XXX", "AAAADEFF"]]
    reals2, _ = run.correspond("reverse lookup", ops2)
    for f, a in zip(ops2, reals2):
        if f[0] != "bic.lookup":
            continue
        b = unhx(f[1])
        es = [e for e in S.banks if e["bic"] == b]
        exp = "ok [" + ",".join(hx(x) for x in sorted({e["bank_code"] for e in es})) + "] [" + \
              ",".join(hx(x) for x in sorted({e["name"] for e in es})) + "] [" + \
              ",".join(hx(x) for x in sorted({e["short_name"] for e in es})) + "] " + ("T" if es else "F")
        if a != exp:
            run.violation("bic.domestic_bank_codes/bank_names/exists", [b], a, exp, "reverse lookup vs registry",
                          op=f)
    # synthetic registries through the library's own index builder
    ops3, meta3 = [], []
    bic_pool = ["GENODEM1GLS", "GENODEM1", "GENODEM1XXX", "DEUTDEFF", "DEUTDEFFXXX", "DEUTDEFF500", "MARKDEF1100",
                "", None, "COBADEFF", "COBADEFFXXX"]
    for _ in range(run.scale(25, 400)):
        entries = []
        for _ in range(r.randint(1, 9)):
            entries.append({"country_code": r.choice(["DE", "DE", "AT", ""]), "bank_code": r.choice(["1", "2", "", "10"]),
                            "bic": r.choice(bic_pool), "primary": r.random() < 0.5,
                            "name": r.choice(["A", "B", "C"]), "short_name": r.choice(["a", "b"])})
        ops3.append(["reg.synthetic"])
        meta3.append(None)
        for e in entries:
            ops3.append(registry_lines([e])[1])
            meta3.append(None)
        for cc in ("DE", "AT", ""):
            for code in ("1", "2", "10", ""):
                for op in ("bic.candidates", "bic.from_bank_code"):
                    ops3.append([op, hx(cc), hx(code)])
                    meta3.append((entries, cc, code))
        for b in ("GENODEM1", "DEUTDEFF", "GENODEM1GLS", ""):
            ops3.append(["bic.lookup", hx(b)])
            meta3.append(None)
    ops3.append(["reg.bundled"])
    meta3.append(None)
    try:
        reals3, _ = run.correspond("synthetic registries", ops3)
    finally:
        real(["reg.bundled"])
    check_lookups(run, ops3, meta3, reals3)


def check_lookups(run, ops, meta, reals):
    for f, m, a in zip(ops, meta, reals):
        if m is None:
            continue
        entries, cc, code = m
        cands, chosen = expected_lookup(entries, cc, code)
        if f[0] == "bic.candidates":
            exp = "err InvalidBankCode" if cands is None else "ok [" + ",".join(hx(c) for c in cands) + "]"
        else:
            exp = "err InvalidBankCode" if chosen is None else "ok " + hx(chosen)
        if a != exp:
            run.violation(f[0], [cc, code], a, exp, "lookup vs the property's reading of the registry entries",
                          op=f, registry=[{k: e.get(k) for k in ("country_code", "bank_code", "bic", "primary")}
                                          for e in entries if e["country_code"] == cc and e["bank_code"] == code][:12])


# --------------------------------------------------------------------------- C18
def ref_merge(l, r):
    """The property's reading: deep, later-wins."""
    out = dict(l)
    for k, v in r.items():
        if k in l and isinstance(l[k], dict) and isinstance(v, dict):
            out[k] = ref_merge(l[k], v)
        else:
            out[k] = v
    return out


def rand_doc(r, depth, keys="abck"):
    k = r.random()
    if depth <= 0 or k < 0.35:
        return r.choice([None, True, False, 0, 1, 7, -3, "x", "", "DE", [1, 2], [], ["a"]])
    return {kk: rand_doc(r, depth - 1, keys) for kk in r.sample(keys, r.randint(0, len(keys)))}


@prop("C18",
      rule="random pairs of JSON documents (nested dicts over a small key alphabet so that conflicts, "
           "dict-vs-scalar both ways, disjoint and identical keys all occur) through merge_dicts; random v2 "
           "documents through parse_v2; random file sets (1-4 files, adversarial names around '.', '-', case and "
           "'v2' stems, dict and list files) through registry.get on a temporary directory; inputs checked "
           "unmodified; non-trivial = distinct case with at least one common key / at least two files; the live "
           "package: bank files read with json.load compose to registry.get('bank'), and entries of every file "
           "(first, last, sample, all entries lacking a usual key) are found again from an IBAN built around them",
      note="merge laws proved for all documents; composition of the live files proved equal to the live "
           "effective table by kernel evaluation; json.load, Path.glob and sorted() are modelled")
def c18(run):
    from realops import jenc
    S = Streams(run.seed * 1000 + 18)
    r = S.r
    ops, meta = [], []
    for _ in range(run.scale(1500, 60000)):
        l, rr = rand_doc(r, 4), rand_doc(r, 4)
        if not isinstance(l, dict) or not isinstance(rr, dict):
            continue
        ops.append(["json.merge", jenc(l), jenc(rr)])
        meta.append(("merge", l, rr))
    for _ in range(run.scale(300, 5000)):
        entries = []
        for _ in range(r.randint(0, 4)):
            e = {"country_code": "DK", "bic": r.choice(["", "NDEADKKK"]), "name": "n",
                 "codes": [r.choice(["0040", "0041", "1"]) for _ in range(r.randint(0, 3))]}
            if r.random() < 0.3:
                e["primary"] = r.choice([True, False])
            if r.random() < 0.2:
                e["code"] = "old"
            if r.random() < 0.1:
                del e["codes"]
            entries.append(e)
        doc = {"entries": entries, "expand_from": "codes", "expand_into": "code"}
        if r.random() < 0.05:
            del doc["expand_into"]
        ops.append(["json.parse_v2", jenc(doc)])
        meta.append(("v2", doc))
    names = ["a.json", "b.json", "a-b.json", "a.b.json", "A.json", "overwrite.json", "overwrite-local.json",
             "generated.json", "z.v2.json", "m.v2.json", "v2.json", "av2.json", "b.v3.json", "0.json", "_x.json"]
    for _ in range(run.scale(400, 8000)):
        kind = r.random()
        fs = {}
        for fn in r.sample(names, r.randint(1, 4)):
            stem = fn[:-5]
            if stem.endswith("v2"):
                fs[fn] = {"entries": [{"c": "DK", "codes": [r.choice(["1", "2"]) for _ in range(r.randint(0, 2))]}],
                          "expand_from": "codes", "expand_into": "code"}
            elif kind < 0.6:
                d = rand_doc(r, 3)
                fs[fn] = d if isinstance(d, dict) else {"k": d}
            else:
                fs[fn] = [{"c": r.choice("xy"), "n": r.randint(0, 3)} for _ in range(r.randint(0, 3))]
        ops.append(["registry.get"] + [hx(fn) + "=" + jenc(d) for fn, d in fs.items()])
        meta.append(("get", fs))
    # the non-associativity pattern: dict, then scalar, then dict
    for mid in (None, 1, "x", []):
        fs = {"a.json": {"k": {"x": 1}}, "b.json": {"k": mid}, "c.json": {"k": {"y": 2}}}
        ops.append(["registry.get"] + [hx(fn) + "=" + jenc(d) for fn, d in fs.items()])
        meta.append(("get", fs))
    reals, _ = run.correspond("registry", ops,
                              lambda f, a: f[0] != "json.merge" or bool(set(jdec_keys(f[1])) & set(jdec_keys(f[2]))))
    for f, m, a in zip(ops, meta, reals):
        if m[0] == "merge":
            want = "ok " + jenc(ref_merge(m[1], m[2]))
            if a != want:
                run.violation("registry.merge_dicts", [m[1], m[2]], a, want, "deep later-wins merge", op=f)
        elif m[0] == "v2":
            doc = m[1]
            try:
                exp = []
                for e in doc["entries"]:
                    src, dst = doc["expand_from"], doc["expand_into"]
                    base = {k: v for k, v in e.items() if k != src}
                    base.setdefault("primary", False)
                    for v in e[src]:
                        exp.append({**base, dst: v})     # the expanded value wins over a key of that name
                want = "ok " + jenc(exp)
            except KeyError:
                want = "exception"
            if a != want:
                run.violation("registry.parse_v2", [doc], a, want,
                              "every expanded entry = the entry without the source key, primary defaulted, "
                              "target key = the value", op=f, expected_line=want)
        elif m[0] == "get":
            fs = m[1]
            order = sorted(fs)
            docs = []
            for fn in order:
                d = fs[fn]
                if fn[:-5].endswith("v2"):
                    d = [{**{k: v for k, v in e.items() if k != "codes"}, **({} if "primary" in e else {"primary": False}),
                          "code": c} for e in d["entries"] for c in e["codes"]]
                docs.append(d)
            if all(isinstance(d, dict) for d in docs):
                exp = docs[0]
                for d in docs[1:]:
                    exp = ref_merge(exp, d)
                want = "ok " + jenc(exp)
            elif all(isinstance(d, list) for d in docs):
                want = "ok " + jenc([x for d in docs for x in d])
            else:
                continue     # mixed dict/list directories: outside the property
            if a != want:
                run.violation("registry.get(directory)", [{k: v for k, v in fs.items()}], a, want,
                              "files composed in file-name order", kind="config", op=f)
    c18_live_lookups(run, S)


def disk_bank_entries():
    """The bank list as the property composes it, read from the files of the live package (not through
    `registry.get`): files in file-name order, v2 files expanded; -> [(file name, entry)]"""
    import glob
    import json as _json
    import schwifty as _pkg
    out = []
    d = os.path.join(os.path.dirname(_pkg.__file__), "bank_registry")
    for fn in sorted(glob.glob(os.path.join(d, "*.json")), key=lambda f: os.path.basename(f)):
        doc = _json.load(open(fn, encoding="utf-8"))
        stem = os.path.basename(fn)[:-5]
        if stem.endswith("v2"):
            src, dst = doc.get("expand_from"), doc.get("expand_into")
            for e in doc.get("entries", []):
                base = {k: v for k, v in e.items() if k != src}
                base.setdefault("primary", False)
                for v in e.get(src, []):
                    out.append((os.path.basename(fn), {**base, dst: v}))
        elif isinstance(doc, list):
            out += [(os.path.basename(fn), e) for e in doc]
    return out


def c18_live_lookups(run, S):
    """Lookups follow the effective data: entries of every bank file (first, last, a few in between, and
    every entry that lacks one of the usual keys) are found again from an IBAN built around them."""
    r = S.r
    # what a file's text names must be in its document: no member name twice in one object
    import glob as _glob
    import json as _json
    import schwifty as _pkg
    for fn in sorted(_glob.glob(os.path.join(os.path.dirname(_pkg.__file__), "*_registry", "*.json"))):
        found = []

        def hook(pairs, found=found):
            seen = {}
            for k, v in pairs:
                if k in seen:
                    found.append((k, seen[k], v))
                seen[k] = v
            return dict(pairs)
        try:
            _json.load(open(fn, encoding="utf-8"), object_pairs_hook=hook)
        except ValueError:
            continue
        for k, first_v, last_v in found[:3]:
            run.violation("registry file", [os.path.basename(fn), k],
                          "the file gives member %r twice in one object; json.load keeps only the last" % k,
                          "every key a file names is in the effective data", "files read with an object_pairs_hook",
                          kind="config")
    disk = disk_bank_entries()
    if [e for _, e in disk] != [dict(e) for e in registry_get_bank_raw()]:
        run.violation("registry.get('bank')", ["the live package"], "differs from the files on disk composed in "
                      "file-name order", "equal", "bank files read with json.load", kind="config")
        return
    # the effective data do not depend on the configuration of the process that loads them
    import hashlib
    import subprocess
    import sys as _sys
    from realops import REPO as _REPO

    def digest(banks, table):
        t = {cc: {k: v for k, v in e.items() if k != "regex"} for cc, e in table.items()}
        return hashlib.sha256(_json.dumps([banks, t], sort_keys=True, ensure_ascii=True, default=str).encode()).hexdigest()
    code = ("import sys, json, hashlib; sys.path.insert(0, %r)\n"
            "from schwifty import registry\nimport schwifty.iban\n"
            "t = {cc: {k: v for k, v in e.items() if k != 'regex'} for cc, e in registry.get('iban').items()}\n"
            "print(hashlib.sha256(json.dumps([registry.get('bank'), t], sort_keys=True, ensure_ascii=True, "
            "default=str).encode()).hexdigest())\n") % _REPO
    want = digest([dict(e) for e in registry_get_bank_raw()], S.table)
    for name, flags, env in process_configs():
        pr = subprocess.run([_sys.executable] + flags + ["-c", code], capture_output=True, env=env)
        got = pr.stdout.decode(errors="replace").strip() or ("no output: " + pr.stderr.decode(errors="replace")[-300:])
        run.count(1, tag="registry digest (" + name + ")")
        if got != want:
            run.violation("registry.get('bank') / registry.get('iban') in a fresh interpreter", [name], got[:300],
                          want, "digest of the effective data under another process configuration", kind="config")
            break
    first = {}
    for e in S.banks:
        if e["bank_code"]:
            first.setdefault((e["country_code"], e["bank_code"]), e)
    per_file = {}
    for (fn, e), view in zip(disk, S.banks):
        per_file.setdefault(fn, []).append((e, view))
    keys = set()
    usual = ("country_code", "bank_code", "bic", "primary", "name", "short_name")
    for fn, items in sorted(per_file.items()):
        pick = [items[0], items[-1]] + r.sample(items, min(len(items), run.scale(3, 200)))
        pick += [it for it in items if any(k not in it[0] for k in usual)][: run.scale(40, 10 ** 6)]
        for e, view in pick:
            if view["bank_code"] and view["country_code"] in S.table:
                keys.add((view["country_code"], view["bank_code"]))
    run.count(len(keys), tag="live keys looked up")
    reach_keys(run, S, sorted(keys), first, stream="lookups follow the bank files")


def registry_get_bank_raw():
    from realops import registry
    return registry.get("bank")


def jdec_keys(tok):
    from realops import jdec
    d = jdec(tok)
    return list(d) if isinstance(d, dict) else []


# --------------------------------------------------------------------------- C17
def data_audit(S):
    """Independent re-statement of the C17 obligations on the live data; returns offending items."""
    import re as _re
    import pycountry
    iso = {c.alpha_2 for c in pycountry.countries}
    bad = []
    per_pos = {}
    for cc, spec in S.table.items():
        items = SPEC_ITEM_RE.findall(spec["bban_spec"])
        if "".join(n + "!" + k for n, k in items) != spec["bban_spec"]:
            bad.append(("country", cc, "structure string does not parse: " + spec["bban_spec"]))
            continue
        cls = [k for n, k in items for _ in range(int(n))]
        per_pos[cc] = cls
        if len(cls) != spec["bban_length"] or spec["iban_length"] != spec["bban_length"] + 4 or spec["iban_length"] > 34:
            bad.append(("country", cc, "lengths do not add up"))
        rngs = sorted((v[0], v[1], k) for k, v in spec.get("positions", {}).items())
        for s_, e_, k in rngs:
            if not (0 <= s_ < e_ <= spec["bban_length"]):
                bad.append(("country", cc, f"position {k} out of bounds: {s_}:{e_}"))
        for (s1, e1, k1), (s2, e2, k2) in zip(rngs, rngs[1:]):
            if e1 > s2:
                bad.append(("country", cc, f"positions {k1} {s1}:{e1} and {k2} {s2}:{e2} overlap"))
        for k in spec.get("bic_lookup_components", []):
            if k not in spec.get("positions", {}):
                bad.append(("country", cc, f"lookup component {k} is not a published field"))
    ok = {"n": DIGITS, "a": UPPER, "c": DIGITS + UPPER, "e": " "}
    for e in S.banks:
        cc = e["country_code"]
        if cc not in S.table:
            bad.append(("bank", e, "country not in the table"))
            continue
        b = e["bic"]
        if b:
            if not (len(b) in (8, 11) and all(ch in DIGITS + UPPER for ch in b) and
                    all(ch in UPPER for ch in b[4:6]) and b[4:6] in iso):
                bad.append(("bank", e, "BIC is not a valid ISO 9362 BIC"))
        code = e["bank_code"]
        if code and cc in per_pos:
            spec = S.table[cc]
            cls = []
            for comp in spec.get("bic_lookup_components", ["bank_code"]):
                s_, e_ = spec.get("positions", {}).get(comp, [0, 0])
                cls += per_pos[cc][s_:e_]
            if len(code) != len(cls) or any(ch not in ok[k] for ch, k in zip(code, cls)):
                bad.append(("bank", e, "bank code does not fit the bank-identifying field " + "".join(cls)))
    return bad


import re as _re_mod
SPEC_ITEM_RE = _re_mod.compile(r"(\d+)!([nace])")


def reach_keys(run, S, keys, first, stream="reachability"):
    """Build a valid IBAN around every (country, bank code) key and read bank and BIC back."""
    from realops import registry_lines
    by_cc = {}
    for k in keys:
        by_cc.setdefault(k[0], []).append(k)
    fill = {"n": "0", "a": "A", "c": "A", "e": " "}
    ops, meta = [], []
    for cc, ks in sorted(by_cc.items()):
        spec = S.table.get(cc)
        if not spec or "positions" not in spec:
            for k in ks:
                run.violation("bundled data", [k], "country without positions", "reachable bank", "reachability",
                              kind="config")
            continue
        ops += registry_lines(S.banks_of(cc))
        meta += [None] * (len(ops) - len(meta))
        cls = [k for n, k in S.spec_items(cc) for _ in range(n)]
        for (_, code) in ks:
            b = [fill[k] for k in cls]
            pos = 0
            for comp in spec.get("bic_lookup_components", ["bank_code"]):
                s_, e_ = spec["positions"].get(comp, [0, 0])
                b[s_:e_] = list(code[pos:pos + e_ - s_])
                pos += e_ - s_
            b = "".join(b)
            i = cc + iban_check_digits(cc, b) + b
            ops.append(["iban.new", hx(i), "F", "F"])
            meta.append(("valid", cc, code, i))
            ops.append(["bban.bank", hx(cc), hx(b)])
            meta.append(("bank", cc, code, i))
            run.distinct.add((cc, code))
    reals, _ = run.correspond(stream, ops)
    for f, m, a in zip(ops, meta, reals):
        if m is None:
            continue
        kind, cc, code, i = m
        if kind == "valid":
            if not a.startswith("ok "):
                run.violation("IBAN built around a listed bank", [cc, code, i], a, "a valid IBAN",
                              "reachability of every listed bank", kind="config", op=f)
        else:
            e = first[(cc, code)]
            exp = "ok " + " ".join([hx(e["bank_code"]), "None" if e["bic"] is None else hx(e["bic"]),
                                    hx(e["name"]), hx(e["short_name"])])
            if not a.startswith(exp + " | "):
                run.violation("iban.bank for an IBAN built around a listed bank", [cc, code, i], a, exp,
                              "listed bank is found again from its IBAN", kind="config", op=f)
            else:
                want = expect_bank_line(S, S.banks_of(cc), cc, i[4:])
                if a != want:
                    run.violation("iban.bic for an IBAN built around a listed bank", [cc, code, i], a, want,
                                  "the BIC the registry lists for the bank is found again from its IBAN",
                                  kind="config", op=f)


@prop("C17",
      rule="obligations: one per country entry and per bank-entry chunk (kernel evaluation of the whole "
           "regenerated table); dynamic: an independent audit of every country and bank entry (exhaustive), and "
           "reachability - an IBAN is built around every distinct (country, bank code) key (quick: a sample; "
           "thorough: all) and .bank/.bic are read back; non-trivial = distinct key "
           "; the BIC is read back too, and entries lacking an expected field are always built",
      note="reachability is proved (reachable / bank_reachable / live_rows_reachable) and additionally exercised on "
           "the real code; 'algorithms read only defined fields' is "
           "read as in DESIGN.md (an undeclared field reads the empty string)")
def c17(run):
    from realops import registry_lines
    S = Streams(run.seed * 1000 + 17)
    r = S.r
    for kind, item, why in data_audit(S)[:20]:
        run.violation("bundled data", [item if kind == "country" else
                                       {k: item.get(k) for k in ("country_code", "bank_code", "bic")}],
                      why, "consistent entry", "independent audit of the live tables", kind="config")
    run.count(len(S.banks) + len(S.table), tag="audited entries")
    run.exhaustive = True
    first = {}
    for e in S.banks:
        if e["bank_code"]:
            first.setdefault((e["country_code"], e["bank_code"]), e)
    keys = sorted(first)
    if run.tier != "thorough":
        # boundary keys of every country (smallest / largest, first / last listed, single repeated
        # character such as 000 or 999, shortest / longest) plus a random sample
        edge = set()
        per = {}
        for k in keys:
            per.setdefault(k[0], []).append(k)
        for cc, ks in per.items():
            edge.update([ks[0], ks[-1], min(ks, key=lambda k: len(k[1])), max(ks, key=lambda k: len(k[1]))])
            edge.update(k for k in ks if len(set(k[1])) == 1)
            listed = [e["bank_code"] for e in S.banks_of(cc) if e["bank_code"]]
            edge.update([(cc, listed[0]), (cc, listed[-1])])
        keys = sorted(edge | set(r.sample(keys, min(len(keys), 700))))
    # entries that lack an expected key are always built and read back
    keys = sorted(set(keys) | {(e.get("country_code", ""), e.get("bank_code", "")) for e, _ in S.malformed_entries
                               if e.get("bank_code") and (e.get("country_code", ""), e.get("bank_code", "")) in first})
    reach_keys(run, S, keys, first)


# --------------------------------------------------------------------------- C08
def expected_generate(S, cc, bank, account, branch):
    """The property's reading of IBAN.generate: ('ok', {field: value}) or ('err', class or None)."""
    spec = S.table.get(cc)
    if spec is None:
        return ("err", "InvalidCountryCode")
    if "positions" not in spec:
        return ("err", "SchwiftyException")
    pos = spec["positions"]
    w = {k: (pos[k][1] - pos[k][0]) if k in pos else 0 for k in ("bank_code", "branch_code", "account_code")}
    c = {"bank_code": common.clean(bank), "branch_code": common.clean(branch), "account_code": common.clean(account)}
    padded = {k: v.zfill(w[k]) for k, v in c.items()}
    if w["branch_code"] > 0 and not c["branch_code"] and len(padded["bank_code"]) == w["bank_code"] + w["branch_code"]:
        padded["branch_code"] = padded["bank_code"][w["bank_code"]:]
        padded["bank_code"] = padded["bank_code"][:w["bank_code"]]
    for k, cls in (("bank_code", "InvalidBankCode"), ("branch_code", "InvalidBranchCode"),
                   ("account_code", "InvalidAccountCode")):
        if len(padded[k]) > w[k]:
            return ("err", cls)
    return ("ok", padded)


@prop("C08",
      rule="every country with published positions x component strings of length 0..width+3 drawn from the "
           "field's class and from a wild alphabet (signs, letters in numeric fields, Unicode digits, whitespace, "
           "lower case), combined-width bank codes with and without an explicit branch code, unknown countries; "
           "read-back of every supplied component, precise error class for over-long values, no foreign "
           "exception; non-trivial = distinct (country, components)"
           "; all normalisation-sensitive code points inside otherwise valid components",
      note="padding, placement and error-class theorems; generate_total (no foreign exception for any country "
           "string and any component strings) and generate_ok (a returned IBAN is accepted and carries every "
           "supplied component, cleaned and padded or split at combined width, at the published position) "
           "proved for the model and discharged on the live tables")
def c08(run):
    S = Streams(run.seed * 1000 + 8)
    r = S.r
    ops, meta = [], []
    per = run.scale(28, 600)
    countries = list(S.countries) + ["XX", "de", ""]
    for cc in countries:
        spec = S.table.get(cc, {})
        pos = spec.get("positions", {})
        items = S.spec_items(cc) if cc in S.table else []
        cls = [k for n, k in items for _ in range(n)]

        def draw(field, n, wild):
            if wild:
                pool = DIGITS + "Aaz+-_ \t٨" + r.choice(S.wide)
            else:
                rng = pos.get(field)
                ks = cls[rng[0]:rng[1]] if rng else ["n"]
                pool = None
            out = []
            for i in range(n):
                if pool:
                    out.append(r.choice(pool))
                else:
                    k = ks[i % len(ks)] if ks else "n"
                    out.append(S.draw_class(k, lower_ok=True))
            return "".join(out)
        w = {k: (pos[k][1] - pos[k][0]) if k in pos else 0 for k in ("bank_code", "branch_code", "account_code")}
        for j in range(per):
            wild = r.random() < 0.25
            vals = {}
            for k in ("bank_code", "account_code", "branch_code"):
                mode = r.random()
                if mode < 0.15:
                    n = 0
                elif mode < 0.55:
                    n = w[k]
                elif mode < 0.8:
                    n = r.randint(0, w[k])
                else:
                    n = w[k] + r.randint(1, 3)
                vals[k] = draw(k, n, wild)
            if j % 7 == 0 and w["branch_code"]:      # combined-width bank code
                vals["bank_code"] = draw("bank_code", w["bank_code"], False) + draw("branch_code", w["branch_code"], False)
                if j % 14 == 0:
                    vals["branch_code"] = ""
                    if j % 28 == 0:                    # one to three characters beyond the combined width
                        vals["bank_code"] += draw("branch_code", r.randint(1, 3), False)
                elif j % 21 == 0:                      # explicit branch made of zeros / blanks
                    vals["branch_code"] = r.choice(["0" * w["branch_code"], "0", "00", " ", "0 0"])
            if j % 11 == 0:
                k = r.choice(["bank_code", "branch_code", "account_code"])
                vals[k] = r.choice(["0" * w[k], "0", "", "0" * (w[k] + 1), " "])
            ops.append(["iban.generate", hx(cc), hx(vals["bank_code"]), hx(vals["account_code"]), hx(vals["branch_code"])])
            meta.append((cc, vals))
    # a component that is valid but for ONE character whose Unicode normal forms differ from it (full-width
    # and superscript digits, ligatures, signs that decompose into letters or blanks): all of them
    from streams import normalisation_sensitive
    for ch in normalisation_sensitive():
        for cc, bank, acct in (("DE", "37040044", "532013000"), ("GB", "NWBK601613", "31926819")):
            p_ = r.randrange(len(acct))
            vals = {"bank_code": bank, "account_code": acct[:p_] + ch + acct[p_ + 1:], "branch_code": ""}
            ops.append(["iban.generate", hx(cc), hx(vals["bank_code"]), hx(vals["account_code"]), hx("")])
            meta.append((cc, vals))
            vals = {"bank_code": bank[:2] + ch + bank[3:], "account_code": acct, "branch_code": ""}
            ops.append(["iban.generate", hx(cc), hx(vals["bank_code"]), hx(vals["account_code"]), hx("")])
            meta.append((cc, vals))
    reals, _ = run.correspond("generate", ops)
    for f, (cc, vals), a in zip(ops, meta, reals):
        args = [cc, vals["bank_code"], vals["account_code"], vals["branch_code"]]
        if a.startswith("crash"):
            run.violation("IBAN.generate", args, a, "a valid IBAN or a library error", "foreign exception", op=f,
                          expected_line="err")
            continue
        exp = expected_generate(S, cc, vals["bank_code"], vals["account_code"], vals["branch_code"])
        if exp[0] == "err":
            if a.startswith("ok ") or (exp[1] and a != "err " + exp[1]):
                run.violation("IBAN.generate", args, a, "err " + str(exp[1]), "error class for this input", op=f,
                              expected_line="err " + str(exp[1]))
            continue
        if a.startswith("ok "):
            i = unhx(a[3:])
            pos = S.table[cc]["positions"]
            b = i[4:]
            if real(["iban.new", hx(i), "F", "F"]) != "ok " + hx(i):
                run.violation("IBAN.generate", args, a, "a valid IBAN", "result is not accepted", op=f)
            for k, v in exp[1].items():
                got = b[pos[k][0]:pos[k][1]] if k in pos else ""
                if got != v:
                    run.violation("IBAN.generate", args, f"{k} field holds {got!r}", f"{v!r}",
                                  "supplied component (cleaned, zero-padded) must sit at its published position",
                                  op=f)


# --------------------------------------------------------------------------- C09
@prop("C09",
      rule="for the 19 computing countries: IBANs generated from random conforming components and seeded "
           "random draws are validated nationally; the same component text is also built under several "
           "countries in varying order; for every country with positions: components are read off nationally "
           "valid IBANs and the BBAN is rebuilt and compared outside filler positions; non-trivial = distinct IBAN"
           "; other spellings of the country code (lower / mixed case, blanks) through generate and random: whatever "
           "is built must validate nationally"
           "; components with every run of leading zeros / all zeros / all nines for every field of every computing country",
      note="compute -> validate proved per algorithm; build_validates / generate_passes_national prove the "
           "end-to-end agreement for the 19 countries and `rebuild` proves parse -> rebuild (live tables, every "
           "registry naming no method); random draws are checked dynamically")
def c09(run):
    import natref
    from random import Random
    from realops import COMPONENT_ORDER, IBAN, BBAN, exceptions, registry_lines
    S = Streams(run.seed * 1000 + 9)
    r = S.r
    computing = [c for c in sorted(natref.NATIONAL) if c not in ("CZ", "SK", "IS")]
    ops = []
    per = run.scale(25, 600)
    digit_pool = {}
    for cc in computing:
        pos = S.table[cc]["positions"]
        for j in range(per):
            b = S.bban(cc).upper()
            comps = {k: b[pos[k][0]:pos[k][1]] for k in ("bank_code", "branch_code", "account_code") if k in pos}
            digit_pool.setdefault(len(b), []).append(comps)
            ops.append(["iban.generate", hx(cc), hx(comps.get("bank_code", "")), hx(comps.get("account_code", "")),
                        hx(comps.get("branch_code", ""))])
    # same component texts under several countries, varying order (no cross-country leakage)
    for _ in range(run.scale(40, 800)):
        comps = r.choice(r.choice(list(digit_pool.values())))
        order = r.sample(computing, 5)
        for cc in order + order[::-1]:
            ops.append(["iban.generate", hx(cc), hx(comps.get("bank_code", "")), hx(comps.get("account_code", "")),
                        hx(comps.get("branch_code", ""))])
    # one digit string cut according to each country's field widths (equal joined text), and empty values
    widths = {}
    for cc in computing:
        pos = S.table[cc]["positions"]
        widths[cc] = [(k, pos[k][1] - pos[k][0]) for k in ("bank_code", "branch_code", "account_code") if k in pos]
    for _ in range(run.scale(30, 600)):
        D = "".join(r.choice(DIGITS) for _ in range(30))
        order = r.sample(computing, len(computing))
        for cc in order + order[::-1]:
            comps, p = {}, 0
            for k, w in widths[cc]:
                comps[k] = D[p:p + w]
                p += w
            ops.append(["iban.generate", hx(cc), hx(comps.get("bank_code", "")), hx(comps.get("account_code", "")),
                        hx(comps.get("branch_code", ""))])
    for cc in computing + computing[::-1]:
        ops.append(["iban.generate", hx(cc), "-", "-", "-"])
    # components with runs of leading zeros, all zeros, all nines, a single trailing one (account-type groups
    # such as "00", short numbers): every computing country x every field, deterministically
    for cc in computing:
        base = r.choice(digit_pool[S.table[cc]["bban_length"]])
        for k, w in widths[cc]:
            if w < 2 or not all(ch in "nc" for ch in S.classes(cc)[S.table[cc]["positions"][k][0]:S.table[cc]["positions"][k][1]]):
                continue
            tail = "".join(r.choice("123456789") for _ in range(w))
            for v in ["0" * z + tail[: w - z] for z in range(1, min(w, 6))] + ["0" * w, "9" * w, "0" * (w - 1) + "1",
                                                                              "00" + tail[: w - 2]]:
                comps = dict(base)
                comps[k] = v
                ops.append(["iban.generate", hx(cc), hx(comps.get("bank_code", "")), hx(comps.get("account_code", "")),
                            hx(comps.get("branch_code", ""))])
    # other spellings of the country code: whatever the library builds for them must validate as well
    for cc in computing:
        comps = r.choice(digit_pool[S.table[cc]["bban_length"]])
        for sp in (cc.lower(), cc.title(), cc[0].lower() + cc[1], " " + cc, cc + " ", cc.lower() + "\t"):
            ops.append(["iban.generate", hx(sp), hx(comps.get("bank_code", "")), hx(comps.get("account_code", "")),
                        hx(comps.get("branch_code", ""))])
    reals, _ = run.correspond("generate", ops)
    nat_ops = []
    for f, a in zip(ops, reals):
        if a.startswith("ok "):
            nat_ops.append(["iban.validate", a[3:], "T"])
    # seeded random draws
    for cc in computing + [c.lower() for c in computing] + [c.title() for c in computing]:
        for seed in range(run.scale(6, 100) if cc.isupper() else 2):
            try:
                i = str(IBAN.random(cc, random=Random(run.seed * 7919 + seed)))
            except exceptions.InvalidCountryCode:
                if cc.isupper():
                    run.violation("IBAN.random", [cc, seed], "InvalidCountryCode", "an IBAN or the overflow error",
                                  "random draw", kind="input")
                continue
            except exceptions.GenerateRandomOverflowError:
                continue
            except Exception as e:  # noqa: BLE001
                run.violation("IBAN.random", [cc, seed], type(e).__name__, "an IBAN or the overflow error",
                              "random draw", kind="input")
                continue
            nat_ops.append(["iban.validate", hx(i), "T"])
    ops2 = []
    cur = None
    for f in sorted(nat_ops, key=lambda f: unhx(f[1])[:2]):
        cc = unhx(f[1])[:2]
        if cc != cur:
            ops2 += registry_lines(S.banks_of(cc))
            cur = cc
        ops2.append(f)
    reals2, _ = run.correspond("validate generated", ops2)
    for f, a in zip(ops2, reals2):
        if f[0] == "iban.validate" and a != "ok T":
            run.violation("IBAN.generate(...).validate(validate_bban=True)", [unhx(f[1])], a, "ok T",
                          "computed national check digits must validate", op=f)
    # parse -> rebuild
    ops3, meta3 = [], []
    for cc in S.countries:
        spec = S.table[cc]
        if "positions" not in spec:
            continue
        for _ in range(run.scale(4, 80)):
            b = S.bban_with_bank(cc).upper() if r.random() < 0.5 else S.bban(cc).upper()
            if cc in natref.NATIONAL:
                b = natref.make_valid(cc, b, r) or b
                if not natref.NATIONAL[cc](b):
                    continue
            kv = []
            covered = set()
            for k in COMPONENT_ORDER:
                if k in spec["positions"]:
                    s_, e_ = spec["positions"][k]
                    kv.append(k + "=" + hx(b[s_:e_]))
                    covered.update(range(s_, e_))
            ops3.append(["bban.from_components", hx(cc)] + kv)
            meta3.append((cc, b, covered))
    # check values at the ends of their range: whatever the LIBRARY accepts nationally must rebuild
    for cc in sorted(natref.NATIONAL):
        spec = S.table[cc]
        if "positions" not in spec:
            continue
        ops3 += registry_lines(S.banks_of(cc))
        meta3 += [None] * (len(ops3) - len(meta3))
        for b in boundary_sweep(S, r, cc, natref):
            if real(["bban.national", hx(cc), hx(b)]) != "ok T":
                continue
            kv, covered = [], set()
            for k in COMPONENT_ORDER:
                if k in spec["positions"]:
                    s_, e_ = spec["positions"][k]
                    kv.append(k + "=" + hx(b[s_:e_]))
                    covered.update(range(s_, e_))
            ops3.append(["bban.from_components", hx(cc)] + kv)
            meta3.append((cc, b, covered))
    # banks outside DE whose entry names a method: whatever the library accepts nationally must rebuild
    for e in S.banks:
        cc = e["country_code"]
        if "checksum_algo" in e and cc != "DE" and cc in S.table and "positions" in S.table[cc] and e["bank_code"]:
            spec = S.table[cc]
            ops3 += registry_lines(S.banks_of(cc))
            meta3 += [None] * (len(ops3) - len(meta3))
            for _ in range(12):
                b = list(S.bban(cc).upper())
                p = 0
                for comp in spec.get("bic_lookup_components", ["bank_code"]):
                    s_, e_ = spec["positions"].get(comp, [0, 0])
                    b[s_:e_] = list(e["bank_code"][p:p + e_ - s_].ljust(e_ - s_, "0"))
                    p += e_ - s_
                b = "".join(b)[: spec["bban_length"]]
                if real(["bban.national", hx(cc), hx(b)]) != "ok T":
                    continue
                kv, covered = [], set()
                for k in COMPONENT_ORDER:
                    if k in spec["positions"]:
                        s_, e_ = spec["positions"][k]
                        kv.append(k + "=" + hx(b[s_:e_]))
                        covered.update(range(s_, e_))
                ops3.append(["bban.from_components", hx(cc)] + kv)
                meta3.append((cc, b, covered))
    reals3, _ = run.correspond("rebuild", ops3)
    for f, m3, a in zip(ops3, meta3, reals3):
        if m3 is None:
            continue
        cc, b, covered = m3
        if cc == "DE":
            continue
        if not a.startswith("ok "):
            run.violation("BBAN.from_components(components of a valid IBAN)", [cc, b], a, "the same BBAN",
                          "parse -> rebuild", op=f)
            continue
        nb = unhx(a[3:])
        if len(nb) != len(b) or any(nb[p] != b[p] for p in covered):
            run.violation("BBAN.from_components(components of a valid IBAN)", [cc, b], nb, b,
                          "rebuilt BBAN differs at a position covered by a component", op=f)


# --------------------------------------------------------------------------- C16
@prop("C16",
      rule="pairs drawn from {IBAN, BIC, BBAN, str} x {valid, invalid, equal, case/whitespace variants, "
           "prefix-related (8 vs 11 characters, ...XXX), neighbours in code-point order}: all six comparison "
           "operators, hash equality, dict lookup, sorted(); copy / deepcopy / pickle protocols 0-5 of valid and "
           "unvalidated objects incl. the BBAN held by an IBAN; pickles re-loaded in a fresh interpreter under "
           "another PYTHONHASHSEED; non-trivial = distinct pair / object"
           "; the same text under every pair of kinds of object; copies of objects holding a normalisation-sensitive character",
      note="comparison laws proved for the model; copy protocol proved from class facts of the live classes; "
           "CPython's copyreg/pickle are trusted and exercised")
def c16(run):
    import pickle
    import subprocess
    import sys as _sys
    from realops import IBAN, BIC, BBAN, REPO
    S = Streams(run.seed * 1000 + 16)
    r = S.r
    bics = sorted({e["bic"] for e in S.banks if e["bic"]})
    texts = []
    for _ in range(run.scale(60, 1500)):
        i = S.iban()
        b = r.choice(bics)
        texts += [("iban", i), ("iban", S.decorate(i)), ("iban", S.mutate(i)), ("bic", b), ("bic", b[:8]),
                  ("bic", b[:8] + "XXX"), ("bic", S.mutate(b)), ("bban:" + hx(i[:2]), i[4:]),
                  ("bban:" + hx("XX"), i[4:]), ("str", i), ("str", i.lower()), ("str", b), ("str", i[:-1]),
                  ("str", i + "0"), ("iban", i[:-1] + chr(ord(i[-1]) + 1)), ("str", ""), ("iban", "")]
    ops = []
    for _ in range(run.scale(2500, 80000)):
        a = r.choice(texts)
        b = r.choice(texts) if r.random() < 0.6 else (r.choice(["iban", "bic", "str", a[0]]), a[1])
        ops.append(["obj.cmp", a[0], hx(a[1]), b[0], hx(b[1])])
    # the same text carried by every pair of kinds of object (all three classes, a plain str, BBANs of the
    # text's own country, of another country of the table, and of an unknown one): swept completely
    for _ in range(run.scale(12, 200)):
        i = S.iban()
        other = r.choice([c for c in S.countries if c != i[:2]])
        kinds = ["iban", "bic", "str", "bban:" + hx(i[:2]), "bban:" + hx(other), "bban:" + hx("XX")]
        for t in (i[4:], i, r.choice(bics)):
            for k1 in kinds:
                for k2 in kinds:
                    ops.append(["obj.cmp", k1, hx(t), k2, hx(t)])
    for b8 in r.sample(bics, 40):
        for x, y in ((b8[:8], b8[:8] + "XXX"), (b8[:8] + "XXX", b8[:8])):
            for k1 in ("bic", "str"):
                for k2 in ("bic", "str"):
                    ops.append(["obj.cmp", k1, hx(x), k2, hx(y)])
    hows = ["copy", "deepcopy"] + ["pickle%d" % p for p in range(6)]
    objs = r.sample(texts, min(len(texts), run.scale(120, 2000)))
    # objects (never validated) whose text holds a character whose Unicode normal forms differ from it: all
    from streams import normalisation_sensitive
    for ch in normalisation_sensitive():
        for k, t in (("iban", "DE89" + ch + "370400440532013000"), ("bban:" + hx("DE"), "3704" + ch + "0440532013000"),
                     ("bic", "GENO" + ch + "DEM1GLS")):
            for how in ("copy", "deepcopy", "pickle2"):
                ops.append(["obj.copy", k, hx(t), how])
    for k, t in objs:
        if k == "str":
            continue
        for how in hows:
            ops.append(["obj.copy", k, hx(t), how])
    reals, model = run.correspond("values", ops)
    for f, a in zip(ops, reals):
        if f[0] == "obj.cmp":
            v = a.split(" ")[1:]
            eq = common.clean(unhx(f[2])) if f[1] != "str" else unhx(f[2])
            eq2 = common.clean(unhx(f[4])) if f[3] != "str" else unhx(f[4])
            want = [eq == eq2, eq != eq2, eq < eq2, eq <= eq2, eq > eq2, eq >= eq2, eq == eq2, eq == eq2]
            if v != ["T" if w else "F" for w in want]:
                run.violation("comparison operators / hash / dict", [f[1], unhx(f[2]), f[3], unhx(f[4])], a,
                              "those of the compact strings", "operators vs compact-string semantics", op=f)
        else:
            if not a.startswith("ok ") or a.split(" ")[1] in ("WRONG-CLASS", "BBAN-MISMATCH", "NOT-EQUAL", "BBAN-SHARED"):
                run.violation(f[3] + " of an object", [f[1], unhx(f[2])], a, "an equal object of the same class",
                              "copy/pickle round trip", op=f)
    # pickles (of objects that have been hashed) re-loaded in a fresh interpreter, other hash seed
    blob = []
    for k, t in objs[:40]:
        if k == "str":
            continue
        o = IBAN(t, allow_invalid=True) if k == "iban" else BIC(t, allow_invalid=True) if k == "bic" else \
            BBAN(unhx(k[5:]), t)
        hash(o)
        {o: 1}
        blob.append(pickle.dumps(o, 4))
    code = ("import sys, pickle; sys.path.insert(0, %r)\n"
            "bad = 0\n"
            "for b in pickle.loads(sys.stdin.buffer.read()):\n"
            "    o = pickle.loads(b)\n"
            "    if hash(o) != hash(str(o)) or {str(o): 1}.get(o) != 1 or o != str(o): bad += 1; print('BAD', type(o).__name__, repr(str(o)))\n"
            "sys.exit(1 if bad else 0)\n") % REPO
    env = dict(__import__("os").environ, PYTHONHASHSEED="4242")
    p = subprocess.run([_sys.executable, "-c", code], input=pickle.dumps(blob), capture_output=True, env=env)
    run.count(len(blob), tag="cross-process pickle")
    if p.returncode != 0:
        run.violation("pickle -> other process -> hash/dict lookup", [p.stdout.decode()[:300]],
                      "hash(obj) != hash(str(obj)) after unpickling in a fresh interpreter",
                      "hash of the compact string", "cross-process pickle", kind="history")


# --------------------------------------------------------------------------- C15 / C14
def call_pool(S, r, n):
    """A mixed pool of library calls (validation, generation, seeded random, lookups, failing calls)."""
    import natref
    pool = []
    de_banks = [e for e in S.banks_of("DE") if e.get("checksum_algo")]
    for _ in range(n):
        k = r.random()
        if k < 0.25:
            e = r.choice(de_banks)
            acct = "".join(r.choice(DIGITS) for _ in range(10))
            b = e["bank_code"] + acct
            pool.append(["iban.new", hx("DE" + iban_check_digits("DE", b) + b), "F", "T"])
        elif k < 0.35:
            e = r.choice(de_banks)
            acct = list("".join(r.choice(DIGITS) for _ in range(10)))
            acct[r.randrange(10)] = r.choice("A+ x")
            pool.append(["bban.national", hx("DE"), hx(e["bank_code"] + "".join(acct))])
        elif k < 0.45:
            m = r.choice(["02", "04", "07", "14", "16", "23", "25", "00", "03", "08", "21", "68", "76"])
            a = "".join(r.choice(DIGITS) for _ in range(10))
            if r.random() < 0.3:
                a = a[:r.randrange(10)] + r.choice("Xx-") + a[1:]
            pool.append(["algo.validate", hx("DE:" + m), "-", hx(a[:10])])
        elif k < 0.6:
            cc = r.choice(sorted(natref.NATIONAL))
            b = S.bban(cc).upper()
            if r.random() < 0.5:
                b = natref.make_valid(cc, b, r) or b
            pool.append(["iban.new", hx(cc + iban_check_digits(cc, b) + b), "F", r.choice("TF")])
        elif k < 0.7:
            i = S.iban(with_bank=True)
            pool.append(["bban.bank", hx(i[:2]), hx(i[4:])])
        elif k < 0.8:
            e = r.choice(S.banks)
            pool.append([r.choice(["bic.from_bank_code", "bic.candidates"]), hx(e["country_code"]), hx(e["bank_code"])])
        elif k < 0.85:
            e = r.choice(S.banks)
            if e["bic"]:
                pool.append(["bic.lookup", hx(e["bic"])])
        elif k < 0.93:
            cc = r.choice(S.countries)
            op = ["iban.random", hx(cc), str(r.randrange(10 ** 6)), r.choice("TF")]
            pos = S.table[cc].get("positions", {})
            if r.random() < 0.5 and pos:      # with a pinned component (conforming to its field)
                comp = r.choice(sorted(k for k in pos if k in ("bank_code", "branch_code", "account_code")) or ["-"])
                if comp != "-":
                    s_, e_ = pos[comp]
                    cls_ = S.classes(cc)[s_:e_]
                    op.append(comp + "=" + hx("".join(S.draw_class(c) for c in cls_)))
            pool.append(op)
        else:
            cc = r.choice(S.countries)
            pool.append(["iban.generate", hx(cc), hx("".join(r.choice(DIGITS) for _ in range(r.randint(0, 9)))),
                         hx("".join(r.choice(DIGITS + "A-") for _ in range(r.randint(0, 12)))), "-"])
    # one BBAN text carrying a listed bank code, looked up / checked / assembled under several countries
    # (what a country answers must not depend on what another country was asked about the same text)
    by_len = {}
    for cc in S.countries:
        by_len.setdefault(S.table[cc]["bban_length"], []).append(cc)
    groups = []
    for _ in range(max(3, n // 12)):
        cc = r.choice([c for c in S.countries if S.banks_of(c) and len(by_len[S.table[c]["bban_length"]]) > 1])
        b = S.bban_with_bank(cc).upper()
        if not b.isdigit():
            b = "".join(ch if ch in DIGITS else "7" for ch in b)
        others = [c for c in by_len[len(b)] if c != cc]
        order = [cc] + r.sample(others, min(len(others), 3))
        r.shuffle(order)
        g = [[r.choice(["bban.bank", "bban.bank", "bban.national", "iban.from_bban"]), hx(c2), hx(b)]
             for c2 in order + order[::-1]]
        groups.append(g)
        pool += g
    # per national algorithm: a malformed call (letter typed for a digit, truncated BBAN) followed by
    # well-formed ones of the same country (a failed call must leave nothing behind)
    for cc in sorted(natref.NATIONAL):
        pos = S.table[cc].get("positions", {})
        b = natref.make_valid(cc, S.bban(cc).upper(), r) or S.bban(cc).upper()
        comps = {k: b[pos[k][0]:pos[k][1]] for k in ("bank_code", "branch_code", "account_code") if k in pos}
        gen = lambda c: ["iban.generate", hx(cc), hx(c.get("bank_code", "")), hx(c.get("account_code", "")),
                         hx(c.get("branch_code", ""))]
        g = []
        for k in sorted(comps):          # a letter typed for a digit, in each supplied component in turn
            bad = dict(comps)
            i = r.randrange(len(bad[k]))
            bad[k] = bad[k][:i] + r.choice("OIl") + bad[k][i + 1:]
            g.append(gen(bad))
        g += [["bban.national", hx(cc), hx(b[: r.randrange(1, len(b))])], gen(comps),
             ["iban.new", hx(cc + iban_check_digits(cc, b) + b), "F", "T"],
             ["iban.random", hx(cc), str(r.randrange(1000)), "F"]]
        groups.append(g)
        pool += g
    call_pool.groups = groups
    # lookup sequences around bank codes whose first-listed entry is not primary
    firsts = {}
    for e in S.banks_of("DE"):
        firsts.setdefault(e["bank_code"], []).append(e)
    tricky = [c for c, l in firsts.items() if c and not l[0]["primary"] and any(x["primary"] for x in l)]
    for code in r.sample(tricky, min(len(tricky), 12)):
        b = code + "0000000000"
        pool += [["bban.bank", hx("DE"), hx(b)], ["bic.from_bank_code", hx("DE"), hx(code)]]
    return pool


def registry_fingerprint():
    from realops import registry, checksum
    import hashlib
    import json
    h = hashlib.sha256()
    for k in sorted(map(str, registry._registry)):
        v = registry._registry[k if k in registry._registry else eval(k)]
        h.update(k.encode())
        h.update(json.dumps(v, sort_keys=False, default=lambda o: getattr(o, "pattern", str(type(o)))).encode()
                 if not isinstance(v, dict) or all(isinstance(x, str) for x in v)
                 else repr([(kk, [id(e) for e in vv] if isinstance(vv, list) else sorted(map(str, vv)) if isinstance(vv, dict) else id(vv))
                            for kk, vv in v.items()]).encode())
    return h.hexdigest()


@prop("C15",
      rule="call histories (30-60 calls drawn with repetition from a mixed pool: validations with and without "
           "national validation, failing and malformed calls, generation, seeded random generation, lookups, "
           "lookup sequences around non-primary-first bank codes), each run in a fresh forked child; every "
           "outcome is compared with the outcome of the same call as the FIRST call of another fresh child; the "
           "registries are fingerprinted before/after and objects created before the history are re-read; "
           "non-trivial = distinct (history, position) "
           "; plus revisit histories (X, Y, X on every algorithm object, Y sometimes failing) judged by the published rule, and one BBAN text under two countries (accessors, bank lookup, national check); an existing object is re-read after being handed to every kind of call (own and other country, incl. the table countries pycountry does not know)",
      note="generic history theorem and its German-scratch instance proved; absence of hidden state in "
           "CPython/third-party modules and immutability of the registries are checked dynamically")
def c15(run):
    import sched
    S = Streams(run.seed * 1000 + 15)
    r = S.r
    pool = call_pool(S, r, run.scale(260, 4000))
    ref = {}

    def first_call(op):
        key = "\t".join(op)
        if key not in ref:
            ref[key] = sched.in_child(lambda: real(op))
        return ref[key]

    n_hist = run.scale(24, 400)
    for hno in range(n_hist):
        hist = [r.choice(pool) for _ in range(r.randint(30, 60))]
        some = call_pool.groups if hno % 3 == 1 else r.sample(call_pool.groups, min(4, len(call_pool.groups)))
        for g in r.sample(some, len(some)):      # grouped calls stay adjacent; every third history has all
            at = r.randrange(len(hist) + 1)
            hist[at:at] = g
        if hno % 3 == 0:       # repeat a few calls, interleaved with failing ones
            hist += hist[:10]

        def play():
            from realops import IBAN, BIC
            objs = [IBAN("DE89370400440532013000"), BIC("GENODEM1GLS"), IBAN("XX", allow_invalid=True)]
            snap = [(str(o), repr(sorted(o.__dict__.items(), key=str))) for o in objs]
            fp0 = registry_fingerprint()
            outs = [real(op) for op in hist]
            fp1 = registry_fingerprint()
            snap1 = [(str(o), repr(sorted(o.__dict__.items(), key=str))) for o in objs]
            return outs, fp0 == fp1, snap == snap1
        res = sched.in_child(play)
        if res is None:
            run.notes.append("history child died")
            continue
        outs, reg_same, objs_same = res
        if not reg_same:
            run.violation("bundled registries", [[readable_op(o) for o in hist][:8]], "registry fingerprint changed",
                          "unchanged registries", "fingerprint before/after a history", kind="history", history=hist)
        if not objs_same:
            run.violation("previously created objects", [], "an object changed", "unchanged objects",
                          "objects re-read after a history", kind="history", history=hist)
        for pos, (op, out) in enumerate(zip(hist, outs)):
            want = first_call(op)
            run.count(1, key=(hno, pos), tag="history call " + op[0])
            if out != want:
                # shrink: shortest prefix + this call that still differs
                lo = 0
                for start in range(pos, -1, -1):
                    h2 = hist[start:pos] + [op]
                    o2 = sched.in_child(lambda h2=h2: [real(x) for x in h2])
                    if o2 and o2[-1] != want:
                        lo = start
                        break
                run.violation("call after a history", [readable_op(x) for x in hist[lo:pos]] + [readable_op(op)], out,
                              want, "same call as the first call of a fresh process", kind="history",
                              history=hist[lo:pos] + [op], op=op, expected_line=want)
                break
    # revisits: a call, another call routed to the same algorithm object, the first call again
    from realops import checksum as _cs
    tri = []
    for key in sorted(_cs.algorithms):
        for _ in range(run.scale(150, 3000) if key.startswith("DE:") else run.scale(20, 300)):
            if key.startswith("DE:"):
                x, y = ("".join(r.choice(DIGITS) for _ in range(10)) for _ in range(2))
                if r.random() < 0.5:
                    x = x[:8] + x[8] * 2
                if r.random() < 0.3:      # the call in between fails (a letter among the digits)
                    p = r.randrange(10)
                    y = y[:p] + r.choice("AZ-") + y[p + 1:]
                tri.append([["algo.validate", hx(key), "-", hx(v)] for v in (x, y, x)])
            else:
                cc = key[:2]
                if cc not in S.table:
                    continue
                x, y = S.bban(cc).upper(), S.bban(cc).upper()
                tri.append([["bban.national", hx(cc), hx(v)] for v in (x, y, x)])
    # one BBAN text under two countries (A, B, A, B): accessors, bank lookup, national check
    xops, xmeta = cross_country_ops(
        S, lambda cc, b: [["iban.parts", hx(cc + iban_check_digits(cc, b) + b)], ["bban.bank", hx(cc), hx(b)],
                          ["bban.national", hx(cc), hx(b)]])
    xseq = [f for f, m in zip(xops, xmeta) if m is not None]
    flat = [op for t in tri for op in t]
    outs = sched.in_child(lambda: ([real(op) for op in flat], [real(op) for op in xseq]))
    if outs is None:
        run.notes.append("revisit child died")
    else:
        o1, o2 = outs
        import natref as _nr
        reported = 0
        for k, t in enumerate(tri):
            a, b_, c = o1[3 * k: 3 * k + 3]
            run.count(3, key=("revisit", k), tag="revisit " + t[0][0])
            if a != c:
                want = first_call(t[0])
                run.violation("call after a history", [readable_op(x) for x in t], c, want,
                              "the same call gave another outcome two calls earlier in the same process",
                              kind="history", history=t, op=t[0], expected_line=want)
                continue
            # a verdict that the published rule contradicts although the call is right when made first:
            # some earlier call of the history left state behind (find a short history that shows it)
            for j, (op, out) in enumerate(zip(t, (a, b_, c))):
                if op[0] != "algo.validate" or reported >= 3 or not unhx(op[3]).isdigit():
                    continue
                w = _nr.de(unhx(op[1])[3:], unhx(op[3]))
                if not isinstance(w, bool) or (out == "ok T") == w:
                    continue
                want = first_call(op)
                if want == out:
                    continue
                idx = 3 * k + j
                lo, hi = 0, idx            # smallest suffix flat[lo:idx] that still spoils the call
                while lo < hi:
                    mid = (lo + hi + 1) // 2
                    h2 = flat[mid:idx] + [op]
                    o3 = sched.in_child(lambda h2=h2: [real(x) for x in h2][-1])
                    if o3 is not None and o3 != want:
                        lo = mid
                    else:
                        hi = mid - 1
                hist2 = flat[lo:idx] + [op]
                if len(hist2) > 40:
                    hist2 = hist2[:1] + hist2[-39:]
                reported += 1
                run.violation("call after a history", [readable_op(x) for x in hist2[-6:]], out, want,
                              "same call as the first call of a fresh process (the published rule agrees with "
                              "the first-call outcome)", kind="history", history=hist2, op=op, expected_line=want)
        for k in range(0, len(xseq) - 11, 12):      # 4 visits x 3 kinds per (A, B, text)
            grp_ops, grp_out = xseq[k:k + 12], o2[k:k + 12]
            for j in range(6):
                run.count(1, key=("xc", k, j), tag="two countries " + grp_ops[j][0])
                want = first_call(grp_ops[j]) if j >= 3 else grp_out[j]
                for pos in ([j, j + 6] if j >= 3 else [j + 6]):
                    if grp_out[pos] != want:
                        want = first_call(grp_ops[j])
                        run.violation("call after a history", [readable_op(x) for x in grp_ops[:pos + 1]],
                                      grp_out[pos], want,
                                      "same call as the first call of a fresh process (one BBAN text used under "
                                      "two countries)", kind="history", history=grp_ops[:pos + 1],
                                      op=grp_ops[j], expected_line=want)
                        break
    # objects that exist are not changed by later calls - not even by calls that are handed the object itself
    import pycountry as _pc
    special = [cc for cc in S.countries if _pc.countries.get(alpha_2=cc) is None]
    bases = [S.iban(cc) for cc in dict.fromkeys(special + ["DE", "GB", "NO", "PL", "SI", "FR", "MC"] +
                                                  r.sample(S.countries, run.scale(6, 60)))]
    pops = [["obj.persist", hx(i), hx(o)] for i in bases for o in dict.fromkeys(special + ["GB", "DE", "ZZ"])
            if o != i[:2]]
    pouts = sched.in_child(lambda: [real(op) for op in pops])
    for op, out in zip(pops, pouts or []):
        run.count(1, key=("persist",) + tuple(op), tag="object re-read after being handed to other calls")
        if out != "ok SAME":
            run.violation("an existing IBAN object re-read after calls that were handed it",
                          [unhx(op[1]), "other country " + unhx(op[2])], out[:300], "ok SAME",
                          "observation before / after (constructors of all classes under its own and another "
                          "country, from_bban, copies, comparisons, validation, lookups)", kind="history", op=op,
                          expected_line="ok SAME")
            break
    run.samples.append({"history": [readable_op(o) for o in pool[:6]]})


def process_configs():
    """(name, interpreter flags, environment) of the process configurations a result must not depend on."""
    base = dict(os.environ)
    out = []
    for hs in ("0", "1", "12345"):
        out.append(("PYTHONHASHSEED=" + hs, [], dict(base, PYTHONHASHSEED=hs)))
    out.append(("python -O", ["-O"], dict(base, PYTHONHASHSEED="0")))
    out.append(("python -OO", ["-OO"], dict(base, PYTHONHASHSEED="0")))
    c_locale = dict(base, PYTHONHASHSEED="0", LC_ALL="C", LANG="C", PYTHONUTF8="0", PYTHONCOERCECLOCALE="0",
                    PYTHONIOENCODING="utf-8")
    out.append(("LC_ALL=C PYTHONUTF8=0 PYTHONCOERCECLOCALE=0", [], c_locale))
    return out


def readable_op(op):
    from checklib import readable
    return op[0] + "(" + ", ".join(readable(x) for x in op[1:]) + ")"


def effects_dirty():
    """Names of the effect-probe lists (regenerated on this run) that are not empty."""
    import re as _re
    import checklib as _cl
    try:
        eff = open(os.path.join(_cl.LEAN, "SV", "Gen", "Effects.lean"), encoding="utf-8").read()
    except OSError:
        return []
    return [n for n in ("sharedWritesAfterImport", "moduleStateWrites", "sharedScratch")
            if _re.search(r"def " + n + r" : List String := \[\"", eff)]


def thread_search_if_dirty(run, pairs):
    """The properties about single calls are stated for every use of the library.  When the effect probe of
    this run saw library calls write state that all threads share (never on the unchanged tree), the
    property's own calls are also run in two threads under the line-level scheduler - warm, and as first
    calls of a fresh interpreter - and a schedule whose results differ from running alone is reported."""
    dirty = effects_dirty()
    if not dirty or run.violations:
        return
    import sched
    run.notes.append("effect probe: " + ", ".join(dirty) + " non-empty -> the property's calls under the "
                     "line-level thread scheduler")
    for ops in pairs:
        n, found = sched.search(ops, limit=run.scale(120, 1000))
        run.count(n, key=("threads",) + tuple(map(tuple, ops)), tag="schedules (shared writes seen)")
        if found:
            sch, got, want = found
            run.violation("two concurrent calls", [readable_op(o) for o in ops], got, want,
                          "line-level schedule search on the real code (the effect probe saw shared writes)",
                          kind="schedule", ops=ops, schedule=sch, expected_alone=want)
            return
    for ops in pairs[:2]:
        n, found = sched.search_cold(ops, limit=run.scale(32, 400))
        run.count(n, key=("threads-cold",) + tuple(map(tuple, ops)), tag="cold schedules (shared writes seen)")
        if found:
            sch, got, want = found
            run.violation("two concurrent first calls in a fresh process", [readable_op(o) for o in ops], got,
                          want, "line-level schedule search, every schedule in a fresh interpreter",
                          kind="schedule", ops=ops, schedule=sch, expected_alone=want, cold=True)
            return


@prop("C14",
      rule="pairs of calls routed to the same algorithm object (methods whose code reads the scratch cell: 02, "
           "04, 07, 14, 16, 23, 25; an accepting and a rejecting account each), pairs of first lookups, and two "
           "lookups of the SAME (country, bank code) pair for the pairs with the most entries, run in "
           "two real threads under a deterministic line-level scheduler (sys.settrace hand-off inside schwifty/); "
           "all single-preemption schedules up to a budget, each in a forked child; a schedule whose results "
           "differ from running alone is the replay; non-trivial = distinct (pair, schedule) "
           "; directed by the effect probe (only when it saw writes after import): mixed pairs of ordinary calls, a repeated call against a flood of 6000 distinct calls (preempted after each line), and cold-start pairs with every schedule in a fresh interpreter"
           "; a failing call next to an ordinary call (a schedule that does not return is a violation); two concurrent generations; one account per distinct outcome of every method from a worker thread vs the main thread",
      note="non-interference proved for the per-thread-state model; effect probe ties it to the code; real "
           "preemption finer than a source line, the free-threaded build and third-party modules are not modelled")
def c14(run):
    import natref
    import sched
    S = Streams(run.seed * 1000 + 14)
    r = S.r
    pairs = []
    import re as _re
    from realops import checksum
    registered = sorted(k[3:] for k in checksum.algorithms if k.startswith("DE:"))
    # methods whose code reads the scratch cell; methods the translator or a broken theorem points at
    # (e.g. "DE class Algorithm13: weights is a cycle", theorem de13); two more drawn with the seed
    named = _re.findall(r"Algorithm(\d\d)", " ".join(getattr(run, "gen_problems", []))) + \
        _re.findall(r"\.de(\d\d)\b", " ".join(getattr(run, "broken", [])))
    base = ["02", "04", "07", "14", "16", "23", "25"]
    directed = [m for m in dict.fromkeys(named) if m in registered]
    extra = r.sample([m for m in registered if m not in base + directed and m != "09"], 2)
    for m in directed + base + extra:
        acc = rej = None
        for _ in range(4000):
            a = "".join(r.choice(DIGITS) for _ in range(10))
            v = natref.de(m, a)
            if v is True and acc is None:
                acc = a
            if v is False and rej is None:
                rej = a
            if acc and rej:
                break
        if acc and rej:
            pairs.append([["algo.validate", hx("DE:" + m), "-", hx(rej)], ["algo.validate", hx("DE:" + m), "-", hx(acc)]])
            banks = [e for e in S.banks_of("DE") if e.get("checksum_algo") == m]
            if banks:
                e = banks[0]
                ops = []
                for a in (rej, acc):
                    b = e["bank_code"] + a
                    ops.append(["iban.new", hx("DE" + iban_check_digits("DE", b) + b), "F", "T"])
                pairs.append(ops)
    # one account per DISTINCT outcome of every method when called alone (accepted, rejected by comparison,
    # rejected by an explicit raise, …): (a) the same call made from a worker thread instead of the main
    # thread must give the same outcome; (b) for the scratch-reading methods, each non-accepting
    # representative is paired with an accepting one under the scheduler
    def reps_and_thread_outcomes():
        import threading
        out = {}
        rr = __import__("random").Random(run.seed * 77 + 5)
        for m in registered:
            seen = {}
            for _ in range(400):
                a = "".join(rr.choice(DIGITS) for _ in range(10))
                if rr.random() < 0.3:
                    a = "000" + a[3:]
                o = real(["algo.validate", hx("DE:" + m), "-", hx(a)])
                seen.setdefault(o, a)
            res = {}
            for o, a in seen.items():
                box = {}
                t = threading.Thread(target=lambda: box.setdefault("v", real(["algo.validate", hx("DE:" + m), "-", hx(a)])))
                t.start()
                t.join(20)
                res[a] = (o, box.get("v", "no result"))
            out[m] = res
        return out
    per_method = sched.in_child(reps_and_thread_outcomes, timeout=120) or {}
    for m, res in sorted(per_method.items()):
        for a, (main_o, thread_o) in sorted(res.items()):
            run.count(2, key=("thread-identity", m, a), tag="main thread vs worker thread")
            if main_o != thread_o:
                run.violation("the same call from a worker thread", [readable_op(["algo.validate", hx("DE:" + m), "-", hx(a)])],
                              thread_o, main_o, "outcome in the main thread of the same process", kind="schedule",
                              ops=[["algo.validate", hx("DE:" + m), "-", hx(a)]], schedule=[], expected_alone=[main_o])
                break
    for m in base:
        res = per_method.get(m, {})
        acc_rep = next((a for a, (o, _) in sorted(res.items()) if o == "ok T"), None)
        for a, (o, _) in sorted(res.items()):
            if acc_rep and o not in ("ok T", "ok F"):
                pairs.append([["algo.validate", hx("DE:" + m), "-", hx(a)], ["algo.validate", hx("DE:" + m), "-", hx(acc_rep)]])
    # first lookups in a fresh process
    pairs.append([["bic.from_bank_code", hx("DE"), hx("43060967")], ["bban.bank", hx("DE"), hx("370400440532013000")]])
    pairs.append([["iban.new", hx("DE65100307000100000111"), "F", "T"], ["bic.candidates", hx("DE"), hx("10030700")]])
    # a call that FAILS (unknown bank code, unknown country) next to an ordinary call: whatever the failing
    # call leaves behind (a lock, a half-built table) must not keep the other from returning
    pairs.append([["bic.from_bank_code", hx("DE"), hx("00000000")], ["iban.new", hx("DE65100307000100000111"), "F", "T"]])
    pairs.append([["iban.new", hx("ZZ89370400440532013000"), "F", "F"], ["bic.from_bank_code", hx("DE"), hx("43060967")]])
    # two generations at once (same country with different values, and two countries)
    gen_pairs = [[["iban.generate", hx("DE"), hx("37040044"), hx("532013000"), hx("")],
                  ["iban.generate", hx("DE"), hx("43060967"), hx("1234567890"), hx("")]],
                 [["iban.generate", hx("DE"), hx("37040044"), hx("532013000"), hx("")],
                  ["iban.generate", hx("ES"), hx("2100"), hx("0200051332"), hx("0418")]]]
    if run.tier != "thorough":
        nd = 2 * len(directed)
        pairs = pairs[:nd] + pairs[nd:: 2] + pairs[-2:]
    pairs += gen_pairs
    # two lookups of the SAME pair at once, for the pairs with the most entries (the list of entries of a
    # pair is shared by all callers)
    multi = {}
    for e in S.banks:
        if e["bank_code"] and e["country_code"] in S.table:
            multi.setdefault((e["country_code"], e["bank_code"]), []).append(e)
    big = sorted((k for k, v in multi.items() if len(v) > 1), key=lambda k: (-len(multi[k]), k))
    for k in big[:1] + [k for k in big[1:] if k[0] != big[0][0]][:1]:
        pairs.append([["bic.candidates", hx(k[0]), hx(k[1])], ["bic.from_bank_code", hx(k[0]), hx(k[1])]])
        fillb = list(S.bban(k[0]).upper())
        spec = S.table[k[0]]
        pos = 0
        for comp in spec.get("bic_lookup_components", ["bank_code"]):
            s_, e_ = spec.get("positions", {}).get(comp, [0, 0])
            fillb[s_:e_] = list(k[1][pos:pos + e_ - s_])
            pos += e_ - s_
        pairs.append([["bban.bank", hx(k[0]), hx("".join(fillb))], ["bic.candidates", hx(k[0]), hx(k[1])]])
    budget = run.scale(70, 2000)
    total = 0
    for ops in pairs:
        n, found = sched.search(ops, limit=budget)
        total += n
        run.count(n, key=tuple(map(tuple, ops)), tag="schedules " + ops[0][0])
        for k in range(n):
            run.distinct.add((tuple(map(tuple, ops)), k))
        if found:
            sch, got, want = found
            run.violation("two concurrent calls", [readable_op(o) for o in ops], got, want,
                          "line-level schedule search on the real code", kind="schedule", ops=ops,
                          schedule=sch, expected_alone=want)
    # the effect probe saw the library write shared state after import (lazily built tables, caches …):
    # look for an interleaving of the FIRST uses in a process, every schedule in a fresh interpreter
    dirty = effects_dirty()
    if dirty:
        run.notes.append("effect probe: " + ", ".join(dirty) + " non-empty -> cold-start schedule search")
        bad_be = "BE" + iban_check_digits("BE", "539007547035") + "539007547035"
        bad_es = "ES" + iban_check_digits("ES", "21000418460200051332") + "21000418460200051332"
        cold = [[["iban.new", hx(bad_be), "F", "T"], ["iban.new", hx(bad_es), "F", "T"]],
                [["iban.generate", hx("BE"), hx("539"), hx("0075470"), hx("")],
                 ["iban.new", hx(bad_be), "F", "T"]],
                [["bic.from_bank_code", hx("DE"), hx("43060967")], ["bban.bank", hx("DE"), hx("370400440532013000")]],
                [["iban.new", hx("DE65100307000100000111"), "F", "T"], ["bic.candidates", hx("DE"), hx("10030700")]]]
        # two ordinary calls of different kinds / countries at the same time (state that one call parks in a
        # shared object between two of its own steps)
        v1, v2 = S.iban("DE"), S.iban("GB")
        mixed = [[["iban.from_bban", hx("DE"), hx(v1[4:])], ["iban.from_bban", hx("GB"), hx(v2[4:])]],
                 [["iban.new", hx(v1), "F", "F"], ["iban.new", hx(v2), "F", "F"]],
                 [["iban.generate", hx("BE"), hx("539"), hx("0075470"), hx("")], ["iban.new", hx(v1), "F", "T"]]]
        stop = False
        for ops in mixed:
            n, found = sched.search(ops, limit=run.scale(120, 1000))
            total += n
            run.count(n, key=("mixed",) + tuple(map(tuple, ops)), tag="schedules " + ops[0][0])
            if found:
                sch, got, want = found
                run.violation("two concurrent calls", [readable_op(o) for o in ops], got, want,
                              "line-level schedule search on the real code", kind="schedule", ops=ops,
                              schedule=sch, expected_alone=want)
                stop = True
                break
        # a module-level container is written by library calls: one call that is repeated, against a flood
        # of distinct calls on the same algorithm object (bounded caches evict; an eviction between a
        # membership test and the read is a lost entry)
        if "moduleStateWrites" in dirty and not stop:
            for m in (directed + base)[:3]:
                acct = "".join(r.choice(DIGITS) for _ in range(10))
                one = ";".join(["algo.validate", hx("DE:" + m), "-", hx(acct)])
                ops = [["seq", one + "|" + one], ["algo.validate_many", hx("DE:" + m), "6000", str(run.seed)]]
                n, found = sched.search_flood(ops, budget_s=run.scale(40, 600))
                total += n
                run.count(n, key=("flood", m), tag="flood schedules")
                if found:
                    sch, got, want = found
                    run.violation("a repeated call against a flood of other calls on the same object",
                                  [readable_op(["algo.validate", hx("DE:" + m), "-", hx(acct)]) + " x2",
                                   "6000 validations of distinct accounts, method " + m], got, want,
                                  "line-level schedule search on the real code", kind="schedule", ops=ops,
                                  schedule=sch, expected_alone=want)
                    break
        for ops in cold:
            n, found = sched.search_cold(ops, limit=run.scale(32, 400))
            total += n
            run.count(n, key=("cold",) + tuple(map(tuple, ops)), tag="cold schedules " + ops[0][0])
            if found:
                sch, got, want = found
                run.violation("two concurrent first calls in a fresh process", [readable_op(o) for o in ops], got,
                              want, "line-level schedule search, every schedule in a fresh interpreter",
                              kind="schedule", ops=ops, schedule=sch, expected_alone=want, cold=True)
                break
    run.samples.append({"pair": [readable_op(o) for o in pairs[0]], "schedules_run": total})


# --------------------------------------------------------------------------- C13
def recorded_random(cc, seed, use_registry, pinned):
    """Run IBAN.random on the real code, recording what the random sources delivered.
    -> (canonical outcome line, bank index or None, list of raw xeger outputs)"""
    import random as _random
    import schwifty.bban as bbanmod
    from realops import IBAN, outcome
    log = {"bank": None, "xegers": []}

    class Rec(_random.Random):
        def choice(self, seq):
            import sys as _s
            i = self._randbelow(len(seq))
            fr = _s._getframe(1)
            if fr.f_code.co_filename.endswith("bban.py") and seq and isinstance(seq[0], dict):
                log["bank"] = i
            return seq[i]

    orig = bbanmod.Rstr

    class RecRstr(orig):
        def xeger(self, pattern):
            out = super().xeger(pattern)
            log["xegers"].append(out)
            return out
    bbanmod.Rstr = RecRstr
    try:
        line = outcome(lambda: IBAN.random(cc, random=Rec(seed), use_registry=use_registry, **pinned),
                       lambda o: hx(str(o)))
    finally:
        bbanmod.Rstr = orig
    return line, log["bank"], log["xegers"]


@prop("C13",
      rule="every country x seeds x {registry, no registry} x subsets of pinned components (conforming, short, "
           "over-long, combined-width bank codes): the real call with a recording generator (bank index, raw xeger "
           "strings) and the model evaluated on that choice record; result valid or the overflow error, pinned "
           "components read back, listed-bank membership, equal results for equal seeds, also in fresh "
           "interpreters under other PYTHONHASHSEEDs and after other calls; the no-country form; non-trivial = "
           "distinct (country, seed, mode, pinned)"
           "; seeded draws compared across process configurations (hash seeds, -O, -OO, C locale without UTF-8 mode)",
      note="validity/error/determinism, pinned read-back and listed-bank membership proved on the choice-record "
           "model; random.Random, rstr.xeger and the recording wrapper are trusted; cross-process reproducibility "
           "is a dynamic check")
def c13(run):
    import subprocess
    import sys as _sys
    from random import Random
    from realops import IBAN, REPO, exceptions, registry_lines
    S = Streams(run.seed * 1000 + 13)
    r = S.r
    ops, expect, meta = [], [], []
    seeds = run.scale(3, 40)
    full_code = {cc for cc in S.countries if S.banks_of(cc) and all(e["bank_code"] for e in S.banks_of(cc))}
    for cc in S.countries:
        spec = S.table[cc]
        pos = spec.get("positions", {})
        ops += registry_lines(S.banks_of(cc))
        expect += [None] * (len(ops) - len(expect))
        meta += [None] * (len(ops) - len(meta))
        for sd in range(seeds):
            seed = run.seed * 100003 + sd * 7 + len(cc)
            for use_reg in (True, False):
                pinned = {}
                if pos and r.random() < 0.6:
                    for k in r.sample(sorted(pos), r.randint(1, min(2, len(pos)))):
                        if k == "national_checksum_digits":
                            continue
                        w = pos[k][1] - pos[k][0]
                        cls = [c for n, c in S.spec_items(cc) for _ in range(n)][pos[k][0]:pos[k][1]]
                        mode = r.random()
                        # shorter values are zero-padded on the left: conforming only in all-numeric fields
                        numeric = all(c == "n" for c in cls)
                        guarded = k in ("bank_code", "branch_code", "account_code")   # fields with a length guard
                        if mode < 0.6:
                            n = w
                        elif mode < 0.85:
                            n = r.randint(1, w) if numeric else w
                        else:
                            n = w + 1 if guarded else w
                        pinned[k] = "".join(S.draw_class(cls[i % len(cls)] if cls else "n") for i in range(n))
                line, bank, xs = recorded_random(cc, seed, use_reg, pinned)
                ops.append(["iban.random_model", hx(cc), "T" if use_reg else "F", "-" if bank is None else str(bank),
                            ",".join(hx(x) for x in xs) if xs else "none"] + [k + "=" + hx(v) for k, v in pinned.items()])
                expect.append(line)
                meta.append((cc, seed, use_reg, pinned))
    from corr import run_driver
    model = run_driver(ops)
    for f, line, m, mo in zip(ops, expect, meta, model):
        if m is None:
            continue
        cc, seed, use_reg, pinned = m
        run.count(1, key=(cc, seed, use_reg, tuple(sorted(pinned.items()))), tag="random " + line.split(" ")[0])
        run.traces += 1
        args = [cc, "seed=%d" % seed, "use_registry=%s" % use_reg, pinned]
        if mo != line:
            run.disagreements.append({"stream": "random", "op": f, "implementation": line, "model": mo,
                                      "readable": args})
        if line.startswith("crash") or (line.startswith("err") and line != "err GenerateRandomOverflowError"):
            run.violation("IBAN.random", args, line, "a valid IBAN or GenerateRandomOverflowError",
                          "outcome class", op=["iban.random", hx(cc), str(seed), "T" if use_reg else "F"] +
                          [k + "=" + hx(v) for k, v in pinned.items()])
            continue
        rop = ["iban.random", hx(cc), str(seed), "T" if use_reg else "F"] + [k + "=" + hx(v) for k, v in pinned.items()]
        if line.startswith("ok "):
            i = unhx(line[3:])
            if i[:2] != cc or real(["iban.new", hx(i), "F", "F"]) != "ok " + hx(i):
                run.violation("IBAN.random", args, line, "a valid IBAN of the requested country", "validity", op=rop)
            pos = S.table[cc].get("positions", {})
            b = i[4:]
            for k, v in pinned.items():
                w = pos[k][1] - pos[k][0]
                got = b[pos[k][0]:pos[k][1]]
                want = common.clean(v).zfill(w)
                if k == "bank_code" and "branch_code" in pos and "branch_code" not in pinned and \
                        len(v) == w + pos["branch_code"][1] - pos["branch_code"][0]:
                    got = got + b[pos["branch_code"][0]:pos["branch_code"][1]]
                    want = common.clean(v)
                if got != want:
                    run.violation("IBAN.random", args, f"{k} = {got!r}", f"{want!r}", "pinned component must appear unchanged",
                                  op=rop)
            if use_reg and cc in full_code and not pinned and real(["bban.bank", hx(cc), hx(b)]).startswith("ok None"):
                run.violation("IBAN.random", args, line, "an IBAN of a listed bank", "listed-bank membership", op=rop)
        again = real(rop)
        if again != line:
            run.violation("IBAN.random", args, again, line, "same seed, second call in the same process",
                          kind="history", op=rop, expected_line=line)
    # pinned values that do NOT fit their field (wrong class, too wide, Unicode digits, blanks): raising is
    # fine, but whatever is returned must still be a valid IBAN of the country - never an invalid object
    digits_u = U()[0]
    for cc in (S.countries if run.tier == "thorough" else r.sample(S.countries, 25) + ["DE", "NL", "BG", "HU", "MU"]):
        pos = S.table[cc].get("positions", {})
        if not pos:
            continue
        for _ in range(run.scale(3, 30)):
            k = r.choice(sorted(pos))
            w = pos[k][1] - pos[k][0]
            cls = [c for n, c in S.spec_items(cc) for _ in range(n)][pos[k][0]:pos[k][1]] or ["n"]
            how = r.randrange(5)
            if how == 0:      # a character of another class
                v = [S.draw_class(c) for c in cls]
                i = r.randrange(len(v))
                v[i] = r.choice(UPPER) if cls[i] == "n" else r.choice(DIGITS) if cls[i] == "a" else r.choice("-_.?")
                v = "".join(v)
            elif how == 1:    # one character too wide
                v = "".join(S.draw_class(c) for c in cls) + S.draw_class(cls[-1])
            elif how == 2:    # non-ASCII digits
                v = "".join(r.choice(digits_u) for _ in range(w))
            elif how == 3:    # a BIC-like / word value
                v = r.choice(["COBADEFF", "EURO", "ABC", "12345ABCDE", "X"])
            else:             # much too wide
                v = "".join(S.draw_class(cls[0]) for _ in range(w + r.randint(2, 6)))
            for use_reg in (True, False):
                rop = ["iban.random", hx(cc), str(run.seed * 17 + _ ), "T" if use_reg else "F", k + "=" + hx(v)]
                line = real(rop)
                run.count(1, key="\t".join(rop), tag="ill-formed pin -> " + line.split(" ")[0])
                if line.startswith("ok "):
                    i = unhx(line[3:])
                    if i[:2] != cc or real(["iban.new", hx(i), "F", "F"]) != "ok " + hx(i):
                        run.violation("IBAN.random", [cc, "use_registry=%s" % use_reg, {k: v}], line,
                                      "a valid IBAN of the country, or an error", "ill-formed pinned value",
                                      op=rop, expected_line="err")
    # registry entries that do not fit their country's bank-identifying field (none on the pinned tree):
    # force the draw onto each of them
    import random as _random
    for kind, item, why in data_audit(S):
        if kind != "bank" or item["country_code"] not in S.table:
            continue
        cc = item["country_code"]
        idx = S.banks_of(cc).index(item)

        class Forced(_random.Random):
            def choice(self, seq):
                i = self._randbelow(len(seq))
                if seq and isinstance(seq[0], dict):
                    return seq[idx]
                return seq[i]
        from realops import outcome
        line = outcome(lambda: IBAN.random(cc, random=Forced(1)), lambda o: hx(str(o)))
        ok = line == "err GenerateRandomOverflowError" or (
            line.startswith("ok ") and real(["iban.new", line[3:], "F", "F"]) == line)
        run.count(1, tag="forced draw on an audited entry")
        if not ok:
            run.violation("IBAN.random (registry draw)", [cc, {k: item.get(k) for k in ("bank_code", "bic", "name")}],
                          line, "a valid IBAN or GenerateRandomOverflowError",
                          "registry draw forced onto the bank entry the data audit flagged (" + why + ")",
                          kind="config")
    # reproducibility across processes / hash seeds; the no-country form
    # every country that has registry entries (the registry-mode draw depends on the order of the bank
    # list, which must not depend on the hash seed), plus a sample of the others
    with_banks = [cc for cc in S.countries if S.banks_of(cc)]
    sample = S.countries if run.tier == "thorough" else \
        with_banks + r.sample([c for c in S.countries if c not in with_banks], 6)
    code = ("import sys; sys.path.insert(0, %r)\n"
            "from random import Random\nfrom schwifty import IBAN\n"
            "for line in sys.stdin.read().split():\n"
            "    cc, seed, ur = line.split(',')\n"
            "    try: print(cc, seed, ur, IBAN.random(cc if cc != '-' else '', random=Random(int(seed)), use_registry=ur == 'T'))\n"
            "    except Exception as e: print(cc, seed, ur, type(e).__name__)\n") % REPO
    inp = "\n".join(f"{cc},{run.seed * 31 + k},{ur}" for cc in sample + ["-"] for k in range(3) for ur in "TF")
    outs = []
    for name, flags, env in process_configs():
        p = subprocess.run([_sys.executable] + flags + ["-c", code], input=inp.encode(), capture_output=True,
                           env=env)
        outs.append(p.stdout.decode(errors="replace") or ("no output: " + p.stderr.decode(errors="replace")[-200:]))
        run.count(len(inp.split()), tag="cross-process draw (" + name + ")")
    if len(set(outs)) != 1:
        k = next(j for j, o in enumerate(outs) if o != outs[0])
        a, b = outs[0].splitlines(), outs[k].splitlines()
        diff = next(((x, y) for x, y in zip(a, b) if x != y), (a[0] if a else "", b[0] if b else ""))
        run.violation("IBAN.random in fresh interpreters", [diff[0].split(" ")[:3], process_configs()[k][0]],
                      diff[1][:200], diff[0][:200],
                      "equal seeds in fresh interpreters under other process configurations (hash seed, -O, -OO, "
                      "C locale without UTF-8 mode)", kind="config")
    for l in outs[0].splitlines():
        parts = l.split(" ")
        if not (len(parts[3]) > 8 or parts[3] == "GenerateRandomOverflowError"):
            run.violation("IBAN.random", parts[:3], parts[3], "a valid IBAN or the overflow error", "subprocess draw")


# --------------------------------------------------------------------------- C03
@prop("C03",
      rule="valid IBANs of every country (random, letter-rich where the structure allows letters, with registry "
           "banks): every position >= 2 x same-kind replacement characters (quick: a sample of positions and "
           "characters, thorough: all) and every adjacent same-kind transposition incl. the country letters and "
           "the check-digit/BBAN boundary; interleaved with failing from_bban / generate calls; expected: "
           "rejected; non-trivial = distinct mutated text "
           "; plus all (country literal, check-digit literal) pairs of the source, Unicode decimal digits / non-ASCII and case-related letters as same-kind substitutions",
      note="detection theorems proved on the model's arithmetic for all lengths; model = code by the C01 "
           "correspondence and by this stream")
def c03(run):
    import unicodedata
    S = Streams(run.seed * 1000 + 3)
    r = S.r
    uni_digits = [d for d in U()[0] if not d.isascii()]
    uni_letters = [chr(c) for c in range(0xC0, 0x3000) if chr(c).isalpha()][::7] + U()[2][:40]
    from streams import CASE_RELATED
    case_rel = [x for x in CASE_RELATED() if x.isalpha()]
    texts, ops = [], []
    per = run.scale(3, 50)
    for cc in S.countries:
        for j in range(per):
            if j % 3 == 2:      # letter-rich: long numeric expansions
                b = "".join((r.choice(UPPER) if k == "c" and r.random() < 0.95 else S.draw_class(k))
                            for n, k in S.spec_items(cc) for _ in range(n))
                i = cc + iban_check_digits(cc, b) + b
            else:
                i = S.iban(cc, with_bank=(j % 3 == 1)).upper()
            muts = []
            positions = list(range(2, len(i)))
            if run.tier != "thorough":
                positions = r.sample(positions, min(len(positions), 7)) + [2, 3, 4, len(i) - 1]
            for p in positions:
                pool = DIGITS if i[p] in DIGITS else UPPER
                alts = [x for x in pool if x != i[p]]
                if run.tier != "thorough":
                    alts = r.sample(alts, 3)
                for x in alts:
                    muts.append(i[:p] + x + i[p + 1:])
            for p in range(len(i) - 1):
                a, b2 = i[p], i[p + 1]
                if a != b2 and ((a in DIGITS and b2 in DIGITS) or (a in UPPER and b2 in UPPER)):
                    muts.append(i[:p] + b2 + a + i[p + 2:])
            # "a digit" / "a letter" read as widely as the library's own \d: decimal digits of other
            # scripts (the same and another value) and letters that cleaning does not turn into the
            # original character are different characters of the same kind, and must be rejected too
            for p in r.sample(range(2, len(i)), 2):
                if i[p] in DIGITS:
                    same = [d for d in uni_digits if unicodedata.digit(d) == int(i[p]) and d != i[p]]
                    for x in (r.choice(same), r.choice(uni_digits)):
                        if x != i[p]:
                            muts.append(i[:p] + x + i[p + 1:])
                else:
                    for x in [r.choice(uni_letters)] + case_rel:
                        if common.clean(x) != i[p] and len(common.clean(x)) == 1:
                            muts.append(i[:p] + x + i[p + 1:])
            texts.append(("valid", i))
            texts += [("mutant", m) for m in muts]
    # check-digit values and country codes that occur as literals in the source (a special case for one
    # pair of them must not open a hole), plus the ends of the range: valid IBANs with exactly these
    # check digits, every BBAN position substituted and every adjacent pair transposed
    from streams import source_literals
    _, strs = source_literals()
    lit_cc = [s for s in strs if s in S.table]
    lit_dd = sorted({s for s in strs if len(s) == 2 and s.isdigit() and "02" <= s <= "98"} | {"02", "98"})
    pairs = [(cc, dd) for cc in lit_cc for dd in lit_dd]
    if run.tier != "thorough" and len(pairs) > 1500:
        pairs = r.sample(pairs, 1500)
    for cc, dd in pairs:
        i = S.iban_with_dd(cc, dd)
        if i is None:
            continue
        muts = []
        positions = list(range(4, len(i)))
        if run.tier != "thorough":
            positions = r.sample(positions, min(len(positions), 6))
        for p in positions:
            pool = DIGITS if i[p] in DIGITS else UPPER
            muts.append(i[:p] + r.choice([x for x in pool if x != i[p]]) + i[p + 1:])
            if p + 1 < len(i) and i[p] != i[p + 1] and (i[p] in DIGITS) == (i[p + 1] in DIGITS):
                muts.append(i[:p] + i[p + 1] + i[p] + i[p + 2:])
        texts.append(("valid", i))
        texts += [("mutant", m) for m in muts]
    n_fail = 0
    for k, (kind, t) in enumerate(texts):
        if k % 40 == 0:     # failing assembly calls in between (they must not disturb later validations)
            ops.append(["iban.from_bban", hx("DE"), hx("3704004405320130")])
            ops.append(["iban.generate", hx("BE"), hx("539"), hx("00754703499"), "-"])
            n_fail += 2
        ops.append(["iban.new", hx(t), "F", "F"])
    reals, _ = run.correspond("typing errors", ops, nontrivial_iban)
    it = iter(texts)
    for f, a in zip(ops, reals):
        if f[0] != "iban.new":
            continue
        kind, t = next(it)
        if kind == "valid" and not a.startswith("ok "):
            run.violation("IBAN(text)", [t], a, "accepted (harness-built valid IBAN)", "base case", op=f)
        if kind == "mutant" and a.startswith("ok "):
            run.violation("IBAN(text with one typing error)", [t], a, "rejected",
                          "single same-kind substitution / adjacent transposition of a valid IBAN", op=f,
                          expected_line="err")


def threads_for(pid, run):
    """Called after the dynamic part of a property about single calls (see thread_search_if_dirty)."""
    if pid in ("C13", "C14", "C15", "C16", "C17", "C18"):
        return
    S = Streams(run.seed * 1000 + 99)
    v1, v2 = S.iban("DE"), S.iban("GB")
    typo = v1[:10] + ("1" if v1[10] != "1" else "2") + v1[11:]
    bad_be = "BE" + iban_check_digits("BE", "539007547035") + "539007547035"
    bad_es = "ES" + iban_check_digits("ES", "21000418460200051332") + "21000418460200051332"
    A = [["iban.new", hx(v1), "F", "F"], ["iban.new", hx(typo), "F", "F"]]
    B = [["iban.from_bban", hx("DE"), hx(v1[4:])], ["iban.from_bban", hx("GB"), hx(v2[4:])]]
    C = [["iban.new", hx(bad_be), "F", "T"], ["iban.new", hx(bad_es), "F", "T"]]
    D = [["iban.generate", hx("BE"), hx("539"), hx("0075470"), hx("")], ["iban.new", hx(bad_be), "F", "T"]]
    E = [["bic.from_bank_code", hx("DE"), hx("43060967")], ["bban.bank", hx("DE"), hx("370400440532013000")]]
    F = [["bic.new", hx("GENODEM1GLS"), "F", "F"], ["bic.new", hx("GENODEM1GL"), "F", "F"]]
    pairs = {"C01": [A, B], "C02": [B, A], "C03": [A, B], "C04": [F], "C05": [A, C, F], "C06": [C, D],
             "C07": [C, E], "C08": [D, B], "C09": [D, C], "C10": [A, F], "C11": [A, E], "C12": [E]}[pid]
    thread_search_if_dirty(run, pairs)
