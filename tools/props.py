"""Per-property dynamic parts: correspondence streams (model vs implementation) and the
implementation-vs-Spec checks that double as the failing-input search."""
from __future__ import annotations

from realops import common, hx, real, unhx
from streams import DIGITS, UPPER, Streams, U, iban_check_digits

PROPS: dict = {}


def prop(pid, rule, note, extra=None):
    def deco(f):
        PROPS[pid] = {"dynamic": f, "rule": rule, "note": note, "extra": extra}
        return f
    return deco


# --------------------------------------------------------------------------- C10
@prop("C10",
      rule="cases = texts (valid IBANs/BICs of every country, single-defect mutants, malformed texts) "
           "x decorated variants (random insertions of each of the \\s code points, ASCII case flips); "
           "non-trivial = distinct (base, variant) pair whose variant differs from the base text",
      note="partial tie: the theorems are about the model's `clean`; that every constructor sees its "
           "argument only through `clean` is validated by the correspondence streams")
def c10(run):
    S = Streams(run.seed * 1000 + 10)
    _, spaces, _ = U()
    n = run.scale(6, 200)
    ops = []
    cases = []
    for cc in S.countries:
        for _ in range(n):
            base = S.iban(cc) if S.r.random() < 0.6 else S.mutate(S.iban(cc))
            cases.append(("iban", base))
    bics = [e["bic"] for e in S.banks if e["bic"]]
    for _ in range(n * 60):
        b = S.r.choice(bics)
        cases.append(("bic", b if S.r.random() < 0.6 else S.mutate(b)))
    for _ in range(n * 30):
        cases.append((S.r.choice(["iban", "bic"]), S.malformed()[:60]))
    # every whitespace code point at least once, at every kind of place
    for w in spaces:
        cases.append(("iban", w + "DE89" + w + w + "370400440532013000" + w))
        cases.append(("bic", "GENO" + w + "DEM1GLS" + w))
    for kind, base in cases:
        var = S.decorate(base)
        c = common.clean(base)
        if kind == "iban":
            a = real(["iban.new", hx(base), "F", "F"])
            b = real(["iban.new", hx(var), "F", "F"])
            ops += [["iban.new", hx(var), "F", "F"], ["clean", hx(var)]]
            if a.startswith("ok"):
                ops.append(["iban.parts", hx(c)])
                f = unhx(real(["iban.parts", hx(c)]).split(" ")[4])
                ok_fmt = real(["iban.new", hx(f), "F", "F"]) == a and \
                    f == " ".join(c[i:i + 4] for i in range(0, len(c), 4))
                if not ok_fmt:
                    run.violation("IBAN.formatted", [base], f, "groups of four; parses back to an equal IBAN",
                                  "format round trip")
        else:
            a = real(["bic.new", hx(base), "F", "F"])
            b = real(["bic.new", hx(var), "F", "F"])
            ops += [["bic.new", hx(var), "F", "F"], ["clean", hx(var)]]
            if a.startswith("ok"):
                ops.append(["bic.parts", hx(c)])
                f = unhx(real(["bic.parts", hx(c)]).split(" ")[5])
                if real(["bic.new", hx(f), "F", "F"]) != a:
                    run.violation("BIC.formatted", [base], f, "parses back to an equal BIC", "format round trip")
        run.count(2, key=(kind, base, var) if var != base else None, tag="variant pair")
        if a != b:
            run.violation(f"{kind.upper()}(text)", [base, var], b, a,
                          "whitespace/case variant of the same text gives a different outcome")
        cv = common.clean(var)
        if any(ch in spaces for ch in cv) or any("a" <= ch <= "z" for ch in cv) or common.clean(cv) != cv:
            run.violation("clean", [var], cv, "no whitespace, no ASCII lower case, idempotent",
                          "compact form check")
    run.correspond("variants", ops)
