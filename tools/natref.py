"""Independent reference implementations of the published national check-digit rules (C06) and of
the Bundesbank methods (C07), written from the published descriptions over BBAN string positions /
account digits d1..d10 — not from schwifty's classes.  Used to populate the accept side of the
streams and as a second oracle next to the Lean Spec."""
from __future__ import annotations


def N(s: str) -> int:
    return int("".join(c if c.isdigit() else str(ord(c) - 55) for c in s))


def mod97_98(b, k):   # last two = 98 - (prefix*100 mod 97)
    return b[k:k + 2] == "%02d" % (98 - N(b[:k]) * 100 % 97)


def mod97_97(b, k):
    return b[k:k + 2] == "%02d" % (97 - N(b[:k]) * 100 % 97)


def be(b):
    r = int(b[0:10]) % 97
    return b[10:12] == "%02d" % (r if r else 97)


FR_MAP = {**{str(i): i for i in range(10)},
          **dict(zip("ABCDEFGHI", range(1, 10))), **dict(zip("JKLMNOPQR", range(1, 10))),
          **dict(zip("STUVWXYZ", range(2, 10)))}


def fr(b):
    digits = "".join(str(FR_MAP[c]) for c in b[0:21])
    return b[21:23] == "%02d" % (97 - int(digits) * 100 % 97)


def es(b):
    w = [1, 2, 4, 8, 5, 10, 9, 7, 3, 6]

    def f(ds):
        x = 11 - sum(a * int(c) for a, c in zip(w, ds)) % 11
        return {11: 0, 10: 1}.get(x, x)
    return b[8] == str(f("00" + b[0:8])) and b[9] == str(f(b[10:20]))


IT_ODD = [1, 0, 5, 7, 9, 13, 15, 17, 19, 21, 2, 4, 18, 20, 11, 3, 6, 8, 12, 14, 16, 10, 22, 25, 24, 23]


def it(b):
    s = 0
    for i, ch in enumerate(b[1:23]):
        v = int(ch) if ch.isdigit() else ord(ch) - 65
        s += IT_ODD[v] if i % 2 == 0 else v
    return b[0] == chr(65 + s % 26)


def fi(b):
    total = 0
    for i, ch in enumerate(reversed(b[0:13])):
        d = int(ch) * (2 if i % 2 == 0 else 1)
        total += d // 10 + d % 10
    return b[13] == str((10 - total % 10) % 10)


def no(b):
    if b[4:6] == "00":
        s = sum(w * int(c) for w, c in zip([5, 4, 3, 2], b[6:10]))
    else:
        s = sum(w * int(c) for w, c in zip([5, 4, 3, 2, 7, 6, 5, 4, 3, 2], b[0:10]))
    c = 11 - s % 11
    if c == 10:
        return False
    return b[10] == str(c % 11)


def pl(b):
    s = sum(w * int(c) for w, c in zip([3, 9, 7, 1, 3, 9, 7], b[0:7]))
    return b[7] == str((10 - s % 10) % 10)


def ee(b):
    ds = b[2:15][::-1]
    s = sum([7, 3, 1][i % 3] * int(c) for i, c in enumerate(ds))
    return b[15] == str((10 - s % 10) % 10)


def czsk(b):
    w = [6, 3, 7, 9, 10, 5, 8, 4, 2, 1]
    a = sum(x * int(c) for x, c in zip(w, b[10:20])) % 11
    p = sum(x * int(c) for x, c in zip(w[4:], b[4:10])) % 11
    return a == 0 and p == 0


def is_(b):
    k = b[12:22]
    r = sum(w * int(c) for w, c in zip([3, 2, 7, 6, 5, 4, 3, 2], k[0:8])) % 11
    if r == 1:
        return False
    return k[8] == str(0 if r == 0 else 11 - r)


NATIONAL = {
    "BE": be, "FR": fr, "MC": fr, "ES": es, "IT": it, "SM": it, "FI": fi, "NO": no, "PL": pl, "EE": ee,
    "CZ": czsk, "SK": czsk, "IS": is_,
    "BA": lambda b: mod97_98(b, 14), "ME": lambda b: mod97_98(b, 16), "MK": lambda b: mod97_98(b, 13),
    "PT": lambda b: mod97_98(b, 19), "RS": lambda b: mod97_98(b, 16), "SI": lambda b: mod97_98(b, 13),
    "TL": lambda b: mod97_98(b, 17),
    "MR": lambda b: mod97_97(b, 21), "TN": lambda b: mod97_97(b, 18),
}

# where the national check digits sit (to populate the accept side by search)
CHECK_FIELD = {
    "BE": (10, 12), "FR": (21, 23), "MC": (21, 23), "ES": (8, 10), "IT": (0, 1), "SM": (0, 1), "FI": (13, 14),
    "NO": (10, 11), "PL": (7, 8), "EE": (15, 16), "IS": (20, 21), "BA": (14, 16), "ME": (16, 18),
    "MK": (13, 15), "PT": (19, 21), "RS": (16, 18), "SI": (13, 15), "TL": (17, 19), "MR": (21, 23),
    "TN": (18, 20),
}


def make_valid(cc: str, b: str, rnd) -> str | None:
    """Replace the national check-digit field so that the reference accepts (None if impossible)."""
    ref = NATIONAL[cc]
    if cc in ("CZ", "SK"):
        # two mod-11 conditions: fix the last digit of each part by search
        for x in "0123456789":
            for y in "0123456789":
                c = b[:9] + x + b[10:19] + y
                if ref(c):
                    return c
        return None
    s, e = CHECK_FIELD[cc]
    width = e - s
    cands = ["%0*d" % (width, k) for k in range(10 ** width)] if cc not in ("IT", "SM") else \
        [chr(65 + k) for k in range(26)]
    for v in cands:
        c = b[:s] + v + b[e:]
        if ref(c):
            return c
    return None


# --------------------------------------------------------------------------- Bundesbank methods
def q(x):
    return sum(int(c) for c in str(x))


def wsum(ds, ws, f=lambda d, w: d * w):
    return sum(f(d, ws[i % len(ws)]) for i, d in enumerate(ds))


def like00(ds_r2l, pz):
    s = wsum(ds_r2l, [2, 1], lambda d, w: q(d * w))
    return pz == (10 - s % 10) % 10


def like01(ds_r2l, ws, pz):
    s = wsum(ds_r2l, ws)
    return pz == (10 - s % 10) % 10


def like02(ds_r2l, ws, pz):
    r = wsum(ds_r2l, ws) % 11
    if r == 0:
        return pz == 0
    if r == 1:
        return False
    return pz == 11 - r


def like06(ds_r2l, ws, pz):
    r = wsum(ds_r2l, ws) % 11
    return pz == (0 if r in (0, 1) else 11 - r)


def de(method: str, acct: str):
    """-> True / False, or a set {True, False} where the published text leaves both readings open."""
    d = [int(c) for c in acct]          # d[0] = d1 … d[9] = d10
    n = int(acct)
    r2l = lambda a, b: d[a - 1:b][::-1]  # digits a..b (1-based), right to left
    m = method
    if m == "00":
        return like00(r2l(1, 9), d[9])
    if m == "01":
        return like01(r2l(1, 9), [3, 7, 1], d[9])
    if m == "02":
        return like02(r2l(1, 9), [2, 3, 4, 5, 6, 7, 8, 9, 2], d[9])
    if m == "03":
        return like01(r2l(1, 9), [2, 1], d[9])
    if m == "04":
        return like02(r2l(1, 9), [2, 3, 4, 5, 6, 7, 2, 3, 4], d[9])
    if m == "05":
        return like01(r2l(1, 9), [7, 3, 1], d[9])
    if m == "06":
        return like06(r2l(1, 9), [2, 3, 4, 5, 6, 7, 2, 3, 4], d[9])
    if m == "07":
        return like02(r2l(1, 9), [2, 3, 4, 5, 6, 7, 8, 9, 10], d[9])
    if m == "08":
        return True if n < 60000 else like00(r2l(1, 9), d[9])
    if m == "09":
        return True
    if m == "10":
        return like06(r2l(1, 9), [2, 3, 4, 5, 6, 7, 8, 9, 10], d[9])
    if m == "11":
        r = wsum(r2l(1, 9), [2, 3, 4, 5, 6, 7, 8, 9, 10]) % 11
        return d[9] == (0 if r == 0 else 9 if r == 1 else 11 - r)
    if m == "13":
        core = like00(r2l(2, 7), d[7])
        retry = d[8] == 0 and d[9] == 0 and False  # placeholder, see below
        # recommended second attempt: sub-account "00" omitted -> shift left by two
        shifted = acct[2:] + "00"
        ds = [int(c) for c in shifted]
        retry = like00(ds[1:7][::-1], ds[7])
        return True if core else ({True, False} if retry else False)
    if m == "14":
        return like02(r2l(4, 9), [2, 3, 4, 5, 6, 7], d[9])
    if m == "15":
        return like06(r2l(6, 9), [2, 3, 4, 5], d[9])
    if m == "16":
        r = wsum(r2l(1, 9), [2, 3, 4, 5, 6, 7, 2, 3, 4]) % 11
        if r == 1 and d[8] == d[9]:
            return True
        return d[9] == (0 if r in (0, 1) else 11 - r)
    if m == "17":
        s = wsum(d[1:7], [1, 2], lambda x, w: q(x * w))
        r = (s - 1) % 11
        return d[7] == (0 if r == 0 else 10 - r)
    if m == "18":
        return like01(r2l(1, 9), [3, 9, 7, 1], d[9])
    if m == "19":
        return like06(r2l(1, 9), [2, 3, 4, 5, 6, 7, 8, 9, 1], d[9])
    if m == "20":
        return like06(r2l(1, 9), [2, 3, 4, 5, 6, 7, 8, 9, 3], d[9])
    if m == "21":
        s = wsum(r2l(1, 9), [2, 1], lambda x, w: q(x * w))
        while s >= 10:
            s = q(s)
        return d[9] == (10 - s) % 10
    if m == "22":
        s = wsum(r2l(1, 9), [3, 1], lambda x, w: (x * w) % 10)
        return d[9] == (10 - s % 10) % 10
    if m == "23":
        r = wsum(r2l(1, 6), [2, 3, 4, 5, 6, 7]) % 11
        if r == 1 and d[5] == d[6]:
            return True
        return d[6] == (0 if r in (0, 1) else 11 - r)
    if m == "24":
        ds = d[0:9]
        if ds[0] in (3, 4, 5, 6):
            ds = ds[1:]
        elif ds[0] == 9:
            ds = ds[3:]
        while ds and ds[0] == 0:
            ds = ds[1:]
        s = sum((x * [1, 2, 3][i % 3] + [1, 2, 3][i % 3]) % 11 for i, x in enumerate(ds))
        return d[9] == s % 10
    if m == "25":
        r = wsum(r2l(2, 9), [2, 3, 4, 5, 6, 7, 8, 9]) % 11
        if r == 0:
            return d[9] == 0
        if r == 1:
            return d[9] == 0 and d[1] in (8, 9)
        return d[9] == 11 - r
    if m == "26":
        a = acct[2:] + "00" if acct.startswith("00") else acct
        ds = [int(c) for c in a]
        return like06(ds[0:7][::-1], [2, 3, 4, 5, 6, 7, 2], ds[7])
    if m == "28":
        return like06(r2l(1, 7), [2, 3, 4, 5, 6, 7, 8], d[7])
    if m == "32":
        return like06(r2l(4, 9), [2, 3, 4, 5, 6, 7], d[9])
    if m == "33":
        return like06(r2l(5, 9), [2, 3, 4, 5, 6], d[9])
    if m == "34":
        return like06(r2l(1, 7), [2, 4, 8, 5, 10, 9, 7], d[7])
    if m == "38":
        return like06(r2l(4, 9), [2, 4, 8, 5, 10, 9], d[9])
    if m == "60":
        return like00(r2l(3, 9), d[9])
    if m == "61":
        ds = d[0:7] + (d[8:10] if d[8] == 8 else [])
        s = wsum(ds, [2, 1], lambda x, w: q(x * w))
        return d[7] == (10 - s % 10) % 10
    if m == "63":
        if d[0] != 0:
            return False
        core = like00(r2l(2, 7), d[7])
        if core:
            return True
        if acct.startswith("000"):
            ds = [int(c) for c in acct[2:] + "00"]
            if like00(ds[1:7][::-1], ds[7]):
                return {True, False}
        return False
    if m == "68":
        if d[0] != 0:                       # ten-digit number
            if d[3] != 9:
                return False
            return like00(r2l(4, 9), d[9])
        if 400000000 <= n <= 499999999:
            return True
        v1 = like00(r2l(2, 9), d[9])
        v2 = like00((d[1:2] + d[4:9])[::-1], d[9])
        return v1 or v2
    if m == "76":
        if d[0] not in (0, 4, 6, 7, 8, 9):
            return False
        r = wsum(r2l(2, 7), [2, 3, 4, 5, 6, 7]) % 11
        if r == 10:
            return False
        return d[7] == r
    if m == "88":
        if d[2] == 9:
            return like06(r2l(3, 9), [2, 3, 4, 5, 6, 7, 8], d[9])
        return like06(r2l(4, 9), [2, 3, 4, 5, 6, 7], d[9])
    if m == "91":
        v1 = like06(r2l(1, 6), [2, 3, 4, 5, 6, 7], d[6])
        v2 = like06(r2l(1, 6), [7, 6, 5, 4, 3, 2], d[6])
        v3 = like06(d[0:10][::-1], [2, 3, 4, 0, 5, 6, 7, 8, 9, 10], d[6])
        v4 = like06(r2l(1, 6), [2, 4, 8, 5, 10, 9], d[6])
        return v1 or v2 or v3 or v4
    if m == "99":
        if 396000000 <= n <= 499999999:
            return True
        return like06(r2l(1, 9), [2, 3, 4, 5, 6, 7, 2, 3, 4], d[9])
    return None
