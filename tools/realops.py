"""The line protocol, evaluated on the real library (in-process).

`real(op_fields)` returns the canonical result line for one operation, the same line the Lean
driver prints for the model.  Strings travel as dot-separated hex code points (`-` = empty).
"""
from __future__ import annotations

import os
import sys

REPO = os.environ.get("VERIF_REPO", "/repo")
if REPO not in sys.path:
    sys.path.insert(0, REPO)

import schwifty  # noqa: E402
from schwifty import BIC, IBAN, checksum, common, exceptions, registry  # noqa: E402
from schwifty.bban import BBAN  # noqa: E402
from schwifty.domain import Component  # noqa: E402

assert os.path.realpath(os.path.dirname(os.path.dirname(schwifty.__file__))) == os.path.realpath(REPO), (
    schwifty.__file__, REPO)

COMPONENT_ORDER = ["account_id", "account_type", "account_code", "account_holder_id",
                   "currency_code", "bank_code", "branch_code", "national_checksum_digits"]


def hx(s: str) -> str:
    return ".".join("%x" % ord(c) for c in s) or "-"


def unhx(s: str) -> str:
    return "" if s == "-" else "".join(chr(int(x, 16)) for x in s.split("."))


def tf(b) -> str:
    return "T" if b is True else "F" if b is False else "?%r" % (b,)


def pb(s: str) -> bool:
    return {"T": True, "F": False}[s]


CRASH = {"ValueError": "ValueError", "KeyError": "KeyError", "IndexError": "IndexError",
         "TypeError": "TypeError", "AssertionError": "AssertionError"}


def outcome(f, show):
    try:
        v = f()
    except exceptions.SchwiftyException as e:
        return "err " + type(e).__name__
    except Exception as e:  # noqa: BLE001
        return "crash " + CRASH.get(type(e).__name__, "Other")
    return "ok " + show(v)


def show_list(l) -> str:
    return "[" + ",".join(hx(str(x)) for x in l) + "]"


def show_opt(v) -> str:
    return "None" if v is None else hx(str(v))


def real(f: list[str]) -> str:
    op = f[0]
    if op in ("reg.reset", "reg.add"):
        return "ok"
    if op == "clean":
        return "ok " + hx(common.clean(unhx(f[1])))
    if op == "iban.new":
        return outcome(lambda: IBAN(unhx(f[1]), allow_invalid=pb(f[2]), validate_bban=pb(f[3])),
                       lambda o: hx(str(o)))
    if op == "iban.validate":
        o = IBAN(unhx(f[1]), allow_invalid=True)
        return outcome(lambda: o.validate(pb(f[2])), tf)
    if op == "iban.is_valid":
        o = IBAN(unhx(f[1]), allow_invalid=True)
        return outcome(lambda: o.is_valid, tf)
    if op == "iban.obj_seq":
        # a sequence of calls on ONE object: v = validate(), V = validate(validate_bban=True), i = is_valid
        o = IBAN(unhx(f[1]), allow_invalid=True)
        outs = []
        for step in f[2]:
            if step == "v":
                outs.append(outcome(lambda: o.validate(False), tf))
            elif step == "V":
                outs.append(outcome(lambda: o.validate(True), tf))
            else:
                outs.append(outcome(lambda: o.is_valid, tf))
        return "ok " + ";".join(outs)
    if op == "iban.parts":
        o = IBAN(unhx(f[1]), allow_invalid=True)
        parts = [hx(o.country_code), hx(o.checksum_digits), hx(str(o.bban)), hx(o.formatted)]
        for k in COMPONENT_ORDER:
            parts.append(outcome(lambda k=k: getattr(o.bban, k), hx))
        # the IBAN-level accessors must agree with the BBAN's (C11)
        for k in COMPONENT_ORDER:
            a = outcome(lambda k=k: getattr(o, k), hx)
            b = outcome(lambda k=k: getattr(o.bban, k), hx)
            if a != b:
                return "ok ACCESSOR-MISMATCH " + k
        return "ok " + " ".join(parts)
    if op == "iban.from_bban":
        return outcome(lambda: IBAN.from_bban(unhx(f[1]), unhx(f[2])), lambda o: hx(str(o)))
    if op == "iban.generate":
        return outcome(lambda: IBAN.generate(unhx(f[1]), bank_code=unhx(f[2]),
                                             account_code=unhx(f[3]), branch_code=unhx(f[4])),
                       lambda o: hx(str(o)))
    if op == "bban.from_components":
        kv = dict(x.split("=") for x in f[2:])
        return outcome(lambda: BBAN.from_components(unhx(f[1]), **{k: unhx(v) for k, v in kv.items()}),
                       lambda o: hx(str(o)))
    if op == "bban.national":
        return outcome(lambda: BBAN(unhx(f[1]), unhx(f[2])).validate_national_checksum(), tf)
    if op == "bban.bank":
        b = BBAN(unhx(f[1]), unhx(f[2]))

        def show_bank(e):
            if e is None:
                return "None"
            return " ".join([hx(e["bank_code"]), "None" if e["bic"] is None else hx(e["bic"]),
                             hx(e["name"]), hx(e["short_name"])])
        return outcome(lambda: b.bank, show_bank) + " | " + outcome(lambda: b.bic, show_opt)
    if op == "bic.new":
        return outcome(lambda: BIC(unhx(f[1]), allow_invalid=pb(f[2]), enforce_swift_compliance=pb(f[3])),
                       lambda o: hx(str(o)))
    if op == "bic.validate":
        o = BIC(unhx(f[1]), allow_invalid=True)
        return outcome(lambda: o.validate(pb(f[2])), tf)
    if op == "bic.is_valid":
        o = BIC(unhx(f[1]), allow_invalid=True)
        return outcome(lambda: o.is_valid, tf)
    if op == "bic.parts":
        o = BIC(unhx(f[1]), allow_invalid=True)
        return "ok " + " ".join(hx(x) for x in
                                [o.bank_code, o.country_code, o.location_code, o.branch_code, o.formatted])
    if op == "bic.candidates":
        return outcome(lambda: BIC.candidates_from_bank_code(unhx(f[1]), unhx(f[2])), show_list)
    if op == "bic.from_bank_code":
        return outcome(lambda: BIC.from_bank_code(unhx(f[1]), unhx(f[2])), lambda o: hx(str(o)))
    if op == "bic.lookup":
        o = BIC(unhx(f[1]), allow_invalid=True)
        return "ok " + " ".join([show_list(o.domestic_bank_codes), show_list(o.bank_names),
                                 show_list(o.bank_short_names), tf(o.exists)])
    if op == "algo.compute":
        a = checksum.algorithms.get(unhx(f[1]))
        if a is None:
            return "none"
        return outcome(lambda: a.compute([unhx(x) for x in f[2:]]), hx)
    if op == "algo.validate":
        a = checksum.algorithms.get(unhx(f[1]))
        if a is None:
            return "none"
        return outcome(lambda: a.validate([unhx(x) for x in f[3:]], unhx(f[2])), tf)
    raise ValueError("unknown op " + op)


def registry_lines(entries) -> list[list[str]]:
    """`reg.reset` + one `reg.add` per bank entry (file order)."""
    out = [["reg.reset"]]
    for e in entries:
        if "checksum_algo" not in e:
            algo = "absent"
        elif e["checksum_algo"] is None:
            algo = "null"
        else:
            algo = hx(e["checksum_algo"])
        out.append(["reg.add", hx(e["country_code"]), hx(e["bank_code"]),
                    "null" if e["bic"] is None else hx(e["bic"]), tf(e["primary"]), algo,
                    hx(e["name"]), hx(e["short_name"])])
    return out
