"""The line protocol, evaluated on the real library (in-process).

`real(op_fields)` returns the canonical result line for one operation, the same line the Lean
driver prints for the model.  Strings travel as dot-separated hex code points (`-` = empty).
"""
from __future__ import annotations

import os
import sys

REPO = os.environ.get("VERIF_REPO", "/repo")
if REPO not in sys.path:
    sys.path.insert(0, REPO)

import schwifty  # noqa: E402
from schwifty import BIC, IBAN, checksum, common, exceptions, registry  # noqa: E402
from schwifty.bban import BBAN  # noqa: E402
from schwifty.domain import Component  # noqa: E402

assert os.path.realpath(os.path.dirname(os.path.dirname(schwifty.__file__))) == os.path.realpath(REPO), (
    schwifty.__file__, REPO)

COMPONENT_ORDER = ["account_id", "account_type", "account_code", "account_holder_id",
                   "currency_code", "bank_code", "branch_code", "national_checksum_digits"]


def hx(s: str) -> str:
    return ".".join("%x" % ord(c) for c in s) or "-"


def unhx(s: str) -> str:
    return "" if s == "-" else "".join(chr(int(x, 16)) for x in s.split("."))


# ---- carriers: the text argument handed over as a str-subclass object holding the same characters
_carrier = [None]


class _S(str):
    """a plain str subclass"""


def txt(s: str) -> str:
    """decode the main text argument; under `op@carrier` it is passed as an object, not a plain str"""
    v = unhx(s)
    c = _carrier[0]
    if c == "iban":
        return IBAN(v, allow_invalid=True)
    if c == "bic":
        return BIC(v, allow_invalid=True)
    if c == "sub":
        return _S(v)
    if c in ("viban", "vbic"):      # an object that went through the default validation, if it passes
        cls = IBAN if c == "viban" else BIC
        try:
            return cls(v)
        except Exception:  # noqa: BLE001
            return cls(v, allow_invalid=True)
    return v


CARRIED = ("iban.new", "iban.validate", "iban.is_valid", "iban.parts", "bic.new", "bic.validate",
           "bic.is_valid", "bic.parts", "bic.lookup")


def tf(b) -> str:
    return "T" if b is True else "F" if b is False else "?%r" % (b,)


def pb(s: str) -> bool:
    return {"T": True, "F": False}[s]


CRASH = {"ValueError": "ValueError", "KeyError": "KeyError", "IndexError": "IndexError",
         "TypeError": "TypeError", "AssertionError": "AssertionError"}


# objects the library returned stay alive for a while, as they do in a caller's data structures
# (state attached to live objects - interning tables, weak caches - is then visible to later calls)
_alive = __import__("collections").deque(maxlen=256)


def outcome(f, show):
    try:
        v = f()
        _alive.append(v)
    except exceptions.SchwiftyException as e:
        return "err " + type(e).__name__
    except Exception as e:  # noqa: BLE001
        return "crash " + CRASH.get(type(e).__name__, "Other")
    return "ok " + show(v)


def show_list(l) -> str:
    return "[" + ",".join(hx(str(x)) for x in l) + "]"


def show_opt(v) -> str:
    return "None" if v is None else hx(str(v))


def jenc(v) -> str:
    """JSON value -> protocol tokens (object members sorted by key: canonical)."""
    if v is None:
        return "n"
    if v is True:
        return "t"
    if v is False:
        return "f"
    if isinstance(v, int):
        return "i%d" % v
    if isinstance(v, str):
        return "s" + hx(v)
    if isinstance(v, (list, tuple)):
        return " ".join(["a%d" % len(v)] + [jenc(x) for x in v])
    if isinstance(v, dict):
        out = ["o%d" % len(v)]
        for k in sorted(v):
            out += [hx(k), jenc(v[k])]
        return " ".join(out)
    raise TypeError(type(v))


def jdec(s: str):
    toks = s.split(" ")
    pos = [0]

    def go():
        t = toks[pos[0]]
        pos[0] += 1
        if t == "n":
            return None
        if t == "t":
            return True
        if t == "f":
            return False
        if t[0] == "i":
            return int(t[1:])
        if t[0] == "s":
            return unhx(t[1:])
        if t[0] == "a":
            return [go() for _ in range(int(t[1:]))]
        if t[0] == "o":
            d = {}
            for _ in range(int(t[1:])):
                k = unhx(toks[pos[0]])
                pos[0] += 1
                d[k] = go()
            return d
        raise ValueError(t)
    return go()


def real_registry_get(files: dict):
    """registry.get on a directory holding exactly `files` (name -> document)."""
    import json
    import shutil
    import tempfile
    from pathlib import Path
    tmp = tempfile.mkdtemp(prefix="svreg")
    name = "t" + os.path.basename(tmp)
    try:
        d = os.path.join(tmp, name + "_registry")
        os.makedirs(d)
        for fn, doc in files.items():
            with open(os.path.join(d, fn), "w", encoding="utf-8") as fp:
                json.dump(doc, fp)
        old = registry.files
        registry.files = lambda pkg: Path(tmp)
        try:
            return "ok " + jenc(registry.get(name))
        except Exception:  # noqa: BLE001
            return "exception"
        finally:
            registry.files = old
            registry._registry.pop(name, None)
    finally:
        shutil.rmtree(tmp, ignore_errors=True)


_synthetic = {"active": False, "entries": [], "saved": None}


def _synthetic_install(entries):
    """Make the library use `entries` as its bank registry (indexes rebuilt by the library's own
    build_index calls); the bundled one is kept for restoring."""
    if _synthetic["saved"] is None:
        _synthetic["saved"] = {k: registry._registry[k] for k in ("bank", "bank_code", "bic", "country")}
    registry.save("bank", entries)
    registry.build_index("bank", "country", key="country_code", accumulate=True)
    registry.build_index("bank", index_name="bic", key="bic", accumulate=True)
    registry.build_index("bank", index_name="bank_code", key=("country_code", "bank_code"), accumulate=True)


def _synthetic_restore():
    if _synthetic["saved"] is not None:
        for k, v in _synthetic["saved"].items():
            registry._registry[k] = v
        _synthetic["saved"] = None
    _synthetic["active"] = False


def parts_line(o) -> str:
    parts = [hx(o.country_code), hx(o.checksum_digits), hx(str(o.bban)), hx(o.formatted)]
    for k in COMPONENT_ORDER:
        parts.append(outcome(lambda k=k: getattr(o.bban, k), hx))
    # the IBAN-level accessors must agree with the BBAN's (C11)
    for k in COMPONENT_ORDER:
        a = outcome(lambda k=k: getattr(o, k), hx)
        b = outcome(lambda k=k: getattr(o.bban, k), hx)
        if a != b:
            return "ok ACCESSOR-MISMATCH " + k
    if getattr(o.bban, "country_code", None) != o.country_code:
        return "ok BBAN-COUNTRY-MISMATCH " + hx(str(getattr(o.bban, "country_code", None)))
    return "ok " + " ".join(parts)


def real(f: list[str]) -> str:
    """The result line of one operation.  Whatever the library raises where the harness did not expect
    an exception (e.g. while building an object with validation off) is the outcome of the operation,
    not an error of the harness."""
    try:
        return _real(f)
    except exceptions.SchwiftyException as e:
        return "err " + type(e).__name__
    except (ValueError, LookupError, TypeError, AssertionError, AttributeError, RecursionError) as e:
        if f and f[0] in ("seq",) or (f and f[0].startswith("reg.")):
            raise
        return "crash " + CRASH.get(type(e).__name__, "Other")


def _real(f: list[str]) -> str:
    op = f[0]
    if "@" in op:
        base, _carrier[0] = op.split("@", 1)
        try:
            return _real([base] + list(f[1:]))
        finally:
            _carrier[0] = None
    if op == "reg.synthetic":          # reg.reset on the model side; start collecting entries
        _synthetic["active"] = True
        _synthetic["entries"] = []
        _synthetic_install([])
        return "ok"
    if op == "reg.bundled":            # back to the bundled registry (model: reg.reset)
        _synthetic_restore()
        return "ok"
    if op == "reg.add" and _synthetic["active"]:
        e = {"country_code": unhx(f[1]), "bank_code": unhx(f[2]),
             "bic": None if f[3] == "null" else unhx(f[3]), "primary": pb(f[4]),
             "name": unhx(f[6]), "short_name": unhx(f[7])}
        if f[5] != "absent":
            e["checksum_algo"] = None if f[5] == "null" else unhx(f[5])
        _synthetic["entries"].append(e)
        _synthetic_install(list(_synthetic["entries"]))
        return "ok"
    if op in ("reg.reset", "reg.add"):
        return "ok"
    if op in ("obj.cmp", "obj.copy"):
        def make(k, s):
            if k == "iban":
                return IBAN(s, allow_invalid=True)
            if k == "bic":
                return BIC(s, allow_invalid=True)
            if k == "str":
                return s
            return BBAN(unhx(k[5:]), s)
        if op == "obj.cmp":
            a, b = make(f[1], unhx(f[2])), make(f[3], unhx(f[4]))
            vals = [a == b, a != b, a < b, a <= b, a > b, a >= b, hash(a) == hash(b), {a: 1}.get(b) == 1]
            srt = sorted([a, b]) == sorted([a, b], key=str) and sorted([b, a]) == sorted([a, b], key=str)
            return "ok " + " ".join(tf(bool(v)) for v in vals) + ("" if srt else " SORT-MISMATCH")
        import copy
        import pickle
        o = make(f[1], unhx(f[2]))
        hash(o)
        how = f[3]

        def do():
            if how == "copy":
                return copy.copy(o)
            if how == "deepcopy":
                return copy.deepcopy(o)
            return pickle.loads(pickle.dumps(o, int(how[6:])))

        def show(n):
            if type(n) is not type(o):
                return "WRONG-CLASS " + type(n).__name__
            extra = ""
            if isinstance(o, IBAN):
                if type(n.bban) is not BBAN or str(n.bban) != str(o.bban) or \
                        n.bban.country_code != o.bban.country_code:
                    return "BBAN-MISMATCH"
                if how != "copy" and n.bban is o.bban:
                    return "BBAN-SHARED"
            if n != o or hash(n) != hash(str(n)) or {str(n): 1}.get(n) != 1 or n.__dict__.keys() != o.__dict__.keys():
                return "NOT-EQUAL"
            cc = getattr(n, "country_code", None) if isinstance(o, BBAN) else None
            return type(n).__name__ + " " + hx(str(n)) + " " + ("-" if cc is None else hx(cc))
        return outcome(do, show)
    if op == "obj.persist":
        # an IBAN object is observed, then handed to every kind of library call that takes a text or an
        # object (constructors of all three classes under its own and under another country, from_bban,
        # copies, comparisons, validation, lookups), then observed again: nothing may have changed
        import copy
        import pickle
        o = IBAN(unhx(f[1]), allow_invalid=True)
        other = unhx(f[2])
        b = o.bban

        def observe():
            return parts_line(o) + " | " + outcome(lambda: o.bban.bank, lambda e: "-" if e is None else hx(str(e.get("bic")))) \
                + " | " + outcome(lambda: o.country, lambda c: "-" if c is None else hx(c.alpha_2)) \
                + " | " + hx(str(b)) + " " + hx(str(getattr(b, "country_code", "")))
        before = observe()
        own = str(o)[:2]
        touches = [
            lambda: BBAN(own, b), lambda: BBAN(other, b), lambda: BBAN(other, o),
            lambda: BIC("ABCD" + own + "22", allow_invalid=True).country,
            lambda: BIC("ABCD" + own + "22").exists,
            lambda: IBAN(o), lambda: IBAN(o, allow_invalid=True), lambda: IBAN(b, allow_invalid=True),
            lambda: IBAN.from_bban(other, b, allow_invalid=True), lambda: IBAN.from_bban(own, b),
            lambda: IBAN.from_bban(other, str(b), allow_invalid=True),
            lambda: BIC(o, allow_invalid=True), lambda: BIC(b, allow_invalid=True),
            lambda: BIC(str(o)[:4] + other + str(o)[6:8], allow_invalid=True).country,
            lambda: copy.copy(o), lambda: copy.deepcopy(o), lambda: pickle.loads(pickle.dumps(o)),
            lambda: (o == b, o < b, hash(o), sorted([o, b, str(o)])), lambda: o.validate(), lambda: o.validate(True),
            lambda: o.is_valid, lambda: o.bic, lambda: o.bank_name, lambda: b.validate_national_checksum(),
            lambda: IBAN.generate(other, "1", "1"), lambda: IBAN.generate(own, o.bank_code, o.account_code),
            lambda: IBAN.random(other, random=__import__("random").Random(1)),
        ]
        for n, t in enumerate(touches):
            try:
                t()
            except Exception:  # noqa: BLE001
                pass
            after = observe()      # after EVERY call (a later call may undo what an earlier one did)
            if after != before:
                return "ok CHANGED-BY-CALL-%d " % n + before.replace(" ", "_") + " -> " + after.replace(" ", "_")
        return "ok SAME"
    if op == "json.merge":
        import copy
        l, r = jdec(f[1]), jdec(f[2])
        l0, r0 = copy.deepcopy(l), copy.deepcopy(r)
        out = registry.merge_dicts(l, r)
        if l != l0 or r != r0:
            return "ok INPUT-MODIFIED"
        return "ok " + jenc(out)
    if op == "json.parse_v2":
        try:
            return "ok " + jenc(registry.parse_v2(jdec(f[1])))
        except Exception:  # noqa: BLE001
            return "exception"
    if op == "registry.get":
        return real_registry_get({unhx(x.split("=")[0]): jdec(x.split("=")[1]) for x in f[1:]})
    if op == "clean":
        return "ok " + hx(common.clean(unhx(f[1])))
    if op == "iban.new":
        return outcome(lambda: IBAN(txt(f[1]), allow_invalid=pb(f[2]), validate_bban=pb(f[3])),
                       lambda o: hx(str(o)))
    if op == "iban.validate":
        o = IBAN(txt(f[1]), allow_invalid=True)
        return outcome(lambda: o.validate(pb(f[2])), tf)
    if op == "iban.is_valid":
        o = IBAN(txt(f[1]), allow_invalid=True)
        return outcome(lambda: o.is_valid, tf)
    if op == "iban.obj_seq":
        # a sequence of calls on ONE object: v = validate(), V = validate(validate_bban=True), i = is_valid
        o = IBAN(unhx(f[1]), allow_invalid=True)
        outs = []
        for step in f[2]:
            if step == "v":
                outs.append(outcome(lambda: o.validate(False), tf))
            elif step == "V":
                outs.append(outcome(lambda: o.validate(True), tf))
            else:
                outs.append(outcome(lambda: o.is_valid, tf))
        return "ok " + ";".join(outs)
    if op == "iban.parts":
        return parts_line(IBAN(txt(f[1]), allow_invalid=True))
    if op == "iban.via_bban":
        # IBAN.from_bban with the BBAN handed over as a str, as a BBAN object of the same country or as
        # a BBAN object made for ANOTHER country; answer = the accessor line of the resulting object
        cc, v, how = unhx(f[1]), unhx(f[2]), f[3]
        if how == "str":
            arg = v
        elif how == "same":
            arg = BBAN(cc, v)
        else:
            arg = BBAN(how.split(":")[1], v)
        try:
            o = IBAN.from_bban(cc, arg, allow_invalid=True)
        except exceptions.SchwiftyException as e:
            return "err " + type(e).__name__
        except Exception as e:  # noqa: BLE001
            return "crash " + CRASH.get(type(e).__name__, "Other")
        return parts_line(o)
    if op == "iban.from_bban":
        return outcome(lambda: IBAN.from_bban(unhx(f[1]), unhx(f[2])), lambda o: hx(str(o)))
    if op == "iban.generate":
        return outcome(lambda: IBAN.generate(unhx(f[1]), bank_code=unhx(f[2]),
                                             account_code=unhx(f[3]), branch_code=unhx(f[4])),
                       lambda o: hx(str(o)))
    if op == "iban.random":
        from random import Random
        kv = dict(x.split("=") for x in f[4:])
        return outcome(lambda: IBAN.random(unhx(f[1]), random=Random(int(f[2])), use_registry=pb(f[3]),
                                           **{k: unhx(v) for k, v in kv.items()}),
                       lambda o: hx(str(o)))
    if op == "bban.from_components":
        kv = dict(x.split("=") for x in f[2:])
        return outcome(lambda: BBAN.from_components(unhx(f[1]), **{k: unhx(v) for k, v in kv.items()}),
                       lambda o: hx(str(o)))
    if op == "bban.national":
        return outcome(lambda: BBAN(unhx(f[1]), unhx(f[2])).validate_national_checksum(), tf)
    if op == "bban.bank":
        b = BBAN(unhx(f[1]), unhx(f[2]))

        def show_bank(e):
            if e is None:
                return "None"
            return " ".join([hx(e["bank_code"]), "None" if e["bic"] is None else hx(e["bic"]),
                             hx(e["name"]), hx(e["short_name"])])
        return outcome(lambda: b.bank, show_bank) + " | " + outcome(lambda: b.bic, show_opt)
    if op == "bic.new":
        return outcome(lambda: BIC(txt(f[1]), allow_invalid=pb(f[2]), enforce_swift_compliance=pb(f[3])),
                       lambda o: hx(str(o)))
    if op == "bic.validate":
        o = BIC(txt(f[1]), allow_invalid=True)
        return outcome(lambda: o.validate(pb(f[2])), tf)
    if op == "bic.is_valid":
        o = BIC(txt(f[1]), allow_invalid=True)
        return outcome(lambda: o.is_valid, tf)
    if op == "bic.parts":
        o = BIC(txt(f[1]), allow_invalid=True)
        return "ok " + " ".join(hx(x) for x in
                                [o.bank_code, o.country_code, o.location_code, o.branch_code, o.formatted])
    if op == "bic.candidates":
        return outcome(lambda: BIC.candidates_from_bank_code(unhx(f[1]), unhx(f[2])), show_list)
    if op == "bic.from_bank_code":
        return outcome(lambda: BIC.from_bank_code(unhx(f[1]), unhx(f[2])), lambda o: hx(str(o)))
    if op == "bic.lookup":
        o = BIC(txt(f[1]), allow_invalid=True)
        return "ok " + " ".join([show_list(o.domestic_bank_codes), show_list(o.bank_names),
                                 show_list(o.bank_short_names), tf(o.exists)])
    if op == "algo.compute":
        a = checksum.algorithms.get(unhx(f[1]))
        if a is None:
            return "none"
        return outcome(lambda: a.compute([unhx(x) for x in f[2:]]), hx)
    if op == "algo.validate":
        a = checksum.algorithms.get(unhx(f[1]))
        if a is None:
            return "none"
        return outcome(lambda: a.validate([unhx(x) for x in f[3:]], unhx(f[2])), tf)
    if op == "seq":          # several operations in order (tab-free encoding: fields joined by ';', ops by '|')
        outs = [real(x.split(";")) for x in f[1].split("|")]
        return outs[-1]
    if op == "algo.validate_many":   # a flood of distinct calls on one algorithm object
        import random as _random
        a = checksum.algorithms.get(unhx(f[1]))
        r_ = _random.Random(int(f[3]))
        n_ok = 0
        for _ in range(int(f[2])):
            acct = "".join(r_.choice("0123456789") for _ in range(10))
            try:
                n_ok += bool(a.validate([acct], ""))
            except exceptions.SchwiftyException:
                pass
        return "ok " + str(n_ok)
    raise ValueError("unknown op " + op)


def registry_lines(entries) -> list[list[str]]:
    """`reg.reset` + one `reg.add` per bank entry (file order)."""
    out = [["reg.reset"]]
    for e in entries:
        if "checksum_algo" not in e:
            algo = "absent"
        elif e["checksum_algo"] is None:
            algo = "null"
        else:
            algo = hx(str(e["checksum_algo"]))      # the library formats whatever value is there into the key
        out.append(["reg.add", hx(e["country_code"]), hx(e["bank_code"]),
                    "null" if e["bic"] is None else hx(e["bic"]), tf(e["primary"]), algo,
                    hx(e["name"]), hx(e["short_name"])])
    return out
